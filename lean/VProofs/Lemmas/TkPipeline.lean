import VModel.Tantivy
import VProofs.C01
import VProofs.C15
import VProofs.Lemmas.TkNorm
/-!
# TkPipeline — the core pipeline (normalise, `from_raw`, predict, line-break filter, configured filters) keeps one
decided boundary per adjacent pair of characters
-/
namespace V.C16L
open V

theorem fromRaw_ok (x : List Char) (hne : x ≠ []) (hnul : '\x00' ∉ x) :
    Sentence.fromRaw x = .ok (Sentence.mkRaw x) := by
  rcases parseRaw_cases x with ⟨e, h⟩ | ⟨_, h⟩
  · unfold parseRaw at h
    rw [if_neg (by simpa using hnul), if_neg (by simpa using hne)] at h
    cases h
  · unfold Sentence.fromRaw
    rw [h]
    rfl

/-- the state the pipeline keeps after prediction: a consistent sentence over `N` characters with no unknown boundary -/
structure Good (N : Nat) (s : Sentence) : Prop where
  inv : Inv s
  len : s.text.length = N
  noU : ∀ b ∈ s.bounds, b ≠ B.U

theorem noU_pointwise {old bs : List B} (ho : ∀ b ∈ old, b ≠ B.U) (hl : bs.length = old.length)
    (hp : ∀ i, i < old.length → ∃ c, bs[i]? = some c ∧ (c = B.W ∨ c = B.N ∨ c = old.getD i B.U)) :
    ∀ b ∈ bs, b ≠ B.U := by
  intro b hb
  obtain ⟨i, hi, rfl⟩ := List.getElem_of_mem hb
  obtain ⟨c, hc, hcase⟩ := hp i (hl ▸ hi)
  rw [List.getElem?_eq_getElem hi] at hc
  injection hc with hc
  rw [hc]
  rcases hcase with h | h | h
  · rw [h]; decide
  · rw [h]; decide
  · rw [h, List.getD_eq_getElem?_getD, List.getElem?_eq_getElem (hl ▸ hi)]
    exact ho _ (List.getElem_mem _)

theorem good_bounds {N : Nat} {s : Sentence} (h : Good N s) {bs : List B} (hl : bs.length = s.bounds.length)
    (hp : ∀ i, i < s.bounds.length → ∃ c, bs[i]? = some c ∧ (c = B.W ∨ c = B.N ∨ c = s.bounds.getD i B.U)) :
    Good N { s with bounds := bs } :=
  ⟨Inv.ofC (C15L.invC_bounds h.inv.toC hl), h.len, noU_pointwise h.noU hl hp⟩

theorem good_linebreaks {N : Nat} {s : Sentence} (h : Good N s) :
    ∃ s', filterLinebreaks s = .ok s' ∧ Good N s' ∧ s'.bounds.length = s.bounds.length := by
  obtain ⟨bs, h1, h2, h3⟩ := C15_linebreaks s h.inv
  refine ⟨_, h1, good_bounds h h2 fun i hi => ⟨_, h3 i hi, ?_⟩, h2⟩
  split
  · exact Or.inl rfl
  · exact Or.inr (Or.inr rfl)

theorem good_wsconst {N : Nat} {s : Sentence} (h : Good N s) (t : Nat) :
    ∃ s', filterWsConst t s = .ok s' ∧ Good N s' ∧ s'.bounds.length = s.bounds.length := by
  obtain ⟨bs, h1, h2, h3⟩ := C15_wsconst t s h.inv
  refine ⟨_, h1, good_bounds h h2 fun i hi => ⟨_, h3 i hi, ?_⟩, h2⟩
  split
  · exact Or.inr (Or.inl rfl)
  · exact Or.inr (Or.inr rfl)

theorem good_graphemes {N : Nat} {s : Sentence} (h : Good N s) (ls : List Nat) (hpos : ∀ l ∈ ls, 1 ≤ l)
    (hsum : ls.sum = N) :
    ∃ s', filterGraphemes ls s = .ok s' ∧ Good N s' ∧ s'.bounds.length = s.bounds.length := by
  obtain ⟨bs, h1, h2, h3⟩ := C15_graphemes ls s h.inv hpos (hsum.trans h.len.symm)
  refine ⟨_, h1, good_bounds h h2 fun i hi => ⟨_, h3 i hi, ?_⟩, h2⟩
  split
  · exact Or.inr (Or.inr rfl)
  · exact Or.inr (Or.inl rfl)

/-- what `buildPostFilters` can produce -/
def FilterOK (clusters : List Nat) (f : PostFilter) : Prop := (∃ t, f = .ws t) ∨ f = .graphemes clusters

theorem buildPostFilters_shape (clusters : List Nat) : ∀ (ws : List Char) (fs : List PostFilter),
    buildPostFilters ws clusters = .ok fs → ∀ f ∈ fs, FilterOK clusters f
  | [], fs, h => by
    injection h with h
    subst h
    intro f hf
    cases hf
  | c :: ws, fs, h => by
    have ih := buildPostFilters_shape clusters ws
    unfold buildPostFilters at h ih
    rw [List.foldr_cons] at h
    split at h
    · next l hl =>
      have ih' := ih l hl
      split at h <;> first
        | (injection h with h; subst h; intro f hf
           rcases List.mem_cons.mp hf with hf | hf
           · subst hf; first | exact Or.inl ⟨_, rfl⟩ | exact Or.inr rfl
           · exact ih' f hf)
        | cases h
    · next hne =>
      exact absurd h (by
        intro h'
        exact hne fs h')

theorem good_applyPostFilters {N : Nat} (clusters : List Nat) (hpos : ∀ l ∈ clusters, 1 ≤ l) (hsum : clusters.sum = N) :
    ∀ (fs : List PostFilter) (s : Sentence), (∀ f ∈ fs, FilterOK clusters f) → Good N s →
      ∃ s', applyPostFilters fs s = .ok s' ∧ Good N s' ∧ s'.bounds.length = s.bounds.length
  | [], s, _, h => ⟨s, rfl, h, rfl⟩
  | f :: r, s, hf, h => by
    have hr : ∀ f ∈ r, FilterOK clusters f := fun f hm => hf f (List.mem_cons_of_mem _ hm)
    rcases hf f List.mem_cons_self with ⟨t, rfl⟩ | rfl
    · obtain ⟨s1, h1, g1, l1⟩ := good_wsconst h t
      obtain ⟨s2, h2, g2, l2⟩ := good_applyPostFilters clusters hpos hsum r s1 hr g1
      exact ⟨s2, by simp only [applyPostFilters, h1, h2], g2, l2.trans l1⟩
    · obtain ⟨s1, h1, g1, l1⟩ := good_graphemes h clusters hpos hsum
      obtain ⟨s2, h2, g2, l2⟩ := good_applyPostFilters clusters hpos hsum r s1 hr g1
      exact ⟨s2, by simp only [applyPostFilters, h1, h2], g2, l2.trans l1⟩

/-- prediction on a fresh sentence -/
theorem good_predict (cfg : Cfg) (m : WModel) (hm : WFModel m) (p : Predictor) (hp : Predictor.new cfg m false = .ok p)
    (x : List Char) (hne : x ≠ []) :
    ∃ s', p.predict 0 (Sentence.mkRaw x) = .ok s' ∧ Good x.length s' := by
  have hi : InvC (Sentence.mkRaw x) := invC_mkRaw x hne
  have hs : SentOK (Sentence.mkRaw x) := ⟨hi.1, hi.2.1, hi.2.2.1⟩
  obtain ⟨s', h1, h2, h3, h4, h5, h6, h7, _⟩ := C01_scores cfg m hm false p hp _ hs 0
  have htext : (Sentence.mkRaw x).text = x := rfl
  rw [htext] at h3 h4
  have hpos : 0 < x.length := List.length_pos_iff.mpr hne
  refine ⟨s', h1, ⟨?_, ?_, ?_, ?_, ?_⟩, by rw [h4], C01_no_unknown cfg m hm false p hp _ s' hs 0 h1⟩
  · rw [h4]; exact hne
  · rw [h5, h4]; rfl
  · rw [h3, h4]
    simp only [specBounds, specScores, List.length_map, List.length_range]
    omega
  · rw [h6, h7, h4]; exact hi.2.2.2.1
  · unfold Sentence.boundaryScores at h2
    split at h2
    · next he => exact Or.inl (List.isEmpty_iff.mp he)
    · split at h2
      · next hle => exact Or.inr hle
      · cases h2

theorem pipeline_good (cfg : Cfg) (m : WModel) (hm : WFModel m) (p : Predictor) (hp : Predictor.new cfg m false = .ok p)
    (wsconst : List Char) (clusters : List Nat) (filters : List PostFilter)
    (hf : buildPostFilters wsconst clusters = .ok filters) (text : List Char) (hne : text ≠ [])
    (hnul : '\x00' ∉ text) (hcl : ∀ l ∈ clusters, 1 ≤ l) (hsum : clusters.sum = text.length) :
    ∃ s, pipeline p filters text = .ok s ∧ Good text.length s := by
  have hlen := fullwidth_length text
  obtain ⟨s1, h1, g1⟩ := good_predict cfg m hm p hp (Gen.fullwidth text) (fullwidth_ne_nil text hne)
  rw [hlen] at g1
  obtain ⟨s2, h2, g2, _⟩ := good_linebreaks g1
  obtain ⟨s3, h3, g3, _⟩ := good_applyPostFilters clusters hcl hsum filters s2
    (buildPostFilters_shape clusters wsconst filters hf) g2
  refine ⟨s3, ?_, g3⟩
  unfold pipeline
  simp only [fromRaw_ok _ (fullwidth_ne_nil text hne) (fullwidth_no_nul text hnul), h1, h2, h3]

end V.C16L
