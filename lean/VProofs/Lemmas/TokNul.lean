import VProofs.Lemmas.Tok
import VProofs.Lemmas.TokTags
/-!
Helper lemmas for C03_parsed_wf: everything the tokenized parser stores is NUL-free, and it never stores an
unknown boundary.
-/
namespace V.C03L

def NulFree (t : List Char) : Prop := ∀ c ∈ t, c ≠ '\x00'

structure TokNul (s : TokSt) : Prop where
  text_nul : NulFree s.text
  bounds_nu : ∀ b ∈ s.bounds, b ≠ B.U
  tmp_nul : ∀ ts ∈ s.tagsTmp, ∀ t ∈ ts, NulFree t
  str_nul : ∀ t, s.tagStr = some t → NulFree t

theorem tokNul_init : TokNul {} := ⟨by simp [NulFree], by simp, by simp, by simp⟩

theorem pushLast_nul {tt tt' : List (List (List Char))} {t : List Char} (e : pushLast tt t = some tt')
    (h1 : ∀ ts ∈ tt, ∀ u ∈ ts, NulFree u) (h2 : NulFree t) : ∀ ts ∈ tt', ∀ u ∈ ts, NulFree u := by
  by_cases hne : tt = []
  · subst hne; simp [pushLast] at e
  · obtain ⟨l, x, rfl⟩ := exists_append_singleton hne
    rw [pushLast_append] at e
    injection e with e
    subst e
    intro ts hts u hu
    simp only [List.mem_append, List.mem_singleton] at hts
    rcases hts with hts | rfl
    · exact h1 ts (by simp [hts]) u hu
    · simp only [List.mem_append, List.mem_singleton] at hu
      rcases hu with hu | rfl
      · exact h1 x (by simp) u hu
      · exact h2

theorem tokStep_nul (s : TokSt) (c : Char) (s' : TokSt) (h : TokNul s) (e : tokStep s c = .ok s') : TokNul s' := by
  obtain ⟨h1, h2, h3, h4⟩ := h
  unfold tokStep at e
  split at e
  · injection e with e; subst e; exact ⟨h1, h2, h3, h4⟩
  · split at e
    · split at e
      · cases e
      · split at e
        · cases e
        · split at e
          · injection e with e; subst e; exact ⟨h1, h2, h3, h4⟩
          · next t ht =>
            split at e
            · cases e
            · next tt' hp =>
              injection e with e; subst e
              exact ⟨h1, h2, pushLast_nul hp h3 (h4 t ht), by simp⟩
    · split at e
      · split at e
        · cases e
        · split at e
          · injection e with e; subst e
            exact ⟨h1, h2, h3, by simp [NulFree]⟩
          · next t ht =>
            split at e
            · cases e
            · next tt' hp =>
              injection e with e; subst e
              exact ⟨h1, h2, pushLast_nul hp h3 (h4 t ht), by simp [NulFree]⟩
      · split at e
        · cases e
        · next hc0 =>
          split at e
          · next t ht =>
            injection e with e; subst e
            refine ⟨h1, h2, h3, ?_⟩
            intro u hu d hd
            simp only [Option.some.injEq] at hu
            subst hu
            simp only [List.mem_append, List.mem_singleton] at hd
            rcases hd with hd | rfl
            · exact h4 t ht d hd
            · exact hc0
          · next ht =>
            injection e with e; subst e
            refine ⟨?_, ?_, ?_, by simp [ht]⟩
            · intro d hd
              simp only [List.mem_append, List.mem_singleton] at hd
              rcases hd with hd | rfl
              · exact h1 d hd
              · exact hc0
            · intro b hb
              simp only at hb
              split at hb
              · exact h2 b hb
              · simp only [List.mem_append, List.mem_singleton] at hb
                rcases hb with hb | rfl
                · exact h2 b hb
                · split <;> simp
            · intro ts hts
              simp only [List.mem_append, List.mem_singleton] at hts
              rcases hts with hts | rfl
              · exact h3 ts hts
              · simp

theorem tokRun_nul (cs : List Char) (s s' : TokSt) (h : TokNul s) (e : tokRun s cs = .ok s') : TokNul s' := by
  induction cs generalizing s with
  | nil => simp only [tokRun, Res.ok.injEq] at e; subst e; exact h
  | cons c cs ih =>
    unfold tokRun at e
    cases hs : tokStep s c with
    | ok s1 => rw [hs] at e; exact ih s1 (tokStep_nul s c s1 h hs) e
    | err x => rw [hs] at e; cases e
    | panic p => rw [hs] at e; cases e
    | ub p => rw [hs] at e; cases e

/-- what `tokFinish` returns, in terms of a NUL-free list of tag lists -/
theorem tokFinish_nul (s : TokSt) (p : Parsed) (h : TokNul s) (e : tokFinish s = .ok p) :
    p.text = s.text ∧ p.bounds = s.bounds ∧
      ∃ tt, p.tags = padTags (maxLen tt) tt ∧ ∀ ts ∈ tt, ∀ t ∈ ts, NulFree t := by
  unfold tokFinish at e
  split at e
  · cases e
  · split at e
    · cases e
    · split at e
      · injection e with e; subst e
        exact ⟨rfl, rfl, _, rfl, h.tmp_nul⟩
      · next t ht =>
        split at e
        · cases e
        · next tt' hp =>
          injection e with e; subst e
          exact ⟨rfl, rfl, _, rfl, pushLast_nul hp h.tmp_nul (h.str_nul t ht)⟩

theorem parseTokenized_nul (x : List Char) (p : Parsed) (e : parseTokenized x = .ok p) :
    NulFree p.text ∧ (∀ b ∈ p.bounds, b ≠ B.U) ∧ ∀ t, some t ∈ p.tags → t ≠ [] ∧ NulFree t := by
  rw [parseTokenized_eq] at e
  split at e
  · cases e
  · cases hs : tokRun {} x with
    | ok s =>
      rw [hs] at e
      simp only at e
      have hn := tokRun_nul x {} s tokNul_init hs
      obtain ⟨h1, h2, tt, h3, h4⟩ := tokFinish_nul s p hn e
      refine ⟨by rw [h1]; exact hn.text_nul, by rw [h2]; exact hn.bounds_nu, ?_⟩
      intro t ht
      rw [h3] at ht
      obtain ⟨hne, ts, hts, hmem⟩ := mem_padTags ht
      exact ⟨hne, h4 ts hts t hmem⟩
    | err x => rw [hs] at e; cases e
    | panic q => rw [hs] at e; cases e
    | ub q => rw [hs] at e; cases e

end V.C03L
