import VModel.Scorer
import VProofs.Lemmas.PermTagInfo
/-!
# C06 helpers (hash order 3): the cells `tag_weight[token_id][rel_position]` are `HashMap<u32, WeightVector>`s

The model lists a cell in insertion order and looks a pattern id up with `m.reverse.find?`; the real code does a keyed `get`.
With distinct pattern ids in a cell (which `fillTagWeights` guarantees) any listing order gives the same lookups, hence the same
`add_tag_scores`, the same `predict_tags` and the same `predict`.  Also `lookupLast` (the `tag_predictor` map).
-/
namespace V.C06L
open V V.PermL

/-- the same cell listed in two orders -/
def CellEq (c c' : List (Nat × WV)) : Prop := c.Perm c' ∧ (c.map Prod.fst).Nodup

/-- tables of the same shape whose cells are the same maps -/
abbrev TableEq (tw tw' : TW) : Prop := ListRel (ListRel CellEq) tw tw'

def OptRel {β γ : Type} (R : β → γ → Prop) : Option β → Option γ → Prop
  | none, none => True
  | some a, some b => R a b
  | _, _ => False

theorem ListRel.getElemOpt {β γ : Type} {R : β → γ → Prop} : ∀ {l : List β} {l' : List γ}, ListRel R l l' →
    ∀ i : Nat, OptRel R l[i]? l'[i]?
  | _, _, .nil, _ => trivial
  | _, _, .cons hab _, 0 => hab
  | _, _, .cons _ hr, i + 1 => by
    rw [List.getElem?_cons_succ, List.getElem?_cons_succ]
    exact ListRel.getElemOpt hr i

theorem cell_find {c c' : List (Nat × WV)} (h : CellEq c c') (id : Nat) :
    (c.reverse.find? (fun e => e.1 = id)).map Prod.snd = (c'.reverse.find? (fun e => e.1 = id)).map Prod.snd := by
  have p : c.reverse.Perm c'.reverse := (List.reverse_perm c).trans (h.1.trans (List.reverse_perm c').symm)
  have hnd : (c.reverse.map Prod.fst).Nodup := by
    rw [List.map_reverse]
    exact (List.reverse_perm (c.map Prod.fst)).nodup_iff.mpr h.2
  exact lookupK_perm p hnd id

theorem tagGo_cell : ∀ {row row' : List (List (Nat × WV))}, ListRel CellEq row row' →
    ∀ (sts : List (Option Nat)) (sc : List Int), pmaAddTagScores.go sts row sc = pmaAddTagScores.go sts row' sc
  | _, _, .nil, sts, sc => by
    cases sts <;> simp only [pmaAddTagScores.go]
  | _, _, .cons (a := m) (b := m') hab hr, [], sc => by
    simp only [pmaAddTagScores.go]
  | _, _, .cons (a := m) (b := m') hab hr, st :: sr, sc => by
    simp only [pmaAddTagScores.go]
    have : (st.bind fun id => (m.reverse.find? (fun e => e.1 = id)).map Prod.snd)
        = st.bind fun id => (m'.reverse.find? (fun e => e.1 = id)).map Prod.snd := by
      cases st with
      | none => rfl
      | some id => exact cell_find hab id
    rw [this]
    cases st.bind fun id => (m'.reverse.find? (fun e => e.1 = id)).map Prod.snd with
    | none => exact tagGo_cell hr sr sc
    | some w =>
      simp only
      cases w.addScores sc with
      | ok sc' => exact tagGo_cell hr sr sc'
      | err _ => rfl
      | panic _ => rfl
      | ub _ => rfl

section
variable {α : Type} [DecidableEq α]

/-- the same scorer, its cells listed in two orders -/
def ScorerCellEq (sc sc' : PmaScorer α) : Prop :=
  sc.pats = sc'.pats ∧ sc.weights = sc'.weights ∧ OptRel TableEq sc.tagWeight sc'.tagWeight

omit [DecidableEq α] in
/-- **`add_tag_scores` does not depend on the listing order of the cells** -/
theorem pmaAddTagScores_cell {sc sc' : PmaScorer α} (h : ScorerCellEq sc sc') (tid pos : Nat) (states : List (Option Nat))
    (scores : List Int) : pmaAddTagScores sc tid pos states scores = pmaAddTagScores sc' tid pos states scores := by
  unfold pmaAddTagScores
  obtain ⟨_, _, ht⟩ := h
  cases h₁ : sc.tagWeight with
  | none =>
    cases h₂ : sc'.tagWeight with
    | none => rfl
    | some tw' => rw [h₁, h₂] at ht; exact ht.elim
  | some tw =>
    cases h₂ : sc'.tagWeight with
    | none => rw [h₁, h₂] at ht; exact ht.elim
    | some tw' =>
      rw [h₁, h₂] at ht
      have hrow := ListRel.getElemOpt ht tid
      simp only
      cases g₁ : tw[tid]? with
      | none =>
        cases g₂ : tw'[tid]? with
        | none => rfl
        | some row' => rw [g₁, g₂] at hrow; exact hrow.elim
      | some row =>
        cases g₂ : tw'[tid]? with
        | none => rw [g₁, g₂] at hrow; exact hrow.elim
        | some row' =>
          rw [g₁, g₂] at hrow
          simp only
          split
          · rfl
          · exact tagGo_cell hrow _ _

theorem pmaAddScores_cell {sc sc' : PmaScorer α} (h : ScorerCellEq sc sc') (seq : List α) (buf : List Int)
    (states : List (Option Nat)) : pmaAddScores sc seq buf states = pmaAddScores sc' seq buf states := by
  obtain ⟨hp, hw, ht⟩ := h
  have hsome : sc.tagWeight.isSome = sc'.tagWeight.isSome := by
    cases h₁ : sc.tagWeight <;> cases h₂ : sc'.tagWeight <;> rw [h₁, h₂] at ht <;> first | rfl | exact ht.elim
  have hgo : ∀ (ms : List (Nat × Nat)) (buf : List Int) (st : List (Option Nat)),
      pmaAddScores.go sc ms buf st = pmaAddScores.go sc' ms buf st := by
    intro ms
    induction ms with
    | nil => intro buf st; simp only [pmaAddScores.go]
    | cons x r ih =>
      intro buf st
      obtain ⟨e, id⟩ := x
      simp only [pmaAddScores.go, hw, hsome, ih]
  unfold pmaAddScores
  simp only [hp, hsome, hgo]

end

/-! ## the predictor -/

def TypeScorerCellEq : TypeScorer → TypeScorer → Prop
  | .pma sc, .pma sc' => ScorerCellEq sc sc'
  | .cache ng w, .cache ng' w' => ng = ng' ∧ w = w'
  | _, _ => False

/-- the same token map (`tag_predictor`), listed in any way: every token looks up the same entry -/
def SameLookup (l l' : List (List Char × Nat × TagPredictor)) : Prop := ∀ k, lookupLast k l = lookupLast k l'

/-- the same predictor, the cells of its two tag scorers and its token map listed in other orders -/
structure PredCellEq (p p' : Predictor) : Prop where
  char : OptRel ScorerCellEq p.charScorer p'.charScorer
  type : OptRel TypeScorerCellEq p.typeScorer p'.typeScorer
  bias : p.bias = p'.bias
  tagPredictor : OptRel SameLookup p.tagPredictor p'.tagPredictor
  nTags : p.nTags = p'.nTags
  store : p.storeTagScores = p'.storeTagScores

def charTagOf (cs : Option (PmaScorer Char)) (tid i : Nat) (st : List (Option Nat)) (sc : List Int) : Res (List Int) :=
  match cs with
  | some sc' => pmaAddTagScores sc' tid i st sc
  | none => .ok sc

def typeTagOf (ts : Option TypeScorer) (tid i : Nat) (st : List (Option Nat)) (sc : List Int) : Res (List Int) :=
  match ts with
  | some ts => typeAddTagScores ts tid i st sc
  | none => .ok sc

/-- `tagToken` with the two scorer calls and `n_tags` as parameters -/
def tagTokenF (cf tf : Nat → Nat → List (Option Nat) → List Int → Res (List Int)) (nTags : Nat)
    (look : List Char → Option (Nat × TagPredictor)) (s : Sentence) (st i : Nat) : Res Sentence :=
  match s.substring st (i + 1) with
  | .ok token =>
    match look token with
    | none => .ok s
    | some (tid, tp) =>
      let scores0 := List.replicate tp.bias.len (0 : Int)
      match tp.bias.addScores scores0 with
      | .ok sc1 =>
        match cf tid i s.cstates sc1 with
        | .ok sc2 =>
          match tf tid i s.tstates sc2 with
          | .ok sc3 =>
            if (i + 1) * nTags ≤ s.tags.length then
              match tp.predict sc3 tp.tags 0 ((s.tags.drop (i * nTags)).take nTags) with
              | .ok slots =>
                let tags := s.tags.take (i * nTags) ++ slots ++ s.tags.drop ((i + 1) * nTags)
                let ts := if s.tagScores.isEmpty then s.tagScores
                          else s.tagScores.set i (some (tp.tags, sc3))
                .ok { s with tags := tags, tagScores := ts }
              | .err e => .err e
              | .panic q => .panic q
              | .ub q => .ub q
            else .panic "sentence.tags[i * n_tags..(i + 1) * n_tags]"
          | .err e => .err e
          | .panic q => .panic q
          | .ub q => .ub q
        | .err e => .err e
        | .panic q => .panic q
        | .ub q => .ub q
      | .err e => .err e
      | .panic q => .panic q
      | .ub q => .ub q
  | .err e => .err e
  | .panic q => .panic q
  | .ub q => .ub q

theorem tagToken_eq_F (p : Predictor) (tpm : List (List Char × Nat × TagPredictor)) (s : Sentence) (st i : Nat) :
    tagToken p tpm s st i
      = tagTokenF (charTagOf p.charScorer) (typeTagOf p.typeScorer) p.nTags (fun k => lookupLast k tpm) s st i := rfl

theorem charTagOf_cell {cs cs' : Option (PmaScorer Char)} (h : OptRel ScorerCellEq cs cs') : charTagOf cs = charTagOf cs' := by
  funext tid i st sc
  cases cs with
  | none =>
    cases cs' with
    | none => rfl
    | some _ => exact h.elim
  | some a =>
    cases cs' with
    | none => exact h.elim
    | some b => exact pmaAddTagScores_cell h tid i st sc

theorem typeTagOf_cell {ts ts' : Option TypeScorer} (h : OptRel TypeScorerCellEq ts ts') : typeTagOf ts = typeTagOf ts' := by
  funext tid i st sc
  cases ts with
  | none =>
    cases ts' with
    | none => rfl
    | some _ => exact h.elim
  | some a =>
    cases ts' with
    | none => exact h.elim
    | some b =>
      cases a with
      | pma sc₁ =>
        cases b with
        | pma sc₂ => exact pmaAddTagScores_cell h tid i st sc
        | cache _ _ => exact h.elim
      | cache ng w =>
        cases b with
        | pma _ => exact h.elim
        | cache ng' w' => rfl

theorem tagToken_cell {p p' : Predictor} (h : PredCellEq p p') {tpm tpm' : List (List Char × Nat × TagPredictor)}
    (ht : SameLookup tpm tpm') (s : Sentence) (st i : Nat) : tagToken p tpm s st i = tagToken p' tpm' s st i := by
  have : (fun k => lookupLast k tpm) = fun k => lookupLast k tpm' := funext ht
  rw [tagToken_eq_F, tagToken_eq_F, charTagOf_cell h.char, typeTagOf_cell h.type, h.nTags, this]

theorem predictTags_go_cell {p p' : Predictor} (h : PredCellEq p p') {tpm tpm' : List (List Char × Nat × TagPredictor)}
    (ht : SameLookup tpm tpm') :
    ∀ (bs : List B) (i : Nat) (rs : Option Nat) (s : Sentence),
      Predictor.predictTags.go p tpm bs i rs s = Predictor.predictTags.go p' tpm' bs i rs s
  | [], _, _, _ => by simp only [Predictor.predictTags.go]
  | b :: r, i, rs, s => by
    cases b with
    | U => simp only [Predictor.predictTags.go]; exact predictTags_go_cell h ht r _ _ _
    | N => simp only [Predictor.predictTags.go]; exact predictTags_go_cell h ht r _ _ _
    | W =>
      cases rs with
      | none => simp only [Predictor.predictTags.go]; exact predictTags_go_cell h ht r _ _ _
      | some st =>
        simp only [Predictor.predictTags.go, tagToken_cell h ht]
        cases tagToken p' tpm' s st i with
        | ok s' => exact predictTags_go_cell h ht r _ _ _
        | err _ => rfl
        | panic _ => rfl
        | ub _ => rfl

/-- **`predict_tags` does not depend on the listing order of the cells** -/
theorem predictTags_cell {p p' : Predictor} (h : PredCellEq p p') (s : Sentence) : p.predictTags s = p'.predictTags s := by
  unfold Predictor.predictTags
  have ht := h.tagPredictor
  cases h₁ : p.tagPredictor with
  | none =>
    cases h₂ : p'.tagPredictor with
    | none => rfl
    | some _ => rw [h₁, h₂] at ht; exact ht.elim
  | some tpm =>
    cases h₂ : p'.tagPredictor with
    | none => rw [h₁, h₂] at ht; exact ht.elim
    | some tpm' =>
      rw [h₁, h₂] at ht
      simp only [h.store, h.nTags, predictTags_go_cell h ht, tagToken_cell h ht]

def charOf (cs : Option (PmaScorer Char)) (bias : Int) (s : Sentence) : Res (List Int × List (Option Nat)) :=
  match cs with
  | some sc => pmaAddScores sc s.text (List.replicate (padding * 2 + s.types.length - 1) bias) s.cstates
  | none => .ok (List.replicate (padding * 2 + s.types.length - 1) bias, s.cstates)

def typeOf (ts : Option TypeScorer) (s : Sentence) (buf1 : List Int) : Res (List Int × List (Option Nat)) :=
  match ts with
  | some (.pma sc) => pmaAddScores sc s.types buf1 s.tstates
  | some (.cache ng w) => (cacheAddScores ng w s.types s.bounds.length buf1).map fun b => (b, [])
  | none => .ok (buf1, s.tstates)

/-- `Predictor.predict` with the two scorer passes as parameters -/
def predictF (r1 : Res (List Int × List (Option Nat))) (tf : List Int → Res (List Int × List (Option Nat))) (pid : Nat)
    (s : Sentence) : Res Sentence :=
  match r1 with
  | .ok (buf1, cst) =>
    match tf buf1 with
    | .ok (buf2, tst) =>
      let visible := buf2.drop padding
      let bounds := (s.bounds.zip visible).map (fun (_, x) => if x > 0 then B.W else B.N)
        ++ s.bounds.drop visible.length
      .ok { s with scores := buf2, padding := padding, cstates := cst, tstates := tst, bounds := bounds, pred := some pid }
    | .err e => .err e
    | .panic q => .panic q
    | .ub q => .ub q
  | .err e => .err e
  | .panic q => .panic q
  | .ub q => .ub q

theorem predict_eq_F (p : Predictor) (pid : Nat) (s : Sentence) :
    p.predict pid s = predictF (charOf p.charScorer p.bias s) (typeOf p.typeScorer s) pid s := rfl

theorem charOf_cell {cs cs' : Option (PmaScorer Char)} (h : OptRel ScorerCellEq cs cs') (bias : Int) (s : Sentence) :
    charOf cs bias s = charOf cs' bias s := by
  cases cs with
  | none =>
    cases cs' with
    | none => rfl
    | some _ => exact h.elim
  | some a =>
    cases cs' with
    | none => exact h.elim
    | some b => exact pmaAddScores_cell h _ _ _

theorem typeOf_cell {ts ts' : Option TypeScorer} (h : OptRel TypeScorerCellEq ts ts') (s : Sentence) :
    typeOf ts s = typeOf ts' s := by
  funext buf1
  cases ts with
  | none =>
    cases ts' with
    | none => rfl
    | some _ => exact h.elim
  | some a =>
    cases ts' with
    | none => exact h.elim
    | some b =>
      cases a with
      | pma sc₁ =>
        cases b with
        | pma sc₂ => exact pmaAddScores_cell h _ _ _
        | cache _ _ => exact h.elim
      | cache ng w =>
        cases b with
        | pma _ => exact h.elim
        | cache ng' w' =>
          obtain ⟨e₁, e₂⟩ := h
          subst e₁; subst e₂; rfl

/-- and neither does `predict` -/
theorem predict_cell {p p' : Predictor} (h : PredCellEq p p') (pid : Nat) (s : Sentence) : p.predict pid s = p'.predict pid s := by
  rw [predict_eq_F, predict_eq_F, charOf_cell h.char, typeOf_cell h.type, h.bias]

/-! ## `tag_predictor: HashMap<String, (u32, TagPredictor)>` -/

/-- with distinct tokens `lookupLast` is the keyed lookup -/
theorem lookupLast_eq_lookupK {β : Type} (k : List Char) : ∀ (l : List (List Char × β)), (l.map Prod.fst).Nodup →
    lookupLast k l = lookupK l k
  | [], _ => rfl
  | (k', v) :: r, hnd => by
    rw [List.map_cons, List.nodup_cons] at hnd
    rw [lookupK_cons]
    simp only [lookupLast, lookupLast_eq_lookupK k r hnd.2]
    by_cases hk : k' = k
    · have : lookupK r k = none := by
        rw [lookupK_eq_none]
        intro e he heq
        exact hnd.1 (List.mem_map.mpr ⟨e, he, heq.trans hk.symm⟩)
      rw [this]
    · cases lookupK r k <;> simp only [hk, if_false]

theorem lookupLast_perm {β : Type} {l l' : List (List Char × β)} (p : l.Perm l') (hnd : (l.map Prod.fst).Nodup)
    (k : List Char) : lookupLast k l = lookupLast k l' := by
  rw [lookupLast_eq_lookupK k l hnd, lookupLast_eq_lookupK k l' ((p.map Prod.fst).nodup_iff.mp hnd), lookupK_perm p hnd]

theorem sameLookup_of_perm {l l' : List (List Char × Nat × TagPredictor)} (p : l.Perm l') (hnd : (l.map Prod.fst).Nodup) :
    SameLookup l l' := fun k => lookupLast_perm p hnd k

theorem sameLookup_refl (l : List (List Char × Nat × TagPredictor)) : SameLookup l l := fun _ => rfl

end V.C06L
