import VModel.Spec
import VProofs.Lemmas.ScoreBuild
/-!
# The scorers built by `charScorerNew` / `typeScorerNew` (pattern-matching variants) realise the specification (C01)
-/
namespace V.C01L
variable {α : Type} [DecidableEq α] {W : Type}

/-! ## from sums over end positions to the occurrence-indexed specification -/

theorem occ_sum (g seq : List α) (h : Nat → Int) :
    ((occEnds g seq).map h).sum
      = ((List.range seq.length).map fun k => if g.isSuffixOf (seq.take (k + 1)) then h (k + 1) else 0).sum := by
  unfold occEnds
  rw [isum_filterMap]
  apply isum_map_congr
  intro k _
  by_cases hs : g.isSuffixOf (seq.take (k + 1)) = true <;> simp [hs]

/-- what one entry contributes to boundary `b` -/
def entryScore (g : W → Option PW) (seq : List α) (b : Nat) (e : List α × W) : Int :=
  ((occEnds e.1 seq).map fun (c : Nat) => evg g ((b : Int) + 1 - (c : Int)) e.2).sum

theorem entries_total (es : List (List α × W)) (g : W → Option PW) (seq : List α) (b : Nat) :
    ((List.range seq.length).map fun (k : Nat) =>
      ((es.filter fun e => e.1.isSuffixOf (seq.take (k + 1))).map fun e =>
        evg g (((7 + b : Nat) : Int) - ((k : Int) + 7)) e.2).sum).sum
      = (es.map (entryScore g seq b)).sum := by
  have h1 : ∀ k ∈ List.range seq.length,
      ((es.filter fun e => e.1.isSuffixOf (seq.take (k + 1))).map fun e =>
        evg g (((7 + b : Nat) : Int) - ((k : Int) + 7)) e.2).sum
      = (es.map fun e => if e.1.isSuffixOf (seq.take (k + 1)) then
          evg g ((b : Int) + 1 - ((k + 1 : Nat) : Int)) e.2 else 0).sum := by
    intro k _
    rw [isum_filter]
    apply isum_map_congr
    intro e _
    have : ((7 + b : Nat) : Int) - ((k : Int) + 7) = (b : Int) + 1 - ((k + 1 : Nat) : Int) := by omega
    rw [this]
  rw [isum_map_congr _ _ _ h1, isum_comm]
  apply isum_map_congr
  intro e _
  unfold entryScore
  rw [occ_sum]

theorem entryScore_none (g : W → Option PW) (seq : List α) (b : Nat) (e : List α × W) (h : g e.2 = none) :
    entryScore g seq b e = 0 := by
  unfold entryScore
  apply isum_map_eq_zero
  intro c _
  simp [evg, h]

theorem entryScore_some (g : W → Option PW) (seq : List α) (b : Nat) (e : List α × W) (off : Int) (w : List Int)
    (h : g e.2 = some ⟨off, w⟩) :
    entryScore g seq b e = ((occEnds e.1 seq).map fun (c : Nat) => getZ w ((b : Int) + 1 - (c : Int) - off)).sum := by
  unfold entryScore
  apply isum_map_congr
  intro c _
  simp [evg, h, PW.denote]

theorem ngram_entries_score (g : W → Option PW) (wrap : PW → W) (hw : ∀ pw, g (wrap pw) = some pw)
    (Wn : Nat) (tbl : List (NgramData α)) (seq : List α) (b : Nat) :
    ((tbl.map fun d => (d.ngram, wrap ⟨-(Wn : Int), d.weights⟩)).map (entryScore g seq b)).sum
      = ngramScore Wn tbl seq b := by
  unfold ngramScore
  rw [List.map_map]
  apply isum_map_congr
  intro d _
  show entryScore g seq b (d.ngram, wrap ⟨-(Wn : Int), d.weights⟩) = _
  rw [entryScore_some g seq b _ _ _ (hw _)]
  apply isum_map_congr
  intro c _
  congr 1; omega

theorem dict_entries_score (g : W → Option PW) (wrap : PW → W) (hw : ∀ pw, g (wrap pw) = some pw)
    (tbl : List DictWord) (seq : List Char) (b : Nat) :
    ((tbl.map fun d => (d.word, wrap ⟨-(d.word.length : Int), d.weights⟩)).map (entryScore g seq b)).sum
      = dictScore tbl seq b := by
  unfold dictScore
  rw [List.map_map]
  apply isum_map_congr
  intro d _
  show entryScore g seq b (d.word, wrap ⟨-(d.word.length : Int), d.weights⟩) = _
  rw [entryScore_some g seq b _ _ _ (hw _)]
  apply isum_map_congr
  intro c _
  congr 1; omega

omit [DecidableEq α] in
theorem tagEntries_weight (t : List (List (TagNgramData α))) : ∀ e ∈ tagEntries t, e.2.weight = none := by
  intro e he
  unfold tagEntries at he
  obtain ⟨⟨tm, i⟩, _, he⟩ := List.mem_flatMap.mp he
  obtain ⟨d, _, he⟩ := List.mem_flatMap.mp he
  obtain ⟨w, _, he⟩ := List.mem_map.mp he
  rw [← he]

theorem tag_entries_score (t : List (List (TagNgramData α))) (seq : List α) (b : Nat) :
    ((tagEntries t).map (entryScore PWT.weight seq b)).sum = 0 :=
  isum_map_eq_zero _ _ fun e he => entryScore_none _ _ _ _ (tagEntries_weight t e he)

/-! ## `add` instances -/

theorem addOK_PW : AddOK PW.add (some : PW → Option PW) := fun _ _ => rfl

theorem addOK_PWT : AddOK PWT.add PWT.weight := by
  intro a b
  show (match a.weight, b.weight with
      | some y, some x => some (y.add x)
      | some y, none => some y
      | none, w => w) = _
  cases a.weight <;> cases b.weight <;> rfl

/-! ## invariants of the entries -/

omit [DecidableEq α] in
theorem Pinv_ngram (Wn : Nat) (k : List α) (w : List Int) (hW : 1 ≤ Wn) (h2 : k.length ≤ 2 * Wn)
    (h3 : w.length = 2 * Wn - k.length + 1) : Pinv k ⟨-(Wn : Int), w⟩ := by
  refine ⟨by simp only; omega, fun h8 => ?_⟩
  simp only at h8 ⊢
  omega

omit [DecidableEq α] in
theorem Pinv_word (k : List α) (w : List Int) (h1 : 1 ≤ k.length) : Pinv k ⟨-(k.length : Int), w⟩ := by
  refine ⟨by simp only; omega, fun _ => ?_⟩
  simp only
  omega

/-! ## the builders -/

theorem res_map_ok {β γ : Type} (f : β → γ) (r : Res β) (c : γ) (h : r.map f = .ok c) : ∃ a, r = .ok a ∧ c = f a := by
  cases r with
  | ok a => exact ⟨a, rfl, by simpa [Res.map] using h.symm⟩
  | err e => simp [Res.map] at h
  | panic s => simp [Res.map] at h
  | ub s => simp [Res.map] at h

theorem buildBoundary_ok (cfg : Cfg) (entries : List (List α × PW)) (sc : PmaScorer α)
    (h : buildBoundary cfg entries = .ok sc) :
    sc.pats = (Merge.mergeEntries PW.add ⟨0, []⟩ entries).map Prod.fst ∧
    sc.weights = (Merge.mergeEntries PW.add ⟨0, []⟩ entries).map (fun e => (some e.2).map (PW.toPWV cfg)) ∧
    pmaBuildOk sc.pats = true := by
  unfold buildBoundary at h
  simp only at h
  split at h
  · rename_i hok
    simp only [Res.ok.injEq] at h
    subst h
    exact ⟨rfl, rfl, hok⟩
  · cases h

theorem buildBoundaryTag_ok (cfg : Cfg) (window n : Nat) (entries : List (List α × PWT)) (sc : PmaScorer α)
    (h : buildBoundaryTag cfg window n entries = .ok sc) :
    sc.pats = (Merge.mergeEntries PWT.add PWT.empty entries).map Prod.fst ∧
    sc.weights = (Merge.mergeEntries PWT.add PWT.empty entries).map (fun e => (e.2.weight).map (PW.toPWV cfg)) ∧
    pmaBuildOk sc.pats = true := by
  unfold buildBoundaryTag at h
  simp only at h
  split at h
  · split at h
    · rename_i hok
      simp only [Res.ok.injEq] at h
      subst h
      exact ⟨rfl, rfl, hok⟩
    · cases h
  · cases h
  · cases h
  · cases h

/-- a scorer built from a list of entries adds the entry scores to the visible window -/
theorem scorer_total (cfg : Cfg) (add : W → W → W) (d : W) (g : W → Option PW) (hg : AddOK add g)
    (es : List (List α × W)) (hes : ∀ e ∈ es, Pg g e.1 e.2) (sc : PmaScorer α)
    (hsc : sc.pats = (Merge.mergeEntries add d (addAll add es [])).map Prod.fst ∧
      sc.weights = (Merge.mergeEntries add d (addAll add es [])).map (fun e => (g e.2).map (PW.toPWV cfg)) ∧
      pmaBuildOk sc.pats = true)
    (seq : List α) (buf : List Int) (hbuf : buf.length = seq.length + 13) (states : List (Option Nat)) :
    ∃ r st, pmaAddScores sc seq buf states = .ok (r, st) ∧ r.length = buf.length ∧
      ∀ b, 7 + b < buf.length → r.getD (7 + b) 0 = buf.getD (7 + b) 0 + (es.map (entryScore g seq b)).sum := by
  obtain ⟨r, st, h1, h2, h3⟩ := scorer_correct cfg add d g hg es hes sc hsc.1 hsc.2.1 hsc.2.2 seq buf hbuf states
  refine ⟨r, st, h1, h2, fun b hb => ?_⟩
  rw [h3 (7 + b) hb, entries_total]

end V.C01L
