import VModel.Spec
import VProofs.Lemmas.ScoreBoundSpec
import VProofs.Lemmas.ScorePredict
import VProofs.Lemmas.ScoreWindow0
/-!
# What `Predictor.new` builds stays within the mass of the model (for the C01 overflow bound)

The entry lists that `CharScorer::new` / `TypeScorer::new` feed to the weight merger, the fact that the scorers are built
from them, their masses, the stored (layout-converted) weights, and the type-score cache.
-/
namespace V

/-! ## the entries fed to the merger -/

def charEntriesOf (Wn : Nat) (ng : List (NgramData Char)) (dict : List DictWord) : List (List Char × PW) :=
  ng.map (fun d => (d.ngram, (⟨-(Wn : Int), d.weights⟩ : PW)))
    ++ dict.map (fun d => (d.word, (⟨-(d.word.length : Int), d.weights⟩ : PW)))

def charEntriesTOf (Wn : Nat) (ng : List (NgramData Char)) (dict : List DictWord) (T : List (List (TagNgramData Char))) :
    List (List Char × PWT) :=
  ng.map (fun d => (d.ngram, ({ weight := some ⟨-(Wn : Int), d.weights⟩, tagInfo := [] } : PWT)))
    ++ dict.map (fun d => (d.word, ({ weight := some ⟨-(d.word.length : Int), d.weights⟩, tagInfo := [] } : PWT)))
    ++ tagEntries T

def typeEntriesOf (Wn : Nat) (ng : List (NgramData Nat)) : List (List Nat × PW) :=
  ng.map (fun d => (d.ngram, (⟨-(Wn : Int), d.weights⟩ : PW)))

def typeEntriesTOf (Wn : Nat) (ng : List (NgramData Nat)) (T : List (List (TagNgramData Nat))) : List (List Nat × PWT) :=
  ng.map (fun d => (d.ngram, ({ weight := some ⟨-(Wn : Int), d.weights⟩, tagInfo := [] } : PWT)))
    ++ tagEntries T

/-- the entries `CharScorer::new` adds to its `CharWeightMerger<PositionalWeight<Vec<i32>>>` (no tag n-grams) -/
def charEntries (m : WModel) : List (List Char × PW) := charEntriesOf m.charW m.charNgrams m.dict
/-- … and to its `CharWeightMerger<PositionalWeightWithTag>` (with the tag n-grams `T`) -/
def charEntriesT (m : WModel) (T : List (List (TagNgramData Char))) : List (List Char × PWT) :=
  charEntriesTOf m.charW m.charNgrams m.dict T
/-- the entries `TypeScorer::new` adds to its `TypeWeightMerger` (no tag n-grams, no cache) -/
def typeEntries (m : WModel) : List (List Nat × PW) := typeEntriesOf m.typeW m.typeNgrams
def typeEntriesT (m : WModel) (T : List (List (TagNgramData Nat))) : List (List Nat × PWT) :=
  typeEntriesTOf m.typeW m.typeNgrams T

/-- `sc` is the scorer that `…Boundary::new` / `…BoundaryTag::new` builds from the entries `es`: patterns and weights are
those of `merger.add` over `es` followed by `merger.merge()`, the boundary parts (`g`) converted to the configured layout -/
def BuiltFrom {α : Type} [DecidableEq α] {W : Type} (cfg : Cfg) (add : W → W → W) (d : W) (g : W → Option PW)
    (es : List (List α × W)) (sc : PmaScorer α) : Prop :=
  sc.pats = (Merge.mergeEntries add d (addAll add es [])).map Prod.fst ∧
  sc.weights = (Merge.mergeEntries add d (addAll add es [])).map (fun e => (g e.2).map (PW.toPWV cfg)) ∧
  pmaBuildOk sc.pats = true

/-- the terms that `TypeScorerBoundaryCache::new` adds up (`y += *w`) for the table entry of `seqid` -/
def cacheTerms (ngrams : List (NgramData Nat)) (window : Nat) (seqid : Nat) : List Int :=
  (matchesAll (ngrams.map (·.ngram)) (seqOfId (2 * window) seqid)).map fun (e, id) =>
    match (ngrams.getD id ⟨[], []⟩).weights[2 * window - e]? with
    | some w => w
    | none => 0

theorem cacheEntry_eq (ngrams : List (NgramData Nat)) (window : Nat) (seqid : Nat) :
    cacheEntry ngrams window seqid
      = if (seqOfId (2 * window) seqid).contains 7 then 0 else (cacheTerms ngrams window seqid).sum := rfl

namespace C01B
open C01L Merge
variable {α : Type} [DecidableEq α] {W : Type}

/-! ## masses of the entry lists -/

omit [DecidableEq α] in
theorem emass_ngram (g : W → Option PW) (wrap : PW → W) (hw : ∀ pw, g (wrap pw) = some pw) (off : Int)
    (ng : List (NgramData α)) :
    emass g (ng.map fun d => (d.ngram, wrap ⟨off, d.weights⟩)) = ngramMass ng := by
  unfold emass ngramMass
  rw [List.map_map]
  congr 1
  apply List.map_congr_left
  intro d _
  simp only [Function.comp_def, hw]
  rfl

theorem emass_dict (g : W → Option PW) (wrap : PW → W) (hw : ∀ pw, g (wrap pw) = some pw) (dict : List DictWord) :
    emass g (dict.map fun d => (d.word, wrap ⟨-(d.word.length : Int), d.weights⟩)) = dictMass dict := by
  unfold emass dictMass
  rw [List.map_map]
  congr 1
  apply List.map_congr_left
  intro d _
  simp only [Function.comp_def, hw]
  rfl

omit [DecidableEq α] in
theorem emass_tag (T : List (List (TagNgramData α))) : emass PWT.weight (tagEntries T) = 0 :=
  emass_zero _ _ (tagEntries_weight T)

theorem emass_charEntries (Wn : Nat) (ng : List (NgramData Char)) (dict : List DictWord) :
    emass (some : PW → Option PW) (charEntriesOf Wn ng dict) = ngramMass ng + dictMass dict := by
  unfold charEntriesOf
  rw [emass_append, emass_ngram some (fun pw => pw) (fun _ => rfl), emass_dict some (fun pw => pw) (fun _ => rfl)]

theorem emass_charEntriesT (Wn : Nat) (ng : List (NgramData Char)) (dict : List DictWord)
    (T : List (List (TagNgramData Char))) :
    emass PWT.weight (charEntriesTOf Wn ng dict T) = ngramMass ng + dictMass dict := by
  unfold charEntriesTOf
  rw [emass_append, emass_append, emass_tag,
    emass_ngram PWT.weight (fun pw => ({ weight := some pw, tagInfo := [] } : PWT)) (fun _ => rfl),
    emass_dict PWT.weight (fun pw => ({ weight := some pw, tagInfo := [] } : PWT)) (fun _ => rfl)]
  rfl

theorem emass_typeEntries (Wn : Nat) (ng : List (NgramData Nat)) :
    emass (some : PW → Option PW) (typeEntriesOf Wn ng) = ngramMass ng := by
  unfold typeEntriesOf
  rw [emass_ngram some (fun pw => pw) (fun _ => rfl)]

theorem emass_typeEntriesT (Wn : Nat) (ng : List (NgramData Nat)) (T : List (List (TagNgramData Nat))) :
    emass PWT.weight (typeEntriesTOf Wn ng T) = ngramMass ng := by
  unfold typeEntriesTOf
  rw [emass_append, emass_tag,
    emass_ngram PWT.weight (fun pw => ({ weight := some pw, tagInfo := [] } : PWT)) (fun _ => rfl)]
  rfl

/-! ## which entries the scorers are built from -/

theorem charScorerNew_built_gen (cfg : Cfg) (m : WModel) (T : List (List (TagNgramData Char))) (sc : PmaScorer Char)
    (h : charScorerNew cfg m T = .ok (some sc)) (hE : m.charW = 0 → m.charNgrams = []) :
    BuiltFrom cfg PW.add ⟨0, []⟩ some (charEntriesOf m.charW m.charNgrams m.dict) sc ∨
    BuiltFrom cfg PWT.add PWT.empty PWT.weight (charEntriesTOf m.charW m.charNgrams m.dict T) sc := by
  simp only [charScorerNew, charModel_if m hE] at h
  split at h
  · cases h
  · split at h
    · cases h
    · split at h
      · obtain ⟨sc', hsc, hcs'⟩ := res_map_ok _ _ _ h
        simp only [Option.some.injEq] at hcs'
        subst hcs'
        right
        exact buildBoundaryTag_ok cfg _ _ _ sc hsc
      · obtain ⟨sc', hsc, hcs'⟩ := res_map_ok _ _ _ h
        simp only [Option.some.injEq] at hcs'
        subst hcs'
        left
        exact buildBoundary_ok cfg _ sc hsc

theorem charScorerNew_built (cfg : Cfg) (m : WModel) (T : List (List (TagNgramData Char))) (sc : PmaScorer Char)
    (h : charScorerNew cfg m T = .ok (some sc)) :
    BuiltFrom cfg PW.add ⟨0, []⟩ some
      (charEntriesOf m.charW (if m.charW = 0 then [] else m.charNgrams) m.dict) sc ∨
    BuiltFrom cfg PWT.add PWT.empty PWT.weight
      (charEntriesTOf m.charW (if m.charW = 0 then [] else m.charNgrams) m.dict T) sc := by
  by_cases h0 : m.charW = 0
  · rw [charScorerNew_drop cfg m T h0] at h
    rw [if_pos h0]
    exact charScorerNew_built_gen cfg { m with charNgrams := [] } T sc h (fun _ => rfl)
  · rw [if_neg h0]
    exact charScorerNew_built_gen cfg m T sc h (fun h => absurd h h0)

theorem typeScorerNew_built_gen (cfg : Cfg) (m : WModel) (T : List (List (TagNgramData Nat))) (ts : TypeScorer)
    (h : typeScorerNew cfg m T = .ok (some ts)) (hE : m.typeW = 0 → m.typeNgrams = []) :
    (∃ sc, ts = .pma sc ∧
      (BuiltFrom cfg PW.add ⟨0, []⟩ some (typeEntriesOf m.typeW m.typeNgrams) sc ∨
       BuiltFrom cfg PWT.add PWT.empty PWT.weight (typeEntriesTOf m.typeW m.typeNgrams T) sc)) ∨
    ts = .cache m.typeNgrams m.typeW := by
  simp only [typeScorerNew, typeModel_if m hE] at h
  split at h
  · cases h
  · split at h
    · obtain ⟨sc', hsc, hcs'⟩ := res_map_ok _ _ _ h
      simp only [Option.some.injEq] at hcs'
      subst hcs'
      left
      exact ⟨sc', rfl, Or.inr (buildBoundaryTag_ok cfg _ _ _ sc' hsc)⟩
    · split at h
      · split at h
        · simp only [Res.ok.injEq, Option.some.injEq] at h
          right
          exact h.symm
        · cases h
      · obtain ⟨sc', hsc, hcs'⟩ := res_map_ok _ _ _ h
        simp only [Option.some.injEq] at hcs'
        subst hcs'
        left
        exact ⟨sc', rfl, Or.inl (buildBoundary_ok cfg _ sc' hsc)⟩

theorem typeScorerNew_built (cfg : Cfg) (m : WModel) (T : List (List (TagNgramData Nat))) (ts : TypeScorer)
    (h : typeScorerNew cfg m T = .ok (some ts)) :
    (∃ sc, ts = .pma sc ∧
      (BuiltFrom cfg PW.add ⟨0, []⟩ some (typeEntriesOf m.typeW (if m.typeW = 0 then [] else m.typeNgrams)) sc ∨
       BuiltFrom cfg PWT.add PWT.empty PWT.weight
        (typeEntriesTOf m.typeW (if m.typeW = 0 then [] else m.typeNgrams) T) sc)) ∨
    ts = .cache (if m.typeW = 0 then [] else m.typeNgrams) m.typeW := by
  by_cases h0 : m.typeW = 0
  · rw [typeScorerNew_drop cfg m T h0] at h
    rw [if_pos h0]
    exact typeScorerNew_built_gen cfg { m with typeNgrams := [] } T ts h (fun _ => rfl)
  · rw [if_neg h0]
    exact typeScorerNew_built_gen cfg m T ts h (fun h => absurd h h0)

/-! ## a built scorer: no empty key, checked merger, stored weights -/

theorem builtFrom_keys_ne {cfg : Cfg} {add : W → W → W} {d : W} {g : W → Option PW} (hg : AddOK add g)
    {es : List (List α × W)} {sc : PmaScorer α} (hb : BuiltFrom cfg add d g es sc) : [] ∉ es.map Prod.fst := by
  obtain ⟨_, hkeys, _, _⟩ := addAll_correct add d (evg g 0) (fun _ _ => True) (fun _ _ _ _ _ => trivial)
    (fun _ a b _ _ => evg_add add g hg 0 a b) es (fun _ _ => trivial)
  have hne := (pmaBuildOk_spec sc.pats hb.2.2).1
  rw [hb.1, mergeEntries_keys] at hne
  exact fun h => hne ((hkeys []).mpr h)

theorem toPWV_toList_mem (cfg : Cfg) (pw : PW) (x : Int) (hx : x ∈ (pw.toPWV cfg).weight.toList) :
    x ∈ pw.weight ∨ x = 0 := by
  unfold PW.toPWV WV.ofList at hx
  simp only at hx
  split at hx
  · simp only [WV.toList, List.mem_append, List.mem_replicate] at hx
    rcases hx with hx | hx
    · exact Or.inl hx
    · exact Or.inr hx.2
  · exact Or.inl hx

/-- every coordinate of every stored weight (the layout's zero padding included) satisfies `P` -/
theorem builtFrom_weights (P : Int → Bool) (h0 : P 0 = true) {cfg : Cfg} {add : W → W → W} {d : W}
    {g : W → Option PW} {es : List (List α × W)} {sc : PmaScorer α} (hb : BuiltFrom cfg add d g es sc)
    (hok : ∀ e ∈ mergeEntries add d (addAll add es []), okW P g e.2 = true) :
    ∀ ow ∈ sc.weights, ∀ pwv, ow = some pwv → ∀ x ∈ pwv.weight.toList, P x = true := by
  intro ow how pwv hpwv x hx
  rw [hb.2.1] at how
  obtain ⟨e, he, rfl⟩ := List.mem_map.mp how
  cases hge : g e.2 with
  | none => rw [hge] at hpwv; cases hpwv
  | some pw =>
    rw [hge] at hpwv
    simp only [Option.map_some, Option.some.injEq] at hpwv
    subst hpwv
    rcases toPWV_toList_mem cfg pw x hx with h | h
    · exact okW_spec P g e.2 (hok e he) pw hge x h
    · rw [h]; exact h0

/-! ## the type-score cache -/

theorem cacheTerms_abs_le (ngrams : List (NgramData Nat)) (window : Nat) (seqid : Nat) :
    ((cacheTerms ngrams window seqid).map iabs).sum ≤ ((ngramMass ngrams : Nat) : Int) := by
  have hlen : (seqOfId (2 * window) seqid).length = 2 * window := by simp [seqOfId]
  generalize hseq : seqOfId (2 * window) seqid = seq at hlen
  unfold cacheTerms matchesAll
  rw [hseq, List.map_map, isum_flatMap, hlen, List.length_map]
  refine Int.le_trans (Int.le_of_eq (isum_map_congr _ _ (fun (k : Nat) => ((List.range ngrams.length).map fun id =>
      if ((ngrams.map (·.ngram)).getD id []).isSuffixOf (seq.take (k + 1)) then
        iabs (getZ (ngrams.getD id ⟨[], []⟩).weights ((2 * window : Nat) - 1 - (k : Int))) else 0).sum) ?_)) ?_
  · intro k hk
    have hk' : k < 2 * window := List.mem_range.mp hk
    rw [isum_filterMap]
    apply isum_map_congr
    intro id _
    by_cases hs : ((ngrams.map (·.ngram)).getD id []).isSuffixOf (seq.take (k + 1)) = true
    · simp only [hs, if_true, Function.comp_def]
      have hx : ((2 * window : Nat) : Int) - 1 - (k : Int) = ((2 * window - (k + 1) : Nat) : Int) := by omega
      rw [hx, getZ_nat]
      generalize (ngrams.getD id ⟨[], []⟩).weights = wt
      rw [List.getD_eq_getElem?_getD]
      cases wt[2 * window - (k + 1)]? <;> rfl
    · simp only [hs]
      rfl
  · rw [isum_comm]
    unfold ngramMass
    rw [natsum_cast]
    refine Int.le_trans (Int.le_of_eq (isum_range_getElem ngrams _ (fun d =>
      ((List.range (2 * window)).map fun (k : Nat) =>
        if d.ngram.isSuffixOf (seq.take (k + 1)) then
          iabs (getZ d.weights ((2 * window : Nat) - 1 - (k : Int))) else 0).sum) ?_)) ?_
    · intro id d hid
      have hg1 : (ngrams.map (·.ngram)).getD id [] = d.ngram := by
        rw [List.getD_eq_getElem?_getD, List.getElem?_map, hid]; rfl
      have hg2 : ngrams.getD id ⟨[], []⟩ = d := by
        rw [List.getD_eq_getElem?_getD, hid]; rfl
      simp only [hg1, hg2]
    · apply isum_map_le
      intro d _
      exact isum_abs_getZ_cond_le d.weights ((2 * window : Nat) - 1) (2 * window)
        (fun k => d.ngram.isSuffixOf (seq.take (k + 1)))

/-- every partial sum `y` of the loop that fills a table entry, and the entry itself -/
theorem cache_within (P : Int → Bool) (M : Nat) (hP : ∀ x : Int, x.natAbs ≤ M → P x = true)
    (ngrams : List (NgramData Nat)) (hM : ngramMass ngrams ≤ M) (window seqid : Nat) :
    (∀ k, P ((cacheTerms ngrams window seqid).take k).sum = true) ∧ P (cacheEntry ngrams window seqid) = true := by
  have hk : ∀ k, P ((cacheTerms ngrams window seqid).take k).sum = true := by
    intro k
    apply hP
    apply (iabs_le_iff _ _).mp
    have h1 := iabs_take_sum_le (cacheTerms ngrams window seqid) k
    have h2 := cacheTerms_abs_le ngrams window seqid
    omega
  refine ⟨hk, ?_⟩
  rw [cacheEntry_eq]
  split
  · exact hP 0 (by simp)
  · have := hk (cacheTerms ngrams window seqid).length
    rwa [List.take_length] at this

theorem cacheEntry_natAbs_le (ngrams : List (NgramData Nat)) (window seqid : Nat) :
    (cacheEntry ngrams window seqid).natAbs ≤ ngramMass ngrams := by
  have := (cache_within (fun x => decide (x.natAbs ≤ ngramMass ngrams)) (ngramMass ngrams)
    (fun x hx => by simpa using hx) ngrams (Nat.le_refl _) window seqid).2
  simpa using this

end C01B
end V
