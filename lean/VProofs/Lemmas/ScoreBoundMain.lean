import VModel.Spec
import VProofs.Lemmas.ScoreBoundRun
/-!
# `Predictor.new` and `Predictor.predict` stay within the mass of the model (for the C01 overflow bound): assembly

`BuildWithin P cfg m0 p` and `RunWithin P p s` collect, for a test `P` on integers, all the values that construction and
boundary prediction hold; `build_within` / `run_within` prove them for every `P` that accepts all integers up to the mass
of the model (with the n-grams of a switched-off kind dropped) in absolute value.
-/
namespace V

/-- every coordinate of every stored merged weight (`weights: Vec<Option<PositionalWeight<WeightVector>>>`), the zero padding
of the fixed layout included, satisfies `P` -/
def PmaScorer.weightsIn {α : Type} (P : Int → Bool) (sc : PmaScorer α) : Prop :=
  ∀ ow ∈ sc.weights, ∀ pwv, ow = some pwv → ∀ x ∈ pwv.weight.toList, P x = true

/-- `sc` is built from the entries `es`, and both phases of the weight merger — `merger.add(…)` for every entry, then
`merger.merge()` — run with a `+=` that tests every coordinate of its result with `P` (`Merge.addC`: an operand or result that
fails the test poisons the weight for good) never trip the test: the checked run returns the unchecked weights, unpoisoned -/
def MergerIn {α : Type} [DecidableEq α] {W : Type} (P : Int → Bool) (cfg : Cfg) (add : W → W → W) (d : W)
    (g : W → Option PW) (es : List (List α × W)) (sc : PmaScorer α) : Prop :=
  BuiltFrom cfg add d g es sc ∧
  addAll (Merge.addC (C01B.okW P g) add) (Merge.liftE es) [] = Merge.liftE (addAll add es []) ∧
  Merge.mergeEntries (Merge.addC (C01B.okW P g) add) none (Merge.liftE (addAll add es []))
    = Merge.liftE (Merge.mergeEntries add d (addAll add es []))

/-- all `i32` values of `Predictor::new` (boundary part) satisfy `P`; `m0` is the model with the switched-off n-grams dropped -/
def BuildWithin (P : Int → Bool) (cfg : Cfg) (m0 : WModel) (p : Predictor) : Prop :=
  (∀ sc, p.charScorer = some sc → sc.weightsIn P ∧
    (MergerIn P cfg PW.add ⟨0, []⟩ some (charEntries m0) sc ∨
     ∃ T, MergerIn P cfg PWT.add PWT.empty PWT.weight (charEntriesT m0 T) sc)) ∧
  (∀ sc, p.typeScorer = some (.pma sc) → sc.weightsIn P ∧
    (MergerIn P cfg PW.add ⟨0, []⟩ some (typeEntries m0) sc ∨
     ∃ T, MergerIn P cfg PWT.add PWT.empty PWT.weight (typeEntriesT m0 T) sc)) ∧
  (∀ ng w, p.typeScorer = some (.cache ng w) → ng = m0.typeNgrams ∧ w = m0.typeW ∧
    ∀ seqid, (∀ k, P ((cacheTerms ng w seqid).take k).sum = true) ∧ P (cacheEntry ng w seqid) = true)

/-- all values the score buffer holds during `Predictor::predict` satisfy `P`: the bias-filled buffer; the buffer after any
prefix of the matches of the character pass; the buffer `buf1` the character pass leaves; from there the buffer after any
prefix of the matches of the type pass, or (cached type scorer) after any number of boundaries -/
def RunWithin (P : Int → Bool) (p : Predictor) (s : Sentence) : Prop :=
  (∀ x ∈ List.replicate (padding * 2 + s.types.length - 1) p.bias, P x = true) ∧
  (∀ sc, p.charScorer = some sc → ∀ k, ∃ buf st,
    pmaAddScores.go sc ((matchesNoSuffix sc.pats s.text).take k)
      (List.replicate (padding * 2 + s.types.length - 1) p.bias) (pmaStates0 sc s.text s.cstates) = .ok (buf, st) ∧
    ∀ x ∈ buf, P x = true) ∧
  ∃ buf1 cst,
    C01L.charPhase p.charScorer s.text s.cstates (List.replicate (padding * 2 + s.types.length - 1) p.bias)
      = .ok (buf1, cst) ∧
    (∀ x ∈ buf1, P x = true) ∧
    (∀ sc, p.typeScorer = some (.pma sc) → ∀ k, ∃ buf st,
      pmaAddScores.go sc ((matchesNoSuffix sc.pats s.types).take k) buf1 (pmaStates0 sc s.types s.tstates) = .ok (buf, st) ∧
      ∀ x ∈ buf, P x = true) ∧
    (∀ ng w, p.typeScorer = some (.cache ng w) →
      cacheAddScores ng w s.types s.bounds.length buf1
        = .ok (addAt buf1 padding (cacheAdds ng w s.types s.bounds.length)) ∧
      ∀ k, ∀ x ∈ addAt buf1 padding ((cacheAdds ng w s.types s.bounds.length).take k), P x = true) ∧
    ∀ pid, ∃ s', p.predict pid s = .ok s' ∧ ∀ x ∈ s'.scores, P x = true

namespace C01B
open C01L Merge

/-- `m0` is `m` with the n-grams of every kind whose window is 0 removed (`V.dropW0 m` in `C01.lean`) -/
structure IsDropW0 (m m0 : WModel) : Prop where
  charW : m0.charW = m.charW
  typeW : m0.typeW = m.typeW
  charNgrams : m0.charNgrams = if m.charW = 0 then [] else m.charNgrams
  typeNgrams : m0.typeNgrams = if m.typeW = 0 then [] else m.typeNgrams
  dict : m0.dict = m.dict
  bias : m0.bias = m.bias

/-! ## construction -/

theorem mergerIn_of_built {α : Type} [DecidableEq α] {W : Type} (P : Int → Bool) (M : Nat)
    (hP : ∀ x : Int, x.natAbs ≤ M → P x = true) (cfg : Cfg) (add : W → W → W) (d : W) (g : W → Option PW)
    (hg : AddOK add g) (es : List (List α × W)) (sc : PmaScorer α) (hb : BuiltFrom cfg add d g es sc)
    (hM : emass g es ≤ M) : sc.weightsIn P ∧ MergerIn P cfg add d g es sc := by
  obtain ⟨h1, h2, h3⟩ := merger_chk P M hP add d g hg es hM (builtFrom_keys_ne hg hb)
  exact ⟨builtFrom_weights P (hP 0 (by simp)) hb h3, hb, h1, h2⟩

theorem build_within (cfg : Cfg) (m m0 : WModel) (hd : IsDropW0 m m0) (pt : Bool) (p : Predictor)
    (hp : Predictor.new cfg m pt = .ok p) (P : Int → Bool) (hP : ∀ x : Int, x.natAbs ≤ m0.mass → P x = true) :
    BuildWithin P cfg m0 p := by
  obtain ⟨tc, tt, hc, ht, _⟩ := new_ok cfg m pt p hp
  have hmass : m0.mass = m0.bias.natAbs + ngramMass m0.charNgrams + ngramMass m0.typeNgrams + dictMass m0.dict := rfl
  refine ⟨?_, ?_, ?_⟩
  · intro sc hsc
    rw [hsc] at hc
    have hb := charScorerNew_built cfg m tc sc hc
    rw [← hd.charNgrams, ← hd.charW, ← hd.dict] at hb
    rcases hb with hb | hb
    · obtain ⟨h1, h2⟩ := mergerIn_of_built P m0.mass hP cfg PW.add ⟨0, []⟩ some addOK_PW _ sc hb
        (by rw [emass_charEntries, hmass]; omega)
      exact ⟨h1, Or.inl h2⟩
    · obtain ⟨h1, h2⟩ := mergerIn_of_built P m0.mass hP cfg PWT.add PWT.empty PWT.weight addOK_PWT _ sc hb
        (by rw [emass_charEntriesT, hmass]; omega)
      exact ⟨h1, Or.inr ⟨tc, h2⟩⟩
  · intro sc hsc
    rw [hsc] at ht
    have hb := typeScorerNew_built cfg m tt (.pma sc) ht
    rw [← hd.typeNgrams, ← hd.typeW] at hb
    rcases hb with ⟨sc', hsc', hb⟩ | hb
    · cases hsc'
      rcases hb with hb | hb
      · obtain ⟨h1, h2⟩ := mergerIn_of_built P m0.mass hP cfg PW.add ⟨0, []⟩ some addOK_PW _ sc hb
          (by rw [emass_typeEntries, hmass]; omega)
        exact ⟨h1, Or.inl h2⟩
      · obtain ⟨h1, h2⟩ := mergerIn_of_built P m0.mass hP cfg PWT.add PWT.empty PWT.weight addOK_PWT _ sc hb
          (by rw [emass_typeEntriesT, hmass]; omega)
        exact ⟨h1, Or.inr ⟨tt, h2⟩⟩
    · cases hb
  · intro ng w hts
    rw [hts] at ht
    have hb := typeScorerNew_built cfg m tt (.cache ng w) ht
    rw [← hd.typeNgrams, ← hd.typeW] at hb
    rcases hb with ⟨sc', hsc', _⟩ | hb
    · cases hsc'
    · simp only [TypeScorer.cache.injEq] at hb
      refine ⟨hb.1, hb.2, fun seqid => ?_⟩
      rw [hb.1, hb.2]
      exact cache_within P m0.mass hP m0.typeNgrams (by rw [hmass]; omega) m0.typeW seqid

/-! ## prediction -/

theorem charPass_within (cfg : Cfg) (m : WModel) (tc : List (List (TagNgramData Char))) (cs : Option (PmaScorer Char))
    (hc : charScorerNew cfg m tc = .ok cs)
    (hcs : 1 ≤ m.charW → ∀ d ∈ m.charNgrams, 1 ≤ d.ngram.length ∧ d.ngram.length ≤ 2 * m.charW ∧
      d.weights.length = 2 * m.charW - d.ngram.length + 1)
    (hds : ∀ d ∈ m.dict, 1 ≤ d.word.length)
    (text : List Char) (buf : List Int) (hbuf : buf.length = text.length + 13) (states : List (Option Nat))
    (B : Nat) (hB : ∀ x ∈ buf, x.natAbs ≤ B) :
    (∀ sc, cs = some sc → ∀ k, ∃ r st,
      pmaAddScores.go sc ((matchesNoSuffix sc.pats text).take k) buf (pmaStates0 sc text states) = .ok (r, st) ∧
      r.length = buf.length ∧
      ∀ x ∈ r, x.natAbs ≤ B + (ngramMass (if m.charW = 0 then [] else m.charNgrams) + dictMass m.dict)) ∧
    ∃ buf1 cst, charPhase cs text states buf = .ok (buf1, cst) ∧ buf1.length = buf.length ∧
      ∀ x ∈ buf1, x.natAbs ≤ B + (ngramMass (if m.charW = 0 then [] else m.charNgrams) + dictMass m.dict) := by
  have hshape : ∀ d ∈ (if m.charW = 0 then [] else m.charNgrams), 1 ≤ m.charW ∧ d.ngram.length ≤ 2 * m.charW ∧
      d.weights.length = 2 * m.charW - d.ngram.length + 1 := by
    intro d hd
    split at hd
    · cases hd
    · rename_i h0
      have hW : 1 ≤ m.charW := by omega
      exact ⟨hW, (hcs hW d hd).2.1, (hcs hW d hd).2.2⟩
  have h1 : ∀ sc, cs = some sc → ∀ k, ∃ r st,
      pmaAddScores.go sc ((matchesNoSuffix sc.pats text).take k) buf (pmaStates0 sc text states) = .ok (r, st) ∧
      r.length = buf.length ∧
      ∀ x ∈ r, x.natAbs ≤ B + (ngramMass (if m.charW = 0 then [] else m.charNgrams) + dictMass m.dict) := by
    intro sc hsc k
    rw [hsc] at hc
    rcases charScorerNew_built cfg m tc sc hc with hb | hb
    · have := pass_bounded cfg PW.add ⟨0, []⟩ some addOK_PW _ (Pg_charEntries _ _ _ hshape hds) sc hb text buf hbuf
        states B hB k
      rw [emass_charEntries] at this
      exact this
    · have := pass_bounded cfg PWT.add PWT.empty PWT.weight addOK_PWT _ (Pg_charEntriesT _ _ _ tc hshape hds) sc hb
        text buf hbuf states B hB k
      rw [emass_charEntriesT] at this
      exact this
  refine ⟨h1, ?_⟩
  cases hcs' : cs with
  | none => exact ⟨buf, states, rfl, rfl, fun x hx => by have := hB x hx; omega⟩
  | some sc =>
    obtain ⟨r, st, hgo, hlen, hval⟩ := h1 sc hcs' (matchesNoSuffix sc.pats text).length
    rw [List.take_length] at hgo
    exact ⟨r, st, hgo, hlen, hval⟩

theorem typePass_within (cfg : Cfg) (m : WModel) (tt : List (List (TagNgramData Nat))) (ts : Option TypeScorer)
    (ht : typeScorerNew cfg m tt = .ok ts)
    (hts : 1 ≤ m.typeW → ∀ d ∈ m.typeNgrams, 1 ≤ d.ngram.length ∧ d.ngram.length ≤ 2 * m.typeW ∧
      d.weights.length = 2 * m.typeW - d.ngram.length + 1 ∧ ∀ t ∈ d.ngram, 1 ≤ t ∧ t ≤ 6)
    (types : List Nat) (nB : Nat) (hnB : nB ≤ types.length)
    (buf : List Int) (hbuf : buf.length = types.length + 13) (states : List (Option Nat))
    (B : Nat) (hB : ∀ x ∈ buf, x.natAbs ≤ B) :
    (∀ sc, ts = some (.pma sc) → ∀ k, ∃ r st,
      pmaAddScores.go sc ((matchesNoSuffix sc.pats types).take k) buf (pmaStates0 sc types states) = .ok (r, st) ∧
      ∀ x ∈ r, x.natAbs ≤ B + ngramMass (if m.typeW = 0 then [] else m.typeNgrams)) ∧
    (∀ ng w, ts = some (.cache ng w) →
      cacheAddScores ng w types nB buf = .ok (addAt buf padding (cacheAdds ng w types nB)) ∧
      ∀ k, ∀ x ∈ addAt buf padding ((cacheAdds ng w types nB).take k),
        x.natAbs ≤ B + ngramMass (if m.typeW = 0 then [] else m.typeNgrams)) ∧
    ∃ buf2 tst, typePhase ts types nB states buf = .ok (buf2, tst) ∧
      ∀ x ∈ buf2, x.natAbs ≤ B + ngramMass (if m.typeW = 0 then [] else m.typeNgrams) := by
  have hshape : ∀ d ∈ (if m.typeW = 0 then [] else m.typeNgrams), 1 ≤ m.typeW ∧ d.ngram.length ≤ 2 * m.typeW ∧
      d.weights.length = 2 * m.typeW - d.ngram.length + 1 := by
    intro d hd
    split at hd
    · cases hd
    · rename_i h0
      have hW : 1 ≤ m.typeW := by omega
      exact ⟨hW, (hts hW d hd).2.1, (hts hW d hd).2.2.1⟩
  have h1 : ∀ sc, ts = some (.pma sc) → ∀ k, ∃ r st,
      pmaAddScores.go sc ((matchesNoSuffix sc.pats types).take k) buf (pmaStates0 sc types states) = .ok (r, st) ∧
      ∀ x ∈ r, x.natAbs ≤ B + ngramMass (if m.typeW = 0 then [] else m.typeNgrams) := by
    intro sc hsc k
    rw [hsc] at ht
    rcases typeScorerNew_built cfg m tt (.pma sc) ht with ⟨sc', hsc', hb⟩ | hb
    · cases hsc'
      rcases hb with hb | hb
      · obtain ⟨r, st, h1, _, h3⟩ := pass_bounded cfg PW.add ⟨0, []⟩ some addOK_PW _ (Pg_typeEntries _ _ hshape) sc hb
          types buf hbuf states B hB k
        rw [emass_typeEntries] at h3
        exact ⟨r, st, h1, h3⟩
      · obtain ⟨r, st, h1, _, h3⟩ := pass_bounded cfg PWT.add PWT.empty PWT.weight addOK_PWT _
          (Pg_typeEntriesT _ _ tt hshape) sc hb types buf hbuf states B hB k
        rw [emass_typeEntriesT] at h3
        exact ⟨r, st, h1, h3⟩
    · cases hb
  have h2 : ∀ ng w, ts = some (.cache ng w) →
      cacheAddScores ng w types nB buf = .ok (addAt buf padding (cacheAdds ng w types nB)) ∧
      ∀ k, ∀ x ∈ addAt buf padding ((cacheAdds ng w types nB).take k),
        x.natAbs ≤ B + ngramMass (if m.typeW = 0 then [] else m.typeNgrams) := by
    intro ng w hsc
    rw [hsc] at ht
    have hpad : padding + nB ≤ buf.length := by rw [padding_eq]; omega
    refine ⟨cacheAddScores_eq_adds ng w types nB buf hpad, fun k => ?_⟩
    rcases typeScorerNew_built cfg m tt (.cache ng w) ht with ⟨sc', hsc', _⟩ | hb
    · cases hsc'
    · simp only [TypeScorer.cache.injEq] at hb
      rw [← hb.1]
      apply addAt_bounded buf padding _ (by omega) B (ngramMass ng) hB
      intro a ha
      obtain ⟨seqid, rfl⟩ := cacheAdds_mem ng w types nB a ha
      exact cacheEntry_natAbs_le ng w seqid
  refine ⟨h1, h2, ?_⟩
  cases hts' : ts with
  | none => exact ⟨buf, states, rfl, fun x hx => by have := hB x hx; omega⟩
  | some t =>
    cases t with
    | pma sc =>
      obtain ⟨r, st, hgo, hval⟩ := h1 sc hts' (matchesNoSuffix sc.pats types).length
      rw [List.take_length] at hgo
      exact ⟨r, st, hgo, hval⟩
    | cache ng w =>
      obtain ⟨he, hval⟩ := h2 ng w hts'
      refine ⟨addAt buf padding (cacheAdds ng w types nB), [], ?_, ?_⟩
      · show (cacheAddScores ng w types nB buf).map (fun b => (b, [])) = _
        rw [he]; rfl
      · have := hval (cacheAdds ng w types nB).length
        rwa [List.take_length] at this

theorem run_within (cfg : Cfg) (m m0 : WModel) (hd : IsDropW0 m m0)
    (hcs : 1 ≤ m.charW → ∀ d ∈ m.charNgrams, 1 ≤ d.ngram.length ∧ d.ngram.length ≤ 2 * m.charW ∧
      d.weights.length = 2 * m.charW - d.ngram.length + 1)
    (hts : 1 ≤ m.typeW → ∀ d ∈ m.typeNgrams, 1 ≤ d.ngram.length ∧ d.ngram.length ≤ 2 * m.typeW ∧
      d.weights.length = 2 * m.typeW - d.ngram.length + 1 ∧ ∀ t ∈ d.ngram, 1 ≤ t ∧ t ≤ 6)
    (hds : ∀ d ∈ m.dict, 1 ≤ d.word.length)
    (pt : Bool) (p : Predictor) (hp : Predictor.new cfg m pt = .ok p)
    (s : Sentence) (hne : s.text ≠ []) (htypes : s.types = typesOf s.text)
    (hbl : s.bounds.length + 1 = s.text.length)
    (P : Int → Bool) (hP : ∀ x : Int, x.natAbs ≤ m0.mass → P x = true) : RunWithin P p s := by
  obtain ⟨tc, tt, hc, ht, hbias⟩ := new_ok cfg m pt p hp
  have hn : 1 ≤ s.text.length := by
    cases h : s.text with
    | nil => exact absurd h hne
    | cons _ _ => simp
  have htl : s.types.length = s.text.length := by rw [htypes]; simp [typesOf]
  have hmass : m0.mass = m.bias.natAbs + ngramMass (if m.charW = 0 then [] else m.charNgrams)
      + ngramMass (if m.typeW = 0 then [] else m.typeNgrams) + dictMass m.dict := by
    rw [← hd.bias, ← hd.charNgrams, ← hd.typeNgrams, ← hd.dict]; rfl
  unfold RunWithin
  generalize hbuf0 : List.replicate (padding * 2 + s.types.length - 1) p.bias = buf0
  have hb0 : buf0.length = s.text.length + 13 := by
    rw [← hbuf0, List.length_replicate, padding_eq, htl]; omega
  have hB0 : ∀ x ∈ buf0, x.natAbs ≤ m.bias.natAbs := by
    intro x hx
    rw [← hbuf0] at hx
    rw [(List.mem_replicate.mp hx).2, hbias]
    exact Nat.le_refl _
  obtain ⟨hc1, buf1, cst, hc2, hl1, hc3⟩ := charPass_within cfg m tc p.charScorer hc hcs hds s.text buf0 hb0 s.cstates
    m.bias.natAbs hB0
  obtain ⟨ht1, ht2, buf2, tst, ht3, ht4⟩ := typePass_within cfg m tt p.typeScorer ht hts s.types s.bounds.length
    (by omega) buf1 (by rw [hl1, hb0, htl]) s.tstates _ hc3
  refine ⟨fun x hx => hP x (by have := hB0 x hx; omega), ?_, buf1, cst, hc2,
    fun x hx => hP x (by have := hc3 x hx; omega), ?_, ?_, ?_⟩
  · intro sc hsc k
    obtain ⟨r, st, h1, _, h3⟩ := hc1 sc hsc k
    exact ⟨r, st, h1, fun x hx => hP x (by have := h3 x hx; omega)⟩
  · intro sc hsc k
    obtain ⟨r, st, h1, h3⟩ := ht1 sc hsc k
    exact ⟨r, st, h1, fun x hx => hP x (by have := h3 x hx; omega)⟩
  · intro ng w hsc
    obtain ⟨h1, h3⟩ := ht2 ng w hsc
    exact ⟨h1, fun k x hx => hP x (by have := h3 k x hx; omega)⟩
  · intro pid
    refine ⟨finish s pid buf2 cst tst, ?_, fun x hx => hP x (by have := ht4 x hx; omega)⟩
    rw [predict_eq, hbuf0, hc2]
    show finishR s pid cst (typePhase p.typeScorer s.types s.bounds.length s.tstates buf1) = _
    rw [ht3]; rfl

end C01B
end V
