import VProofs.Lemmas.Part
/-!
Helper lemmas for C04 (3/3): an invariant of every run of the `parse_partial_annotation` state machine.
-/
namespace V.C04L

/-- NUL-free text, one tag list per character, and one label between any two characters -/
def PartInv (s : PartSt) : Prop :=
  (∀ c ∈ s.text, c ≠ '\x00') ∧ s.tagsTmp.length = s.text.length ∧
    s.bounds.length + (if s.isChar then 0 else 1) = s.text.length

theorem partInv_init : PartInv {} := by
  simp [PartInv]

theorem partInv_boundary {s s' : PartSt} {b : B} (hc : s.isChar = false) (h : PartInv s)
    (hs : partBoundary s b = .ok s') : PartInv s' := by
  obtain ⟨h1, h2, h3⟩ := h
  simp only [hc, Bool.false_eq_true, if_false] at h3
  unfold partBoundary at hs
  split at hs
  · cases hs
    refine ⟨h1, h2, ?_⟩
    simp only [List.length_append, List.length_cons, List.length_nil, if_true]
    omega
  · split at hs
    · cases hs
    · rename_i tt hp
      cases hs
      refine ⟨h1, ?_, ?_⟩
      · simp only [pushLast_length hp, h2]
      · simp only [List.length_append, List.length_cons, List.length_nil, if_true]
        omega

theorem partInv_step {s s' : PartSt} {c : Char} (h : PartInv s) (hs : partStep s c = .ok s') :
    PartInv s' := by
  unfold partStep at hs
  split at hs
  · rename_i hc
    split at hs
    · cases hs
    · rename_i h0
      cases hs
      obtain ⟨h1, h2, h3⟩ := h
      simp only [hc, if_true] at h3
      refine ⟨?_, ?_, ?_⟩
      · intro d hd
        simp only [List.mem_append, List.mem_singleton] at hd
        rcases hd with hd | hd
        · exact h1 d hd
        · rw [hd]; exact h0
      · simp [h2]
      · simp only [List.length_append, List.length_cons, List.length_nil, Bool.false_eq_true, if_false]
        omega
  · rename_i hc
    have hc' : s.isChar = false := by simpa using hc
    split at hs
    · cases hs; exact h
    · split at hs
      · exact partInv_boundary hc' h hs
      · split at hs
        · exact partInv_boundary hc' h hs
        · split at hs
          · exact partInv_boundary hc' h hs
          · split at hs
            · split at hs
              · cases hs; exact h
              · split at hs
                · cases hs
                · rename_i tt hp
                  cases hs
                  obtain ⟨h1, h2, h3⟩ := h
                  exact ⟨h1, by simp only [pushLast_length hp, h2], h3⟩
            · split at hs
              · cases hs; exact h
              · cases hs

theorem partInv_run (cs : List Char) : ∀ {s s' : PartSt}, PartInv s → partRun s cs = .ok s' → PartInv s' := by
  induction cs with
  | nil => intro s s' h hr; simp only [partRun, Res.ok.injEq] at hr; subst hr; exact h
  | cons c cs ih =>
    intro s s' h hr
    simp only [partRun] at hr
    split at hr
    · rename_i s1 hs
      exact ih (partInv_step h hs) hr
    · cases hr
    · cases hr
    · cases hr

/-- what `parse_partial_annotation` returns: the flushed state satisfies the invariant -/
theorem parsePartial_ok {x : List Char} {p : Parsed} (h : parsePartial x = .ok p) :
    ∃ tt : List (List (List Char)), p.tags = padTags (maxLen tt) tt ∧ tt.length = p.text.length ∧
      (∀ c ∈ p.text, c ≠ '\x00') ∧ p.bounds.length + 1 = p.text.length := by
  unfold parsePartial at h
  split at h
  · cases h
  · split at h
    · rename_i s hr
      obtain ⟨h1, h2, h3⟩ := partInv_run x partInv_init hr
      split at h
      · cases h
      · rename_i hc
        simp only [hc] at h3
        split at h
        · cases h
          exact ⟨s.tagsTmp, rfl, h2, h1, h3⟩
        · split at h
          · cases h
          · rename_i tt hp
            cases h
            exact ⟨tt, rfl, by simp only [pushLast_length hp, h2], h1, h3⟩
    · cases h
    · cases h
    · cases h

end V.C04L
