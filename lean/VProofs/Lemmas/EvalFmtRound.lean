import VProofs.Lemmas.QuantBits
import VModel.F64Fmt
/-!
# Reading back: a rational inside the rounding interval of a double rounds to that double
-/
namespace V.FmtL
open V V.F64 V.QuantL

/-- uniqueness of round-to-nearest-even: within half a unit of `c`, and `c` even on a tie -/
theorem rneDiv_eq_of (n D c : Nat) (hD : 0 < D) (h1 : 2 * (D * c) ≤ 2 * n + D) (h2 : 2 * n ≤ 2 * (D * c) + D)
    (h1' : 2 * (D * c) = 2 * n + D → c % 2 = 0) (h2' : 2 * n = 2 * (D * c) + D → c % 2 = 0) : rneDiv n D = c := by
  obtain ⟨s1, s2, s3, s4⟩ := rneDiv_spec n D hD
  rcases Nat.lt_trichotomy (rneDiv n D) c with hlt | heq | hgt
  · exfalso
    have hm : D * (rneDiv n D + 1) ≤ D * c := Nat.mul_le_mul_left D hlt
    rw [Nat.mul_add, Nat.mul_one] at hm
    have e1 : 2 * (D * c) = 2 * n + D := by omega
    have e2 : 2 * n = 2 * (D * rneDiv n D) + D := by omega
    have p1 := h1' e1
    have p2 := s3 e2
    have e3 : D * c = D * (rneDiv n D + 1) := by rw [Nat.mul_add, Nat.mul_one]; omega
    have := Nat.eq_of_mul_eq_mul_left hD e3
    omega
  · exact heq
  · exfalso
    have hm : D * (c + 1) ≤ D * rneDiv n D := Nat.mul_le_mul_left D hgt
    rw [Nat.mul_add, Nat.mul_one] at hm
    have e1 : 2 * n = 2 * (D * c) + D := by omega
    have e2 : 2 * (D * rneDiv n D) = 2 * n + D := by omega
    have p1 := h2' e1
    have p2 := s4 e2
    have e3 : D * rneDiv n D = D * (c + 1) := by rw [Nat.mul_add, Nat.mul_one]; omega
    have := Nat.eq_of_mul_eq_mul_left hD e3
    omega

/-- the grid exponent from bounds on the quotient -/
theorem shiftOf_eq (n d u : Nat) (hd : 0 < d) (hu : n < d * 2 ^ (u + 53)) (hl : u = 0 ∨ d * 2 ^ (u + 52) ≤ n) :
    shiftOf n d = u := by
  have hq : n / d < 2 ^ (u + 53) := (Nat.div_lt_iff_lt_mul hd).mpr (by rw [Nat.mul_comm]; exact hu)
  unfold shiftOf
  by_cases h0 : n / d = 0
  · rw [h0]
    have hz : Nat.log2 0 = 0 := by decide
    rw [hz]
    rcases hl with rfl | hl
    · rfl
    · exfalso
      have hq2 : 2 ^ (u + 52) ≤ n / d := (Nat.le_div_iff_mul_le hd).mpr (by rw [Nat.mul_comm]; exact hl)
      have := two_pow_pos (u + 52)
      omega
  · rcases hl with rfl | hl
    · have : (n / d).log2 < 0 + 53 := (Nat.log2_lt h0).mpr hq
      omega
    · have hq2 : 2 ^ (u + 52) ≤ n / d := (Nat.le_div_iff_mul_le hd).mpr (by rw [Nat.mul_comm]; exact hl)
      have := log2_eq_of (k := u + 52) hq2 hq
      omega

/-- the normal form of a non-zero representable magnitude: `a = c·2^t` with `t = ⌊log2 a⌋ − 52`, `c < 2^53`, and
`2^52 ≤ c` above the integer grid -/
theorem rep_normal (a : Nat) (ha : 0 < a) (hrep : repUnits a = true) :
    a = a / 2 ^ (a.log2 - 52) * 2 ^ (a.log2 - 52) ∧ 0 < a / 2 ^ (a.log2 - 52) ∧ a / 2 ^ (a.log2 - 52) < 2 ^ 53 ∧
      (a.log2 - 52 = 0 ∨ 2 ^ 52 ≤ a / 2 ^ (a.log2 - 52)) := by
  unfold repUnits at hrep
  rw [beq_iff_eq] at hrep
  have hT := two_pow_pos (a.log2 - 52)
  have hdm := Nat.div_add_mod a (2 ^ (a.log2 - 52))
  rw [hrep, Nat.add_zero, Nat.mul_comm] at hdm
  have h1 : 2 ^ a.log2 ≤ a := Nat.log2_self_le (Nat.ne_of_gt ha)
  have h2 : a < 2 ^ (a.log2 + 1) := Nat.lt_log2_self
  refine ⟨hdm.symm, ?_, ?_, ?_⟩
  · exact Nat.div_pos (Nat.le_trans (Nat.pow_le_pow_right (by decide) (Nat.sub_le _ _)) h1) hT
  · apply (Nat.div_lt_iff_lt_mul hT).mpr
    rw [← Nat.pow_add]
    exact Nat.lt_of_lt_of_le h2 (Nat.pow_le_pow_right (by decide) (by omega))
  · by_cases ht : a.log2 - 52 = 0
    · exact Or.inl ht
    · right
      apply (Nat.le_div_iff_mul_le hT).mpr
      rw [← Nat.pow_add]
      exact Nat.le_trans (Nat.pow_le_pow_right (by decide) (by omega)) h1

/-- the core: `c·2^t` in normal form, `n/d` within the rounding interval (in quarter steps), strictly for odd `c` -/
theorem round_core (c t n d : Nat) (hd : 0 < d) (hc0 : 0 < c) (hc : c < 2 ^ 53) (hn : t = 0 ∨ 2 ^ 52 ≤ c)
    (lo : 4 * (c * 2 ^ t) * d ≤ 4 * n + (if c = 2 ^ 52 ∧ t ≠ 0 then 2 ^ t else 2 * 2 ^ t) * d)
    (lo' : c % 2 ≠ 0 → 4 * (c * 2 ^ t) * d < 4 * n + (if c = 2 ^ 52 ∧ t ≠ 0 then 2 ^ t else 2 * 2 ^ t) * d)
    (up : 4 * n ≤ 4 * (c * 2 ^ t) * d + 2 * 2 ^ t * d)
    (up' : c % 2 ≠ 0 → 4 * n < 4 * (c * 2 ^ t) * d + 2 * 2 ^ t * d) :
    roundUnits n d = c * 2 ^ t := by
  have hT := two_pow_pos t
  -- `D = d·2^t`, `X = D·c`
  have eX : 4 * (c * 2 ^ t) * d = 4 * (d * 2 ^ t * c) := by ac_rfl
  have eU : 2 * 2 ^ t * d = 2 * (d * 2 ^ t) := by ac_rfl
  have eD1 : 2 ^ t * d = d * 2 ^ t := Nat.mul_comm _ _
  rw [eX] at lo lo' up up'
  rw [eU] at up up'
  have hD : 0 < d * 2 ^ t := Nat.mul_pos hd hT
  have hXle : d * 2 ^ t * c ≤ d * 2 ^ t * (2 ^ 53 - 1) := Nat.mul_le_mul_left _ (by omega)
  have e53 : ∀ u, d * 2 ^ (u + 53) = d * 2 ^ u * 2 ^ 53 := fun u => by rw [Nat.pow_add, Nat.mul_assoc]
  have e52 : ∀ u, d * 2 ^ (u + 52) = d * 2 ^ u * 2 ^ 52 := fun u => by rw [Nat.pow_add, Nat.mul_assoc]
  by_cases hsp : c = 2 ^ 52 ∧ t ≠ 0 ∧ n < d * 2 ^ t * c
  · -- just below a power of two: the grid is `2^(t−1)`
    obtain ⟨hc52, ht0, hlt⟩ := hsp
    rw [if_pos ⟨hc52, ht0⟩, eD1] at lo
    obtain ⟨t', rfl⟩ : ∃ t', t = t' + 1 := ⟨t - 1, by omega⟩
    have eT : d * 2 ^ (t' + 1) = 2 * (d * 2 ^ t') := by rw [Nat.pow_succ]; ac_rfl
    rw [eT] at lo hlt
    subst hc52
    have e2 : 2 * (d * 2 ^ t') * 2 ^ 52 = d * 2 ^ t' * 2 ^ 53 := by
      have h53 : (2 : Nat) ^ 53 = 2 ^ 52 * 2 := by decide
      rw [h53]; ac_rfl
    rw [e2] at lo hlt
    clear e2
    clear lo' up' up hXle eX eU eD1 hD hT hn hc hc0
    have hD' : 0 < d * 2 ^ t' := Nat.mul_pos hd (two_pow_pos t')
    have hs : shiftOf n d = t' := by
      apply shiftOf_eq n d t' hd
      · rw [e53]; clear e53 e52; omega
      · right; rw [e52]; clear e53 e52; omega
    clear e53 e52
    rw [roundUnits_eq, hs]
    have hr : rneDiv n (d * 2 ^ t') = 2 ^ 53 := by
      apply rneDiv_eq_of n (d * 2 ^ t') (2 ^ 53) hD'
      · omega
      · omega
      · intro _; decide
      · intro _; decide
    rw [hr, Nat.pow_succ 2 t']
    have h53 : (2 : Nat) ^ 53 = 2 ^ 52 * 2 := by decide
    rw [h53]; ac_rfl
  · have hdown : (if c = 2 ^ 52 ∧ t ≠ 0 then 2 ^ t else 2 * 2 ^ t) * d ≤ 2 * (d * 2 ^ t) := by
      split
      · rw [eD1]; omega
      · rw [← eU]; exact Nat.le_refl _
    generalize (if c = 2 ^ 52 ∧ t ≠ 0 then 2 ^ t else 2 * 2 ^ t) * d = dn at lo lo' hdown
    have hs : shiftOf n d = t := by
      apply shiftOf_eq n d t hd
      · rw [e53]; clear e53 e52; omega
      · by_cases ht0 : t = 0
        · exact Or.inl ht0
        · right
          have h52 : 2 ^ 52 ≤ c := by
            rcases hn with h | h
            · exact absurd h ht0
            · exact h
          rw [e52]
          clear e53 e52
          have hXge : d * 2 ^ t * 2 ^ 52 ≤ d * 2 ^ t * c := Nat.mul_le_mul_left _ h52
          by_cases hge : d * 2 ^ t * c ≤ n
          · omega
          · have hc52 : c ≠ 2 ^ 52 := fun h => hsp ⟨h, ht0, by omega⟩
            have hX1 : d * 2 ^ t * (2 ^ 52 + 1) ≤ d * 2 ^ t * c := Nat.mul_le_mul_left _ (by omega)
            rw [Nat.mul_add, Nat.mul_one] at hX1
            clear hXle hsp hn hc hc52 h52
            generalize d * 2 ^ t * 2 ^ 52 = Y at hXge hX1 ⊢
            omega
    clear e53 e52
    rw [roundUnits_eq, hs]
    have hr : rneDiv n (d * 2 ^ t) = c := by
      clear hsp hs hXle hn hc hc0
      apply rneDiv_eq_of n (d * 2 ^ t) c hD
      · omega
      · omega
      · intro e
        apply Classical.byContradiction
        intro ho
        have := lo' ho
        omega
      · intro e
        apply Classical.byContradiction
        intro ho
        have := up' ho
        omega
    rw [hr]

/-- a rational inside the rounding interval of the double `a` rounds to `a` -/
theorem round_of_interval (a n d : Nat) (hd : 0 < d) (ha : 0 < a) (hrep : repUnits a = true)
    (h : F64.inRoundInterval a n d = true) : roundUnits n d = a := by
  obtain ⟨e1, hc0, hc, hn⟩ := rep_normal a ha hrep
  unfold F64.inRoundInterval at h
  simp only [] at h
  generalize a.log2 - 52 = t at e1 hc0 hc hn h
  generalize a / 2 ^ t = c at e1 hc0 hc hn h
  have hiff : (a = 2 ^ (52 + t) ∧ t ≠ 0) ↔ (c = 2 ^ 52 ∧ t ≠ 0) := by
    have hT := two_pow_pos t
    constructor
    · rintro ⟨h1, h2⟩
      refine ⟨?_, h2⟩
      rw [e1, Nat.pow_add] at h1
      exact Nat.eq_of_mul_eq_mul_right hT h1
    · rintro ⟨h1, h2⟩
      refine ⟨?_, h2⟩
      rw [e1, h1, Nat.pow_add]
  have hdown : (if a = 2 ^ (52 + t) ∧ t ≠ 0 then 2 ^ t else 2 * 2 ^ t) = (if c = 2 ^ 52 ∧ t ≠ 0 then 2 ^ t else 2 * 2 ^ t) := by
    by_cases hx : c = 2 ^ 52 ∧ t ≠ 0
    · rw [if_pos hx, if_pos (hiff.mpr hx)]
    · rw [if_neg hx, if_neg (fun h => hx (hiff.mp h))]
  rw [hdown] at h
  rw [e1] at h ⊢
  by_cases hev : c % 2 = 0
  · rw [if_pos hev] at h
    simp only [Bool.and_eq_true, decide_eq_true_eq] at h
    exact round_core c t n d hd hc0 hc hn h.1 (fun ho => absurd hev ho) h.2 (fun ho => absurd hev ho)
  · rw [if_neg hev] at h
    simp only [Bool.and_eq_true, decide_eq_true_eq] at h
    exact round_core c t n d hd hc0 hc hn (Nat.le_of_lt h.1) (fun _ => h.1) (Nat.le_of_lt h.2) (fun _ => h.2)

end V.FmtL
