import VProofs.Lemmas.EvalFmtExponent
/-!
# Seventeen digits always suffice: the search of `f64ShortestDec` never exhausts its fuel
-/
namespace V.FmtL
open V V.F64 V.QuantL

/-- the linear core: `F ≤ X < F + S` (the double between two neighbouring multiples of the spacing) and the spacing is
smaller than the interval (`dn` below, `2·Y` above, in quarter units): one of the neighbours is strictly inside -/
theorem close_core (X Y F S dn : Nat) (b1 : F ≤ X) (b2 : X < F + S) (h4 : 4 * S < dn + 2 * Y) (hdn : 0 < dn)
    (hY : 0 < Y) :
    (4 * X < 4 * F + dn ∧ 4 * F < 4 * X + 2 * Y) ∨ (4 * X < 4 * (F + S) + dn ∧ 4 * (F + S) < 4 * X + 2 * Y) := by
  omega

/-- spacing at most `a·10^-16` ⇒ one of the two neighbours of `a` lies in the rounding interval -/
theorem near_interval (a f S D : Nat) (hD : 0 < D) (ha : 0 < a) (hrep : repUnits a = true)
    (b1 : f * S ≤ D * a) (b2 : D * a < f * S + S) (hS : 10 ^ 16 * S ≤ D * a) :
    F64.inRoundInterval a (f * S) D = true ∨ F64.inRoundInterval a (f * S + S) D = true := by
  obtain ⟨e1, hc0, hc, hn⟩ := rep_normal a ha hrep
  unfold F64.inRoundInterval
  simp only []
  generalize a.log2 - 52 = t at e1 hc0 hc hn
  generalize a / 2 ^ t = c at e1 hc0 hc hn
  have hT : 0 < 2 ^ t := two_pow_pos t
  have hY : 0 < 2 ^ t * D := Nat.mul_pos hT hD
  have key : (4 * a * D < 4 * (f * S) + (if a = 2 ^ (52 + t) ∧ t ≠ 0 then 2 ^ t else 2 * 2 ^ t) * D ∧
        4 * (f * S) < 4 * a * D + 2 * 2 ^ t * D) ∨
      (4 * a * D < 4 * (f * S + S) + (if a = 2 ^ (52 + t) ∧ t ≠ 0 then 2 ^ t else 2 * 2 ^ t) * D ∧
        4 * (f * S + S) < 4 * a * D + 2 * 2 ^ t * D) := by
    have eX : 4 * a * D = 4 * (D * a) := by ac_rfl
    have eU : 2 * 2 ^ t * D = 2 * (2 ^ t * D) := Nat.mul_assoc _ _ _
    rw [eX, eU]
    by_cases hsp : a = 2 ^ (52 + t) ∧ t ≠ 0
    · rw [if_pos hsp]
      have ea : D * a = 2 ^ 52 * (2 ^ t * D) := by rw [hsp.1, Nat.pow_add]; ac_rfl
      clear eX eU e1
      generalize D * a = X at *
      generalize 2 ^ t * D = Y at *
      generalize f * S = F at *
      apply close_core X Y F S Y b1 b2 ?_ hY hY
      omega
    · rw [if_neg hsp, eU]
      have ea : D * a < 2 ^ 53 * (2 ^ t * D) := by
        have h1 : a < 2 ^ 53 * 2 ^ t := by rw [e1]; exact Nat.mul_lt_mul_of_pos_right hc hT
        have h2 : D * a < D * (2 ^ 53 * 2 ^ t) := Nat.mul_lt_mul_of_pos_left h1 hD
        have h3 : D * (2 ^ 53 * 2 ^ t) = 2 ^ 53 * (2 ^ t * D) := by ac_rfl
        rw [h3] at h2; exact h2
      clear eX eU e1
      generalize D * a = X at *
      generalize 2 ^ t * D = Y at *
      generalize f * S = F at *
      apply close_core X Y F S (2 * Y) b1 b2 ?_ (by omega) hY
      omega
  generalize (if a = 2 ^ (52 + t) ∧ t ≠ 0 then 2 ^ t else 2 * 2 ^ t) * D = dn at key ⊢
  by_cases hev : c % 2 = 0
  · rw [if_pos hev, if_pos hev]
    simp only [Bool.and_eq_true, decide_eq_true_eq]
    rcases key with ⟨k1, k2⟩ | ⟨k1, k2⟩
    · exact Or.inl ⟨Nat.le_of_lt k1, Nat.le_of_lt k2⟩
    · exact Or.inr ⟨Nat.le_of_lt k1, Nat.le_of_lt k2⟩
  · rw [if_neg hev, if_neg hev]
    simp only [Bool.and_eq_true, decide_eq_true_eq]
    exact key

/-- the lower bound on the decimal exponent, at the scale of the 17th digit: `10^16 · 10^p ≤ x` for `p = e − 17` -/
theorem scale17 (a : Nat) (p q : Int) (hq : q = p + 16) (hlo : decNum 1 q ≤ decDen q * a) :
    10 ^ 16 * (10 ^ p.toNat * unit) ≤ 10 ^ (-p).toNat * a := by
  unfold decNum decDen at hlo
  generalize unit = U at hlo ⊢
  rw [Nat.one_mul] at hlo
  by_cases hp : 0 ≤ p
  · have e1 : q.toNat = p.toNat + 16 := by omega
    have e2 : (-q).toNat = 0 := by omega
    have e3 : (-p).toNat = 0 := by omega
    rw [e1, e2, Nat.pow_add] at hlo
    rw [e3]
    have e : 10 ^ 16 * (10 ^ p.toNat * U) = 10 ^ p.toNat * 10 ^ 16 * U := by
      generalize (10 : Nat) ^ 16 = K
      ac_rfl
    rw [e]; exact hlo
  · have e0 : p.toNat = 0 := by omega
    rw [e0, Nat.pow_zero, Nat.one_mul]
    by_cases hp16 : p ≤ -16
    · have e1 : q.toNat = 0 := by omega
      have e2 : (-p).toNat = (-q).toNat + 16 := by omega
      rw [e1, Nat.pow_zero, Nat.one_mul] at hlo
      rw [e2, Nat.pow_add]
      have h := Nat.mul_le_mul_left (10 ^ 16) hlo
      have e : 10 ^ (-q).toNat * 10 ^ 16 * a = 10 ^ 16 * (10 ^ (-q).toNat * a) := by
        generalize (10 : Nat) ^ 16 = K
        ac_rfl
      rw [e]; exact h
    · have e1 : (-q).toNat = 0 := by omega
      have e2 : 16 = (-p).toNat + q.toNat := by omega
      rw [e1, Nat.pow_zero, Nat.one_mul] at hlo
      have h := Nat.mul_le_mul_left (10 ^ (-p).toNat) hlo
      have e : (10 : Nat) ^ 16 = 10 ^ (-p).toNat * 10 ^ q.toNat := by
        rw [← Nat.pow_add, ← e2]
      rw [e, Nat.mul_assoc]; exact h

/-- seventeen digits suffice: the search ends at some `k ≤ 17`, for every non-zero representable magnitude -/
theorem search_17 (a : Nat) (ha : 0 < a) (hrep : repUnits a = true) :
    ∃ (m k : Nat), shortestSearch a (decExponent a) 20 1 = some (m, decExponent a - (k : Int)) ∧ 1 ≤ k ∧ k ≤ 17 ∧
      m ≤ cand a (decExponent a - (k : Int)) + 1 := by
  obtain ⟨hlo, _⟩ := decExponent_ok a ha
  generalize decExponent a = e at hlo ⊢
  have hS := scale17 a (e - ((17 : Nat) : Int)) (e - 1) (by omega) hlo
  obtain ⟨b1, b2⟩ := cand_bounds a (e - ((17 : Nat) : Int))
  have hin : decInInterval a (cand a (e - ((17 : Nat) : Int))) (e - ((17 : Nat) : Int)) = true ∨
      decInInterval a (cand a (e - ((17 : Nat) : Int)) + 1) (e - ((17 : Nat) : Int)) = true := by
    unfold decInInterval
    unfold decNum at b1 b2 ⊢
    generalize cand a (e - ((17 : Nat) : Int)) = f at b1 b2 ⊢
    have e1 : f * 10 ^ (e - ((17 : Nat) : Int)).toNat * unit = f * (10 ^ (e - ((17 : Nat) : Int)).toNat * unit) :=
      Nat.mul_assoc _ _ _
    have e2 : (f + 1) * 10 ^ (e - ((17 : Nat) : Int)).toNat * unit =
        f * (10 ^ (e - ((17 : Nat) : Int)).toNat * unit) + 10 ^ (e - ((17 : Nat) : Int)).toNat * unit := by
      rw [Nat.mul_assoc, Nat.add_mul, Nat.one_mul]
    rw [e1] at b1 ⊢
    rw [e2] at b2 ⊢
    exact near_interval a f _ _ (decDen_pos _) ha hrep b1 b2 hS
  exact search_first a e 20 1 17 (by decide) (by decide) hin

theorem found_within_fuel (a : Nat) (ha : 0 < a) (hrep : repUnits a = true) : f64ShortestFoundWithinFuel a = true := by
  obtain ⟨m, k, q1, _, _, _⟩ := search_17 a ha hrep
  unfold f64ShortestFoundWithinFuel
  rw [q1]; rfl

/-- at most seventeen significant digits are printed -/
theorem digits_le_17 (a : Nat) (ha : 0 < a) (hrep : repUnits a = true) : (f64ShortestDigits a).1.length ≤ 17 := by
  obtain ⟨m, k, q1, q2, q3, q4⟩ := search_17 a ha hrep
  have hc := cand_lt a (decExponent a) k (decExponent_ok a ha).2
  obtain ⟨hm0, hm10⟩ := shortestDec_mant a ha hrep
  have hle : (f64ShortestDec a).1 ≤ m := by
    unfold f64ShortestDec
    simp only []
    rw [q1]
    simp only [Option.getD_some]
    exact strip_le _ _ _
  have : (decDigits (f64ShortestDec a).1).length ≤ k :=
    digits_len_le _ k (Nat.pos_of_ne_zero hm0) hm10 q2 (by omega)
  show (decDigits (f64ShortestDec a).1).length ≤ 17
  omega

end V.FmtL
