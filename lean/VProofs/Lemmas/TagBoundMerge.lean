import VModel.Spec
import VProofs.Lemmas.ScoreBoundBuild
import VProofs.Lemmas.TagMerge
import VProofs.Lemmas.TagBoundSpec
/-!
# The weight merger with a `+=` that checks the boundary part AND the tag part (for the C06 overflow bound)

`merger_chk_gen` is `C01B.merger_chk` for an arbitrary family of additive evaluations `ev i` of the weights (with an
invariant `P` under which they are additive) and an arbitrary test `ok` that follows from bounds on all evaluations.
Instantiated with the evaluations "boundary weight at relative position `x`" (`evg PWT.weight x`) and "class `c` of the tag
vector under `(token id, rel)`" (`tval (tid, rel) c`) it gives `merger_chk_tag`: both phases of the merger of a tag-aware
scorer, run with a `PositionalWeightWithTag::add_assign` that tests every coordinate of the boundary weight AND every
coordinate of every vector of the `tag_info` map of its result, never trip the test.
-/
namespace V

/-- the test on the tag part of a weight: all coordinates of all vectors of `tag_info` satisfy `Q` -/
def okT (Q : Int → Bool) (t : PWT) : Bool := t.tagInfo.all fun kv => kv.2.all Q

/-- the test on both parts of a `PositionalWeightWithTag`: boundary coordinates with `P`, tag coordinates with `Q` -/
def okWT (P Q : Int → Bool) (t : PWT) : Bool := C01B.okW P PWT.weight t && okT Q t

namespace C06B
open C01L C01B C06L Merge
variable {α : Type} [DecidableEq α] {W : Type}

theorem isum_sublist_le {β : Type} (l es : List β) (f : β → Int) (hnn : ∀ a ∈ es, 0 ≤ f a) (h : l.Sublist es) :
    (l.map f).sum ≤ (es.map f).sum := by
  induction h with
  | slnil => exact Int.le_refl _
  | @cons _ _ a _ ih =>
    simp only [List.map_cons, List.sum_cons]
    have := hnn a (by simp)
    have := ih (fun b hb => hnn b (by simp [hb]))
    omega
  | cons_cons _ _ ih =>
    simp only [List.map_cons, List.sum_cons]
    have := ih (fun b hb => hnn b (by simp [hb]))
    omega

/-- a sum of evaluations over a sublist of the entries is within the sum of the absolute values over all entries -/
theorem iabs_sublist_sum_le {β : Type} (l es : List β) (f : β → Int) (h : l.Sublist es) :
    iabs (l.map f).sum ≤ (es.map fun a => iabs (f a)).sum :=
  Int.le_trans (iabs_sum_map_le l f) (isum_sublist_le l es (fun a => iabs (f a)) (fun _ _ => iabs_nonneg _) h)

/-- **both phases of the merger with a checked `+=`, generic**: `ev i` are evaluations of the weights that are additive under the
invariant `P`; the test `ok` holds for every weight with the invariant all of whose evaluations are within the bounds `B i`;
every sum of an evaluation over a sublist of the entries is within its bound.  Then the checked run returns the unchecked
weights, unpoisoned, and all results pass the test. -/
theorem merger_chk_gen {ι : Type} (i0 : ι) (ok : W → Bool) (B : ι → Nat) (add : W → W → W) (d : W) (ev : ι → W → Int)
    (P : List α → W → Prop)
    (hPm : ∀ k q a b, P k a → P q b → P k (add a b))
    (hadd : ∀ i k q a b, P k a → P q b → ev i (add a b) = ev i a + ev i b)
    (hok : ∀ k w, P k w → (∀ i, iabs (ev i w) ≤ ((B i : Nat) : Int)) → ok w = true)
    (es : List (List α × W)) (hes : ∀ e ∈ es, P e.1 e.2)
    (hM : ∀ i (l : List (List α × W)), l.Sublist es → iabs (l.map fun e => ev i e.2).sum ≤ ((B i : Nat) : Int))
    (hne : [] ∉ es.map Prod.fst) :
    addAll (addC ok add) (liftE es) [] = liftE (addAll add es []) ∧
    mergeEntries (addC ok add) none (liftE (addAll add es [])) = liftE (mergeEntries add d (addAll add es [])) ∧
    ∀ e ∈ mergeEntries add d (addAll add es []), ok e.2 = true := by
  have hPs : ∀ (k : List α) (a b : W), P k a → P k b → P k (add a b) := fun k a b => hPm k k a b
  have hadds : ∀ i (k : List α) (a b : W), P k a → P k b → ev i (add a b) = ev i a + ev i b :=
    fun i k a b => hadd i k k a b
  refine ⟨?_, ?_, ?_⟩
  · -- `merger.add`
    apply addAll_chk ok add es []
    intro n y hy
    have hes' : ∀ e ∈ es.take n, P e.1 e.2 := fun e he => hes e (List.mem_of_mem_take he)
    obtain ⟨hnd, hkeys, hP', _⟩ := addAll_correct add d (ev i0) P hPs (hadds i0) (es.take n) hes'
    apply hok y.1 y.2 (hP' y hy)
    intro i
    have hsum := (addAll_correct add d (ev i) P hPs (hadds i) (es.take n) hes').2.2.2
    have hk : y.1 ∈ (es.take n).map Prod.fst := (hkeys y.1).mp (List.mem_map.mpr ⟨y, hy, rfl⟩)
    have := hsum y.1 hk
    rw [lookupD_mem d _ hnd y hy] at this
    rw [this]
    exact hM i _ (List.filter_sublist.trans (List.take_sublist n es))
  all_goals
    obtain ⟨hnd, hkeys, hP', _⟩ := addAll_correct add d (ev i0) P hPs (hadds i0) es hes
    have hsum : ∀ i, ∀ k ∈ es.map Prod.fst,
        ev i (lookupD d (addAll add es []) k)
          = ((es.filter (fun e => e.1 = k)).map (fun e => ev i e.2)).sum := fun i =>
      (addAll_correct add d (ev i) P hPs (hadds i) es hes).2.2.2
    have hne' : [] ∉ (addAll add es []).map Prod.fst := fun h => hne ((hkeys []).mp h)
    have hw0 : ∀ i (k : List α), k ∈ (addAll add es []).map Prod.fst →
        iabs (ev i (lookupD d (addAll add es []) k)) ≤ ((B i : Nat) : Int) := by
      intro i k hk
      rw [hsum i k ((hkeys k).mp hk)]
      exact hM i _ List.filter_sublist
    have hS : ∀ i (k : List α),
        iabs (S ((addAll add es []).map Prod.fst) (fun q => ev i (lookupD d (addAll add es []) q)) k)
          ≤ ((B i : Nat) : Int) := by
      intro i k
      rw [S_entries d (ev i) _ hnd k,
        addAll_regroup add d (ev i) es hnd hkeys (hsum i) (fun q => q.isSuffixOf k)]
      exact hM i _ List.filter_sublist
  · -- `merger.merge()`
    apply mergeEntries_chk ok add d (addAll add es [])
      (fun st => ∀ i, Inv (ev i) P ((addAll add es []).map Prod.fst) (lookupD d (addAll add es [])) st)
    · intro st hG k hk
      apply hok k (st.w k) (hG i0 k hk).1
      intro i
      obtain ⟨_, h1, h2⟩ := hG i k hk
      cases hd : st.done k with
      | true => rw [h1 hd]; exact hS i k
      | false => rw [h2 hd]; exact hw0 i k hk
    · intro st k hG hk i
      exact (step_inv add (ev i) P (fun k q a b _ ha hb => hPm k q a b ha hb)
        (fun k q a b _ ha hb => hadd i k q a b ha hb) _ _ st hnd hne' (hG i) k hk).1
    · intro i q hq
      refine ⟨?_, by simp, by simp⟩
      obtain ⟨e, he, rfl⟩ := List.mem_map.mp hq
      show P e.1 (lookupD d (addAll add es []) e.1)
      rw [lookupD_mem d _ hnd e he]
      exact hP' e he
  · -- the results
    intro e he
    have hMk := mergeEntries_keys add d (addAll add es [])
    have hMnd : ((mergeEntries add d (addAll add es [])).map Prod.fst).Nodup := by rw [hMk]; exact hnd
    have hk : e.1 ∈ (addAll add es []).map Prod.fst := by rw [← hMk]; exact List.mem_map.mpr ⟨e, he, rfl⟩
    have hcor := fun i => mergeEntries_correct add d (ev i) P (fun k q a b _ ha hb => hPm k q a b ha hb)
      (fun k q a b _ ha hb => hadd i k q a b ha hb) (addAll add es []) hnd hne' hP' e.1 hk
    have hPe := (hcor i0).1
    rw [lookupD_mem d _ hMnd e he] at hPe
    apply hok e.1 e.2 hPe
    intro i
    have := (hcor i).2
    rw [lookupD_mem d _ hMnd e he] at this
    rw [this, addAll_regroup add d (ev i) es hnd hkeys (hsum i) (fun q => q.isSuffixOf e.1)]
    exact hM i _ List.filter_sublist

/-! ## the tag test from bounds on the class values -/

theorem tlookup_of_mem (l : TI) (hnd : (l.map Prod.fst).Nodup) (kv : (Nat × Nat) × List Int) (h : kv ∈ l) :
    tlookup kv.1 l = some kv.2 := by
  induction l with
  | nil => cases h
  | cons e r ih =>
    obtain ⟨k', v⟩ := e
    simp only [List.map_cons, List.nodup_cons] at hnd
    simp only [tlookup]
    rcases List.mem_cons.mp h with e | e
    · subst e
      rw [if_pos rfl]
    · have hne : ¬ k' = kv.1 := by
        intro heq
        exact hnd.1 (heq ▸ List.mem_map_of_mem (f := Prod.fst) e)
      rw [if_neg hne]
      exact ih hnd.2 e

theorem okT_of_tval (Q : Int → Bool) (M : Nat) (hQ : ∀ x : Int, x.natAbs ≤ M → Q x = true) (t : PWT)
    (hnd : (t.tagInfo.map Prod.fst).Nodup)
    (h : ∀ (k : Nat × Nat) (c : Nat), iabs (tval k c t.tagInfo) ≤ ((M : Nat) : Int)) : okT Q t = true := by
  unfold okT
  simp only [List.all_eq_true]
  intro kv hkv y hy
  obtain ⟨j, hj, rfl⟩ := mem_getD kv.2 y hy
  apply hQ
  have := h kv.1 j
  unfold tval at this
  rw [tlookup_of_mem _ hnd kv hkv, Option.getD_some, getZ_nat] at this
  exact (iabs_le_iff _ _).mp this

theorem okT_spec (Q : Int → Bool) (t : PWT) (h : okT Q t = true) : ∀ kv ∈ t.tagInfo, ∀ x ∈ kv.2, Q x = true := by
  intro kv hkv x hx
  unfold okT at h
  exact List.all_eq_true.mp (List.all_eq_true.mp h kv hkv) x hx

theorem okWT_spec (P Q : Int → Bool) (t : PWT) (h : okWT P Q t = true) :
    okW P PWT.weight t = true ∧ okT Q t = true := by
  unfold okWT at h
  simpa using h

/-! ## the tag entries, in absolute value -/

omit [DecidableEq α] in
/-- the class-`c` values under `(tid, rel)` of all tag entries together are within the class mass of tag model `tid` -/
theorem tagEntries_abs_sum (T : List (List (TagNgramData α))) (tid rel c : Nat) :
    ((tagEntries T).map fun e => iabs (tval (tid, rel) c e.2.tagInfo)).sum
      ≤ ((tagNgramClassMass (T.getD tid []) c : Nat) : Int) := by
  rw [tagEntries_eq, isum_flatMap]
  have h := isum_zipIdx_select T
    (fun tm i => ((tm.flatMap fun d => d.weights.map fun w =>
        (d.ngram, ({ weight := none, tagInfo := [((i, w.rel), w.weights)] } : PWT))).map
      fun e => iabs (tval (tid, rel) c e.2.tagInfo)).sum) tid
    (by
      intro tm i hi
      apply isum_map_eq_zero
      intro e he
      obtain ⟨d, _, he⟩ := List.mem_flatMap.mp he
      obtain ⟨w, _, he⟩ := List.mem_map.mp he
      subst he
      simp only
      have hne : ¬ (i, w.rel) = (tid, rel) := fun e => hi (Prod.mk.inj e).1
      rw [tval_single, if_neg hne]
      rfl) 0
  rw [h, if_pos (Nat.zero_le _), Nat.sub_zero, List.getD_eq_getElem?_getD]
  cases T[tid]? with
  | none => simp [tagNgramClassMass]
  | some tm =>
    simp only [Option.getD_some]
    rw [classMass_cast, isum_flatMap]
    apply isum_map_le
    intro d _
    rw [List.map_map]
    apply isum_map_le
    intro w _
    simp only [Function.comp]
    rw [tval_single]
    split
    · exact Int.le_refl _
    · rw [iabs_zero]; exact iabs_nonneg _

omit [DecidableEq α] in
/-- … hence every sum of them over a sublist of the entries of a tag-aware scorer -/
theorem tag_sublist_sum_le (bes : List (List α × PWT)) (T : List (List (TagNgramData α)))
    (hbes : ∀ e ∈ bes, e.2.tagInfo = []) (tid rel c : Nat) (l : List (List α × PWT))
    (hl : l.Sublist (bes ++ tagEntries T)) :
    iabs (l.map fun e => tval (tid, rel) c e.2.tagInfo).sum ≤ ((tagNgramMass (T.getD tid []) : Nat) : Int) := by
  refine Int.le_trans (iabs_sublist_sum_le l _ _ hl) ?_
  rw [List.map_append, isum_append]
  have hz : (bes.map fun e => iabs (tval (tid, rel) c e.2.tagInfo)).sum = 0 := by
    apply isum_map_eq_zero
    intro e he
    rw [hbes e he, tval_none _ _ _ rfl]
    rfl
  have h1 := tagEntries_abs_sum T tid rel c
  have h2 := tagNgramClassMass_le (T.getD tid []) c
  omega

/-! ## both phases of the merger of a tag-aware scorer with the checked `+=` -/

/-- the index of an evaluation of a `PositionalWeightWithTag`: a relative position of the boundary weight, or a class of the
tag vector under a key -/
abbrev EvIx := Int ⊕ ((Nat × Nat) × Nat)

def evWT : EvIx → PWT → Int
  | .inl x, t => evg PWT.weight x t
  | .inr i, t => tval i.1 i.2 t.tagInfo

/-- running `merger.add` over the entries `bes ++ tagEntries T` of a tag-aware scorer and then `merger.merge()` with a
`PositionalWeightWithTag::add_assign` that tests every boundary coordinate of its result with `P` and every tag coordinate with
`Q` never trips the test, provided `P` accepts all integers up to the boundary mass of the entries and `Q` all integers up to
the mass of the tag n-grams of every single tag model; all results pass the test -/
theorem merger_chk_tag (P Q : Int → Bool) (M1 M2 : Nat) (hP : ∀ x : Int, x.natAbs ≤ M1 → P x = true)
    (hQ : ∀ x : Int, x.natAbs ≤ M2 → Q x = true) (L : Nat → Nat)
    (bes : List (List α × PWT)) (T : List (List (TagNgramData α)))
    (hbes : ∀ e ∈ bes, e.2.tagInfo = [])
    (hT : ∀ i tm, T[i]? = some tm → ∀ d ∈ tm, ∀ w ∈ d.weights, w.weights.length = L i)
    (hM1 : emass PWT.weight (bes ++ tagEntries T) ≤ M1)
    (hM2 : ∀ tid, tagNgramMass (T.getD tid []) ≤ M2)
    (hne : [] ∉ (bes ++ tagEntries T).map Prod.fst) :
    addAll (addC (okWT P Q) PWT.add) (liftE (bes ++ tagEntries T)) [] = liftE (addAll PWT.add (bes ++ tagEntries T) []) ∧
    mergeEntries (addC (okWT P Q) PWT.add) none (liftE (addAll PWT.add (bes ++ tagEntries T) []))
      = liftE (mergeEntries PWT.add PWT.empty (addAll PWT.add (bes ++ tagEntries T) [])) ∧
    ∀ e ∈ mergeEntries PWT.add PWT.empty (addAll PWT.add (bes ++ tagEntries T) []), okWT P Q e.2 = true := by
  have hent : ∀ e ∈ bes ++ tagEntries T, TIok L e.2.tagInfo := by
    intro e he
    rcases List.mem_append.mp he with he | he
    · rw [hbes e he]; exact TIok_nil L
    · obtain ⟨i, tm, d, w, hi, hd, hw, rfl⟩ := mem_tagEntries T e he
      exact TIok_single L _ _ (hT i tm hi d hd w hw)
  apply merger_chk_gen (ι := EvIx) (.inl 0) (okWT P Q)
    (fun i => match i with | .inl _ => M1 | .inr _ => M2) PWT.add PWT.empty evWT
    (fun _ t => TIok L t.tagInfo)
    (fun _ _ a b ha hb => PWT_add_ok L a b ha hb)
    ?_ ?_ (bes ++ tagEntries T) hent ?_ hne
  · intro i _ _ a b ha hb
    cases i with
    | inl x => exact evg_add PWT.add PWT.weight addOK_PWT x a b
    | inr i => exact PWT_add_tval L i.1 i.2 a b ha hb
  · intro _ w hw h
    unfold okWT
    rw [Bool.and_eq_true]
    refine ⟨okW_of_evg P M1 hP PWT.weight w (fun x => h (.inl x)), okT_of_tval Q M2 hQ w hw.1 (fun k c => h (.inr (k, c)))⟩
  · intro i l hl
    cases i with
    | inl x =>
      have := sum_evg_le PWT.weight x l _ hl
      show iabs (l.map fun e => evg PWT.weight x e.2).sum ≤ ((M1 : Nat) : Int)
      omega
    | inr i =>
      obtain ⟨⟨tid, rel⟩, c⟩ := i
      have := tag_sublist_sum_le bes T hbes tid rel c l hl
      have := hM2 tid
      show iabs (l.map fun e => tval (tid, rel) c e.2.tagInfo).sum ≤ ((M2 : Nat) : Int)
      omega

/-! ## the elementary `+=` inside one `add_assign` of the tag part

`PWT.add a b` folds the entries of `b.tag_info` into `a.tag_info`, one `zip-add` per entry.  The keys of `b` are distinct (a
`HashMap`), so every vector any intermediate state of that fold holds is a vector of `a` or a vector of the final result: the
test on the result of `PWT.add` covers every elementary `*y += *x` performed inside it. -/

theorem mem_tagInfoAdd_other (l : TI) (k : Nat × Nat) (v : List Int) (kv : (Nat × Nat) × List Int) (h : kv ∈ l)
    (hk : kv.1 ≠ k) : kv ∈ tagInfoAdd l k v := by
  induction l with
  | nil => cases h
  | cons e r ih =>
    obtain ⟨k', w⟩ := e
    simp only [tagInfoAdd]
    rcases List.mem_cons.mp h with e | e
    · subst e
      rw [if_neg hk]
      exact List.mem_cons_self
    · by_cases h1 : k' = k
      · rw [if_pos h1]; exact List.mem_cons_of_mem _ e
      · rw [if_neg h1]; exact List.mem_cons_of_mem _ (ih e)

theorem mem_fold_other (b : TI) (kv : (Nat × Nat) × List Int) (hk : kv.1 ∉ b.map Prod.fst) :
    ∀ a : TI, kv ∈ a → kv ∈ b.foldl (fun acc e => tagInfoAdd acc e.1 e.2) a := by
  induction b with
  | nil => intro a h; exact h
  | cons e b ih =>
    intro a h
    simp only [List.map_cons, List.mem_cons, not_or] at hk
    simp only [List.foldl_cons]
    exact ih hk.2 _ (mem_tagInfoAdd_other a e.1 e.2 kv h hk.1)

theorem mem_tagInfoAdd_cases (l : TI) (k : Nat × Nat) (v : List Int) (kv : (Nat × Nat) × List Int)
    (h : kv ∈ tagInfoAdd l k v) : kv ∈ l ∨ kv.1 = k := by
  induction l with
  | nil =>
    simp only [tagInfoAdd, List.mem_singleton] at h
    right; rw [h]
  | cons e r ih =>
    obtain ⟨k', w⟩ := e
    simp only [tagInfoAdd] at h
    by_cases h1 : k' = k
    · rw [if_pos h1] at h
      rcases List.mem_cons.mp h with e | e
      · right; rw [e]; exact h1
      · left; exact List.mem_cons_of_mem _ e
    · rw [if_neg h1] at h
      rcases List.mem_cons.mp h with e | e
      · left; rw [e]; exact List.mem_cons_self
      · rcases ih e with h2 | h2
        · left; exact List.mem_cons_of_mem _ h2
        · right; exact h2

/-- every vector held after folding any prefix of `b` into `a` is a vector of `a` or of the final result -/
theorem fold_prefix_mem (b : TI) (hnd : (b.map Prod.fst).Nodup) :
    ∀ (a : TI) (n : Nat), ∀ kv ∈ (b.take n).foldl (fun acc e => tagInfoAdd acc e.1 e.2) a,
      kv ∈ a ∨ kv ∈ b.foldl (fun acc e => tagInfoAdd acc e.1 e.2) a := by
  induction b with
  | nil => intro a n kv h; left; simpa using h
  | cons e b ih =>
    intro a n kv h
    simp only [List.map_cons, List.nodup_cons] at hnd
    cases n with
    | zero => left; simpa using h
    | succ n =>
      simp only [List.take_succ_cons, List.foldl_cons] at h ⊢
      rcases ih hnd.2 _ n kv h with h1 | h1
      · rcases mem_tagInfoAdd_cases a e.1 e.2 kv h1 with h2 | h2
        · left; exact h2
        · right
          exact mem_fold_other b kv (by rw [h2]; exact hnd.1) _ h1
      · right; exact h1

/-- the same for `PWT.add`: with `Q` holding for the coordinates of `a` and of `a.add b`, it holds in every intermediate state -/
theorem PWT_add_steps (Q : Int → Bool) (a b : PWT) (hnd : (b.tagInfo.map Prod.fst).Nodup)
    (ha : okT Q a = true) (hab : okT Q (a.add b) = true) (n : Nat) :
    ∀ kv ∈ (b.tagInfo.take n).foldl (fun acc e => tagInfoAdd acc e.1 e.2) a.tagInfo, ∀ x ∈ kv.2, Q x = true := by
  intro kv hkv x hx
  rcases fold_prefix_mem b.tagInfo hnd a.tagInfo n kv hkv with h | h
  · exact okT_spec Q a ha kv h x hx
  · exact okT_spec Q (a.add b) hab kv h x hx

end C06B
end V
