import VModel.Csv
/-!
# Csv helper lemmas: decimal printing and parsing of `Nat` / `i32`
-/
namespace V.C19L
open V

/-- the fold step of `parseNat?` -/
def pstep (acc : Option Nat) (c : Char) : Option Nat :=
  match acc, digitVal? c with
  | some a, some d => some (a * 10 + d)
  | _, _ => none

theorem parseNat?_eq_fold (c : Char) (cs : List Char) :
    parseNat? (c :: cs) = (c :: cs).foldl pstep (some 0) := rfl

theorem digitVal_ofNat (d : Nat) (h : d < 10) : digitVal? (Char.ofNat (48 + d)) = some d := by
  have : d = 0 ∨ d = 1 ∨ d = 2 ∨ d = 3 ∨ d = 4 ∨ d = 5 ∨ d = 6 ∨ d = 7 ∨ d = 8 ∨ d = 9 := by omega
  rcases this with h | h | h | h | h | h | h | h | h | h <;> subst h <;> decide

/-- a printable decimal digit: not a separator and not a sign -/
def IsDig (c : Char) : Prop := c ≠ ' ' ∧ c ≠ '-' ∧ c ≠ '+'

theorem isDig_ofNat (d : Nat) (h : d < 10) : IsDig (Char.ofNat (48 + d)) := by
  have : d = 0 ∨ d = 1 ∨ d = 2 ∨ d = 3 ∨ d = 4 ∨ d = 5 ∨ d = 6 ∨ d = 7 ∨ d = 8 ∨ d = 9 := by omega
  unfold IsDig
  rcases this with h | h | h | h | h | h | h | h | h | h <;> subst h <;> decide

theorem natDigits_isDig : ∀ (fuel n : Nat), ∀ c ∈ natDigits fuel n, IsDig c := by
  intro fuel
  induction fuel with
  | zero => intro n c hc; simp [natDigits] at hc; subst hc; unfold IsDig; decide
  | succ f ih =>
    intro n c hc
    unfold natDigits at hc
    split at hc
    · simp at hc; subst hc; exact isDig_ofNat n (by assumption)
    · rw [List.mem_append] at hc
      rcases hc with hc | hc
      · exact ih _ c hc
      · simp at hc; subst hc; exact isDig_ofNat _ (by omega)

theorem natDigits_ne_nil : ∀ (fuel n : Nat), natDigits fuel n ≠ [] := by
  intro fuel n
  cases fuel with
  | zero => simp [natDigits]
  | succ f =>
    unfold natDigits
    split <;> simp

theorem pstep_dig (a d : Nat) (h : d < 10) : pstep (some a) (Char.ofNat (48 + d)) = some (a * 10 + d) := by
  unfold pstep; rw [digitVal_ofNat d h]

theorem fold_natDigits : ∀ (fuel n a : Nat), n < fuel →
    (natDigits fuel n).foldl pstep (some a) = some (a * 10 ^ (natDigits fuel n).length + n) := by
  intro fuel
  induction fuel with
  | zero => intro n a h; omega
  | succ f ih =>
    intro n a h
    unfold natDigits
    split
    · rename_i h10
      simp [pstep_dig a n h10]
    · rename_i h10
      have hlt : n / 10 < f := by omega
      rw [List.foldl_append, ih (n / 10) a hlt]
      simp only [List.foldl_cons, List.foldl_nil, List.length_append, List.length_cons, List.length_nil]
      rw [pstep_dig _ _ (by omega)]
      congr 1
      rw [Nat.pow_succ, ← Nat.mul_assoc]
      generalize a * 10 ^ (natDigits f (n / 10)).length = x
      omega

theorem natToDec_ne_nil (n : Nat) : natToDec n ≠ [] := natDigits_ne_nil _ _

theorem natToDec_isDig (n : Nat) : ∀ c ∈ natToDec n, IsDig c := natDigits_isDig _ _

theorem parseNat_natToDec (n : Nat) : parseNat? (natToDec n) = some n := by
  have hne := natToDec_ne_nil n
  have hf := fold_natDigits (n + 1) n 0 (by omega)
  unfold natToDec at *
  cases hd : natDigits (n + 1) n with
  | nil => exact absurd hd hne
  | cons c cs =>
    rw [parseNat?_eq_fold, ← hd, hf]; simp

/-- `parseI32?` on input that does not start with a sign -/
theorem parseI32_nosign (c : Char) (cs : List Char) (h1 : c ≠ '-') (h2 : c ≠ '+') :
    parseI32? (c :: cs) = ((parseNat? (c :: cs)).map fun n => (n : Int)).bind
      fun i => if -(2 ^ 31 : Int) ≤ i ∧ i < 2 ^ 31 then some i else none := by
  unfold parseI32?
  split
  · rename_i h; injection h with h _; exact absurd h h1
  · rename_i h; injection h with h _; exact absurd h h2
  · rfl

theorem parseI32_intToDec (i : Int) (hr : -(2 ^ 31 : Int) ≤ i ∧ i < 2 ^ 31) :
    parseI32? (intToDec i) = some i := by
  unfold intToDec
  split
  · rename_i hneg
    unfold parseI32?
    simp [parseNat_natToDec]
    omega
  · rename_i hnn
    have hne := natToDec_ne_nil i.toNat
    have hd := natToDec_isDig i.toNat
    cases hs : natToDec i.toNat with
    | nil => exact absurd hs hne
    | cons c cs =>
      have hc : IsDig c := hd c (by rw [hs]; simp)
      rw [parseI32_nosign c cs hc.2.1 hc.2.2, ← hs, parseNat_natToDec]
      have : ((i.toNat : Nat) : Int) = i := by omega
      simp [this]
      omega

theorem intToDec_nospace (i : Int) : ' ' ∉ intToDec i := by
  intro h
  unfold intToDec at h
  split at h
  · rcases List.mem_cons.1 h with h | h
    · exact absurd h (by decide)
    · exact (natToDec_isDig _ _ h).1 rfl
  · exact (natToDec_isDig _ _ h).1 rfl

end V.C19L
