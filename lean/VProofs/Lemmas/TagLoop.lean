import VModel.Spec
import VProofs.Lemmas.TagToken
import VProofs.Lemmas.Inv
/-!
# The loop of `predict_tags` over the boundary labels (for C06)
-/
namespace V.C06L
open V.C01L

/-! ## the loop visits exactly `specSeg` -/

/-- the token block applied to a list of tokens `(start, end)` in turn -/
def runToks (f : Sentence → Nat → Nat → Res Sentence) : List (Nat × Nat) → Sentence → Res Sentence
  | [], s => .ok s
  | t :: r, s =>
    match f s t.1 (t.2 - 1) with
    | .ok s' => runToks f r s'
    | .err e => .err e
    | .panic q => .panic q
    | .ub q => .ub q

/-- the code after the loop: the last token -/
def finishGo (p : Predictor) (tpm : List (List Char × Nat × TagPredictor)) (n : Nat) :
    Res (Sentence × Option Nat) → Res Sentence
  | .ok (s2, some st) => if n = 0 then .panic "sentence.len() - 1" else tagToken p tpm s2 st (n - 1)
  | .ok (s2, none) => .ok s2
  | .err e => .err e
  | .panic q => .panic q
  | .ub q => .ub q

theorem predictTags_eq (p : Predictor) (tpm : List (List Char × Nat × TagPredictor)) (s : Sentence)
    (h : p.tagPredictor = some tpm) (hn : p.nTags ≠ 0) :
    p.predictTags s = finishGo p tpm s.types.length
      (Predictor.predictTags.go p tpm s.bounds 0 (some 0)
        { s with nTags := p.nTags, tags := List.replicate (s.types.length * p.nTags) none,
                 tagScores := if p.storeTagScores then List.replicate s.types.length none else [] }) := by
  unfold Predictor.predictTags
  rw [h]
  simp only [hn, if_false]
  rfl

theorem res_match_id (r : Res Sentence) :
    (match r with
      | .ok s' => Res.ok s'
      | .err e => .err e
      | .panic q => .panic q
      | .ub q => .ub q) = r := by
  cases r <;> rfl

theorem go_runToks (p : Predictor) (tpm : List (List Char × Nat × TagPredictor)) (n : Nat) :
    ∀ (bs' : List B) (i : Nat) (rs : Option Nat) (s : Sentence) (start : Nat) (dirty : Bool),
      rs = (if dirty = true then none else some start) → n = i + bs'.length + 1 →
      finishGo p tpm n (Predictor.predictTags.go p tpm bs' i rs s)
        = runToks (tagToken p tpm) (specSeg bs' start i dirty) s := by
  intro bs'
  induction bs' with
  | nil =>
    intro i rs s start dirty hrs hn
    rw [Predictor.predictTags.go]
    cases dirty with
    | true =>
      simp only [if_true] at hrs
      subst hrs
      rfl
    | false =>
      simp only [Bool.false_eq_true, if_false] at hrs
      subst hrs
      simp only [List.length_nil, Nat.add_zero] at hn
      subst hn
      simp only [finishGo, specSeg, Bool.false_eq_true, if_false, runToks, Nat.add_sub_cancel]
      rw [if_neg (by omega), res_match_id]
  | cons b r ih =>
    intro i rs s start dirty hrs hn
    simp only [List.length_cons] at hn
    cases b with
    | U =>
      rw [Predictor.predictTags.go]
      simp only [specSeg]
      exact ih (i + 1) none s start true rfl (by omega)
    | N =>
      rw [Predictor.predictTags.go]
      simp only [specSeg]
      exact ih (i + 1) rs s start dirty hrs (by omega)
    | W =>
      simp only [specSeg]
      cases dirty with
      | true =>
        simp only [if_true] at hrs
        subst hrs
        rw [Predictor.predictTags.go]
        simp only [if_true, List.nil_append]
        exact ih (i + 1) (some (i + 1)) s (i + 1) false rfl (by omega)
      | false =>
        simp only [Bool.false_eq_true, if_false] at hrs
        subst hrs
        rw [Predictor.predictTags.go]
        simp only [Bool.false_eq_true, if_false, List.singleton_append, runToks, Nat.add_sub_cancel]
        cases htt : tagToken p tpm s start i with
        | ok s' =>
          simp only
          exact ih (i + 1) (some (i + 1)) s' (i + 1) false rfl (by omega)
        | err e => rfl
        | panic q => rfl
        | ub q => rfl

/-! ## rows of a flattened table -/

theorem flatten_length_rows {β : Type} (k : Nat) (R : List (List β)) (hR : ∀ r ∈ R, r.length = k) :
    R.flatten.length = R.length * k := by
  induction R with
  | nil => simp
  | cons r R ih =>
    rw [List.flatten_cons, List.length_append, ih (fun x hx => hR x (List.mem_cons_of_mem _ hx)),
      hR r List.mem_cons_self, List.length_cons, Nat.succ_mul]
    omega

theorem flatten_row_get {β : Type} (k : Nat) (R : List (List β)) (hR : ∀ r ∈ R, r.length = k) :
    ∀ (i : Nat) (r : List β), R[i]? = some r → (R.flatten.drop (i * k)).take k = r := by
  induction R with
  | nil => intro i r h; simp at h
  | cons r0 R ih =>
    intro i r h
    have h0 : r0.length = k := hR r0 List.mem_cons_self
    cases i with
    | zero =>
      simp only [List.getElem?_cons_zero, Option.some.injEq] at h
      subst h
      rw [Nat.zero_mul, List.drop_zero, List.flatten_cons, List.take_left' h0]
    | succ i =>
      simp only [List.getElem?_cons_succ] at h
      rw [List.flatten_cons, Nat.succ_mul, Nat.add_comm (i * k) k, ← h0, List.drop_length_add_append, h0]
      exact ih (fun x hx => hR x (List.mem_cons_of_mem _ hx)) i r h

theorem flatten_row_set {β : Type} (k : Nat) (R : List (List β)) (hR : ∀ r ∈ R, r.length = k) (x : List β) :
    ∀ (i : Nat), i < R.length →
      R.flatten.take (i * k) ++ x ++ R.flatten.drop ((i + 1) * k) = (R.set i x).flatten := by
  induction R with
  | nil => intro i h; simp at h
  | cons r0 R ih =>
    intro i h
    have h0 : r0.length = k := hR r0 List.mem_cons_self
    cases i with
    | zero =>
      rw [Nat.zero_mul, List.take_zero, List.nil_append, Nat.zero_add, Nat.one_mul, List.flatten_cons,
        List.drop_left' h0, List.set_cons_zero, List.flatten_cons]
    | succ i =>
      simp only [List.length_cons] at h
      have e1 : (i + 1) * k = r0.length + i * k := by rw [Nat.succ_mul, h0]; omega
      have e2 : (i + 1 + 1) * k = r0.length + (i + 1) * k := by rw [Nat.succ_mul (i + 1), h0]; omega
      rw [List.flatten_cons, e1, e2, List.take_length_add_append, List.drop_length_add_append,
        List.set_cons_succ, List.flatten_cons, ← ih (fun x hx => hR x (List.mem_cons_of_mem _ hx)) i (by omega)]
      simp only [List.append_assoc]

/-! ## folding `set` over tokens with distinct keys -/

theorem foldl_set_length {β : Type} (toks : List (Nat × Nat)) (val : Nat × Nat → β) :
    ∀ (R0 : List β), (toks.foldl (fun R t => R.set (t.2 - 1) (val t)) R0).length = R0.length := by
  induction toks with
  | nil => intro R0; rfl
  | cons t ts ih => intro R0; rw [List.foldl_cons, ih, List.length_set]

theorem foldl_set_get {β : Type} (toks : List (Nat × Nat)) (val : Nat × Nat → β)
    (hnd : (toks.map fun t => t.2 - 1).Nodup) :
    ∀ (R0 : List β) (j : Nat),
      (toks.foldl (fun R t => R.set (t.2 - 1) (val t)) R0)[j]?
        = match toks.find? (fun t => decide (t.2 - 1 = j)) with
          | some t => if j < R0.length then some (val t) else none
          | none => R0[j]? := by
  induction toks with
  | nil => intro R0 j; rfl
  | cons t ts ih =>
    intro R0 j
    simp only [List.map_cons, List.nodup_cons] at hnd
    rw [List.foldl_cons, ih hnd.2, List.length_set]
    by_cases hk : t.2 - 1 = j
    · have hno : ts.find? (fun t => decide (t.2 - 1 = j)) = none := by
        apply List.find?_eq_none.mpr
        intro x hx
        simp only [decide_eq_true_eq]
        intro hxj
        exact hnd.1 (List.mem_map.mpr ⟨x, hx, by omega⟩)
      rw [hno, List.find?_cons_of_pos (by simpa using hk)]
      simp only
      rw [List.getElem?_set, if_pos hk, hk]
    · rw [List.find?_cons_of_neg (by simpa using hk)]
      cases ts.find? (fun t => decide (t.2 - 1 = j)) with
      | some x => rfl
      | none =>
        simp only
        rw [List.getElem?_set, if_neg hk]

theorem find?_key_self (toks : List (Nat × Nat)) (hnd : (toks.map fun t => t.2 - 1).Nodup) (t : Nat × Nat)
    (ht : t ∈ toks) : toks.find? (fun x => decide (x.2 - 1 = t.2 - 1)) = some t := by
  induction toks with
  | nil => cases ht
  | cons a r ih =>
    simp only [List.map_cons, List.nodup_cons] at hnd
    rcases List.mem_cons.mp ht with e | e
    · subst e
      rw [List.find?_cons_of_pos (by simp)]
    · have hne : ¬ a.2 - 1 = t.2 - 1 := by
        intro h
        exact hnd.1 (List.mem_map.mpr ⟨t, e, h.symm⟩)
      rw [List.find?_cons_of_neg (by simpa using hne)]
      exact ih hnd.2 e

/-! ## the tokens of `specSeg` end at distinct positions -/

theorem specSeg_ends (rest : List B) :
    ∀ (start pos : Nat) (dirty : Bool),
      (∀ se ∈ specSeg rest start pos dirty, pos < se.2) ∧
      (specSeg rest start pos dirty).Pairwise (fun a b => a.2 < b.2) := by
  induction rest with
  | nil =>
    intro start pos dirty
    cases dirty <;> simp [specSeg]
  | cons b r ih =>
    intro start pos dirty
    cases b with
    | N =>
      simp only [specSeg]
      obtain ⟨h1, h2⟩ := ih start (pos + 1) dirty
      exact ⟨fun se hse => by have := h1 se hse; omega, h2⟩
    | U =>
      simp only [specSeg]
      obtain ⟨h1, h2⟩ := ih start (pos + 1) true
      exact ⟨fun se hse => by have := h1 se hse; omega, h2⟩
    | W =>
      simp only [specSeg]
      obtain ⟨h1, h2⟩ := ih (pos + 1) (pos + 1) false
      cases dirty with
      | true =>
        simp only [if_true, List.nil_append]
        exact ⟨fun se hse => by have := h1 se hse; omega, h2⟩
      | false =>
        simp only [Bool.false_eq_true, if_false, List.singleton_append]
        refine ⟨?_, ?_⟩
        · intro se hse
          rcases List.mem_cons.mp hse with e | e
          · subst e; simp
          · have := h1 se e; omega
        · rw [List.pairwise_cons]
          exact ⟨fun se hse => by have := h1 se hse; simp only; omega, h2⟩

theorem specTokens_keys_nodup (bs : List B) : ((specTokens bs).map fun t => t.2 - 1).Nodup := by
  obtain ⟨h1, h2⟩ := specSeg_ends bs 0 0 false
  rw [List.nodup_iff_pairwise_ne, List.pairwise_map]
  unfold specTokens
  have h3 : (specSeg bs 0 0 false).Pairwise (fun a b => a.2 < b.2 ∧ 0 < a.2) := by
    rw [List.pairwise_iff_forall_sublist] at h2 ⊢
    intro a b hab
    refine ⟨h2 hab, ?_⟩
    have : a ∈ specSeg bs 0 0 false := by
      have := hab.subset (List.mem_cons_self (a := a) (l := [b]))
      exact this
    have := h1 a this
    omega
  exact h3.imp (fun {a b} h => by omega)

theorem specTokens_range (bs : List B) (se : Nat × Nat) (h : se ∈ specTokens bs) :
    se.1 < se.2 ∧ se.2 ≤ bs.length + 1 := by
  have := specSeg_range bs 0 0 false (Nat.le_refl _) se h
  omega

end V.C06L
