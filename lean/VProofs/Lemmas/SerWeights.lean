import VModel.PredictorSer
/-!
# C14 helper lemmas: `trim_end_zeros`, and `WeightVector` survives the wire
-/
namespace V.C14L
open V

theorem dropWhile_replicate_zero_append (k : Nat) (x : List Int) :
    (List.replicate k (0 : Int) ++ x).dropWhile (· == 0) = x.dropWhile (· == 0) := by
  induction k with
  | zero => simp
  | succ k ih => simp [List.replicate_succ, ih]

theorem exists_replicate_dropWhile (x : List Int) :
    ∃ j, x = List.replicate j (0 : Int) ++ x.dropWhile (· == 0) := by
  induction x with
  | nil => exact ⟨0, rfl⟩
  | cons a r ih =>
    by_cases h : a = 0
    · obtain ⟨j, hj⟩ := ih
      refine ⟨j + 1, ?_⟩
      subst h
      simp only [List.dropWhile_cons, beq_self_eq_true, if_true, List.replicate_succ, List.cons_append]
      rw [← hj]
    · refine ⟨0, ?_⟩
      simp [h]

theorem trimEndZeros_append_replicate (l : List Int) (k : Nat) :
    trimEndZeros (l ++ List.replicate k 0) = trimEndZeros l := by
  simp only [trimEndZeros, List.reverse_append, List.reverse_replicate, dropWhile_replicate_zero_append]

theorem exists_trimEndZeros_append (l : List Int) :
    ∃ j, l = trimEndZeros l ++ List.replicate j (0 : Int) := by
  obtain ⟨j, hj⟩ := exists_replicate_dropWhile l.reverse
  refine ⟨j, ?_⟩
  have := congrArg List.reverse hj
  simp only [List.reverse_reverse, List.reverse_append, List.reverse_replicate] at this
  exact this

theorem trimEndZeros_length_le (l : List Int) : (trimEndZeros l).length ≤ l.length := by
  obtain ⟨j, hj⟩ := exists_trimEndZeros_append l
  have := congrArg List.length hj
  simp only [List.length_append, List.length_replicate] at this
  omega

/-- trimming and re-padding a padded vector gives the same padded vector -/
theorem trim_repad (l : List Int) (n : Nat) (h : l.length ≤ n) :
    trimEndZeros l ++ List.replicate (n - (trimEndZeros l).length) 0 = l ++ List.replicate (n - l.length) 0 := by
  obtain ⟨j, hj⟩ := exists_trimEndZeros_append l
  generalize trimEndZeros l = t at hj
  subst hj
  simp only [List.length_append, List.length_replicate] at h ⊢
  rw [List.append_assoc, List.replicate_append_replicate]
  congr 2
  omega

theorem ofList_reser (cfg : Cfg) (l : List Int) : (WV.ofList cfg l).reser cfg = WV.ofList cfg l := by
  unfold WV.reser
  by_cases h : (cfg.fixed && decide (l.length ≤ fixedLen)) = true
  · have hw : WV.ofList cfg l = .fixed (l ++ List.replicate (fixedLen - l.length) 0) := by
      simp only [WV.ofList, h, if_true]
    rw [hw]
    simp only [WV.wire, trimEndZeros_append_replicate]
    have hl : l.length ≤ fixedLen := by
      simp only [Bool.and_eq_true, decide_eq_true_eq] at h; exact h.2
    have hf : cfg.fixed = true := by
      simp only [Bool.and_eq_true] at h; exact h.1
    have ht := trimEndZeros_length_le l
    have h2 : (cfg.fixed && decide ((trimEndZeros l).length ≤ fixedLen)) = true := by
      simp only [hf, Bool.true_and, decide_eq_true_eq]; omega
    simp only [WV.ofList, h2, if_true]
    rw [trim_repad l fixedLen hl]
  · have hw : WV.ofList cfg l = .variable l := by
      simp only [WV.ofList, h]; rfl
    rw [hw]
    simp only [WV.wire]
    exact hw

end V.C14L
