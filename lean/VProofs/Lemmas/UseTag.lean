import VProofs.C06
import VProofs.C12
/-!
# Assembling tag models: totality and well-formedness of the result (for C11)
-/
namespace V.C11L
open V.C12L

/-! ## folds over `Res` -/

theorem foldl_res_total {σ τ : Type} (P : σ → Prop) (Q : τ → Prop) (f : Res σ → τ → Res σ)
    (hf : ∀ s t, P s → Q t → ∃ s', f (.ok s) t = .ok s' ∧ P s') :
    ∀ (l : List τ) (s : σ), P s → (∀ t ∈ l, Q t) → ∃ s', l.foldl f (.ok s) = .ok s' ∧ P s' := by
  intro l
  induction l with
  | nil => intro s hs _; exact ⟨s, rfl, hs⟩
  | cons t r ih =>
    intro s hs hq
    obtain ⟨s1, h1, hp1⟩ := hf s t hs (hq t List.mem_cons_self)
    rw [List.foldl_cons, h1]
    exact ih s1 hp1 (fun x hx => hq x (List.mem_cons_of_mem _ hx))

/-- like `foldl_res_inv`, the step hypothesis restricted to the members of the list -/
theorem foldl_res_inv_mem {σ τ : Type} (P : σ → Prop) (f : Res σ → τ → Res σ) :
    ∀ (l : List τ), (∀ acc, ∀ t ∈ l, (∀ s, acc = .ok s → P s) → ∀ s, f acc t = .ok s → P s) →
      ∀ (acc : Res σ), (∀ s, acc = .ok s → P s) → ∀ s, l.foldl f acc = .ok s → P s := by
  intro l
  induction l with
  | nil => intro _ acc h s hs; exact h s hs
  | cons t r ih =>
    intro hf acc h s hs
    exact ih (fun acc' t' ht' => hf acc' t' (List.mem_cons_of_mem _ ht')) (f acc t)
      (hf acc t List.mem_cons_self h) s hs

/-! ## `tagUpsert` -/

section
variable {κ : Type} [DecidableEq κ]

theorem tagUpsert_total (lt : κ → κ → Bool) (n : Nat) (k : κ) (slot : Nat) (w : Int) (hs : slot < n) :
    ∀ (m : List (κ × List Int)), VecLen n m → ∃ m', tagUpsert lt n k slot w m = .ok m' := by
  intro m
  induction m with
  | nil =>
    intro _
    refine ⟨[(k, (List.replicate n 0).set slot w)], ?_⟩
    simp only [tagUpsert, hs, if_true]
  | cons x r ih =>
    intro hm
    obtain ⟨k', v⟩ := x
    have hv : v.length = n := hm (k', v) List.mem_cons_self
    have hr : VecLen n r := fun e he => hm e (List.mem_cons_of_mem _ he)
    have hsv : slot < v.length := by rw [hv]; exact hs
    by_cases h1 : k' = k
    · exact ⟨(k', v.set slot w) :: r, by simp only [tagUpsert, h1, hsv, if_true]⟩
    · by_cases h2 : lt k k' = true
      · exact ⟨(k, (List.replicate n 0).set slot w) :: (k', v) :: r, by simp only [tagUpsert, h1, h2, hs, if_true, if_false]⟩
      · obtain ⟨r', hr'⟩ := ih hr
        refine ⟨(k', v) :: r', ?_⟩
        have h2' : lt k k' = false := by simpa using h2
        simp [tagUpsert, h1, h2', hr', Res.map]

theorem tagUpsert_keys (lt : κ → κ → Bool) (n : Nat) (k : κ) (slot : Nat) (w : Int) (R : κ → Prop) (hk : R k) :
    ∀ (m m' : List (κ × List Int)), (∀ e ∈ m, R e.1) → tagUpsert lt n k slot w m = .ok m' → ∀ e ∈ m', R e.1 := by
  intro m
  induction m with
  | nil =>
    intro m' _ h
    unfold tagUpsert at h
    split at h
    · cases h
      intro e he
      simp only [List.mem_singleton] at he
      subst he; exact hk
    · cases h
  | cons x r ih =>
    intro m' hm h
    obtain ⟨k', v⟩ := x
    unfold tagUpsert at h
    have hr : ∀ e ∈ r, R e.1 := fun e he => hm e (List.mem_cons_of_mem _ he)
    split at h
    · split at h
      · cases h
        intro e he
        rcases List.mem_cons.mp he with he | he
        · subst he; exact hm (k', v) List.mem_cons_self
        · exact hr e he
      · cases h
    · split at h
      · split at h
        · cases h
          intro e he
          rcases List.mem_cons.mp he with he | he
          · subst he; exact hk
          · exact hm e he
        · cases h
      · cases hrec : tagUpsert lt n k slot w r with
        | ok r' =>
          rw [hrec] at h
          simp only [Res.map] at h
          cases h
          have := ih r' hr hrec
          intro e he
          rcases List.mem_cons.mp he with he | he
          · subst he; exact hm (k', v) List.mem_cons_self
          · exact this e he
        | err e => rw [hrec] at h; simp [Res.map] at h
        | panic p => rw [hrec] at h; simp [Res.map] at h
        | ub p => rw [hrec] at h; simp [Res.map] at h

end

/-! ## totality of the three folds -/

theorem biasFold_total (n : Nat) (l : List TagTraceItem) (hl : ∀ t ∈ l, t.offset + t.cls < n) :
    ∃ b, l.foldl biasStep (.ok (List.replicate n 0)) = .ok b := by
  obtain ⟨b, hb, _⟩ := foldl_res_total (fun b : List Int => b.length = n) (fun t => t.offset + t.cls < n) biasStep
    (by
      intro b t hb ht
      unfold biasStep
      split
      · rename_i b0 _ heq _
        cases heq
        rw [if_pos (by rw [hb]; exact ht)]
        exact ⟨_, rfl, by simpa using hb⟩
      · exact ⟨b, rfl, hb⟩) l (List.replicate n 0) (by simp) hl
  exact ⟨b, hb⟩

theorem charFold_total (n : Nat) (l : List TagTraceItem) (hl : ∀ t ∈ l, t.offset + t.cls < n) :
    ∃ c, l.foldl (charStep n) (.ok []) = .ok c := by
  obtain ⟨c, hc, _⟩ := foldl_res_total (VecLen n) (fun t => t.offset + t.cls < n) (charStep n)
    (by
      intro m t hm ht
      unfold charStep
      split
      · rename_i m0 g rel heq _
        cases heq
        split
        · exact ⟨m, rfl, hm⟩
        · obtain ⟨m', hm'⟩ := tagUpsert_total ltPairC n (g, rel) _ t.weight ht m hm
          exact ⟨m', hm', tagUpsert_len _ _ _ _ _ _ _ hm hm'⟩
      · exact ⟨m, rfl, hm⟩) l [] (by intro e he; cases he) hl
  exact ⟨c, hc⟩

theorem typeFold_total (n : Nat) (l : List TagTraceItem) (hl : ∀ t ∈ l, t.offset + t.cls < n) :
    ∃ c, l.foldl (typeStep n) (.ok []) = .ok c := by
  obtain ⟨c, hc, _⟩ := foldl_res_total (VecLen n) (fun t => t.offset + t.cls < n) (typeStep n)
    (by
      intro m t hm ht
      unfold typeStep
      split
      · rename_i m0 g rel heq _
        cases heq
        split
        · exact ⟨m, rfl, hm⟩
        · obtain ⟨m', hm'⟩ := tagUpsert_total ltPairT n (g, rel) _ t.weight ht m hm
          exact ⟨m', hm', tagUpsert_len _ _ _ _ _ _ _ hm hm'⟩
      · exact ⟨m, rfl, hm⟩) l [] (by intro e he; cases he) hl
  exact ⟨c, hc⟩

theorem assembleTag_total (token : List Char) (examples : List (List Tag)) (trace : List TagTraceItem)
    (hslots : ∀ t ∈ trace, t.token = token → t.offset + t.cls < nClass (collectTags examples)) :
    ∃ tm, assembleTag token examples trace = .ok tm := by
  have hl : ∀ t ∈ trace.filter (fun t => t.token = token), t.offset + t.cls < nClass (collectTags examples) := by
    intro t ht
    obtain ⟨h1, h2⟩ := List.mem_filter.mp ht
    exact hslots t h1 (by simpa using h2)
  obtain ⟨b, hb⟩ := biasFold_total _ _ hl
  obtain ⟨c, hc⟩ := charFold_total _ _ hl
  obtain ⟨t, ht⟩ := typeFold_total _ _ hl
  rw [assembleTag_eq, hb, hc, ht]
  exact ⟨_, rfl⟩

/-! ## the keys of the assembled n-gram maps are keys of trace features -/

theorem charFold_keys (n : Nat) (R : List Char → Prop) (l : List TagTraceItem)
    (hl : ∀ t ∈ l, ∀ g rel, t.feat = some (.charNgram g rel) → R g)
    (c : List ((List Char × Nat) × List Int)) (h : l.foldl (charStep n) (.ok []) = .ok c) : ∀ e ∈ c, R e.1.1 := by
  refine foldl_res_inv_mem (fun c => ∀ e ∈ c, R e.1.1) (charStep n) l ?_ _ ?_ c h
  · intro acc t ht hacc s hs
    unfold charStep at hs
    split at hs
    · rename_i m0 g rel hfeat
      split at hs
      · cases hs; exact hacc _ rfl
      · exact tagUpsert_keys _ _ _ _ _ (fun k : List Char × Nat => R k.1) (hl t ht g rel hfeat) _ _ (hacc m0 rfl) hs
    · exact hacc s hs
  · intro s hs; cases hs; intro e he; cases he

theorem typeFold_keys (n : Nat) (R : List Nat → Prop) (l : List TagTraceItem)
    (hl : ∀ t ∈ l, ∀ g rel, t.feat = some (.typeNgram g rel) → R g)
    (c : List ((List Nat × Nat) × List Int)) (h : l.foldl (typeStep n) (.ok []) = .ok c) : ∀ e ∈ c, R e.1.1 := by
  refine foldl_res_inv_mem (fun c => ∀ e ∈ c, R e.1.1) (typeStep n) l ?_ _ ?_ c h
  · intro acc t ht hacc s hs
    unfold typeStep at hs
    split at hs
    · rename_i m0 g rel hfeat
      split at hs
      · cases hs; exact hacc _ rfl
      · exact tagUpsert_keys _ _ _ _ _ (fun k : List Nat × Nat => R k.1) (hl t ht g rel hfeat) _ _ (hacc m0 rfl) hs
    · exact hacc s hs
  · intro s hs; cases hs; intro e he; cases he

/-- grouping keeps the n-grams and never emits an n-gram without weights -/
theorem groupTagWeights_keys {β : Type} [DecidableEq β] (R : List β → Prop) :
    ∀ (m : List ((List β × Nat) × List Int)), (∀ e ∈ m, R e.1.1) →
      ∀ d ∈ groupTagWeights m, R d.ngram ∧ d.weights ≠ [] := by
  intro m
  induction m with
  | nil => intro _ d hd; simp [groupTagWeights] at hd
  | cons x r ih =>
    intro hm d hd
    obtain ⟨⟨g, rel⟩, v⟩ := x
    have hg0 : R g := hm ((g, rel), v) List.mem_cons_self
    have ih' := ih (fun e he => hm e (List.mem_cons_of_mem _ he))
    unfold groupTagWeights at hd
    cases hg : groupTagWeights r with
    | nil =>
      rw [hg] at hd
      simp only [List.mem_singleton] at hd
      subst hd
      exact ⟨hg0, by simp⟩
    | cons d0 ds =>
      rw [hg] at hd ih'
      simp only at hd
      split at hd
      · rcases List.mem_cons.mp hd with hd | hd
        · subst hd; exact ⟨hg0, by simp⟩
        · exact ih' d (List.mem_cons_of_mem _ hd)
      · rcases List.mem_cons.mp hd with hd | hd
        · subst hd; exact ⟨hg0, by simp⟩
        · exact ih' d hd

/-- the n-grams of an assembled tag model are n-grams of trace features, each with at least one weight -/
theorem assembleTag_keys (token : List Char) (examples : List (List Tag)) (trace : List TagTraceItem) (tm : TagModel)
    (RC : List Char → Prop) (RT : List Nat → Prop)
    (hC : ∀ t ∈ trace, ∀ g rel, t.feat = some (.charNgram g rel) → RC g)
    (hT : ∀ t ∈ trace, ∀ g rel, t.feat = some (.typeNgram g rel) → RT g)
    (h : assembleTag token examples trace = .ok tm) :
    (∀ d ∈ tm.charNgrams, RC d.ngram ∧ d.weights ≠ []) ∧ (∀ d ∈ tm.typeNgrams, RT d.ngram ∧ d.weights ≠ []) := by
  obtain ⟨b, c, t, _, hc, ht, rfl⟩ := assembleTag_ok token examples trace tm h
  exact ⟨groupTagWeights_keys RC c (charFold_keys _ RC _ (fun t ht => hC t (List.mem_filter.mp ht).1) c hc),
    groupTagWeights_keys RT t (typeFold_keys _ RT _ (fun t ht => hT t (List.mem_filter.mp ht).1) t ht)⟩

/-- every tag model returned by `assembleTags` is the result of `assembleTag` for some token -/
theorem assembleTags_mem (corpus : List TagExample) (dict : List (List Char × List Tag)) (trace : List TagTraceItem)
    (tms : List TagModel) (h : assembleTags corpus dict trace = .ok tms) :
    ∀ tm ∈ tms, ∃ token examples, assembleTag token examples trace = .ok tm := by
  rw [assembleTags_eq] at h
  intro tm htm
  obtain ⟨p, _, hp⟩ := C12L.mapRes_mem _ _ tms h tm htm
  exact ⟨p.1, p.2, hp⟩

end V.C11L
