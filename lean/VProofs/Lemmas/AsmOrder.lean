import VModel.Trainer
/-!
# C09 helpers (1): the `BTreeMap` order and `sortedUpsert`

`lexLt lt` is a strict total order whenever `lt` is; `sortedUpsert` on a strictly sorted association list behaves like a
map update: the keys stay strictly sorted (hence distinct) and exactly the entry of the key changes.
-/
namespace V.C09L
open V

structure StrictTotal {β : Type} (lt : β → β → Bool) : Prop where
  irrefl : ∀ a, lt a a = false
  trans : ∀ a b c, lt a b = true → lt b c = true → lt a c = true
  conn : ∀ a b, a ≠ b → lt a b = false → lt b a = true

theorem ltNat_st : StrictTotal ltNat where
  irrefl := by intro a; simp [ltNat]
  trans := by intro a b c; simp only [ltNat, decide_eq_true_eq]; omega
  conn := by intro a b; simp only [ltNat, decide_eq_true_eq, decide_eq_false_iff_not]; omega

theorem ltChar_st : StrictTotal ltChar where
  irrefl := by intro a; simp [ltChar]
  trans := by intro a b c; simp only [ltChar, decide_eq_true_eq]; omega
  conn := by
    intro a b hab
    simp only [ltChar, decide_eq_true_eq, decide_eq_false_iff_not]
    intro h
    have : a.toNat ≠ b.toNat := fun e => hab (Char.toNat_inj.mp e)
    omega

section
variable {α : Type} [DecidableEq α] {lt : α → α → Bool}

theorem st_eq_of_not_lt (st : StrictTotal lt) {a b : α} (h1 : lt a b = false) (h2 : lt b a = false) : a = b := by
  apply Decidable.byContradiction
  intro hne
  have := st.conn a b hne h1
  rw [h2] at this
  exact Bool.noConfusion this

omit [DecidableEq α] in
theorem lexLt_irrefl (st : StrictTotal lt) : ∀ a : List α, lexLt lt a a = false
  | [] => rfl
  | x :: xs => by simp [lexLt, st.irrefl, lexLt_irrefl st xs]

theorem lexLt_trans (st : StrictTotal lt) :
    ∀ a b c : List α, lexLt lt a b = true → lexLt lt b c = true → lexLt lt a c = true
  | [], [], _ => by simp [lexLt]
  | [], _ :: _, [] => by simp [lexLt]
  | [], _ :: _, _ :: _ => by simp [lexLt]
  | _ :: _, [], _ => by simp [lexLt]
  | _ :: _, _ :: _, [] => by simp [lexLt]
  | x :: xs, y :: ys, z :: zs => by
    intro h1 h2
    simp only [lexLt] at h1 h2 ⊢
    cases hxy : lt x y
    · cases hyx : lt y x
      · have exy := st_eq_of_not_lt st hxy hyx
        subst exy
        simp only [hxy, Bool.false_eq_true, if_false] at h1
        cases hyz : lt x z
        · cases hzy : lt z x
          · simp only [hyz, hzy, Bool.false_eq_true, if_false] at h2 ⊢
            exact lexLt_trans st xs ys zs h1 h2
          · simp [hyz, hzy] at h2
        · simp
      · simp [hxy, hyx] at h1
    · cases hyz : lt y z
      · cases hzy : lt z y
        · have eyz := st_eq_of_not_lt st hyz hzy
          subst eyz
          simp [hxy]
        · simp [hyz, hzy] at h2
      · simp [st.trans x y z hxy hyz]

theorem lexLt_conn (st : StrictTotal lt) :
    ∀ a b : List α, a ≠ b → lexLt lt a b = false → lexLt lt b a = true
  | [], [] => by simp
  | [], _ :: _ => by simp [lexLt]
  | _ :: _, [] => by simp [lexLt]
  | x :: xs, y :: ys => by
    intro hne h
    simp only [lexLt] at h ⊢
    cases hxy : lt x y
    · cases hyx : lt y x
      · have exy := st_eq_of_not_lt st hxy hyx
        subst exy
        simp only [hxy, Bool.false_eq_true, if_false] at h ⊢
        exact lexLt_conn st xs ys (fun e => hne (by rw [e])) h
      · simp
    · simp [hxy] at h

theorem lexLt_st (st : StrictTotal lt) : StrictTotal (lexLt lt) :=
  ⟨lexLt_irrefl st, lexLt_trans st, lexLt_conn st⟩

end

section
variable {α : Type} [DecidableEq α]

/-- the association list is strictly sorted by key -/
def Sorted (lt : List α → List α → Bool) (m : List (List α × List Int)) : Prop :=
  m.Pairwise fun x y => lt x.1 y.1 = true

omit [DecidableEq α] in
theorem Sorted.key_unique {lt : List α → List α → Bool} (st : StrictTotal lt) :
    ∀ {m : List (List α × List Int)}, Sorted lt m → ∀ {k : List α} {v v' : List Int}, (k, v) ∈ m → (k, v') ∈ m → v = v'
  | [], _, _, _, _, h, _ => by cases h
  | e :: r, hs, k, v, v', h1, h2 => by
    have hs' := List.pairwise_cons.mp hs
    rcases List.mem_cons.mp h1 with e1 | m1 <;> rcases List.mem_cons.mp h2 with e2 | m2
    · have := e1.trans e2.symm
      exact (Prod.mk.inj this).2
    · have := hs'.1 _ m2
      rw [← e1] at this
      simp only [st.irrefl] at this
      exact Bool.noConfusion this
    · have := hs'.1 _ m1
      rw [← e2] at this
      simp only [st.irrefl] at this
      exact Bool.noConfusion this
    · exact Sorted.key_unique st hs'.2 m1 m2

omit [DecidableEq α] in
theorem Sorted.nodup {lt : List α → List α → Bool} (st : StrictTotal lt) :
    ∀ {m : List (List α × List Int)}, Sorted lt m → (m.map Prod.fst).Nodup
  | [], _ => by simp
  | e :: r, hs => by
    have hs' := List.pairwise_cons.mp hs
    simp only [List.map_cons, List.nodup_cons, List.mem_map]
    refine ⟨?_, Sorted.nodup st hs'.2⟩
    rintro ⟨x, hx, hxe⟩
    have := hs'.1 x hx
    rw [hxe, st.irrefl] at this
    exact Bool.noConfusion this

/-- `sortedUpsert` as a map update -/
theorem sortedUpsert_spec {lt : List α → List α → Bool} (st : StrictTotal lt) (k : List α)
    (mk : Unit → Res (List Int)) (upd : List Int → Res (List Int)) (vnew : List Int) :
    ∀ (m : List (List α × List Int)), Sorted lt m →
      ((∀ e ∈ m, e.1 ≠ k) → mk () = .ok vnew) → (∀ v, (k, v) ∈ m → upd v = .ok vnew) →
      ∃ m', sortedUpsert lt k mk upd m = .ok m' ∧ Sorted lt m' ∧
        ∀ e, e ∈ m' ↔ ((e ∈ m ∧ e.1 ≠ k) ∨ e = (k, vnew))
  | [], _, hmk, _ => by
    refine ⟨[(k, vnew)], ?_, ?_, ?_⟩
    · simp [sortedUpsert, hmk (by simp), Res.map]
    · simp [Sorted]
    · intro e; simp
  | (k', v') :: r, hs, hmk, hupd => by
    have hs' := List.pairwise_cons.mp hs
    by_cases hk : k' = k
    · subst hk
      refine ⟨(k', vnew) :: r, ?_, ?_, ?_⟩
      · simp [sortedUpsert, hupd v' (by simp), Res.map]
      · exact List.pairwise_cons.mpr ⟨fun y hy => hs'.1 y hy, hs'.2⟩
      · intro e
        have hr : ∀ e ∈ r, e.1 ≠ k' := by
          intro e he heq
          have := hs'.1 e he
          simp only [heq, st.irrefl] at this
          exact Bool.noConfusion this
        simp only [List.mem_cons]
        constructor
        · rintro (h | h)
          · exact Or.inr h
          · exact Or.inl ⟨Or.inr h, hr e h⟩
        · rintro (⟨h | h, hne⟩ | h)
          · exact absurd (by rw [h]) hne
          · exact Or.inr h
          · exact Or.inl h
    · by_cases hlt : lt k k' = true
      · have hall : ∀ e ∈ (k', v') :: r, e.1 ≠ k := by
          intro e he heq
          rcases List.mem_cons.mp he with h | h
          · exact hk (by rw [← heq, h])
          · have h1 := hs'.1 e h
            have h2 := st.trans _ _ _ hlt h1
            simp only [heq, st.irrefl] at h2
            exact Bool.noConfusion h2
        refine ⟨(k, vnew) :: (k', v') :: r, ?_, ?_, ?_⟩
        · simp [sortedUpsert, hk, hlt, hmk hall, Res.map]
        · refine List.pairwise_cons.mpr ⟨?_, hs⟩
          intro y hy
          rcases List.mem_cons.mp hy with h | h
          · rw [h]; exact hlt
          · exact st.trans _ _ _ hlt (hs'.1 y h)
        · intro e
          constructor
          · intro h
            rcases List.mem_cons.mp h with h | h
            · exact Or.inr h
            · exact Or.inl ⟨h, hall e h⟩
          · rintro (⟨h, _⟩ | h)
            · exact List.mem_cons_of_mem _ h
            · rw [h]; exact List.mem_cons_self
      · have hmk' : (∀ e ∈ r, e.1 ≠ k) → mk () = .ok vnew := by
          intro h
          apply hmk
          intro e he
          rcases List.mem_cons.mp he with h1 | h1
          · rw [h1]; exact hk
          · exact h e h1
        have hupd' : ∀ v, (k, v) ∈ r → upd v = .ok vnew := fun v hv => hupd v (List.mem_cons_of_mem _ hv)
        obtain ⟨r', hr', hsr', hmem⟩ := sortedUpsert_spec st k mk upd vnew r hs'.2 hmk' hupd'
        have hlt' : lt k' k = true := st.conn k k' (fun e => hk e.symm) (by simpa using hlt)
        refine ⟨(k', v') :: r', ?_, ?_, ?_⟩
        · simp [sortedUpsert, hk, hlt, hr', Res.map]
        · refine List.pairwise_cons.mpr ⟨?_, hsr'⟩
          intro y hy
          rcases (hmem y).mp hy with ⟨h, _⟩ | h
          · exact hs'.1 y h
          · rw [h]; exact hlt'
        · intro e
          simp only [List.mem_cons, hmem e]
          constructor
          · rintro (h | ⟨h, hne⟩ | h)
            · exact Or.inl ⟨Or.inl h, by rw [h]; exact hk⟩
            · exact Or.inl ⟨Or.inr h, hne⟩
            · exact Or.inr h
          · rintro (⟨h | h, hne⟩ | h)
            · exact Or.inl h
            · exact Or.inr (Or.inl ⟨h, hne⟩)
            · exact Or.inr (Or.inr h)

/-- a property of all entries that creation and update preserve survives `sortedUpsert` (no order needed) -/
theorem sortedUpsert_all {lt : List α → List α → Bool} (k : List α)
    (mk : Unit → Res (List Int)) (upd : List Int → Res (List Int)) (P : List α × List Int → Prop)
    (hmk : ∀ v, mk () = .ok v → P (k, v)) (hupd : ∀ v v', P (k, v) → upd v = .ok v' → P (k, v')) :
    ∀ (m m' : List (List α × List Int)), (∀ e ∈ m, P e) → sortedUpsert lt k mk upd m = .ok m' → ∀ e ∈ m', P e
  | [], m', _, h => by
    simp only [sortedUpsert] at h
    cases hm : mk () with
    | ok v =>
      rw [hm] at h
      simp only [Res.map, Res.ok.injEq] at h
      subst h
      intro e he
      simp only [List.mem_singleton] at he
      rw [he]; exact hmk v hm
    | err _ => rw [hm] at h; simp [Res.map] at h
    | panic _ => rw [hm] at h; simp [Res.map] at h
    | ub _ => rw [hm] at h; simp [Res.map] at h
  | (k', v') :: r, m', hP, h => by
    simp only [sortedUpsert] at h
    by_cases hk : k' = k
    · simp only [hk, if_true] at h
      cases hu : upd v' with
      | ok v =>
        rw [hu] at h
        simp only [Res.map, Res.ok.injEq] at h
        subst h
        intro e he
        rcases List.mem_cons.mp he with h1 | h1
        · rw [h1]
          have := hP (k', v') List.mem_cons_self
          rw [hk] at this
          exact hupd v' v this hu
        · exact hP e (List.mem_cons_of_mem _ h1)
      | err _ => rw [hu] at h; simp [Res.map] at h
      | panic _ => rw [hu] at h; simp [Res.map] at h
      | ub _ => rw [hu] at h; simp [Res.map] at h
    · simp only [hk, if_false] at h
      by_cases hlt : lt k k' = true
      · simp only [hlt, if_true] at h
        cases hm : mk () with
        | ok v =>
          rw [hm] at h
          simp only [Res.map, Res.ok.injEq] at h
          subst h
          intro e he
          rcases List.mem_cons.mp he with h1 | h1
          · rw [h1]; exact hmk v hm
          · exact hP e h1
        | err _ => rw [hm] at h; simp [Res.map] at h
        | panic _ => rw [hm] at h; simp [Res.map] at h
        | ub _ => rw [hm] at h; simp [Res.map] at h
      · have hlt' : lt k k' = false := by simpa using hlt
        simp only [hlt', Bool.false_eq_true, if_false] at h
        cases hrr : sortedUpsert lt k mk upd r with
        | ok r' =>
          rw [hrr] at h
          simp only [Res.map, Res.ok.injEq] at h
          subst h
          have ih := sortedUpsert_all k mk upd P hmk hupd r r' (fun e he => hP e (List.mem_cons_of_mem _ he)) hrr
          intro e he
          rcases List.mem_cons.mp he with h1 | h1
          · rw [h1]; exact hP _ List.mem_cons_self
          · exact ih e h1
        | err _ => rw [hrr] at h; simp [Res.map] at h
        | panic _ => rw [hrr] at h; simp [Res.map] at h
        | ub _ => rw [hrr] at h; simp [Res.map] at h

end
end V.C09L
