import VModel.Spec
import VProofs.Lemmas.ScoreModel
import VProofs.Lemmas.ScoreCache
/-!
# `Predictor.new` / `Predictor.predict` against the specification (C01): assembling the scorer lemmas
-/
namespace V.C01L

/-! ## character types -/

theorem lookupRange_bounds (n : Nat) (tbl : List (Nat × Nat × Nat))
    (h : tbl.all (fun r => decide (1 ≤ r.2.2 ∧ r.2.2 ≤ 6)) = true) :
    1 ≤ Gen.lookupRange n tbl ∧ Gen.lookupRange n tbl ≤ 6 := by
  induction tbl with
  | nil => simp [Gen.lookupRange]
  | cons r tbl ih =>
    obtain ⟨lo, hi, code⟩ := r
    simp only [List.all_cons, Bool.and_eq_true, decide_eq_true_eq] at h
    unfold Gen.lookupRange
    split
    · exact h.1
    · exact ih h.2

theorem getType_bounds (c : Char) : 1 ≤ Gen.getType c ∧ Gen.getType c ≤ 6 :=
  lookupRange_bounds _ _ (by decide)

theorem typesOf_bounds (text : List Char) : ∀ t ∈ typesOf text, 1 ≤ t ∧ t ≤ 6 := by
  intro t ht
  unfold typesOf at ht
  obtain ⟨c, _, hc⟩ := List.mem_map.mp ht
  rw [← hc]; exact getType_bounds c

/-! ## `predict`, restructured into phases -/

def charPhase (cs : Option (PmaScorer Char)) (text : List Char) (cstates : List (Option Nat)) (buf0 : List Int) :
    Res (List Int × List (Option Nat)) :=
  match cs with
  | some sc => pmaAddScores sc text buf0 cstates
  | none => .ok (buf0, cstates)

def typePhase (ts : Option TypeScorer) (types : List Nat) (nB : Nat) (tstates : List (Option Nat)) (buf1 : List Int) :
    Res (List Int × List (Option Nat)) :=
  match ts with
  | some (.pma sc) => pmaAddScores sc types buf1 tstates
  | some (.cache ng w) => (cacheAddScores ng w types nB buf1).map fun b => (b, [])
  | none => .ok (buf1, tstates)

def finish (s : Sentence) (pid : Nat) (buf2 : List Int) (cst tst : List (Option Nat)) : Sentence :=
  { s with scores := buf2, padding := padding, cstates := cst, tstates := tst,
           bounds := (s.bounds.zip (buf2.drop padding)).map (fun (_, x) => if x > 0 then B.W else B.N)
              ++ s.bounds.drop (buf2.drop padding).length,
           pred := some pid }

def finishR (s : Sentence) (pid : Nat) (cst : List (Option Nat)) (r2 : Res (List Int × List (Option Nat))) :
    Res Sentence :=
  match r2 with
  | .ok (buf2, tst) => .ok (finish s pid buf2 cst tst)
  | .err e => .err e
  | .panic q => .panic q
  | .ub q => .ub q

def predictK (p : Predictor) (s : Sentence) (pid : Nat) (r1 : Res (List Int × List (Option Nat))) : Res Sentence :=
  match r1 with
  | .ok (buf1, cst) => finishR s pid cst (typePhase p.typeScorer s.types s.bounds.length s.tstates buf1)
  | .err e => .err e
  | .panic q => .panic q
  | .ub q => .ub q

theorem predict_eq (p : Predictor) (pid : Nat) (s : Sentence) :
    p.predict pid s = predictK p s pid
      (charPhase p.charScorer s.text s.cstates (List.replicate (padding * 2 + s.types.length - 1) p.bias)) := rfl

/-! ## the character scorer -/

theorem charPhase_correct (cfg : Cfg) (m : WModel) (tagNgrams : List (List (TagNgramData Char)))
    (cs : Option (PmaScorer Char)) (h : charScorerNew cfg m tagNgrams = .ok cs)
    (hW : 1 ≤ m.charW)
    (hcs : ∀ d ∈ m.charNgrams, 1 ≤ d.ngram.length ∧ d.ngram.length ≤ 2 * m.charW ∧
      d.weights.length = 2 * m.charW - d.ngram.length + 1)
    (hds : ∀ d ∈ m.dict, 1 ≤ d.word.length)
    (text : List Char) (buf : List Int) (hbuf : buf.length = text.length + 13) (states : List (Option Nat)) :
    ∃ r st, charPhase cs text states buf = .ok (r, st) ∧ r.length = buf.length ∧
      ∀ b, 7 + b < buf.length → r.getD (7 + b) 0 = buf.getD (7 + b) 0 +
        (ngramScore m.charW m.charNgrams text b + dictScore m.dict text b) := by
  have hW0 : ¬ m.charW = 0 := by omega
  simp only [charScorerNew, hW0, if_false] at h
  split at h
  · -- no scorer
    rename_i hcond
    simp only [Res.ok.injEq] at h
    subst h
    have hE : m.charNgrams.isEmpty = true ∧ m.dict.isEmpty = true := by
      revert hcond
      cases m.charNgrams.isEmpty <;> cases m.dict.isEmpty <;> simp
    rw [List.isEmpty_iff, List.isEmpty_iff] at hE
    refine ⟨buf, states, rfl, rfl, fun b _ => ?_⟩
    simp [ngramScore, dictScore, hE.1, hE.2]
  · split at h
    · cases h
    · split at h
      · -- with tag n-grams
        obtain ⟨sc, hsc, hcs'⟩ := res_map_ok _ _ _ h
        subst hcs'
        have hb := buildBoundaryTag_ok cfg _ _ _ sc hsc
        obtain ⟨r, st, h1, h2, h3⟩ := scorer_total cfg PWT.add PWT.empty PWT.weight addOK_PWT _
          (by
            intro e he pw hpw
            rcases List.mem_append.mp he with he | he
            · rcases List.mem_append.mp he with he | he
              · obtain ⟨d, hd, rfl⟩ := List.mem_map.mp he
                obtain ⟨a1, a2, a3⟩ := hcs d hd
                simp only [Option.some.injEq] at hpw
                subst hpw
                exact Pinv_ngram m.charW d.ngram d.weights hW a2 a3
              · obtain ⟨d, hd, rfl⟩ := List.mem_map.mp he
                simp only [Option.some.injEq] at hpw
                subst hpw
                exact Pinv_word d.word d.weights (hds d hd)
            · rw [tagEntries_weight _ e he] at hpw; cases hpw)
          sc hb text buf hbuf states
        refine ⟨r, st, h1, h2, fun b hb' => ?_⟩
        rw [h3 b hb', List.map_append, List.map_append, isum_append, isum_append, tag_entries_score]
        have e1 := ngram_entries_score PWT.weight (fun pw => ({ weight := some pw, tagInfo := [] } : PWT))
          (fun _ => rfl) m.charW m.charNgrams text b
        have e2 := dict_entries_score PWT.weight (fun pw => ({ weight := some pw, tagInfo := [] } : PWT))
          (fun _ => rfl) m.dict text b
        rw [e1, e2]; omega
      · -- plain
        obtain ⟨sc, hsc, hcs'⟩ := res_map_ok _ _ _ h
        subst hcs'
        have hb := buildBoundary_ok cfg _ sc hsc
        obtain ⟨r, st, h1, h2, h3⟩ := scorer_total cfg PW.add ⟨0, []⟩ some addOK_PW _
          (by
            intro e he pw hpw
            simp only [Option.some.injEq] at hpw
            subst hpw
            rcases List.mem_append.mp he with he | he
            · obtain ⟨d, hd, rfl⟩ := List.mem_map.mp he
              obtain ⟨a1, a2, a3⟩ := hcs d hd
              exact Pinv_ngram m.charW d.ngram d.weights hW a2 a3
            · obtain ⟨d, hd, rfl⟩ := List.mem_map.mp he
              exact Pinv_word d.word d.weights (hds d hd))
          sc hb text buf hbuf states
        refine ⟨r, st, h1, h2, fun b hb' => ?_⟩
        rw [h3 b hb', List.map_append, isum_append]
        have e1 := ngram_entries_score (some : PW → Option PW) (fun pw => pw) (fun _ => rfl) m.charW m.charNgrams text b
        have e2 := dict_entries_score (some : PW → Option PW) (fun pw => pw) (fun _ => rfl) m.dict text b
        rw [e1, e2]

/-! ## the type scorer -/

theorem typePhase_correct (cfg : Cfg) (m : WModel) (tagNgrams : List (List (TagNgramData Nat)))
    (ts : Option TypeScorer) (h : typeScorerNew cfg m tagNgrams = .ok ts)
    (hW : 1 ≤ m.typeW)
    (hts : ∀ d ∈ m.typeNgrams, 1 ≤ d.ngram.length ∧ d.ngram.length ≤ 2 * m.typeW ∧
      d.weights.length = 2 * m.typeW - d.ngram.length + 1 ∧ ∀ t ∈ d.ngram, 1 ≤ t ∧ t ≤ 6)
    (types : List Nat) (htypes : ∀ t ∈ types, 1 ≤ t ∧ t ≤ 6) (nB : Nat) (hnB : nB ≤ types.length)
    (buf : List Int) (hbuf : buf.length = types.length + 13) (states : List (Option Nat)) :
    ∃ r st, typePhase ts types nB states buf = .ok (r, st) ∧ r.length = buf.length ∧
      ∀ b, b < nB → r.getD (7 + b) 0 = buf.getD (7 + b) 0 + ngramScore m.typeW m.typeNgrams types b := by
  have hW0 : ¬ m.typeW = 0 := by omega
  simp only [typeScorerNew, hW0, if_false] at h
  split at h
  · rename_i hcond
    simp only [Res.ok.injEq] at h
    subst h
    have hE : m.typeNgrams.isEmpty = true := by
      revert hcond
      cases m.typeNgrams.isEmpty <;> simp
    rw [List.isEmpty_iff] at hE
    refine ⟨buf, states, rfl, rfl, fun b _ => ?_⟩
    simp [ngramScore, hE]
  · split at h
    · -- with tag n-grams
      obtain ⟨sc, hsc, hcs'⟩ := res_map_ok _ _ _ h
      subst hcs'
      have hb := buildBoundaryTag_ok cfg _ _ _ sc hsc
      obtain ⟨r, st, h1, h2, h3⟩ := scorer_total cfg PWT.add PWT.empty PWT.weight addOK_PWT _
        (by
          intro e he pw hpw
          rcases List.mem_append.mp he with he | he
          · obtain ⟨d, hd, rfl⟩ := List.mem_map.mp he
            obtain ⟨a1, a2, a3, _⟩ := hts d hd
            simp only [Option.some.injEq] at hpw
            subst hpw
            exact Pinv_ngram m.typeW d.ngram d.weights hW a2 a3
          · rw [tagEntries_weight _ e he] at hpw; cases hpw)
        sc hb types buf hbuf states
      refine ⟨r, st, h1, h2, fun b hb' => ?_⟩
      rw [h3 b (by omega), List.map_append, isum_append, tag_entries_score]
      have e1 := ngram_entries_score PWT.weight (fun pw => ({ weight := some pw, tagInfo := [] } : PWT))
        (fun _ => rfl) m.typeW m.typeNgrams types b
      rw [e1]; omega
    · split at h
      · -- cache
        split at h
        · simp only [Res.ok.injEq] at h
          subst h
          obtain ⟨r, h1, h2, h3⟩ := cache_correct m.typeNgrams m.typeW types hts htypes nB buf
            (by rw [padding_eq]; omega)
          refine ⟨r, [], ?_, h2, fun b hb' => ?_⟩
          · show (cacheAddScores m.typeNgrams m.typeW types nB buf).map (fun b => (b, [])) = _
            rw [h1]; rfl
          · have := h3 b hb'
            rw [padding_eq] at this
            exact this
        · cases h
      · -- plain
        obtain ⟨sc, hsc, hcs'⟩ := res_map_ok _ _ _ h
        subst hcs'
        have hb := buildBoundary_ok cfg _ sc hsc
        obtain ⟨r, st, h1, h2, h3⟩ := scorer_total cfg PW.add ⟨0, []⟩ some addOK_PW _
          (by
            intro e he pw hpw
            simp only [Option.some.injEq] at hpw
            subst hpw
            obtain ⟨d, hd, rfl⟩ := List.mem_map.mp he
            obtain ⟨a1, a2, a3, _⟩ := hts d hd
            exact Pinv_ngram m.typeW d.ngram d.weights hW a2 a3)
          sc hb types buf hbuf states
        refine ⟨r, st, h1, h2, fun b hb' => ?_⟩
        rw [h3 b (by omega)]
        have e1 := ngram_entries_score (some : PW → Option PW) (fun pw => pw) (fun _ => rfl) m.typeW m.typeNgrams types b
        rw [e1]

/-! ## `Predictor.new` -/

theorem new_ok (cfg : Cfg) (m : WModel) (pt : Bool) (p : Predictor) (hp : Predictor.new cfg m pt = .ok p) :
    ∃ tc tt, charScorerNew cfg m tc = .ok p.charScorer ∧ typeScorerNew cfg m tt = .ok p.typeScorer ∧
      p.bias = m.bias := by
  unfold Predictor.new at hp
  split at hp
  · cases hp
  · simp only at hp
    split at hp
    · rename_i cs hcs
      split at hp
      · rename_i ts hts
        simp only [Res.ok.injEq] at hp
        subst hp
        exact ⟨_, _, hcs, hts, rfl⟩
      · cases hp
      · cases hp
      · cases hp
    · cases hp
    · cases hp
    · cases hp

/-! ## the final record -/

theorem zip_map_snd {β γ : Type} (l1 : List β) (l2 : List γ) :
    (l1.zip l2).map Prod.snd = l2.take l1.length := by
  induction l1 generalizing l2 with
  | nil => simp
  | cons a l1 ih =>
    cases l2 with
    | nil => simp
    | cons b l2 => simp [ih]

theorem list_eq_range_map (l : List Int) (n : Nat) (f : Nat → Int) (hl : l.length = n)
    (h : ∀ i, i < n → l.getD i 0 = f i) : l = (List.range n).map f := by
  apply List.ext_getElem
  · simp [hl]
  · intro i h1 h2
    have := h i (by omega)
    rw [List.getD_eq_getElem?_getD, List.getElem?_eq_getElem h1] at this
    simpa using this

theorem finish_correct (m : WModel) (s : Sentence) (hne : s.text ≠ [])
    (hbl : s.bounds.length + 1 = s.text.length) (pid : Nat) (buf2 : List Int) (cst tst : List (Option Nat))
    (hlen : buf2.length = s.text.length + 13)
    (hval : ∀ b, b < s.text.length - 1 → buf2.getD (7 + b) 0 = specScore m s.text b) :
    (finish s pid buf2 cst tst).boundaryScores = .ok (specScores m s.text) ∧
    (finish s pid buf2 cst tst).bounds = specBounds m s.text := by
  have hn : 1 ≤ s.text.length := by
    cases h : s.text with
    | nil => exact absurd h hne
    | cons _ _ => simp
  have hvis : (buf2.drop padding).take s.bounds.length = specScores m s.text := by
    unfold specScores
    apply list_eq_range_map
    · rw [List.length_take, List.length_drop, padding_eq]; omega
    · intro i hi
      rw [List.getD_eq_getElem?_getD, List.getElem?_take, if_pos (by omega), List.getElem?_drop, padding_eq,
        ← List.getD_eq_getElem?_getD]
      exact hval i hi
  have hb : (finish s pid buf2 cst tst).bounds = specBounds m s.text := by
    show (s.bounds.zip (buf2.drop padding)).map (fun (_, x) => if x > 0 then B.W else B.N)
      ++ s.bounds.drop (buf2.drop padding).length = _
    have hd : s.bounds.drop (buf2.drop padding).length = [] := by
      apply List.drop_eq_nil_of_le
      rw [List.length_drop, padding_eq]; omega
    rw [hd, List.append_nil]
    unfold specBounds
    rw [← hvis, ← zip_map_snd, List.map_map]
    rfl
  refine ⟨?_, hb⟩
  unfold Sentence.boundaryScores
  rw [hb]
  show (if buf2.isEmpty then _ else if padding + (specBounds m s.text).length ≤ buf2.length then
    Res.ok ((buf2.drop padding).take (specBounds m s.text).length) else _) = _
  have hsl : (specBounds m s.text).length = s.bounds.length := by
    simp [specBounds, specScores]; omega
  have hne2 : buf2.isEmpty = false := by
    cases buf2 with
    | nil => simp at hlen
    | cons _ _ => rfl
  rw [hne2, hsl, if_neg (by simp), if_pos (by rw [padding_eq]; omega), hvis]

/-- the main theorem with the well-formedness conditions spelled out -/
theorem predict_correct (cfg : Cfg) (m : WModel)
    (hcW : 1 ≤ m.charW)
    (hcs : ∀ d ∈ m.charNgrams, 1 ≤ d.ngram.length ∧ d.ngram.length ≤ 2 * m.charW ∧
      d.weights.length = 2 * m.charW - d.ngram.length + 1)
    (htW : 1 ≤ m.typeW)
    (hts : ∀ d ∈ m.typeNgrams, 1 ≤ d.ngram.length ∧ d.ngram.length ≤ 2 * m.typeW ∧
      d.weights.length = 2 * m.typeW - d.ngram.length + 1 ∧ ∀ t ∈ d.ngram, 1 ≤ t ∧ t ≤ 6)
    (hds : ∀ d ∈ m.dict, 1 ≤ d.word.length)
    (pt : Bool) (p : Predictor) (hp : Predictor.new cfg m pt = .ok p)
    (s : Sentence) (hne : s.text ≠ []) (htypes : s.types = typesOf s.text)
    (hbl : s.bounds.length + 1 = s.text.length) (pid : Nat) :
    ∃ s', p.predict pid s = .ok s' ∧
      s'.boundaryScores = .ok (specScores m s.text) ∧
      s'.bounds = specBounds m s.text ∧
      s'.text = s.text ∧ s'.types = s.types ∧ s'.tags = s.tags ∧ s'.nTags = s.nTags ∧ s'.pred = some pid := by
  obtain ⟨tc, tt, hc, ht, hbias⟩ := new_ok cfg m pt p hp
  have hn : 1 ≤ s.text.length := by
    cases h : s.text with
    | nil => exact absurd h hne
    | cons _ _ => simp
  have htl : s.types.length = s.text.length := by rw [htypes]; simp [typesOf]
  have hb0 : (List.replicate (padding * 2 + s.types.length - 1) p.bias).length = s.text.length + 13 := by
    rw [List.length_replicate, padding_eq, htl]; omega
  obtain ⟨buf1, cst, h1, hl1, hv1⟩ := charPhase_correct cfg m tc p.charScorer hc hcW hcs hds s.text _ hb0 s.cstates
  obtain ⟨buf2, tst, h2, hl2, hv2⟩ := typePhase_correct cfg m tt p.typeScorer ht htW hts s.types
    (by rw [htypes]; exact typesOf_bounds s.text) s.bounds.length (by omega) buf1 (by rw [hl1, hb0, htl]) s.tstates
  refine ⟨finish s pid buf2 cst tst, ?_, ?_⟩
  · rw [predict_eq, h1]
    show finishR s pid cst (typePhase p.typeScorer s.types s.bounds.length s.tstates buf1) = _
    rw [h2]; rfl
  · obtain ⟨hA, hB⟩ := finish_correct m s hne hbl pid buf2 cst tst (by rw [hl2, hl1, hb0])
      (by
        intro b hb
        rw [hv2 b (by omega), hv1 b (by rw [hb0]; omega)]
        have hrep : (List.replicate (padding * 2 + s.types.length - 1) p.bias).getD (7 + b) 0 = m.bias := by
          rw [List.getD_eq_getElem?_getD, List.getElem?_replicate, if_pos (by rw [padding_eq, htl]; omega), hbias]
          rfl
        rw [hrep, htypes]
        unfold specScore
        omega)
    exact ⟨hA, hB, rfl, rfl, rfl, rfl, rfl⟩

end V.C01L
