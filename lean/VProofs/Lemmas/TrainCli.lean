import VModel.TrainCli
import VProofs.C05
import VProofs.Lemmas.TkNorm
import VProofs.Lemmas.TokNul
import VProofs.Lemmas.PartInv
import VProofs.Lemmas.AsmOrder
/-!
Helper lemmas for the `train` tool's loading stage (`VModel/TrainCli.lean`); property theorems are in
`VProofs/C10.lean` (`C10_train_tool_*`) and `VProofs/C11.lean` (`C11_train_tool_*`).
-/
namespace V.TrainCliL
open V

/-! ## `Res` plumbing -/

theorem bindR_ok_iff {α β : Type} {r : Res α} {f : α → Res β} {b : β} :
    bindR r f = .ok b ↔ ∃ a, r = .ok a ∧ f a = .ok b := by
  cases r <;> simp [bindR]

theorem bindR_pure {α : Type} (r : Res α) : bindR r (fun a => .ok a) = r := by
  cases r <;> rfl

theorem bindR_safe {α β : Type} {r : Res α} {f : α → Res β} (hr : r.Safe) (hf : ∀ a, r = .ok a → (f a).Safe) :
    (bindR r f).Safe := by
  cases r with
  | ok a => exact hf a rfl
  | err e => trivial
  | panic p => exact hr
  | ub p => exact hr

theorem mapRes_safe {β γ : Type} (f : β → Res γ) : ∀ (l : List β), (∀ x ∈ l, (f x).Safe) → (mapRes f l).Safe
  | [], _ => trivial
  | x :: xs, h => by
    have hx := h x (by simp)
    have ih := mapRes_safe f xs (fun y hy => h y (by simp [hy]))
    unfold mapRes
    cases hfx : f x with
    | ok y =>
      simp only
      cases hr : mapRes f xs with
      | ok ys => trivial
      | err e => trivial
      | panic p => rw [hr] at ih; exact ih
      | ub p => rw [hr] at ih; exact ih
    | err e => trivial
    | panic p => rw [hfx] at hx; exact hx
    | ub p => rw [hfx] at hx; exact hx

theorem mapRes_cons_ok {β γ : Type} {f : β → Res γ} {x : β} {xs : List β} {ys : List γ}
    (h : mapRes f (x :: xs) = .ok ys) : ∃ y ys', f x = .ok y ∧ mapRes f xs = .ok ys' ∧ ys = y :: ys' := by
  unfold mapRes at h
  cases hfx : f x with
  | ok y =>
    rw [hfx] at h
    simp only at h
    cases hr : mapRes f xs with
    | ok ys' =>
      rw [hr] at h
      simp only [Res.map, Res.ok.injEq] at h
      exact ⟨y, ys', rfl, rfl, h.symm⟩
    | err e => rw [hr] at h; cases h
    | panic p => rw [hr] at h; cases h
    | ub p => rw [hr] at h; cases h
  | err e => rw [hfx] at h; cases h
  | panic p => rw [hfx] at h; cases h
  | ub p => rw [hfx] at h; cases h

theorem mapRes_length {β γ : Type} {f : β → Res γ} : ∀ {l : List β} {ys : List γ}, mapRes f l = .ok ys → ys.length = l.length
  | [], ys, h => by
    simp only [mapRes, Res.ok.injEq] at h
    rw [← h]
    rfl
  | x :: xs, ys, h => by
    obtain ⟨y, ys', _, h2, h3⟩ := mapRes_cons_ok h
    rw [h3, List.length_cons, List.length_cons, mapRes_length h2]

theorem mapRes_mem {β γ : Type} {f : β → Res γ} :
    ∀ {l : List β} {ys : List γ}, mapRes f l = .ok ys → ∀ y, y ∈ ys ↔ ∃ x ∈ l, f x = .ok y
  | [], ys, h, y => by
    simp only [mapRes, Res.ok.injEq] at h
    rw [← h]
    simp
  | x :: xs, ys, h, y => by
    obtain ⟨y0, ys', h1, h2, h3⟩ := mapRes_cons_ok h
    rw [h3, List.mem_cons, mapRes_mem h2 y]
    constructor
    · rintro (e | ⟨z, hz, hfz⟩)
      · exact ⟨x, by simp, by rw [e]; exact h1⟩
      · exact ⟨z, by simp [hz], hfz⟩
    · rintro ⟨z, hz, hfz⟩
      rcases List.mem_cons.mp hz with e | hz
      · left
        rw [e, h1] at hfz
        injection hfz with hfz
        exact hfz.symm
      · exact Or.inr ⟨z, hz, hfz⟩

/-! ## one line -/

theorem ofParsed_text {p : Parsed} {r : Sentence} (h : Sentence.ofParsed p = .ok r) : r.text = p.text := by
  unfold Sentence.ofParsed at h
  split at h
  · injection h with h
    rw [← h]
  · cases h
  · cases h
  · cases h

/-- an accepted line gives a consistent, score-free sentence whose text is NUL-free -/
theorem parseLine_ok {k : CorpusKind} {line : List Char} {r : Sentence} (h : parseLine k line = .ok r) :
    Inv r ∧ r.scores = [] ∧ '\x00' ∉ r.text := by
  cases k with
  | tok =>
    have h' : Sentence.fromTokenized line = .ok r := h
    obtain ⟨hi, hs⟩ := C05_ctor_inv line r (Or.inr (Or.inl h'))
    refine ⟨hi, hs, ?_⟩
    unfold Sentence.fromTokenized at h'
    split at h'
    · next p hp =>
      rw [ofParsed_text h']
      intro hm
      exact (C03L.parseTokenized_nul line p hp).1 _ hm rfl
    · cases h'
    · cases h'
    · cases h'
  | part =>
    have h' : Sentence.fromPartial line = .ok r := h
    obtain ⟨hi, hs⟩ := C05_ctor_inv line r (Or.inr (Or.inr h'))
    refine ⟨hi, hs, ?_⟩
    unfold Sentence.fromPartial at h'
    split at h'
    · next p hp =>
      rw [ofParsed_text h']
      intro hm
      obtain ⟨_, _, _, hn, _⟩ := C04L.parsePartial_ok hp
      exact hn _ hm rfl
    · cases h'
    · cases h'
    · cases h'

theorem parseLine_safe (k : CorpusKind) (line : List Char) : (parseLine k line).Safe := by
  cases k with
  | tok => exact (paired_tokenized line).ctor_safe
  | part => exact (paired_partial line).ctor_safe

theorem fromRaw_ok (t : List Char) (hne : t ≠ []) (hn : '\x00' ∉ t) :
    Sentence.fromRaw t = .ok (Sentence.mkRaw t) := by
  have hc : t.contains '\x00' = false := by simpa using hn
  have he : t.isEmpty = false := by simpa using hne
  simp only [Sentence.fromRaw, parseRaw, hc, he, Bool.false_eq_true, if_false]
  rfl

/-- the normalise-and-copy step on a consistent sentence with NUL-free text: both slice copies fit -/
theorem transferNorm_false {r : Sentence} (hi : Inv r) (hn : '\x00' ∉ r.text) :
    ∃ s', transferNorm false r = .ok s' ∧ s'.text = Gen.fullwidth r.text ∧
      s'.types = typesOf (Gen.fullwidth r.text) ∧ s'.bounds = r.bounds ∧ s'.nTags = r.nTags ∧ s'.tags = r.tags ∧
      s'.scores = [] ∧ Inv s' := by
  have hlen : (Gen.fullwidth r.text).length = r.text.length := C16L.fullwidth_length r.text
  have hraw := fromRaw_ok (Gen.fullwidth r.text) (C16L.fullwidth_ne_nil r.text hi.text_ne)
    (C16L.fullwidth_no_nul r.text hn)
  have hb : (Sentence.mkRaw (Gen.fullwidth r.text)).bounds.length = r.bounds.length := by
    have := hi.bounds_len
    simp only [Sentence.mkRaw, List.length_replicate]
    omega
  have ht : (({ Sentence.mkRaw (Gen.fullwidth r.text) with bounds := r.bounds } : Sentence).resetTags r.nTags).tags.length
      = r.tags.length := by
    simp only [Sentence.resetTags, Sentence.mkRaw, List.length_replicate, typesOf_length, hlen, hi.tags_len]
    exact Nat.mul_comm _ _
  refine ⟨{ ({ Sentence.mkRaw (Gen.fullwidth r.text) with bounds := r.bounds } : Sentence).resetTags r.nTags with
      tags := r.tags }, ?_, rfl, rfl, rfl, rfl, rfl, rfl, ?_⟩
  · unfold transferNorm
    simp only [Bool.false_eq_true, if_false, hraw, bindR, Res.bind_ok]
    rw [if_neg (by simpa using hb), if_neg (by simpa using ht)]
  · refine ⟨C16L.fullwidth_ne_nil r.text hi.text_ne, rfl, ?_, ?_, Or.inl rfl⟩
    · show r.bounds.length + 1 = (Gen.fullwidth r.text).length
      rw [hlen]; exact hi.bounds_len
    · show r.tags.length = (Gen.fullwidth r.text).length * r.nTags
      rw [hlen]; exact hi.tags_len

theorem loadLine_true (k : CorpusKind) (line : List Char) : loadLine k true line = parseLine k line := by
  unfold loadLine
  have : transferNorm true = fun s => Res.ok s := by
    funext s
    simp [transferNorm]
  rw [this, bindR_pure]

theorem loadLine_err {k : CorpusKind} {line : List Char} {e : Err} (h : parseLine k line = .err e) (nn : Bool) :
    loadLine k nn line = .err e := by
  unfold loadLine
  rw [h]
  rfl

theorem loadLine_false_ok {k : CorpusKind} {line : List Char} {r : Sentence} (h : parseLine k line = .ok r) :
    ∃ s', loadLine k false line = .ok s' ∧ s'.text = Gen.fullwidth r.text ∧
      s'.types = typesOf (Gen.fullwidth r.text) ∧ s'.bounds = r.bounds ∧ s'.nTags = r.nTags ∧ s'.tags = r.tags ∧
      s'.scores = [] ∧ Inv s' := by
  obtain ⟨hi, _, hn⟩ := parseLine_ok h
  obtain ⟨s', h1, h2⟩ := transferNorm_false hi hn
  refine ⟨s', ?_, h2⟩
  unfold loadLine
  rw [h]
  exact h1

/-- whatever `loadLine` returns is a consistent sentence -/
theorem loadLine_inv {k : CorpusKind} {nn : Bool} {line : List Char} {s : Sentence} (h : loadLine k nn line = .ok s) :
    Inv s := by
  cases nn with
  | true =>
    rw [loadLine_true] at h
    exact (parseLine_ok h).1
  | false =>
    obtain ⟨r, hr, _⟩ := bindR_ok_iff.mp h
    obtain ⟨s', h1, h2⟩ := loadLine_false_ok hr
    rw [h] at h1
    injection h1 with h1
    rw [h1]
    exact h2.2.2.2.2.2.2

theorem loadLine_safe (k : CorpusKind) (nn : Bool) (line : List Char) : (loadLine k nn line).Safe := by
  cases nn with
  | true => rw [loadLine_true]; exact parseLine_safe k line
  | false =>
    cases hp : parseLine k line with
    | ok r =>
      obtain ⟨s', h1, _⟩ := loadLine_false_ok hp
      rw [h1]; trivial
    | err e => rw [loadLine_err hp]; trivial
    | panic p => have := parseLine_safe k line; rw [hp] at this; exact this.elim
    | ub p => have := parseLine_safe k line; rw [hp] at this; exact this.elim

/-! ## token surfaces -/

theorem substring_ok {s : Sentence} (hi : Inv s) {p : Nat × Nat} (hp : p ∈ iterTokens s.bounds) :
    ∃ w, s.substring p.1 p.2 = .ok w ∧ w ≠ [] := by
  have hr := iterTokens_range s.bounds p hp
  have hb := hi.bounds_len
  refine ⟨(s.text.drop p.1).take (p.2 - p.1), ?_, ?_⟩
  · unfold Sentence.substring
    rw [if_pos ⟨by omega, by omega⟩]
  · intro he
    have := congrArg List.length he
    simp only [List.length_take, List.length_drop, List.length_nil] at this
    omega

theorem surfacesOf_safe {s : Sentence} (hi : Inv s) : (surfacesOf s).Safe := by
  unfold surfacesOf
  apply mapRes_safe
  intro p hp
  obtain ⟨w, hw, _⟩ := substring_ok hi hp
  rw [hw]; trivial

theorem surfacesOf_mem {s : Sentence} {ws : List (List Char)} (h : surfacesOf s = .ok ws) (w : List Char) :
    w ∈ ws ↔ ∃ p ∈ iterTokens s.bounds, s.substring p.1 p.2 = .ok w :=
  mapRes_mem h w

/-! ## the sorted set -/

theorem mem_insertWord (x : List Char) : ∀ (l : List (List Char)) (w : List Char), w ∈ insertWord x l ↔ w = x ∨ w ∈ l
  | [], w => by simp [insertWord]
  | y :: r, w => by
    unfold insertWord
    split
    · next hxy =>
      rw [hxy]
      constructor
      · exact Or.inr
      · rintro (e | h)
        · rw [e]; simp
        · exact h
    · split
      · simp
      · rw [List.mem_cons, mem_insertWord x r w, List.mem_cons]
        constructor
        · rintro (h | h | h)
          · exact Or.inr (Or.inl h)
          · exact Or.inl h
          · exact Or.inr (Or.inr h)
        · rintro (h | h | h)
          · exact Or.inr (Or.inl h)
          · exact Or.inl h
          · exact Or.inr (Or.inr h)

abbrev WLt (a b : List Char) : Prop := lexLt ltChar a b = true

theorem wlt_st : C09L.StrictTotal (lexLt ltChar) := C09L.lexLt_st C09L.ltChar_st

theorem sorted_insertWord (x : List Char) : ∀ (l : List (List Char)), l.Pairwise WLt → (insertWord x l).Pairwise WLt
  | [], _ => by simp [insertWord]
  | y :: r, h => by
    have h' := List.pairwise_cons.mp h
    unfold insertWord
    split
    · exact h
    · next hne =>
      split
      · next hlt =>
        refine List.pairwise_cons.mpr ⟨?_, h⟩
        intro z hz
        rcases List.mem_cons.mp hz with e | hz
        · rw [e]; exact hlt
        · exact wlt_st.trans _ _ _ hlt (h'.1 z hz)
      · next hnlt =>
        refine List.pairwise_cons.mpr ⟨?_, sorted_insertWord x r h'.2⟩
        intro z hz
        rcases (mem_insertWord x r z).mp hz with e | hz
        · rw [e]
          exact wlt_st.conn x y hne (by simpa using hnlt)
        · exact h'.1 z hz

theorem foldl_insertWord (ws : List (List Char)) : ∀ (acc : List (List Char)), acc.Pairwise WLt →
    (ws.foldl (fun acc w => insertWord w acc) acc).Pairwise WLt ∧
    ∀ w, w ∈ ws.foldl (fun acc w => insertWord w acc) acc ↔ w ∈ ws ∨ w ∈ acc := by
  induction ws with
  | nil => intro acc h; simp [h]
  | cons x xs ih =>
    intro acc h
    obtain ⟨h1, h2⟩ := ih (insertWord x acc) (sorted_insertWord x acc h)
    refine ⟨h1, fun w => ?_⟩
    rw [List.foldl_cons, h2 w, mem_insertWord, List.mem_cons]
    constructor
    · rintro (h | h | h)
      · exact Or.inl (Or.inr h)
      · exact Or.inl (Or.inl h)
      · exact Or.inr h
    · rintro ((h | h) | h)
      · exact Or.inr (Or.inl h)
      · exact Or.inl h
      · exact Or.inr (Or.inr h)

theorem sorted_nodup : ∀ {l : List (List Char)}, l.Pairwise WLt → l.Nodup := by
  intro l h
  refine List.Pairwise.imp ?_ h
  intro a b hab e
  rw [e] at hab
  have hab' : lexLt ltChar b b = true := hab
  rw [wlt_st.irrefl b] at hab'
  exact Bool.noConfusion hab'

/-! ## the whole loading stage -/

theorem loadFiles_safe (k : CorpusKind) (nn : Bool) (files : List (List Char)) : (loadFiles k nn files).Safe :=
  mapRes_safe _ _ (fun x _ => loadLine_safe k nn x)

/-- the per-line function of the `--dict` loop -/
abbrev dictLine (nn : Bool) (line : List Char) : Res (Sentence × List (List Char)) :=
  bindR (loadLine .tok nn line) fun s => bindR (surfacesOf s) fun ws => .ok (s, ws)

theorem dictLine_ok {nn : Bool} {line : List Char} {d : Sentence × List (List Char)} (h : dictLine nn line = .ok d) :
    Inv d.1 ∧ surfacesOf d.1 = .ok d.2 := by
  obtain ⟨s, hs, h⟩ := bindR_ok_iff.mp h
  obtain ⟨ws, hws, h⟩ := bindR_ok_iff.mp h
  injection h with h
  rw [← h]
  exact ⟨loadLine_inv hs, hws⟩

theorem loadDict_safe (nn : Bool) (files : List (List Char)) : (loadDict nn files).Safe := by
  unfold loadDict
  apply mapRes_safe
  intro line _
  apply bindR_safe (loadLine_safe .tok nn line)
  intro s hs
  apply bindR_safe (surfacesOf_safe (loadLine_inv hs))
  intro ws _
  trivial

theorem loadDict_ok {nn : Bool} {files : List (List Char)} {ds : List (Sentence × List (List Char))}
    (h : loadDict nn files = .ok ds) : ∀ d ∈ ds, Inv d.1 ∧ surfacesOf d.1 = .ok d.2 := by
  intro d hd
  obtain ⟨line, _, hl⟩ := (mapRes_mem (f := dictLine nn) h d).mp hd
  exact dictLine_ok hl

theorem trainCliInputs_safe (nn : Bool) (tok part dict : List (List Char)) : (trainCliInputs nn tok part dict).Safe := by
  unfold trainCliInputs
  apply bindR_safe (loadFiles_safe .tok nn tok)
  intro ts _
  apply bindR_safe (loadFiles_safe .part nn part)
  intro ps _
  apply bindR_safe (loadDict_safe nn dict)
  intro ds _
  trivial

/-- the three stages behind an accepted run -/
theorem trainCliInputs_ok {nn : Bool} {tok part dict : List (List Char)} {inp : TrainInputs}
    (h : trainCliInputs nn tok part dict = .ok inp) :
    ∃ ts ps ds, loadFiles .tok nn tok = .ok ts ∧ loadFiles .part nn part = .ok ps ∧ loadDict nn dict = .ok ds ∧
      inp = { dictWords := (ds.flatMap (·.2)).foldl (fun acc w => insertWord w acc) [], tagDict := ds.map (·.1),
              corpus := ts ++ ps } := by
  obtain ⟨ts, hts, h⟩ := bindR_ok_iff.mp h
  obtain ⟨ps, hps, h⟩ := bindR_ok_iff.mp h
  obtain ⟨ds, hds, h⟩ := bindR_ok_iff.mp h
  injection h with h
  exact ⟨ts, ps, ds, hts, hps, hds, h.symm⟩

theorem corpus_spec {nn : Bool} {tok part dict : List (List Char)} {inp : TrainInputs}
    (h : trainCliInputs nn tok part dict = .ok inp) :
    ∃ ts ps, mapRes (loadLine .tok nn) (tok.flatMap splitLines) = .ok ts ∧
      mapRes (loadLine .part nn) (part.flatMap splitLines) = .ok ps ∧ inp.corpus = ts ++ ps ∧
      inp.corpus.length = (tok.flatMap splitLines).length + (part.flatMap splitLines).length := by
  obtain ⟨ts, ps, ds, hts, hps, _, hi⟩ := trainCliInputs_ok h
  refine ⟨ts, ps, hts, hps, by rw [hi], ?_⟩
  rw [hi]
  show (ts ++ ps).length = _
  rw [List.length_append, mapRes_length hts, mapRes_length hps]

theorem dictionary_spec {nn : Bool} {tok part dict : List (List Char)} {inp : TrainInputs}
    (h : trainCliInputs nn tok part dict = .ok inp) :
    inp.dictWords.Pairwise (fun a b => lexLt ltChar a b = true) ∧
    (∀ w, w ∈ inp.dictWords ↔ ∃ s ∈ inp.tagDict, ∃ p ∈ iterTokens s.bounds, s.substring p.1 p.2 = .ok w) ∧
    (∀ cw cn tw tn ml, trainerNewOk ⟨cw, cn, tw, tn, inp.dictWords, ml⟩ = true) := by
  obtain ⟨ts, ps, ds, _, _, hds, hi⟩ := trainCliInputs_ok h
  have hd := loadDict_ok hds
  obtain ⟨hsorted, hmem⟩ := foldl_insertWord (ds.flatMap (·.2)) [] List.Pairwise.nil
  have hdw : inp.dictWords = (ds.flatMap (·.2)).foldl (fun acc w => insertWord w acc) [] := by rw [hi]
  have htd : inp.tagDict = ds.map (·.1) := by rw [hi]
  have hchar : ∀ w, w ∈ inp.dictWords ↔
      ∃ s ∈ inp.tagDict, ∃ p ∈ iterTokens s.bounds, s.substring p.1 p.2 = .ok w := by
    intro w
    rw [hdw, hmem w, htd]
    constructor
    · rintro (hw | hw)
      · obtain ⟨d, hdm, hwd⟩ := List.mem_flatMap.mp hw
        exact ⟨d.1, List.mem_map.mpr ⟨d, hdm, rfl⟩, (surfacesOf_mem (hd d hdm).2 w).mp hwd⟩
      · cases hw
    · rintro ⟨s, hs, hp⟩
      obtain ⟨d, hdm, hds⟩ := List.mem_map.mp hs
      left
      refine List.mem_flatMap.mpr ⟨d, hdm, ?_⟩
      have hds' : d.1 = s := hds
      have hp' : ∃ p ∈ iterTokens d.1.bounds, d.1.substring p.1 p.2 = .ok w := by
        rw [hds']; exact hp
      exact (surfacesOf_mem (hd d hdm).2 w).mpr hp'
  refine ⟨by rw [hdw]; exact hsorted, hchar, ?_⟩
  intro cw cn tw tn ml
  unfold trainerNewOk
  simp only [Bool.and_eq_true, List.all_eq_true, decide_eq_true_eq]
  refine ⟨?_, by rw [hdw]; exact sorted_nodup hsorted⟩
  intro w hw
  obtain ⟨s, hs, p, hp, hsub⟩ := (hchar w).mp hw
  rw [htd] at hs
  obtain ⟨d, hdm, hds⟩ := List.mem_map.mp hs
  have hds' : d.1 = s := hds
  have hinv : Inv s := by
    rw [← hds']; exact (hd d hdm).1
  obtain ⟨w', hw', hne⟩ := substring_ok hinv hp
  rw [hsub] at hw'
  injection hw' with hw'
  rw [hw']
  simpa using hne

end V.TrainCliL
