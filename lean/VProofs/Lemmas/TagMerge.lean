import VModel.Scorer
import VProofs.Lemmas.TagInfo
import VProofs.Lemmas.ScoreBuild
/-!
# The merged tag vectors: pattern `p` carries, per `(token id, rel)` and class, the sum of the weights of all tag
n-grams of that tag model at that `rel` whose n-gram is a suffix of `p` (for C06)
-/
namespace V.C06L
open V.C01L
variable {α : Type} [DecidableEq α]

/-- class-`c` weight of the tag n-grams `tm` at relative position `rel` whose n-gram is a suffix of `p` -/
def tagSum (tm : List (TagNgramData α)) (rel : Nat) (p : List α) (c : Nat) : Int :=
  (tm.map fun d => (d.weights.map fun w =>
    if w.rel = rel ∧ d.ngram.isSuffixOf p = true then getZ w.weights (c : Int) else 0).sum).sum

omit [DecidableEq α] in
theorem tagEntries_eq (T : List (List (TagNgramData α))) :
    tagEntries T = (T.zipIdx).flatMap fun p => p.1.flatMap fun d => d.weights.map fun w =>
      (d.ngram, ({ weight := none, tagInfo := [((p.2, w.rel), w.weights)] } : PWT)) := rfl

omit [DecidableEq α] in
theorem mem_tagEntries (T : List (List (TagNgramData α))) (e : List α × PWT) (he : e ∈ tagEntries T) :
    ∃ i tm d w, T[i]? = some tm ∧ d ∈ tm ∧ w ∈ d.weights ∧
      e = (d.ngram, ({ weight := none, tagInfo := [((i, w.rel), w.weights)] } : PWT)) := by
  rw [tagEntries_eq] at he
  obtain ⟨⟨tm, i⟩, hp, he⟩ := List.mem_flatMap.mp he
  obtain ⟨d, hd, he⟩ := List.mem_flatMap.mp he
  obtain ⟨w, hw, he⟩ := List.mem_map.mp he
  obtain ⟨_, h2, h3⟩ := List.mem_zipIdx hp
  refine ⟨i, tm, d, w, ?_, hd, hw, he.symm⟩
  simp only [Nat.zero_add, Nat.sub_zero] at h2 h3
  rw [List.getElem?_eq_getElem h2, h3]

omit [DecidableEq α] in
theorem tagEntries_mem (T : List (List (TagNgramData α))) (i : Nat) (tm : List (TagNgramData α))
    (d : TagNgramData α) (w : TagWeight) (hi : T[i]? = some tm) (hd : d ∈ tm) (hw : w ∈ d.weights) :
    (d.ngram, ({ weight := none, tagInfo := [((i, w.rel), w.weights)] } : PWT)) ∈ tagEntries T := by
  rw [tagEntries_eq]
  refine List.mem_flatMap.mpr ⟨(tm, i), ?_, List.mem_flatMap.mpr ⟨d, hd, List.mem_map.mpr ⟨w, hw, rfl⟩⟩⟩
  have hlt : i < T.length := by
    rcases Nat.lt_or_ge i T.length with h | h
    · exact h
    · rw [List.getElem?_eq_none h] at hi; cases hi
  rw [List.mem_iff_getElem?]
  refine ⟨i, ?_⟩
  rw [List.getElem?_zipIdx, hi]
  simp

/-- a sum over an indexed list whose terms vanish off index `tid` -/
theorem isum_zipIdx_select {β : Type} (l : List β) (G : β → Nat → Int) (tid : Nat)
    (hG : ∀ x i, i ≠ tid → G x i = 0) :
    ∀ k0, ((l.zipIdx k0).map fun p => G p.1 p.2).sum
      = if k0 ≤ tid then (match l[tid - k0]? with | some x => G x tid | none => 0) else 0 := by
  induction l with
  | nil => intro k0; simp
  | cons a l ih =>
    intro k0
    rw [List.zipIdx_cons, List.map_cons, List.sum_cons, ih (k0 + 1)]
    by_cases h1 : k0 + 1 ≤ tid
    · rw [if_pos h1, if_pos (by omega), hG a k0 (by omega)]
      have : tid - k0 = (tid - (k0 + 1)) + 1 := by omega
      rw [this, List.getElem?_cons_succ]; omega
    · rw [if_neg h1]
      by_cases h2 : k0 = tid
      · subst h2
        rw [if_pos (Nat.le_refl _), Nat.sub_self, List.getElem?_cons_zero]
        simp
      · rw [if_neg (by omega), hG a k0 h2]; rfl

theorem tval_single (k k' : Nat × Nat) (c : Nat) (v : List Int) :
    tval k c [(k', v)] = if k' = k then getZ v (c : Int) else 0 := by
  unfold tval
  simp only [tlookup]
  split
  · rfl
  · exact getZ_nil _

/-- the tag entries whose key is a suffix of `p`, evaluated at `(tid, rel)`, class `c` -/
theorem tagEntries_sum (T : List (List (TagNgramData α))) (tid rel c : Nat) (p : List α) :
    (((tagEntries T).filter fun e => e.1.isSuffixOf p).map fun e => tval (tid, rel) c e.2.tagInfo).sum
      = tagSum (T.getD tid []) rel p c := by
  rw [isum_filter, tagEntries_eq, isum_flatMap]
  have h := isum_zipIdx_select T
    (fun tm i => ((tm.flatMap fun d => d.weights.map fun w =>
        (d.ngram, ({ weight := none, tagInfo := [((i, w.rel), w.weights)] } : PWT))).map
      fun e => if e.1.isSuffixOf p = true then tval (tid, rel) c e.2.tagInfo else 0).sum) tid
    (by
      intro tm i hi
      apply isum_map_eq_zero
      intro e he
      obtain ⟨d, _, he⟩ := List.mem_flatMap.mp he
      obtain ⟨w, _, he⟩ := List.mem_map.mp he
      subst he
      simp only
      have hne : ¬ (i, w.rel) = (tid, rel) := fun e => hi (Prod.mk.inj e).1
      rw [tval_single, if_neg hne]
      split <;> rfl) 0
  rw [h, if_pos (Nat.zero_le _), Nat.sub_zero, List.getD_eq_getElem?_getD]
  cases T[tid]? with
  | none => simp [tagSum]
  | some tm =>
    simp only [Option.getD_some]
    unfold tagSum
    rw [isum_flatMap]
    apply isum_map_congr
    intro d _
    rw [List.map_map]
    apply isum_map_congr
    intro w _
    simp only [Function.comp]
    rw [tval_single]
    by_cases h1 : d.ngram.isSuffixOf p = true
    · by_cases h2 : w.rel = rel
      · simp [h1, h2]
      · have : ¬ (tid, w.rel) = (tid, rel) := by intro e; exact h2 (Prod.mk.inj e).2
        simp [h1, h2]
    · simp [h1]

/-- the merged entries of a tag-aware scorer -/
theorem merged_tval (L : Nat → Nat) (bes : List (List α × PWT)) (T : List (List (TagNgramData α)))
    (hbes : ∀ e ∈ bes, e.2.tagInfo = [])
    (hT : ∀ i tm, T[i]? = some tm → ∀ d ∈ tm, ∀ w ∈ d.weights, w.weights.length = L i)
    (hok : pmaBuildOk ((Merge.mergeEntries PWT.add PWT.empty (addAll PWT.add (bes ++ tagEntries T) [])).map Prod.fst)
      = true) :
    (∀ (id : Nat) (e : List α × PWT), (Merge.mergeEntries PWT.add PWT.empty (addAll PWT.add (bes ++ tagEntries T) []))[id]? = some e →
      TIok L e.2.tagInfo ∧
      ∀ tid rel c, tval (tid, rel) c e.2.tagInfo = tagSum (T.getD tid []) rel e.1 c) ∧
    (∀ (i : Nat) (tm : List (TagNgramData α)) (d : TagNgramData α), T[i]? = some tm → d ∈ tm → d.weights ≠ [] →
      d.ngram ∈ (Merge.mergeEntries PWT.add PWT.empty (addAll PWT.add (bes ++ tagEntries T) [])).map Prod.fst) := by
  let P : List α → PWT → Prop := fun _ t => TIok L t.tagInfo
  have hent : ∀ e ∈ bes ++ tagEntries T, P e.1 e.2 := by
    intro e he
    rcases List.mem_append.mp he with he | he
    · show TIok L e.2.tagInfo
      rw [hbes e he]; exact TIok_nil L
    · obtain ⟨i, tm, d, w, hi, hd, hw, rfl⟩ := mem_tagEntries T e he
      exact TIok_single L _ _ (hT i tm hi d hd w hw)
  have hPs : ∀ (k : List α) (a b : PWT), P k a → P k b → P k (PWT.add a b) :=
    fun _ a b ha hb => PWT_add_ok L a b ha hb
  obtain ⟨hnd, hkeys, hP', _⟩ := addAll_correct PWT.add PWT.empty (fun t => tval (0, 0) 0 t.tagInfo) P hPs
    (fun _ a b ha hb => PWT_add_tval L (0, 0) 0 a b ha hb) (bes ++ tagEntries T) hent
  have hMk := Merge.mergeEntries_keys PWT.add PWT.empty (addAll PWT.add (bes ++ tagEntries T) [])
  rw [hMk] at hok
  obtain ⟨hne, _⟩ := pmaBuildOk_spec _ hok
  refine ⟨?_, ?_⟩
  · intro id e hid
    have hMnd : ((Merge.mergeEntries PWT.add PWT.empty (addAll PWT.add (bes ++ tagEntries T) [])).map Prod.fst).Nodup := by
      rw [hMk]; exact hnd
    have hlk := lookupD_getElem PWT.empty _ hMnd id e.1 e.2 hid
    have hmem : e.1 ∈ (addAll PWT.add (bes ++ tagEntries T) []).map Prod.fst := by
      rw [← hMk]; exact List.mem_map.mpr ⟨e, List.mem_of_getElem? hid, rfl⟩
    have hm0 := Merge.mergeEntries_correct PWT.add PWT.empty (fun t => tval (0, 0) 0 t.tagInfo) P
      (fun _ _ a b _ ha hb => PWT_add_ok L a b ha hb)
      (fun _ _ a b _ ha hb => PWT_add_tval L (0, 0) 0 a b ha hb) _ hnd hne hP' e.1 hmem
    refine ⟨by have := hm0.1; rw [hlk] at this; exact this, ?_⟩
    intro tid rel c
    have hm := Merge.mergeEntries_correct PWT.add PWT.empty (fun t => tval (tid, rel) c t.tagInfo) P
      (fun _ _ a b _ ha hb => PWT_add_ok L a b ha hb)
      (fun _ _ a b _ ha hb => PWT_add_tval L (tid, rel) c a b ha hb) _ hnd hne hP' e.1 hmem
    have hsum := (addAll_correct PWT.add PWT.empty (fun t => tval (tid, rel) c t.tagInfo) P hPs
      (fun _ a b ha hb => PWT_add_tval L (tid, rel) c a b ha hb) (bes ++ tagEntries T) hent).2.2.2
    have hreg := addAll_regroup PWT.add PWT.empty (fun t => tval (tid, rel) c t.tagInfo) (bes ++ tagEntries T)
      hnd hkeys hsum (fun q => q.isSuffixOf e.1)
    have h2 := hm.2
    rw [hlk] at h2
    rw [h2, hreg, List.filter_append, List.map_append, isum_append, tagEntries_sum]
    have hz : ((bes.filter fun e' => e'.1.isSuffixOf e.1).map fun e => tval (tid, rel) c e.2.tagInfo).sum = 0 := by
      apply isum_map_eq_zero
      intro x hx
      rw [hbes x (List.mem_filter.mp hx).1]
      exact tval_none _ _ _ rfl
    rw [hz]; omega
  · intro i tm d hi hd hw
    rw [hMk, hkeys]
    cases hws : d.weights with
    | nil => exact absurd hws hw
    | cons w ws =>
      have := tagEntries_mem T i tm d w hi hd (by rw [hws]; exact List.mem_cons_self)
      exact List.mem_map.mpr ⟨_, List.mem_append_right _ this, rfl⟩

end V.C06L
