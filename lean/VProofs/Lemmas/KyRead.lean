import VProofs.Lemmas.KyStrict
import VProofs.Lemmas.KySize
import VProofs.Lemmas.BinUtf8
/-!
# C17 — `readKytea` on the file of a well-formed description

`strict_kytea`: `readKytea (encodeKytea k ++ r) = .ok (reprKytea k, r)` and every proper prefix is rejected.
-/
namespace V.C17L
open V V.Ky
open V.Bin (Bytes leBytes leValue utf8Encode utf8Decode? utf8EncodeChar)

variable {α β : Type}

/-! ## delimiter-terminated fields -/

theorem splitAfter_not_mem {d : UInt8} : ∀ {p : Bytes}, d ∉ p → splitAfter d p = (p, []) := by
  intro p
  induction p with
  | nil => intro _; rfl
  | cons b r ih =>
    intro h
    simp only [List.mem_cons, not_or] at h
    have hb : ¬ b = d := fun e => h.1 e.symm
    simp only [splitAfter]
    rw [if_neg hb, ih h.2]

theorem splitAfter_delim {d : UInt8} : ∀ {c : Bytes} (r : Bytes), d ∉ c → splitAfter d (c ++ d :: r) = (c ++ [d], r) := by
  intro c
  induction c with
  | nil => intro r _; simp [splitAfter]
  | cons b t ih =>
    intro r h
    simp only [List.mem_cons, not_or] at h
    have hb : ¬ b = d := fun e => h.1 e.symm
    simp only [List.cons_append, splitAfter]
    rw [if_neg hb, ih r h.2]

theorem soft_until {d : UInt8} {c : Bytes} (hc : d ∉ c) (g : Bytes → Rd α) (v : α)
    (hv : ∀ r, g (c ++ [d]) r = .ok (v, r)) (hg : ∀ x, EmptySoft (g x)) :
    SoftAt (Rd.bind (readUntil d) g) v (c ++ [d]) := by
  constructor
  · intro r
    simp only [Rd.bind, readUntil, List.append_assoc, List.singleton_append, splitAfter_delim r hc]
    exact hv r
  · intro p hp hne
    have hpc : p <+: c := by
      rcases BinL.prefix_append_cases hp with ⟨h1, _⟩ | ⟨q, rfl, hq⟩
      · exact h1
      · rcases List.prefix_cons_iff.1 hq with rfl | ⟨t, rfl, ht⟩
        · simp
        · rw [List.prefix_nil.1 ht] at hne; exact absurd rfl hne
    have hdp : d ∉ p := by
      obtain ⟨t, rfl⟩ := hpc
      intro h; exact hc (List.mem_append_left _ h)
    have : Rd.bind (readUntil d) g p = g p [] := by
      simp only [Rd.bind, readUntil, splitAfter_not_mem hdp]
    rw [this]
    exact hg p

theorem tagLine_eq : tagLine = tagLine.dropLast ++ [10] := by decide

theorem soft_line : SoftAt readLine tagChars tagLine := by
  rw [tagLine_eq]
  unfold readLine
  refine soft_until (by decide) _ tagChars ?_ ?_
  · intro r
    have : utf8Decode? (tagLine.dropLast ++ [10]) = some tagChars := by decide
    simp only [this]; rfl
  · intro x
    cases h : utf8Decode? x with
    | none => exact Or.inl ⟨.io, rfl⟩
    | some s => exact Or.inr ⟨s, rfl⟩

theorem zero_not_mem_utf8EncodeChar {c : Char} (hc : c ≠ Char.ofNat 0) : (0 : UInt8) ∉ utf8EncodeChar c := by
  have hv : c.toNat < 0x110000 := by
    have := c.valid
    simp only [UInt32.isValidChar, Nat.isValidChar] at this
    have e : c.toNat = c.val.toNat := rfl
    omega
  have hne : c.toNat ≠ 0 := by
    intro h
    apply hc
    apply Char.toNat_inj.1
    rw [h]; rfl
  have key : ∀ x : Nat, x % 256 ≠ 0 → (0 : UInt8) ≠ UInt8.ofNat x := by
    intro x hx h
    have := congrArg UInt8.toNat h
    rw [BinL.ofNat_toNat] at this
    exact hx this.symm
  intro hmem
  simp only [utf8EncodeChar] at hmem
  split at hmem
  · simp only [List.mem_singleton] at hmem
    exact key _ (by omega) hmem
  · split at hmem
    · simp only [List.mem_cons, List.not_mem_nil, or_false] at hmem
      rcases hmem with h | h
      · exact key _ (by omega) h
      · exact key _ (by omega) h
    · split at hmem
      · simp only [List.mem_cons, List.not_mem_nil, or_false] at hmem
        rcases hmem with h | h | h
        · exact key _ (by omega) h
        · exact key _ (by omega) h
        · exact key _ (by omega) h
      · simp only [List.mem_cons, List.not_mem_nil, or_false] at hmem
        rcases hmem with h | h | h | h
        · exact key _ (by omega) h
        · exact key _ (by omega) h
        · exact key _ (by omega) h
        · exact key _ (by omega) h

theorem zero_not_mem_utf8Encode : ∀ {s : List Char}, Char.ofNat 0 ∉ s → (0 : UInt8) ∉ utf8Encode s := by
  intro s
  induction s with
  | nil => intro _; simp [utf8Encode]
  | cons c t ih =>
    intro h
    simp only [List.mem_cons, not_or] at h
    rw [BinL.utf8Encode_cons]
    intro hm
    rcases List.mem_append.1 hm with hm | hm
    · exact zero_not_mem_utf8EncodeChar (fun e => h.1 e.symm) hm
    · exact ih h.2 hm

theorem utf8Encode_append_nul (s : List Char) : utf8Encode (s ++ [Char.ofNat 0]) = utf8Encode s ++ [0] := by
  have : utf8EncodeChar (Char.ofNat 0) = [0] := by decide
  simp [utf8Encode, this]

theorem soft_charMap {cm : List Char} (h : Char.ofNat 0 ∉ cm) :
    SoftAt readCharMap (cm ++ [Char.ofNat 0]) (utf8Encode cm ++ [0]) := by
  unfold readCharMap
  refine soft_until (zero_not_mem_utf8Encode h) _ _ ?_ ?_
  · intro r
    have : utf8Decode? (utf8Encode cm ++ [0]) = some (cm ++ [Char.ofNat 0]) := by
      rw [← utf8Encode_append_nul, BinL.utf8Decode_encode]
    simp only [this]; rfl
  · intro x
    cases h : utf8Decode? x with
    | none => exact Or.inl ⟨.utf8, rfl⟩
    | some s => exact Or.inr ⟨s, rfl⟩

/-! ## the header -/

theorem strict_true : StrictAt readBool true (encU8 1) := strict_bool true
theorem strict_false : StrictAt readBool false (encU8 0) := strict_bool false

theorem soft_config (k : AbsKytea) (wf : WFKytea k) : SoftAt readConfig (reprConfig k) (encHeader k) := by
  have h : SoftAt readConfig (reprConfig k) (tagLine ++ (encU8 1 ++ (encU8 0 ++ (encU32 k.nTags ++ (encU8 k.charW ++
      (encU8 k.charN ++ (encU8 k.typeW ++ (encU8 k.typeN ++ (encU8 k.dictN ++ (encU8 1 ++ (epsilonBytes ++
      (encU8 1 ++ ((utf8Encode k.charMap ++ [0]) ++ []))))))))))))) := by
    unfold readConfig
    refine SoftAt.bind soft_line ?_ (fun _ => Or.inl ⟨.io, rfl⟩)
    refine SoftAt.bind strict_true.soft ?_ (fun _ => Or.inl ⟨.io, rfl⟩)
    refine SoftAt.bind strict_false.soft ?_ (fun _ => Or.inl ⟨.io, rfl⟩)
    refine SoftAt.bind (strict_u32 wf.nTags).soft ?_ (fun _ => Or.inl ⟨.io, rfl⟩)
    refine SoftAt.bind (strict_u8 wf.charW).soft ?_ (fun _ => Or.inl ⟨.io, rfl⟩)
    refine SoftAt.bind (strict_u8 wf.charN).soft ?_ (fun _ => Or.inl ⟨.io, rfl⟩)
    refine SoftAt.bind (strict_u8 wf.typeW).soft ?_ (fun _ => Or.inl ⟨.io, rfl⟩)
    refine SoftAt.bind (strict_u8 wf.typeN).soft ?_ (fun _ => Or.inl ⟨.io, rfl⟩)
    refine SoftAt.bind (strict_u8 wf.dictN.2).soft ?_ (fun _ => Or.inl ⟨.io, rfl⟩)
    refine SoftAt.bind strict_true.soft ?_ (fun _ => Or.inl ⟨.io, rfl⟩)
    refine SoftAt.bind (strict_f64 (b := epsilonBytes) rfl).soft ?_ (fun _ => Or.inl ⟨.io, rfl⟩)
    refine SoftAt.bind (strict_u8 (n := 1) (by decide)).soft ?_ (fun _ => Or.inr ⟨_, rfl⟩)
    refine SoftAt.bind (soft_charMap wf.mapNul) ?_ (fun _ => Or.inr ⟨_, rfl⟩)
    exact (StrictAt.pure _).soft
  exact h.congr (by simp [encHeader, List.append_assoc])

/-! ## counted repetition with re-packed values -/

theorem StrictAt.repMap {σ : Type} {d : Rd α} (enc : σ → Bytes) (val : σ → α) : ∀ (xs : List σ),
    (∀ x ∈ xs, StrictAt d (val x) (enc x)) → StrictAt (Rd.rep d xs.length) (xs.map val) (xs.flatMap enc) := by
  intro xs
  induction xs with
  | nil => intro _; exact StrictAt.pure []
  | cons x xs ih =>
    intro h
    simp only [List.length_cons, Rd.rep, List.flatMap_cons, List.map_cons]
    refine StrictAt.bind (h x (by simp)) ?_
    exact StrictAt.map _ (ih fun y hy => h y (by simp [hy]))

theorem strict_vecMap {σ : Type} {d : Rd α} (enc : σ → Bytes) (val : σ → α) (xs : List σ) (hlen : xs.length < 2 ^ 32)
    (h : ∀ x ∈ xs, StrictAt d (val x) (enc x)) : StrictAt (readVec d) (xs.map val) (encVecOf enc xs) :=
  StrictAt.bind (strict_u32 hlen) (StrictAt.repMap enc val xs h)

/-! ## dictionaries -/

theorem strict_goto {cm : List Char} (tail : List Char) {g : Char × Nat} (hc : g.1 ∈ cm) (hlen : cm.length < 65535)
    (hv : g.2 < 2 ^ 32) : StrictAt (readGoto (cm ++ tail)) g (encGoto cm g) := by
  unfold readGoto encGoto
  refine StrictAt.bind (strict_char tail hc hlen) ?_
  exact StrictAt.map (fun v => (g.1, v)) (strict_u32 hv)

theorem strict_state {cm : List Char} (tail : List Char) (st : KState) (hlen : cm.length < 65535)
    (hf : st.failure < 2 ^ 32) (hasc : CharAsc st.gotos) (hg : ∀ g ∈ st.gotos, g.1 ∈ cm ∧ g.2 < 2 ^ 32)
    (hgl : st.gotos.length < 2 ^ 32) (ho : ∀ o ∈ st.outputs, o < 2 ^ 32) (hol : st.outputs.length < 2 ^ 32) :
    StrictAt (readState (cm ++ tail)) st (encState cm st) := by
  suffices h : StrictAt (readState (cm ++ tail)) ⟨st.failure, sortGotos st.gotos.reverse, st.outputs, st.isBranch⟩
      (encU32 st.failure ++ (encVecOf (encGoto cm) st.gotos.reverse ++ (encVecOf encU32 st.outputs
        ++ (encU8 (if st.isBranch then 1 else 0) ++ [])))) by
    rw [sortGotos_reverse hasc] at h
    cases st
    exact h.congr (by simp [encState])
  unfold readState
  refine StrictAt.bind (strict_u32 hf) ?_
  refine StrictAt.bind (strict_vec (encGoto cm) st.gotos.reverse (by simpa using hgl) ?_) ?_
  · intro g hg'
    have := hg g (List.mem_reverse.1 hg')
    exact strict_goto tail this.1 hlen this.2
  refine StrictAt.bind (strict_vec encU32 st.outputs hol (fun o h => strict_u32 (ho o h))) ?_
  refine StrictAt.bind (strict_bool st.isBranch) ?_
  exact StrictAt.pure _

theorem strict_dict_none {τ : Type} (cm' : List Char) (rd : Rd τ) {nD : Nat} (h : nD < 256) :
    StrictAt (readDict cm' rd) none (encU8 nD ++ encU32 0) := by
  unfold readDict
  refine StrictAt.bind (strict_u8 h) ?_
  refine (StrictAt.bind (strict_u32 (n := 0) (by decide)) ?_).congr (List.append_nil _)
  exact StrictAt.pure none

theorem trieState_strict {cm : List Char} (tail : List Char) (keys : List (List Char)) (hlen : cm.length < 65535)
    (hkc : ∀ key ∈ keys, ∀ c ∈ key, c ∈ cm) (hkl : keys.length < 2 ^ 32) (hs : (trieStates keys).length < 2 ^ 32)
    (st : KState) (hst : st ∈ trieStates keys) : StrictAt (readState (cm ++ tail)) st (encState cm st) := by
  obtain ⟨i, hi⟩ := List.mem_iff_getElem?.1 hst
  have hasc := trieStates_asc keys i st hi
  obtain ⟨p, hp, rfl⟩ := trieStates_getElem? hi
  rw [trieStates_length] at hs
  refine strict_state tail _ hlen (by simp [trieState]) hasc ?_ ?_ ?_ ?_
  · intro g hg
    obtain ⟨hm, hi⟩ := mem_trieState_gotos.1 hg
    constructor
    · rcases mem_trieNodes.1 hm with h | ⟨key, hk, hpre⟩
      · simp at h
      · exact hkc key hk g.1 (hpre.subset (by simp))
    · rw [hi]
      have := List.idxOf_lt_length_of_mem hm
      omega
  · have h1 : (trieState keys (trieNodes keys) p).gotos.length = (childrenOf (trieNodes keys) p).length :=
      (sortGotos_perm _).length_eq
    have h2 : (childrenOf (trieNodes keys) p).length ≤ (trieNodes keys).length := List.length_filterMap_le _ _
    omega
  · intro o ho
    simp only [trieState] at ho
    cases hl : lastIdx p keys with
    | none => simp [hl] at ho
    | some e =>
      simp only [hl, List.mem_singleton] at ho
      subst ho
      have := (List.getElem?_eq_some_iff.1 (lastIdx_some hl)).1
      omega
  · simp only [trieState]
    cases hl : lastIdx p keys <;> simp

theorem strict_dict_some {σ τ : Type} {cm : List Char} (tail : List Char) (rd : Rd τ) (enc : σ → Bytes) (val : σ → τ)
    (nD : Nat) (keys : List (List Char)) (src : List σ) (hnD : nD < 256) (hlen : cm.length < 65535)
    (hk : keys.isEmpty = false) (hkc : ∀ key ∈ keys, ∀ c ∈ key, c ∈ cm) (hkl : keys.length < 2 ^ 32)
    (hs : (trieStates keys).length < 2 ^ 32) (hel : src.length < 2 ^ 32)
    (he : ∀ x ∈ src, StrictAt rd (val x) (enc x)) :
    StrictAt (readDict (cm ++ tail) rd) (some ⟨nD, trieStates keys, src.map val⟩) (encDict cm nD keys enc src) := by
  have hne : (trieStates keys).length ≠ 0 := by
    rw [trieStates_length]; have := trieNodes_length_pos keys; omega
  suffices h : StrictAt (readDict (cm ++ tail) rd) (some ⟨nD, trieStates keys, src.map val⟩)
      (encU8 nD ++ (encU32 (trieStates keys).length ++ ((trieStates keys).flatMap (encState cm)
        ++ (encVecOf enc src ++ [])))) by
    refine h.congr ?_
    simp only [encDict, hk, Bool.false_eq_true, if_false, List.append_assoc, List.append_nil]
  unfold readDict
  refine StrictAt.bind (strict_u8 hnD) ?_
  refine StrictAt.bind (strict_u32 hs) ?_
  have hbody : readDictBody (cm ++ tail) rd nD (trieStates keys).length
      = Rd.bind (Rd.rep (readState (cm ++ tail)) (trieStates keys).length) fun states =>
          Rd.bind (readVec rd) fun entries => Rd.pure (some { nDicts := nD, states, entries }) := by
    rw [readDictBody, if_neg hne]
  show StrictAt (readDictBody (cm ++ tail) rd nD (trieStates keys).length) _ _
  rw [hbody]
  refine StrictAt.bind (StrictAt.rep (encState cm) (trieStates keys) (trieState_strict tail keys hlen hkc hkl hs)) ?_
  refine StrictAt.bind (strict_vecMap enc val src hel he) ?_
  exact StrictAt.pure _

/-! ## the word-segmentation model -/

theorem isEmpty_map_false {γ δ : Type} {l : List γ} (f : γ → δ) (h : l ≠ []) : (l.map f).isEmpty = false := by
  cases l with
  | nil => exact absurd rfl h
  | cons a t => rfl

theorem strict_ngramDict (k : AbsKytea) (wf : WFKytea k) (tail : List Char)
    (w : Nat) (l : List (List Char × List Int)) (hne : l ≠ []) (hwf : ∀ e ∈ l, WFNgram k.charMap w e)
    (hs : (trieStates (l.map (·.1))).length ≤ (encodeKytea k).length) (hc : l.length ≤ (encodeKytea k).length)
    (hv : ∀ e ∈ l, e.2.length ≤ (encodeKytea k).length) :
    StrictAt (readDict (k.charMap ++ tail) (readVec readI16))
      (some ⟨0, trieStates (l.map (·.1)), l.map (·.2)⟩)
      (encDict k.charMap 0 (l.map (·.1)) encI16s (l.map (·.2))) := by
  have hsm := wf.small
  have := strict_dict_some (cm := k.charMap) tail (readVec readI16) encI16s id 0 (l.map (·.1)) (l.map (·.2))
    (by decide) wf.mapLen (isEmpty_map_false _ hne)
    (by
      intro key hk c hc
      obtain ⟨e, he, rfl⟩ := List.mem_map.1 hk
      exact (hwf e he).chars c hc)
    (by simp only [List.length_map]; omega) (by omega) (by simp only [List.length_map]; omega)
    (by
      intro v hv'
      obtain ⟨e, he, rfl⟩ := List.mem_map.1 hv'
      exact strict_i16s e.2 (hwf e he).i16 (by have := hv e he; omega))
  simpa only [List.map_id] using this

theorem strict_lookup (k : AbsKytea) (wf : WFKytea k) (tail : List Char) :
    StrictAt (readLookup (k.charMap ++ tail)) (some (reprLookup k)) (encLookup k) := by
  have S := sizes k wf.charSome wf.typeSome
  have hsm := wf.small
  have hval : some (reprLookup k) = some
      { charDict := some ⟨0, trieStates (k.charNgrams.map (·.1)), k.charNgrams.map (·.2)⟩
        typeDict := some ⟨0, trieStates (k.typeNgrams.map (·.1)), k.typeNgrams.map (·.2)⟩
        selfDict := none, dictVec := k.dictVec, biases := [k.bias], tagDictVec := [], tagUnkVec := [] } := by
    simp only [reprLookup, reprDict, isEmpty_map_false _ wf.charSome, isEmpty_map_false _ wf.typeSome,
      Bool.false_eq_true, if_false]
  rw [hval]
  suffices h : StrictAt (readLookup (k.charMap ++ tail)) _
      (encU8 1 ++ (encDict k.charMap 0 (k.charNgrams.map (·.1)) encI16s (k.charNgrams.map (·.2))
        ++ (encDict k.charMap 0 (k.typeNgrams.map (·.1)) encI16s (k.typeNgrams.map (·.2))
        ++ ((encU8 0 ++ encU32 0)
        ++ (encI16s k.dictVec ++ (encI16s [k.bias] ++ (encI16s [] ++ (encI16s [] ++ [])))))))) from
    h.congr (by simp [encLookup, encDict, List.append_assoc])
  unfold readLookup
  refine StrictAt.bind (strict_u8 (n := 1) (by decide)) ?_
  show StrictAt (readLookupBody (k.charMap ++ tail)) _ _
  unfold readLookupBody
  refine StrictAt.bind (strict_ngramDict k wf tail k.charW k.charNgrams wf.charSome wf.charNgrams S.cStates S.cCount
    S.cVec) ?_
  refine StrictAt.bind (strict_ngramDict k wf tail k.typeW k.typeNgrams wf.typeSome
    (fun e he => (wf.typeNgrams e he).1) S.tStates S.tCount S.tVec) ?_
  refine StrictAt.bind (strict_dict_none _ _ (nD := 0) (by decide)) ?_
  refine StrictAt.bind (strict_i16s k.dictVec wf.dictVec16 (by have := S.dictVec; omega)) ?_
  refine StrictAt.bind (strict_i16s [k.bias] (by simpa using wf.bias) (by simp)) ?_
  refine StrictAt.bind (strict_i16s [] (by simp) (by simp)) ?_
  refine StrictAt.bind (strict_i16s [] (by simp) (by simp)) ?_
  exact StrictAt.pure _

theorem strict_linear_none (cm' : List Char) : StrictAt (readLinear cm') none (encU32 0) := by
  unfold readLinear
  refine (StrictAt.bind (strict_u32 (n := 0) (by decide)) ?_).congr (List.append_nil _)
  exact StrictAt.pure none

theorem strict_wordseg (k : AbsKytea) (wf : WFKytea k) (tail : List Char) :
    StrictAt (readLinear (k.charMap ++ tail)) (some (reprWordseg k)) (encWordseg k) := by
  suffices h : StrictAt (readLinear (k.charMap ++ tail)) (some (reprWordseg k))
      (encU32 2 ++ (encU8 1 ++ (([1, 0xffffffff] : List Nat).flatMap encU32 ++ (encU8 1 ++ (oneBytes
        ++ (encLookup k ++ [])))))) from
    h.congr (by simp [encWordseg, List.append_assoc])
  unfold readLinear
  refine StrictAt.bind (strict_u32 (n := 2) (by decide)) ?_
  unfold readLinearBody
  rw [if_neg (by decide)]
  refine StrictAt.bind (strict_u8 (n := 1) (by decide)) ?_
  refine StrictAt.bind (StrictAt.rep encU32 [1, 0xffffffff] ?_) ?_
  · intro x hx
    simp only [List.mem_cons, List.not_mem_nil, or_false] at hx
    rcases hx with rfl | rfl <;> exact strict_u32 (by decide)
  refine StrictAt.bind strict_true ?_
  refine StrictAt.bind (strict_f64 (b := oneBytes) rfl) ?_
  refine StrictAt.bind (strict_lookup k wf tail) ?_
  exact StrictAt.pure _

/-! ## global tags, the dictionary of words -/

theorem strict_global (cm : List Char) (tail : List Char) :
    StrictAt (readGlobal (cm ++ tail)) ([], none) (encU32 0 ++ encU32 0) := by
  unfold readGlobal
  have h1 : StrictAt (readVec (readString (cm ++ tail))) [] (encU32 0) :=
    (strict_vec (fun _ => []) [] (by simp) (by simp)).congr (by simp [encVecOf])
  refine StrictAt.bind h1 ?_
  exact StrictAt.map (fun m => ([], m)) (strict_linear_none _)

theorem flatMap_congr' {γ δ : Type} {f g : γ → List δ} : ∀ {l : List γ}, (∀ x ∈ l, f x = g x) →
    l.flatMap f = l.flatMap g := by
  intro l
  induction l with
  | nil => intro _; rfl
  | cons a t ih =>
    intro h
    simp only [List.flatMap_cons]
    rw [h a (by simp), ih fun x hx => h x (by simp [hx])]

theorem strict_tagEntry (k : AbsKytea) (wf : WFKytea k) (tail : List Char) (e : List Char × Nat) (he : e ∈ k.words)
    (hwl : e.1.length < 2 ^ 32) :
    StrictAt (readTagEntry (k.charMap ++ tail) k.nTags) (reprTagEntry k e) (encTagEntry k e) := by
  obtain ⟨hchars, _, hmask⟩ := wf.words e he
  have hm : e.2 < 256 := by
    have h8 : 2 ^ k.nDicts ≤ 2 ^ 8 := Nat.pow_le_pow_right (by decide) wf.nDicts
    omega
  have hstr := strict_string tail e.1 hchars wf.mapLen hwl
  let slotEnc : List (List Char × Nat) → Bytes := encVecOf fun p => encStr k.charMap p.1 ++ encU8 p.2
  let slots : List (List (List Char × Nat)) := (List.range k.nTags).map fun t => if t = 0 then [(e.1, 1)] else []
  suffices h : StrictAt (readTagEntry (k.charMap ++ tail) k.nTags) (reprTagEntry k e)
      (encStr k.charMap e.1 ++ (slots.flatMap slotEnc ++ (encU8 e.2
        ++ ((List.range k.nTags).flatMap (fun _ => encU32 0) ++ [])))) by
    refine h.congr ?_
    simp only [encTagEntry, encTagSlots, List.append_assoc, List.append_nil, slots, List.flatMap_map]
    congr 2
    apply flatMap_congr'
    intro t _
    by_cases ht : t = 0
    · simp [ht, slotEnc, encVecOf]
    · simp [ht, slotEnc, encVecOf]
  unfold readTagEntry
  refine StrictAt.bind hstr ?_
  have hslots : StrictAt (Rd.rep (readVec (Rd.bind (readString (k.charMap ++ tail)) fun t =>
      Rd.bind readU8 fun td => Rd.pure (t, td))) k.nTags) slots (slots.flatMap slotEnc) := by
    have := StrictAt.rep (d := readVec (Rd.bind (readString (k.charMap ++ tail)) fun t =>
      Rd.bind readU8 fun td => Rd.pure (t, td))) slotEnc slots (by
        intro x hx
        refine strict_vec _ x ?_ ?_
        · obtain ⟨t, _, rfl⟩ := List.mem_map.1 hx
          by_cases ht : t = 0 <;> simp [ht]
        · intro p hp
          obtain ⟨t, _, rfl⟩ := List.mem_map.1 hx
          by_cases ht : t = 0
          · simp only [ht, if_true, List.mem_singleton] at hp
            subst hp
            refine StrictAt.bind hstr ?_
            exact StrictAt.map (fun td => (e.1, td)) (strict_u8 (n := 1) (by decide))
          · simp [ht] at hp)
    simpa only [slots, List.length_map, List.length_range] using this
  refine StrictAt.bind hslots ?_
  refine StrictAt.bind (strict_u8 hm) ?_
  refine StrictAt.bind (StrictAt.rep_const (strict_linear_none _) k.nTags) ?_
  exact StrictAt.pure _

theorem strict_wordDict (k : AbsKytea) (wf : WFKytea k) (tail : List Char) :
    StrictAt (readDict (k.charMap ++ tail) (readTagEntry (k.charMap ++ tail) k.nTags))
      (reprDict k.nDicts (k.words.map (·.1)) (k.words.map (reprTagEntry k)))
      (encDict k.charMap k.nDicts (k.words.map (·.1)) (encTagEntry k) k.words) := by
  have S := sizes k wf.charSome wf.typeSome
  have hsm := wf.small
  have hnD : k.nDicts < 256 := by have := wf.nDicts; omega
  by_cases hw : k.words = []
  · simp only [hw, List.map_nil, reprDict, encDict, List.isEmpty_nil, if_true]
    exact strict_dict_none _ _ hnD
  · have hk := isEmpty_map_false (fun x : List Char × Nat => x.1) hw
    simp only [reprDict, hk, Bool.false_eq_true, if_false]
    refine strict_dict_some tail _ (encTagEntry k) (reprTagEntry k) k.nDicts _ k.words hnD wf.mapLen hk ?_ ?_ ?_ ?_ ?_
    · intro key hkey c hc
      obtain ⟨e, he, rfl⟩ := List.mem_map.1 hkey
      exact (wf.words e he).1 c hc
    · have := S.wCount; simp only [List.length_map]; omega
    · have := S.wStates; omega
    · have := S.wCount; omega
    · intro e he
      exact strict_tagEntry k wf tail e he (by have := S.wLen e he; omega)

/-! ## the file -/

theorem strict_rest (k : AbsKytea) (wf : WFKytea k) :
    StrictAt (readRest (reprConfig k)) (reprKytea k)
      (encWordseg k ++ (encGlobals k ++ (encDict k.charMap k.nDicts (k.words.map (·.1)) (encTagEntry k) k.words
        ++ ((encU8 0 ++ encU32 0) ++ [])))) := by
  show StrictAt (Rd.bind (readLinear (k.charMap ++ [Char.ofNat 0])) fun wordseg =>
    Rd.bind (Rd.rep (readGlobal (k.charMap ++ [Char.ofNat 0])) k.nTags) fun globals =>
    Rd.bind (readDict (k.charMap ++ [Char.ofNat 0]) (readTagEntry (k.charMap ++ [Char.ofNat 0]) k.nTags)) fun dict =>
    Rd.bind (readDict (k.charMap ++ [Char.ofNat 0]) (readProbEntry (k.charMap ++ [Char.ofNat 0]) k.nTags)) fun subwordDict =>
    Rd.pure ({ config := reprConfig k, wordseg, globals, dict, subwordDict } : KyteaModel)) _ _
  refine StrictAt.bind (strict_wordseg k wf _) ?_
  refine StrictAt.bind (StrictAt.rep_const (strict_global k.charMap _) k.nTags) ?_
  refine StrictAt.bind (strict_wordDict k wf _) ?_
  refine StrictAt.bind (strict_dict_none _ _ (nD := 0) (by decide)) ?_
  exact StrictAt.pure _

/-- the reader returns the record structure of the description and the unread rest, and rejects every proper prefix -/
theorem strict_kytea (k : AbsKytea) (wf : WFKytea k) : StrictAt readKytea (reprKytea k) (encodeKytea k) := by
  have h := SoftAt.bind_strict (soft_config k wf) (strict_rest k wf) (fun _ => ⟨.io, rfl⟩)
  exact h.congr (by simp [encodeKytea, encDict, List.append_assoc])

end V.C17L
