import VProofs.Lemmas.ParserTotal
import VProofs.Lemmas.Iter
/-! Helper lemmas for C05: constructors and in-place updates agree, their results are consistent sentences,
and every accessor / writer works on a consistent sentence. -/
namespace V

/-- the five clauses of `Inv` (C05), as a conjunction usable before `Inv` is declared -/
def InvC (s : Sentence) : Prop :=
  s.text ≠ [] ∧ s.types = typesOf s.text ∧ s.bounds.length + 1 = s.text.length ∧
  s.tags.length = s.text.length * s.nTags ∧ (s.scores = [] ∨ s.padding + s.bounds.length ≤ s.scores.length)

theorem invC_default : InvC Sentence.default := by
  refine ⟨by simp [Sentence.default], by decide, rfl, rfl, Or.inl rfl⟩

theorem typesOf_length (t : List Char) : (typesOf t).length = t.length := by simp [typesOf]

theorem invC_resetTags (s : Sentence) (k : Nat) (h : InvC s) : InvC (s.resetTags k) := by
  obtain ⟨h1, h2, h3, _, h5⟩ := h
  refine ⟨h1, h2, h3, ?_, h5⟩
  simp only [Sentence.resetTags, List.length_replicate, h2, typesOf_length]
  exact Nat.mul_comm _ _

/-! ## a constructor and the matching in-place update, on one input -/

/-- joint behaviour of a constructor and the matching update on one input: both reject (the update then leaves the
default sentence and reports `false`), or both accept and produce the same consistent, score-free sentence -/
def Paired (ctor : Res Sentence) (upd : Sentence → Res (Sentence × Bool)) : Prop :=
  (∃ e, ctor = .err e ∧ ∀ s, upd s = .ok (Sentence.default, false)) ∨
  (∃ t, InvC t ∧ t.scores = [] ∧ ctor = .ok t ∧ ∀ s, upd s = .ok (t, true))

/-- the sentence both `from_raw` and `update_raw` build -/
def Sentence.mkRaw (x : List Char) : Sentence :=
  { Sentence.default with text := x, types := typesOf x, bounds := List.replicate (x.length - 1) B.U }

/-- the sentence both annotated constructors and updates build from an accepted parse -/
def Sentence.mkParsed (p : Parsed) : Sentence :=
  { Sentence.default with text := p.text, types := typesOf p.text, bounds := p.bounds, tags := p.tags,
                          nTags := p.tags.length / p.text.length }

theorem invC_mkRaw (x : List Char) (h : x ≠ []) : InvC (Sentence.mkRaw x) := by
  have hpos : 0 < x.length := List.length_pos_iff.mpr h
  refine ⟨h, rfl, ?_, rfl, Or.inl rfl⟩
  simp only [Sentence.mkRaw, List.length_replicate]
  omega

theorem invC_mkParsed (p : Parsed) (h : GoodParsed p) : InvC (Sentence.mkParsed p) :=
  ⟨h.text_ne, rfl, h.bounds_len, h.divTags.2, Or.inl rfl⟩

theorem parseRaw_cases (x : List Char) :
    (∃ e, parseRaw x = .err e) ∨ (x ≠ [] ∧ parseRaw x = .ok (typesOf x, List.replicate (x.length - 1) B.U)) := by
  unfold parseRaw
  split
  · exact Or.inl ⟨_, rfl⟩
  · split
    · exact Or.inl ⟨_, rfl⟩
    · next hne => exact Or.inr ⟨by simpa using hne, rfl⟩

theorem paired_raw (x : List Char) : Paired (Sentence.fromRaw x) (fun s => s.updateRaw x) := by
  rcases parseRaw_cases x with ⟨e, h⟩ | ⟨hne, h⟩
  · refine Or.inl ⟨e, ?_, fun s => ?_⟩
    · simp only [Sentence.fromRaw, h]
    · simp only [Sentence.updateRaw, h]; rfl
  · refine Or.inr ⟨Sentence.mkRaw x, invC_mkRaw x hne, rfl, ?_, fun s => ?_⟩
    · simp only [Sentence.fromRaw, h]; rfl
    · simp only [Sentence.updateRaw, h]; rfl

/-- the common tail of `from_tokenized` / `from_partial_annotation` -/
def ofParsedRes (r : Res Parsed) : Res Sentence :=
  match r with
  | .ok p => Sentence.ofParsed p
  | .err e => .err e
  | .panic s => .panic s
  | .ub s => .ub s

theorem paired_parsed (r : Res Parsed) (h : r.All GoodParsed) :
    Paired (ofParsedRes r) (fun s => s.updateParsed r) := by
  cases r with
  | ok p =>
    have hp : GoodParsed p := h
    refine Or.inr ⟨Sentence.mkParsed p, invC_mkParsed p hp, rfl, ?_, ?_⟩
    · simp only [ofParsedRes, Sentence.ofParsed, hp.divTags.1]
      rfl
    · intro s
      simp only [Sentence.updateParsed, hp.divTags.1]
      rfl
  | err e => exact Or.inl ⟨e, rfl, fun _ => rfl⟩
  | panic p => exact absurd h (by simp [Res.All])
  | ub p => exact absurd h (by simp [Res.All])

theorem paired_tokenized (x : List Char) : Paired (Sentence.fromTokenized x) (fun s => s.updateTokenized x) :=
  paired_parsed (parseTokenized x) (parseTokenized_all x)

theorem paired_partial (x : List Char) : Paired (Sentence.fromPartial x) (fun s => s.updatePartial x) :=
  paired_parsed (parsePartial x) (parsePartial_all x)

/-! consequences of `Paired` -/

section
variable {ctor : Res Sentence} {upd : Sentence → Res (Sentence × Bool)}

theorem Paired.ctor_safe (h : Paired ctor upd) : ctor.Safe := by
  rcases h with ⟨e, h1, _⟩ | ⟨t, _, _, h1, _⟩ <;> rw [h1] <;> trivial

theorem Paired.upd_safe (h : Paired ctor upd) (s : Sentence) : (upd s).Safe := by
  rcases h with ⟨e, _, h2⟩ | ⟨t, _, _, _, h2⟩ <;> rw [h2] <;> trivial

theorem Paired.upd_returns (h : Paired ctor upd) (s : Sentence) : ∃ s' ok, upd s = .ok (s', ok) := by
  rcases h with ⟨e, _, h2⟩ | ⟨t, _, _, _, h2⟩
  · exact ⟨_, _, h2 s⟩
  · exact ⟨_, _, h2 s⟩

theorem Paired.err_default (h : Paired ctor upd) {s s' : Sentence} (hs : upd s = .ok (s', false)) :
    s' = Sentence.default := by
  rcases h with ⟨e, _, h2⟩ | ⟨t, _, _, _, h2⟩
  · rw [h2] at hs
    injection hs with hs
    injection hs with hs _
    exact hs.symm
  · rw [h2] at hs
    injection hs with hs
    injection hs with _ hs
    cases hs

theorem Paired.ok_describes (h : Paired ctor upd) {s s' : Sentence} (hs : upd s = .ok (s', true)) :
    ctor = .ok s' := by
  rcases h with ⟨e, _, h2⟩ | ⟨t, _, _, h1, h2⟩
  · rw [h2] at hs
    injection hs with hs
    injection hs with _ hs
    cases hs
  · rw [h2] at hs
    injection hs with hs
    injection hs with hs _
    rw [← hs]; exact h1

theorem Paired.ctor_inv (h : Paired ctor upd) {s : Sentence} (hs : ctor = .ok s) : InvC s ∧ s.scores = [] := by
  rcases h with ⟨e, h1, _⟩ | ⟨t, hi, hsc, h1, _⟩
  · rw [h1] at hs; cases hs
  · rw [h1] at hs
    injection hs with hs
    rw [← hs]; exact ⟨hi, hsc⟩

theorem Paired.step_inv (h : Paired ctor upd) {s s' : Sentence} {ok : Bool} (hs : upd s = .ok (s', ok)) :
    InvC s' := by
  rcases h with ⟨e, _, h2⟩ | ⟨t, hi, _, _, h2⟩
  · rw [h2] at hs
    injection hs with hs
    injection hs with hs _
    rw [← hs]; exact invC_default
  · rw [h2] at hs
    injection hs with hs
    injection hs with hs _
    rw [← hs]; exact hi
end

/-! ## tokens are in range for arbitrary label vectors -/

theorem specSeg_range (rest : List B) :
    ∀ (start pos : Nat) (dirty : Bool), start ≤ pos →
      ∀ se ∈ specSeg rest start pos dirty, se.1 < se.2 ∧ se.2 ≤ pos + rest.length + 1 := by
  induction rest with
  | nil =>
    intro start pos dirty h se hse
    cases dirty
    · simp only [specSeg, Bool.false_eq_true, if_false, List.mem_singleton] at hse
      subst hse
      simp only [List.length_nil]
      omega
    · simp [specSeg] at hse
  | cons b r ih =>
    intro start pos dirty h se hse
    simp only [List.length_cons]
    cases b with
    | N =>
      simp only [specSeg] at hse
      have := ih start (pos + 1) dirty (by omega) se hse
      omega
    | U =>
      simp only [specSeg] at hse
      have := ih start (pos + 1) true (by omega) se hse
      omega
    | W =>
      simp only [specSeg, List.mem_append] at hse
      rcases hse with hse | hse
      · cases dirty
        · simp only [Bool.false_eq_true, if_false, List.mem_singleton] at hse
          subst hse
          simp only
          omega
        · simp at hse
      · have := ih (pos + 1) (pos + 1) false (Nat.le_refl _) se hse
        omega

theorem iterTokens_range (bs : List B) (se : Nat × Nat) (h : se ∈ iterTokens bs) :
    se.1 < se.2 ∧ se.2 ≤ bs.length + 1 := by
  rw [iterTokens_eq_spec] at h
  have := specSeg_range bs 0 0 false (Nat.le_refl _) se h
  omega

/-! ## accessors and writers on a consistent sentence -/

theorem substring_safe (s : Sentence) (st en : Nat) (h1 : st ≤ en) (h2 : en ≤ s.text.length) :
    (s.substring st en).Safe := by
  unfold Sentence.substring
  rw [if_pos ⟨h1, h2⟩]
  trivial

theorem tokenTags_safe (s : Sentence) (en : Nat) (h0 : 0 < en) (h1 : en ≤ s.text.length)
    (ht : s.tags.length = s.text.length * s.nTags) : (s.tokenTags en).Safe := by
  unfold Sentence.tokenTags
  rw [if_neg (by omega), if_pos (by rw [ht]; exact Nat.mul_le_mul_right _ h1)]
  trivial

theorem token_safe (s : Sentence) (h : InvC s) (se : Nat × Nat) (hse : se ∈ iterTokens s.bounds) :
    (s.substring se.1 se.2).Safe ∧ (s.tokenTags se.2).Safe := by
  obtain ⟨_, _, h3, h4, _⟩ := h
  have := iterTokens_range s.bounds se hse
  exact ⟨substring_safe s _ _ (by omega) (by omega), tokenTags_safe s _ (by omega) (by omega) h4⟩

theorem writeTokBody_safe (s : Sentence) (l : List (Nat × Nat))
    (h : ∀ se ∈ l, (s.substring se.1 se.2).Safe ∧ (s.tokenTags se.2).Safe) (first : Bool) :
    (writeTokBody s l first).Safe := by
  induction l generalizing first with
  | nil => trivial
  | cons x r ih =>
    obtain ⟨st, en⟩ := x
    obtain ⟨hs, ht⟩ := h (st, en) (by simp)
    have hr := ih (fun se hse => h se (by simp [hse])) false
    simp only at hs ht
    unfold writeTokBody
    cases h1 : s.substring st en with
    | ok surf =>
      simp only
      cases h2 : s.tokenTags en with
      | ok ts =>
        simp only
        cases h3 : writeTokBody s r false with
        | ok rest => trivial
        | err e => trivial
        | panic p => rw [h3] at hr; exact hr
        | ub p => rw [h3] at hr; exact hr
      | err e => trivial
      | panic p => rw [h2] at ht; exact ht
      | ub p => rw [h2] at ht; exact ht
    | err e => trivial
    | panic p => rw [h1] at hs; exact hs
    | ub p => rw [h1] at hs; exact hs

theorem writeTokenized_safe (s : Sentence) (h : InvC s) : s.writeTokenized.Safe :=
  writeTokBody_safe s _ (token_safe s h) true

theorem chunks_ne_nil (n : Nat) (xs : List Tag) (h0 : xs ≠ []) (h : n ≤ xs.length) : chunks n xs ≠ [] := by
  unfold chunks
  cases xs with
  | nil => exact absurd rfl h0
  | cons x r =>
    simp only [List.length_cons, chunksExact]
    rw [if_pos (by simpa using h)]
    simp

theorem writePartial_safe (s : Sentence) (h : InvC s) : s.writePartial.Safe := by
  obtain ⟨h1, _, _, h4, _⟩ := h
  unfold Sentence.writePartial
  cases ht : s.text with
  | nil => exact absurd ht h1
  | cons c cs =>
    simp only
    split
    · next hn =>
      have hpos : 0 < s.text.length := List.length_pos_iff.mpr h1
      have hle : s.nTags ≤ s.tags.length := by rw [h4]; exact Nat.le_mul_of_pos_left _ hpos
      have hne : s.tags ≠ [] := by
        intro e
        rw [e] at hle
        simp at hle
        exact hn hle
      have := chunks_ne_nil s.nTags s.tags hne hle
      cases hc : chunks s.nTags s.tags with
      | nil => exact absurd hc this
      | cons ts tss => trivial
    · trivial

theorem boundaryScores_safe (s : Sentence) (h : InvC s) : s.boundaryScores.Safe := by
  obtain ⟨_, _, _, _, h5⟩ := h
  unfold Sentence.boundaryScores
  split
  · trivial
  · next hne =>
    rcases h5 with h5 | h5
    · rw [h5] at hne; simp at hne
    · rw [if_pos h5]; trivial

end V
