import VModel.Trainer
import VModel.Spec
/-!
# Helper lemmas for C12: `collectTags`, `firstMax`, `specPickTags`
-/
namespace V.C12L

/-- one step of the per-category fold of `collectTags` -/
def cstep (j : Nat) (acc : List (List Char)) (ts : List Tag) : List (List Char) :=
  match ts[j]? with
  | some (some t) => if acc.contains t then acc else acc ++ [t]
  | _ => acc

theorem collectTags_eq (examples : List (List Tag)) :
    collectTags examples =
      (List.range (examples.foldl (fun acc x => max acc x.length) 0)).map fun j => examples.foldl (cstep j) [] := rfl

theorem cstep_inv (j : Nat) (acc : List (List Char)) (ts : List Tag) (hnd : acc.Nodup) :
    (cstep j acc ts).Nodup ∧ ∀ t, t ∈ cstep j acc ts ↔ t ∈ acc ∨ ts[j]? = some (some t) := by
  unfold cstep
  cases h : ts[j]? with
  | none => simp [hnd]
  | some o =>
    cases o with
    | none => simp [hnd]
    | some t0 =>
      by_cases hc : acc.contains t0 = true
      · simp only [if_pos hc]
        refine ⟨hnd, fun t => ⟨Or.inl, fun h => ?_⟩⟩
        rcases h with h | h
        · exact h
        · simp only [Option.some.injEq] at h
          subst h
          simpa using hc
      · simp only [if_neg hc]
        have hc' : t0 ∉ acc := by simpa using hc
        refine ⟨?_, fun t => ?_⟩
        · rw [List.nodup_append]
          refine ⟨hnd, by simp, ?_⟩
          intro a ha b hb
          simp only [List.mem_singleton] at hb
          subst hb
          intro hab
          subst hab
          exact hc' ha
        · simp only [List.mem_append, List.mem_singleton, Option.some.injEq]
          constructor
          · rintro (h | h)
            · exact Or.inl h
            · exact Or.inr h.symm
          · rintro (h | h)
            · exact Or.inl h
            · exact Or.inr h.symm

theorem cfold_inv (j : Nat) (l : List (List Tag)) : ∀ (acc : List (List Char)), acc.Nodup →
    (l.foldl (cstep j) acc).Nodup ∧
      ∀ t, t ∈ l.foldl (cstep j) acc ↔ t ∈ acc ∨ ∃ ts ∈ l, ts[j]? = some (some t) := by
  induction l with
  | nil => intro acc hnd; simp [hnd]
  | cons x r ih =>
    intro acc hnd
    have h1 := cstep_inv j acc x hnd
    have h2 := ih (cstep j acc x) h1.1
    simp only [List.foldl_cons]
    refine ⟨h2.1, fun t => ?_⟩
    rw [h2.2 t, h1.2 t]
    simp only [List.mem_cons, exists_eq_or_imp]
    constructor
    · rintro ((h | h) | h)
      · exact Or.inl h
      · exact Or.inr (Or.inl h)
      · exact Or.inr (Or.inr h)
    · rintro (h | h | h)
      · exact Or.inl (Or.inl h)
      · exact Or.inl (Or.inr h)
      · exact Or.inr h

theorem foldl_max_ge (l : List (List Tag)) : ∀ (acc : Nat),
    acc ≤ l.foldl (fun acc x => max acc x.length) acc ∧
      ∀ x ∈ l, x.length ≤ l.foldl (fun acc x => max acc x.length) acc := by
  induction l with
  | nil => intro acc; simp
  | cons y r ih =>
    intro acc
    have h := ih (max acc y.length)
    simp only [List.foldl_cons, List.mem_cons]
    refine ⟨by omega, ?_⟩
    rintro x (hx | hx)
    · subst hx; omega
    · exact h.2 x hx

theorem collectTags_length (examples : List (List Tag)) :
    (collectTags examples).length = examples.foldl (fun acc x => max acc x.length) 0 := by
  rw [collectTags_eq]; simp

theorem collectTags_getD (examples : List (List Tag)) (j : Nat) :
    (collectTags examples).getD j [] =
      if j < examples.foldl (fun acc x => max acc x.length) 0 then examples.foldl (cstep j) [] else [] := by
  rw [collectTags_eq, List.getD_eq_getElem?_getD, List.getElem?_map]
  by_cases h : j < examples.foldl (fun acc x => max acc x.length) 0
  · rw [List.getElem?_range h]; simp [h]
  · rw [List.getElem?_eq_none (by simpa using h)]; simp [h]

theorem collectTags_spec (examples : List (List Tag)) :
    (∀ c ∈ collectTags examples, c.Nodup) ∧
    (collectTags examples).length = examples.foldl (fun acc x => max acc x.length) 0 ∧
    ∀ (j : Nat) (t : List Char), t ∈ (collectTags examples).getD j [] ↔ ∃ ts ∈ examples, ts[j]? = some (some t) := by
  refine ⟨?_, collectTags_length examples, ?_⟩
  · intro c hc
    rw [collectTags_eq, List.mem_map] at hc
    obtain ⟨j, _, rfl⟩ := hc
    exact (cfold_inv j examples [] List.nodup_nil).1
  · intro j t
    rw [collectTags_getD]
    by_cases h : j < examples.foldl (fun acc x => max acc x.length) 0
    · simp only [h, if_true]
      rw [(cfold_inv j examples [] List.nodup_nil).2 t]
      simp
    · simp only [h, if_false]
      constructor
      · intro h'; cases h'
      · rintro ⟨ts, hts, hj⟩
        exfalso
        have := (foldl_max_ge examples 0).2 ts hts
        have hlt : j < ts.length := by
          rcases Nat.lt_or_ge j ts.length with h1 | h1
          · exact h1
          · rw [List.getElem?_eq_none h1] at hj; cases hj
        omega

/-! ## `firstMax` and `specPickTags` -/

theorem firstMax_lt : ∀ (l : List Int), l ≠ [] → firstMax l < l.length
  | [], h => absurd rfl h
  | x :: r, _ => by
    unfold firstMax
    by_cases ha : (r.all fun y => decide (y ≤ x)) = true
    · simp [ha]
    · simp only [ha]
      have hr : r ≠ [] := by
        intro h; subst h; simp at ha
      have := firstMax_lt r hr
      simp only [List.length_cons, Bool.false_eq_true, if_false]; omega

theorem firstMax_lt' (l : List Int) : firstMax l < max l.length 1 := by
  cases l with
  | nil => simp [firstMax]
  | cons x r => have := firstMax_lt (x :: r) (by simp); omega

theorem pick_spec : ∀ (cats : List (List (List Char))) (scores : List Int) (j : Nat) (cands : List (List Char)),
    cats[j]? = some cands →
    ∃ r, (specPickTags cats scores)[j]? = some r ∧
      (cands = [] → r = none) ∧
      (∀ t, cands = [t] → r = some t) ∧
      (2 ≤ cands.length → ∃ t ∈ cands, r = some t)
  | [], _, _, _, hj => by simp at hj
  | c0 :: rest, scores, 0, cands, hj => by
    simp only [List.getElem?_cons_zero, Option.some.injEq] at hj
    subst hj
    unfold specPickTags
    by_cases h2 : 2 ≤ c0.length
    · simp only [if_pos h2, List.getElem?_cons_zero]
      refine ⟨_, rfl, ?_, ?_, ?_⟩
      · intro h; subst h; simp at h2
      · intro t h; subst h; simp at h2
      · intro _
        have hlt : firstMax (scores.take c0.length) < c0.length := by
          have := firstMax_lt' (scores.take c0.length)
          have hl : (scores.take c0.length).length ≤ c0.length := by
            rw [List.length_take]; omega
          omega
        refine ⟨_, ?_, rfl⟩
        rw [List.getD_eq_getElem?_getD, List.getElem?_eq_getElem hlt]
        exact List.getElem_mem hlt
    · simp only [if_neg h2, List.getElem?_cons_zero]
      refine ⟨_, rfl, ?_, ?_, ?_⟩
      · intro h; subst h; rfl
      · intro t h; subst h; rfl
      · intro h; exact absurd h h2
  | c0 :: rest, scores, j + 1, cands, hj => by
    simp only [List.getElem?_cons_succ] at hj
    unfold specPickTags
    by_cases h2 : 2 ≤ c0.length
    · simp only [if_pos h2, List.getElem?_cons_succ]
      exact pick_spec rest _ j cands hj
    · simp only [if_neg h2, List.getElem?_cons_succ]
      exact pick_spec rest _ j cands hj

end V.C12L
