import VModel.Spec
import VProofs.Lemmas.ScoreBoundMain
import VProofs.Lemmas.TagBoundMerge
import VProofs.Lemmas.TagWindow0
/-!
# What `Predictor.new` builds for tag prediction stays within the tag mass of the model (for the C06 overflow bound)

The tag-aware scorers (`CharScorerBoundaryTag::new`, `TypeScorerBoundaryTag::new`): the merger run with the checked
`PositionalWeightWithTag::add_assign` (`okWT`), the `tag_weight` tables filled from the merged `tag_info` maps, and the bias
vectors of the tag predictors.
-/
namespace V

/-- every coordinate of every weight vector of the table `tag_weight[token_id][rel_position]` (zero padding of the fixed layout
included) satisfies `Q`; vacuous for a scorer without the table -/
def PmaScorer.tagWeightsIn {α : Type} (Q : Int → Bool) (sc : PmaScorer α) : Prop :=
  ∀ tw, sc.tagWeight = some tw → ∀ row ∈ tw, ∀ cl ∈ row, ∀ e ∈ cl, ∀ x ∈ e.2.toList, Q x = true

/-- `sc` is the scorer that `…BoundaryTag::new` (character window or type window `window`, `n` tag models) builds from the entries
`es`: patterns and boundary weights as in `BuiltFrom`, and the table `tag_weight` is the one `fillTagWeights` produces from the
merged entries, starting from `n` rows of `nRelOf window …` empty cells each -/
def TagBuiltFrom {α : Type} [DecidableEq α] (cfg : Cfg) (window n : Nat) (es : List (List α × PWT)) (sc : PmaScorer α) : Prop :=
  BuiltFrom cfg PWT.add PWT.empty PWT.weight es sc ∧
  ∃ tw, sc.tagWeight = some tw ∧
    fillTagWeights cfg (Merge.mergeEntries PWT.add PWT.empty (addAll PWT.add es [])) 0
      (List.replicate n (List.replicate (C06L.nRelOf window (addAll PWT.add es [])) ([] : List (Nat × WV)))) = .ok tw

/-- `sc` is built from the entries `es`, and both phases of the weight merger, run with a `PositionalWeightWithTag::add_assign`
that tests every boundary coordinate of its result with `P` and every coordinate of every vector of its `tag_info` map with `Q`
(`okWT`; a failed test poisons the weight for good), never trip the test -/
def TagMergerIn {α : Type} [DecidableEq α] (P Q : Int → Bool) (cfg : Cfg) (window n : Nat) (es : List (List α × PWT))
    (sc : PmaScorer α) : Prop :=
  TagBuiltFrom cfg window n es sc ∧
  addAll (Merge.addC (okWT P Q) PWT.add) (Merge.liftE es) [] = Merge.liftE (addAll PWT.add es []) ∧
  Merge.mergeEntries (Merge.addC (okWT P Q) PWT.add) none (Merge.liftE (addAll PWT.add es []))
    = Merge.liftE (Merge.mergeEntries PWT.add PWT.empty (addAll PWT.add es []))

/-- all `i32` values `Predictor::new(model, true)` holds for tag prediction satisfy `Q` (and the boundary values it adds up in the
same `+=` satisfy `P`); `m0` is the model with the switched-off boundary n-grams dropped (same tag models) -/
def TagBuildWithin (P Q : Int → Bool) (cfg : Cfg) (m0 : WModel) (p : Predictor) : Prop :=
  (∀ tpm, p.tagPredictor = some tpm → ∀ e ∈ tpm, ∀ x ∈ e.2.2.bias.toList, Q x = true) ∧
  (∀ sc, p.charScorer = some sc → sc.tagWeightsIn Q ∧
    ((m0.tagModels = [] ∧ sc.tagWeight = none) ∨
     TagMergerIn P Q cfg m0.charW m0.tagModels.length (charEntriesT m0 (m0.tagModels.map (·.charNgrams))) sc)) ∧
  (∀ sc, p.typeScorer = some (.pma sc) → sc.tagWeightsIn Q ∧
    ((m0.tagModels = [] ∧ sc.tagWeight = none) ∨
     TagMergerIn P Q cfg m0.typeW m0.tagModels.length (typeEntriesT m0 (m0.tagModels.map (·.typeNgrams))) sc))

namespace C06B
open C01L C01B C06L Merge
variable {α : Type} [DecidableEq α]

/-! ## what the builders return -/

theorem buildBoundaryTag_fill (cfg : Cfg) (window n : Nat) (entries : List (List α × PWT)) (sc : PmaScorer α)
    (h : buildBoundaryTag cfg window n entries = .ok sc) :
    ∃ tw, sc.tagWeight = some tw ∧
      fillTagWeights cfg (Merge.mergeEntries PWT.add PWT.empty entries) 0
        (List.replicate n (List.replicate (nRelOf window entries) ([] : List (Nat × WV)))) = .ok tw := by
  unfold buildBoundaryTag at h
  simp only at h
  split at h
  · rename_i tw hfill
    split at h
    · simp only [Res.ok.injEq] at h
      subst h
      exact ⟨tw, rfl, hfill⟩
    · cases h
  · cases h
  · cases h
  · cases h

theorem buildBoundary_noTag (cfg : Cfg) (entries : List (List α × PW)) (sc : PmaScorer α)
    (h : buildBoundary cfg entries = .ok sc) : sc.tagWeight = none := by
  unfold buildBoundary at h
  simp only at h
  split at h
  · simp only [Res.ok.injEq] at h
    subst h
    rfl
  · cases h

theorem isEmpty_false_of_ne {β : Type} (T : List β) (h : T ≠ []) : T.isEmpty = false := by
  cases T with
  | nil => exact absurd rfl h
  | cons _ _ => rfl

theorem charScorerNew_tagBuilt_gen (cfg : Cfg) (hcfg : cfg.tagPred = true) (m : WModel)
    (T : List (List (TagNgramData Char))) (sc : PmaScorer Char)
    (h : charScorerNew cfg m T = .ok (some sc)) (hE : m.charW = 0 → m.charNgrams = []) :
    (T = [] ∧ sc.tagWeight = none) ∨
    TagBuiltFrom cfg m.charW T.length (charEntriesTOf m.charW m.charNgrams m.dict T) sc := by
  simp only [charScorerNew, charModel_if m hE] at h
  split at h
  · cases h
  · split at h
    · cases h
    · split at h
      · obtain ⟨sc', hsc, hcs'⟩ := res_map_ok _ _ _ h
        simp only [Option.some.injEq] at hcs'
        subst hcs'
        right
        exact ⟨buildBoundaryTag_ok cfg _ _ _ sc hsc, buildBoundaryTag_fill cfg _ _ _ sc hsc⟩
      · rename_i hcond
        obtain ⟨sc', hsc, hcs'⟩ := res_map_ok _ _ _ h
        simp only [Option.some.injEq] at hcs'
        subst hcs'
        left
        refine ⟨?_, buildBoundary_noTag cfg _ sc hsc⟩
        cases T with
        | nil => rfl
        | cons _ _ => simp [hcfg] at hcond

theorem charScorerNew_tagBuilt (cfg : Cfg) (hcfg : cfg.tagPred = true) (m : WModel)
    (T : List (List (TagNgramData Char))) (sc : PmaScorer Char)
    (h : charScorerNew cfg m T = .ok (some sc)) :
    (T = [] ∧ sc.tagWeight = none) ∨
    TagBuiltFrom cfg m.charW T.length
      (charEntriesTOf m.charW (if m.charW = 0 then [] else m.charNgrams) m.dict T) sc := by
  by_cases h0 : m.charW = 0
  · rw [charScorerNew_drop cfg m T h0] at h
    rw [if_pos h0]
    exact charScorerNew_tagBuilt_gen cfg hcfg { m with charNgrams := [] } T sc h (fun _ => rfl)
  · rw [if_neg h0]
    exact charScorerNew_tagBuilt_gen cfg hcfg m T sc h (fun h => absurd h h0)

theorem typeScorerNew_tagBuilt_gen (cfg : Cfg) (hcfg : cfg.tagPred = true) (m : WModel)
    (T : List (List (TagNgramData Nat))) (sc : PmaScorer Nat)
    (h : typeScorerNew cfg m T = .ok (some (.pma sc))) (hE : m.typeW = 0 → m.typeNgrams = []) :
    (T = [] ∧ sc.tagWeight = none) ∨
    TagBuiltFrom cfg m.typeW T.length (typeEntriesTOf m.typeW m.typeNgrams T) sc := by
  simp only [typeScorerNew, typeModel_if m hE] at h
  split at h
  · cases h
  · split at h
    · obtain ⟨sc', hsc, hcs'⟩ := res_map_ok _ _ _ h
      simp only [Option.some.injEq, TypeScorer.pma.injEq] at hcs'
      subst hcs'
      right
      exact ⟨buildBoundaryTag_ok cfg _ _ _ sc hsc, buildBoundaryTag_fill cfg _ _ _ sc hsc⟩
    · rename_i hcond
      have hT : T = [] := by
        cases T with
        | nil => rfl
        | cons _ _ => simp [hcfg] at hcond
      split at h
      · split at h
        · simp only [Res.ok.injEq, Option.some.injEq] at h
          cases h
        · cases h
      · obtain ⟨sc', hsc, hcs'⟩ := res_map_ok _ _ _ h
        simp only [Option.some.injEq, TypeScorer.pma.injEq] at hcs'
        subst hcs'
        left
        exact ⟨hT, buildBoundary_noTag cfg _ sc hsc⟩

theorem typeScorerNew_tagBuilt (cfg : Cfg) (hcfg : cfg.tagPred = true) (m : WModel)
    (T : List (List (TagNgramData Nat))) (sc : PmaScorer Nat)
    (h : typeScorerNew cfg m T = .ok (some (.pma sc))) :
    (T = [] ∧ sc.tagWeight = none) ∨
    TagBuiltFrom cfg m.typeW T.length (typeEntriesTOf m.typeW (if m.typeW = 0 then [] else m.typeNgrams) T) sc := by
  by_cases h0 : m.typeW = 0
  · rw [typeScorerNew_drop cfg m T h0] at h
    rw [if_pos h0]
    exact typeScorerNew_tagBuilt_gen cfg hcfg { m with typeNgrams := [] } T sc h (fun _ => rfl)
  · rw [if_neg h0]
    exact typeScorerNew_tagBuilt_gen cfg hcfg m T sc h (fun h => absurd h h0)

/-! ## filling the table -/

/-- all coordinates of all vectors of a table satisfy `Q` -/
def TWIn (Q : Int → Bool) (tw : TW) : Prop := ∀ row ∈ tw, ∀ cl ∈ row, ∀ e ∈ cl, ∀ x ∈ e.2.toList, Q x = true

theorem ofList_toList_mem (cfg : Cfg) (w : List Int) (x : Int) (hx : x ∈ (WV.ofList cfg w).toList) : x ∈ w ∨ x = 0 := by
  unfold WV.ofList at hx
  split at hx
  · simp only [WV.toList, List.mem_append, List.mem_replicate] at hx
    rcases hx with hx | hx
    · exact Or.inl hx
    · exact Or.inr hx.2
  · exact Or.inl hx

theorem insert_within (Q : Int → Bool) (h0 : Q 0 = true) (cfg : Cfg) (id : Nat) (info : TI) :
    (∀ kv ∈ info, ∀ x ∈ kv.2, Q x = true) →
    ∀ (tw tw' : TW), insertTagWeights cfg id info tw = .ok tw' → TWIn Q tw → TWIn Q tw' := by
  induction info with
  | nil =>
    intro _ tw tw' h hin
    simp only [insertTagWeights, Res.ok.injEq] at h
    subst h; exact hin
  | cons kv r ih =>
    obtain ⟨⟨tid, rel⟩, w⟩ := kv
    intro hinfo tw tw' h hin
    simp only [insertTagWeights] at h
    split at h
    · cases h
    · rename_i row hrow
      split at h
      · cases h
      · rename_i m hm
        refine ih (fun kv hkv => hinfo kv (List.mem_cons_of_mem _ hkv)) _ tw' h ?_
        intro row' hrow' cl hcl e he x hx
        rcases List.mem_or_eq_of_mem_set hrow' with h1 | h1
        · exact hin row' h1 cl hcl e he x hx
        · subst h1
          rcases List.mem_or_eq_of_mem_set hcl with h2 | h2
          · exact hin row (List.mem_of_getElem? hrow) cl h2 e he x hx
          · subst h2
            rcases List.mem_append.mp he with h3 | h3
            · exact hin row (List.mem_of_getElem? hrow) m (List.mem_of_getElem? hm) e h3 x hx
            · simp only [List.mem_singleton] at h3
              subst h3
              rcases ofList_toList_mem cfg w x hx with h4 | h4
              · exact hinfo ((tid, rel), w) List.mem_cons_self x h4
              · rw [h4]; exact h0

omit [DecidableEq α] in
theorem fill_within (Q : Int → Bool) (h0 : Q 0 = true) (cfg : Cfg) (es : List (List α × PWT)) :
    (∀ e ∈ es, okT Q e.2 = true) →
    ∀ (id : Nat) (tw tw' : TW), fillTagWeights cfg es id tw = .ok tw' → TWIn Q tw → TWIn Q tw' := by
  induction es with
  | nil =>
    intro _ id tw tw' h hin
    simp only [fillTagWeights, Res.ok.injEq] at h
    subst h; exact hin
  | cons e r ih =>
    intro hes id tw tw' h hin
    simp only [fillTagWeights] at h
    split at h
    · rename_i tw1 h1
      exact ih (fun x hx => hes x (List.mem_cons_of_mem _ hx)) _ tw1 tw' h
        (insert_within Q h0 cfg id e.2.tagInfo (okT_spec Q e.2 (hes e List.mem_cons_self)) tw tw1 h1 hin)
    · cases h
    · cases h
    · cases h

theorem TWIn_replicate (Q : Int → Bool) (n k : Nat) : TWIn Q (List.replicate n (List.replicate k ([] : List (Nat × WV)))) := by
  intro row hrow cl hcl e he
  rw [(List.mem_replicate.mp hrow).2] at hcl
  rw [(List.mem_replicate.mp hcl).2] at he
  cases he

/-! ## a tag-aware scorer -/

/-- the checked merger and the table of a scorer built from `bes ++ tagEntries T` -/
theorem tagMergerIn_of_built (P Q : Int → Bool) (M1 M2 : Nat) (hP : ∀ x : Int, x.natAbs ≤ M1 → P x = true)
    (hQ : ∀ x : Int, x.natAbs ≤ M2 → Q x = true) (L : Nat → Nat) (cfg : Cfg) (window : Nat)
    (bes : List (List α × PWT)) (T : List (List (TagNgramData α)))
    (hbes : ∀ e ∈ bes, e.2.tagInfo = [])
    (hT : ∀ i tm, T[i]? = some tm → ∀ d ∈ tm, ∀ w ∈ d.weights, w.weights.length = L i)
    (hM1 : emass PWT.weight (bes ++ tagEntries T) ≤ M1)
    (hM2 : ∀ tid, tagNgramMass (T.getD tid []) ≤ M2)
    (sc : PmaScorer α) (hb : TagBuiltFrom cfg window T.length (bes ++ tagEntries T) sc) :
    sc.tagWeightsIn Q ∧ TagMergerIn P Q cfg window T.length (bes ++ tagEntries T) sc := by
  obtain ⟨h1, h2, h3⟩ := merger_chk_tag P Q M1 M2 hP hQ L bes T hbes hT hM1 hM2 (builtFrom_keys_ne addOK_PWT hb.1)
  refine ⟨?_, hb, h1, h2⟩
  intro tw htw
  obtain ⟨tw', htw', hfill⟩ := hb.2
  rw [htw] at htw'
  simp only [Option.some.injEq] at htw'
  subst htw'
  exact fill_within Q (hQ 0 (by simp)) cfg _ (fun e he => (okWT_spec P Q e.2 (h3 e he)).2) 0 _ tw hfill
    (TWIn_replicate Q _ _)

end C06B
end V
