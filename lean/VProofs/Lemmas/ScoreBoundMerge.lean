import VModel.Merge
import VModel.Scorer
import VProofs.Lemmas.MergeAlg
import VProofs.Lemmas.MergeCorrect
/-!
# Running the weight merger with a checked `+=` (for the C01 overflow bound)

`Merge.mergeEntries`, `Merge.addEntry` and `addAll` are generic in the weight type and its `+=`.  Instantiated with
`Option W` and the checked addition `addC ok add` — `none` ("poisoned") as soon as the result of an addition fails the
test `ok`, and `none` stays `none` — they model the Rust code run with overflow-checking arithmetic.  This file shows:
if every weight that is stored at any moment of the unchecked run passes `ok`, the checked run returns exactly the
unchecked results, none of them poisoned.  The moments of the unchecked run are the states `bp add st c'` for the tails `c'`
of a chain (one elementary `to.w += from.w` each), which turn out to be states after whole `step`s, so that the loop
invariant of `MergeAlg` applies to all of them.
-/
namespace V.Merge
variable {α : Type} [DecidableEq α] {W : Type}

/-- checked `+=`: poisoned when an operand is poisoned or the result fails `ok` -/
def addC (ok : W → Bool) (add : W → W → W) : Option W → Option W → Option W
  | some a, some b => if ok (add a b) then some (add a b) else none
  | _, _ => none

/-- the entries as unpoisoned weights -/
def liftE (es : List (List α × W)) : List (List α × Option W) := es.map fun e => (e.1, some e.2)

omit [DecidableEq α] in
theorem liftE_keys (es : List (List α × W)) : (liftE es).map Prod.fst = es.map Prod.fst := by
  simp [liftE, List.map_map, Function.comp_def]

/-! ## `merger.add` -/

theorem addEntry_chk (ok : W → Bool) (add : W → W → W) (acc : List (List α × W)) (k : List α) (w : W)
    (h : ∀ x ∈ addEntry add acc k w, ok x.2 = true) :
    addEntry (addC ok add) (liftE acc) k (some w) = liftE (addEntry add acc k w) := by
  induction acc with
  | nil => rfl
  | cons e r ih =>
    obtain ⟨k', w'⟩ := e
    simp only [liftE, List.map_cons, addEntry] at h ⊢
    by_cases hk : k' = k
    · rw [if_pos hk] at h ⊢
      rw [if_pos hk]
      have := h (k', add w' w) (by simp)
      simp only [List.map_cons, addC, this, if_true]
    · rw [if_neg hk] at h ⊢
      rw [if_neg hk]
      simp only [List.map_cons]
      congr 1
      exact ih (fun x hx => h x (List.mem_cons_of_mem _ hx))

/-- `merger.add` over a list of entries with the checked `+=`, when every weight stored after any number of insertions
passes the check -/
theorem addAll_chk (ok : W → Bool) (add : W → W → W) (es acc : List (List α × W))
    (h : ∀ n, ∀ x ∈ addAll add (es.take n) acc, ok x.2 = true) :
    addAll (addC ok add) (liftE es) (liftE acc) = liftE (addAll add es acc) := by
  induction es generalizing acc with
  | nil => rfl
  | cons e r ih =>
    have hunf : addAll add (e :: r) acc = addAll add r (addEntry add acc e.1 e.2) := rfl
    have hunf' : addAll (addC ok add) (liftE (e :: r)) (liftE acc)
        = addAll (addC ok add) (liftE r) (addEntry (addC ok add) (liftE acc) e.1 (some e.2)) := rfl
    rw [hunf, hunf', addEntry_chk ok add acc e.1 e.2 (h 1)]
    apply ih
    intro n
    exact h (n + 1)

/-! ## `merger.merge` -/

/-- the checked state mirrors the unchecked one: same `done` flags, and on the keys the same weights, unpoisoned -/
def Sim (keys : List (List α)) (st : St α W) (st' : St α (Option W)) : Prop :=
  st'.done = st.done ∧ ∀ k ∈ keys, st'.w k = some (st.w k)

omit [DecidableEq α] in
theorem chainAux_done {W' : Type} (keys : List (List α)) [DecidableEq α] (st : St α W) (st' : St α W')
    (h : st'.done = st.done) (l : List (List α)) : chainAux keys st' l = chainAux keys st l := by
  induction l with
  | nil => rfl
  | cons s rest ih => simp only [chainAux, ih, h]

theorem cOf_done {W' : Type} (keys : List (List α)) (st : St α W) (st' : St α W') (h : st'.done = st.done)
    (x : List α) : cOf keys st' x = cOf keys st x := by
  rw [← chainAux_properSuffixes, ← chainAux_properSuffixes]
  exact chainAux_done keys st st' h _

theorem step_eq_bp (add : W → W → W) (keys : List (List α)) (st : St α W) (k : List α)
    (hd : st.done k = false) : step add keys st k = bp add st (k :: cOf keys st k) := by
  unfold step
  rw [if_neg (by simp [hd]), backprop_reverse, chain, chainAux_properSuffixes]

/-- the tails of a chain are chains themselves: nothing, a single visited key, or an unvisited key with its own chain -/
theorem cOf_tails (keys : List (List α)) (st : St α W) (x : List α) (c' : List (List α))
    (h : c' <:+ cOf keys st x) :
    c' = [] ∨ (∃ q, c' = [q]) ∨ (∃ q, q ∈ keys ∧ st.done q = false ∧ c' = q :: cOf keys st q) := by
  induction x with
  | nil =>
    simp only [cOf] at h
    left; exact List.suffix_nil.mp h
  | cons a t ih =>
    cases t with
    | nil =>
      simp only [cOf] at h
      left; exact List.suffix_nil.mp h
    | cons b u =>
      simp only [cOf] at h
      split at h
      · rename_i hk
        split at h
        · rcases List.suffix_cons_iff.mp h with h | h
          · right; left; exact ⟨_, h⟩
          · left; exact List.suffix_nil.mp h
        · rename_i hd
          rcases List.suffix_cons_iff.mp h with h | h
          · right; right
            exact ⟨b :: u, hk, by simpa using hd, h⟩
          · exact ih h
      · exact ih h

theorem bp_single_w (add : W → W → W) (st : St α W) (q : List α) : (bp add st [q]).w = st.w := rfl

/-- one `backprop` with the checked `+=`, when every weight of a key in every intermediate state passes the check -/
theorem bp_sim (ok : W → Bool) (add : W → W → W) (keys : List (List α)) (st : St α W) (st' : St α (Option W))
    (hs : Sim keys st st') (c : List (List α)) (hc : ∀ x ∈ c, x ∈ keys)
    (hok : ∀ c', c' <:+ c → ∀ k ∈ keys, ok ((bp add st c').w k) = true) :
    Sim keys (bp add st c) (bp (addC ok add) st' c) := by
  induction c with
  | nil => exact hs
  | cons p c ih =>
    cases c with
    | nil =>
      refine ⟨?_, hs.2⟩
      show upd st'.done p true = upd st.done p true
      rw [hs.1]
    | cons q r =>
      have ih' := ih (fun x hx => hc x (List.mem_cons_of_mem _ hx))
        (fun c' hc' => hok c' (hc'.trans (List.suffix_cons p (q :: r))))
      have hp : p ∈ keys := hc p (by simp)
      have hq : q ∈ keys := hc q (by simp)
      have hokp := hok (p :: q :: r) (List.suffix_refl _) p hp
      simp only [bp, stepTo] at hokp ⊢
      rw [upd_same] at hokp
      refine ⟨?_, fun k hk => ?_⟩
      · show upd _ p true = upd _ p true
        rw [ih'.1]
      · show upd _ p _ k = some (upd _ p _ k)
        by_cases hkp : k = p
        · subst hkp
          rw [upd_same, upd_same, ih'.2 k hp, ih'.2 q hq]
          simp only [addC, hokp, if_true]
        · rw [upd_other _ _ _ _ hkp, upd_other _ _ _ _ hkp]
          exact ih'.2 k hk

/-- one `step` with the checked `+=`; `G` is any property of unchecked states that is kept by whole steps and makes the
weights of all keys pass the check -/
theorem step_sim (ok : W → Bool) (add : W → W → W) (keys : List (List α)) (G : St α W → Prop)
    (hGok : ∀ st, G st → ∀ k ∈ keys, ok (st.w k) = true)
    (hGstep : ∀ st k, G st → k ∈ keys → G (step add keys st k))
    (st : St α W) (st' : St α (Option W)) (hs : Sim keys st st') (hG : G st) (k : List α) (hk : k ∈ keys) :
    Sim keys (step add keys st k) (step (addC ok add) keys st' k) := by
  cases hd : st.done k with
  | true =>
    have hd' : st'.done k = true := by rw [hs.1]; exact hd
    unfold step
    rw [if_pos hd, if_pos hd']
    exact hs
  | false =>
    have hd' : st'.done k = false := by rw [hs.1]; exact hd
    rw [step_eq_bp add keys st k hd, step_eq_bp (addC ok add) keys st' k hd', cOf_done keys st st' hs.1]
    apply bp_sim ok add keys st st' hs
    · intro x hx
      rcases List.mem_cons.mp hx with h | h
      · subst h; exact hk
      · exact cOf_mem_keys keys st k x h
    · intro c' hc' y hy
      rcases List.suffix_cons_iff.mp hc' with h | h
      · rw [h, ← step_eq_bp add keys st k hd]
        exact hGok _ (hGstep st k hG hk) y hy
      · rcases cOf_tails keys st k c' h with h | ⟨q, h⟩ | ⟨q, hq, hqd, h⟩
        · rw [h]; exact hGok st hG y hy
        · rw [h, bp_single_w]; exact hGok st hG y hy
        · rw [h, ← step_eq_bp add keys st q hqd]
          exact hGok _ (hGstep st q hG hq) y hy

theorem foldl_sim (ok : W → Bool) (add : W → W → W) (keys : List (List α)) (G : St α W → Prop)
    (hGok : ∀ st, G st → ∀ k ∈ keys, ok (st.w k) = true)
    (hGstep : ∀ st k, G st → k ∈ keys → G (step add keys st k))
    (ks : List (List α)) (hks : ∀ k ∈ ks, k ∈ keys)
    (st : St α W) (st' : St α (Option W)) (hs : Sim keys st st') (hG : G st) :
    Sim keys (ks.foldl (step add keys) st) (ks.foldl (step (addC ok add) keys) st') := by
  induction ks generalizing st st' with
  | nil => exact hs
  | cons k ks ih =>
    simp only [List.foldl_cons]
    exact ih (fun q hq => hks q (List.mem_cons_of_mem _ hq)) _ _
      (step_sim ok add keys G hGok hGstep st st' hs hG k (hks k (by simp)))
      (hGstep st k hG (hks k (by simp)))

theorem lookupD_liftE (d : W) (entries : List (List α × W)) (k : List α) (hk : k ∈ entries.map Prod.fst) :
    lookupD (none : Option W) (liftE entries) k = some (lookupD d entries k) := by
  induction entries with
  | nil => simp at hk
  | cons e r ih =>
    obtain ⟨k', w'⟩ := e
    simp only [liftE, List.map_cons, lookupD]
    by_cases h : k' = k
    · rw [if_pos h, if_pos h]
    · rw [if_neg h, if_neg h]
      simp only [List.map_cons, List.mem_cons] at hk
      rcases hk with hk | hk
      · exact absurd hk.symm h
      · exact ih hk

/-- `merger.merge()` with the checked `+=` returns the unchecked merged weights, unpoisoned -/
theorem mergeEntries_chk (ok : W → Bool) (add : W → W → W) (d : W) (entries : List (List α × W))
    (G : St α W → Prop)
    (hGok : ∀ st, G st → ∀ k ∈ entries.map Prod.fst, ok (st.w k) = true)
    (hGstep : ∀ st k, G st → k ∈ entries.map Prod.fst → G (step add (entries.map Prod.fst) st k))
    (hG0 : G { w := lookupD d entries, done := fun _ => false }) :
    mergeEntries (addC ok add) none (liftE entries) = liftE (mergeEntries add d entries) := by
  have hsim := foldl_sim ok add (entries.map Prod.fst) G hGok hGstep (entries.map Prod.fst) (fun _ h => h)
    { w := lookupD d entries, done := fun _ => false }
    { w := lookupD none (liftE entries), done := fun _ => false }
    ⟨rfl, fun k hk => lookupD_liftE d entries k hk⟩ hG0
  have e1 : ∀ {W' : Type} (add' : W' → W' → W') (d' : W') (es : List (List α × W')),
      mergeEntries add' d' es = (es.map Prod.fst).map fun k =>
        (k, ((es.map Prod.fst).foldl (step add' (es.map Prod.fst)) { w := lookupD d' es, done := fun _ => false }).w k) :=
    fun _ _ _ => rfl
  rw [e1 (addC ok add) none (liftE entries), e1 add d entries, liftE_keys]
  show _ = List.map _ (List.map _ _)
  simp only [List.map_map]
  apply List.map_congr_left
  intro e he
  simp only [Function.comp_def]
  rw [hsim.2 e.1 (List.mem_map.mpr ⟨e, he, rfl⟩)]

end V.Merge
