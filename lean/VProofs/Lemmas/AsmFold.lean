import VModel.Trainer
import VProofs.Lemmas.AsmOrder
/-!
# C09 helpers (2): the fold invariant of `asmFold`

After processing a prefix of the trace, with `F` the "last non-zero write" function of that prefix:
every stored n-gram vector has `2W − ℓ + 1` entries and holds `F (g, W − ℓ − idx)` at every index `idx`, n-grams that are
not stored have all their features at 0, and the triple of every dictionary bucket holds the three dictionary features.
-/
namespace V.C09L
open V

/-! ## `getZ` -/

theorem getZ_set (v : List Int) (p : Nat) (w : Int) (idx : Int) :
    getZ (v.set p w) idx = if idx = (p : Int) ∧ p < v.length then w else getZ v idx := by
  unfold getZ
  by_cases h0 : 0 ≤ idx
  · simp only [h0, if_true, List.getD_eq_getElem?_getD, List.getElem?_set]
    by_cases hp : p = idx.toNat
    · have hi : idx = (p : Int) := by omega
      by_cases hl : p < v.length
      · simp [hl, hi]
      · have : ¬ (idx = (p : Int) ∧ p < v.length) := fun h => hl h.2
        rw [if_neg this, if_pos hp, if_neg hl, List.getElem?_eq_none (by omega)]
    · have hi : ¬ (idx = (p : Int) ∧ p < v.length) := by
        intro h; omega
      simp only [hp, if_false, hi]
  · have hi : ¬ (idx = (p : Int) ∧ p < v.length) := by
      intro h; omega
    simp only [h0, if_false, hi]

theorem getZ_of_le (v : List Int) (idx : Int) (h : (v.length : Int) ≤ idx) : getZ v idx = 0 := by
  unfold getZ
  split
  · rw [List.getD_eq_getElem?_getD, List.getElem?_eq_none (by omega)]; rfl
  · rfl

theorem getZ_of_neg (v : List Int) (idx : Int) (h : idx < 0) : getZ v idx = 0 := by
  unfold getZ
  rw [if_neg (by omega)]

theorem getZ_replicate_zero (n : Nat) (idx : Int) : getZ (List.replicate n 0) idx = 0 := by
  unfold getZ
  split
  · rw [List.getD_eq_getElem?_getD, List.getElem?_replicate]
    split <;> rfl
  · rfl

/-! ## n-gram maps -/

section
variable {α : Type} [DecidableEq α]

def NgInv (lt : List α → List α → Bool) (W : Nat) (Q : List α → Prop) (Fn : List α → Int → Int)
    (m : List (List α × List Int)) : Prop :=
  Sorted lt m ∧
  (∀ e ∈ m, e.2.length = 2 * W - e.1.length + 1 ∧ e.1.length ≤ 2 * W ∧ Q e.1 ∧
     ∀ idx : Int, 0 ≤ idx → idx < (e.2.length : Int) →
       getZ e.2 idx = Fn e.1 ((W : Int) - (e.1.length : Int) - idx)) ∧
  (∀ g, (∀ e ∈ m, e.1 ≠ g) → ∀ rel, Fn g rel = 0)

omit [DecidableEq α] in
theorem ngInv_nil (lt : List α → List α → Bool) (W : Nat) (Q : List α → Prop) :
    NgInv lt W Q (fun _ _ => 0) [] :=
  ⟨List.Pairwise.nil, (by intro e he; cases he), (by intros; rfl)⟩

theorem ngInv_update {lt : List α → List α → Bool} {W : Nat} {Q : List α → Prop} {Fn : List α → Int → Int}
    {m : List (List α × List Int)} (hinv : NgInv lt W Q Fn m) (g0 : List α) (rel0 w : Int) (hQ : Q g0)
    (h1 : -(W : Int) ≤ rel0) (h2 : rel0 + (g0.length : Int) ≤ W)
    (vold : List Int) (hl : vold.length = 2 * W - g0.length + 1)
    (hval : ∀ idx : Int, 0 ≤ idx → idx < (vold.length : Int) →
      getZ vold idx = Fn g0 ((W : Int) - (g0.length : Int) - idx))
    (m' : List (List α × List Int)) (hs' : Sorted lt m')
    (hmem : ∀ e, e ∈ m' ↔ ((e ∈ m ∧ e.1 ≠ g0) ∨
      e = (g0, vold.set ((W : Int) - (g0.length : Int) - rel0).toNat w))) :
    NgInv lt W Q (fun g rel => if g = g0 ∧ rel = rel0 then w else Fn g rel) m' := by
  obtain ⟨_, hsh, habs⟩ := hinv
  refine ⟨hs', ?_, ?_⟩
  · intro e he
    rcases (hmem e).mp he with ⟨hm, hne⟩ | heq
    · obtain ⟨a, b, c, d⟩ := hsh e hm
      refine ⟨a, b, c, ?_⟩
      intro idx i0 i1
      simp only [hne, false_and, if_false]
      exact d idx i0 i1
    · subst heq
      refine ⟨by simp [hl], (by show g0.length ≤ 2 * W; omega), hQ, ?_⟩
      intro idx i0 i1
      simp only [List.length_set] at i1
      simp only [true_and]
      rw [getZ_set]
      by_cases hidx : idx = (W : Int) - (g0.length : Int) - rel0
      · rw [if_pos, if_pos]
        · omega
        · constructor
          · omega
          · omega
      · rw [if_neg, if_neg]
        · exact hval idx i0 i1
        · omega
        · intro h; omega
  · intro g hg rel
    have hne : g ≠ g0 := by
      intro h
      exact hg _ ((hmem _).mpr (Or.inr rfl)) h.symm
    simp only [hne, false_and, if_false]
    apply habs
    intro e he heq
    exact hg e ((hmem e).mpr (Or.inl ⟨he, by rw [heq]; exact hne⟩)) heq

theorem placeNgram_inv {lt : List α → List α → Bool} (st : StrictTotal lt) {W : Nat} {Q : List α → Prop}
    {Fn : List α → Int → Int} {m : List (List α × List Int)} (hinv : NgInv lt W Q Fn m)
    (g0 : List α) (rel0 w : Int) (hQ : Q g0) (h1 : -(W : Int) ≤ rel0) (h2 : rel0 + (g0.length : Int) ≤ W) :
    ∃ m', placeNgram lt W g0 rel0 w m = .ok m' ∧
      NgInv lt W Q (fun g rel => if g = g0 ∧ rel = rel0 then w else Fn g rel) m' := by
  have hlen : g0.length ≤ 2 * W := by omega
  have hinv' := hinv
  obtain ⟨hs, hsh, habs⟩ := hinv
  by_cases hex : ∃ v, (g0, v) ∈ m
  · obtain ⟨v, hv⟩ := hex
    obtain ⟨hvl, _, _, hvv⟩ := hsh _ hv
    obtain ⟨m', hm', hs', hmem⟩ := sortedUpsert_spec st g0
      (fun _ => if g0.length ≤ 2 * W then
          setAt (List.replicate (2 * W + 1 - g0.length) 0) ((W : Int) - (g0.length : Int) - rel0) w
        else .panic "window * 2 - len + 1 underflow")
      (fun v => setAt v ((W : Int) - (g0.length : Int) - rel0) w)
      (v.set ((W : Int) - (g0.length : Int) - rel0).toNat w) m hs
      (fun h => absurd rfl (h _ hv))
      (by
        intro v' hv'
        have := Sorted.key_unique st hs hv' hv
        subst this
        simp only at hvl
        simp only [setAt]
        rw [if_pos (by omega), if_pos (by omega)])
    exact ⟨m', hm', ngInv_update hinv' g0 rel0 w hQ h1 h2 v hvl hvv m' hs' hmem⟩
  · have hno : ∀ e ∈ m, e.1 ≠ g0 := by
      intro e he heq
      exact hex ⟨e.2, by rw [← heq]; exact he⟩
    obtain ⟨m', hm', hs', hmem⟩ := sortedUpsert_spec st g0
      (fun _ => if g0.length ≤ 2 * W then
          setAt (List.replicate (2 * W + 1 - g0.length) 0) ((W : Int) - (g0.length : Int) - rel0) w
        else .panic "window * 2 - len + 1 underflow")
      (fun v => setAt v ((W : Int) - (g0.length : Int) - rel0) w)
      ((List.replicate (2 * W + 1 - g0.length) 0).set ((W : Int) - (g0.length : Int) - rel0).toNat w) m hs
      (by
        intro _
        simp only [hlen, if_true, setAt, List.length_replicate]
        rw [if_pos (by omega), if_pos (by omega)])
      (fun v' hv' => absurd rfl (hno _ hv'))
    refine ⟨m', hm', ngInv_update hinv' g0 rel0 w hQ h1 h2 _ (by simp; omega) ?_ m' hs' hmem⟩
    intro idx _ _
    rw [getZ_replicate_zero, habs g0 hno]

end

/-! ## the assembly state -/

def QN {α : Type} (N : Nat) (g : List α) : Prop := 1 ≤ g.length ∧ g.length ≤ N

/-- what `Generable` gives about a feature -/
def GoodF (cfg : TrainCfg) : Feature → Prop
  | .charNgram g rel => QN cfg.charN g ∧ -(cfg.charW : Int) ≤ rel ∧ rel + (g.length : Int) ≤ cfg.charW
  | .typeNgram g rel => QN cfg.typeN g ∧ -(cfg.typeW : Int) ≤ rel ∧ rel + (g.length : Int) ≤ cfg.typeW
  | .dictWord len _ => 1 ≤ len ∧ len ≤ cfg.dictMaxLen

structure Inv (cfg : TrainCfg) (F : Feature → Int) (a : Asm) : Prop where
  chars : NgInv (lexLt ltChar) cfg.charW (QN cfg.charN) (fun g rel => F (.charNgram g rel)) a.charM
  types : NgInv (lexLt ltNat) cfg.typeW (QN cfg.typeN) (fun g rel => F (.typeNgram g rel)) a.typeM
  dlen : a.dictW.length = cfg.dictMaxLen
  dval : ∀ c, 1 ≤ c → c ≤ cfg.dictMaxLen →
    a.dictW.getD (c - 1) (0, 0, 0) = (F (.dictWord c .left), F (.dictWord c .inside), F (.dictWord c .right))

/-- the weight function after one more trace entry (zero weights are skipped) -/
def stepF (F : Feature → Int) (e : Feature × Int) : Feature → Int :=
  if e.2 = 0 then F else fun f => if f = e.1 then e.2 else F f

theorem inv_init (cfg : TrainCfg) :
    Inv cfg (fun _ => 0) { dictW := List.replicate cfg.dictMaxLen (0, 0, 0) } where
  chars := ngInv_nil _ _ _
  types := ngInv_nil _ _ _
  dlen := by simp
  dval := by
    intro c h1 h2
    rw [List.getD_eq_getElem?_getD, List.getElem?_replicate, if_pos (by omega)]
    rfl

def dictTriple (pos : DPos) (l i r w : Int) : Int × Int × Int :=
  match pos with
  | .left => (w, i, r)
  | .inside => (l, w, r)
  | .right => (l, i, w)

theorem asmStep_dict (cfg : TrainCfg) (a : Asm) (len : Nat) (pos : DPos) (w : Int) (hw : ¬ w = 0)
    (hcond : ¬ (len = 0 ∨ a.dictW.length < len)) (l i r : Int) (hcur : a.dictW.getD (len - 1) (0, 0, 0) = (l, i, r)) :
    asmStep cfg a (.dictWord len pos, w) =
      .ok { a with dictW := a.dictW.set (len - 1) (dictTriple pos l i r w) } := by
  simp only [asmStep, hw, if_false, hcond, hcur, dictTriple]
  cases pos <;> rfl

theorem asmStep_inv (cfg : TrainCfg) (F : Feature → Int) (a : Asm) (hinv : Inv cfg F a) (e : Feature × Int)
    (hg : GoodF cfg e.1) : ∃ a', asmStep cfg a e = .ok a' ∧ Inv cfg (stepF F e) a' := by
  obtain ⟨f, w⟩ := e
  by_cases hw : w = 0
  · exact ⟨a, by simp [asmStep, hw], by simpa [stepF, hw] using hinv⟩
  · cases f with
    | charNgram g rel =>
      obtain ⟨hq, h1, h2⟩ := hg
      obtain ⟨m', hm', hi'⟩ := placeNgram_inv (lexLt_st ltChar_st) hinv.chars g rel w hq h1 h2
      refine ⟨{ a with charM := m' }, by simp [asmStep, hw, hm', Res.map], ?_⟩
      have e1 : (fun g' rel' => stepF F (Feature.charNgram g rel, w) (Feature.charNgram g' rel'))
          = (fun g' rel' => if g' = g ∧ rel' = rel then w else F (.charNgram g' rel')) := by
        funext g' rel'; simp [stepF, hw]
      have e2 : (fun g' rel' => stepF F (Feature.charNgram g rel, w) (Feature.typeNgram g' rel'))
          = (fun g' rel' => F (.typeNgram g' rel')) := by
        funext g' rel'; simp [stepF, hw]
      refine ⟨?_, ?_, hinv.dlen, ?_⟩
      · show NgInv _ _ _ (fun g' rel' => stepF F (Feature.charNgram g rel, w) (Feature.charNgram g' rel')) m'
        rw [e1]; exact hi'
      · show NgInv _ _ _ (fun g' rel' => stepF F (Feature.charNgram g rel, w) (Feature.typeNgram g' rel')) a.typeM
        rw [e2]; exact hinv.types
      · intro c c1 c2
        simp only [stepF, hw, if_false, reduceCtorEq]
        exact hinv.dval c c1 c2
    | typeNgram g rel =>
      obtain ⟨hq, h1, h2⟩ := hg
      obtain ⟨m', hm', hi'⟩ := placeNgram_inv (lexLt_st ltNat_st) hinv.types g rel w hq h1 h2
      refine ⟨{ a with typeM := m' }, by simp [asmStep, hw, hm', Res.map], ?_⟩
      have e1 : (fun g' rel' => stepF F (Feature.typeNgram g rel, w) (Feature.typeNgram g' rel'))
          = (fun g' rel' => if g' = g ∧ rel' = rel then w else F (.typeNgram g' rel')) := by
        funext g' rel'; simp [stepF, hw]
      have e2 : (fun g' rel' => stepF F (Feature.typeNgram g rel, w) (Feature.charNgram g' rel'))
          = (fun g' rel' => F (.charNgram g' rel')) := by
        funext g' rel'; simp [stepF, hw]
      refine ⟨?_, ?_, hinv.dlen, ?_⟩
      · show NgInv _ _ _ (fun g' rel' => stepF F (Feature.typeNgram g rel, w) (Feature.charNgram g' rel')) a.charM
        rw [e2]; exact hinv.chars
      · show NgInv _ _ _ (fun g' rel' => stepF F (Feature.typeNgram g rel, w) (Feature.typeNgram g' rel')) m'
        rw [e1]; exact hi'
      · intro c c1 c2
        simp only [stepF, hw, if_false, reduceCtorEq]
        exact hinv.dval c c1 c2
    | dictWord len pos =>
      obtain ⟨l1, l2⟩ := hg
      have hd := hinv.dlen
      have hcond : ¬ (len = 0 ∨ a.dictW.length < len) := by omega
      have hcur := hinv.dval len l1 l2
      refine ⟨_, asmStep_dict cfg a len pos w hw hcond _ _ _ hcur, ?_⟩
      · refine ⟨?_, ?_, by simp [hd], ?_⟩
        · have e2 : (fun g' rel' => stepF F (Feature.dictWord len pos, w) (Feature.charNgram g' rel'))
              = (fun g' rel' => F (.charNgram g' rel')) := by
            funext g' rel'; simp [stepF, hw]
          show NgInv _ _ _ (fun g' rel' => stepF F (Feature.dictWord len pos, w) (Feature.charNgram g' rel')) a.charM
          rw [e2]; exact hinv.chars
        · have e2 : (fun g' rel' => stepF F (Feature.dictWord len pos, w) (Feature.typeNgram g' rel'))
              = (fun g' rel' => F (.typeNgram g' rel')) := by
            funext g' rel'; simp [stepF, hw]
          show NgInv _ _ _ (fun g' rel' => stepF F (Feature.dictWord len pos, w) (Feature.typeNgram g' rel')) a.typeM
          rw [e2]; exact hinv.types
        · intro c c1 c2
          show (a.dictW.set (len - 1) _).getD (c - 1) (0, 0, 0) = _
          rw [List.getD_eq_getElem?_getD, List.getElem?_set]
          by_cases hc : c = len
          · subst hc
            rw [if_pos rfl, if_pos (by omega)]
            cases pos <;> simp [stepF, hw, dictTriple]
          · rw [if_neg (by omega), ← List.getD_eq_getElem?_getD, hinv.dval c c1 c2]
            simp [stepF, hw, hc]

theorem asmFold_inv (cfg : TrainCfg) :
    ∀ (trace : List (Feature × Int)) (F : Feature → Int) (a : Asm), Inv cfg F a →
      (∀ e ∈ trace, GoodF cfg e.1) → ∃ a', asmFold cfg trace a = .ok a' ∧ Inv cfg (trace.foldl stepF F) a'
  | [], F, a, hinv, _ => ⟨a, rfl, hinv⟩
  | e :: r, F, a, hinv, hg => by
    obtain ⟨a1, h1, hi1⟩ := asmStep_inv cfg F a hinv e (hg e List.mem_cons_self)
    obtain ⟨a2, h2, hi2⟩ := asmFold_inv cfg r (stepF F e) a1 hi1 (fun x hx => hg x (List.mem_cons_of_mem _ hx))
    refine ⟨a2, ?_, hi2⟩
    simp only [asmFold, h1]
    exact h2

/-- with distinct features the final weight function is the first (only) entry of the feature -/
theorem foldl_stepF (f : Feature) :
    ∀ (trace : List (Feature × Int)) (F : Feature → Int), (trace.map Prod.fst).Nodup →
      trace.foldl stepF F f =
        match trace.find? (fun e => e.1 = f) with
        | some e => if e.2 = 0 then F f else e.2
        | none => F f
  | [], F, _ => rfl
  | e :: r, F, hnd => by
    have hnd' : e.1 ∉ r.map Prod.fst ∧ (r.map Prod.fst).Nodup := List.nodup_cons.mp hnd
    rw [List.foldl_cons, foldl_stepF f r (stepF F e) hnd'.2]
    by_cases he : e.1 = f
    · have hnone : r.find? (fun e => decide (e.1 = f)) = none := by
        rw [List.find?_eq_none]
        intro x hx
        simp only [decide_eq_true_eq]
        intro hxf
        exact hnd'.1 (List.mem_map.mpr ⟨x, hx, by rw [hxf, he]⟩)
      rw [hnone]
      simp only [List.find?_cons, he, decide_true]
      unfold stepF
      split
      · rfl
      · simp [he]
    · have hs : stepF F e f = F f := by
        unfold stepF
        split
        · rfl
        · exact if_neg (fun h => he h.symm)
      simp only [List.find?_cons, he, decide_false, hs]

theorem foldl_stepF_zero (f : Feature) (trace : List (Feature × Int)) (hnd : (trace.map Prod.fst).Nodup) :
    trace.foldl stepF (fun _ => 0) f =
      match trace.find? (fun e => e.1 = f) with
      | some e => e.2
      | none => 0 := by
  rw [foldl_stepF f trace _ hnd]
  split
  · split
    · rename_i h; rw [h]
    · rfl
  · rfl

end V.C09L
