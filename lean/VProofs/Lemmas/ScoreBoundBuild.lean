import VModel.Spec
import VProofs.Lemmas.ScoreBoundSum
import VProofs.Lemmas.ScoreBoundMerge
import VProofs.Lemmas.ScoreModel
/-!
# The weight merger stays within the mass of its entries (for the C01 overflow bound)

`emass g es` is the sum over the entries of `absSum` of their boundary weight vectors.  Every coordinate of every weight
that the merger holds at any moment is, for some relative position `x`, a sum of `evg g x e` over *different* entries `e`
(`addAll_correct`, the loop invariant `Merge.Inv`), hence at most `emass g es` in absolute value.
-/
namespace V

/-! ## the mass of a model -/

def ngramMass {α : Type} (tbl : List (NgramData α)) : Nat := (tbl.map fun d => absSum d.weights).sum

def dictMass (tbl : List DictWord) : Nat := (tbl.map fun d => absSum d.weights).sum

/-- `|bias|` plus the absolute values of all boundary weights of the model -/
def WModel.mass (m : WModel) : Nat :=
  m.bias.natAbs + ngramMass m.charNgrams + ngramMass m.typeNgrams + dictMass m.dict

/-- the range of a Rust `i32` -/
def I32 (x : Int) : Prop := -2 ^ 31 ≤ x ∧ x < 2 ^ 31

instance (x : Int) : Decidable (I32 x) := by unfold I32; exact inferInstance

namespace C01B
open C01L Merge
variable {α : Type} [DecidableEq α] {W : Type}

theorem natsum_cast {β : Type} (l : List β) (f : β → Nat) :
    (((l.map f).sum : Nat) : Int) = (l.map fun a => ((f a : Nat) : Int)).sum := by
  induction l with
  | nil => rfl
  | cons a l ih => simp only [List.map_cons, List.sum_cons, ← ih]; omega

/-! ## the mass of a list of merger entries -/

def absW : Option PW → Nat
  | some pw => absSum pw.weight
  | none => 0

def emass (g : W → Option PW) (es : List (List α × W)) : Nat := (es.map fun e => absW (g e.2)).sum

omit [DecidableEq α] in
theorem emass_append (g : W → Option PW) (a b : List (List α × W)) : emass g (a ++ b) = emass g a + emass g b := by
  simp [emass, List.map_append, List.sum_append]

omit [DecidableEq α] in
theorem emass_sublist (g : W → Option PW) (l es : List (List α × W)) (h : l.Sublist es) : emass g l ≤ emass g es := by
  induction h with
  | slnil => exact Nat.le_refl _
  | cons a _ ih => simp only [emass, List.map_cons, List.sum_cons] at ih ⊢; omega
  | cons_cons a _ ih => simp only [emass, List.map_cons, List.sum_cons] at ih ⊢; omega

omit [DecidableEq α] in
theorem emass_zero (g : W → Option PW) (es : List (List α × W)) (h : ∀ e ∈ es, g e.2 = none) : emass g es = 0 := by
  induction es with
  | nil => rfl
  | cons e r ih =>
    simp only [emass, List.map_cons, List.sum_cons] at ih ⊢
    rw [h e (by simp), ih (fun x hx => h x (by simp [hx]))]
    rfl

theorem evg_abs_le (g : W → Option PW) (x : Int) (w : W) : iabs (evg g x w) ≤ ((absW (g w) : Nat) : Int) := by
  unfold evg absW
  cases g w with
  | none => simp only [iabs_zero]; omega
  | some pw => exact iabs_getZ_le _ _

omit [DecidableEq α] in
/-- a sum of the values at one position over a sublist of the entries is within the mass -/
theorem sum_evg_le (g : W → Option PW) (x : Int) (l es : List (List α × W)) (h : l.Sublist es) :
    iabs (l.map fun e => evg g x e.2).sum ≤ ((emass g es : Nat) : Int) := by
  have h1 := iabs_sum_map_le l (fun e => evg g x e.2)
  have h2 : (l.map fun e => iabs (evg g x e.2)).sum ≤ (l.map fun e => ((absW (g e.2) : Nat) : Int)).sum :=
    isum_map_le _ _ _ (fun e _ => evg_abs_le g x e.2)
  have h3 : (l.map fun e => ((absW (g e.2) : Nat) : Int)).sum = ((emass g l : Nat) : Int) := by
    unfold emass; rw [natsum_cast]
  have h4 := emass_sublist g l es h
  omega

/-! ## the test on a weight: all coordinates of the boundary part satisfy `P` -/

def okW (P : Int → Bool) (g : W → Option PW) (w : W) : Bool :=
  match g w with
  | some pw => pw.weight.all P
  | none => true

theorem mem_eq_denote (pw : PW) (y : Int) (hy : y ∈ pw.weight) : ∃ x, y = pw.denote x := by
  obtain ⟨i, hi, rfl⟩ := List.mem_iff_getElem.mp hy
  refine ⟨(i : Int) + pw.offset, ?_⟩
  unfold PW.denote
  have : (i : Int) + pw.offset - pw.offset = (i : Int) := by omega
  rw [this, getZ_nat, List.getD_eq_getElem?_getD, List.getElem?_eq_getElem hi]
  rfl

theorem okW_of_evg (P : Int → Bool) (M : Nat) (hP : ∀ x : Int, x.natAbs ≤ M → P x = true) (g : W → Option PW) (w : W)
    (h : ∀ x, iabs (evg g x w) ≤ ((M : Nat) : Int)) : okW P g w = true := by
  unfold okW
  cases hg : g w with
  | none => rfl
  | some pw =>
    simp only [List.all_eq_true]
    intro y hy
    obtain ⟨x, rfl⟩ := mem_eq_denote pw y hy
    apply hP
    have := h x
    unfold evg at this
    rw [hg] at this
    exact (iabs_le_iff _ _).mp this

theorem okW_spec (P : Int → Bool) (g : W → Option PW) (w : W) (h : okW P g w = true) :
    ∀ pw, g w = some pw → ∀ x ∈ pw.weight, P x = true := by
  intro pw hpw x hx
  unfold okW at h
  rw [hpw] at h
  exact List.all_eq_true.mp h x hx

/-! ## the spec sum in terms of the entries -/

theorem S_entries (d : W) (ev : W → Int) (entries : List (List α × W)) (hnd : (entries.map Prod.fst).Nodup)
    (k : List α) :
    S (entries.map Prod.fst) (fun q => ev (lookupD d entries q)) k
      = ((entries.filter (fun e => e.1.isSuffixOf k)).map (fun e => ev e.2)).sum := by
  unfold S
  rw [List.filter_map, List.map_map]
  congr 1
  apply List.map_congr_left
  intro e he
  have he' : e ∈ entries := (List.mem_filter.1 he).1
  simp [lookupD_of_mem d entries hnd e he']

/-! ## both phases of the merger with a checked `+=` -/

/-- running `merger.add` over `es` and then `merger.merge()` with a `+=` that tests every coordinate of its result with `P`
never trips the test, provided `P` holds for all integers up to the mass of the entries in absolute value; and all
coordinates of the results satisfy `P` -/
theorem merger_chk (P : Int → Bool) (M : Nat) (hP : ∀ x : Int, x.natAbs ≤ M → P x = true)
    (add : W → W → W) (d : W) (g : W → Option PW) (hg : AddOK add g) (es : List (List α × W))
    (hM : emass g es ≤ M) (hne : [] ∉ es.map Prod.fst) :
    addAll (addC (okW P g) add) (liftE es) [] = liftE (addAll add es []) ∧
    mergeEntries (addC (okW P g) add) none (liftE (addAll add es [])) = liftE (mergeEntries add d (addAll add es [])) ∧
    ∀ e ∈ mergeEntries add d (addAll add es []), okW P g e.2 = true := by
  have hT : ∀ (k : List α) (a b : W), (fun (_ : List α) (_ : W) => True) k a → (fun (_ : List α) (_ : W) => True) k b →
      (fun (_ : List α) (_ : W) => True) k (add a b) := fun _ _ _ _ _ => trivial
  -- sums over sublists of `es`
  have hbound : ∀ (x : Int) (l : List (List α × W)), l.Sublist es →
      iabs (l.map fun e => evg g x e.2).sum ≤ ((M : Nat) : Int) := by
    intro x l hl
    have := sum_evg_le g x l es hl
    omega
  refine ⟨?_, ?_, ?_⟩
  · -- `merger.add`
    apply addAll_chk (okW P g) add es []
    intro n y hy
    apply okW_of_evg P M hP
    intro x
    obtain ⟨hnd, hkeys, _, hsum⟩ := addAll_correct add d (evg g x) (fun _ _ => True) hT
      (fun _ a b _ _ => evg_add add g hg x a b) (es.take n) (fun _ _ => trivial)
    have hk : y.1 ∈ (es.take n).map Prod.fst := (hkeys y.1).mp (List.mem_map.mpr ⟨y, hy, rfl⟩)
    have := hsum y.1 hk
    rw [lookupD_mem d _ hnd y hy] at this
    rw [this]
    exact hbound x _ (List.filter_sublist.trans (List.take_sublist n es))
  all_goals
    obtain ⟨hnd, hkeys, _, _⟩ := addAll_correct add d (evg g 0) (fun _ _ => True) hT
      (fun _ a b _ _ => evg_add add g hg 0 a b) es (fun _ _ => trivial)
    have hsum : ∀ x : Int, ∀ k ∈ es.map Prod.fst,
        evg g x (lookupD d (addAll add es []) k)
          = ((es.filter (fun e => e.1 = k)).map (fun e => evg g x e.2)).sum := fun x =>
      (addAll_correct add d (evg g x) (fun _ _ => True) hT (fun _ a b _ _ => evg_add add g hg x a b) es
        (fun _ _ => trivial)).2.2.2
    have hne' : [] ∉ (addAll add es []).map Prod.fst := fun h => hne ((hkeys []).mp h)
    -- the two kinds of values the merge holds
    have hw0 : ∀ (x : Int) (k : List α), k ∈ (addAll add es []).map Prod.fst →
        iabs (evg g x (lookupD d (addAll add es []) k)) ≤ ((M : Nat) : Int) := by
      intro x k hk
      rw [hsum x k ((hkeys k).mp hk)]
      exact hbound x _ List.filter_sublist
    have hS : ∀ (x : Int) (k : List α),
        iabs (S ((addAll add es []).map Prod.fst) (fun q => evg g x (lookupD d (addAll add es []) q)) k)
          ≤ ((M : Nat) : Int) := by
      intro x k
      rw [S_entries d (evg g x) _ hnd k,
        addAll_regroup add d (evg g x) es hnd hkeys (hsum x) (fun q => q.isSuffixOf k)]
      exact hbound x _ List.filter_sublist
  · -- `merger.merge()`
    apply mergeEntries_chk (okW P g) add d (addAll add es [])
      (fun st => ∀ x : Int, Inv (evg g x) (fun _ _ => True) ((addAll add es []).map Prod.fst)
        (lookupD d (addAll add es [])) st)
    · intro st hG k hk
      apply okW_of_evg P M hP
      intro x
      obtain ⟨_, h1, h2⟩ := hG x k hk
      cases hd : st.done k with
      | true => rw [h1 hd]; exact hS x k
      | false => rw [h2 hd]; exact hw0 x k hk
    · intro st k hG hk x
      exact (step_inv add (evg g x) (fun _ _ => True) (fun _ _ _ _ _ _ _ => trivial)
        (fun _ _ a b _ _ _ => evg_add add g hg x a b) _ _ st hnd hne' (hG x) k hk).1
    · intro x q _
      exact ⟨trivial, by simp, by simp⟩
  · -- the results
    intro e he
    apply okW_of_evg P M hP
    intro x
    have hMk := mergeEntries_keys add d (addAll add es [])
    have hMnd : ((mergeEntries add d (addAll add es [])).map Prod.fst).Nodup := by rw [hMk]; exact hnd
    have hk : e.1 ∈ (addAll add es []).map Prod.fst := by rw [← hMk]; exact List.mem_map.mpr ⟨e, he, rfl⟩
    have := (mergeEntries_correct add d (evg g x) (fun _ _ => True) (fun _ _ _ _ _ _ _ => trivial)
      (fun _ _ a b _ _ _ => evg_add add g hg x a b) (addAll add es []) hnd hne' (fun _ _ => trivial) e.1 hk).2
    rw [lookupD_mem d _ hMnd e he] at this
    rw [this, addAll_regroup add d (evg g x) es hnd hkeys (hsum x) (fun q => q.isSuffixOf e.1)]
    exact hbound x _ List.filter_sublist

end C01B
end V
