import VProofs.Lemmas.QuantGrid
/-!
# The quantisation `x ↦ trunc (fl (x / fl (M / 32767)))` stays inside the signed 16-bit range when `|x| ≤ M` and `M > 2^29 − 2^15` units
-/
namespace V.QuantL
open V V.F64

/-! ## numeric facts about the big constants (checked by kernel evaluation) -/

set_option exponentiation.threshold 5000 in
theorem unit_pos : 0 < unit := by decide +kernel
set_option exponentiation.threshold 5000 in
/-- `2^1036`, the grid step of the binade `[2^14, 2^15)` in units (kept as a constant so that no tactic tries to evaluate it) -/
def e1036 : Nat := 2 ^ 1036
/-- `2^2097` units = `2^1023` -/
def e2097 : Nat := 2 ^ 2097
theorem e1036_pos : 0 < e1036 := by unfold e1036; exact two_pow_pos 1036
theorem e2097_pos : 0 < e2097 := by unfold e2097; exact two_pow_pos 2097
set_option exponentiation.threshold 5000 in
theorem unit_split : unit = 2 ^ 38 * e1036 := by decide +kernel
set_option exponentiation.threshold 5000 in
theorem top_eq : top = 2 * e2097 := by decide +kernel
set_option exponentiation.threshold 5000 in
theorem top_unit : top = 2 ^ 1024 * unit := by decide +kernel
/-- the predecessor of `32768.0`, in units, is below `32768.0` -/
theorem pred32768_lt : (2 ^ 53 - 1) * e1036 < 32768 * unit := by
  rw [unit_split]
  have := e1036_pos
  omega
set_option exponentiation.threshold 5000 in
theorem pred32768_lt_top : (2 ^ 53 - 1) * e1036 < top := by decide +kernel
set_option exponentiation.threshold 5000 in
theorem small_lt_top : 2 ^ 29 * unit < top := by decide +kernel

theorem repU_mul_pow (c t : Nat) (hc : c < 2 ^ 53) : RepU (c * 2 ^ t) := ⟨c, t, rfl, hc⟩
theorem repU_units (c : Nat) (hc : c < 2 ^ 53) : RepU (c * unit) := ⟨c, 1074, by unfold unit; rfl, hc⟩
theorem repU_e1036 (c : Nat) (hc : c < 2 ^ 53) : RepU (c * e1036) := ⟨c, 1036, by unfold e1036; rfl, hc⟩
theorem repU_pow (t : Nat) : RepU (2 ^ t) := ⟨1, t, (Nat.one_mul _).symm, by decide⟩
theorem repU_e2097 : RepU e2097 := by unfold e2097; exact repU_pow 2097
theorem mul_rot (k c u : Nat) : k * (c * u) = c * k * u := by ac_rfl

/-- the scaling step shared by the range proofs: from `m / k ≤ (2^53 − 1)/2^38` to `a·unit ≤ k · pred(32768.0)` -/
theorem scale_core (a m k U E : Nat) (hU : U = 2 ^ 38 * E) (ha : a ≤ m) (hk : m * 2 ^ 38 ≤ (2 ^ 53 - 1) * k) :
    a * U ≤ k * ((2 ^ 53 - 1) * E) := by
  subst hU
  have h1 : a * (2 ^ 38 * E) ≤ m * (2 ^ 38 * E) := Nat.mul_le_mul_right _ ha
  have h2 : m * 2 ^ 38 * E ≤ (2 ^ 53 - 1) * k * E := Nat.mul_le_mul_right _ hk
  have e1 : m * (2 ^ 38 * E) = m * 2 ^ 38 * E := by rw [Nat.mul_assoc]
  have e2 : k * ((2 ^ 53 - 1) * E) = (2 ^ 53 - 1) * k * E := by ac_rfl
  rw [e2]
  omega

theorem bxor_false (s : Bool) : (s != false) = s := by cases s <;> rfl

/-! ## the multiplier -/

/-- `fl (m / 32767)` stays finite for every finite `m` -/
theorem mult_lt_top (m : Nat) (hm : m < top) : roundUnits m 32767 < top := by
  have h : roundUnits m 32767 ≤ e2097 := by
    apply roundUnits_le_of_le _ _ _ (by decide) repU_e2097
    have := top_eq
    omega
  have := top_eq
  have hp := e2097_pos
  omega

theorem quantMultiplier_fin (s : Bool) (m : Nat) (hm : m < top) :
    quantMultiplier (.fin s m) = .fin s (roundUnits m 32767) := by
  unfold quantMultiplier f64Q15 f64Div
  have hne : 32767 * unit ≠ 0 := by have := unit_pos; omega
  simp only []
  rw [if_neg hne, roundUnits_scale _ _ _ unit_pos, if_pos (mult_lt_top m hm), bxor_false]

/-- for `m > 2^29 − 2^15` units (the exact bound; in particular for `m ≥ 2^29`) the multiplier `k = fl (m/32767)` (possibly subnormal) satisfies `m / k ≤ 32768·(1 − 2^-53)` -/
theorem mult_lower (m : Nat) (hT : 2 ^ 29 - 2 ^ 15 < m) : m * 2 ^ 38 ≤ (2 ^ 53 - 1) * roundUnits m 32767 := by
  rcases roundUnits_lower m 32767 (by decide) with h | h <;> omega

/-- … and `m / k ≥ 32766` -/
theorem mult_upper (m : Nat) (hT : 2 ^ 29 - 2 ^ 15 < m) : 32766 * roundUnits m 32767 ≤ m := by
  rcases roundUnits_upper m 32767 (by decide) with h | h <;> omega

/-! ## one quotient -/

theorem f64Div_fin (s t : Bool) (a k : Nat) (hk : k ≠ 0) (hr : roundUnits (a * unit) k < top) :
    f64Div (.fin s a) (.fin t k) = .fin (s != t) (roundUnits (a * unit) k) := by
  unfold f64Div
  simp only []
  rw [if_neg hk, if_pos hr]

theorem trunc_fin (s : Bool) (r : Nat) (h : r / unit < 2 ^ 31) :
    f64ToI32Trunc (.fin s r) = .ok (F64.sval s (r / unit)) := by
  unfold f64ToI32Trunc F64.sval
  simp only []
  cases s
  · simp only [Bool.false_eq_true, if_false]; rw [if_pos h]
  · simp only [if_true]; rw [if_pos (Nat.le_of_lt h)]

theorem sval_bounds (s : Bool) (t b : Nat) (h : t ≤ b) : -(b : Int) ≤ F64.sval s t ∧ F64.sval s t ≤ (b : Int) := by
  unfold F64.sval
  cases s <;> simp only [Bool.false_eq_true, if_false, if_true] <;> omega

/-- the core of `C11_quantise_range`, on units -/
theorem quantise_range_units (s : Bool) (a m : Nat) (hT : 2 ^ 29 - 2 ^ 15 < m) (ha : a ≤ m) :
    ∃ t, quantise (.fin s a) (.fin false (roundUnits m 32767)) = .ok (F64.sval s t) ∧ t ≤ 32767 := by
  have hk := mult_lower m hT
  have hk0 : roundUnits m 32767 ≠ 0 := by
    intro h0
    rw [h0] at hk
    omega
  -- the quotient does not cross the predecessor of 32768.0
  have hP : roundUnits (a * unit) (roundUnits m 32767) ≤ (2 ^ 53 - 1) * e1036 := by
    apply roundUnits_le_of_le _ _ _ (Nat.pos_of_ne_zero hk0) (repU_e1036 _ (by decide))
    exact scale_core a m _ unit _ unit_split ha hk
  have hlt : roundUnits (a * unit) (roundUnits m 32767) < 32768 * unit := Nat.lt_of_le_of_lt hP pred32768_lt
  have htop : roundUnits (a * unit) (roundUnits m 32767) < top := Nat.lt_of_le_of_lt hP pred32768_lt_top
  have ht : roundUnits (a * unit) (roundUnits m 32767) / unit < 32768 := (Nat.div_lt_iff_lt_mul unit_pos).mpr hlt
  refine ⟨roundUnits (a * unit) (roundUnits m 32767) / unit, ?_, by omega⟩
  unfold quantise
  rw [f64Div_fin s false a _ hk0 htop, bxor_false, trunc_fin s _ (by omega)]

/-- below the threshold the quantised value may leave the 16-bit range, but never `i32`: no undefined behaviour -/
theorem quantise_small_units (s : Bool) (a k : Nat) (ha : a < 2 ^ 29) (hk : k ≠ 0) :
    ∃ t, quantise (.fin s a) (.fin false k) = .ok (F64.sval s t) ∧ t ≤ a := by
  have hP : roundUnits (a * unit) k ≤ a * unit := by
    apply roundUnits_le_of_le _ _ _ (Nat.pos_of_ne_zero hk) (repU_units a (by omega))
    exact Nat.le_mul_of_pos_left _ (Nat.pos_of_ne_zero hk)
  have h1 : a * unit < 2 ^ 29 * unit := Nat.mul_lt_mul_of_pos_right ha unit_pos
  have htop : roundUnits (a * unit) k < top := by have := small_lt_top; omega
  have ht : roundUnits (a * unit) k / unit ≤ a := by
    apply Nat.le_of_lt_succ
    apply (Nat.div_lt_iff_lt_mul unit_pos).mpr
    rw [Nat.succ_mul]
    have := unit_pos
    omega
  refine ⟨roundUnits (a * unit) k / unit, ?_, ht⟩
  unfold quantise
  rw [f64Div_fin s false a _ hk htop, bxor_false, trunc_fin s _ (by omega)]

/-- the value of maximal magnitude uses the scale fully: it is mapped to ±32767 or ±32766 -/
theorem quantise_max_units (s : Bool) (m : Nat) (hT : 2 ^ 29 - 2 ^ 15 < m) :
    ∃ t, quantise (.fin s m) (.fin false (roundUnits m 32767)) = .ok (F64.sval s t) ∧ (t = 32767 ∨ t = 32766) := by
  obtain ⟨t, h, ht⟩ := quantise_range_units s m m hT (Nat.le_refl _)
  refine ⟨t, h, ?_⟩
  -- identify `t` and bound it from below: the quotient does not cross 32766.0
  have hk := mult_lower m hT
  have hk0 : roundUnits m 32767 ≠ 0 := by
    intro h0
    rw [h0] at hk
    omega
  have hlow : 32766 * unit ≤ roundUnits (m * unit) (roundUnits m 32767) := by
    apply le_roundUnits_of_le _ _ _ (Nat.pos_of_ne_zero hk0) (repU_units 32766 (by decide))
    have h1 : 32766 * roundUnits m 32767 * unit ≤ m * unit := Nat.mul_le_mul_right _ (mult_upper m hT)
    rw [mul_rot]
    exact h1
  have ht2 : 32766 ≤ roundUnits (m * unit) (roundUnits m 32767) / unit :=
    (Nat.le_div_iff_mul_le unit_pos).mpr hlow
  -- recompute the quotient to read off `t`
  have hP : roundUnits (m * unit) (roundUnits m 32767) ≤ (2 ^ 53 - 1) * e1036 := by
    apply roundUnits_le_of_le _ _ _ (Nat.pos_of_ne_zero hk0) (repU_e1036 _ (by decide))
    exact scale_core m m _ unit _ unit_split (Nat.le_refl _) hk
  have htop : roundUnits (m * unit) (roundUnits m 32767) < top := Nat.lt_of_le_of_lt hP pred32768_lt_top
  have hlt : roundUnits (m * unit) (roundUnits m 32767) / unit < 32768 :=
    (Nat.div_lt_iff_lt_mul unit_pos).mpr (Nat.lt_of_le_of_lt hP pred32768_lt)
  unfold quantise at h
  rw [f64Div_fin s false m _ hk0 htop, bxor_false, trunc_fin s _ (by omega)] at h
  have hsv : F64.sval s (roundUnits (m * unit) (roundUnits m 32767) / unit) = F64.sval s t := by
    injection h
  have : roundUnits (m * unit) (roundUnits m 32767) / unit = t := by
    unfold F64.sval at hsv
    cases s <;> simp only [Bool.false_eq_true, if_false, if_true] at hsv <;> omega
  omega

end V.QuantL
