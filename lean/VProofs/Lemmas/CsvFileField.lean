import VProofs.Lemmas.CsvFileGo
/-!
# CsvFile helper lemmas, part 2: one written field, read back in any context that ends a field
-/
namespace V.C19F
open V

/-- the characters that end a field -/
def IsDelim (d : Char) : Prop := d = ',' ∨ d = '\n' ∨ d = '\r'

/-- what the automaton does once the field `f` has been completed by the character `d` -/
def finish (d : Char) (f : List Char) (ra : List (List Char)) (rest : List Char) : List (List (List Char)) :=
  if d = ',' then csvGo .startField [] (f :: ra) rest
  else if d = '\n' then (ra.reverse ++ [f]) :: csvGo .startRecord [] [] rest
  else (ra.reverse ++ [f]) :: csvGo .afterCR [] [] rest

/-- … or by the end of the input -/
def fieldEnd (f : List Char) (ra : List (List Char)) : List Char → List (List (List Char))
  | [] => [ra.reverse ++ [f]]
  | d :: rest => finish d f ra rest

/-- the rest of the input ends the current field -/
def FieldEnd : List Char → Prop
  | [] => True
  | d :: _ => IsDelim d

theorem endRecord_eq (fa : List Char) (ra : List (List Char)) : csvEndRecord fa ra = ra.reverse ++ [fa.reverse] := by
  simp [csvEndRecord]

theorem step_inField_delim {d : Char} (hd : IsDelim d) :
    csvStep .inField d = if d = ',' then (.startField, .endField) else if d = '\n' then (.startRecord, .endRecord)
      else (.afterCR, .endRecord) := by
  rcases hd with h | h | h <;> subst h <;> decide

theorem step_quoteInQuoted_delim {d : Char} (hd : IsDelim d) : csvStep .quoteInQuoted d = csvStep .inField d := by
  rcases hd with h | h | h <;> subst h <;> decide

theorem step_startField_delim {d : Char} (hd : IsDelim d) : csvStep .startField d = csvStep .inField d := by
  rcases hd with h | h | h <;> subst h <;> decide

theorem go_inField_delim {d : Char} (hd : IsDelim d) (fa : List Char) (ra : List (List Char)) (rest : List Char) :
    csvGo .inField fa ra (d :: rest) = finish d fa.reverse ra rest := by
  unfold finish
  by_cases h1 : d = ','
  · rw [go_endField (st' := .startField) (by rw [step_inField_delim hd]; simp [h1])]; simp [h1]
  · by_cases h2 : d = '\n'
    · rw [go_endRecord (st' := .startRecord) (by rw [step_inField_delim hd]; simp [h2]), endRecord_eq]; simp [h2]
    · rw [go_endRecord (st' := .afterCR) (by rw [step_inField_delim hd]; simp [h1, h2]), endRecord_eq]; simp [h1, h2]

theorem go_quoteInQuoted_delim {d : Char} (hd : IsDelim d) (fa : List Char) (ra : List (List Char)) (rest : List Char) :
    csvGo .quoteInQuoted fa ra (d :: rest) = finish d fa.reverse ra rest := by
  rw [← go_inField_delim hd, csvGo, csvGo, step_quoteInQuoted_delim hd]

theorem go_startField_delim {d : Char} (hd : IsDelim d) (fa : List Char) (ra : List (List Char)) (rest : List Char) :
    csvGo .startField fa ra (d :: rest) = finish d fa.reverse ra rest := by
  rw [← go_inField_delim hd, csvGo, csvGo, step_startField_delim hd]

theorem go_inField_end (fa : List Char) (ra : List (List Char)) (rest : List Char) (h : FieldEnd rest) :
    csvGo .inField fa ra rest = fieldEnd fa.reverse ra rest := by
  cases rest with
  | nil => simp [csvGo, fieldEnd, endRecord_eq]
  | cons d r => exact go_inField_delim h fa ra r

theorem go_quoteInQuoted_end (fa : List Char) (ra : List (List Char)) (rest : List Char) (h : FieldEnd rest) :
    csvGo .quoteInQuoted fa ra rest = fieldEnd fa.reverse ra rest := by
  cases rest with
  | nil => simp [csvGo, fieldEnd, endRecord_eq]
  | cons d r => exact go_quoteInQuoted_delim h fa ra r

theorem go_startField_end (fa : List Char) (ra : List (List Char)) (rest : List Char) (h : FieldEnd rest) :
    csvGo .startField fa ra rest = fieldEnd fa.reverse ra rest := by
  cases rest with
  | nil => simp [csvGo, fieldEnd, endRecord_eq]
  | cons d r => exact go_startField_delim h fa ra r

/-- a field in quotes (whether it needs them or not) -/
def csvQuoted (f : List Char) : List Char := '"' :: (csvEscape f ++ ['"'])

theorem go_field_quoted (f : List Char) (ra : List (List Char)) (rest : List Char) (h : FieldEnd rest) :
    csvGo .startField [] ra (csvQuoted f ++ rest) = fieldEnd f ra rest := by
  have e : csvQuoted f ++ rest = '"' :: (csvEscape f ++ '"' :: rest) := by simp [csvQuoted]
  rw [e, go_skip (st' := .inQuoted) (by decide), go_quoted_run, go_quoteInQuoted_end _ _ _ h]
  simp

theorem go_field_plain (f : List Char) (hf : csvNeedsQuotes f = false) (ra : List (List Char)) (rest : List Char)
    (h : FieldEnd rest) : csvGo .startField [] ra (f ++ rest) = fieldEnd f ra rest := by
  cases f with
  | nil => simpa using go_startField_end [] ra rest h
  | cons c cs =>
    have hc : csvSpecial c = false := by
      simp only [csvNeedsQuotes, List.any_cons, Bool.or_eq_false_iff] at hf; exact hf.1
    have hcs : csvNeedsQuotes cs = false := by
      simp only [csvNeedsQuotes, List.any_cons, Bool.or_eq_false_iff] at hf; exact hf.2
    rw [List.cons_append, go_copy (step_startField_plain hc), go_plain_run cs hcs, go_inField_end _ _ _ h]
    simp

/-- a written field is read back, whatever ends it -/
theorem go_field (f : List Char) (ra : List (List Char)) (rest : List Char) (h : FieldEnd rest) :
    csvGo .startField [] ra (csvField f ++ rest) = fieldEnd f ra rest := by
  unfold csvField
  by_cases hq : csvNeedsQuotes f = true
  · rw [if_pos hq]; exact go_field_quoted f ra rest h
  · rw [if_neg hq]; exact go_field_plain f (by simpa using hq) ra rest h

end V.C19F
