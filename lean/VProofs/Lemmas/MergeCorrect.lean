import VModel.Merge
import VModel.Scorer
import VProofs.Lemmas.MergeAlg
/-!
# Correctness of the mirrored `…WeightMerger::merge` for an arbitrary weight type

`ev : W → Int` is any evaluation that `add` respects on the weights that occur (e.g. the value of a positional weight
at one relative position, or one class score of one (token, rel) tag entry); `P k w` is any key-indexed invariant that
is preserved when the weight of a suffix key is added to the weight of a key.
-/
namespace V.Merge
variable {α : Type} [DecidableEq α] {W : Type}


/-! ### association-list lookups -/

theorem lookupD_map_self (d : W) (f : List α → W) (keys : List (List α)) (k : List α) (hk : k ∈ keys) :
    lookupD d (keys.map fun q => (q, f q)) k = f k := by
  induction keys with
  | nil => simp at hk
  | cons q r ih =>
    simp only [List.map_cons, lookupD]
    by_cases h : q = k
    · subst h; simp
    · rw [if_neg h]
      rcases List.mem_cons.1 hk with e | e
      · exact absurd e.symm h
      · exact ih e

theorem lookupD_of_mem (d : W) (entries : List (List α × W)) (hnd : (entries.map Prod.fst).Nodup)
    (e : List α × W) (he : e ∈ entries) : lookupD d entries e.1 = e.2 := by
  induction entries with
  | nil => simp at he
  | cons x r ih =>
    obtain ⟨k', w'⟩ := x
    simp only [List.map_cons, List.nodup_cons] at hnd
    simp only [lookupD]
    rcases List.mem_cons.1 he with h | h
    · subst h; simp
    · have hne : k' ≠ e.1 := by
        intro heq
        exact hnd.1 (heq ▸ List.mem_map_of_mem (f := Prod.fst) h)
      rw [if_neg hne]
      exact ih hnd.2 h

theorem mergeEntries_keys (add : W → W → W) (d : W) (entries : List (List α × W)) :
    (mergeEntries add d entries).map Prod.fst = entries.map Prod.fst := by
  simp [mergeEntries, List.map_map, Function.comp_def]

/-- after `merge`, every key carries (under `ev`) the sum of the original weights of all keys that are suffixes of it
(including itself), and the invariant `P` -/
theorem mergeEntries_correct (add : W → W → W) (d : W) (ev : W → Int) (P : List α → W → Prop)
    (hP : ∀ k q a b, q.isSuffixOf k = true → P k a → P q b → P k (add a b))
    (hadd : ∀ k q a b, q.isSuffixOf k = true → P k a → P q b → ev (add a b) = ev a + ev b)
    (entries : List (List α × W)) (hnd : (entries.map Prod.fst).Nodup) (hne : [] ∉ entries.map Prod.fst)
    (hent : ∀ e ∈ entries, P e.1 e.2) :
    ∀ k ∈ entries.map Prod.fst,
      P k (lookupD d (mergeEntries add d entries) k) ∧
      ev (lookupD d (mergeEntries add d entries) k)
        = ((entries.filter (fun e => e.1.isSuffixOf k)).map (fun e => ev e.2)).sum := by
  intro k hk
  have hw0 : ∀ q ∈ entries.map Prod.fst, P q (lookupD d entries q) := by
    intro q hq
    obtain ⟨e, he, rfl⟩ := List.mem_map.1 hq
    rw [lookupD_of_mem d entries hnd e he]
    exact hent e he
  obtain ⟨h1, h2⟩ := merge_correct add ev P hP hadd (entries.map Prod.fst) (lookupD d entries) hnd hne hw0 k hk
  have hl : lookupD d (mergeEntries add d entries) k
      = (merge add (entries.map Prod.fst) (lookupD d entries)).w k := by
    unfold mergeEntries
    exact lookupD_map_self d _ _ k hk
  rw [hl]
  refine ⟨h1, ?_⟩
  rw [h2]
  unfold S
  rw [List.filter_map, List.map_map]
  congr 1
  apply List.map_congr_left
  intro e he
  have he' : e ∈ entries := (List.mem_filter.1 he).1
  simp [lookupD_of_mem d entries hnd e he']

end V.Merge

namespace V.Merge
variable {α : Type} [DecidableEq α] {W : Type}

/-! ### `addEntry` -/

/-- sum (under `ev`) of all weights stored under key `k` -/
def sumAt (ev : W → Int) (l : List (List α × W)) (k : List α) : Int :=
  ((l.filter (fun e => decide (e.1 = k))).map (fun e => ev e.2)).sum

theorem sumAt_nil (ev : W → Int) (k : List α) : sumAt ev ([] : List (List α × W)) k = 0 := rfl

theorem sumAt_cons (ev : W → Int) (e : List α × W) (l : List (List α × W)) (k : List α) :
    sumAt ev (e :: l) k = (if e.1 = k then ev e.2 else 0) + sumAt ev l k := by
  unfold sumAt
  by_cases h : e.1 = k <;> simp [h]

theorem sumAt_not_mem (ev : W → Int) (l : List (List α × W)) (k : List α) (h : k ∉ l.map Prod.fst) :
    sumAt ev l k = 0 := by
  induction l with
  | nil => rfl
  | cons e r ih =>
    simp only [List.map_cons, List.mem_cons, not_or] at h
    rw [sumAt_cons, ih h.2, if_neg (fun e' => h.1 e'.symm)]; rfl

theorem lookupD_eq_sumAt (d : W) (ev : W → Int) (l : List (List α × W)) (hnd : (l.map Prod.fst).Nodup)
    (k : List α) (hk : k ∈ l.map Prod.fst) : ev (lookupD d l k) = sumAt ev l k := by
  induction l with
  | nil => simp at hk
  | cons x r ih =>
    obtain ⟨k', w'⟩ := x
    simp only [List.map_cons, List.nodup_cons] at hnd
    rw [sumAt_cons]
    simp only [lookupD]
    by_cases h : k' = k
    · subst h
      rw [if_pos rfl, if_pos rfl, sumAt_not_mem ev r _ hnd.1]; simp
    · rw [if_neg h, if_neg h]
      rcases List.mem_cons.1 hk with e | e
      · exact absurd e.symm h
      · rw [ih hnd.2 e]; simp

theorem addEntry_keys (add : W → W → W) (l : List (List α × W)) (k : List α) (w : W) (x : List α) :
    x ∈ (addEntry add l k w).map Prod.fst ↔ x ∈ l.map Prod.fst ∨ x = k := by
  induction l with
  | nil => simp [addEntry]
  | cons e r ih =>
    obtain ⟨k', w'⟩ := e
    simp only [addEntry]
    by_cases h : k' = k
    · subst h
      simp only [if_true, List.map_cons, List.mem_cons]
      constructor
      · intro h; exact h.elim (fun h => Or.inl (Or.inl h)) (fun h => Or.inl (Or.inr h))
      · intro h; rcases h with (h | h) | h
        · exact Or.inl h
        · exact Or.inr h
        · exact Or.inl h
    · simp only [if_neg h, List.map_cons, List.mem_cons, ih]
      constructor
      · intro h; rcases h with h | h | h
        · exact Or.inl (Or.inl h)
        · exact Or.inl (Or.inr h)
        · exact Or.inr h
      · intro h; rcases h with (h | h) | h
        · exact Or.inl h
        · exact Or.inr (Or.inl h)
        · exact Or.inr (Or.inr h)

theorem addEntry_nodup (add : W → W → W) (l : List (List α × W)) (k : List α) (w : W)
    (hnd : (l.map Prod.fst).Nodup) : ((addEntry add l k w).map Prod.fst).Nodup := by
  induction l with
  | nil => simp [addEntry]
  | cons e r ih =>
    obtain ⟨k', w'⟩ := e
    simp only [List.map_cons, List.nodup_cons] at hnd
    simp only [addEntry]
    by_cases h : k' = k
    · subst h
      simpa using hnd
    · simp only [if_neg h, List.map_cons, List.nodup_cons]
      refine ⟨?_, ih hnd.2⟩
      rw [addEntry_keys]
      intro hc
      rcases hc with hc | hc
      · exact hnd.1 hc
      · exact h hc

theorem addEntry_P (add : W → W → W) (P : List α → W → Prop)
    (hP : ∀ k a b, P k a → P k b → P k (add a b))
    (l : List (List α × W)) (k : List α) (w : W) (hl : ∀ e ∈ l, P e.1 e.2) (hw : P k w) :
    ∀ e ∈ addEntry add l k w, P e.1 e.2 := by
  induction l with
  | nil => intro e he; simp [addEntry] at he; subst he; exact hw
  | cons x r ih =>
    obtain ⟨k', w'⟩ := x
    have hx : P k' w' := hl (k', w') (by simp)
    have hr : ∀ e ∈ r, P e.1 e.2 := fun e he => hl e (List.mem_cons_of_mem _ he)
    simp only [addEntry]
    by_cases h : k' = k
    · subst h
      rw [if_pos rfl]
      intro e he
      rcases List.mem_cons.1 he with he | he
      · subst he; exact hP _ _ _ hx hw
      · exact hr e he
    · rw [if_neg h]
      intro e he
      rcases List.mem_cons.1 he with he | he
      · subst he; exact hx
      · exact ih hr e he

theorem addEntry_sumAt (add : W → W → W) (ev : W → Int) (P : List α → W → Prop)
    (hadd : ∀ k a b, P k a → P k b → ev (add a b) = ev a + ev b)
    (l : List (List α × W)) (k : List α) (w : W) (hl : ∀ e ∈ l, P e.1 e.2) (hw : P k w) (x : List α) :
    sumAt ev (addEntry add l k w) x = sumAt ev l x + (if k = x then ev w else 0) := by
  induction l with
  | nil => simp [addEntry, sumAt_cons, sumAt_nil]
  | cons e r ih =>
    obtain ⟨k', w'⟩ := e
    have hx : P k' w' := hl (k', w') (by simp)
    have hr : ∀ e ∈ r, P e.1 e.2 := fun e he => hl e (List.mem_cons_of_mem _ he)
    simp only [addEntry]
    by_cases h : k' = k
    · subst h
      rw [if_pos rfl, sumAt_cons, sumAt_cons]
      by_cases hx' : k' = x
      · simp only [hx', if_true]
        rw [hadd x _ _ (hx' ▸ hx) (hx' ▸ hw)]; omega
      · simp [hx']
    · rw [if_neg h, sumAt_cons, sumAt_cons, ih hr]; omega

theorem addAll_gen (add : W → W → W) (ev : W → Int) (P : List α → W → Prop)
    (hP : ∀ k a b, P k a → P k b → P k (add a b))
    (hadd : ∀ k a b, P k a → P k b → ev (add a b) = ev a + ev b)
    (es : List (List α × W)) (hent : ∀ e ∈ es, P e.1 e.2) :
    ∀ (acc : List (List α × W)), (acc.map Prod.fst).Nodup → (∀ e ∈ acc, P e.1 e.2) →
      ((addAll add es acc).map Prod.fst).Nodup ∧
      (∀ k, k ∈ (addAll add es acc).map Prod.fst ↔ k ∈ acc.map Prod.fst ∨ k ∈ es.map Prod.fst) ∧
      (∀ e ∈ addAll add es acc, P e.1 e.2) ∧
      ∀ k, sumAt ev (addAll add es acc) k = sumAt ev acc k + sumAt ev es k := by
  induction es with
  | nil =>
    intro acc hnd hacc
    exact ⟨hnd, fun k => by simp [addAll], hacc, fun k => by simp [addAll, sumAt_nil]⟩
  | cons e r ih =>
    intro acc hnd hacc
    have he : P e.1 e.2 := hent e (by simp)
    have hr : ∀ x ∈ r, P x.1 x.2 := fun x hx => hent x (List.mem_cons_of_mem _ hx)
    obtain ⟨i1, i2, i3, i4⟩ := ih hr (addEntry add acc e.1 e.2) (addEntry_nodup add acc e.1 e.2 hnd)
      (addEntry_P add P hP acc e.1 e.2 hacc he)
    have hunf : addAll add (e :: r) acc = addAll add r (addEntry add acc e.1 e.2) := rfl
    rw [hunf]
    refine ⟨i1, ?_, i3, ?_⟩
    · intro k
      rw [i2, addEntry_keys]
      simp only [List.map_cons, List.mem_cons]
      constructor
      · intro h; rcases h with (h | h) | h
        · exact Or.inl h
        · exact Or.inr (Or.inl h)
        · exact Or.inr (Or.inr h)
      · intro h; rcases h with h | h | h
        · exact Or.inl (Or.inl h)
        · exact Or.inl (Or.inr h)
        · exact Or.inr h
    · intro k
      rw [i4, addEntry_sumAt add ev P hadd acc e.1 e.2 hacc he, sumAt_cons]; omega

end V.Merge

namespace V
variable {α : Type} [DecidableEq α] {W : Type}

/-- `merger.add` over a list of (key, weight) pairs: distinct keys in first-occurrence order, equal keys summed -/
theorem addAll_correct (add : W → W → W) (d : W) (ev : W → Int) (P : List α → W → Prop)
    (hP : ∀ k a b, P k a → P k b → P k (add a b))
    (hadd : ∀ k a b, P k a → P k b → ev (add a b) = ev a + ev b)
    (es : List (List α × W)) (hent : ∀ e ∈ es, P e.1 e.2) :
    ((addAll add es []).map Prod.fst).Nodup ∧
    (∀ k, k ∈ (addAll add es []).map Prod.fst ↔ k ∈ es.map Prod.fst) ∧
    (∀ e ∈ addAll add es [], P e.1 e.2) ∧
    ∀ k ∈ es.map Prod.fst,
      ev (Merge.lookupD d (addAll add es []) k) = ((es.filter (fun e => e.1 = k)).map (fun e => ev e.2)).sum := by
  obtain ⟨h1, h2, h3, h4⟩ := Merge.addAll_gen add ev P hP hadd es hent [] (by simp) (by simp)
  refine ⟨h1, ?_, h3, ?_⟩
  · intro k; rw [h2]; simp
  · intro k hk
    rw [Merge.lookupD_eq_sumAt d ev _ h1 k ((h2 k).2 (Or.inr hk)), h4, Merge.sumAt_nil]
    simp [Merge.sumAt]

end V
