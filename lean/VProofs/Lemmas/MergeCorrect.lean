import VModel.Merge
import VModel.Scorer
/-!
# Correctness of the mirrored `…WeightMerger::merge` for an arbitrary weight type

`ev : W → Int` is any evaluation that `add` respects on the weights that occur (e.g. the value of a positional weight
at one relative position, or one class score of one (token, rel) tag entry); `P k w` is any key-indexed invariant that
is preserved when the weight of a suffix key is added to the weight of a key.
-/
namespace V.Merge
variable {α : Type} [DecidableEq α] {W : Type}

theorem mergeEntries_keys (add : W → W → W) (d : W) (entries : List (List α × W)) :
    (mergeEntries add d entries).map Prod.fst = entries.map Prod.fst := by
  sorry

/-- after `merge`, every key carries (under `ev`) the sum of the original weights of all keys that are suffixes of it
(including itself), and the invariant `P` -/
theorem mergeEntries_correct (add : W → W → W) (d : W) (ev : W → Int) (P : List α → W → Prop)
    (hP : ∀ k q a b, q.isSuffixOf k = true → P k a → P q b → P k (add a b))
    (hadd : ∀ k q a b, q.isSuffixOf k = true → P k a → P q b → ev (add a b) = ev a + ev b)
    (entries : List (List α × W)) (hnd : (entries.map Prod.fst).Nodup) (hne : [] ∉ entries.map Prod.fst)
    (hent : ∀ e ∈ entries, P e.1 e.2) :
    ∀ k ∈ entries.map Prod.fst,
      P k (lookupD d (mergeEntries add d entries) k) ∧
      ev (lookupD d (mergeEntries add d entries) k)
        = ((entries.filter (fun e => e.1.isSuffixOf k)).map (fun e => ev e.2)).sum := by
  sorry

end V.Merge

namespace V
variable {α : Type} [DecidableEq α] {W : Type}

/-- `merger.add` over a list of (key, weight) pairs: distinct keys in first-occurrence order, equal keys summed -/
theorem addAll_correct (add : W → W → W) (d : W) (ev : W → Int) (P : List α → W → Prop)
    (hP : ∀ k a b, P k a → P k b → P k (add a b))
    (hadd : ∀ k a b, P k a → P k b → ev (add a b) = ev a + ev b)
    (es : List (List α × W)) (hent : ∀ e ∈ es, P e.1 e.2) :
    ((addAll add es []).map Prod.fst).Nodup ∧
    (∀ k, k ∈ (addAll add es []).map Prod.fst ↔ k ∈ es.map Prod.fst) ∧
    (∀ e ∈ addAll add es [], P e.1 e.2) ∧
    ∀ k ∈ es.map Prod.fst,
      ev (Merge.lookupD d (addAll add es []) k) = ((es.filter (fun e => e.1 = k)).map (fun e => ev e.2)).sum := by
  sorry

end V
