import VProofs.Lemmas.KyOrder
import VProofs.Lemmas.BinUtf8
/-!
# C17 — the conversion of the record structure of a well-formed description

`convert fuel (reprKytea k)` returns the model `expectedModel k` (same entries, same order, same weights).
-/
namespace V.C17L
open V V.Ky V.Bin

/-! ## the three walks -/

theorem dump_trie {α τ : Type} (l : List α) (key : α → List Char) (f : α → τ) (hnd : (l.map key).Nodup) (fuel : Nat)
    (hf : (trieStates (l.map key)).length ≤ fuel) :
    dumpItems (trieStates (l.map key)) (l.map f) fuel [(0, [])] []
      = .ok (sortByKey (l.map fun y => (key y, f y))) := by
  have T := trieStates_tree (l.map key) (l.map f) (by simp)
  obtain ⟨res, hres⟩ := dump_terminates T fuel hf
  rw [hres]
  congr 1
  apply eq_sortByKey
  · simpa [List.map_map, Function.comp_def] using hnd
  · exact dump_sorted _ _ (trieStates_asc _) fuel res hres
  · intro x; rw [dump_correct _ _ fuel res hres x, enc_trie_items l key f hnd]

/-! ## loops -/

theorem mapRes_mapOpt {α β : Type} {f : α → Res β} {g : α → Option β} : ∀ {l : List α},
    (∀ x ∈ l, ∃ y, f x = .ok y ∧ g x = some y) → ∃ ys, mapRes f l = .ok ys ∧ mapOpt g l = some ys := by
  intro l
  induction l with
  | nil => intro _; exact ⟨[], rfl, rfl⟩
  | cons x xs ih =>
    intro h
    obtain ⟨y, hf, hg⟩ := h x (by simp)
    obtain ⟨ys, hfs, hgs⟩ := ih (fun z hz => h z (by simp [hz]))
    exact ⟨y :: ys, by simp [mapRes, hf, hfs], by simp [mapOpt, hg, hgs]⟩

theorem filterMapRes_filterMapOpt {α β : Type} {f : α → Res (Option β)} {g : α → Option (Option β)} : ∀ {l : List α},
    (∀ x ∈ l, ∃ y, f x = .ok y ∧ g x = some y) → ∃ ys, filterMapRes f l = .ok ys ∧ filterMapOpt g l = some ys := by
  intro l
  induction l with
  | nil => intro _; exact ⟨[], rfl, rfl⟩
  | cons x xs ih =>
    intro h
    obtain ⟨y, hf, hg⟩ := h x (by simp)
    obtain ⟨ys, hfs, hgs⟩ := ih (fun z hz => h z (by simp [hz]))
    cases y with
    | none => exact ⟨ys, by simp only [filterMapRes, hf, hfs, Res.bind_ok], by simp [filterMapOpt, hg, hgs]⟩
    | some y => exact ⟨y :: ys, by simp only [filterMapRes, hf, hfs, Res.bind_ok], by simp [filterMapOpt, hg, hgs]⟩

theorem mapRes_map {α β γ : Type} (h : γ → α) (f : α → Res β) : ∀ (l : List γ),
    mapRes f (l.map h) = mapRes (fun x => f (h x)) l := by
  intro l
  induction l with
  | nil => rfl
  | cons x xs ih => simp [mapRes, ih]

/-! ## items -/

theorem charNgram_item {k : AbsKytea} {e : List Char × List Int} (h : WFNgram k.charMap k.charW e) :
    ∃ y, charNgramOf k.charW e = .ok y ∧ expCharNgram k e = some y := by
  obtain ⟨_, ⟨_, h2⟩, h3, _⟩ := h
  have e1 : 2 * k.charW + 1 - e.1.length = 2 * k.charW - e.1.length + 1 := by omega
  refine ⟨⟨e.1, e.2.take (2 * k.charW - e.1.length + 1)⟩, ?_, ?_⟩
  · simp only [charNgramOf, ngramWeights]
    rw [if_neg (by omega), if_neg (by omega)]; rfl
  · simp only [expCharNgram, expWeights]
    rw [if_neg (by omega), if_neg (by omega), e1]; rfl

theorem typeCodes_letters : ∀ (g : List Char), (∀ c ∈ g, c ∈ typeLetters) →
    typeCodes (utf8Encode g) = .ok (if Char.ofNat 4 ∈ g then none else some (g.map letterCode)) := by
  intro g
  induction g with
  | nil => intro _; rfl
  | cons c g ih =>
    intro h
    have hc := h c (by simp)
    have ih' := ih (fun z hz => h z (by simp [hz]))
    rw [BinL.utf8Encode_cons]
    simp only [typeLetters, List.mem_cons, List.not_mem_nil, or_false] at hc
    have key : ∀ (b : UInt8) (n : Nat), utf8EncodeChar c = [b] → typeCode? b = some n → letterCode c = n →
        c ≠ Char.ofNat 4 →
        typeCodes (utf8EncodeChar c ++ utf8Encode g)
          = .ok (if Char.ofNat 4 ∈ c :: g then none else some ((c :: g).map letterCode)) := by
      intro b n hb hn hl hne
      rw [hb]
      simp only [List.singleton_append, typeCodes, hn, ih', Res.bind_ok, List.mem_cons, List.map_cons, hl]
      have : ¬ Char.ofNat 4 = c := fun h => hne h.symm
      by_cases h4 : Char.ofNat 4 ∈ g
      · simp [h4]
      · simp [h4, this]
    rcases hc with rfl | rfl | rfl | rfl | rfl | rfl | rfl
    · exact key 68 1 (by decide) (by decide) (by decide) (by decide)
    · exact key 82 2 (by decide) (by decide) (by decide) (by decide)
    · exact key 72 3 (by decide) (by decide) (by decide) (by decide)
    · exact key 84 4 (by decide) (by decide) (by decide) (by decide)
    · exact key 75 5 (by decide) (by decide) (by decide) (by decide)
    · exact key 79 6 (by decide) (by decide) (by decide) (by decide)
    · have hb : utf8EncodeChar (Char.ofNat 4) = [4] := by decide
      rw [hb]
      have hn : typeCode? 4 = none := by decide
      simp [typeCodes, hn]

theorem typeNgram_item {k : AbsKytea} {e : List Char × List Int} (h : WFNgram k.charMap k.typeW e)
    (hl : ∀ c ∈ e.1, c ∈ typeLetters) :
    ∃ y, typeNgramOf k.typeW e = .ok y ∧ expTypeNgram k e = some y := by
  obtain ⟨_, ⟨_, h2⟩, h3, _⟩ := h
  have e1 : 2 * k.typeW + 1 - e.1.length = 2 * k.typeW - e.1.length + 1 := by omega
  simp only [typeNgramOf, expTypeNgram, typeCodes_letters e.1 hl]
  rw [if_neg (by omega)]
  by_cases h4 : Char.ofNat 4 ∈ e.1
  · exact ⟨none, by simp [h4], by simp [h4]⟩
  · refine ⟨some ⟨e.1.map letterCode, e.2.take (2 * k.typeW - e.1.length + 1)⟩, ?_, ?_⟩
    · simp only [h4, if_false, Res.bind_ok, ngramWeights]
      rw [if_neg (by omega), if_neg (by omega)]; rfl
    · simp only [h4, if_false, expWeights]
      rw [if_neg (by omega), if_neg (by omega), e1]; rfl

theorem dictSum_eq (dictN idx : Nat) (dv : List Int) (m : Nat) : ∀ (js : List Nat) (acc : Int × Int × Int),
    (∀ j ∈ js, j < 8) →
    dictSum dictN idx dv m js acc
      = match expDictSum dictN idx dv m js acc with
        | some r => .ok r
        | none => .panic "dict_vec[offset]" := by
  intro js
  induction js with
  | nil => intro acc _; rfl
  | cons j js ih =>
    intro acc h
    have hj := h j (by simp)
    have ih' := fun acc => ih acc (fun z hz => h z (by simp [hz]))
    simp only [dictSum, expDictSum]
    rw [if_neg (by omega)]
    by_cases hbit : (m >>> j) % 2 = 1
    · rw [if_pos hbit, if_pos hbit]
      cases h1 : dv[3 * dictN * j + 3 * idx]? <;> cases h2 : dv[3 * dictN * j + 3 * idx + 1]? <;>
        cases h3 : dv[3 * dictN * j + 3 * idx + 2]? <;> simp only [ih']
    · rw [if_neg hbit, if_neg hbit]; exact ih' acc

theorem expDictSum_some (dictN nDicts idx : Nat) (dv : List Int) (m : Nat) (hidx : idx < dictN)
    (hlen : dv.length = 3 * dictN * nDicts) : ∀ (js : List Nat) (acc : Int × Int × Int),
    (∀ j ∈ js, j < nDicts) → ∃ r, expDictSum dictN idx dv m js acc = some r := by
  intro js
  induction js with
  | nil => intro acc _; exact ⟨acc, rfl⟩
  | cons j js ih =>
    intro acc h
    have hj := h j (by simp)
    have ih' := fun acc => ih acc (fun z hz => h z (by simp [hz]))
    simp only [expDictSum]
    by_cases hbit : (m >>> j) % 2 = 1
    · rw [if_pos hbit]
      have hmul : dictN * j + dictN ≤ dictN * nDicts := by
        have := Nat.mul_le_mul_left dictN (show j + 1 ≤ nDicts by omega)
        rwa [Nat.mul_succ] at this
      have e1 : 3 * dictN * j = 3 * (dictN * j) := Nat.mul_assoc _ _ _
      have e2 : 3 * dictN * nDicts = 3 * (dictN * nDicts) := Nat.mul_assoc _ _ _
      have hlt : 3 * dictN * j + 3 * idx + 2 < dv.length := by
        rw [hlen, e1, e2]
        generalize dictN * j = A at *
        generalize dictN * nDicts = B at *
        omega
      rw [List.getElem?_eq_getElem (show 3 * dictN * j + 3 * idx < dv.length by omega),
        List.getElem?_eq_getElem (show 3 * dictN * j + 3 * idx + 1 < dv.length by omega),
        List.getElem?_eq_getElem hlt]
      exact ih' _
    · rw [if_neg hbit]; exact ih' acc

theorem dictWord_item {k : AbsKytea} (wf : WFKytea k) {e : List Char × Nat} (he : e ∈ k.words) :
    ∃ d, dictWordOf k.dictN k.nDicts k.dictVec (e.1, reprTagEntry k e) = .ok d ∧ expWord k e = some d := by
  obtain ⟨_, hlen, _⟩ := wf.words e he
  have hd := wf.dictN
  have hmin : min e.1.length k.dictN ≠ 0 := by omega
  obtain ⟨r, hr⟩ := expDictSum_some k.dictN k.nDicts (min e.1.length k.dictN - 1) k.dictVec e.2 (by omega)
    wf.dictVecLen (List.range k.nDicts) (0, 0, 0) (fun j hj => List.mem_range.1 hj)
  refine ⟨⟨e.1, wordWeights e.1.length r, []⟩, ?_, ?_⟩
  · simp only [dictWordOf, reprTagEntry]
    rw [if_neg hmin, dictSum_eq _ _ _ _ _ _ (fun j hj => by have := List.mem_range.1 hj; have := wf.nDicts; omega), hr]
    rfl
  · simp only [expWord]
    rw [if_neg hmin, hr]; rfl

/-! ## the conversion -/

theorem map_fst_snd {α β : Type} (l : List (α × β)) : (l.map fun y => (y.1, y.2)) = l := by
  induction l with
  | nil => rfl
  | cons x xs ih => simp [ih]

theorem convert_of_parts (fuel : Nat) (m : KyteaModel) {ws : KLinear} {fl : KLookup} {bias : Int}
    {cd td : KDict (List Int)} {citems titems : List (List Char × List Int)} {cn : List (NgramData Char)}
    {tn : List (NgramData Nat)} {dw : List DictWord}
    (h1 : m.wordseg = some ws) (h2 : ws.featureLookup = some fl) (h3 : fl.biases.head? = some bias)
    (h4 : fl.charDict = some cd) (h5 : fl.typeDict = some td)
    (h6 : cd.dump fuel = .ok citems) (h7 : mapRes (charNgramOf m.config.charW) citems = .ok cn)
    (h8 : td.dump fuel = .ok titems) (h9 : filterMapRes (typeNgramOf m.config.typeW) titems = .ok tn)
    (h10 : convertDict fuel m.config.dictN fl.dictVec m.dict = .ok dw) :
    convert fuel m = .ok { charNgrams := cn, typeNgrams := tn, dict := dw, bias := bias, charW := m.config.charW,
                           typeW := m.config.typeW, tagModels := [] } := by
  simp only [convert, h1, h2, h3, h4, h5, h6, h7, h8, h9, h10, getOr, Res.bind_ok]

theorem convert_repr (k : AbsKytea) (wf : WFKytea k) (fuel : Nat) (hf : trieFuel k ≤ fuel) :
    ∃ m, convert fuel (reprKytea k) = .ok m ∧ expectedModel k = some m := by
  simp only [trieFuel] at hf
  have hcs : (k.charNgrams.map (·.1)).isEmpty = false := by
    cases h : k.charNgrams with
    | nil => exact absurd h wf.charSome
    | cons a t => rfl
  have hts : (k.typeNgrams.map (·.1)).isEmpty = false := by
    cases h : k.typeNgrams with
    | nil => exact absurd h wf.typeSome
    | cons a t => rfl
  -- character n-grams
  have hcd : KDict.dump (⟨0, trieStates (k.charNgrams.map (·.1)), k.charNgrams.map (·.2)⟩ : KDict (List Int)) fuel
      = .ok (sortByKey k.charNgrams) := by
    have := dump_trie k.charNgrams (·.1) (·.2) wf.charKeys fuel (by omega)
    rw [map_fst_snd] at this
    exact this
  obtain ⟨cn, hcn1, hcn2⟩ := mapRes_mapOpt (f := charNgramOf k.charW) (g := expCharNgram k)
    (l := sortByKey k.charNgrams) (fun x hx => charNgram_item (wf.charNgrams x (mem_sortByKey.1 hx)))
  -- type n-grams
  have htd : KDict.dump (⟨0, trieStates (k.typeNgrams.map (·.1)), k.typeNgrams.map (·.2)⟩ : KDict (List Int)) fuel
      = .ok (sortByKey k.typeNgrams) := by
    have := dump_trie k.typeNgrams (·.1) (·.2) wf.typeKeys fuel (by omega)
    rw [map_fst_snd] at this
    exact this
  obtain ⟨tn, htn1, htn2⟩ := filterMapRes_filterMapOpt (f := typeNgramOf k.typeW) (g := expTypeNgram k)
    (l := sortByKey k.typeNgrams)
    (fun x hx => typeNgram_item (wf.typeNgrams x (mem_sortByKey.1 hx)).1 (wf.typeNgrams x (mem_sortByKey.1 hx)).2)
  -- dictionary words
  obtain ⟨dw, hdw1, hdw2⟩ := mapRes_mapOpt
    (f := fun e => dictWordOf k.dictN k.nDicts k.dictVec (e.1, reprTagEntry k e)) (g := expWord k)
    (l := sortByKey k.words) (fun x hx => dictWord_item wf (mem_sortByKey.1 hx))
  have hdict : convertDict fuel k.dictN k.dictVec (reprKytea k).dict = .ok dw := by
    simp only [reprKytea, reprDict]
    by_cases hw : (k.words.map (·.1)).isEmpty = true
    · have : k.words = [] := by
        cases h : k.words with
        | nil => rfl
        | cons a t => rw [h] at hw; cases hw
      rw [if_pos hw]
      rw [this] at hdw1
      simp only [sortByKey, mapRes] at hdw1
      simp only [convertDict]
      exact hdw1
    · rw [if_neg hw]
      have hwd := dump_trie k.words (·.1) (reprTagEntry k) wf.wordKeys fuel (by omega)
      simp only [convertDict, KDict.dump, hwd, Res.bind_ok]
      rw [sortByKey_map (reprTagEntry k), mapRes_map]
      exact hdw1
  refine ⟨{ charNgrams := cn, typeNgrams := tn, dict := dw, bias := k.bias, charW := k.charW, typeW := k.typeW,
            tagModels := [] }, ?_, ?_⟩
  · refine convert_of_parts fuel (reprKytea k) (ws := reprWordseg k) (fl := reprLookup k) (bias := k.bias)
      (h1 := rfl) (h2 := rfl) (h3 := rfl) (h6 := hcd) (h7 := hcn1) (h8 := htd) (h9 := htn1) (h10 := hdict) ?_ ?_
    · simp only [reprLookup, reprDict, hcs]; rfl
    · simp only [reprLookup, reprDict, hts]; rfl
  · simp only [expectedModel, hcn2, htn2, hdw2, Option.bind_some]

/-! ## any record structure: what a successful conversion contains -/

theorem bind_eq_ok {α β : Type} {r : Res α} {f : α → Res β} {y : β} (h : r.bind f = .ok y) :
    ∃ a, r = .ok a ∧ f a = .ok y := by
  cases r with
  | ok a => exact ⟨a, rfl, h⟩
  | err e => cases h
  | panic s => cases h
  | ub s => cases h

theorem getOr_err_ok {α : Type} {o : Option α} {e : Err} {a : α} (h : getOr o (.err e) = .ok a) : o = some a := by
  cases o with
  | none => cases h
  | some b => cases h; rfl

theorem getOr_panic_ok {α : Type} {o : Option α} {s : String} {a : α} (h : getOr o (.panic s) = .ok a) : o = some a := by
  cases o with
  | none => cases h
  | some b => cases h; rfl

theorem mem_mapRes {α β : Type} {f : α → Res β} : ∀ {l : List α} {ys : List β}, mapRes f l = .ok ys →
    ∀ y, y ∈ ys ↔ ∃ x ∈ l, f x = .ok y := by
  intro l
  induction l with
  | nil => intro ys h y; simp only [mapRes] at h; cases h; simp
  | cons x xs ih =>
    intro ys h y
    simp only [mapRes] at h
    obtain ⟨b, hb, h⟩ := bind_eq_ok h
    obtain ⟨bs, hbs, h⟩ := bind_eq_ok h
    cases h
    simp only [List.mem_cons, ih hbs y]
    constructor
    · rintro (rfl | ⟨x', hx', hy⟩)
      · exact ⟨x, Or.inl rfl, hb⟩
      · exact ⟨x', Or.inr hx', hy⟩
    · rintro ⟨x', rfl | hx', hy⟩
      · rw [hb] at hy; cases hy; exact Or.inl rfl
      · exact Or.inr ⟨x', hx', hy⟩

theorem mem_filterMapRes {α β : Type} {f : α → Res (Option β)} : ∀ {l : List α} {ys : List β},
    filterMapRes f l = .ok ys → ∀ y, y ∈ ys ↔ ∃ x ∈ l, f x = .ok (some y) := by
  intro l
  induction l with
  | nil => intro ys h y; simp only [filterMapRes] at h; cases h; simp
  | cons x xs ih =>
    intro ys h y
    simp only [filterMapRes] at h
    obtain ⟨b, hb, h⟩ := bind_eq_ok h
    obtain ⟨bs, hbs, h⟩ := bind_eq_ok h
    cases h
    cases b with
    | none =>
      simp only [ih hbs y, List.mem_cons]
      constructor
      · rintro ⟨x', hx', hy⟩; exact ⟨x', Or.inr hx', hy⟩
      · rintro ⟨x', rfl | hx', hy⟩
        · rw [hb] at hy; cases hy
        · exact ⟨x', hx', hy⟩
    | some b =>
      simp only [List.mem_cons, ih hbs y]
      constructor
      · rintro (rfl | ⟨x', hx', hy⟩)
        · exact ⟨x, Or.inl rfl, hb⟩
        · exact ⟨x', Or.inr hx', hy⟩
      · rintro ⟨x', rfl | hx', hy⟩
        · rw [hb] at hy; cases hy; exact Or.inl rfl
        · exact Or.inr ⟨x', hx', hy⟩

/-- a successful conversion of ANY record structure lists exactly the items its three state tables encode -/
theorem convert_any (fuel : Nat) (km : KyteaModel) (m : WModel) (h : convert fuel km = .ok m) :
    ∃ ws fl cd td, km.wordseg = some ws ∧ ws.featureLookup = some fl ∧ fl.charDict = some cd ∧ fl.typeDict = some td ∧
      fl.biases.head? = some m.bias ∧ m.charW = km.config.charW ∧ m.typeW = km.config.typeW ∧ m.tagModels = [] ∧
      (∀ y, y ∈ m.charNgrams ↔ ∃ x, Enc cd.states cd.entries 0 [] x ∧ charNgramOf km.config.charW x = .ok y) ∧
      (∀ y, y ∈ m.typeNgrams ↔ ∃ x, Enc td.states td.entries 0 [] x ∧ typeNgramOf km.config.typeW x = .ok (some y)) ∧
      (∀ y, y ∈ m.dict ↔ ∃ kd x, km.dict = some kd ∧ Enc kd.states kd.entries 0 [] x ∧
        dictWordOf km.config.dictN kd.nDicts fl.dictVec x = .ok y) := by
  simp only [convert] at h
  obtain ⟨ws, hws, h⟩ := bind_eq_ok h
  obtain ⟨fl, hfl, h⟩ := bind_eq_ok h
  obtain ⟨bias, hbias, h⟩ := bind_eq_ok h
  obtain ⟨cd, hcd, h⟩ := bind_eq_ok h
  obtain ⟨td, htd, h⟩ := bind_eq_ok h
  obtain ⟨citems, hci, h⟩ := bind_eq_ok h
  obtain ⟨cn, hcn, h⟩ := bind_eq_ok h
  obtain ⟨titems, hti, h⟩ := bind_eq_ok h
  obtain ⟨tn, htn, h⟩ := bind_eq_ok h
  obtain ⟨dw, hdw, h⟩ := bind_eq_ok h
  cases h
  refine ⟨ws, fl, cd, td, getOr_err_ok hws, getOr_err_ok hfl, getOr_err_ok hcd, getOr_err_ok htd,
    getOr_panic_ok hbias, rfl, rfl, rfl, ?_, ?_, ?_⟩
  · intro y
    rw [mem_mapRes hcn y]
    constructor
    · rintro ⟨x, hx, hy⟩; exact ⟨x, (dump_correct _ _ fuel citems hci x).1 hx, hy⟩
    · rintro ⟨x, hx, hy⟩; exact ⟨x, (dump_correct _ _ fuel citems hci x).2 hx, hy⟩
  · intro y
    rw [mem_filterMapRes htn y]
    constructor
    · rintro ⟨x, hx, hy⟩; exact ⟨x, (dump_correct _ _ fuel titems hti x).1 hx, hy⟩
    · rintro ⟨x, hx, hy⟩; exact ⟨x, (dump_correct _ _ fuel titems hti x).2 hx, hy⟩
  · intro y
    cases hd : km.dict with
    | none =>
      rw [hd] at hdw
      simp only [convertDict] at hdw
      cases hdw
      simp
    | some kd =>
      rw [hd] at hdw
      simp only [convertDict] at hdw
      obtain ⟨items, hit, hdw⟩ := bind_eq_ok hdw
      rw [mem_mapRes hdw y]
      constructor
      · rintro ⟨x, hx, hy⟩; exact ⟨kd, x, rfl, (dump_correct _ _ fuel items hit x).1 hx, hy⟩
      · rintro ⟨kd', x, hk, hx, hy⟩
        cases hk
        exact ⟨x, (dump_correct _ _ fuel items hit x).2 hx, hy⟩

end V.C17L
