import VProofs.C01
import VProofs.C09
import VProofs.Lemmas.FeatDict
/-!
# The assembled boundary model is well-formed (for C11)

Distinct keys come from the sortedness in `Inv`, the vector shapes from `Inv`/`vector_shape`; the type codes are tracked
here with a key predicate through `placeNgram` / `asmStep` / `asmFold`.
-/
namespace V.C11L
open V.C01L V.C09L

/-! ## a predicate on the keys of the type n-gram map -/

section
variable {α : Type} [DecidableEq α]

theorem placeNgram_keys (lt : List α → List α → Bool) (W : Nat) (g : List α) (rel w : Int) (R : List α → Prop)
    (m m' : List (List α × List Int)) (hm : ∀ e ∈ m, R e.1) (hg : R g) (h : placeNgram lt W g rel w m = .ok m') :
    ∀ e ∈ m', R e.1 := by
  unfold placeNgram at h
  exact sortedUpsert_all g _ _ (fun e => R e.1) (fun _ _ => hg) (fun _ _ hP _ => hP) m m' hm h

end

/-- what the type features of the trace satisfy -/
def TypeKeys (R : List Nat → Prop) (trace : List (Feature × Int)) : Prop :=
  ∀ e ∈ trace, ∀ g rel, e.1 = Feature.typeNgram g rel → R g

theorem asmStep_typeKeys (cfg : TrainCfg) (R : List Nat → Prop) (a a' : Asm) (fw : Feature × Int)
    (ht : ∀ e ∈ a.typeM, R e.1) (hfw : ∀ g rel, fw.1 = Feature.typeNgram g rel → R g)
    (h : asmStep cfg a fw = .ok a') : ∀ e ∈ a'.typeM, R e.1 := by
  obtain ⟨f, w⟩ := fw
  unfold asmStep at h
  by_cases hw : w = 0
  · simp only [hw, if_true, Res.ok.injEq] at h
    subst h
    exact ht
  · simp only [hw, if_false] at h
    cases f with
    | charNgram g rel =>
      obtain ⟨m', _, rfl⟩ := C09L.res_map_ok _ _ _ h
      exact ht
    | typeNgram g rel =>
      obtain ⟨m', hm', rfl⟩ := C09L.res_map_ok _ _ _ h
      exact placeNgram_keys _ _ _ _ _ R _ _ ht (hfw g rel rfl) hm'
    | dictWord len pos =>
      simp only at h
      split at h
      · cases h
      · cases h
        exact ht

theorem asmFold_typeKeys (cfg : TrainCfg) (R : List Nat → Prop) :
    ∀ (trace : List (Feature × Int)) (a a' : Asm), (∀ e ∈ a.typeM, R e.1) → TypeKeys R trace →
      asmFold cfg trace a = .ok a' → ∀ e ∈ a'.typeM, R e.1
  | [], a, a', ht, _, h => by
    simp only [asmFold, Res.ok.injEq] at h
    subst h
    exact ht
  | fw :: r, a, a', ht, hk, h => by
    simp only [asmFold] at h
    cases hs : asmStep cfg a fw with
    | ok a1 =>
      rw [hs] at h
      exact asmFold_typeKeys cfg R r a1 a'
        (asmStep_typeKeys cfg R a a1 fw ht (hk fw List.mem_cons_self) hs)
        (fun e he => hk e (List.mem_cons_of_mem _ he)) h
    | err _ => rw [hs] at h; cases h
    | panic _ => rw [hs] at h; cases h
    | ub _ => rw [hs] at h; cases h

/-- the type n-grams the trainer extracts consist of character-type codes -/
theorem gen_type_codes (cfg : TrainCfg) (text : List Char) (i : Nat) (g : List Nat) (rel : Int)
    (h : Feature.typeNgram g rel ∈ genFeatures cfg text i) : ∀ c ∈ g, 1 ≤ c ∧ c ≤ 6 := by
  unfold genFeatures at h
  rcases List.mem_append.mp h with h | h
  · rcases List.mem_append.mp h with h | h
    · obtain ⟨p, _, hp⟩ := List.mem_map.mp h
      cases hp
    · obtain ⟨p, hp, he⟩ := List.mem_map.mp h
      rw [ngramFeats_eq] at hp
      obtain ⟨n, _, hp⟩ := List.mem_flatMap.mp hp
      obtain ⟨j, _, hp⟩ := List.mem_map.mp hp
      have hg : g = ((typesOf text).drop j).take (n + 1) := by
        rw [← hp] at he
        simp only [Feature.typeNgram.injEq] at he
        exact he.1.symm
      intro c hc
      rw [hg] at hc
      exact typesOf_bounds text c (List.mem_of_mem_drop (List.mem_of_mem_take hc))
  · obtain ⟨len, pos, hf⟩ := C10L.mem_dictFeats h
    cases hf

/-- the assembled boundary model is well-formed -/
theorem assembled_wf (cfg : TrainCfg) (hne : ∀ w ∈ cfg.dictWords, w ≠ []) (hnd : cfg.dictWords.Nodup)
    (hD : 1 ≤ cfg.dictMaxLen) (hcw : 1 ≤ cfg.charW ∧ cfg.charW ≤ 255) (htw : 1 ≤ cfg.typeW ∧ cfg.typeW ≤ 255)
    (hlen : ∀ w ∈ cfg.dictWords, w.length ≤ 32767) (trace : List (Feature × Int)) (bias : Int) (tms : List TagModel)
    (hg : ∀ e ∈ trace, ∃ text i, i + 1 < text.length ∧ e.1 ∈ genFeatures cfg text i) (m : WModel)
    (h : assembleBoundary cfg trace bias tms = .ok m) : WFModel m := by
  obtain ⟨_, _, hds, _, _, _, hdw⟩ := vector_shape cfg trace bias tms m h
  obtain ⟨a, dict, ha, _, rfl⟩ := assemble_ok cfg trace bias tms m h
  obtain ⟨a1, ha1, hinv⟩ := asmFold_inv cfg trace (fun _ => 0) _ (inv_init cfg) (by
    intro e he
    obtain ⟨text, i, _, hm⟩ := hg e he
    exact good_of_gen cfg hne hD e.1 text i hm)
  rw [ha] at ha1
  simp only [Res.ok.injEq] at ha1
  subst ha1
  have hcodes : ∀ e ∈ a.typeM, ∀ c ∈ e.1, 1 ≤ c ∧ c ≤ 6 := by
    refine asmFold_typeKeys cfg (fun g => ∀ c ∈ g, 1 ≤ c ∧ c ≤ 6) trace _ a (by intro e he; cases he) ?_ ha
    intro e he g rel heq
    obtain ⟨text, i, _, hm⟩ := hg e he
    rw [heq] at hm
    exact gen_type_codes cfg text i g rel hm
  have hcn := Sorted.nodup (lexLt_st ltChar_st) hinv.chars.1
  have htn := Sorted.nodup (lexLt_st ltNat_st) hinv.types.1
  refine { charW_pos := hcw.1, charW_le := hcw.2, typeW_pos := htw.1, typeW_le := htw.2,
           char_nodup := ?_, char_shape := ?_, type_nodup := ?_, type_shape := ?_, dict_nodup := ?_, dict_shape := ?_ }
  · simpa [List.map_map, Function.comp_def] using hcn
  · intro d hd
    obtain ⟨e, he, rfl⟩ := List.mem_map.mp hd
    obtain ⟨h1, h2, h3, _⟩ := hinv.chars.2.1 e he
    exact ⟨h3.1, h2, h1⟩
  · simpa [List.map_map, Function.comp_def] using htn
  · intro d hd
    obtain ⟨e, he, rfl⟩ := List.mem_map.mp hd
    obtain ⟨h1, h2, h3, _⟩ := hinv.types.2.1 e he
    exact ⟨h3.1, h2, h1, hcodes e he⟩
  · rw [hdw]; exact hnd
  · intro d hd
    have hw : d.word ∈ cfg.dictWords := by rw [← hdw]; exact List.mem_map.mpr ⟨d, hd, rfl⟩
    have h1 : 1 ≤ d.word.length := by
      have := hne _ hw
      cases hdw' : d.word with
      | nil => exact absurd hdw' this
      | cons _ _ => simp
    exact ⟨h1, hlen _ hw, hds d hd⟩

end V.C11L
