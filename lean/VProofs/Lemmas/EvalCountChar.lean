import VModel.Cli
/-! Helper lemmas for C20 (`evaluate`, `--metric char`): the counting loop equals four filter counts. -/
namespace V.C20E

/-- one step of the character loop -/
def charStep (acc : Nat × Nat × Nat × Nat) (x : B × B) : Nat × Nat × Nat × Nat :=
  if x.1 = x.2 then (if x.2 = B.W then (acc.1 + 1, acc.2.1, acc.2.2.1, acc.2.2.2) else (acc.1, acc.2.1 + 1, acc.2.2.1, acc.2.2.2))
  else if x.2 = B.W then (acc.1, acc.2.1, acc.2.2.1 + 1, acc.2.2.2) else (acc.1, acc.2.1, acc.2.2.1, acc.2.2.2 + 1)

def cTP (zs : List (B × B)) : Nat := (zs.filter fun x => decide (x.1 = x.2) && decide (x.2 = B.W)).length
def cTN (zs : List (B × B)) : Nat := (zs.filter fun x => decide (x.1 = x.2) && decide (x.2 ≠ B.W)).length
def cFP (zs : List (B × B)) : Nat := (zs.filter fun x => decide (x.1 ≠ x.2) && decide (x.2 = B.W)).length
def cFN (zs : List (B × B)) : Nat := (zs.filter fun x => decide (x.1 ≠ x.2) && decide (x.2 ≠ B.W)).length

theorem charLine (zs : List (B × B)) (a b c d : Nat) :
    zs.foldl charStep (a, b, c, d) = (a + cTP zs, b + cTN zs, c + cFP zs, d + cFN zs) := by
  induction zs generalizing a b c d with
  | nil => simp [cTP, cTN, cFP, cFN]
  | cons x zs ih =>
    rw [List.foldl_cons]
    obtain ⟨r, h⟩ := x
    cases r <;> cases h <;>
      simp [charStep, ih, cTP, cTN, cFP, cFN] <;> omega

theorem charCounts_eq_fold (ls : List EvalLine) :
    charCounts ls = ls.foldl (fun acc l => (l.refB.zip l.sysB).foldl charStep acc) (0, 0, 0, 0) := by
  unfold charCounts
  congr 1

theorem charLines (ls : List EvalLine) (a b c d : Nat) :
    ls.foldl (fun acc l => (l.refB.zip l.sysB).foldl charStep acc) (a, b, c, d) =
      (a + (ls.map fun l => cTP (l.refB.zip l.sysB)).sum, b + (ls.map fun l => cTN (l.refB.zip l.sysB)).sum,
       c + (ls.map fun l => cFP (l.refB.zip l.sysB)).sum, d + (ls.map fun l => cFN (l.refB.zip l.sysB)).sum) := by
  induction ls generalizing a b c d with
  | nil => simp
  | cons l ls ih =>
    rw [List.foldl_cons, charLine, ih]
    simp only [List.map_cons, List.sum_cons, Nat.add_assoc]

theorem char_counts (ls : List EvalLine) :
    charCounts ls =
      ((ls.map fun l => ((l.refB.zip l.sysB).filter fun x => decide (x.1 = x.2) && decide (x.2 = B.W)).length).sum,
       (ls.map fun l => ((l.refB.zip l.sysB).filter fun x => decide (x.1 = x.2) && decide (x.2 ≠ B.W)).length).sum,
       (ls.map fun l => ((l.refB.zip l.sysB).filter fun x => decide (x.1 ≠ x.2) && decide (x.2 = B.W)).length).sum,
       (ls.map fun l => ((l.refB.zip l.sysB).filter fun x => decide (x.1 ≠ x.2) && decide (x.2 ≠ B.W)).length).sum) := by
  rw [charCounts_eq_fold, charLines]
  simp only [Nat.zero_add, cTP, cTN, cFP, cFN]

end V.C20E
