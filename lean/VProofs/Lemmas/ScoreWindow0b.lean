import VProofs.C01
import VProofs.C09
import VProofs.Lemmas.UseAsm
import VProofs.Lemmas.UseNew
/-!
# Window size 0 (C11): the assembled boundary model for windows 0..255

`assembled_wf` of `UseAsm` without the lower bounds on the windows: the n-gram maps of the assembled model are key-sorted
and every vector has the shape of its own window whatever the window is, so with window 0 (where `ngramFeats` produces no
feature and a vector would need `1 ≤ ℓ ≤ 2·0`) the model has no n-gram of that kind at all.
-/
namespace V.C11L
open V.C01L V.C09L

/-- the assembled boundary model satisfies every shape requirement of `WFModel` for its own windows, whatever they are -/
theorem assembled_shapes (cfg : TrainCfg) (hne : ∀ w ∈ cfg.dictWords, w ≠ []) (hnd : cfg.dictWords.Nodup)
    (hD : 1 ≤ cfg.dictMaxLen)
    (hlen : ∀ w ∈ cfg.dictWords, w.length ≤ 32767) (trace : List (Feature × Int)) (bias : Int) (tms : List TagModel)
    (hg : ∀ e ∈ trace, ∃ text i, i + 1 < text.length ∧ e.1 ∈ genFeatures cfg text i) (m : WModel)
    (h : assembleBoundary cfg trace bias tms = .ok m) :
    m.charW = cfg.charW ∧ m.typeW = cfg.typeW ∧
    (m.charNgrams.map (·.ngram)).Nodup ∧
    (∀ d ∈ m.charNgrams, 1 ≤ d.ngram.length ∧ d.ngram.length ≤ 2 * m.charW ∧
      d.weights.length = 2 * m.charW - d.ngram.length + 1) ∧
    (m.typeNgrams.map (·.ngram)).Nodup ∧
    (∀ d ∈ m.typeNgrams, 1 ≤ d.ngram.length ∧ d.ngram.length ≤ 2 * m.typeW ∧
      d.weights.length = 2 * m.typeW - d.ngram.length + 1 ∧ ∀ t ∈ d.ngram, 1 ≤ t ∧ t ≤ 6) ∧
    (m.dict.map (·.word)).Nodup ∧
    (∀ d ∈ m.dict, 1 ≤ d.word.length ∧ d.word.length ≤ 32767 ∧ d.weights.length = d.word.length + 1) := by
  obtain ⟨_, _, hds, _, _, _, hdw⟩ := vector_shape cfg trace bias tms m h
  obtain ⟨a, dict, ha, _, rfl⟩ := assemble_ok cfg trace bias tms m h
  obtain ⟨a1, ha1, hinv⟩ := asmFold_inv cfg trace (fun _ => 0) _ (inv_init cfg) (by
    intro e he
    obtain ⟨text, i, _, hm⟩ := hg e he
    exact good_of_gen cfg hne hD e.1 text i hm)
  rw [ha] at ha1
  simp only [Res.ok.injEq] at ha1
  subst ha1
  have hcodes : ∀ e ∈ a.typeM, ∀ c ∈ e.1, 1 ≤ c ∧ c ≤ 6 := by
    refine asmFold_typeKeys cfg (fun g => ∀ c ∈ g, 1 ≤ c ∧ c ≤ 6) trace _ a (by intro e he; cases he) ?_ ha
    intro e he g rel heq
    obtain ⟨text, i, _, hm⟩ := hg e he
    rw [heq] at hm
    exact gen_type_codes cfg text i g rel hm
  have hcn := Sorted.nodup (lexLt_st ltChar_st) hinv.chars.1
  have htn := Sorted.nodup (lexLt_st ltNat_st) hinv.types.1
  refine ⟨rfl, rfl, ?_, ?_, ?_, ?_, ?_, ?_⟩
  · simpa [List.map_map, Function.comp_def] using hcn
  · intro d hd
    obtain ⟨e, he, rfl⟩ := List.mem_map.mp hd
    obtain ⟨h1, h2, h3, _⟩ := hinv.chars.2.1 e he
    exact ⟨h3.1, h2, h1⟩
  · simpa [List.map_map, Function.comp_def] using htn
  · intro d hd
    obtain ⟨e, he, rfl⟩ := List.mem_map.mp hd
    obtain ⟨h1, h2, h3, _⟩ := hinv.types.2.1 e he
    exact ⟨h3.1, h2, h1, hcodes e he⟩
  · rw [hdw]; exact hnd
  · intro d hd
    have hw : d.word ∈ cfg.dictWords := by rw [← hdw]; exact List.mem_map.mpr ⟨d, hd, rfl⟩
    have h1 : 1 ≤ d.word.length := by
      have := hne _ hw
      cases hdw' : d.word with
      | nil => exact absurd hdw' this
      | cons _ _ => simp
    exact ⟨h1, hlen _ hw, hds d hd⟩

/-- a list whose members all satisfy `1 ≤ ℓ ≤ 2·0` is empty -/
theorem nil_of_shape0 {β : Type} (l : List β) (len : β → Nat) (W : Nat) (h0 : W = 0)
    (h : ∀ d ∈ l, 1 ≤ len d ∧ len d ≤ 2 * W) : l = [] := by
  cases l with
  | nil => rfl
  | cons d r =>
    have := h d List.mem_cons_self
    omega

/-- windows 0..255: the assembled model is well-formed in the sense of `WFModel0`, and has NO n-gram of a kind whose window
is 0 (so `dropW0` is the identity on it) -/
theorem assembled_wf0 (cfg : TrainCfg) (hne : ∀ w ∈ cfg.dictWords, w ≠ []) (hnd : cfg.dictWords.Nodup)
    (hD : 1 ≤ cfg.dictMaxLen) (hcw : cfg.charW ≤ 255) (htw : cfg.typeW ≤ 255)
    (hlen : ∀ w ∈ cfg.dictWords, w.length ≤ 32767) (trace : List (Feature × Int)) (bias : Int) (tms : List TagModel)
    (hg : ∀ e ∈ trace, ∃ text i, i + 1 < text.length ∧ e.1 ∈ genFeatures cfg text i) (m : WModel)
    (h : assembleBoundary cfg trace bias tms = .ok m) :
    WFModel0 m ∧ (m.charW = 0 → m.charNgrams = []) ∧ (m.typeW = 0 → m.typeNgrams = []) := by
  obtain ⟨e1, e2, h1, h2, h3, h4, h5, h6⟩ := assembled_shapes cfg hne hnd hD hlen trace bias tms hg m h
  refine ⟨{ charW_le := by rw [e1]; exact hcw, typeW_le := by rw [e2]; exact htw, char_nodup := fun _ => h1,
            char_shape := fun _ => h2, type_nodup := fun _ => h3, type_shape := fun _ => h4, dict_nodup := h5,
            dict_shape := h6 }, ?_, ?_⟩
  · intro h0
    exact nil_of_shape0 _ (fun d => d.ngram.length) _ h0 (fun d hd => ⟨(h2 d hd).1, (h2 d hd).2.1⟩)
  · intro h0
    exact nil_of_shape0 _ (fun d => d.ngram.length) _ h0 (fun d hd => ⟨(h4 d hd).1, (h4 d hd).2.1⟩)

/-! ## `Predictor.new` accepts every `WFModel0` (the converse direction, as in `UseNew`) -/

theorem charScorerNew_total_gen (cfg : Cfg) (m : WModel) (hE : m.charW = 0 → m.charNgrams = [])
    (hcn : ∀ d ∈ m.charNgrams, d.ngram ≠ [])
    (hdict : ∀ d ∈ m.dict, 1 ≤ d.word.length ∧ d.word.length ≤ 32767)
    (T : List (List (TagNgramData Char)))
    (hT : ∀ tm ∈ T, ∀ d ∈ tm, d.ngram ≠ [] ∧ d.weights ≠ []) : ∃ cs, charScorerNew cfg m T = .ok cs := by
  simp only [charScorerNew, charModel_if m hE]
  split
  · exact ⟨none, rfl⟩
  · rename_i hc
    have hlong : m.dict.any (fun d => decide (32767 < d.word.length)) = false := by
      rw [List.any_eq_false]
      intro d hd
      have := (hdict d hd).2
      simp only [decide_eq_true_eq]; omega
    rw [if_neg (by rw [hlong]; simp)]
    have hdn : ∀ d ∈ m.dict, d.word ≠ [] := by
      intro d hd h
      have := (hdict d hd).1
      rw [h] at this; simp at this
    split
    · rename_i htag
      apply res_map_total
      apply tagBuild_total cfg m.charW _ T
      · intro e he
        rcases List.mem_append.mp he with he | he
        · obtain ⟨d, hd, rfl⟩ := List.mem_map.mp he
          exact ⟨hcn d hd, rfl⟩
        · obtain ⟨d, hd, rfl⟩ := List.mem_map.mp he
          exact ⟨hdn d hd, rfl⟩
      · exact fun tm htm d hd => (hT tm htm d hd).1
      · intro hnil
        simp only [List.append_eq_nil_iff, List.map_eq_nil_iff] at hnil
        obtain ⟨⟨h1, h2⟩, h3⟩ := hnil
        have hcfg : cfg.tagPred = true := by
          revert htag; cases cfg.tagPred <;> simp
        apply hc
        rw [h1, h2, hcfg]
        simp only [List.isEmpty_nil, Bool.not_true, Bool.false_or, Bool.true_and]
        cases hall : T.all (·.isEmpty) with
        | true => rfl
        | false => exact absurd h3 (tagEntries_ne_nil T (fun tm htm d hd => (hT tm htm d hd).2) hall)
    · rename_i htag
      apply res_map_total
      apply buildBoundary_total
      apply addAll_buildOk
      · intro hnil
        simp only [List.append_eq_nil_iff, List.map_eq_nil_iff] at hnil
        apply hc
        rw [hnil.1, hnil.2]
        simp only [List.isEmpty_nil, Bool.true_and]
        revert htag
        cases cfg.tagPred <;> cases T <;> simp
      · intro e he
        rcases List.mem_append.mp he with he | he
        · obtain ⟨d, hd, rfl⟩ := List.mem_map.mp he
          exact hcn d hd
        · obtain ⟨d, hd, rfl⟩ := List.mem_map.mp he
          exact hdn d hd

theorem typeScorerNew_total_gen (cfg : Cfg) (m : WModel) (hE : m.typeW = 0 → m.typeNgrams = [])
    (htn : ∀ d ∈ m.typeNgrams, d.ngram ≠ []) (hnd : (m.typeNgrams.map (·.ngram)).Nodup)
    (T : List (List (TagNgramData Nat)))
    (hT : ∀ tm ∈ T, ∀ d ∈ tm, d.ngram ≠ [] ∧ d.weights ≠ []) : ∃ ts, typeScorerNew cfg m T = .ok ts := by
  simp only [typeScorerNew, typeModel_if m hE]
  split
  · exact ⟨none, rfl⟩
  · rename_i hc
    split
    · rename_i htag
      apply res_map_total
      apply tagBuild_total cfg m.typeW _ T
      · intro e he
        obtain ⟨d, hd, rfl⟩ := List.mem_map.mp he
        exact ⟨htn d hd, rfl⟩
      · exact fun tm htm d hd => (hT tm htm d hd).1
      · intro hnil
        simp only [List.append_eq_nil_iff, List.map_eq_nil_iff] at hnil
        obtain ⟨h1, h3⟩ := hnil
        have hcfg : cfg.tagPred = true := by
          revert htag; cases cfg.tagPred <;> simp
        apply hc
        rw [h1, hcfg]
        simp only [List.isEmpty_nil, Bool.not_true, Bool.false_or, Bool.true_and]
        cases hall : T.all (·.isEmpty) with
        | true => rfl
        | false => exact absurd h3 (tagEntries_ne_nil T (fun tm htm d hd => (hT tm htm d hd).2) hall)
    · rename_i htag
      have hne : m.typeNgrams ≠ [] := by
        intro hnil
        apply hc
        rw [hnil]
        simp only [List.isEmpty_nil, Bool.true_and]
        revert htag
        cases cfg.tagPred <;> cases T <;> simp
      split
      · split
        · exact ⟨_, rfl⟩
        · rename_i hbad
          exfalso
          apply hbad
          apply pmaBuildOk_intro _ ?_ ?_ hnd
          · intro h; exact hne (List.map_eq_nil_iff.mp h)
          · intro h
            obtain ⟨d, hd, hk⟩ := List.mem_map.mp h
            exact htn d hd hk
      · apply res_map_total
        apply buildBoundary_total
        apply addAll_buildOk
        · intro h; exact hne (List.map_eq_nil_iff.mp h)
        · intro e he
          obtain ⟨d, hd, rfl⟩ := List.mem_map.mp he
          exact htn d hd

theorem ne_nil_of_length_pos {β : Type} (l : List β) (h : 1 ≤ l.length) : l ≠ [] := by
  intro hc; rw [hc] at h; simp at h

theorem charScorerNew_total0 (cfg : Cfg) (m : WModel) (hm : WFModel0 m) (T : List (List (TagNgramData Char)))
    (hT : ∀ tm ∈ T, ∀ d ∈ tm, d.ngram ≠ [] ∧ d.weights ≠ []) : ∃ cs, charScorerNew cfg m T = .ok cs := by
  have hdict : ∀ d ∈ m.dict, 1 ≤ d.word.length ∧ d.word.length ≤ 32767 :=
    fun d hd => ⟨(hm.dict_shape d hd).1, (hm.dict_shape d hd).2.1⟩
  by_cases h0 : m.charW = 0
  · rw [charScorerNew_drop cfg m T h0]
    exact charScorerNew_total_gen cfg { m with charNgrams := [] } (fun _ => rfl) (fun d hd => by cases hd) hdict T hT
  · exact charScorerNew_total_gen cfg m (fun h => absurd h h0)
      (fun d hd => ne_nil_of_length_pos _ (hm.char_shape (by omega) d hd).1) hdict T hT

theorem typeScorerNew_total0 (cfg : Cfg) (m : WModel) (hm : WFModel0 m) (T : List (List (TagNgramData Nat)))
    (hT : ∀ tm ∈ T, ∀ d ∈ tm, d.ngram ≠ [] ∧ d.weights ≠ []) : ∃ ts, typeScorerNew cfg m T = .ok ts := by
  by_cases h0 : m.typeW = 0
  · rw [typeScorerNew_drop cfg m T h0]
    exact typeScorerNew_total_gen cfg { m with typeNgrams := [] } (fun _ => rfl) (fun d hd => by cases hd)
      List.nodup_nil T hT
  · exact typeScorerNew_total_gen cfg m (fun h => absurd h h0)
      (fun d hd => ne_nil_of_length_pos _ (hm.type_shape (by omega) d hd).1) (hm.type_nodup (by omega)) T hT

/-- `Predictor.new` accepts every `WFModel0` whose tag n-grams are non-empty and all carry at least one weight -/
theorem new_total0 (cfg : Cfg) (m : WModel) (hm : WFModel0 m)
    (hc : ∀ tm ∈ m.tagModels, ∀ d ∈ tm.charNgrams, d.ngram ≠ [] ∧ d.weights ≠ [])
    (ht : ∀ tm ∈ m.tagModels, ∀ d ∈ tm.typeNgrams, d.ngram ≠ [] ∧ d.weights ≠ [])
    (pt : Bool) (hcfg : pt = true → cfg.tagPred = true) : ∃ p, Predictor.new cfg m pt = .ok p := by
  have h0 : (pt && !cfg.tagPred) = false := by
    cases hpt : pt with
    | false => rfl
    | true => rw [hcfg hpt]; rfl
  unfold Predictor.new
  rw [if_neg (by rw [h0]; simp)]
  simp only
  obtain ⟨cs, hcs⟩ := charScorerNew_total0 cfg m hm (if (pt && cfg.tagPred) = true then m.tagModels.map (·.charNgrams) else [])
    (by
      intro tm htm d hd
      split at htm
      · obtain ⟨x, hx, rfl⟩ := List.mem_map.mp htm
        exact hc x hx d hd
      · cases htm)
  obtain ⟨ts, hts⟩ := typeScorerNew_total0 cfg m hm (if (pt && cfg.tagPred) = true then m.tagModels.map (·.typeNgrams) else [])
    (by
      intro tm htm d hd
      split at htm
      · obtain ⟨x, hx, rfl⟩ := List.mem_map.mp htm
        exact ht x hx d hd
      · cases htm)
  rw [hcs]
  simp only
  rw [hts]
  exact ⟨_, rfl⟩

end V.C11L
