import VModel.Spec
import VProofs.Lemmas.ScoreBoundRun
import VProofs.Lemmas.TagToken
/-!
# The mass of a tag model and the bound on the specified tag scores (for the C06 overflow bound)

`TagModel.mass` is the sum of the absolute values of ALL weights of one tag model (bias, character tag n-grams, type tag
n-grams, every relative position, every class); `TagModel.classMass tm c` is the part of it that belongs to class `c`.
A tag n-gram weight vector `w` of an entry `d` is counted for a token at most once (it asks for ONE end position,
`i + w.rel`), so every class score is within the class mass, hence within the mass.  Entries and weight vectors that occur
several times in the lists of the model count with their multiplicity, on both sides.

`WModel.tagMass` is the MAXIMUM of the masses of the tag models: scores and merged weights of different tag models
(`token_id`s) are never added to each other.
-/
namespace V

/-- sum of the absolute values of all weights of a list of tag n-grams -/
def tagNgramMass {α : Type} (tbl : List (TagNgramData α)) : Nat :=
  (tbl.map fun d => (d.weights.map fun w => absSum w.weights).sum).sum

/-- the part of `tagNgramMass` that belongs to class `c` -/
def tagNgramClassMass {α : Type} (tbl : List (TagNgramData α)) (c : Nat) : Nat :=
  (tbl.map fun d => (d.weights.map fun w => (getZ w.weights (c : Int)).natAbs).sum).sum

/-- the mass of one tag model: the absolute values of its bias and of all its tag n-gram weights -/
def TagModel.mass (tm : TagModel) : Nat :=
  absSum tm.bias + tagNgramMass tm.charNgrams + tagNgramMass tm.typeNgrams

/-- the mass of class `c` of one tag model -/
def TagModel.classMass (tm : TagModel) (c : Nat) : Nat :=
  (getZ tm.bias (c : Int)).natAbs + tagNgramClassMass tm.charNgrams c + tagNgramClassMass tm.typeNgrams c

/-- the tag mass of a model: the largest mass of its tag models -/
def WModel.tagMass (m : WModel) : Nat := m.tagModels.foldl (fun acc tm => max acc tm.mass) 0

namespace C06B
open C01L C01B C06L
variable {α : Type} [DecidableEq α]

/-! ## sums -/

theorem natsum_map_le {β : Type} (l : List β) (f g : β → Nat) (h : ∀ a ∈ l, f a ≤ g a) :
    (l.map f).sum ≤ (l.map g).sum := by
  induction l with
  | nil => simp
  | cons a l ih =>
    simp only [List.map_cons, List.sum_cons]
    have h1 := h a (by simp)
    have h2 := ih (fun b hb => h b (by simp [hb]))
    omega

omit [DecidableEq α] in
/-- a double sum over the weight vectors of a table, in absolute value -/
theorem iabs_dsum_le (tbl : List (TagNgramData α)) (f g : TagNgramData α → TagWeight → Int)
    (h : ∀ d ∈ tbl, ∀ w ∈ d.weights, iabs (f d w) ≤ g d w) :
    iabs (tbl.map fun d => (d.weights.map fun w => f d w).sum).sum
      ≤ (tbl.map fun d => (d.weights.map fun w => g d w).sum).sum := by
  refine Int.le_trans (iabs_sum_map_le _ _) (isum_map_le _ _ _ ?_)
  intro d hd
  refine Int.le_trans (iabs_sum_map_le _ _) (isum_map_le _ _ _ ?_)
  intro w hw
  exact h d hd w hw

omit [DecidableEq α] in
theorem classMass_cast (tbl : List (TagNgramData α)) (c : Nat) :
    ((tagNgramClassMass tbl c : Nat) : Int)
      = (tbl.map fun d => (d.weights.map fun w => iabs (getZ w.weights (c : Int))).sum).sum := by
  unfold tagNgramClassMass
  rw [natsum_cast]
  apply isum_map_congr
  intro d _
  rw [natsum_cast]
  rfl

omit [DecidableEq α] in
theorem tagNgramClassMass_le (tbl : List (TagNgramData α)) (c : Nat) : tagNgramClassMass tbl c ≤ tagNgramMass tbl := by
  unfold tagNgramClassMass tagNgramMass
  apply natsum_map_le
  intro d _
  apply natsum_map_le
  intro w _
  have := iabs_getZ_le w.weights (c : Int)
  unfold iabs at this
  omega

theorem classMass_le_mass (tm : TagModel) (c : Nat) : tm.classMass c ≤ tm.mass := by
  unfold TagModel.classMass TagModel.mass
  have h1 := tagNgramClassMass_le tm.charNgrams c
  have h2 := tagNgramClassMass_le tm.typeNgrams c
  have h3 := iabs_getZ_le tm.bias (c : Int)
  unfold iabs at h3
  omega

/-! ## `WModel.tagMass` -/

theorem foldl_max_mass_le (tms : List TagModel) : ∀ acc, acc ≤ tms.foldl (fun acc tm => max acc tm.mass) acc := by
  induction tms with
  | nil => intro acc; exact Nat.le_refl _
  | cons a r ih => intro acc; exact Nat.le_trans (Nat.le_max_left _ _) (ih _)

theorem foldl_max_mass_mem (tms : List TagModel) (tm : TagModel) (h : tm ∈ tms) :
    ∀ acc, tm.mass ≤ tms.foldl (fun acc tm => max acc tm.mass) acc := by
  induction tms with
  | nil => cases h
  | cons a r ih =>
    intro acc
    rcases List.mem_cons.mp h with e | e
    · subst e
      exact Nat.le_trans (Nat.le_max_right _ _) (foldl_max_mass_le r _)
    · exact ih e _

theorem mass_le_tagMass (m : WModel) (tm : TagModel) (h : tm ∈ m.tagModels) : tm.mass ≤ m.tagMass :=
  foldl_max_mass_mem m.tagModels tm h 0

/-- the maximum is attained (or there is no tag model and it is 0) -/
theorem foldl_max_mass_attained (tms : List TagModel) :
    ∀ acc, tms.foldl (fun acc tm => max acc tm.mass) acc = acc ∨
      ∃ tm ∈ tms, tms.foldl (fun acc tm => max acc tm.mass) acc = tm.mass := by
  induction tms with
  | nil => intro acc; exact Or.inl rfl
  | cons a r ih =>
    intro acc
    simp only [List.foldl_cons]
    rcases ih (max acc a.mass) with h | ⟨tm, htm, h⟩
    · rw [h]
      rcases Nat.le_total acc a.mass with h1 | h1
      · right; exact ⟨a, by simp, Nat.max_eq_right h1⟩
      · left; exact Nat.max_eq_left h1
    · right; exact ⟨tm, List.mem_cons_of_mem _ htm, h⟩

theorem tagMass_attained (m : WModel) : m.tagMass = 0 ∨ ∃ tm ∈ m.tagModels, m.tagMass = tm.mass :=
  foldl_max_mass_attained m.tagModels 0

/-! ## the specification -/

/-- the tag n-grams of one kind give class `c` at most the class mass of the table -/
theorem tagNgramScore_abs_le (tbl : List (TagNgramData α)) (seq : List α) (i c : Nat) :
    iabs (tagNgramScore tbl seq i c) ≤ ((tagNgramClassMass tbl c : Nat) : Int) := by
  unfold tagNgramScore
  rw [classMass_cast]
  apply iabs_dsum_le
  intro d _ w _
  split
  · exact Int.le_refl _
  · rw [iabs_zero]; exact iabs_nonneg _

theorem specTagScores_getZ (tm : TagModel) (text : List Char) (i c : Nat) (hc : c < nClass tm.tags) :
    getZ (specTagScores tm text i) (c : Int)
      = getZ tm.bias (c : Int) + tagNgramScore tm.charNgrams text i c + tagNgramScore tm.typeNgrams (typesOf text) i c := by
  rw [getZ_nat, List.getD_eq_getElem?_getD]
  unfold specTagScores
  rw [List.getElem?_map, List.getElem?_range hc]
  rfl

/-- every class score of the specification is within the mass of its class -/
theorem specTagScores_class_le (tm : TagModel) (text : List Char) (i c : Nat) :
    (getZ (specTagScores tm text i) (c : Int)).natAbs ≤ tm.classMass c := by
  by_cases hc : c < nClass tm.tags
  · rw [specTagScores_getZ tm text i c hc]
    unfold TagModel.classMass
    have h1 := tagNgramScore_abs_le tm.charNgrams text i c
    have h2 := tagNgramScore_abs_le tm.typeNgrams (typesOf text) i c
    unfold iabs at h1 h2
    omega
  · rw [getZ_ge _ _ (by rw [specTagScores_length]; omega)]
    simp

theorem specTagScores_mem_le (tm : TagModel) (text : List Char) (i : Nat) :
    ∀ x ∈ specTagScores tm text i, x.natAbs ≤ tm.mass := by
  intro x hx
  obtain ⟨j, hj, rfl⟩ := mem_getD _ x hx
  rw [← getZ_nat]
  exact Nat.le_trans (specTagScores_class_le tm text i j) (classMass_le_mass tm j)

/-! ## partial sums of the rows of a tag table -/

/-- adding up the row sums `tagSum tm rel (p rel) c` over ANY set of rows `rel < N` (in particular over the rows processed so
far), whatever the matched patterns `p rel` are, stays within the class mass of the table: a weight vector belongs to one
row only -/
theorem tagSum_partial_abs_le (tm : List (TagNgramData α)) (N : Nat) (pf : Nat → List α) (cond : Nat → Bool) (c : Nat) :
    iabs ((List.range N).map fun rel => if cond rel = true then tagSum tm rel (pf rel) c else 0).sum
      ≤ ((tagNgramClassMass tm c : Nat) : Int) := by
  refine Int.le_trans (iabs_sum_map_le _ _) ?_
  refine Int.le_trans (isum_map_le _ _ (fun rel => (tm.map fun d => (d.weights.map fun w =>
      if w.rel = rel then iabs (getZ w.weights (c : Int)) else 0).sum).sum) ?_) ?_
  · intro rel _
    split
    · unfold tagSum
      apply iabs_dsum_le
      intro d _ w _
      by_cases h1 : w.rel = rel
      · rw [if_pos h1]
        split
        · exact Int.le_refl _
        · rw [iabs_zero]; exact iabs_nonneg _
      · rw [if_neg h1, if_neg (fun h => h1 h.1), iabs_zero]
        exact Int.le_refl _
    · rw [iabs_zero]
      apply isum_map_nonneg
      intro d _
      apply isum_map_nonneg
      intro w _
      have := iabs_nonneg (getZ w.weights (c : Int))
      split <;> omega
  · rw [isum_comm, classMass_cast]
    apply isum_map_le
    intro d _
    rw [isum_comm]
    apply isum_map_le
    intro w _
    rw [isum_range_select N w.rel (fun _ => iabs (getZ w.weights (c : Int)))]
    have := iabs_nonneg (getZ w.weights (c : Int))
    split <;> omega

end C06B
end V
