import VProofs.Lemmas.QuantAll
/-!
# Sanity of the binary64 model: decoding gives doubles, division gives doubles, `toBits ∘ ofBits = id`
-/
namespace V.QuantL
open V V.F64

theorem log2_eq_of {a k : Nat} (h1 : 2 ^ k ≤ a) (h2 : a < 2 ^ (k + 1)) : a.log2 = k := by
  have hne : a ≠ 0 := by have := two_pow_pos k; omega
  have hle : a.log2 < k + 1 := (Nat.log2_lt hne).mpr h2
  have hge : ¬ a.log2 < k := fun h => by have := (Nat.log2_lt hne).mp h; omega
  omega

/-- a magnitude with at most 53 significant bits passes the executable test `repUnits` -/
theorem repUnits_of_repU {r : Nat} (h : RepU r) : repUnits r = true := by
  obtain ⟨c, t, rfl, hc⟩ := h
  unfold repUnits
  rw [beq_iff_eq]
  by_cases h0 : c * 2 ^ t = 0
  · rw [h0]; exact Nat.zero_mod _
  · have hlt : c * 2 ^ t < 2 ^ (53 + t) := by
      rw [Nat.pow_add]; exact Nat.mul_lt_mul_of_pos_right hc (two_pow_pos t)
    have hl : (c * 2 ^ t).log2 < 53 + t := (Nat.log2_lt h0).mpr hlt
    have hs : (c * 2 ^ t).log2 - 52 ≤ t := by omega
    generalize (c * 2 ^ t).log2 - 52 = sh at hs ⊢
    rw [pow_split hs, ← Nat.mul_assoc]
    exact Nat.mul_mod_left _ _

theorem repU_of_repUnits {r : Nat} (h : repUnits r = true) : RepU r := by
  unfold repUnits at h
  rw [beq_iff_eq] at h
  refine ⟨r / 2 ^ (r.log2 - 52), r.log2 - 52, ?_, ?_⟩
  · have := Nat.div_add_mod r (2 ^ (r.log2 - 52))
    rw [h, Nat.add_zero, Nat.mul_comm] at this
    exact this.symm
  · apply (Nat.div_lt_iff_lt_mul (two_pow_pos _)).mpr
    rw [← Nat.pow_add]
    have h1 : r < 2 ^ (r.log2 + 1) := Nat.lt_log2_self
    exact Nat.lt_of_lt_of_le h1 (Nat.pow_le_pow_right (by decide) (by omega))

theorem top_pos : 0 < top := by
  have := top_eq
  have := e2097_pos
  omega

/-- every quotient is a binary64 value (whatever the operands) -/
theorem f64Div_isDouble (x y : F64) : (f64Div x y).IsDouble := by
  cases x with
  | nan => unfold f64Div; exact trivial
  | inf s => cases y <;> (unfold f64Div; exact trivial)
  | fin s a =>
    cases y with
    | nan => unfold f64Div; exact trivial
    | inf t =>
      unfold f64Div
      exact ⟨top_pos, repUnits_of_repU ⟨0, 0, rfl, by decide⟩⟩
    | fin t b =>
      by_cases hb : b = 0
      · unfold f64Div
        simp only []
        rw [if_pos hb]; split <;> exact trivial
      · rw [div_fin_cases s t a b hb]
        cases Nat.lt_or_ge (roundUnits (a * unit) b) top with
        | inl hr =>
          rw [if_pos hr]
          exact ⟨hr, repUnits_of_repU (roundUnits_rep _ _ (Nat.pos_of_ne_zero hb))⟩
        | inr hr => rw [if_neg (Nat.not_lt.mpr hr)]; exact trivial

/-- the normal numbers: `(2^52 + f)·2^(e−1)` units has exactly `53 + (e − 1)` bits -/
theorem normal_log2 (f e : Nat) (hf : f < 2 ^ 52) : ((2 ^ 52 + f) * 2 ^ e).log2 = 52 + e := by
  apply log2_eq_of
  · rw [Nat.pow_add]; exact Nat.mul_le_mul_right _ (by omega)
  · have : 52 + e + 1 = 53 + e := by omega
    rw [this, Nat.pow_add]
    exact Nat.mul_lt_mul_of_pos_right (by omega) (two_pow_pos e)

/-- `2^2045`: the grid step of the last binade, in units -/
def e2045 : Nat := 2 ^ 2045
theorem e2045_pos : 0 < e2045 := by unfold e2045; exact two_pow_pos 2045
theorem pow_mono2 {i j : Nat} (h : i ≤ j) : 2 ^ i ≤ 2 ^ j := Nat.pow_le_pow_right (by decide) h
set_option exponentiation.threshold 5000 in
theorem pow_le_e2045 (k : Nat) (h : k ≤ 2045) : 2 ^ k ≤ e2045 := pow_mono2 (j := 2045) h
set_option exponentiation.threshold 5000 in
theorem top_split : top = 2 ^ 53 * e2045 := by decide +kernel

theorem toBits_inf (s : Bool) : toBits (.inf s) = (if s then 2 ^ 63 else 0) + 2047 * 2 ^ 52 := rfl
theorem toBits_fin (s : Bool) (a : Nat) : toBits (.fin s a) =
    (if s then 2 ^ 63 else 0) +
      (if a < 2 ^ 52 then a else (a.log2 - 52 + 1) * 2 ^ 52 + (a / 2 ^ (a.log2 - 52) - 2 ^ 52)) := rfl

/-- every bit pattern decodes to a binary64 value -/
theorem ofBits_isDouble (b : Nat) : (ofBits b).IsDouble := by
  unfold ofBits
  simp only []
  split
  · split <;> exact trivial
  · split
    · -- subnormal or zero
      have hf : b % 2 ^ 52 < 2 ^ 52 := Nat.mod_lt _ (by decide)
      refine ⟨?_, ?_⟩
      · have h1 : 2 ^ 52 ≤ top := by
          rw [top_split]
          have : 2 ^ 52 * 1 ≤ 2 ^ 53 * e2045 :=
            Nat.mul_le_mul (by decide) e2045_pos
          omega
        omega
      · apply repUnits_of_repU
        exact ⟨b % 2 ^ 52, 0, by rw [Nat.pow_zero, Nat.mul_one], by omega⟩
    · rename_i he1 he0
      have hf : b % 2 ^ 52 < 2 ^ 52 := Nat.mod_lt _ (by decide)
      have he : b / 2 ^ 52 % 2 ^ 11 < 2 ^ 11 := Nat.mod_lt _ (by decide)
      refine ⟨?_, ?_⟩
      · rw [top_split]
        have h1 : (2 ^ 52 + b % 2 ^ 52) * 2 ^ (b / 2 ^ 52 % 2 ^ 11 - 1) < 2 ^ 53 * 2 ^ (b / 2 ^ 52 % 2 ^ 11 - 1) :=
          Nat.mul_lt_mul_of_pos_right (by omega) (two_pow_pos _)
        have h2 : 2 ^ 53 * 2 ^ (b / 2 ^ 52 % 2 ^ 11 - 1) ≤ 2 ^ 53 * e2045 :=
          Nat.mul_le_mul_left _ (pow_le_e2045 _ (by omega))
        exact Nat.lt_of_lt_of_le h1 h2
      · apply repUnits_of_repU
        exact ⟨2 ^ 52 + b % 2 ^ 52, _, rfl, by omega⟩

/-- decoding loses nothing: every non-NaN 64-bit pattern is recovered from its value (so `ofBits` is injective off the NaNs) -/
theorem toBits_ofBits (b : Nat) (hb : b < 2 ^ 64) (hn : ofBits b ≠ .nan) : toBits (ofBits b) = b := by
  have hf : b % 2 ^ 52 < 2 ^ 52 := Nat.mod_lt _ (by decide)
  have hsgn : (if (b / 2 ^ 63 % 2 == 1) = true then 2 ^ 63 else 0) = b / 2 ^ 63 * 2 ^ 63 := by
    by_cases h : b / 2 ^ 63 % 2 = 1
    · have : (b / 2 ^ 63 % 2 == 1) = true := by rw [beq_iff_eq]; exact h
      rw [if_pos this]; omega
    · have : ¬ (b / 2 ^ 63 % 2 == 1) = true := by rw [beq_iff_eq]; exact h
      rw [if_neg this]; omega
  unfold ofBits at hn ⊢
  simp only [] at hn ⊢
  by_cases he1 : b / 2 ^ 52 % 2 ^ 11 = 2047
  · rw [if_pos he1] at hn ⊢
    by_cases hf0 : b % 2 ^ 52 = 0
    · rw [if_pos hf0, toBits_inf, hsgn]
      omega
    · rw [if_neg hf0] at hn
      exact absurd rfl hn
  · rw [if_neg he1]
    by_cases he0 : b / 2 ^ 52 % 2 ^ 11 = 0
    · rw [if_pos he0, toBits_fin, hsgn, if_pos hf]
      omega
    · rw [if_neg he0, toBits_fin]
      have hge : ¬ (2 ^ 52 + b % 2 ^ 52) * 2 ^ (b / 2 ^ 52 % 2 ^ 11 - 1) < 2 ^ 52 := by
        have : (2 ^ 52 + b % 2 ^ 52) * 1 ≤ (2 ^ 52 + b % 2 ^ 52) * 2 ^ (b / 2 ^ 52 % 2 ^ 11 - 1) :=
          Nat.mul_le_mul_left _ (two_pow_pos _)
        omega
      rw [hsgn, if_neg hge, normal_log2 _ _ hf]
      have hsh : 52 + (b / 2 ^ 52 % 2 ^ 11 - 1) - 52 = b / 2 ^ 52 % 2 ^ 11 - 1 := by omega
      rw [hsh, Nat.mul_div_cancel _ (two_pow_pos _)]
      omega

end V.QuantL
