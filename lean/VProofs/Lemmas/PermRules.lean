import VModel.Filters
import VProofs.Lemmas.PermBase
/-!
# `PatternMatchTagger::rules` (a `HashMap<String, Vec<Option<String>>>`) is read by keyed lookup only
-/
namespace V.C15L
open V V.PermL

theorem rulesGet_perm {r₁ r₂ : TagRules} (p : r₁.Perm r₂) (hnd : (r₁.map Prod.fst).Nodup) : rulesGet r₁ = rulesGet r₂ := by
  funext k
  have p' : r₁.reverse.Perm r₂.reverse := (List.reverse_perm r₁).trans (p.trans (List.reverse_perm r₂).symm)
  have hnd' : (r₁.reverse.map Prod.fst).Nodup := by
    rw [List.map_reverse]
    exact (List.reverse_perm (r₁.map Prod.fst)).nodup_iff.mpr hnd
  exact lookupK_perm p' hnd' k

theorem collect_congr {r₁ r₂ : TagRules} (h : rulesGet r₁ = rulesGet r₂) (s : Sentence) :
    ∀ l, filterTagger.collect r₁ s l = filterTagger.collect r₂ s l
  | [] => by simp only [filterTagger.collect]
  | (st, en) :: r => by
    simp only [filterTagger.collect, h, collect_congr h s r]

theorem filterTagger_congr {r₁ r₂ : TagRules} (h : rulesGet r₁ = rulesGet r₂) (s : Sentence) :
    filterTagger r₁ s = filterTagger r₂ s := by
  unfold filterTagger
  rw [collect_congr h s]

theorem filterTagger_perm {r₁ r₂ : TagRules} (p : r₁.Perm r₂) (hnd : (r₁.map Prod.fst).Nodup) (s : Sentence) :
    filterTagger r₁ s = filterTagger r₂ s :=
  filterTagger_congr (rulesGet_perm p hnd) s

end V.C15L
