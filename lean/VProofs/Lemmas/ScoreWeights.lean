import VModel.Weights
/-!
# Lemmas on `getZ`, `zipAdd`, `addAt`, `PW.add`, `PWV.addScore` (for C01)
-/
namespace V.C01L

/-! ## `getZ` -/

theorem getZ_neg (w : List Int) (i : Int) (h : i < 0) : getZ w i = 0 := by
  have : ¬ (0 : Int) ≤ i := by omega
  simp [getZ, this]

theorem getZ_ge (w : List Int) (i : Int) (h : (w.length : Int) ≤ i) : getZ w i = 0 := by
  unfold getZ
  split
  · have : w.length ≤ i.toNat := by omega
    simp [List.getD_eq_getElem?_getD, List.getElem?_eq_none this]
  · rfl

theorem getZ_nat (w : List Int) (j : Nat) : getZ w (j : Int) = w.getD j 0 := by
  have : (0 : Int) ≤ (j : Int) := by omega
  simp [getZ, this]

theorem getZ_eq_getD (w : List Int) (i : Int) (h : 0 ≤ i) : getZ w i = w.getD i.toNat 0 := by
  simp [getZ, h]

theorem getZ_nil (i : Int) : getZ [] i = 0 := by
  unfold getZ; split <;> simp

theorem getZ_append_replicate (w : List Int) (k : Nat) (i : Int) :
    getZ (w ++ List.replicate k 0) i = getZ w i := by
  unfold getZ
  split
  · simp only [List.getD_eq_getElem?_getD]
    by_cases h : i.toNat < w.length
    · rw [List.getElem?_append_left h]
    · have h' : w.length ≤ i.toNat := by omega
      rw [List.getElem?_append_right h', List.getElem?_eq_none h']
      by_cases h2 : i.toNat - w.length < k
      · simp [h2]
      · simp [h2]
  · rfl

theorem getZ_replicate_append (w : List Int) (k : Nat) (i : Int) :
    getZ (List.replicate k 0 ++ w) i = getZ w (i - k) := by
  by_cases h0 : 0 ≤ i
  · by_cases hk : i.toNat < k
    · rw [getZ_neg w (i - k) (by omega), getZ_eq_getD _ _ h0]
      simp only [List.getD_eq_getElem?_getD]
      rw [List.getElem?_append_left (by simpa using hk)]
      simp [hk]
    · have h1 : (0 : Int) ≤ i - k := by omega
      rw [getZ_eq_getD _ _ h0, getZ_eq_getD _ _ h1]
      simp only [List.getD_eq_getElem?_getD]
      rw [List.getElem?_append_right (by simp; omega)]
      congr 2
      simp
  · rw [getZ_neg _ _ (by omega), getZ_neg _ _ (by omega)]

/-! ## `zipAdd`, `addAt` -/

theorem zipAdd_length (ys w : List Int) : (zipAdd ys w).length = ys.length := by
  induction ys generalizing w with
  | nil => simp [zipAdd]
  | cons y ys ih => cases w <;> simp [zipAdd, ih]

theorem zipAdd_getD (ys w : List Int) (j : Nat) (hj : j < ys.length) :
    (zipAdd ys w).getD j 0 = ys.getD j 0 + w.getD j 0 := by
  induction ys generalizing w j with
  | nil => simp at hj
  | cons y ys ih =>
    cases w with
    | nil => simp [zipAdd]
    | cons x xs =>
      cases j with
      | zero => simp [zipAdd]
      | succ j => simp only [zipAdd, List.getD_cons_succ]; exact ih xs j (by simpa using hj)

theorem addAt_length (ys : List Int) (start : Nat) (w : List Int) (h : start ≤ ys.length) :
    (addAt ys start w).length = ys.length := by
  simp [addAt, zipAdd_length]; omega

theorem addAt_getD (ys : List Int) (start : Nat) (w : List Int) (h : start ≤ ys.length) (j : Nat) (hj : j < ys.length) :
    (addAt ys start w).getD j 0 = ys.getD j 0 + getZ w ((j : Int) - start) := by
  unfold addAt
  have hl : (ys.take start).length = start := by simp; omega
  by_cases hlt : j < start
  · have h1 : j < (ys.take start).length := by omega
    have : ¬ (0 : Int) ≤ (j : Int) - start := by omega
    have hnot : ¬ start ≤ j := by omega
    simp [getZ, List.getD_eq_getElem?_getD, List.getElem?_append_left h1, hlt, hnot]
  · have h1 : (ys.take start).length ≤ j := by omega
    have h0 : (0 : Int) ≤ (j : Int) - start := by omega
    have ht : ((j : Int) - start).toNat = j - start := by omega
    have hz := zipAdd_getD (ys.drop start) w (j - start) (by simp; omega)
    simp only [List.getD_eq_getElem?_getD] at hz ⊢
    rw [List.getElem?_append_right h1, hl, hz]
    simp only [getZ, h0, if_true, ht, List.getElem?_drop, List.getD_eq_getElem?_getD]
    congr 3; omega

/-- `addAt` without truncation, as a statement on `getZ` -/
theorem addAt_getZ (ys : List Int) (start : Nat) (w : List Int) (h : start + w.length ≤ ys.length) (i : Int) :
    getZ (addAt ys start w) i = getZ ys i + getZ w (i - start) := by
  have hs : start ≤ ys.length := by omega
  by_cases h0 : 0 ≤ i
  · by_cases hlt : i.toNat < ys.length
    · have := addAt_getD ys start w hs i.toNat hlt
      rw [getZ_eq_getD _ _ h0, getZ_eq_getD _ _ h0, this]
      congr 2; omega
    · rw [getZ_ge _ _ (by rw [addAt_length _ _ _ hs]; omega), getZ_ge ys _ (by omega),
        getZ_ge w _ (by omega)]; rfl
  · rw [getZ_neg _ _ (by omega), getZ_neg _ _ (by omega), getZ_neg _ _ (by omega)]; rfl

/-! ## `PW.add` -/

theorem PW_add_offset (a b : PW) : (a.add b).offset = min a.offset b.offset := rfl

theorem PW_add_length (a b : PW) :
    ((a.add b).weight.length : Int) =
      max (a.offset + a.weight.length) (b.offset + b.weight.length) - min a.offset b.offset := by
  show ((addAt _ _ _).length : Int) = _
  rw [addAt_length]
  · simp only [List.length_append, List.length_replicate]
    omega
  · simp only [List.length_append, List.length_replicate]
    omega

theorem PW_add_denote (a b : PW) (x : Int) : (a.add b).denote x = a.denote x + b.denote x := by
  show getZ (addAt _ _ _) _ = _
  rw [addAt_getZ]
  · rw [List.append_assoc, getZ_replicate_append, getZ_append_replicate]
    have ho : (a.add b).offset = min a.offset b.offset := rfl
    unfold PW.denote
    congr 2
    · omega
    · omega
  · simp only [List.length_append, List.length_replicate]
    omega

/-! ## `add_score` -/

theorem addScore_ok (cfg : Cfg) (pw : PW) (endPos : Int) (ys : List Int)
    (hvar : endPos + pw.offset ≤ ys.length)
    (hfix : cfg.fixed = true → pw.weight.length ≤ fixedLen →
      0 ≤ endPos + pw.offset ∧ endPos + pw.offset + fixedLen ≤ ys.length) :
    ∃ r, (pw.toPWV cfg).addScore endPos ys = .ok r ∧ r.length = ys.length ∧
      ∀ j, j < ys.length → r.getD j 0 = ys.getD j 0 + pw.denote ((j : Int) - endPos) := by
  unfold PW.toPWV WV.ofList PWV.addScore
  by_cases hc : (cfg.fixed && decide (pw.weight.length ≤ fixedLen)) = true
  · rw [if_pos hc]
    simp only [Bool.and_eq_true, decide_eq_true_eq] at hc
    obtain ⟨h0, h8⟩ := hfix hc.1 hc.2
    have hcond : 0 ≤ endPos + pw.offset ∧ (endPos + pw.offset).toNat + fixedLen ≤ ys.length := by
      refine ⟨h0, ?_⟩; omega
    simp only [hcond, and_self, if_true]
    have h1 : (endPos + pw.offset).toNat ≤ ys.length := by omega
    refine ⟨_, rfl, addAt_length _ _ _ h1, fun j hj => ?_⟩
    rw [addAt_getD _ _ _ h1 j hj, getZ_append_replicate]
    unfold PW.denote
    congr 2; omega
  · rw [if_neg hc]
    simp only
    by_cases h0 : 0 ≤ endPos + pw.offset
    · have h1 : (endPos + pw.offset).toNat ≤ ys.length := by omega
      simp only [h0, h1, if_true]
      refine ⟨_, rfl, addAt_length _ _ _ h1, fun j hj => ?_⟩
      rw [addAt_getD _ _ _ h1 j hj]; unfold PW.denote; congr 2; omega
    · simp only [h0, if_false]
      by_cases h2 : (-(endPos + pw.offset)).toNat ≤ pw.weight.length
      · simp only [h2, if_true]
        refine ⟨_, rfl, addAt_length _ _ _ (by omega), fun j hj => ?_⟩
        rw [addAt_getD _ _ _ (by omega) j hj]
        have hk : (0 : Int) ≤ (j : Int) - endPos - pw.offset := by omega
        have hk0 : (0 : Int) ≤ (j : Int) - (0 : Nat) := by omega
        simp only [PW.denote, getZ, hk, hk0, if_true, List.getD_eq_getElem?_getD, List.getElem?_drop]
        congr 3; omega
      · simp only [h2, if_false]
        refine ⟨_, rfl, rfl, fun j hj => ?_⟩
        have hk : (0 : Int) ≤ (j : Int) - endPos - pw.offset := by omega
        have : pw.weight.length ≤ ((j : Int) - endPos - pw.offset).toNat := by omega
        simp [PW.denote, getZ, List.getD_eq_getElem?_getD, List.getElem?_eq_none this]

end V.C01L
