import VModel.Scorer
import VProofs.Lemmas.ScoreWeights
import VProofs.Lemmas.ScoreMatch
import VProofs.Lemmas.MergeCorrect
/-!
# One pass of a pattern-matching scorer over a sequence (for C01)
-/
namespace V.C01L
variable {α : Type} [DecidableEq α]

theorem padding_eq : padding = 7 := rfl
theorem fixedLen_eq : fixedLen = 8 := rfl

/-- the invariant that makes `add_score` safe: the window starts before the end of the pattern, and a weight that fits
the fixed layout does not start more than `length + 6` positions before it -/
def Pinv (k : List α) (pw : PW) : Prop :=
  pw.offset ≤ -1 ∧ (pw.weight.length ≤ 8 → 0 ≤ (k.length : Int) + 6 + pw.offset)

omit [DecidableEq α] in
theorem Pinv_add (k q : List α) (a b : PW) (hlen : q.length ≤ k.length) (ha : Pinv k a) (hb : Pinv q b) :
    Pinv k (a.add b) := by
  obtain ⟨ha1, ha2⟩ := ha
  obtain ⟨hb1, hb2⟩ := hb
  have ho := PW_add_offset a b
  have hl := PW_add_length a b
  refine ⟨by omega, ?_⟩
  intro h8
  have h8a : a.weight.length ≤ 8 := by omega
  have h8b : b.weight.length ≤ 8 := by omega
  have := ha2 h8a
  have := hb2 h8b
  omega

/-- what one match `(end, id)` adds to buffer slot `j` -/
def contrib (optw : List (Option PW)) (j : Nat) (m : Nat × Nat) : Int :=
  match optw.getD m.2 none with
  | some pw => pw.denote ((j : Int) - ((m.1 : Int) + 6))
  | none => 0

omit [DecidableEq α] in
theorem go_spec (cfg : Cfg) (sc : PmaScorer α) (optw : List (Option PW))
    (hw : sc.weights = optw.map (Option.map (PW.toPWV cfg))) (n : Nat) (ms : List (Nat × Nat))
    (hms : ∀ m ∈ ms, 1 ≤ m.1 ∧ m.1 ≤ n ∧ ∃ ow, optw[m.2]? = some ow ∧
      ∀ pw, ow = some pw → pw.offset ≤ -1 ∧ (pw.weight.length ≤ 8 → 0 ≤ (m.1 : Int) + 6 + pw.offset))
    (buf : List Int) (hbuf : buf.length = n + 13) (st : List (Option Nat))
    (hst : sc.tagWeight.isSome = true → st.length = n) :
    ∃ r st', pmaAddScores.go sc ms buf st = .ok (r, st') ∧ r.length = buf.length ∧
      ∀ j, j < buf.length → r.getD j 0 = buf.getD j 0 + (ms.map (contrib optw j)).sum := by
  induction ms generalizing buf st with
  | nil => exact ⟨buf, st, rfl, rfl, fun j _ => by simp⟩
  | cons m ms ih =>
    obtain ⟨e, id⟩ := m
    obtain ⟨he1, hen, ow, hid, hinv⟩ := hms (e, id) (by simp)
    have hms' : ∀ m ∈ ms, 1 ≤ m.1 ∧ m.1 ≤ n ∧ ∃ ow, optw[m.2]? = some ow ∧
        ∀ pw, ow = some pw → pw.offset ≤ -1 ∧ (pw.weight.length ≤ 8 → 0 ≤ (m.1 : Int) + 6 + pw.offset) :=
      fun m hm => hms m (by simp [hm])
    rw [pmaAddScores.go.eq_2]
    have hwid : sc.weights[id]? = some (ow.map (PW.toPWV cfg)) := by
      rw [hw, List.getElem?_map, hid]; rfl
    rw [hwid]
    simp only
    have hgd : optw.getD id none = ow := by
      rw [List.getD_eq_getElem?_getD, hid]; rfl
    have tail : ∀ buf' : List Int, buf'.length = buf.length →
        (∀ j, j < buf.length → buf'.getD j 0 = buf.getD j 0 + contrib optw j (e, id)) →
        ∃ r st', (if sc.tagWeight.isSome = true then
            if e - 1 < st.length ∧ 1 ≤ e then pmaAddScores.go sc ms buf' (st.set (e - 1) (some id))
            else Res.ub "pma_states.get_unchecked_mut(end - 1)"
          else pmaAddScores.go sc ms buf' st) = Res.ok (r, st') ∧ r.length = buf.length ∧
          ∀ j, j < buf.length → r.getD j 0 = buf.getD j 0 + (((e, id) :: ms).map (contrib optw j)).sum := by
      intro buf' hb2 hb3
      by_cases htw : sc.tagWeight.isSome = true
      · have hl := hst htw
        have hc : e - 1 < st.length ∧ 1 ≤ e := by
          simp only at he1 hen; omega
        rw [if_pos htw, if_pos hc]
        obtain ⟨r, st', h1, h2, h3⟩ := ih hms' buf' (by omega) (st.set (e - 1) (some id))
          (fun _ => by rw [List.length_set]; exact hl)
        refine ⟨r, st', h1, by omega, fun j hj => ?_⟩
        rw [h3 j (by omega), hb3 j hj, List.map_cons, List.sum_cons]; omega
      · rw [if_neg htw]
        obtain ⟨r, st', h1, h2, h3⟩ := ih hms' buf' (by omega) st (fun h => absurd h htw)
        refine ⟨r, st', h1, by omega, fun j hj => ?_⟩
        rw [h3 j (by omega), hb3 j hj, List.map_cons, List.sum_cons]; omega
    cases ow with
    | none =>
      simp only [Option.map_none]
      refine tail buf rfl (fun j _ => ?_)
      unfold contrib
      simp only [hgd]; omega
    | some pw =>
      obtain ⟨ho, h8⟩ := hinv pw rfl
      simp only at he1 hen ho h8
      have hp : ((padding : Nat) : Int) = 7 := rfl
      obtain ⟨r, hr, hlen, hval⟩ := addScore_ok cfg pw ((e : Int) + (padding : Int) - 1) buf
        (by rw [hp, hbuf]; omega)
        (by
          intro _ hl
          rw [fixedLen_eq] at hl
          have := h8 hl
          rw [hp, hbuf, fixedLen_eq]
          constructor <;> omega)
      simp only [Option.map_some]
      rw [hr]
      refine tail r hlen (fun j hj => ?_)
      rw [hval j hj]
      unfold contrib
      simp only [hgd, hp]
      congr 2; omega

end V.C01L
