import VModel.Trainer
import VProofs.Lemmas.AsmOrder
import VProofs.Lemmas.PermBase
/-!
# Permutation invariance: the generic `BTreeMap` update on a key-sorted association list

`insK lt k f m` is `*map.entry(k).or_insert(f none) = f (some old)`.  `tagUpsert` and `exInsert` of `VModel/Trainer.lean` are
instances (`tagUpsert_eq_insK`, `exInsert_eq_insK`).  On strictly sorted lists updates of different keys commute, and updates of
the same key commute when their value functions do.
-/
namespace V.PermL
open V V.C09L

section
variable {κ β : Type} [DecidableEq κ]

def KSorted (lt : κ → κ → Bool) (m : List (κ × β)) : Prop := m.Pairwise fun x y => lt x.1 y.1 = true

def insK (lt : κ → κ → Bool) (k : κ) (f : Option β → β) : List (κ × β) → List (κ × β)
  | [] => [(k, f none)]
  | (k', v') :: r =>
    if k' = k then (k', f (some v')) :: r
    else if lt k k' then (k, f none) :: (k', v') :: r
    else (k', v') :: insK lt k f r

omit [DecidableEq κ] in
theorem KSorted.nodup {lt : κ → κ → Bool} (st : StrictTotal lt) {m : List (κ × β)} (hs : KSorted lt m) :
    (m.map Prod.fst).Nodup := by
  rw [List.nodup_iff_pairwise_ne, List.pairwise_map]
  refine hs.imp ?_
  intro a b hab heq
  rw [heq, st.irrefl] at hab
  exact Bool.noConfusion hab

theorem insK_spec {lt : κ → κ → Bool} (st : StrictTotal lt) (k : κ) (f : Option β → β) :
    ∀ (m : List (κ × β)), KSorted lt m →
      KSorted lt (insK lt k f m) ∧
      ∀ k', lookupK (insK lt k f m) k' = if k' = k then some (f (lookupK m k)) else lookupK m k'
  | [], _ => by
    refine ⟨List.pairwise_singleton _ _, ?_⟩
    intro k'
    simp only [insK, lookupK_cons, lookupK_nil]
    by_cases h : k' = k
    · simp [h]
    · have : ¬ k = k' := fun e => h e.symm
      simp [h, this]
  | (k₀, v₀) :: r, hs => by
    have hs' := List.pairwise_cons.mp hs
    simp only [insK]
    by_cases hk : k₀ = k
    · subst hk
      rw [if_pos rfl]
      refine ⟨List.pairwise_cons.mpr ⟨hs'.1, hs'.2⟩, ?_⟩
      intro k'
      simp only [lookupK_cons, if_true]
      by_cases h : k' = k₀
      · simp [h]
      · have : ¬ k₀ = k' := fun e => h e.symm
        simp [h, this]
    · rw [if_neg hk]
      by_cases hlt : lt k k₀ = true
      · rw [if_pos hlt]
        have hno : lookupK ((k₀, v₀) :: r) k = none := by
          rw [lookupK_eq_none]
          intro e he heq
          rcases List.mem_cons.mp he with h | h
          · rw [h] at heq; exact hk heq
          · have h1 := hs'.1 e h
            have h2 := st.trans _ _ _ hlt h1
            rw [heq, st.irrefl] at h2
            exact Bool.noConfusion h2
        refine ⟨List.pairwise_cons.mpr ⟨?_, hs⟩, ?_⟩
        · intro y hy
          rcases List.mem_cons.mp hy with h | h
          · rw [h]; exact hlt
          · exact st.trans _ _ _ hlt (hs'.1 y h)
        · intro k'
          rw [hno, lookupK_cons]
          by_cases h : k' = k
          · simp [h]
          · have : ¬ k = k' := fun e => h e.symm
            simp only [this, if_false, h]
      · rw [if_neg hlt]
        obtain ⟨ihs, ihl⟩ := insK_spec st k f r hs'.2
        have hlt' : lt k₀ k = true := st.conn k k₀ (fun e => hk e.symm) (by simpa using hlt)
        have hnd := KSorted.nodup st ihs
        refine ⟨List.pairwise_cons.mpr ⟨?_, ihs⟩, ?_⟩
        · intro y hy
          obtain ⟨ky, vy⟩ := y
          have hl := lookupK_of_mem hnd hy
          rw [ihl] at hl
          by_cases h : ky = k
          · rw [h]; exact hlt'
          · rw [if_neg h] at hl
            exact hs'.1 _ (mem_of_lookupK hl)
        · intro k'
          rw [lookupK_cons, lookupK_cons, ihl, lookupK_cons, if_neg hk]
          by_cases h : k' = k
          · have : ¬ k₀ = k' := fun e => hk (e.trans h)
            simp only [h, if_true]
            rw [if_neg (fun e => hk e)]
          · simp only [h, if_false]

theorem insK_sorted {lt : κ → κ → Bool} (st : StrictTotal lt) (k : κ) (f : Option β → β) {m : List (κ × β)}
    (hs : KSorted lt m) : KSorted lt (insK lt k f m) := (insK_spec st k f m hs).1

theorem lookupK_insK {lt : κ → κ → Bool} (st : StrictTotal lt) (k : κ) (f : Option β → β) {m : List (κ × β)}
    (hs : KSorted lt m) (k' : κ) :
    lookupK (insK lt k f m) k' = if k' = k then some (f (lookupK m k)) else lookupK m k' := (insK_spec st k f m hs).2 k'

/-- updates of different keys commute -/
theorem insK_comm {lt : κ → κ → Bool} (st : StrictTotal lt) (k₁ k₂ : κ) (hne : k₁ ≠ k₂) (f₁ f₂ : Option β → β)
    {m : List (κ × β)} (hs : KSorted lt m) :
    insK lt k₂ f₂ (insK lt k₁ f₁ m) = insK lt k₁ f₁ (insK lt k₂ f₂ m) := by
  have s₁ := insK_sorted st k₁ f₁ hs
  have s₂ := insK_sorted st k₂ f₂ hs
  refine eq_of_sorted_lookupK_eq lt st.irrefl st.trans (insK_sorted st k₂ f₂ s₁) (insK_sorted st k₁ f₁ s₂) ?_
  intro k
  rw [lookupK_insK st k₂ f₂ s₁, lookupK_insK st k₁ f₁ s₂, lookupK_insK st k₁ f₁ hs, lookupK_insK st k₂ f₂ hs,
    lookupK_insK st k₁ f₁ hs, lookupK_insK st k₂ f₂ hs]
  have hne' : ¬ k₂ = k₁ := fun e => hne e.symm
  by_cases h₁ : k = k₁
  · have : ¬ k = k₂ := fun e => hne (h₁.symm.trans e)
    simp only [h₁, hne, hne', if_true, if_false]
  · simp only [h₁, hne, hne', if_false]

/-- updates of the same key commute when the value functions do -/
theorem insK_comm_same {lt : κ → κ → Bool} (st : StrictTotal lt) (k : κ) (f₁ f₂ : Option β → β)
    (hf : ∀ o, f₂ (some (f₁ o)) = f₁ (some (f₂ o))) {m : List (κ × β)} (hs : KSorted lt m) :
    insK lt k f₂ (insK lt k f₁ m) = insK lt k f₁ (insK lt k f₂ m) := by
  have s₁ := insK_sorted st k f₁ hs
  have s₂ := insK_sorted st k f₂ hs
  refine eq_of_sorted_lookupK_eq lt st.irrefl st.trans (insK_sorted st k f₂ s₁) (insK_sorted st k f₁ s₂) ?_
  intro k'
  rw [lookupK_insK st k f₂ s₁, lookupK_insK st k f₁ s₂, lookupK_insK st k f₁ hs, lookupK_insK st k f₂ hs,
    lookupK_insK st k f₁ hs, lookupK_insK st k f₂ hs]
  by_cases h : k' = k
  · simp only [h, if_true, hf]
  · simp only [h, if_false]

/-- a property of all values is preserved -/
theorem insK_all (lt : κ → κ → Bool) (k : κ) (f : Option β → β) (P : β → Prop) (hf : ∀ o, (∀ v, o = some v → P v) → P (f o)) :
    ∀ (m : List (κ × β)), (∀ e ∈ m, P e.2) → ∀ e ∈ insK lt k f m, P e.2
  | [], _ => by
    intro e he
    simp only [insK, List.mem_singleton] at he
    rw [he]; exact hf none (by intro v h; cases h)
  | (k₀, v₀) :: r, hm => by
    intro e he
    simp only [insK] at he
    by_cases hk : k₀ = k
    · rw [if_pos hk] at he
      rcases List.mem_cons.mp he with h | h
      · rw [h]; exact hf (some v₀) (by intro v hv; cases hv; exact hm (k₀, v₀) List.mem_cons_self)
      · exact hm e (List.mem_cons_of_mem _ h)
    · rw [if_neg hk] at he
      by_cases hlt : lt k k₀ = true
      · rw [if_pos hlt] at he
        rcases List.mem_cons.mp he with h | h
        · rw [h]; exact hf none (by intro v h; cases h)
        · exact hm e h
      · rw [if_neg hlt] at he
        rcases List.mem_cons.mp he with h | h
        · rw [h]; exact hm _ List.mem_cons_self
        · exact insK_all lt k f P hf r (fun e he => hm e (List.mem_cons_of_mem _ he)) e h

end

/-! ## the instances -/

/-- `exInsert` is `insK` -/
theorem exInsert_eq_insK (k : List Char) (v : List Tag) : ∀ (m : List (List Char × List (List Tag))),
    exInsert k v m = insK (lexLt ltChar) k (fun o => o.getD [] ++ [v]) m
  | [] => rfl
  | (k', vs) :: r => by
    simp only [exInsert, insK, exInsert_eq_insK k v r]
    rfl

/-- `tagUpsert` is `insK` behind a bounds check, on tables whose vectors all have `n` entries -/
theorem tagUpsert_eq_insK {κ : Type} [DecidableEq κ] (lt : κ → κ → Bool) (n : Nat) (k : κ) (slot : Nat) (w : Int) :
    ∀ (m : List (κ × List Int)), (∀ e ∈ m, e.2.length = n) →
      tagUpsert lt n k slot w m =
        if slot < n then .ok (insK lt k (fun o => (o.getD (List.replicate n 0)).set slot w) m)
        else .panic "weights[class_offset + cls]"
  | [], _ => by
    simp only [tagUpsert, insK]
    rfl
  | (k', v) :: r, hm => by
    have hv : v.length = n := hm (k', v) List.mem_cons_self
    have ih := tagUpsert_eq_insK lt n k slot w r (fun e he => hm e (List.mem_cons_of_mem _ he))
    simp only [tagUpsert, insK, ih, hv]
    by_cases hs : slot < n
    · simp only [hs, if_true]
      by_cases hk : k' = k
      · simp only [hk, if_true, Option.getD_some]
      · by_cases hlt : lt k k' = true
        · simp only [hk, hlt, if_true, if_false, Option.getD_none]
        · have hlt' : lt k k' = false := by simpa using hlt
          simp only [hk, hlt', if_false, Res.map, Bool.false_eq_true]
    · simp only [hs, if_false]
      by_cases hk : k' = k
      · simp only [hk, if_true]
      · by_cases hlt : lt k k' = true
        · simp only [hk, hlt, if_true, if_false]
        · have hlt' : lt k k' = false := by simpa using hlt
          simp only [hk, hlt', if_false, Res.map, Bool.false_eq_true]

end V.PermL
