import VModel.Sentence
/-!
Helper lemmas for C03 (parser side): how the `parse_tokenized` state machine consumes an escaped run of
characters in text mode and in tag mode, and a whole written token.
-/
namespace V.C03L

/-! ## running over a concatenation -/

theorem tokRun_append (s : TokSt) (xs ys : List Char) :
    tokRun s (xs ++ ys) =
      match tokRun s xs with
      | .ok s' => tokRun s' ys
      | .err e => .err e
      | .panic p => .panic p
      | .ub p => .ub p := by
  induction xs generalizing s with
  | nil => simp [tokRun]
  | cons c cs ih =>
    simp only [List.cons_append, tokRun]
    cases h : tokStep s c <;> simp [ih]

theorem tokRun_append_ok {s s' : TokSt} {xs : List Char} (h : tokRun s xs = .ok s') (ys : List Char) :
    tokRun s (xs ++ ys) = tokRun s' ys := by
  rw [tokRun_append, h]

/-! ## text mode -/

/-- the state change for one surface character -/
def pushChar (s : TokSt) (c : Char) : TokSt :=
  { s with escape := false,
           bounds := if s.text = [] then s.bounds else s.bounds ++ [if s.prevBoundary then B.W else B.N],
           prevBoundary := false, text := s.text ++ [c], tagsTmp := s.tagsTmp ++ [[]] }

def pushChars (s : TokSt) : List Char → TokSt
  | [] => s
  | c :: cs => pushChars (pushChar s c) cs

theorem tokSpecial_false {c : Char} (h : tokSpecial c = false) : c ≠ ' ' ∧ c ≠ '\\' ∧ c ≠ '/' := by
  simp only [tokSpecial, Bool.or_eq_false_iff, decide_eq_false_iff_not] at h
  exact ⟨h.1.1, h.1.2, h.2⟩

theorem tokStep_plain (s : TokSt) (c : Char) (he : s.escape = false) (ht : s.tagStr = none)
    (hs : tokSpecial c = false) (h0 : c ≠ '\x00') : tokStep s c = .ok (pushChar s c) := by
  obtain ⟨h1, h2, h3⟩ := tokSpecial_false hs
  simp [tokStep, he, h1, h2, h3, h0, ht, pushChar]

theorem tokStep_escaped (s : TokSt) (c : Char) (he : s.escape = true) (ht : s.tagStr = none)
    (h0 : c ≠ '\x00') : tokStep s c = .ok (pushChar s c) := by
  simp [tokStep, he, h0, ht, pushChar]

theorem tokStep_backslash (s : TokSt) (he : s.escape = false) :
    tokStep s '\\' = .ok { s with escape := true } := by
  simp [tokStep, he]

theorem pushChar_escape_irrel (s : TokSt) (c : Char) :
    pushChar { s with escape := true } c = pushChar s c := by
  simp [pushChar]

theorem run_esc_text (cs : List Char) : ∀ (s : TokSt) (rest : List Char), s.escape = false → s.tagStr = none →
    (∀ c ∈ cs, c ≠ '\x00') → tokRun s (escTok cs ++ rest) = tokRun (pushChars s cs) rest := by
  induction cs with
  | nil => intro s rest _ _ _; simp [escTok, pushChars]
  | cons c cs ih =>
    intro s rest he ht h0
    have hc0 : c ≠ '\x00' := h0 c (by simp)
    have h0' : ∀ d ∈ cs, d ≠ '\x00' := fun d hd => h0 d (by simp [hd])
    simp only [escTok, pushChars]
    by_cases hs : tokSpecial c = true
    · simp only [hs, if_true, List.cons_append, tokRun]
      rw [tokStep_backslash s he]
      simp only []
      rw [tokStep_escaped { s with escape := true } c rfl ht hc0, pushChar_escape_irrel]
      simp only []
      exact ih (pushChar s c) rest rfl (by simp [pushChar, ht]) h0'
    · have hs' : tokSpecial c = false := by simpa using hs
      simp only [hs', Bool.false_eq_true, if_false, List.cons_append, tokRun]
      rw [tokStep_plain s c he ht hs' hc0]
      simp only []
      exact ih (pushChar s c) rest rfl (by simp [pushChar, ht]) h0'

/-! ## tag mode -/

/-- in tag mode every (escaped) character is appended to the current tag -/
theorem run_esc_tag (cs : List Char) : ∀ (s : TokSt) (t rest : List Char), s.escape = false →
    s.tagStr = some t → (∀ c ∈ cs, c ≠ '\x00') →
    tokRun s (escTok cs ++ rest) = tokRun { s with tagStr := some (t ++ cs) } rest := by
  induction cs with
  | nil => intro s t rest _ ht _; simp [escTok, ← ht]
  | cons c cs ih =>
    intro s t rest he ht h0
    have hc0 : c ≠ '\x00' := h0 c (by simp)
    have h0' : ∀ d ∈ cs, d ≠ '\x00' := fun d hd => h0 d (by simp [hd])
    simp only [escTok]
    by_cases hs : tokSpecial c = true
    · simp only [hs, if_true, List.cons_append, tokRun]
      rw [tokStep_backslash s he]
      simp only []
      have : tokStep { s with escape := true } c = .ok { s with tagStr := some (t ++ [c]) } := by
        simp [tokStep, hc0, ht, he]
      rw [this]; simp only []
      rw [ih { s with tagStr := some (t ++ [c]) } (t ++ [c]) rest he rfl h0']
      simp
    · have hs' : tokSpecial c = false := by simpa using hs
      obtain ⟨h1, h2, h3⟩ := tokSpecial_false hs'
      simp only [hs', Bool.false_eq_true, if_false, List.cons_append, tokRun]
      have : tokStep s c = .ok { s with tagStr := some (t ++ [c]) } := by
        simp [tokStep, he, h1, h2, h3, hc0, ht]
      rw [this]; simp only []
      rw [ih { s with tagStr := some (t ++ [c]) } (t ++ [c]) rest he rfl h0']
      simp


theorem pushLast_append (l : List (List (List Char))) (x : List (List Char)) (t : List Char) :
    pushLast (l ++ [x]) t = some (l ++ [x ++ [t]]) := by
  induction l with
  | nil => simp [pushLast]
  | cons y r ih =>
    cases hr : r ++ [x] with
    | nil => simp at hr
    | cons z w =>
      simp only [List.cons_append, hr, pushLast]
      rw [← hr, ih]
      simp

/-- `x` = tags already pushed on the last character, `u` = pending tag string, then the further tag strings -/
def tagsEnd (x : List (List Char)) (u : List Char) : List (List Char) → List (List Char) × List Char
  | [] => (x, u)
  | g :: gs => tagsEnd (x ++ [u]) g gs

theorem tagsEnd_flush (x : List (List Char)) (u : List Char) (gs : List (List Char)) :
    (tagsEnd x u gs).1 ++ [(tagsEnd x u gs).2] = x ++ u :: gs := by
  induction gs generalizing x u with
  | nil => simp [tagsEnd]
  | cons g gs ih => simp [tagsEnd, ih]

theorem tokStep_slash_some (s : TokSt) (l : List (List (List Char))) (x : List (List Char)) (u : List Char)
    (he : s.escape = false) (htx : s.text ≠ []) (hpb : s.prevBoundary = false)
    (htt : s.tagsTmp = l ++ [x]) (hts : s.tagStr = some u) :
    tokStep s '/' = .ok { s with tagsTmp := l ++ [x ++ [u]], tagStr := some [] } := by
  simp [tokStep, he, htx, hpb, htt, hts, pushLast_append]

theorem tokStep_slash_none (s : TokSt)
    (he : s.escape = false) (htx : s.text ≠ []) (hpb : s.prevBoundary = false) (hts : s.tagStr = none) :
    tokStep s '/' = .ok { s with tagStr := some [] } := by
  simp [tokStep, he, htx, hpb, hts]

/-- the tag part of a written token, entered with a pending tag string `u` -/
theorem run_tags (tg : List Tag) : ∀ (s : TokSt) (l : List (List (List Char))) (x : List (List Char))
    (u rest : List Char), s.escape = false → s.text ≠ [] → s.prevBoundary = false →
    s.tagsTmp = l ++ [x] → s.tagStr = some u → (∀ t, some t ∈ tg → ∀ c ∈ t, c ≠ '\x00') →
    tokRun s (writeTagsWith escTok tg ++ rest) =
      tokRun { s with tagsTmp := l ++ [(tagsEnd x u (tg.map (·.getD []))).1],
                      tagStr := some (tagsEnd x u (tg.map (·.getD []))).2 } rest := by
  induction tg with
  | nil =>
    intro s l x u rest _ _ _ htt hts _
    simp [writeTagsWith, tagsEnd, ← htt, ← hts]
  | cons t ts ih =>
    intro s l x u rest he htx hpb htt hts h0
    have h0' : ∀ t', some t' ∈ ts → ∀ c ∈ t', c ≠ '\x00' := fun t' ht' => h0 t' (by simp [ht'])
    cases t with
    | none =>
      simp only [writeTagsWith, List.cons_append, tokRun]
      rw [tokStep_slash_some s l x u he htx hpb htt hts]
      simp only []
      rw [ih { s with tagsTmp := l ++ [x ++ [u]], tagStr := some [] } l (x ++ [u]) [] rest he htx hpb rfl rfl h0']
      simp [tagsEnd]
    | some t =>
      have ht0 : ∀ c ∈ t, c ≠ '\x00' := h0 t (by simp)
      simp only [writeTagsWith, List.cons_append, tokRun, List.append_assoc]
      rw [tokStep_slash_some s l x u he htx hpb htt hts]
      simp only []
      rw [run_esc_tag t { s with tagsTmp := l ++ [x ++ [u]], tagStr := some [] } [] _ he rfl ht0]
      rw [ih { s with tagsTmp := l ++ [x ++ [u]], tagStr := some ([] ++ t) } l (x ++ [u]) t rest he htx hpb rfl
        (by simp) h0']
      simp [tagsEnd]

/-- state after the tag part of a token whose last character has just been pushed (`tagsTmp = l ++ [[]]`) -/
def afterTags (s : TokSt) (l : List (List (List Char))) : List (List Char) → TokSt
  | [] => s
  | g :: gs => { s with tagsTmp := l ++ [(tagsEnd [] g gs).1], tagStr := some (tagsEnd [] g gs).2 }

theorem run_token_tags (tg : List Tag) (s : TokSt) (l : List (List (List Char))) (rest : List Char)
    (he : s.escape = false) (htx : s.text ≠ []) (hpb : s.prevBoundary = false)
    (htt : s.tagsTmp = l ++ [[]]) (hts : s.tagStr = none) (h0 : ∀ t, some t ∈ tg → ∀ c ∈ t, c ≠ '\x00') :
    tokRun s (writeTagsWith escTok tg ++ rest) = tokRun (afterTags s l (tg.map (·.getD []))) rest := by
  cases tg with
  | nil => simp [writeTagsWith, afterTags]
  | cons t ts =>
    have h0' : ∀ t', some t' ∈ ts → ∀ c ∈ t', c ≠ '\x00' := fun t' ht' => h0 t' (by simp [ht'])
    cases t with
    | none =>
      simp only [writeTagsWith, List.cons_append, tokRun]
      rw [tokStep_slash_none s he htx hpb hts]
      simp only []
      rw [run_tags ts { s with tagStr := some [] } l [] [] rest he htx hpb htt rfl h0']
      simp [afterTags]
    | some t =>
      have ht0 : ∀ c ∈ t, c ≠ '\x00' := h0 t (by simp)
      simp only [writeTagsWith, List.cons_append, tokRun, List.append_assoc]
      rw [tokStep_slash_none s he htx hpb hts]
      simp only []
      rw [run_esc_tag t { s with tagStr := some [] } [] _ he rfl ht0]
      rw [run_tags ts { s with tagStr := some ([] ++ t) } l [] t rest he htx hpb htt (by simp) h0']
      simp [afterTags]


/-! ## flushing the pending tag -/

/-- `tags_tmp` once the pending tag string (if any) has been pushed -/
def flushTT (s : TokSt) : List (List (List Char)) :=
  match s.tagStr with
  | none => s.tagsTmp
  | some t => (pushLast s.tagsTmp t).getD s.tagsTmp

theorem exists_append_singleton {α : Type} {l : List α} (h : l ≠ []) : ∃ l' x, l = l' ++ [x] :=
  ⟨l.dropLast, l.getLast h, (List.dropLast_concat_getLast h).symm⟩

theorem pushLast_of_ne_nil {tt : List (List (List Char))} (h : tt ≠ []) (t : List Char) :
    ∃ tt', pushLast tt t = some tt' ∧ tt' ≠ [] ∧ tt'.length = tt.length := by
  obtain ⟨l, x, rfl⟩ := exists_append_singleton h
  exact ⟨_, pushLast_append l x t, by simp, by simp⟩

theorem flushTT_ne_nil {s : TokSt} (h : s.tagsTmp ≠ []) : flushTT s ≠ [] := by
  unfold flushTT
  cases hts : s.tagStr with
  | none => simpa using h
  | some t =>
    obtain ⟨tt', h1, h2, _⟩ := pushLast_of_ne_nil h t
    simp [h1, h2]

theorem flushTT_afterTags (s : TokSt) (l : List (List (List Char))) (G : List (List Char))
    (hts : s.tagStr = none) (htt : s.tagsTmp = l ++ [[]]) : flushTT (afterTags s l G) = l ++ [G] := by
  cases G with
  | nil => simp [afterTags, flushTT, hts, htt]
  | cons g gs =>
    simp only [afterTags, flushTT, pushLast_append, Option.getD_some, tagsEnd_flush]
    simp

theorem afterTags_fields (s : TokSt) (l : List (List (List Char))) (G : List (List Char)) :
    (afterTags s l G).text = s.text ∧ (afterTags s l G).bounds = s.bounds ∧
    (afterTags s l G).escape = s.escape ∧ (afterTags s l G).prevBoundary = s.prevBoundary := by
  cases G <;> simp [afterTags]

theorem afterTags_ne_nil (s : TokSt) (l : List (List (List Char))) (G : List (List Char))
    (htt : s.tagsTmp = l ++ [[]]) : (afterTags s l G).tagsTmp ≠ [] := by
  cases G <;> simp [afterTags, htt]

theorem tokStep_space (s : TokSt) (he : s.escape = false) (htx : s.text ≠ []) (hpb : s.prevBoundary = false)
    (hne : s.tagsTmp ≠ []) :
    tokStep s ' ' = .ok { s with tagsTmp := flushTT s, tagStr := none, prevBoundary := true } := by
  cases hts : s.tagStr with
  | none =>
    obtain ⟨a, b, c, d, e, f⟩ := s
    simp_all [tokStep, flushTT]
  | some t =>
    obtain ⟨tt', h1, _, _⟩ := pushLast_of_ne_nil hne t
    simp [tokStep, he, htx, hpb, hts, h1, flushTT]

/-- the code of `parse_tokenized` after the character loop -/
def tokFinish (s : TokSt) : Res Parsed :=
  if s.prevBoundary then .err .invalidArgument
  else if s.text = [] then .err .invalidArgument
  else
    match s.tagStr with
    | none => .ok ⟨s.text, s.bounds, padTags (maxLen s.tagsTmp) s.tagsTmp⟩
    | some t => match pushLast s.tagsTmp t with
      | none => .panic "parse_tokenized:tags_tmp.last_mut().unwrap()"
      | some tt => .ok ⟨s.text, s.bounds, padTags (maxLen tt) tt⟩

theorem parseTokenized_eq (input : List Char) :
    parseTokenized input =
      if input = [] then .err .invalidArgument else
      match tokRun {} input with
      | .ok s => tokFinish s
      | .err e => .err e
      | .panic p => .panic p
      | .ub p => .ub p := by
  unfold parseTokenized tokFinish
  rfl

theorem tokFinish_ok (s : TokSt) (hpb : s.prevBoundary = false) (htx : s.text ≠ []) (hne : s.tagsTmp ≠ []) :
    tokFinish s = .ok ⟨s.text, s.bounds, padTags (maxLen (flushTT s)) (flushTT s)⟩ := by
  cases hts : s.tagStr with
  | none => simp [tokFinish, hpb, htx, hts, flushTT]
  | some t =>
    obtain ⟨tt', h1, _, _⟩ := pushLast_of_ne_nil hne t
    simp [tokFinish, hpb, htx, hts, h1, flushTT]

/-! ## a whole token -/

theorem pushChars_mid (cs : List Char) : ∀ (s : TokSt), s.text ≠ [] → s.prevBoundary = false →
    s.escape = false →
    pushChars s cs = { s with text := s.text ++ cs, bounds := s.bounds ++ List.replicate cs.length B.N,
                              tagsTmp := s.tagsTmp ++ List.replicate cs.length [] } := by
  induction cs with
  | nil => intro s _ _ _; simp [pushChars]
  | cons c cs ih =>
    intro s htx hpb he
    simp only [pushChars]
    rw [ih (pushChar s c) (by simp [pushChar]) rfl rfl]
    simp [pushChar, htx, hpb, he, List.replicate_succ]

theorem pushChars_cons (s : TokSt) (c : Char) (cs : List Char) :
    pushChars s (c :: cs) =
      { s with escape := false, prevBoundary := false, text := s.text ++ c :: cs,
               bounds := (pushChar s c).bounds ++ List.replicate cs.length B.N,
               tagsTmp := (s.tagsTmp ++ List.replicate cs.length []) ++ [[]] } := by
  simp only [pushChars]
  rw [pushChars_mid cs (pushChar s c) (by simp [pushChar]) rfl rfl]
  simp [pushChar, ← List.replicate_succ, List.replicate_succ']

/-- `σ` is a state between tokens (before the separating blank or the end of input) whose text, boundaries and
flushed tag lists are as given -/
structure Done (σ : TokSt) (text : List Char) (bounds : List B) (tt : List (List (List Char))) : Prop where
  esc : σ.escape = false
  pb : σ.prevBoundary = false
  text : σ.text = text
  bounds : σ.bounds = bounds
  tt : flushTT σ = tt
  ne : σ.tagsTmp ≠ []

/-- surface and tags of one token, from a state in text mode -/
theorem run_token (σ : TokSt) (c : Char) (cs : List Char) (tg : List Tag) (he : σ.escape = false)
    (hts : σ.tagStr = none) (hc : ∀ d ∈ c :: cs, d ≠ '\x00') (h0 : ∀ t, some t ∈ tg → ∀ d ∈ t, d ≠ '\x00') :
    ∃ σ', (∀ rest, tokRun σ (escTok (c :: cs) ++ writeTagsWith escTok tg ++ rest) = tokRun σ' rest) ∧
      Done σ' (σ.text ++ c :: cs) ((pushChar σ c).bounds ++ List.replicate cs.length B.N)
        (σ.tagsTmp ++ List.replicate cs.length [] ++ [tg.map (·.getD [])]) := by
  refine ⟨afterTags (pushChars σ (c :: cs)) (σ.tagsTmp ++ List.replicate cs.length []) (tg.map (·.getD [])), ?_, ?_⟩
  · intro rest
    rw [List.append_assoc, run_esc_text (c :: cs) σ _ he hts hc]
    apply run_token_tags tg _ _ rest
    · rw [pushChars_cons]
    · rw [pushChars_cons]; simp
    · rw [pushChars_cons]
    · rw [pushChars_cons]
    · rw [pushChars_cons]; exact hts
    · exact h0
  · obtain ⟨h1, h2, h3, h4⟩ := afterTags_fields (pushChars σ (c :: cs)) (σ.tagsTmp ++ List.replicate cs.length [])
      (tg.map (·.getD []))
    have htt : (pushChars σ (c :: cs)).tagsTmp = (σ.tagsTmp ++ List.replicate cs.length []) ++ [[]] := by
      rw [pushChars_cons]
    constructor
    · rw [h3, pushChars_cons]
    · rw [h4, pushChars_cons]
    · rw [h1, pushChars_cons]
    · rw [h2, pushChars_cons]
    · exact flushTT_afterTags _ _ _ (by rw [pushChars_cons]; exact hts) htt
    · exact afterTags_ne_nil _ _ _ htt

/-- the separating blank followed by a token, from a state between tokens -/
theorem run_sep_token (σ : TokSt) (text : List Char) (bounds : List B) (tt : List (List (List Char)))
    (hd : Done σ text bounds tt) (htx : text ≠ []) (c : Char) (cs : List Char) (tg : List Tag)
    (hc : ∀ d ∈ c :: cs, d ≠ '\x00') (h0 : ∀ t, some t ∈ tg → ∀ d ∈ t, d ≠ '\x00') :
    ∃ σ', (∀ rest, tokRun σ (' ' :: escTok (c :: cs) ++ writeTagsWith escTok tg ++ rest) = tokRun σ' rest) ∧
      Done σ' (text ++ c :: cs) (bounds ++ B.W :: List.replicate cs.length B.N)
        (tt ++ List.replicate cs.length [] ++ [tg.map (·.getD [])]) := by
  have hstep := tokStep_space σ hd.esc (by rw [hd.text]; exact htx) hd.pb hd.ne
  obtain ⟨σ', h1, h2⟩ := run_token { σ with tagsTmp := flushTT σ, tagStr := none, prevBoundary := true } c cs tg
    hd.esc rfl hc h0
  refine ⟨σ', ?_, ?_⟩
  · intro rest
    simp only [List.cons_append, tokRun, hstep]
    exact h1 rest
  · have e : σ.text ≠ [] := by rw [hd.text]; exact htx
    simpa [pushChar, hd.text, hd.bounds, hd.tt, e, htx] using h2

/-- the first token -/
theorem run_first_token (c : Char) (cs : List Char) (tg : List Tag)
    (hc : ∀ d ∈ c :: cs, d ≠ '\x00') (h0 : ∀ t, some t ∈ tg → ∀ d ∈ t, d ≠ '\x00') :
    ∃ σ', (∀ rest, tokRun {} (escTok (c :: cs) ++ writeTagsWith escTok tg ++ rest) = tokRun σ' rest) ∧
      Done σ' (c :: cs) (List.replicate cs.length B.N) (List.replicate cs.length [] ++ [tg.map (·.getD [])]) := by
  obtain ⟨σ', h1, h2⟩ := run_token {} c cs tg rfl rfl hc h0
  exact ⟨σ', h1, by simpa [pushChar] using h2⟩

end V.C03L
