import VProofs.Lemmas.EvalFloatOps
/-!
# The three metrics of `evaluate` in units: `fl(N/P)`, `fl(N/R)`, `fl(fl(fl(2·p)·r) / fl(p + r))`
-/
namespace V.EvalF
open V V.F64 V.QuantL

attribute [local irreducible] F64.top F64.unit e1021

/-! ## one ratio of counts -/

/-- `fl (N / P)` in units -/
def ratioUnits (N P : Nat) : Nat := roundUnits (N * unit) P

theorem unit_ne_zero : unit ≠ 0 := Nat.ne_of_gt unit_pos

theorem mul_unit_eq_zero {n : Nat} : n * unit = 0 ↔ n = 0 := by
  constructor
  · intro h
    rcases Nat.mul_eq_zero.mp h with h | h
    · exact h
    · exact absurd h unit_ne_zero
  · intro h; rw [h, Nat.zero_mul]

theorem ratioUnits_rep (N P : Nat) (hP : 0 < P) : RepU (ratioUnits N P) := roundUnits_rep _ _ hP

/-- the quotient of two counts below `2^31` is at most `2^31` -/
theorem ratioUnits_le31 (N P : Nat) (hP : 0 < P) (hN : N < 2 ^ 31) : ratioUnits N P ≤ 2 ^ 31 * unit := by
  apply roundUnits_le_of_le _ _ _ hP (repU_units _ (by decide))
  have h1 : N * unit ≤ 2 ^ 31 * unit := Nat.mul_le_mul_right _ (Nat.le_of_lt hN)
  have h2 : 1 * (2 ^ 31 * unit) ≤ P * (2 ^ 31 * unit) := Nat.mul_le_mul_right _ hP
  omega

theorem ratioUnits_lt_top (N P : Nat) (hP : 0 < P) (hN : N < 2 ^ 31) : ratioUnits N P < top := by
  have := ratioUnits_le31 N P hP hN
  have := c32_lt_top
  omega

/-- the shape of `f64::from(N) / f64::from(P)` for a positive denominator -/
theorem div_counts (N P : Nat) (hN : N < 2 ^ 31) (hP : P < 2 ^ 31) (hP0 : 0 < P) :
    f64Div (f64OfNat N) (f64OfNat P) = .fin false (ratioUnits N P) := by
  rw [f64OfNat_exact N (by omega), f64OfNat_exact P (by omega)]
  have hne : P * unit ≠ 0 := fun h => by have := mul_unit_eq_zero.mp h; omega
  have hs : roundUnits (N * unit * unit) (P * unit) = ratioUnits N P := roundUnits_scale _ _ _ unit_pos
  rw [div_fin_cases false false _ _ hne, hs, if_pos (ratioUnits_lt_top N P hP0 hN)]
  rfl

/-- … and for a zero denominator -/
theorem div_counts_zero (N : Nat) (hN : N < 2 ^ 31) :
    f64Div (f64OfNat N) (f64OfNat 0) = if N = 0 then .nan else .inf false := by
  rw [f64OfNat_exact N (by omega), f64OfNat_zero]
  unfold f64Div
  simp only [↓reduceIte]
  by_cases h : N = 0
  · rw [if_pos h, if_pos (mul_unit_eq_zero.mpr h)]
  · rw [if_neg h, if_neg (fun h' => h (mul_unit_eq_zero.mp h'))]
    rfl

theorem ratioUnits_le_unit (N P : Nat) (hP : 0 < P) (h : N ≤ P) : ratioUnits N P ≤ unit :=
  roundUnits_le_of_le _ _ _ hP repU_unit (Nat.mul_le_mul_right _ h)

theorem ratioUnits_self (P : Nat) (hP : 0 < P) : ratioUnits P P = unit :=
  roundUnits_exact unit P hP repU_unit

theorem ratioUnits_zero (P : Nat) (hP : 0 < P) : ratioUnits 0 P = 0 := by
  unfold ratioUnits
  rw [Nat.zero_mul]
  exact roundUnits_zero P hP

theorem frac_step (N P Q : Nat) (hP : P ≤ Q) (h : N < P) : N * Q ≤ P * (Q - 1) := by
  have h1 : N * Q ≤ (P - 1) * Q := Nat.mul_le_mul_right _ (Nat.le_sub_one_of_lt h)
  have e : (P - 1) * Q = P * Q - Q := Nat.sub_one_mul _ _
  have e2 : P * (Q - 1) = P * Q - P := Nat.mul_sub_one _ _
  omega

theorem repU_e1021 : RepU e1021 := by unfold e1021; exact repU_pow 1021

/-- a proper fraction of counts stays below the predecessor of `1.0` -/
theorem ratioUnits_lt_unit (N P : Nat) (hP : P ≤ 2 ^ 53) (h : N < P) : ratioUnits N P < unit := by
  have hle : ratioUnits N P ≤ (2 ^ 53 - 1) * e1021 := by
    apply roundUnits_le_of_le _ _ _ (by omega) ⟨2 ^ 53 - 1, 1021, by unfold e1021; rfl, by decide⟩
    rw [unit_split53]
    have h2 := Nat.mul_le_mul_right e1021 (frac_step N P (2 ^ 53) hP h)
    have e3 : N * (2 ^ 53 * e1021) = N * 2 ^ 53 * e1021 := by rw [Nat.mul_assoc]
    have e4 : P * ((2 ^ 53 - 1) * e1021) = P * (2 ^ 53 - 1) * e1021 := by rw [Nat.mul_assoc]
    rw [e3, e4]
    exact h2
  have := e1021_pos
  have := unit_split53
  omega

/-- a non-zero fraction of counts is at least `2^-53` -/
theorem ratioUnits_ge (N P : Nat) (hP0 : 0 < P) (hP : P ≤ 2 ^ 53) (h : 0 < N) : e1021 ≤ ratioUnits N P := by
  apply le_roundUnits_of_le _ _ _ hP0 repU_e1021
  rw [unit_split53]
  have h1 : P * e1021 ≤ 2 ^ 53 * e1021 := Nat.mul_le_mul_right _ hP
  have h2 : 1 * (2 ^ 53 * e1021) ≤ N * (2 ^ 53 * e1021) := Nat.mul_le_mul_right _ h
  omega

theorem ratioUnits_eq_zero_iff (N P : Nat) (hP0 : 0 < P) (hP : P ≤ 2 ^ 53) : ratioUnits N P = 0 ↔ N = 0 := by
  constructor
  · intro h
    apply Nat.eq_zero_of_not_pos
    intro hN
    have := ratioUnits_ge N P hP0 hP hN
    have := e1021_pos
    omega
  · intro h; rw [h]; exact ratioUnits_zero P hP0

theorem ratioUnits_eq_unit_iff (N P : Nat) (hP0 : 0 < P) (hP : P ≤ 2 ^ 53) (hNP : N ≤ P) :
    ratioUnits N P = unit ↔ N = P := by
  constructor
  · intro h
    apply Nat.le_antisymm hNP
    apply Nat.le_of_not_lt
    intro hlt
    have := ratioUnits_lt_unit N P hP hlt
    omega
  · intro h; rw [h]; exact ratioUnits_self P hP0

/-- equal fractions give the same double -/
theorem ratioUnits_congr (a b c d : Nat) (hb : 0 < b) (hd : 0 < d) (h : a * d = c * b) :
    ratioUnits a b = ratioUnits c d := by
  unfold ratioUnits
  rw [← roundUnits_scale (a * unit) b d hd, ← roundUnits_scale (c * unit) d b hb]
  have e1 : a * unit * d = a * d * unit := Nat.mul_right_comm _ _ _
  have e2 : c * unit * b = c * b * unit := Nat.mul_right_comm _ _ _
  rw [e1, e2, h, Nat.mul_comm b d]

/-! ## `2. * p`, `(2. * p) * r`, `p + r` -/

theorem two_mul_fin (a : Nat) (ha : RepU a) (h : 2 * a < top) : f64Mul f64Two (.fin false a) = .fin false (2 * a) := by
  unfold f64Two
  rw [mul_fin]
  have e : 2 * unit * a = 2 * a * unit := Nat.mul_right_comm _ _ _
  rw [e, roundUnits_unit, roundUnits_one _ (repU_double ha), pack_lt h]
  rfl

theorem two_mul_inf : f64Mul f64Two (.inf false) = .inf false := by
  unfold f64Two
  rw [mul_fin_inf, if_neg (fun h => by have := mul_unit_eq_zero.mp h; omega)]
  rfl

theorem two_mul_nan : f64Mul f64Two .nan = .nan := rfl

/-- `fl (2ab)` in units -/
def prodUnits (a b : Nat) : Nat := roundUnits (2 * a * b) unit
/-- `fl (a + b)` in units -/
def sumUnits (a b : Nat) : Nat := roundUnits (a + b) 1
/-- the F1 of `a` and `b` units -/
def f1Units (a b : Nat) : Nat := roundUnits (prodUnits a b * unit) (sumUnits a b)

theorem repU_two_unit : RepU (2 * unit) := repU_double repU_unit
theorem two_unit_lt_top : 2 * unit < top := by
  have := small_units_lt_top 2 (by decide)
  exact this

theorem prodUnits_le (a b : Nat) (ha : a ≤ unit) (hb : b ≤ unit) : prodUnits a b ≤ 2 * unit := by
  apply roundUnits_le_of_le _ _ _ unit_pos repU_two_unit
  have h1 : a * b ≤ unit * unit := Nat.mul_le_mul ha hb
  have e1 : 2 * a * b = 2 * (a * b) := Nat.mul_assoc _ _ _
  have e2 : unit * (2 * unit) = 2 * (unit * unit) := Nat.mul_left_comm _ _ _
  rw [e1, e2]
  exact Nat.mul_le_mul_left 2 h1

theorem sumUnits_le (a b : Nat) (ha : a ≤ unit) (hb : b ≤ unit) : sumUnits a b ≤ 2 * unit := by
  apply roundUnits_le_of_le _ _ _ (by decide) repU_two_unit
  omega

/-- `2xy ≤ x + y` on `[0, 1]`, and rounding is monotone -/
theorem prodUnits_le_sumUnits (a b : Nat) (ha : a ≤ unit) (hb : b ≤ unit) : prodUnits a b ≤ sumUnits a b := by
  unfold prodUnits sumUnits
  rw [← roundUnits_unit (a + b)]
  apply roundUnits_mono _ _ _ unit_pos
  have h1 : a * b ≤ unit * b := Nat.mul_le_mul_right _ ha
  have h2 : a * b ≤ a * unit := Nat.mul_le_mul_left _ hb
  have e1 : 2 * a * b = a * b + a * b := by rw [Nat.mul_assoc, Nat.two_mul]
  have e2 : (a + b) * unit = a * unit + unit * b := by rw [Nat.add_mul, Nat.mul_comm b unit]
  omega

theorem sumUnits_pos (a b : Nat) (h : 0 < a + b) : 0 < sumUnits a b := roundUnits_pos _ 1 (by decide) h

theorem prodUnits_ge_two (a b : Nat) (ha : e1021 ≤ a) (hb : e1021 ≤ b) : 2 ≤ prodUnits a b := by
  apply le_roundUnits_of_le _ _ _ unit_pos ⟨2, 0, rfl, by decide⟩
  have h1 : e1021 * e1021 ≤ a * b := Nat.mul_le_mul ha hb
  have h2 := unit_le_sq
  have e1 : 2 * a * b = 2 * (a * b) := Nat.mul_assoc _ _ _
  omega

theorem f1Units_le_unit (a b : Nat) (ha : a ≤ unit) (hb : b ≤ unit) (hs : 0 < a + b) : f1Units a b ≤ unit := by
  apply roundUnits_le_of_le _ _ _ (sumUnits_pos a b hs) repU_unit
  exact Nat.mul_le_mul_right _ (prodUnits_le_sumUnits a b ha hb)

theorem f1Units_pos (a b : Nat) (ha : a ≤ unit) (hb : b ≤ unit) (ha' : e1021 ≤ a) (hb' : e1021 ≤ b) : 0 < f1Units a b := by
  have hs : 0 < a + b := by have := e1021_pos; omega
  apply roundUnits_pos _ _ (sumUnits_pos a b hs)
  have h1 := sumUnits_le a b ha hb
  have h2 : 2 * unit ≤ prodUnits a b * unit := Nat.mul_le_mul_right _ (prodUnits_ge_two a b ha' hb')
  omega

theorem f1Units_one : f1Units unit unit = unit := by
  have hp : prodUnits unit unit = 2 * unit := by
    unfold prodUnits
    have e : 2 * unit * unit = unit * (2 * unit) := by ac_rfl
    rw [e]
    exact roundUnits_exact _ _ unit_pos repU_two_unit
  have hs : sumUnits unit unit = 2 * unit := by
    unfold sumUnits
    rw [← Nat.two_mul]
    exact roundUnits_one _ repU_two_unit
  unfold f1Units
  rw [hp, hs]
  exact roundUnits_exact _ _ (by have := unit_pos; omega) repU_unit

theorem f1Units_comm (a b : Nat) : f1Units a b = f1Units b a := by
  unfold f1Units prodUnits sumUnits
  rw [Nat.mul_right_comm 2 a b, Nat.add_comm a b]

/-- the F1 expression on two finite non-negative values of at most `1.0` -/
theorem f1_fin (a b : Nat) (ha : RepU a) (ha1 : a ≤ unit) (hb1 : b ≤ unit) :
    f64Div (f64Mul (f64Mul f64Two (.fin false a)) (.fin false b)) (f64Add (.fin false a) (.fin false b)) =
      if a + b = 0 then .nan else .fin false (f1Units a b) := by
  have ht := two_unit_lt_top
  rw [two_mul_fin a ha (by omega), mul_fin, add_fin_same]
  have hp : roundUnits (2 * a * b) unit = prodUnits a b := rfl
  have hs : roundUnits (a + b) 1 = sumUnits a b := rfl
  rw [hp, hs, pack_lt (Nat.lt_of_le_of_lt (prodUnits_le a b ha1 hb1) ht),
    pack_lt (Nat.lt_of_le_of_lt (sumUnits_le a b ha1 hb1) ht)]
  by_cases h0 : a + b = 0
  · rw [if_pos h0]
    have hs0 : sumUnits a b = 0 := (roundUnits_eq_zero_iff _).mpr h0
    have hp0 : prodUnits a b = 0 := by
      have := prodUnits_le_sumUnits a b ha1 hb1
      omega
    rw [hs0, hp0]
    rfl
  · rw [if_neg h0]
    have hsp : sumUnits a b ≠ 0 := Nat.ne_of_gt (sumUnits_pos a b (Nat.pos_of_ne_zero h0))
    have hf : roundUnits (prodUnits a b * unit) (sumUnits a b) = f1Units a b := rfl
    rw [div_fin_cases _ _ _ _ hsp, hf]
    have hle := f1Units_le_unit a b ha1 hb1 (Nat.pos_of_ne_zero h0)
    have hu : unit < top := by omega
    rw [if_pos (Nat.lt_of_le_of_lt hle hu)]
    rfl

/-! ## the whole of `evalMetrics` -/

theorem evalMetrics_eq (N P R : Nat) : evalMetrics N P R =
    (f64Div (f64OfNat N) (f64OfNat P), f64Div (f64OfNat N) (f64OfNat R),
     f64Div (f64Mul (f64Mul f64Two (f64Div (f64OfNat N) (f64OfNat P))) (f64Div (f64OfNat N) (f64OfNat R)))
       (f64Add (f64Div (f64OfNat N) (f64OfNat P)) (f64Div (f64OfNat N) (f64OfNat R)))) := rfl

/-- both denominators positive, the numerator at most both: everything in units -/
theorem metrics_fin (N P R : Nat) (hP : P < 2 ^ 31) (hR : R < 2 ^ 31) (hP0 : 0 < P) (hR0 : 0 < R)
    (hNP : N ≤ P) (hNR : N ≤ R) :
    evalMetrics N P R = (.fin false (ratioUnits N P), .fin false (ratioUnits N R),
      if N = 0 then .nan else .fin false (f1Units (ratioUnits N P) (ratioUnits N R))) := by
  have hN : N < 2 ^ 31 := by omega
  rw [evalMetrics_eq, div_counts N P hN hP hP0, div_counts N R hN hR hR0,
    f1_fin _ _ (ratioUnits_rep N P hP0) (ratioUnits_le_unit N P hP0 hNP)
      (ratioUnits_le_unit N R hR0 hNR)]
  by_cases h0 : N = 0
  · rw [if_pos h0, h0, ratioUnits_zero P hP0, ratioUnits_zero R hR0, if_pos rfl]
  · rw [if_neg h0]
    have := ratioUnits_ge N P hP0 (by omega) (Nat.pos_of_ne_zero h0)
    have := e1021_pos
    rw [if_neg (by omega)]

/-- a zero denominator (then the numerator is zero as well): NaNs -/
theorem metrics_pzero (R : Nat) : evalMetrics 0 0 R = (.nan, f64Div (f64OfNat 0) (f64OfNat R), .nan) := by
  have h : f64Div (f64OfNat 0) (f64OfNat 0) = .nan := by rw [div_counts_zero 0 (by decide), if_pos rfl]
  rw [evalMetrics_eq, h]
  rfl

theorem metrics_rzero (P : Nat) : evalMetrics 0 P 0 = (f64Div (f64OfNat 0) (f64OfNat P), .nan, .nan) := by
  have h : f64Div (f64OfNat 0) (f64OfNat 0) = .nan := by rw [div_counts_zero 0 (by decide), if_pos rfl]
  rw [evalMetrics_eq, h, mul_nan, add_nan, div_nan]

/-! ## symmetry of F1 in the two denominators (no relation between the counts needed) -/

/-- what a quotient of two counts can be -/
def Ratio (x : F64) : Prop := x = .nan ∨ x = .inf false ∨ ∃ a, x = .fin false a ∧ RepU a ∧ a ≤ 2 ^ 31 * unit

theorem ratio_of_counts (N P : Nat) (hN : N < 2 ^ 31) (hP : P < 2 ^ 31) : Ratio (f64Div (f64OfNat N) (f64OfNat P)) := by
  by_cases hP0 : P = 0
  · rw [hP0, div_counts_zero N hN]
    by_cases h : N = 0
    · rw [if_pos h]; exact Or.inl rfl
    · rw [if_neg h]; exact Or.inr (Or.inl rfl)
  · have hp : 0 < P := Nat.pos_of_ne_zero hP0
    rw [div_counts N P hN hP hp]
    exact Or.inr (Or.inr ⟨_, rfl, ratioUnits_rep N P hp, ratioUnits_le31 N P hp hN⟩)

/-- `(2·x)·y = (2·y)·x`: doubling is exact on these values -/
theorem two_mul_mul_comm (x y : F64) (hx : Ratio x) (hy : Ratio y) :
    f64Mul (f64Mul f64Two x) y = f64Mul (f64Mul f64Two y) x := by
  have ht := c32_lt_top
  rcases hx with rfl | rfl | ⟨a, rfl, ha, ha2⟩
  · rw [two_mul_nan, nan_mul, mul_nan]
  · rcases hy with rfl | rfl | ⟨b, rfl, hb, hb2⟩
    · rw [two_mul_nan, nan_mul, mul_nan]
    · rfl
    · rw [two_mul_inf, two_mul_fin b hb (by omega), mul_inf_fin, mul_fin_inf]
      by_cases h : b = 0
      · rw [if_pos h, if_pos (by omega)]
      · rw [if_neg h, if_neg (by omega)]
  · rcases hy with rfl | rfl | ⟨b, rfl, hb, hb2⟩
    · rw [two_mul_nan, nan_mul, mul_nan]
    · rw [two_mul_inf, two_mul_fin a ha (by omega), mul_inf_fin, mul_fin_inf]
      by_cases h : a = 0
      · rw [if_pos h, if_pos (by omega)]
      · rw [if_neg h, if_neg (by omega)]
    · rw [two_mul_fin a ha (by omega), two_mul_fin b hb (by omega), mul_fin, mul_fin, Nat.mul_right_comm 2 a b]

theorem f1_symmetric (N P R : Nat) (hN : N < 2 ^ 31) (hP : P < 2 ^ 31) (hR : R < 2 ^ 31) :
    (evalMetrics N P R).2.2 = (evalMetrics N R P).2.2 := by
  rw [evalMetrics_eq, evalMetrics_eq]
  show f64Div (f64Mul (f64Mul f64Two _) _) (f64Add _ _) = f64Div (f64Mul (f64Mul f64Two _) _) (f64Add _ _)
  rw [two_mul_mul_comm _ _ (ratio_of_counts N P hN hP) (ratio_of_counts N R hN hR),
    f64Add_comm (f64Div (f64OfNat N) (f64OfNat P))]

end V.EvalF
