import VProofs.Lemmas.EvalFloatProps
/-!
# F1 against the smaller and the larger of precision and recall

`min p r ≤ f1 ≤ max p r` holds for the exact harmonic mean; the computed value went through three roundings and may leave the
interval by one grid step (see the counterexamples in `C20.lean`).  What is proved here: it stays within a relative
`(1 ± 2^-53)^3`, stated on units without division.
-/
namespace V.EvalF
open V V.F64 V.QuantL

attribute [local irreducible] F64.top F64.unit e1021

/-- above `2^52` grid steps the rounding error is relative: `|fl(n/d) − n/d| ≤ 2^-53 · n/d` -/
theorem roundUnits_rel (n d : Nat) (hd : 0 < d) (hbig : d * 2 ^ 52 ≤ n) :
    2 ^ 53 * (d * roundUnits n d) ≤ (2 ^ 53 + 1) * n ∧ (2 ^ 53 - 1) * n ≤ 2 ^ 53 * (d * roundUnits n d) := by
  constructor
  · rcases roundUnits_upper n d hd with h | h <;> omega
  · rcases roundUnits_lower n d hd with h | h <;> omega

/-- three relative errors against an upper bound of the exact quotient, without division -/
theorem chain_upper (Qm Q Qp u n c h m s f : Nat) (hQs : 0 < Q * s)
    (U3 : Q * (s * f) ≤ Qp * (m * u)) (U1 : Q * (u * m) ≤ Qp * n) (L2 : Qm * c ≤ Q * s) (hh : n ≤ c * h) :
    Qm * Q * f ≤ Qp * Qp * h := by
  apply Nat.le_of_mul_le_mul_left _ hQs
  calc Q * s * (Qm * Q * f) = Qm * Q * (Q * (s * f)) := by ac_rfl
    _ ≤ Qm * Q * (Qp * (m * u)) := Nat.mul_le_mul_left _ U3
    _ = Qm * Qp * (Q * (u * m)) := by ac_rfl
    _ ≤ Qm * Qp * (Qp * n) := Nat.mul_le_mul_left _ U1
    _ ≤ Qm * Qp * (Qp * (c * h)) := Nat.mul_le_mul_left _ (Nat.mul_le_mul_left _ hh)
    _ = Qp * Qp * h * (Qm * c) := by ac_rfl
    _ ≤ Qp * Qp * h * (Q * s) := Nat.mul_le_mul_left _ L2
    _ = Q * s * (Qp * Qp * h) := by ac_rfl

theorem chain_lower (Qm Q Qp u n c l m s f : Nat) (hQs : 0 < Q * s)
    (L3 : Qm * (m * u) ≤ Q * (s * f)) (L1 : Qm * n ≤ Q * (u * m)) (U2 : Q * s ≤ Qp * c) (hl : c * l ≤ n) :
    Qm * Qm * l ≤ Qp * Q * f := by
  apply Nat.le_of_mul_le_mul_left _ hQs
  calc Q * s * (Qm * Qm * l) = Qm * Qm * l * (Q * s) := by ac_rfl
    _ ≤ Qm * Qm * l * (Qp * c) := Nat.mul_le_mul_left _ U2
    _ = Qm * Qp * (Qm * (c * l)) := by ac_rfl
    _ ≤ Qm * Qp * (Qm * n) := Nat.mul_le_mul_left _ (Nat.mul_le_mul_left _ hl)
    _ ≤ Qm * Qp * (Q * (u * m)) := Nat.mul_le_mul_left _ L1
    _ = Qp * Q * (Qm * (m * u)) := by ac_rfl
    _ ≤ Qp * Q * (Q * (s * f)) := Nat.mul_le_mul_left _ L3
    _ = Q * s * (Qp * Q * f) := by ac_rfl

set_option exponentiation.threshold 5000 in
theorem sq_big : unit * 2 ^ 53 ≤ 2 * (e1021 * e1021) := by decide +kernel
set_option exponentiation.threshold 5000 in
theorem e1021_big : 2 ^ 52 ≤ e1021 := by decide +kernel

/-- the harmonic mean lies between its arguments (before division) -/
theorem hm_upper (a b : Nat) : 2 * a * b ≤ (a + b) * max a b := by
  have h1 : a * b ≤ a * max a b := Nat.mul_le_mul_left _ (Nat.le_max_right a b)
  have h2 : a * b ≤ b * max a b := by rw [Nat.mul_comm a b]; exact Nat.mul_le_mul_left _ (Nat.le_max_left a b)
  have e1 : 2 * a * b = a * b + a * b := by rw [Nat.mul_assoc, Nat.two_mul]
  rw [e1, Nat.add_mul]
  omega

theorem hm_lower (a b : Nat) : (a + b) * min a b ≤ 2 * a * b := by
  have h1 : a * min a b ≤ a * b := Nat.mul_le_mul_left _ (Nat.min_le_right a b)
  have h2 : b * min a b ≤ a * b := by rw [Nat.mul_comm a b]; exact Nat.mul_le_mul_left _ (Nat.min_le_left a b)
  have e1 : 2 * a * b = a * b + a * b := by rw [Nat.mul_assoc, Nat.two_mul]
  rw [e1, Nat.add_mul]
  omega

/-! arithmetic side conditions, on plain variables (so that `omega` never compares two `roundUnits` terms) -/

theorem side1 (u E ab : Nat) (h : u * 2 ^ 53 ≤ 2 * (E * E)) (hsq : E * E ≤ ab) : u * 2 ^ 52 ≤ 2 * ab := by
  have : u * 2 ^ 52 ≤ u * 2 ^ 53 := Nat.mul_le_mul_left _ (Nat.pow_le_pow_right (by decide) (by decide))
  exact Nat.le_trans this (Nat.le_trans h (Nat.mul_le_mul_left 2 hsq))

theorem side1' (u E ab : Nat) (h : u * 2 ^ 53 ≤ 2 * (E * E)) (hsq : E * E ≤ ab) : u * 2 ^ 53 ≤ 2 * ab :=
  Nat.le_trans h (Nat.mul_le_mul_left 2 hsq)

theorem side2 (E a b : Nat) (h : 2 ^ 52 ≤ E) (ha : E ≤ a) (hb : E ≤ b) : 1 * 2 ^ 52 ≤ a + b := by
  omega

theorem side3 (s m u : Nat) (h1 : s ≤ 2 * u) (hm : 2 ^ 53 ≤ m) : s * 2 ^ 52 ≤ m * u := by
  have h2 : 2 ^ 53 * u ≤ m * u := Nat.mul_le_mul_right _ hm
  have h3 : s * 2 ^ 52 ≤ 2 * u * 2 ^ 52 := Nat.mul_le_mul_right _ h1
  have e : 2 * u * 2 ^ 52 = 2 ^ 53 * u := by rw [Nat.mul_right_comm]
  omega

/-- the computed F1 of two values in `[2^-53, 1]` is within a relative `(1 ± 2^-53)^3` of `[min, max]` -/
theorem f1Units_between (a b : Nat) (ha : a ≤ unit) (hb : b ≤ unit) (ha' : e1021 ≤ a) (hb' : e1021 ≤ b) :
    (2 ^ 53 - 1) * (2 ^ 53 - 1) * min a b ≤ (2 ^ 53 + 1) * 2 ^ 53 * f1Units a b ∧
    (2 ^ 53 - 1) * 2 ^ 53 * f1Units a b ≤ (2 ^ 53 + 1) * (2 ^ 53 + 1) * max a b := by
  have hs0 : 0 < a + b := Nat.lt_of_lt_of_le e1021_pos (Nat.le_trans ha' (Nat.le_add_right a b))
  have hsp := sumUnits_pos a b hs0
  have hsq : e1021 * e1021 ≤ a * b := Nat.mul_le_mul ha' hb'
  have e2 : 2 * a * b = 2 * (a * b) := Nat.mul_assoc _ _ _
  -- the three roundings are in the relative regime
  have big1 : unit * 2 ^ 52 ≤ 2 * a * b := by rw [e2]; exact side1 _ _ _ sq_big hsq
  have big2 : 1 * 2 ^ 52 ≤ a + b := side2 _ _ _ e1021_big ha' hb'
  have hm53 : 2 ^ 53 ≤ prodUnits a b := by
    apply le_roundUnits_of_le _ _ _ unit_pos (repU_pow 53)
    rw [e2]; exact side1' _ _ _ sq_big hsq
  have big3 : sumUnits a b * 2 ^ 52 ≤ prodUnits a b * unit := side3 _ _ _ (sumUnits_le a b ha hb) hm53
  obtain ⟨U1, L1⟩ := roundUnits_rel (2 * a * b) unit unit_pos big1
  obtain ⟨U2, L2⟩ := roundUnits_rel (a + b) 1 (by decide) big2
  obtain ⟨U3, L3⟩ := roundUnits_rel (prodUnits a b * unit) (sumUnits a b) hsp big3
  rw [Nat.one_mul] at U2 L2
  have hQs : 0 < 2 ^ 53 * sumUnits a b := Nat.mul_pos (by decide) hsp
  exact ⟨chain_lower _ _ _ unit (2 * a * b) (a + b) _ (prodUnits a b) (sumUnits a b) _ hQs L3 L1 U2 (hm_lower a b),
    chain_upper _ _ _ unit (2 * a * b) (a + b) _ (prodUnits a b) (sumUnits a b) _ hQs U3 U1 L2 (hm_upper a b)⟩

theorem metrics_between_ex (N P R : Nat) (hP : P < 2 ^ 31) (hR : R < 2 ^ 31) (hNP : N ≤ P) (hNR : N ≤ R) (hN : 0 < N) :
    ∃ a b f, evalMetrics N P R = (.fin false a, .fin false b, .fin false f) ∧
      (2 ^ 53 - 1) * (2 ^ 53 - 1) * min a b ≤ (2 ^ 53 + 1) * 2 ^ 53 * f ∧
      (2 ^ 53 - 1) * 2 ^ 53 * f ≤ (2 ^ 53 + 1) * (2 ^ 53 + 1) * max a b := by
  have hPp : 0 < P := by omega
  have hRp : 0 < R := by omega
  have he := metrics_fin N P R hP hR hPp hRp hNP hNR
  rw [if_neg (by omega)] at he
  exact ⟨_, _, _, he, f1Units_between _ _ (ratioUnits_le_unit N P hPp hNP) (ratioUnits_le_unit N R hRp hNR)
    (ratioUnits_ge N P hPp (by omega) hN) (ratioUnits_ge N R hRp (by omega) hN)⟩

/-- `C20_eval_f1_between` -/
theorem metrics_between (N P R : Nat) (hP : P < 2 ^ 31) (hR : R < 2 ^ 31) (hNP : N ≤ P) (hNR : N ≤ R) (hN : 0 < N) :
    (2 ^ 53 - 1) * (2 ^ 53 - 1) * min (evalMetrics N P R).1.mag (evalMetrics N P R).2.1.mag
      ≤ (2 ^ 53 + 1) * 2 ^ 53 * (evalMetrics N P R).2.2.mag ∧
    (2 ^ 53 - 1) * 2 ^ 53 * (evalMetrics N P R).2.2.mag
      ≤ (2 ^ 53 + 1) * (2 ^ 53 + 1) * max (evalMetrics N P R).1.mag (evalMetrics N P R).2.1.mag := by
  obtain ⟨a, b, f, he, h1, h2⟩ := metrics_between_ex N P R hP hR hNP hNR hN
  rw [he]
  exact ⟨h1, h2⟩

end V.EvalF
