import VModel.Cli
/-! Helper lemmas for C20 (`evaluate`, `--metric word`): the counting loop against `specSeg`. -/
namespace V.C20E

/-- one step of the word loop -/
def wordStep (st : Nat × Nat × Nat × Bool) (x : ((B × List Tag) × B) × List Tag) : Nat × Nat × Nat × Bool :=
  if x.1.1.1 = x.1.2 then
    if x.1.2 = B.W then ((if st.2.2.2 && x.1.1.2 = x.2 then st.1 + 1 else st.1), st.2.1 + 1, st.2.2.1 + 1, true)
    else (st.1, st.2.1, st.2.2.1, st.2.2.2)
  else
    if x.1.2 = B.W then (st.1, st.2.1 + 1, st.2.2.1, false) else (st.1, st.2.1, st.2.2.1 + 1, false)

/-- the end-of-line step -/
def wordFin (rT sT : List (List Tag)) (st : Nat × Nat × Nat × Bool) : Nat × Nat × Nat :=
  ((if st.2.2.2 && rT.getLast? = sT.getLast? then st.1 + 1 else st.1), st.2.1 + 1, st.2.2.1 + 1)

/-- one line of the word loop from a given state -/
def wordLine (rB : List B) (rT : List (List Tag)) (sB : List B) (sT : List (List Tag)) (st : Nat × Nat × Nat × Bool) :
    Nat × Nat × Nat :=
  wordFin rT sT ((((rB.zip rT).zip sB).zip sT).foldl wordStep st)

theorem wordCounts_eq_fold (ls : List EvalLine) :
    wordCounts ls = ls.foldl (fun acc l => wordLine l.refB l.refT l.sysB l.sysT (acc.1, acc.2.1, acc.2.2, true)) (0, 0, 0) := by
  unfold wordCounts
  congr 1

theorem specSeg_gt (rest : List B) (start pos : Nat) (dirty : Bool) :
    ∀ se ∈ specSeg rest start pos dirty, pos < se.2 := by
  induction rest generalizing start pos dirty with
  | nil => cases dirty <;> simp [specSeg]
  | cons b r ih =>
    intro se hse
    cases b with
    | N => simp only [specSeg] at hse; have := ih _ _ _ se hse; omega
    | U => simp only [specSeg] at hse; have := ih _ _ _ se hse; omega
    | W =>
      simp only [specSeg, List.mem_append] at hse
      rcases hse with h | h
      · cases dirty
        · simp only [Bool.false_eq_true, if_false, List.mem_singleton] at h; subst h; simp
        · simp at h
      · have := ih _ _ _ se h; omega

/-- the common-word predicate, relative to the current position -/
def corP (sSeg : List (Nat × Nat)) (rT sT : List (List Tag)) (pos : Nat) (se : Nat × Nat) : Bool :=
  decide (se ∈ sSeg) && decide (rT[se.2 - 1 - pos]? = sT[se.2 - 1 - pos]?)

/-- moving one position forward: the predicate on segments ending later does not change -/
theorem corP_shift (sSeg sSeg' : List (Nat × Nat)) (a b : List Tag) (rT sT : List (List Tag)) (pos : Nat)
    (se : Nat × Nat) (hgt : pos + 1 < se.2) (hmem : se ∈ sSeg ↔ se ∈ sSeg') :
    corP sSeg (a :: rT) (b :: sT) pos se = corP sSeg' rT sT (pos + 1) se := by
  unfold corP
  have e : se.2 - 1 - pos = (se.2 - 1 - (pos + 1)) + 1 := by omega
  rw [e, List.getElem?_cons_succ, List.getElem?_cons_succ]
  simp only [hmem]

theorem getLast?_cons_of_ne {α : Type} (a : α) (l : List α) (h : l ≠ []) : (a :: l).getLast? = l.getLast? := by
  cases l with
  | nil => exact absurd rfl h
  | cons b r => simp [List.getLast?_cons_cons]


theorem wordLine_cons (rb sb : B) (r s : List B) (a b : List Tag) (rT sT : List (List Tag))
    (hr : rT ≠ []) (hs : sT ≠ []) (st : Nat × Nat × Nat × Bool) :
    wordLine (rb :: r) (a :: rT) (sb :: s) (b :: sT) st = wordLine r rT s sT (wordStep st (((rb, a), sb), b)) := by
  simp only [wordLine, List.zip_cons_cons, List.foldl_cons, wordFin, getLast?_cons_of_ne _ _ hr,
    getLast?_cons_of_ne _ _ hs]

theorem mem_cons_later (ss pos : Nat) (S : List (Nat × Nat)) (se : Nat × Nat) (h : pos + 1 < se.2) :
    se ∈ (ss, pos + 1) :: S ↔ se ∈ S := by
  rw [List.mem_cons]
  constructor
  · rintro (e | e)
    · subst e; simp at h
    · exact e
  · exact Or.inr

theorem filter_shift (R sSeg sSeg' : List (Nat × Nat)) (a b : List Tag) (rT sT : List (List Tag)) (pos : Nat)
    (hR : ∀ se ∈ R, pos + 1 < se.2) (hmem : ∀ se, pos + 1 < se.2 → (se ∈ sSeg ↔ se ∈ sSeg')) :
    R.filter (corP sSeg (a :: rT) (b :: sT) pos) = R.filter (corP sSeg' rT sT (pos + 1)) := by
  apply List.filter_congr
  intro se hse
  exact corP_shift _ _ _ _ _ _ _ _ (hR se hse) (hmem se (hR se hse))

/-- the joint recursion: from position `pos` with the reference word starting at `rs` and the system word at `ss`,
`matched` holds exactly when the two starts coincide -/
theorem wordLine_spec (rB : List B) :
    ∀ (sB : List B) (rT sT : List (List Tag)) (rs ss pos cor sys ref : Nat),
      sB.length = rB.length → rT.length = rB.length + 1 → sT.length = sB.length + 1 →
      (∀ x ∈ rB, x ≠ B.U) → (∀ x ∈ sB, x ≠ B.U) → rs ≤ pos → ss ≤ pos →
      wordLine rB rT sB sT (cor, sys, ref, decide (rs = ss)) =
        (cor + ((specSeg rB rs pos false).filter (corP (specSeg sB ss pos false) rT sT pos)).length,
         sys + (specSeg sB ss pos false).length, ref + (specSeg rB rs pos false).length) := by
  induction rB with
  | nil =>
    intro sB rT sT rs ss pos cor sys ref h1 h2 h3 _ _ _ _
    cases sB with
    | cons _ _ => simp at h1
    | nil =>
      match rT, sT, h2, h3 with
      | [a], [b], _, _ =>
        by_cases e : rs = ss <;> by_cases e2 : a = b <;>
          simp [wordLine, wordFin, specSeg, corP, e, e2]
  | cons rb r ih =>
    intro sB rT sT rs ss pos cor sys ref h1 h2 h3 hru hsu hrs hss
    cases sB with
    | nil => simp at h1
    | cons sb s =>
      cases rT with
      | nil => simp at h2
      | cons a rT =>
        cases sT with
        | nil => simp at h3
        | cons b sT =>
          simp only [List.length_cons, Nat.add_right_cancel_iff] at h1 h2 h3
          have hr' : ∀ x ∈ r, x ≠ B.U := fun x hx => hru x (by simp [hx])
          have hs' : ∀ x ∈ s, x ≠ B.U := fun x hx => hsu x (by simp [hx])
          have hrne : rT ≠ [] := by intro e; rw [e] at h2; simp at h2
          have hsne : sT ≠ [] := by intro e; rw [e] at h3; simp at h3
          rw [wordLine_cons _ _ _ _ _ _ _ _ hrne hsne]
          cases rb with
          | U => exact absurd rfl (hru B.U (by simp))
          | N =>
            cases sb with
            | U => exact absurd rfl (hsu B.U (by simp))
            | N =>
              have hstep : wordStep (cor, sys, ref, decide (rs = ss)) (((B.N, a), B.N), b) =
                  (cor, sys, ref, decide (rs = ss)) := by simp [wordStep]
              rw [hstep, ih s rT sT rs ss (pos + 1) cor sys ref h1 h2 h3 hr' hs' (by omega) (by omega)]
              simp only [specSeg]
              rw [filter_shift _ _ _ a b rT sT pos (specSeg_gt _ _ _ _) (fun _ _ => Iff.rfl)]
            | W =>
              have hne : ¬ rs = pos + 1 := by omega
              have hstep : wordStep (cor, sys, ref, decide (rs = ss)) (((B.N, a), B.W), b) =
                  (cor, sys + 1, ref, decide (rs = pos + 1)) := by simp [wordStep, hne]
              rw [hstep, ih s rT sT rs (pos + 1) (pos + 1) cor (sys + 1) ref h1 h2 h3 hr' hs' (by omega) (by omega)]
              simp only [specSeg, Bool.false_eq_true, if_false, List.singleton_append, List.length_cons]
              rw [filter_shift _ _ _ a b rT sT pos (specSeg_gt _ _ _ _) (fun se h => mem_cons_later ss pos _ se h)]
              simp only [Prod.mk.injEq]
              refine ⟨?_, ?_, ?_⟩ <;> first | trivial | omega
          | W =>
            cases sb with
            | U => exact absurd rfl (hsu B.U (by simp))
            | N =>
              have hne : ¬ pos + 1 = ss := by omega
              have hstep : wordStep (cor, sys, ref, decide (rs = ss)) (((B.W, a), B.N), b) =
                  (cor, sys, ref + 1, decide (pos + 1 = ss)) := by simp [wordStep, hne]
              rw [hstep, ih s rT sT (pos + 1) ss (pos + 1) cor sys (ref + 1) h1 h2 h3 hr' hs' (by omega) (by omega)]
              simp only [specSeg, Bool.false_eq_true, if_false, List.singleton_append, List.length_cons]
              have hhead : corP (specSeg s ss (pos + 1) false) (a :: rT) (b :: sT) pos (rs, pos + 1) = false := by
                have : (rs, pos + 1) ∉ specSeg s ss (pos + 1) false := by
                  intro hm; have := specSeg_gt _ _ _ _ _ hm; simp at this
                simp [corP, this]
              rw [List.filter_cons, hhead]
              simp only [Bool.false_eq_true, if_false]
              rw [filter_shift _ _ _ a b rT sT pos (specSeg_gt _ _ _ _) (fun _ _ => Iff.rfl)]
              simp only [Prod.mk.injEq]
              refine ⟨?_, ?_, ?_⟩ <;> first | trivial | omega
            | W =>
              have hstep : wordStep (cor, sys, ref, decide (rs = ss)) (((B.W, a), B.W), b) =
                  ((if decide (rs = ss) && decide (a = b) then cor + 1 else cor), sys + 1, ref + 1,
                    decide (pos + 1 = pos + 1)) := by simp [wordStep]
              rw [hstep, ih s rT sT (pos + 1) (pos + 1) (pos + 1) _ (sys + 1) (ref + 1) h1 h2 h3 hr' hs'
                (Nat.le_refl _) (Nat.le_refl _)]
              simp only [specSeg, Bool.false_eq_true, if_false, List.singleton_append, List.length_cons]
              have hhead : corP ((ss, pos + 1) :: specSeg s (pos + 1) (pos + 1) false) (a :: rT) (b :: sT) pos
                  (rs, pos + 1) = (decide (rs = ss) && decide (a = b)) := by
                have : (rs, pos + 1) ∉ specSeg s (pos + 1) (pos + 1) false := by
                  intro hm; have := specSeg_gt _ _ _ _ _ hm; simp at this
                simp [corP, this]
              rw [List.filter_cons, hhead]
              rw [filter_shift _ _ _ a b rT sT pos (specSeg_gt _ _ _ _) (fun se h => mem_cons_later ss pos _ se h)]
              cases (decide (rs = ss) && decide (a = b))
              · simp only [Bool.false_eq_true, if_false, Prod.mk.injEq]
                refine ⟨?_, ?_, ?_⟩ <;> first | trivial | omega
              · simp only [if_true, List.length_cons, Prod.mk.injEq]
                refine ⟨?_, ?_, ?_⟩ <;> first | trivial | omega


/-- the hypotheses on one line (the body of `EvalLineWF`) -/
def LineWF (l : EvalLine) : Prop :=
  l.sysB.length = l.refB.length ∧ l.refT.length = l.refB.length + 1 ∧ l.sysT.length = l.sysB.length + 1 ∧
  (∀ b ∈ l.refB, b ≠ B.U) ∧ (∀ b ∈ l.sysB, b ≠ B.U)

/-- the common words of one line (the body of `corWords`) -/
def cor (l : EvalLine) : List (Nat × Nat) :=
  (specTokens l.refB).filter fun se => decide (se ∈ specTokens l.sysB) && decide (l.refT[se.2 - 1]? = l.sysT[se.2 - 1]?)

theorem wordLine_line (l : EvalLine) (h : LineWF l) (c s r : Nat) :
    wordLine l.refB l.refT l.sysB l.sysT (c, s, r, true) =
      (c + (cor l).length, s + (specTokens l.sysB).length, r + (specTokens l.refB).length) := by
  obtain ⟨h1, h2, h3, h4, h5⟩ := h
  have := wordLine_spec l.refB l.sysB l.refT l.sysT 0 0 0 c s r h1 h2 h3 h4 h5 (Nat.le_refl _) (Nat.le_refl _)
  simp only [decide_true] at this
  rw [this]
  rfl

theorem wordLines (ls : List EvalLine) (h : ∀ l ∈ ls, LineWF l) (c s r : Nat) :
    ls.foldl (fun acc l => wordLine l.refB l.refT l.sysB l.sysT (acc.1, acc.2.1, acc.2.2, true)) (c, s, r) =
      (c + (ls.map fun l => (cor l).length).sum, s + (ls.map fun l => (specTokens l.sysB).length).sum,
       r + (ls.map fun l => (specTokens l.refB).length).sum) := by
  induction ls generalizing c s r with
  | nil => simp
  | cons l ls ih =>
    rw [List.foldl_cons, wordLine_line l (h l (by simp)), ih (fun l' hl' => h l' (by simp [hl']))]
    simp only [List.map_cons, List.sum_cons, Nat.add_assoc]

theorem word_counts (ls : List EvalLine) (h : ∀ l ∈ ls, LineWF l) :
    wordCounts ls = ((ls.map fun l => (cor l).length).sum, (ls.map fun l => (specTokens l.sysB).length).sum,
                     (ls.map fun l => (specTokens l.refB).length).sum) := by
  rw [wordCounts_eq_fold, wordLines ls h]
  simp only [Nat.zero_add]

end V.C20E
