import VModel.Trainer
/-!
# Lemmas for C10 — the n-gram part of `genFeatures`
-/
namespace V.C10L

variable {α : Type}

/-- membership in `ngramFeats`, in terms of the start `j` and the length `l` of the n-gram -/
theorem mem_ngramFeats (W N : Nat) (seq : List α) (i : Nat) (g : List α) (rel : Int) :
    (g, rel) ∈ ngramFeats W N seq i ↔
      ∃ j l, 1 ≤ l ∧ l ≤ N ∧ i + 1 ≤ j + W ∧ j + l ≤ min seq.length (i + 1 + W) ∧
        g = (seq.drop j).take l ∧ rel = (j : Int) - (i : Int) - 1 := by
  unfold ngramFeats
  simp only [List.mem_flatMap, List.mem_range, List.mem_map, List.mem_range'_1, Prod.mk.injEq]
  constructor
  · rintro ⟨n, hn, j, ⟨hlo, hhi⟩, rfl, rfl⟩
    exact ⟨j, n + 1, by omega, by omega, by omega, by omega, rfl, rfl⟩
  · rintro ⟨j, l, h1, h2, h3, h4, rfl, rfl⟩
    refine ⟨l - 1, by omega, j, ⟨by omega, by omega⟩, ?_, rfl⟩
    have : l - 1 + 1 = l := by omega
    rw [this]

/-- distinct index pairs `(n, j)` give distinct `(g, rel)` -/
theorem nodup_ngramFeats (W N : Nat) (seq : List α) (i : Nat) : (ngramFeats W N seq i).Nodup := by
  unfold ngramFeats
  rw [List.nodup_iff_pairwise_ne, List.pairwise_flatMap]
  refine ⟨fun n _ => ?_, ?_⟩
  · rw [List.pairwise_map]
    refine (List.pairwise_lt_range' (s := i + 1 - W)
      (n := min (i + 1 + W) seq.length - n - (i + 1 - W))).imp ?_
    intro a b hab e
    simp only [Prod.mk.injEq] at e
    omega
  · refine (List.pairwise_lt_range (n := N)).imp ?_
    intro a b hab x hx y hy e
    simp only [List.mem_map, List.mem_range'_1] at hx hy
    obtain ⟨j, ⟨_, hj⟩, rfl⟩ := hx
    obtain ⟨j', ⟨_, hj'⟩, hy⟩ := hy
    rw [← hy] at e
    simp only [Prod.mk.injEq] at e
    obtain ⟨e1, e2⟩ := e
    have hjj : j = j' := by omega
    subst hjj
    have hl := congrArg List.length e1
    simp only [List.length_take, List.length_drop] at hl
    omega

theorem count_ngramFeats_le_one [BEq (List α × Int)] [LawfulBEq (List α × Int)] (W N : Nat) (seq : List α) (i : Nat) (p : List α × Int) :
    (ngramFeats W N seq i).count p ≤ 1 :=
  List.nodup_iff_count.1 (nodup_ngramFeats W N seq i) p

/-- counting through an injective `map` -/
theorem count_map_inj {β γ : Type} [BEq β] [LawfulBEq β] [BEq γ] [LawfulBEq γ] (f : β → γ)
    (hf : ∀ a b, f a = f b → a = b) (x : β) (l : List β) :
    (l.map f).count (f x) = l.count x := by
  induction l with
  | nil => rfl
  | cons a l ih =>
    simp only [List.map_cons, List.count_cons, ih]
    by_cases h : a = x
    · subst h; simp
    · have : f a ≠ f x := fun e => h (hf _ _ e)
      simp [h, this]

end V.C10L
