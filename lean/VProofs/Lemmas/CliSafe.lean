import VProofs.Lemmas.CliLine
import VProofs.Lemmas.TkPipeline
import VProofs.C01
import VProofs.C03
import VProofs.C05
import VProofs.C06
import VProofs.C15
/-!
# CliSafe — every stage of one `predict` iteration returns a value on the sentences the tool builds
-/
namespace V.C20L
open V

/-! ## writers and printers return a value (not merely "do not panic") -/

theorem writeTokBody_ok (s : Sentence) (l : List (Nat × Nat))
    (h : ∀ se ∈ l, (∃ x, s.substring se.1 se.2 = .ok x) ∧ ∃ t, s.tokenTags se.2 = .ok t) (first : Bool) :
    ∃ w, writeTokBody s l first = .ok w := by
  induction l generalizing first with
  | nil => exact ⟨[], rfl⟩
  | cons x r ih =>
    obtain ⟨st, en⟩ := x
    obtain ⟨⟨surf, hs⟩, ⟨ts, ht⟩⟩ := h (st, en) (by simp)
    obtain ⟨rest, hr⟩ := ih (fun se hse => h se (by simp [hse])) false
    simp only at hs ht
    exact ⟨_, by simp only [writeTokBody, hs, ht, hr]; rfl⟩

theorem substring_ok (s : Sentence) (st en : Nat) (h1 : st ≤ en) (h2 : en ≤ s.text.length) :
    ∃ x, s.substring st en = .ok x := by
  unfold Sentence.substring
  rw [if_pos ⟨h1, h2⟩]
  exact ⟨_, rfl⟩

theorem tokenTags_ok (s : Sentence) (en : Nat) (h0 : 0 < en) (h1 : en ≤ s.text.length)
    (ht : s.tags.length = s.text.length * s.nTags) : ∃ t, s.tokenTags en = .ok t := by
  unfold Sentence.tokenTags
  rw [if_neg (by omega), if_pos (by rw [ht]; exact Nat.mul_le_mul_right _ h1)]
  exact ⟨_, rfl⟩

theorem writeTokenized_ok (s : Sentence) (h : InvC s) : ∃ w, s.writeTokenized = .ok w := by
  obtain ⟨_, _, h3, h4, _⟩ := h
  refine writeTokBody_ok s _ (fun se hse => ?_) true
  have := iterTokens_range s.bounds se hse
  exact ⟨substring_ok s _ _ (by omega) (by omega), tokenTags_ok s _ (by omega) (by omega) h4⟩

theorem printScores_ok (s : Sentence) (hne : s.text ≠ []) (sc : List Int) (h : s.boundaryScores = .ok sc) :
    ∃ o, printScores s = .ok o := by
  unfold printScores
  cases ht : s.text with
  | nil => exact absurd ht hne
  | cons c r => exact ⟨_, by simp only [h]; rfl⟩

theorem printTagScores_go_ok (s : Sentence) (l : List (Nat × Nat))
    (h : ∀ se ∈ l, (∃ x, s.substring se.1 se.2 = .ok x) ∧ ∃ c, s.tagCandidates se.2 = .ok c) :
    ∃ o, printTagScores.go s l = .ok o := by
  induction l with
  | nil => exact ⟨[], rfl⟩
  | cons x r ih =>
    obtain ⟨st, en⟩ := x
    obtain ⟨⟨surf, hs⟩, ⟨cs, hc⟩⟩ := h (st, en) (by simp)
    obtain ⟨rest, hr⟩ := ih (fun se hse => h se (by simp [hse]))
    simp only at hs hc
    exact ⟨_, by simp only [printTagScores.go, hs, hc, hr]; rfl⟩

theorem printTagScores_ok (s : Sentence) (hbl : s.bounds.length + 1 = s.text.length)
    (h : ∀ se ∈ iterTokens s.bounds, ∃ c, s.tagCandidates se.2 = .ok c) : ∃ o, printTagScores s = .ok o := by
  obtain ⟨t, ht⟩ := printTagScores_go_ok s (iterTokens s.bounds) fun se hse => by
    have := iterTokens_range s.bounds se hse
    exact ⟨substring_ok s _ _ (by omega) (by omega), h se hse⟩
  exact ⟨_, by simp only [printTagScores, ht]; rfl⟩

/-! ## the `--wsconst` filters -/

theorem buildPostFilters_ws (cl : List Nat) : ∀ (ws : List Char), (∀ c ∈ ws, c ∈ ['D', 'R', 'H', 'T', 'K', 'O']) →
    ∃ fs, buildPostFilters ws cl = .ok fs ∧ ∀ f ∈ fs, ∃ t, f = PostFilter.ws t
  | [], _ => ⟨[], rfl, fun f hf => by cases hf⟩
  | c :: ws, h => by
    obtain ⟨fs, h1, h2⟩ := buildPostFilters_ws cl ws (fun c hc => h c (List.mem_cons_of_mem _ hc))
    have hc := h c List.mem_cons_self
    unfold buildPostFilters at h1 ⊢
    rw [List.foldr_cons, h1]
    have hfs : ∀ t, ∀ f ∈ PostFilter.ws t :: fs, ∃ t, f = PostFilter.ws t := fun t f hf => by
      rcases List.mem_cons.mp hf with hf | hf
      · exact ⟨t, hf⟩
      · exact h2 f hf
    simp only [List.mem_cons, List.not_mem_nil, or_false] at hc
    rcases hc with rfl | rfl | rfl | rfl | rfl | rfl
    · exact ⟨_, rfl, hfs 1⟩
    · exact ⟨_, rfl, hfs 2⟩
    · exact ⟨_, rfl, hfs 3⟩
    · exact ⟨_, rfl, hfs 4⟩
    · exact ⟨_, rfl, hfs 5⟩
    · exact ⟨_, rfl, hfs 6⟩

/-- character-type filters only rewrite the boundary vector, keep its length and introduce no unknown label -/
theorem ws_filters : ∀ (fs : List PostFilter) (s : Sentence), (∀ f ∈ fs, ∃ t, f = PostFilter.ws t) → Inv s →
    ∃ bs, applyPostFilters fs s = .ok { s with bounds := bs } ∧ bs.length = s.bounds.length ∧
      ((∀ b ∈ s.bounds, b ≠ B.U) → ∀ b ∈ bs, b ≠ B.U)
  | [], s, _, _ => ⟨s.bounds, rfl, rfl, fun h => h⟩
  | f :: r, s, hf, hi => by
    obtain ⟨t, rfl⟩ := hf f List.mem_cons_self
    obtain ⟨bs1, e1, l1, p1⟩ := C15_wsconst t s hi
    have hi1 : Inv ({ s with bounds := bs1 } : Sentence) := Inv.ofC (C15L.invC_bounds hi.toC l1)
    obtain ⟨bs2, e2, l2, p2⟩ := ws_filters r { s with bounds := bs1 } (fun f hm => hf f (List.mem_cons_of_mem _ hm)) hi1
    refine ⟨bs2, by simp only [applyPostFilters, e1, e2], l2.trans l1, fun hU => p2 ?_⟩
    refine C16L.noU_pointwise hU l1 fun i hi' => ⟨_, p1 i hi', ?_⟩
    split
    · exact Or.inr (Or.inl rfl)
    · exact Or.inr (Or.inr rfl)

/-! ## the stages of one iteration -/

theorem boundaryScores_congr (s s' : Sentence) (h1 : s'.scores = s.scores) (h2 : s'.padding = s.padding)
    (h3 : s'.bounds.length = s.bounds.length) : s'.boundaryScores = s.boundaryScores := by
  unfold Sentence.boundaryScores
  rw [h1, h2, h3]

/-- the sentence after `predict` on the fresh sentence over `x` -/
structure Pred (x : List Char) (s1 : Sentence) : Prop where
  inv : Inv s1
  text : s1.text = x
  tags : s1.tags = []
  nTags : s1.nTags = 0
  noU : ∀ b ∈ s1.bounds, b ≠ B.U
  sc : ∃ sc, s1.boundaryScores = .ok sc

theorem sentOK_mkRaw (x : List Char) (hne : x ≠ []) : SentOK (Sentence.mkRaw x) :=
  have hi := invC_mkRaw x hne
  ⟨hi.1, hi.2.1, hi.2.2.1⟩

theorem predict_store (p : Predictor) (store : Bool) (pid : Nat) (s : Sentence) :
    ({ p with storeTagScores := store } : Predictor).predict pid s = p.predict pid s := rfl

theorem predict_stage (cfg : Cfg) (m : WModel) (hm : WFModel m) (pt : Bool) (p : Predictor)
    (hp : Predictor.new cfg m pt = .ok p) (x : List Char) (hne : x ≠ []) :
    ∃ s1, p.predict 0 (Sentence.mkRaw x) = .ok s1 ∧ Pred x s1 := by
  have hi : InvC (Sentence.mkRaw x) := invC_mkRaw x hne
  have hs := sentOK_mkRaw x hne
  obtain ⟨s', h1, h2, h3, h4, h5, h6, h7, _⟩ := C01_scores cfg m hm pt p hp _ hs 0
  have htext : (Sentence.mkRaw x).text = x := rfl
  rw [htext] at h3 h4
  have hpos : 0 < x.length := List.length_pos_iff.mpr hne
  refine ⟨s', h1, ⟨?_, ?_, ?_, ?_, ?_⟩, h4, by rw [h6]; rfl, by rw [h7]; rfl,
    C01_no_unknown cfg m hm pt p hp _ s' hs 0 h1, ⟨_, h2⟩⟩
  · rw [h4]; exact hne
  · rw [h5, h4]; rfl
  · rw [h3, h4]
    simp only [specBounds, specScores, List.length_map, List.length_range]
    omega
  · rw [h6, h7, h4]; exact hi.2.2.2.1
  · unfold Sentence.boundaryScores at h2
    split at h2
    · next he => exact Or.inl (List.isEmpty_iff.mp he)
    · split at h2
      · next hle => exact Or.inr hle
      · cases h2

/-- the sentence the writers and printers see (after the filters and, with `--predict-tags`, `fill_tags`) -/
structure Fin (fl : PredictFlags) (x : List Char) (s3 : Sentence) : Prop where
  inv : Inv s3
  text : s3.text = x
  noU : ∀ b ∈ s3.bounds, b ≠ B.U
  sc : ∃ sc, s3.boundaryScores = .ok sc
  cand : fl.tagScores = true → fl.predictTags = true →
    ∀ se ∈ iterTokens s3.bounds, ∃ c, s3.tagCandidates se.2 = .ok c
  notags : fl.predictTags = false → s3.tags = [] ∧ s3.nTags = 0

theorem lookup_nul : Gen.lookupFw 0 Gen.fullwidthTable = none := by decide +kernel

theorem g_nul : C16L.g '\x00' = '\x00' := by
  unfold C16L.g
  have : ('\x00' : Char).toNat = 0 := rfl
  rw [this, lookup_nul]

theorem fullwidth_nul_of (s : List Char) (h : '\x00' ∈ s) : '\x00' ∈ Gen.fullwidth s := by
  rw [C16L.fullwidth_eq_map]
  exact List.mem_map.mpr ⟨_, h, g_nul⟩

/-- the un-normalised copy, the tokenised line and the two score blocks -/
theorem tail_ok (fl : PredictFlags) (line : List Char) (hne : line ≠ []) (hnul : '\x00' ∉ line) (s3 : Sentence)
    (h : Fin fl (if fl.noNorm then line else Gen.fullwidth line) s3) :
    ∃ shown w sc ts,
      origCopy fl line s3 = .ok shown ∧
      shown.writeTokenized = .ok w ∧
      (if fl.scores then printScores s3 else .ok []) = .ok sc ∧
      (if fl.tagScores && fl.predictTags then printTagScores s3 else .ok []) = .ok ts ∧
      Inv shown ∧ shown.text = line ∧ shown.bounds = s3.bounds ∧ shown.tags = s3.tags ∧
      (fl.scores = false → sc = []) ∧ (fl.tagScores = false → ts = []) := by
  have hsc : ∃ sc, (if fl.scores then printScores s3 else .ok []) = .ok sc ∧ (fl.scores = false → sc = []) := by
    cases hf : fl.scores
    · exact ⟨[], rfl, fun _ => rfl⟩
    · obtain ⟨sc, e⟩ := h.sc
      obtain ⟨o, ho⟩ := printScores_ok s3 h.inv.text_ne sc e
      exact ⟨o, by simpa using ho, fun c => by cases c⟩
  have hts : ∃ ts, (if fl.tagScores && fl.predictTags then printTagScores s3 else .ok []) = .ok ts ∧
      (fl.tagScores = false → ts = []) := by
    cases hf : fl.tagScores
    · exact ⟨[], rfl, fun _ => rfl⟩
    · cases hg : fl.predictTags
      · exact ⟨[], rfl, fun c => by cases c⟩
      · obtain ⟨o, ho⟩ := printTagScores_ok s3 h.inv.bounds_len (h.cand hf hg)
        exact ⟨o, by simpa using ho, fun c => by cases c⟩
  obtain ⟨sc, hsc1, hsc2⟩ := hsc
  obtain ⟨ts, hts1, hts2⟩ := hts
  cases hn : fl.noNorm
  · -- normalised: the un-normalised copy
    have hx := h.text
    rw [hn] at hx
    simp only [Bool.false_eq_true, if_false] at hx
    have hlen : s3.text.length = line.length := by rw [hx, C16L.fullwidth_length]
    have hb := h.inv.bounds_len
    have ho : Sentence.fromRaw line = .ok (Sentence.mkRaw line) := C16L.fromRaw_ok line hne hnul
    have c1 : ¬ (Sentence.mkRaw line).bounds.length ≠ s3.bounds.length := by
      have hpos : 0 < line.length := List.length_pos_iff.mpr hne
      simp only [Sentence.mkRaw, List.length_replicate]
      omega
    have c2 : ¬ s3.nTags * (Sentence.mkRaw line).types.length ≠ s3.tags.length := by
      simp only [Sentence.mkRaw, typesOf_length]
      rw [h.inv.tags_len, hlen, Nat.mul_comm]
      exact fun c => c rfl
    have hinv : Inv ({ Sentence.mkRaw line with bounds := s3.bounds, tags := s3.tags, nTags := s3.nTags } : Sentence) := by
      refine ⟨hne, rfl, ?_, ?_, Or.inl rfl⟩
      · show s3.bounds.length + 1 = line.length
        omega
      · show s3.tags.length = line.length * s3.nTags
        rw [h.inv.tags_len, hlen]
    obtain ⟨w, hw⟩ := writeTokenized_ok _ hinv.toC
    refine ⟨_, w, sc, ts, ?_, hw, hsc1, hts1, hinv, rfl, rfl, rfl, hsc2, hts2⟩
    simp only [origCopy, hn, Bool.false_eq_true, if_false, ho, if_neg c1, if_neg c2]
  · have hx := h.text
    rw [hn] at hx
    simp only [if_true] at hx
    obtain ⟨w, hw⟩ := writeTokenized_ok s3 h.inv.toC
    exact ⟨s3, w, sc, ts, by simp [origCopy, hn], hw, hsc1, hts1, h.inv, hx, rfl, rfl, hsc2, hts2⟩

/-! ## `fill_tags` -/

theorem flatMap_length_const {α β : Type} (f : α → List β) (k : Nat) :
    ∀ (l : List α), (∀ a ∈ l, (f a).length = k) → (l.flatMap f).length = l.length * k
  | [], _ => by simp
  | a :: l, h => by
    rw [List.flatMap_cons, List.length_append, h a List.mem_cons_self,
      flatMap_length_const f k l (fun b hb => h b (List.mem_cons_of_mem _ hb)), List.length_cons, Nat.add_mul, Nat.one_mul,
      Nat.add_comm]

theorem specAllTags_length (m : WModel) (text : List Char) (bs : List B) :
    (specAllTags m text bs).length = text.length * specNTags m := by
  unfold specAllTags
  rw [flatMap_length_const _ (specNTags m), List.length_range]
  intro i _
  split
  · next st en _ => exact C06L.rowVal_length m text (st, en)
  · exact List.length_replicate

theorem tagCandidates_none (s : Sentence) (n en : Nat) (hts : s.tagScores = List.replicate n none) (h0 : 0 < en)
    (h1 : en ≤ n) : s.tagCandidates en = .ok [] := by
  unfold Sentence.tagCandidates
  have hne : s.tagScores.isEmpty = false := by
    rw [hts]
    cases n with
    | zero => omega
    | succ n => rfl
  have hlt : en - 1 < n := by omega
  simp only [hne, Bool.false_eq_true, if_false]
  simp only [hts, List.getElem?_replicate, if_pos hlt]

theorem tags_stage (cfg : Cfg) (m : WModel) (hm : WFModel m) (ht : WFTags m) (p0 : Predictor)
    (hp : Predictor.new cfg m true = .ok p0) (fl : PredictFlags) (hft : fl.predictTags = true) (x : List Char)
    (hne : x ≠ []) (s1 : Sentence) (h1 : p0.predict 0 (Sentence.mkRaw x) = .ok s1) (hP : Pred x s1) (bs : List B)
    (hbs : bs.length = s1.bounds.length) (hU : ∀ b ∈ bs, b ≠ B.U) :
    ∃ s3, ({ p0 with storeTagScores := fl.tagScores } : Predictor).predictTags { s1 with bounds := bs } = .ok s3 ∧
      Fin fl x s3 := by
  have hs := sentOK_mkRaw x hne
  have htext : (Sentence.mkRaw x).text = x := rfl
  obtain ⟨hcfg, htp, hnt, _⟩ := C06L.new_tag_ok cfg m p0 hp
  have hbl : bs.length + 1 = s1.text.length := by rw [hbs]; exact hP.inv.bounds_len
  have hsco : s1.scores = [] ∨ s1.padding + bs.length ≤ s1.scores.length := by rw [hbs]; exact hP.inv.scores_ok
  obtain ⟨sc, hsc⟩ := hP.sc
  rcases Nat.eq_zero_or_pos (specNTags m) with hn | hn
  · refine ⟨{ s1 with bounds := bs,
                       tagScores := if fl.tagScores then List.replicate s1.types.length none else [] }, ?_, ?_⟩
    · unfold Predictor.predictTags
      simp only [htp, hnt, hn, if_true]
    · refine ⟨⟨hP.inv.text_ne, hP.inv.types_eq, hbl, ?_, hsco⟩, hP.text, hU, ⟨sc, ?_⟩, fun hts _ se hse => ?_,
        fun c => by rw [hft] at c; cases c⟩
      · exact hP.inv.tags_len
      · rw [← hsc]; exact boundaryScores_congr _ _ rfl rfl hbs
      · have hr := iterTokens_range bs se hse
        refine ⟨[], tagCandidates_none _ s1.types.length se.2 (by simp [hts]) (by omega) ?_⟩
        rw [hP.inv.types_eq, typesOf_length]
        omega
  · obtain ⟨_, h3⟩ := C06_predictTags cfg m hm ht p0 hp fl.tagScores _ s1 hs 0 h1 bs hbs hn
    refine ⟨_, h3, ⟨hP.inv.text_ne, hP.inv.types_eq, hbl, ?_, hsco⟩, hP.text, hU, ⟨sc, ?_⟩, fun hts _ se hse => ?_,
      fun c => by rw [hft] at c; cases c⟩
    · show (specAllTags m (Sentence.mkRaw x).text bs).length = s1.text.length * specNTags m
      rw [specAllTags_length, htext, hP.text]
    · rw [← hsc]; exact boundaryScores_congr _ _ rfl rfl hbs
    · rw [iterTokens_eq_spec] at hse
      exact ⟨_, (C06_candidates cfg hcfg m hm ht p0 hp fl.tagScores _ s1 _ hs 0 h1 bs hbs hn h3).2 hts se hse⟩

/-! ## one specification block -/

/-- for a predictor built from a well-formed model and character-type filters only, the specification block of ANY line
exists: an empty line for a rejected input, otherwise the tokenised line (written from a consistent sentence over the
original characters, without unknown boundaries) and its score blocks -/
theorem libLine_ok (cfg : Cfg) (m : WModel) (hm : WFModel m) (fl : PredictFlags) (ht : fl.predictTags = true → WFTags m)
    (p0 : Predictor) (hp : Predictor.new cfg m fl.predictTags = .ok p0) (store : Bool)
    (hst : fl.predictTags = true → store = fl.tagScores) (filters : List PostFilter)
    (hfil : ∀ f ∈ filters, ∃ t, f = PostFilter.ws t) (line : List Char) :
    (Sentence.fromRaw (if fl.noNorm then line else Gen.fullwidth line) = .err .invalidArgument ∧
      libLine' fl { p0 with storeTagScores := store } filters line = .ok ['\n']) ∨
    ((line ≠ [] ∧ '\x00' ∉ line) ∧ ∃ shown w sc ts,
      libLine' fl { p0 with storeTagScores := store } filters line = .ok (w ++ ['\n'] ++ sc ++ ts) ∧
      shown.writeTokenized = .ok w ∧ Inv shown ∧ shown.text = line ∧ (∀ b ∈ shown.bounds, b ≠ B.U) ∧
      (fl.predictTags = false → shown.tags = []) ∧ (fl.scores = false → sc = []) ∧ (fl.tagScores = false → ts = [])) := by
  rcases raw_cases (if fl.noNorm then line else Gen.fullwidth line) with ⟨h1, _⟩ | ⟨⟨hne, hnul⟩, h1, _⟩
  · exact Or.inl ⟨h1, by simp only [libLine', h1]⟩
  · right
    have hline : line ≠ [] ∧ '\x00' ∉ line := by
      cases hn : fl.noNorm
      · rw [hn] at hne hnul
        simp only [Bool.false_eq_true, if_false] at hne hnul
        refine ⟨fun c => hne (by rw [c]; rfl), fun c => hnul (fullwidth_nul_of line c)⟩
      · rw [hn] at hne hnul
        exact ⟨hne, hnul⟩
    refine ⟨hline, ?_⟩
    obtain ⟨s1, e1, hP⟩ := predict_stage cfg m hm fl.predictTags p0 hp _ hne
    obtain ⟨bs, e2, hbs, hU⟩ := ws_filters filters s1 hfil hP.inv
    have hU' := hU hP.noU
    have h3 : ∃ s3, (if fl.predictTags then ({ p0 with storeTagScores := store } : Predictor).predictTags { s1 with bounds := bs }
        else .ok { s1 with bounds := bs }) = .ok s3 ∧ Fin fl (if fl.noNorm then line else Gen.fullwidth line) s3 := by
      cases hft : fl.predictTags
      · refine ⟨_, rfl, Inv.ofC (C15L.invC_bounds hP.inv.toC hbs), hP.text, hU', ?_, (fun _ c => by rw [hft] at c; cases c),
          fun _ => ⟨hP.tags, hP.nTags⟩⟩
        obtain ⟨sc, hsc⟩ := hP.sc
        exact ⟨sc, by rw [← hsc]; exact boundaryScores_congr _ _ rfl rfl hbs⟩
      · rw [hft] at hp
        rw [hst hft]
        obtain ⟨s3, e3, hF⟩ := tags_stage cfg m hm (ht hft) p0 hp fl hft _ hne s1 e1 hP bs hbs hU'
        exact ⟨s3, by simpa using e3, hF⟩
    obtain ⟨s3, e3, hF⟩ := h3
    obtain ⟨shown, w, sc, ts, e4, e5, e6, e7, hinv, htx, hbd, htg, hsc, hts⟩ := tail_ok fl line hline.1 hline.2 s3 hF
    refine ⟨shown, w, sc, ts, ?_, e5, hinv, htx, by rw [hbd]; exact hF.noU,
      fun c => by rw [htg]; exact (hF.notags c).1, hsc, hts⟩
    simp only [libLine', h1, predict_store, e1, bindR_ok, applyWsconst, e2, e3, e4, e5, e6, e7]

/-! ## the two end-to-end statements -/

theorem surfaces_concat (cfg : Cfg) (m : WModel) (hm : WFModel m) (p : Predictor)
    (hp : Predictor.new cfg m false = .ok p) (fl : PredictFlags) (hft : fl.predictTags = false) (hfs : fl.scores = false)
    (hfg : fl.tagScores = false) (filters : List PostFilter) (hfil : ∀ f ∈ filters, ∃ t, f = PostFilter.ws t)
    (line : List Char) (hne : line ≠ []) (hnul : '\x00' ∉ line) :
    ∃ w, libLine' fl p filters line = .ok (w ++ ['\n']) ∧ ∃ q, parseTokenized w = .ok q ∧ q.text = line := by
  have hnul' : ∀ c ∈ line, c ≠ '\x00' := fun c hc e => hnul (e ▸ hc)
  rcases libLine_ok cfg m hm fl (fun c => by rw [hft] at c; cases c) p (by rw [hft]; exact hp) p.storeTagScores
      (fun c => by rw [hft] at c; cases c) filters hfil line with ⟨herr, _⟩ | ⟨_, shown, w, sc, ts, h1, h2, hi, htx, hU, htg, hsc, hts⟩
  · have hok : ∃ x, Sentence.fromRaw (if fl.noNorm then line else Gen.fullwidth line) = .ok x := by
      cases fl.noNorm
      · exact ⟨_, C16L.fromRaw_ok _ (C16L.fullwidth_ne_nil line hne) (C16L.fullwidth_no_nul line hnul)⟩
      · exact ⟨_, C16L.fromRaw_ok _ hne hnul⟩
    obtain ⟨x, hx⟩ := hok
    rw [hx] at herr
    cases herr
  · have hwf : WFTok shown :=
      ⟨hi.text_ne, by rw [htx]; exact hnul', hi.bounds_len, hU, hi.tags_len,
        fun t ht => by rw [htg hft] at ht; cases ht⟩
    obtain ⟨w', q, hw, hq, hqt, _⟩ := C03_roundtrip shown hwf
    rw [h2] at hw
    injection hw with hw
    subst hw
    refine ⟨w, ?_, q, hq, hqt.trans htx⟩
    rw [show (⟨p.charScorer, p.typeScorer, p.bias, p.tagPredictor, p.nTags, p.storeTagScores⟩ : Predictor) = p
      from rfl] at *
    rw [h1, hsc hfs, hts hfg, List.append_nil, List.append_nil]

theorem cli_total (cfg : Cfg) (m : WModel) (hm : WFModel m) (ht : WFTags m) (fl : PredictFlags)
    (p0 : Predictor) (hp : Predictor.new cfg m fl.predictTags = .ok p0)
    (hws : ∀ c ∈ fl.wsconst, c ∈ ['D', 'R', 'H', 'T', 'K', 'O'])
    (stdin : List Char) (clusters : List (List Nat)) :
    ∃ out, predictCli cfg fl m stdin clusters = .ok out := by
  rw [predictCli_eq, hp]
  obtain ⟨st', h⟩ := go_total fl { p0 with storeTagScores := fl.tagScores } (fun cl line => by
    obtain ⟨fs, h1, h2⟩ := buildPostFilters_ws cl fl.wsconst hws
    refine ⟨fs, h1, ?_⟩
    rcases libLine_ok cfg m hm fl (fun _ => ht) p0 hp fl.tagScores (fun _ => rfl) fs h2 line with
      ⟨_, h⟩ | ⟨_, _, w, sc, ts, h, _⟩
    · exact ⟨_, h⟩
    · exact ⟨_, h⟩) (splitLines stdin) clusters {}
  exact ⟨st'.out, by rw [bindR_ok, h]; rfl⟩

end V.C20L
