import VModel.Kytea
import VProofs.Lemmas.BinVarint
/-!
# C17 — strict readers, pointwise

`StrictAt d v e`: the reader `d` maps `e ++ r` to `(v, r)` and rejects every proper prefix of `e` with an error.
`SoftAt d v e`: the same round trip, and on a proper prefix `d` fails or consumes everything (the delimiter-terminated
fields `read_line` / `read_until` do not fail at end of input — the next field does).
Both are closed under sequencing and counted repetition; fixed-width little-endian fields are strict.
-/
namespace V.C17L
open V V.Ky
open V.Bin (Bytes leBytes leValue)

variable {α β : Type}

def StrictAt (d : Rd α) (v : α) (e : Bytes) : Prop :=
  (∀ r, d (e ++ r) = .ok (v, r)) ∧ ∀ p, p <+: e → p ≠ e → ∃ er, d p = .err er

def SoftAt (d : Rd α) (v : α) (e : Bytes) : Prop :=
  (∀ r, d (e ++ r) = .ok (v, r)) ∧ ∀ p, p <+: e → p ≠ e → (∃ er, d p = .err er) ∨ ∃ v', d p = .ok (v', [])

/-- on empty input the reader fails or returns without input left -/
def EmptySoft (d : Rd α) : Prop := (∃ er, d [] = .err er) ∨ ∃ v', d [] = .ok (v', [])

theorem StrictAt.soft {d : Rd α} {v : α} {e : Bytes} (h : StrictAt d v e) : SoftAt d v e :=
  ⟨h.1, fun p hp hne => Or.inl (h.2 p hp hne)⟩

theorem StrictAt.congr {d : Rd α} {v : α} {e e' : Bytes} (h : StrictAt d v e) (he : e = e') : StrictAt d v e' :=
  he ▸ h

theorem SoftAt.congr {d : Rd α} {v : α} {e e' : Bytes} (h : SoftAt d v e) (he : e = e') : SoftAt d v e' :=
  he ▸ h

theorem StrictAt.pure (v : α) : StrictAt (Rd.pure v) v [] := by
  refine ⟨fun r => rfl, ?_⟩
  intro p hp hne
  exact absurd (List.prefix_nil.1 hp) hne

theorem StrictAt.bind {d : Rd α} {f : α → Rd β} {a : α} {b : β} {ea eb : Bytes}
    (ha : StrictAt d a ea) (hb : StrictAt (f a) b eb) : StrictAt (Rd.bind d f) b (ea ++ eb) := by
  constructor
  · intro r
    simp only [Rd.bind, List.append_assoc, ha.1]
    exact hb.1 r
  · intro p hp hne
    rcases BinL.prefix_append_cases hp with ⟨h1, h2⟩ | ⟨q, rfl, hq⟩
    · obtain ⟨er, he⟩ := ha.2 p h1 h2
      exact ⟨er, by simp only [Rd.bind, he]⟩
    · have hq2 : q ≠ eb := by intro h; apply hne; rw [h]
      obtain ⟨er, he⟩ := hb.2 q hq hq2
      exact ⟨er, by simp only [Rd.bind, ha.1, he]⟩

/-- `d` then a pure re-packing -/
theorem StrictAt.map {d : Rd α} {a : α} {e : Bytes} (f : α → β) (ha : StrictAt d a e) :
    StrictAt (Rd.bind d fun x => Rd.pure (f x)) (f a) e :=
  (StrictAt.bind ha (StrictAt.pure (f a))).congr (List.append_nil e)

theorem SoftAt.bind {d : Rd α} {f : α → Rd β} {a : α} {b : β} {ea eb : Bytes}
    (ha : SoftAt d a ea) (hb : SoftAt (f a) b eb) (hf : ∀ a', EmptySoft (f a')) :
    SoftAt (Rd.bind d f) b (ea ++ eb) := by
  constructor
  · intro r
    simp only [Rd.bind, List.append_assoc, ha.1]
    exact hb.1 r
  · intro p hp hne
    rcases BinL.prefix_append_cases hp with ⟨h1, h2⟩ | ⟨q, rfl, hq⟩
    · rcases ha.2 p h1 h2 with ⟨er, he⟩ | ⟨a', he⟩
      · exact Or.inl ⟨er, by simp only [Rd.bind, he]⟩
      · rcases hf a' with ⟨er, h3⟩ | ⟨v', h3⟩
        · exact Or.inl ⟨er, by simp only [Rd.bind, he, h3]⟩
        · exact Or.inr ⟨v', by simp only [Rd.bind, he, h3]⟩
    · have hq2 : q ≠ eb := by intro h; apply hne; rw [h]
      rcases hb.2 q hq hq2 with ⟨er, he⟩ | ⟨v', he⟩
      · exact Or.inl ⟨er, by simp only [Rd.bind, ha.1, he]⟩
      · exact Or.inr ⟨v', by simp only [Rd.bind, ha.1, he]⟩

/-- a soft field followed by a strict remainder that fails on empty input is strict -/
theorem SoftAt.bind_strict {d : Rd α} {f : α → Rd β} {a : α} {b : β} {ea eb : Bytes}
    (ha : SoftAt d a ea) (hb : StrictAt (f a) b eb) (hf : ∀ a', ∃ er, f a' [] = .err er) :
    StrictAt (Rd.bind d f) b (ea ++ eb) := by
  constructor
  · intro r
    simp only [Rd.bind, List.append_assoc, ha.1]
    exact hb.1 r
  · intro p hp hne
    rcases BinL.prefix_append_cases hp with ⟨h1, h2⟩ | ⟨q, rfl, hq⟩
    · rcases ha.2 p h1 h2 with ⟨er, he⟩ | ⟨a', he⟩
      · exact ⟨er, by simp only [Rd.bind, he]⟩
      · obtain ⟨er, h3⟩ := hf a'
        exact ⟨er, by simp only [Rd.bind, he, h3]⟩
    · have hq2 : q ≠ eb := by intro h; apply hne; rw [h]
      obtain ⟨er, he⟩ := hb.2 q hq hq2
      exact ⟨er, by simp only [Rd.bind, ha.1, he]⟩

/-- counted repetition -/
theorem StrictAt.rep {d : Rd α} (enc : α → Bytes) : ∀ (xs : List α), (∀ x ∈ xs, StrictAt d x (enc x)) →
    StrictAt (Rd.rep d xs.length) xs (xs.flatMap enc) := by
  intro xs
  induction xs with
  | nil => intro _; exact StrictAt.pure []
  | cons x xs ih =>
    intro h
    simp only [List.length_cons, Rd.rep, List.flatMap_cons]
    refine StrictAt.bind (h x (by simp)) ?_
    exact StrictAt.map _ (ih fun y hy => h y (by simp [hy]))

/-- `n` copies of the same value -/
theorem StrictAt.rep_const {d : Rd α} {v : α} {e : Bytes} (h : StrictAt d v e) (n : Nat) :
    StrictAt (Rd.rep d n) ((List.range n).map fun _ => v) ((List.range n).flatMap fun _ => e) := by
  have := StrictAt.rep (d := d) (fun _ => e) ((List.range n).map fun _ => v) (by
    intro x hx
    obtain ⟨_, _, rfl⟩ := List.mem_map.1 hx
    exact h)
  simp only [List.length_map, List.length_range, List.flatMap_map] at this
  exact this

/-! ## fixed-width fields -/

theorem strict_takeBytes (b : Bytes) : StrictAt (takeBytes b.length) b b := by
  constructor
  · intro r
    simp only [takeBytes, List.length_append, Nat.le_add_right, if_true, List.take_left', List.drop_left']
  · intro p hp hne
    have := BinL.prefix_length_lt hp hne
    exact ⟨.io, by simp only [takeBytes]; rw [if_neg (by omega)]⟩

theorem strict_readLE (k n : Nat) (h : n < 256 ^ k) : StrictAt (readLE k) n (leBytes k n) := by
  have hl := BinL.leBytes_length k n
  constructor
  · intro r
    simp only [readLE, List.length_append, hl, Nat.le_add_right, if_true]
    rw [List.take_left' hl, List.drop_left' hl, BinL.leValue_leBytes, Nat.mod_eq_of_lt h]
  · intro p hp hne
    have := BinL.prefix_length_lt hp hne
    exact ⟨.io, by simp only [readLE]; rw [if_neg (by omega)]⟩

theorem strict_u8 {n : Nat} (h : n < 256) : StrictAt readU8 n (encU8 n) := strict_readLE 1 n (by simpa using h)
theorem strict_u16 {n : Nat} (h : n < 65536) : StrictAt readU16 n (encU16 n) := strict_readLE 2 n (by simpa using h)
theorem strict_u32 {n : Nat} (h : n < 2 ^ 32) : StrictAt readU32 n (encU32 n) := strict_readLE 4 n (by simpa using h)

theorem strict_bool (b : Bool) : StrictAt readBool b (encU8 (if b then 1 else 0)) := by
  have h : StrictAt readBool ((if b then 1 else 0 : Nat) != 0) (encU8 (if b then 1 else 0)) :=
    StrictAt.map _ (strict_u8 (by cases b <;> simp))
  cases b <;> simpa using h

theorem toI16_enc {x : Int} (h : I16 x) : toI16 (x % 65536).toNat = x := by
  obtain ⟨h1, h2⟩ := h
  simp only [toI16]
  by_cases hx : 0 ≤ x
  · have : x % 65536 = x := Int.emod_eq_of_lt hx (by omega)
    rw [this]
    have : (x.toNat : Int) = x := Int.toNat_of_nonneg hx
    rw [if_pos (by omega)]; exact this
  · have : x % 65536 = x + 65536 := by omega
    rw [this]
    have h3 : ((x + 65536).toNat : Int) = x + 65536 := Int.toNat_of_nonneg (by omega)
    rw [if_neg (by omega)]; omega

theorem strict_i16 {x : Int} (h : I16 x) : StrictAt readI16 x (encI16 x) := by
  have h1 : StrictAt readI16 (toI16 (x % 65536).toNat) (encI16 x) := by
    refine StrictAt.map _ (strict_readLE 2 _ ?_)
    have : (x % 65536).toNat < 65536 := by omega
    simpa using this
  rwa [toI16_enc h] at h1

theorem strict_f64 {b : Bytes} (h : b.length = 8) : StrictAt readF64 b b := by
  have := strict_takeBytes b
  rwa [h] at this

/-! ## vectors, characters, strings -/

theorem strict_vec {d : Rd α} (enc : α → Bytes) (xs : List α) (hlen : xs.length < 2 ^ 32)
    (h : ∀ x ∈ xs, StrictAt d x (enc x)) : StrictAt (readVec d) xs (encVecOf enc xs) :=
  StrictAt.bind (strict_u32 hlen) (StrictAt.rep enc xs h)

theorem lookupChar_succ {l : List Char} {i : Nat} {c : Char} (h : l[i]? = some c) :
    lookupChar l (i + 1) = Rd.pure c := by
  simp [lookupChar, h]

theorem strict_char {cm : List Char} (tail : List Char) {c : Char} (hc : c ∈ cm) (hlen : cm.length < 65535) :
    StrictAt (readChar (cm ++ tail)) c (encChar cm c) := by
  have hlt := List.idxOf_lt_length_of_mem hc
  refine StrictAt.bind (strict_u16 (by simp only [cidx]; omega)) ?_
  have : lookupChar (cm ++ tail) (cidx cm c) = Rd.pure c := by
    apply lookupChar_succ
    rw [List.getElem?_append_left hlt, List.getElem?_eq_getElem hlt, List.getElem_idxOf]
  rw [this]
  exact StrictAt.pure c

theorem strict_string {cm : List Char} (tail : List Char) (s : List Char) (hs : ∀ c ∈ s, c ∈ cm)
    (hlen : cm.length < 65535) (hsl : s.length < 2 ^ 32) :
    StrictAt (readString (cm ++ tail)) s (encStr cm s) :=
  strict_vec _ s hsl fun c hc => strict_char tail (hs c hc) hlen

theorem strict_i16s (v : List Int) (hv : ∀ x ∈ v, I16 x) (hlen : v.length < 2 ^ 32) :
    StrictAt (readVec readI16) v (encI16s v) :=
  strict_vec _ v hlen fun x hx => strict_i16 (hv x hx)

end V.C17L
