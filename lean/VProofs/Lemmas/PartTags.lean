import VModel.Sentence
/-!
Helper lemmas for C04 (2/3): `trimNone`, `tagOfStr`, `maxLen`, `padTags`, `chunks`.
-/
namespace V.C04L

/-! ## trimNone -/

theorem trimNone_cons (t : Tag) (ts : List Tag) :
    trimNone (t :: ts) = if trimNone ts = [] then (if t.isSome then [t] else []) else t :: trimNone ts := by
  rw [trimNone]
  cases trimNone ts <;> simp

theorem trimNone_replicate_none (k : Nat) : trimNone (List.replicate k none) = [] := by
  induction k with
  | zero => rfl
  | succ k ih => simp [List.replicate_succ, trimNone_cons, ih]

theorem trimNone_append_replicate (l : List Tag) (k : Nat) :
    trimNone (l ++ List.replicate k none) = trimNone l := by
  induction l with
  | nil => simp [trimNone_replicate_none, trimNone]
  | cons t ts ih => simp only [List.cons_append, trimNone_cons, ih]

theorem trimNone_idem (l : List Tag) : trimNone (trimNone l) = trimNone l := by
  induction l with
  | nil => rfl
  | cons t ts ih =>
    rw [trimNone_cons]
    by_cases h : trimNone ts = []
    · simp only [h, if_true]
      by_cases ht : t.isSome = true
      · simp [ht, trimNone_cons, trimNone]
      · simp [ht, trimNone]
    · simp only [h, if_false]
      rw [trimNone_cons, ih]
      simp [h]

theorem mem_of_mem_trimNone {x : Tag} {l : List Tag} (h : x ∈ trimNone l) : x ∈ l := by
  induction l with
  | nil => simp [trimNone] at h
  | cons t ts ih =>
    rw [trimNone_cons] at h
    by_cases h1 : trimNone ts = []
    · simp only [h1, if_true] at h
      by_cases ht : t.isSome = true
      · simp only [ht, if_true, List.mem_singleton] at h
        simp [h]
      · simp [ht] at h
    · simp only [h1, if_false, List.mem_cons] at h
      rcases h with h | h
      · simp [h]
      · simp [ih h]

/-! ## tagOfStr -/

theorem map_tagOfStr_getD (l : List Tag) (h : ∀ t, some t ∈ l → t ≠ []) :
    (l.map (·.getD [])).map tagOfStr = l := by
  induction l with
  | nil => rfl
  | cons x xs ih =>
    have hx : tagOfStr (x.getD []) = x := by
      cases x with
      | none => simp [tagOfStr]
      | some t => simp [tagOfStr, h t (by simp)]
    simp only [List.map_cons, hx, List.cons.injEq, true_and]
    exact ih (fun t ht => h t (by simp [ht]))

/-- what the parser stores for a written chunk reads back as the trimmed chunk -/
theorem trimNone_readback (c : List Tag) (h : ∀ t, some t ∈ c → t ≠ []) (k : Nat) :
    trimNone ((((trimNone c).map (·.getD [])).map tagOfStr) ++ List.replicate k none) = trimNone c := by
  rw [trimNone_append_replicate,
    map_tagOfStr_getD _ (fun t ht => h t (mem_of_mem_trimNone ht)), trimNone_idem]

/-! ## maxLen -/

theorem foldl_max_ge (tt : List (List (List Char))) (a : Nat) :
    a ≤ tt.foldl (fun acc x => max acc x.length) a ∧
      ∀ r ∈ tt, r.length ≤ tt.foldl (fun acc x => max acc x.length) a := by
  induction tt generalizing a with
  | nil => simp
  | cons x xs ih =>
    simp only [List.foldl_cons, List.mem_cons, forall_eq_or_imp]
    obtain ⟨h1, h2⟩ := ih (max a x.length)
    exact ⟨Nat.le_trans (Nat.le_max_left _ _) h1, Nat.le_trans (Nat.le_max_right _ _) h1, h2⟩

theorem le_maxLen {tt : List (List (List Char))} {r : List (List Char)} (h : r ∈ tt) :
    r.length ≤ maxLen tt := (foldl_max_ge tt 0).2 r h

/-! ## padTags -/

theorem padTags_cons (m : Nat) (r : List (List Char)) (tt : List (List (List Char))) :
    padTags m (r :: tt) = (r.map tagOfStr ++ List.replicate (m - r.length) none) ++ padTags m tt := by
  simp [padTags]

theorem padTags_length (m : Nat) (tt : List (List (List Char))) (h : ∀ r ∈ tt, r.length ≤ m) :
    (padTags m tt).length = tt.length * m := by
  induction tt with
  | nil => simp [padTags]
  | cons r tt ih =>
    have hr : r.length ≤ m := h r (by simp)
    rw [padTags_cons, List.length_append, ih (fun x hx => h x (by simp [hx]))]
    simp only [List.length_append, List.length_map, List.length_replicate, List.length_cons,
      Nat.succ_mul]
    omega

/-- the `m` slots of character `i` -/
theorem padTags_slot (m : Nat) (tt : List (List (List Char))) (h : ∀ r ∈ tt, r.length ≤ m) :
    ∀ (i : Nat) (hi : i < tt.length),
      ((padTags m tt).drop (i * m)).take m = tt[i].map tagOfStr ++ List.replicate (m - tt[i].length) none := by
  induction tt with
  | nil => intro i hi; simp at hi
  | cons r tt ih =>
    intro i hi
    have hr : r.length ≤ m := h r (by simp)
    have hlen : (r.map tagOfStr ++ List.replicate (m - r.length) none).length = m := by
      simp only [List.length_append, List.length_map, List.length_replicate]; omega
    rw [padTags_cons]
    cases i with
    | zero =>
      simp only [Nat.zero_mul, List.drop_zero, List.getElem_cons_zero]
      rw [List.take_append_of_le_length (by omega), List.take_of_length_le (by omega)]
    | succ i =>
      have hd : (i + 1) * m = (r.map tagOfStr ++ List.replicate (m - r.length) none).length + i * m := by
        rw [hlen, Nat.succ_mul]; omega
      rw [hd, List.drop_length_add_append]
      simp only [List.getElem_cons_succ]
      exact ih (fun x hx => h x (by simp [hx])) i (by simpa using hi)

theorem mem_padTags_ne_nil {m : Nat} {tt : List (List (List Char))} {t : List Char}
    (h : some t ∈ padTags m tt) : t ≠ [] := by
  simp only [padTags, List.mem_flatMap, List.mem_append, List.mem_map, List.mem_replicate] at h
  obtain ⟨ts, _, h | h⟩ := h
  · obtain ⟨a, _, ha⟩ := h
    unfold tagOfStr at ha
    split at ha
    · cases ha
    · cases ha; assumption
  · exact absurd h.2 (by simp)

/-! ## chunks -/

theorem chunksExact_spec (k : Nat) (hk : 0 < k) :
    ∀ (n : Nat) (xs : List Tag) (fuel : Nat), xs.length = n * k → n ≤ fuel →
      (chunksExact k xs fuel).length = n ∧
        ∀ (i : Nat) (hi : i < (chunksExact k xs fuel).length),
          (chunksExact k xs fuel)[i] = (xs.drop (i * k)).take k := by
  intro n
  induction n with
  | zero =>
    intro xs fuel hx _
    have : xs = [] := by simpa using hx
    subst this
    cases fuel with
    | zero => simp [chunksExact]
    | succ f =>
      have : ¬ k ≤ 0 := by omega
      simp [chunksExact, this]
  | succ n ih =>
    intro xs fuel hx hf
    cases fuel with
    | zero => omega
    | succ f =>
      have hle : k ≤ xs.length := by rw [hx, Nat.succ_mul]; omega
      have hd : (xs.drop k).length = n * k := by
        rw [List.length_drop, hx, Nat.succ_mul]; omega
      obtain ⟨h1, h2⟩ := ih (xs.drop k) f hd (by omega)
      simp only [chunksExact, hle, if_true, List.length_cons, h1, true_and]
      intro i hi
      cases i with
      | zero => simp
      | succ i =>
        simp only [List.getElem_cons_succ]
        rw [h2 i (by omega), List.drop_drop, Nat.succ_mul]
        congr 2
        omega

theorem chunks_spec (k : Nat) (hk : k ≠ 0) (n : Nat) (xs : List Tag) (hx : xs.length = n * k) :
    (chunks k xs).length = n ∧
      ∀ (i : Nat) (hi : i < (chunks k xs).length), (chunks k xs)[i] = (xs.drop (i * k)).take k := by
  have hk' : 0 < k := Nat.pos_of_ne_zero hk
  refine chunksExact_spec k hk' n xs xs.length hx ?_
  rw [hx]
  exact Nat.le_mul_of_pos_right n hk'

end V.C04L
