import VModel.Filters
import VProofs.Lemmas.Inv
/-! Helper lemmas for C15: the three boundary filters (`KyteaWsConstFilter`, `SplitLinebreaksFilter`,
`ConcatGraphemeClustersFilter`) as pointwise rewrites of the boundary list. -/
namespace V.C15L

/-! ## pairwise walks -/

/-- the walk of `KyteaWsConstFilter` over a type list with one boundary per adjacent pair -/
theorem wsGo_spec (t : Nat) (xs : List Nat) :
    ∀ (bs : List B), bs.length + 1 = xs.length →
      ∃ out, filterWsConst.go t xs bs = .ok out ∧ out.length = bs.length ∧
        ∀ i, i < bs.length →
          out[i]? = some (if xs[i]? = some t ∧ xs[i + 1]? = some t then B.N else bs.getD i B.U) := by
  induction xs with
  | nil => intro bs h; simp at h
  | cons a r ih =>
    intro bs h
    cases r with
    | nil =>
      cases bs with
      | nil => exact ⟨[], by simp [filterWsConst.go], rfl, fun i hi => by simp at hi⟩
      | cons x xs => simp at h
    | cons b r' =>
      cases bs with
      | nil => simp at h
      | cons x xs' =>
        obtain ⟨rest, h1, h2, h3⟩ := ih xs' (by simpa using h)
        refine ⟨(if a = t ∧ b = t then B.N else x) :: rest, ?_, by simp [h2], ?_⟩
        · simp only [filterWsConst.go, h1]
        · intro i hi
          cases i with
          | zero => simp
          | succ j =>
            have hj : j < xs'.length := by simpa using hi
            have := h3 j hj
            simpa using this

/-- the walk of `SplitLinebreaksFilter` over the characters with one boundary per adjacent pair -/
theorem lbGo_spec (xs : List Char) :
    ∀ (bs : List B), bs.length + 1 = xs.length →
      ∃ out, filterLinebreaks.go xs bs = .ok out ∧ out.length = bs.length ∧
        ∀ i, i < bs.length →
          out[i]? = some (if (xs[i]?.any isLinebreak) || (xs[i + 1]?.any isLinebreak) then B.W
                          else bs.getD i B.U) := by
  induction xs with
  | nil => intro bs h; simp at h
  | cons a r ih =>
    intro bs h
    cases r with
    | nil =>
      cases bs with
      | nil => exact ⟨[], by simp [filterLinebreaks.go], rfl, fun i hi => by simp at hi⟩
      | cons x xs => simp at h
    | cons b r' =>
      cases bs with
      | nil => simp at h
      | cons x xs' =>
        obtain ⟨rest, h1, h2, h3⟩ := ih xs' (by simpa using h)
        refine ⟨(if isLinebreak a || isLinebreak b then B.W else x) :: rest, ?_, by simp [h2], ?_⟩
        · simp only [filterLinebreaks.go, h1]
        · intro i hi
          cases i with
          | zero => simp
          | succ j =>
            have hj : j < xs'.length := by simpa using hi
            have := h3 j hj
            simpa using this

/-! ## range fill -/

/-- copy of `clusterEdges` (declared with the property theorems): running sums of the cluster lengths -/
def edges : List Nat → Nat → List Nat
  | [], _ => []
  | l :: r, start => (start + l) :: edges r (start + l)

theorem edges_ge (ls : List Nat) (start e : Nat) (h : e ∈ edges ls start) : start ≤ e := by
  induction ls generalizing start with
  | nil => simp [edges] at h
  | cons l r ih =>
    simp only [edges, List.mem_cons] at h
    rcases h with h | h
    · omega
    · have := ih _ h; omega

theorem fill_getElem? (bs : List B) (start stop i : Nat) (h1 : start ≤ stop) (h2 : stop ≤ bs.length) :
    (bs.take start ++ List.replicate (stop - start) B.N ++ bs.drop stop)[i]? =
      if start ≤ i ∧ i < stop then some B.N else bs[i]? := by
  have hl : (bs.take start).length = start := by rw [List.length_take]; omega
  simp only [List.getElem?_append, List.length_append, List.length_replicate, hl, List.getElem?_take,
    List.getElem?_replicate, List.getElem?_drop]
  by_cases c1 : i < start
  · have c2 : i < start + (stop - start) := by omega
    have c3 : ¬ (start ≤ i ∧ i < stop) := by omega
    simp only [c1, c2, c3, if_true, if_false]
  · by_cases c2 : i < stop
    · have c3 : i < start + (stop - start) := by omega
      have c4 : i - start < stop - start := by omega
      have c5 : start ≤ i ∧ i < stop := by omega
      simp only [c1, c3, c4, c5, and_self, if_true, if_false]
    · have c3 : ¬ i < start + (stop - start) := by omega
      have c5 : ¬ (start ≤ i ∧ i < stop) := by omega
      simp only [c3, c5, if_false]
      congr 1; omega

theorem fill_length (bs : List B) (start stop : Nat) (h1 : start ≤ stop) (h2 : stop ≤ bs.length) :
    (bs.take start ++ List.replicate (stop - start) B.N ++ bs.drop stop).length = bs.length := by
  simp only [List.length_append, List.length_take, List.length_replicate, List.length_drop]
  omega

/-- the loop of `ConcatGraphemeClustersFilter` from character position `start` on -/
theorem grGo_spec (ls : List Nat) :
    ∀ (start : Nat) (bs : List B), (∀ l ∈ ls, 1 ≤ l) → start + ls.sum = bs.length + 1 →
      ∃ out, filterGraphemes.go ls start bs = .ok out ∧ out.length = bs.length ∧
        ∀ i, i < bs.length →
          out[i]? = some (if i < start ∨ (i + 1) ∈ edges ls start then bs.getD i B.U else B.N) := by
  induction ls with
  | nil =>
    intro start bs _ hs
    refine ⟨bs, rfl, rfl, fun i hi => ?_⟩
    have : i < start := by simp at hs; omega
    simp [this, List.getD_eq_getElem?_getD, List.getElem?_eq_getElem hi]
  | cons l r ih =>
    intro start bs hpos hs
    have hl : 1 ≤ l := hpos l (by simp)
    simp only [List.sum_cons] at hs
    have h1 : start ≤ start + l - 1 := by omega
    have h2 : start + l - 1 ≤ bs.length := by omega
    have hlen := fill_length bs start (start + l - 1) h1 h2
    obtain ⟨out, g1, g2, g3⟩ := ih (start + l)
      (bs.take start ++ List.replicate (start + l - 1 - start) B.N ++ bs.drop (start + l - 1))
      (fun x hx => hpos x (by simp [hx])) (by rw [hlen]; omega)
    refine ⟨out, ?_, by rw [g2, hlen], fun i hi => ?_⟩
    · simp only [filterGraphemes.go, fillN]
      rw [if_neg (by omega), if_pos ⟨h1, h2⟩]
      exact g1
    · rw [g3 i (by rw [hlen]; exact hi)]
      congr 1
      simp only [List.getD_eq_getElem?_getD, fill_getElem? bs start (start + l - 1) i h1 h2, edges, List.mem_cons]
      by_cases c1 : i < start
      · have c2 : i < start + l := by omega
        have c3 : ¬ (start ≤ i ∧ i < start + l - 1) := by omega
        simp only [c1, c2, c3, true_or, if_true, if_false]
      · by_cases c2 : i < start + l - 1
        · have c3 : i < start + l := by omega
          have c4 : start ≤ i ∧ i < start + l - 1 := by omega
          have c5 : ¬ (i + 1 = start + l) := by omega
          have c6 : ¬ (i + 1 ∈ edges r (start + l)) := fun hm => by
            have := edges_ge r (start + l) (i + 1) hm; omega
          simp only [c1, c3, c4, c5, c6, and_self, true_or, or_self, if_true, if_false, Option.getD_some]
        · have c4 : ¬ (start ≤ i ∧ i < start + l - 1) := by omega
          by_cases c3 : i < start + l
          · have c5 : i + 1 = start + l := by omega
            simp only [c1, c3, c4, c5, true_or, or_true, if_true, if_false]
          · have c5 : ¬ (i + 1 = start + l) := by omega
            simp only [c1, c3, c4, c5, false_or, if_false]

/-- the loop never changes the number of boundaries, whatever the segmentation -/
theorem grGo_length (ls : List Nat) :
    ∀ (start : Nat) (bs out : List B), filterGraphemes.go ls start bs = .ok out → out.length = bs.length := by
  induction ls with
  | nil =>
    intro start bs out h
    simp only [filterGraphemes.go] at h
    injection h with h
    rw [h]
  | cons l r ih =>
    intro start bs out h
    simp only [filterGraphemes.go, fillN] at h
    by_cases hl0 : l = 0
    · rw [if_pos hl0] at h; cases h
    · rw [if_neg hl0] at h
      by_cases hc : start ≤ start + l - 1 ∧ start + l - 1 ≤ bs.length
      · rw [if_pos hc] at h
        have := ih _ _ _ h
        rw [this, fill_length bs start (start + l - 1) hc.1 hc.2]
      · rw [if_neg hc] at h; cases h

/-! ## consequences used by the property theorems -/

theorem invC_bounds {s : Sentence} (h : InvC s) {bs : List B} (hl : bs.length = s.bounds.length) :
    InvC { s with bounds := bs } := by
  obtain ⟨h1, h2, h3, h4, h5⟩ := h
  refine ⟨h1, h2, ?_, h4, ?_⟩
  · show bs.length + 1 = s.text.length
    rw [hl]; exact h3
  · show s.scores = [] ∨ s.padding + bs.length ≤ s.scores.length
    rw [hl]; exact h5

theorem invC_tags {s : Sentence} (h : InvC s) {ts : List Tag} (hl : ts.length = s.tags.length) :
    InvC { s with tags := ts } := by
  obtain ⟨h1, h2, h3, h4, h5⟩ := h
  refine ⟨h1, h2, h3, ?_, h5⟩
  show ts.length = s.text.length * s.nTags
  rw [hl]; exact h4

/-- a pointwise rewrite by an idempotent rule, applied to its own output, changes nothing -/
theorem pointwise_idem (g : Nat → B → B) (hg : ∀ i x, g i (g i x) = g i x) (old bs bs' : List B)
    (hl : bs.length = old.length) (hl' : bs'.length = bs.length)
    (hp : ∀ i, i < old.length → bs[i]? = some (g i (old.getD i B.U)))
    (hp' : ∀ i, i < bs.length → bs'[i]? = some (g i (bs.getD i B.U))) : bs' = bs := by
  apply List.ext_getElem?
  intro i
  by_cases hi : i < old.length
  · rw [hp' i (by omega), hp i hi, List.getD_eq_getElem?_getD (l := bs), hp i hi, Option.getD_some, hg]
  · rw [List.getElem?_eq_none (by omega), List.getElem?_eq_none (by omega)]

end V.C15L
