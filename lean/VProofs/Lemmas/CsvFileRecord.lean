import VProofs.Lemmas.CsvFileField
/-!
# CsvFile helper lemmas, part 3: records and files; the writer's variants (forced quotes, CR / CR LF, blank lines, no final
terminator)
-/
namespace V.C19F
open V

/-- a field as an editor may write it: `(true, f)` = in quotes although they may be unnecessary, `(false, f)` = as the writer does -/
def csvFieldV (qf : Bool × List Char) : List Char := if qf.1 then csvQuoted qf.2 else csvField qf.2

def csvJoinV : List (Bool × List Char) → List Char
  | [] => []
  | [f] => csvFieldV f
  | f :: fs => csvFieldV f ++ ',' :: csvJoinV fs

theorem joinV_cons2 (f g : Bool × List Char) (fs : List (Bool × List Char)) :
    csvJoinV (f :: g :: fs) = csvFieldV f ++ ',' :: csvJoinV (g :: fs) := rfl

theorem go_fieldV (qf : Bool × List Char) (ra : List (List Char)) (rest : List Char) (h : FieldEnd rest) :
    csvGo .startField [] ra (csvFieldV qf ++ rest) = fieldEnd qf.2 ra rest := by
  unfold csvFieldV
  by_cases hq : qf.1 = true
  · rw [if_pos hq]; exact go_field_quoted qf.2 ra rest h
  · rw [if_neg hq]; exact go_field qf.2 ra rest h

/-- the two states after a record behave alike -/
theorem go_afterCR_eq (fa : List Char) (ra : List (List Char)) (s : List Char) :
    csvGo .afterCR fa ra s = csvGo .startRecord fa ra s := by
  cases s with
  | nil => simp [csvGo]
  | cons c cs =>
    have e : csvStep .afterCR c = csvStep .startRecord c := rfl
    rw [csvGo, csvGo, e]

/-- the rest of the input ends the current record -/
def RecEnd : List Char → Prop
  | [] => True
  | d :: _ => d = '\n' ∨ d = '\r'

/-- the records after the terminator character -/
def afterRec : List Char → List (List (List Char))
  | [] => []
  | _ :: r => csvGo .startRecord [] [] r

theorem RecEnd.fieldEnd {rest : List Char} (h : RecEnd rest) : FieldEnd rest := by
  cases rest with
  | nil => trivial
  | cons d r => exact Or.inr h

theorem fieldEnd_recEnd (f : List Char) (ra : List (List Char)) (rest : List Char) (h : RecEnd rest) :
    fieldEnd f ra rest = (ra.reverse ++ [f]) :: afterRec rest := by
  cases rest with
  | nil => rfl
  | cons d r =>
    rcases h with h | h <;> subst h
    · simp [fieldEnd, finish, afterRec]
    · simp [fieldEnd, finish, afterRec, go_afterCR_eq]

theorem go_joinV : ∀ (fields : List (Bool × List Char)), fields ≠ [] → ∀ (ra : List (List Char)) (rest : List Char),
    RecEnd rest →
    csvGo .startField [] ra (csvJoinV fields ++ rest) = (ra.reverse ++ fields.map (·.2)) :: afterRec rest := by
  intro fields
  induction fields with
  | nil => intro h; exact absurd rfl h
  | cons f fs ih =>
    intro _ ra rest hrest
    cases fs with
    | nil =>
      have e : csvJoinV [f] = csvFieldV f := rfl
      rw [e, go_fieldV f ra rest hrest.fieldEnd, fieldEnd_recEnd f.2 ra rest hrest]
      simp
    | cons g gs =>
      rw [joinV_cons2, List.append_assoc, List.cons_append,
        go_fieldV f ra _ (show FieldEnd (',' :: _) from Or.inl rfl)]
      have e : ∀ r, fieldEnd f.2 ra (',' :: r) = csvGo .startField [] (f.2 :: ra) r := by
        intro r; simp [fieldEnd, finish]
      rw [e, ih (by simp) (f.2 :: ra) rest hrest]
      simp

/-- a written field is empty only if it is the unquoted empty field; otherwise it starts with neither CR nor LF -/
theorem fieldV_head (qf : Bool × List Char) :
    qf = (false, []) ∨ ∃ c cs, csvFieldV qf = c :: cs ∧ c ≠ '\n' ∧ c ≠ '\r' := by
  obtain ⟨q, f⟩ := qf
  cases q with
  | true => exact Or.inr ⟨'"', csvEscape f ++ ['"'], by simp [csvFieldV, csvQuoted], by decide, by decide⟩
  | false =>
    by_cases hq : csvNeedsQuotes f = true
    · exact Or.inr ⟨'"', csvEscape f ++ ['"'], by simp [csvFieldV, csvField, hq], by decide, by decide⟩
    · cases f with
      | nil => exact Or.inl rfl
      | cons c cs =>
        have hq' : csvNeedsQuotes (c :: cs) = false := by simpa using hq
        have hc : csvSpecial c = false := by
          simp only [csvNeedsQuotes, List.any_cons, Bool.or_eq_false_iff] at hq'; exact hq'.1
        obtain ⟨_, _, h3, h4⟩ := special_false hc
        exact Or.inr ⟨c, cs, by simp [csvFieldV, csvField, hq'], h4, h3⟩

theorem joinV_head (fields : List (Bool × List Char)) (hne : fields ≠ []) (hamb : fields ≠ [(false, [])]) :
    ∃ c cs, csvJoinV fields = c :: cs ∧ c ≠ '\n' ∧ c ≠ '\r' := by
  cases fields with
  | nil => exact absurd rfl hne
  | cons f fs =>
    cases fs with
    | nil =>
      rcases fieldV_head f with h | h
      · subst h; exact absurd rfl hamb
      · exact h
    | cons g gs =>
      rw [joinV_cons2]
      rcases fieldV_head f with h | ⟨c, cs, e, h1, h2⟩
      · subst h; exact ⟨',', csvJoinV (g :: gs), by simp [csvFieldV, csvField, csvNeedsQuotes], by decide, by decide⟩
      · exact ⟨c, _, by rw [e]; rfl, h1, h2⟩

/-- one record in any of the accepted spellings, at the start of a record -/
theorem go_recordV (fields : List (Bool × List Char)) (hne : fields ≠ []) (hamb : fields ≠ [(false, [])])
    (rest : List Char) (hrest : RecEnd rest) :
    csvGo .startRecord [] [] (csvJoinV fields ++ rest) = fields.map (·.2) :: afterRec rest := by
  obtain ⟨c, cs, e, h1, h2⟩ := joinV_head fields hne hamb
  have h := go_joinV fields hne [] rest hrest
  rw [e] at h ⊢
  rw [List.cons_append] at h ⊢
  rw [go_startRecord h1 h2, h]
  simp

/-- blank lines are skipped -/
theorem go_blank : ∀ (bl : List Char), (∀ c ∈ bl, c = '\n' ∨ c = '\r') → ∀ (fa : List Char) (ra : List (List Char))
    (rest : List Char), csvGo .startRecord fa ra (bl ++ rest) = csvGo .startRecord fa ra rest := by
  intro bl
  induction bl with
  | nil => intro _ fa ra rest; rfl
  | cons c cs ih =>
    intro h fa ra rest
    have hc : csvStep .startRecord c = (.startRecord, .skip) := by
      rcases h c (by simp) with e | e <;> subst e <;> decide
    rw [List.cons_append, go_skip hc, ih (fun x hx => h x (List.mem_cons_of_mem _ hx))]

/-! ## the writer's own spelling -/

theorem join_eq_joinV : ∀ fields : List (List Char), csvJoin fields = csvJoinV (fields.map fun f => (false, f)) := by
  intro fields
  induction fields with
  | nil => rfl
  | cons f fs ih =>
    cases fs with
    | nil => simp [csvJoin, csvJoinV, csvFieldV]
    | cons g gs =>
      have e1 : csvJoin (f :: g :: gs) = csvField f ++ ',' :: csvJoin (g :: gs) := rfl
      rw [e1, ih]
      simp [csvJoinV, csvFieldV]

theorem field_eq_nil {f : List Char} (h : csvField f = []) : f = [] := by
  unfold csvField at h
  by_cases hq : csvNeedsQuotes f = true
  · rw [if_pos hq] at h; cases h
  · rw [if_neg hq] at h; exact h

theorem join_eq_nil {fields : List (List Char)} (hne : fields ≠ []) (h : csvJoin fields = []) : fields = [[]] := by
  cases fields with
  | nil => exact absurd rfl hne
  | cons f fs =>
    cases fs with
    | nil =>
      have e : csvJoin [f] = csvField f := rfl
      rw [e] at h; rw [field_eq_nil h]
    | cons g gs =>
      have e1 : csvJoin (f :: g :: gs) = csvField f ++ ',' :: csvJoin (g :: gs) := rfl
      rw [e1] at h; simp at h

/-- every record of the writer is one of the accepted spellings, terminated by LF -/
theorem record_eq_V (fields : List (List Char)) (hne : fields ≠ []) :
    ∃ fv : List (Bool × List Char), fv.map (·.2) = fields ∧ fv ≠ [] ∧ fv ≠ [(false, [])] ∧
      csvRecord fields = csvJoinV fv ++ ['\n'] := by
  cases hj : csvJoin fields with
  | nil =>
    have e := join_eq_nil hne hj
    subst e
    exact ⟨[(true, [])], rfl, by simp, by simp, by decide⟩
  | cons c cs =>
    refine ⟨fields.map fun f => (false, f), by simp [Function.comp_def], by simpa using hne, ?_, ?_⟩
    · intro h
      have : fields = [[]] := by
        cases fields with
        | nil => cases h
        | cons f fs =>
          cases fs with
          | nil => simp at h; rw [h]
          | cons g gs => simp at h
      rw [this] at hj; cases hj
    · unfold csvRecord
      rw [← join_eq_joinV, hj]

theorem go_record (fields : List (List Char)) (hne : fields ≠ []) (rest : List Char) :
    csvGo .startRecord [] [] (csvRecord fields ++ rest) = fields :: csvGo .startRecord [] [] rest := by
  obtain ⟨fv, e1, h1, h2, e2⟩ := record_eq_V fields hne
  rw [e2, List.append_assoc, List.singleton_append, go_recordV fv h1 h2 _ (show RecEnd ('\n' :: rest) from Or.inl rfl), e1]
  rfl

theorem go_records : ∀ (records : List (List (List Char))), (∀ r ∈ records, r ≠ []) → ∀ rest : List Char,
    csvGo .startRecord [] [] (records.flatMap csvRecord ++ rest) = records ++ csvGo .startRecord [] [] rest := by
  intro records
  induction records with
  | nil => intro _ rest; rfl
  | cons r rs ih =>
    intro h rest
    rw [List.flatMap_cons, List.append_assoc, go_record r (h r (by simp)),
      ih (fun x hx => h x (List.mem_cons_of_mem _ hx))]
    rfl

end V.C19F
