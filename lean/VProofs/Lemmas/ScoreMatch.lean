import VModel.Scorer
import VProofs.Lemmas.ScoreSum
/-!
# The automaton contract: the longest match carries all suffix patterns (for C01)
-/
namespace V.C01L
variable {α : Type} [DecidableEq α]

/-- what `longestMatchAux` has found so far among the patterns `ps` -/
def GoodBest (pre : List α) (ps : List (List α)) : Option (Nat × Nat) → Prop
  | none => ∀ p ∈ ps, p.isSuffixOf pre = false
  | some (j, l) => ∃ p, ps[j]? = some p ∧ l = p.length ∧ p.isSuffixOf pre = true ∧
      ∀ q ∈ ps, q.isSuffixOf pre = true → q.length ≤ l

theorem longestMatchAux_good (pre : List α) (rest done : List (List α)) (best : Option (Nat × Nat))
    (h : GoodBest pre done best) :
    GoodBest pre (done ++ rest) (longestMatchAux pre rest done.length best) := by
  induction rest generalizing done best with
  | nil => simpa [longestMatchAux] using h
  | cons p r ih =>
    simp only [longestMatchAux]
    have := ih (done ++ [p])
    simp only [List.append_assoc, List.singleton_append, List.length_append, List.length_singleton] at this
    apply this
    by_cases hp : p.isSuffixOf pre = true
    · simp only [hp, if_true]
      cases best with
      | none =>
        refine ⟨p, by simp, rfl, hp, ?_⟩
        intro q hq hqs
        rcases List.mem_append.mp hq with hq | hq
        · rw [h q hq] at hqs; cases hqs
        · simp only [List.mem_singleton] at hq; subst hq; exact Nat.le_refl _
      | some jl =>
        obtain ⟨j, l⟩ := jl
        obtain ⟨p0, hj, hl, hs, hmax⟩ := h
        by_cases hlt : l < p.length
        · simp only [hlt, if_true]
          refine ⟨p, by simp, rfl, hp, ?_⟩
          intro q hq hqs
          rcases List.mem_append.mp hq with hq | hq
          · have := hmax q hq hqs; omega
          · simp only [List.mem_singleton] at hq; subst hq; exact Nat.le_refl _
        · simp only [hlt, if_false]
          have hjlt : j < done.length := by
            rcases Nat.lt_or_ge j done.length with h' | h'
            · exact h'
            · rw [List.getElem?_eq_none h'] at hj; cases hj
          refine ⟨p0, by rw [List.getElem?_append_left hjlt]; exact hj, hl, hs, ?_⟩
          intro q hq hqs
          rcases List.mem_append.mp hq with hq | hq
          · exact hmax q hq hqs
          · simp only [List.mem_singleton] at hq; subst hq; omega
    · simp only [hp]
      have hpf : p.isSuffixOf pre = false := Bool.eq_false_iff.mpr hp
      cases best with
      | none =>
        intro q hq
        rcases List.mem_append.mp hq with hq | hq
        · exact h q hq
        · simp only [List.mem_singleton] at hq; subst hq; exact hpf
      | some jl =>
        obtain ⟨j, l⟩ := jl
        obtain ⟨p0, hj, hl, hs, hmax⟩ := h
        have hjlt : j < done.length := by
          rcases Nat.lt_or_ge j done.length with h' | h'
          · exact h'
          · rw [List.getElem?_eq_none h'] at hj; cases hj
        refine ⟨p0, by rw [List.getElem?_append_left hjlt]; exact hj, hl, hs, ?_⟩
        intro q hq hqs
        rcases List.mem_append.mp hq with hq | hq
        · exact hmax q hq hqs
        · simp only [List.mem_singleton] at hq; subst hq; rw [hpf] at hqs; cases hqs

theorem longestMatch_none (pats : List (List α)) (pre : List α) (h : longestMatch pats pre = none) :
    ∀ p ∈ pats, p.isSuffixOf pre = false := by
  have hg := longestMatchAux_good pre pats [] none (by intro p hp; cases hp)
  simp only [List.nil_append, List.length_nil] at hg
  unfold longestMatch at h
  cases hb : longestMatchAux pre pats 0 none with
  | none => rw [hb] at hg; exact hg
  | some jl => rw [hb] at h; cases h

theorem longestMatch_some (pats : List (List α)) (pre : List α) (id : Nat) (h : longestMatch pats pre = some id) :
    ∃ p, pats[id]? = some p ∧ p.isSuffixOf pre = true ∧
      ∀ q ∈ pats, q.isSuffixOf pre = q.isSuffixOf p := by
  have hg := longestMatchAux_good pre pats [] none (by intro p hp; cases hp)
  simp only [List.nil_append, List.length_nil] at hg
  unfold longestMatch at h
  cases hb : longestMatchAux pre pats 0 none with
  | none => rw [hb] at h; cases h
  | some jl =>
    obtain ⟨j, l⟩ := jl
    rw [hb] at h hg
    simp only [Option.map_some, Option.some.injEq] at h
    subst h
    obtain ⟨p, hj, hl, hs, hmax⟩ := hg
    refine ⟨p, hj, hs, ?_⟩
    intro q hq
    have hps : p <:+ pre := List.isSuffixOf_iff_suffix.mp hs
    by_cases hqs : q.isSuffixOf pre = true
    · rw [hqs]
      have hq' : q <:+ pre := List.isSuffixOf_iff_suffix.mp hqs
      have hle : q.length ≤ p.length := by have := hmax q hq hqs; omega
      exact (List.isSuffixOf_iff_suffix.mpr (List.suffix_of_suffix_length_le hq' hps hle)).symm
    · have hqf : q.isSuffixOf pre = false := Bool.eq_false_iff.mpr hqs
      rw [hqf]
      cases hqp : q.isSuffixOf p with
      | false => rfl
      | true =>
        have := List.isSuffixOf_iff_suffix.mpr ((List.isSuffixOf_iff_suffix.mp hqp).trans hps)
        rw [hqf] at this; cases this

/-- a non-empty pattern that is a suffix of `seq.take e` has length at most `e` -/
theorem suffix_take_length (p seq : List α) (e : Nat) (h : p.isSuffixOf (seq.take e) = true) : p.length ≤ e := by
  have := (List.isSuffixOf_iff_suffix.mp h).length_le
  simp only [List.length_take] at this
  omega

/-! ## `lookupD` on duplicate-free association lists -/

theorem lookupD_getElem {W : Type} (d : W) (l : List (List α × W)) (hnd : (l.map Prod.fst).Nodup)
    (i : Nat) (k : List α) (w : W) (h : l[i]? = some (k, w)) : Merge.lookupD d l k = w := by
  induction l generalizing i with
  | nil => simp at h
  | cons e l ih =>
    obtain ⟨k', w'⟩ := e
    simp only [List.map_cons, List.nodup_cons] at hnd
    cases i with
    | zero =>
      simp only [List.getElem?_cons_zero, Option.some.injEq, Prod.mk.injEq] at h
      simp [Merge.lookupD, h.1, h.2]
    | succ i =>
      simp only [List.getElem?_cons_succ] at h
      have hmem : k ∈ l.map Prod.fst := by
        have := List.mem_of_getElem? h
        exact List.mem_map.mpr ⟨(k, w), this, rfl⟩
      have hne : k' ≠ k := by intro heq; subst heq; exact hnd.1 hmem
      simp only [Merge.lookupD, hne, if_false]
      exact ih hnd.2 i h

theorem lookupD_mem {W : Type} (d : W) (l : List (List α × W)) (hnd : (l.map Prod.fst).Nodup)
    (e : List α × W) (h : e ∈ l) : Merge.lookupD d l e.1 = e.2 := by
  obtain ⟨i, hi, he⟩ := List.mem_iff_getElem.mp h
  exact lookupD_getElem d l hnd i e.1 e.2 (by rw [List.getElem?_eq_getElem hi, he])

end V.C01L
