import VModel.Spec
import VProofs.Lemmas.ScoreModel
/-!
# Locality of the pointwise linear model (C01): the score of a boundary only depends on a window of the text
-/
namespace V.C01Loc
open V.C01L
variable {α : Type} [DecidableEq α]

/-- whether `g` ends at position `pre.length + (j + 1)` of `pre ++ mid ++ post` can be read off `mid` alone when the
occurrence lies inside `mid` -/
theorem isSuffix_mid (g pre mid post : List α) (j : Nat) (hj : j + 1 ≤ mid.length) (hg : g.length ≤ j + 1) :
    g.isSuffixOf ((pre ++ mid ++ post).take (pre.length + j + 1)) = g.isSuffixOf (mid.take (j + 1)) := by
  have ht : (pre ++ mid ++ post).take (pre.length + j + 1) = pre ++ mid.take (j + 1) := by
    rw [List.append_assoc, Nat.add_assoc, List.take_length_add_append, List.take_append_of_le_length hj]
  rw [ht, Bool.eq_iff_iff, List.isSuffixOf_iff_suffix, List.isSuffixOf_iff_suffix]
  constructor
  · intro h
    exact List.suffix_of_suffix_length_le h (List.suffix_append _ _) (by rw [List.length_take]; omega)
  · intro h
    exact h.trans (List.suffix_append _ _)

/-- a sum over the occurrences of `g` in `pre ++ mid ++ post` whose summand vanishes unless the occurrence lies inside
`mid` is the same sum over the occurrences in `mid` -/
theorem occ_local (g pre mid post : List α) (h : Nat → Int) (hg1 : 1 ≤ g.length)
    (h1 : ∀ e, e < pre.length + g.length → h e = 0) (h2 : ∀ e, pre.length + mid.length < e → h e = 0) :
    ((occEnds g (pre ++ mid ++ post)).map h).sum = ((occEnds g mid).map fun e => h (pre.length + e)).sum := by
  rw [occ_sum, occ_sum]
  have hl : (pre ++ mid ++ post).length = pre.length + (mid.length + post.length) := by
    simp only [List.length_append]; omega
  rw [hl, List.range_add, List.map_append, isum_append, List.range_add, List.map_append, List.map_append, isum_append,
    List.map_map, List.map_map, List.map_map]
  have z1 : ((List.range pre.length).map fun k =>
      if g.isSuffixOf ((pre ++ mid ++ post).take (k + 1)) then h (k + 1) else 0).sum = 0 := by
    apply isum_map_eq_zero
    intro k hk
    have hk' := List.mem_range.mp hk
    split
    next => exact h1 _ (by omega)
    next => rfl
  have z3 : ((List.range post.length).map
      (((fun k => if g.isSuffixOf ((pre ++ mid ++ post).take (k + 1)) then h (k + 1) else 0) ∘
        (fun x => pre.length + x)) ∘ fun x => mid.length + x)).sum = 0 := by
    apply isum_map_eq_zero
    intro k _
    simp only [Function.comp]
    split
    next => exact h2 _ (by omega)
    next => rfl
  rw [z1, z3, Int.zero_add, Int.add_zero]
  apply isum_map_congr
  intro j hj
  have hj' := List.mem_range.mp hj
  simp only [Function.comp]
  by_cases hg : g.length ≤ j + 1
  · rw [← Nat.add_assoc, isSuffix_mid g pre mid post j hj' hg]
  · rw [h1 (pre.length + j + 1) (by omega), h1 (pre.length + (j + 1)) (by omega)]
    simp

/-- one n-gram entry: its contribution to boundary `pre.length + k` is its contribution to boundary `k` of `mid` -/
theorem ngram_entry_local (W : Nat) (g : List α) (w : List Int) (pre mid post : List α) (k : Nat)
    (hg1 : 1 ≤ g.length) (hg2 : g.length ≤ 2 * W) (hw : w.length = 2 * W - g.length + 1)
    (hk1 : W ≤ k + 1) (hk2 : k + 1 + W ≤ mid.length) :
    ((occEnds g (pre ++ mid ++ post)).map fun (e : Nat) =>
        getZ w (((pre.length + k : Nat) : Int) + 1 + (W : Int) - (e : Int))).sum
      = ((occEnds g mid).map fun (e : Nat) => getZ w ((k : Int) + 1 + (W : Int) - (e : Int))).sum := by
  rw [occ_local g pre mid post (fun (e : Nat) => getZ w (((pre.length + k : Nat) : Int) + 1 + (W : Int) - (e : Int))) hg1]
  · apply isum_map_congr
    intro e _
    show getZ w _ = getZ w _
    congr 1
    omega
  · intro e he
    apply getZ_ge
    omega
  · intro e he
    apply getZ_neg
    omega

/-- one dictionary word: the same -/
theorem dict_entry_local (g : List α) (w : List Int) (pre mid post : List α) (k : Nat) (hg1 : 1 ≤ g.length)
    (hw : w.length = g.length + 1) (hk1 : g.length ≤ k + 1) (hk2 : k + 1 + g.length ≤ mid.length) :
    ((occEnds g (pre ++ mid ++ post)).map fun (e : Nat) =>
        getZ w (((pre.length + k : Nat) : Int) + 1 + (g.length : Int) - (e : Int))).sum
      = ((occEnds g mid).map fun (e : Nat) => getZ w ((k : Int) + 1 + (g.length : Int) - (e : Int))).sum := by
  rw [occ_local g pre mid post
    (fun (e : Nat) => getZ w (((pre.length + k : Nat) : Int) + 1 + (g.length : Int) - (e : Int))) hg1]
  · apply isum_map_congr
    intro e _
    show getZ w _ = getZ w _
    congr 1
    omega
  · intro e he
    apply getZ_ge
    omega
  · intro e he
    apply getZ_neg
    omega

theorem ngramScore_local (W : Nat) (tbl : List (NgramData α)) (pre mid post : List α) (k : Nat)
    (hs : ∀ d ∈ tbl, 1 ≤ d.ngram.length ∧ d.ngram.length ≤ 2 * W ∧ d.weights.length = 2 * W - d.ngram.length + 1)
    (hk1 : W ≤ k + 1) (hk2 : k + 1 + W ≤ mid.length) :
    ngramScore W tbl (pre ++ mid ++ post) (pre.length + k) = ngramScore W tbl mid k := by
  unfold ngramScore
  congr 1
  apply List.map_congr_left
  intro d hd
  obtain ⟨a, b, c⟩ := hs d hd
  exact ngram_entry_local W d.ngram d.weights pre mid post k a b c hk1 hk2

theorem dictScore_local (tbl : List DictWord) (pre mid post : List Char) (k : Nat)
    (hs : ∀ d ∈ tbl, 1 ≤ d.word.length ∧ d.weights.length = d.word.length + 1 ∧ d.word.length ≤ k + 1 ∧
      k + 1 + d.word.length ≤ mid.length) :
    dictScore tbl (pre ++ mid ++ post) (pre.length + k) = dictScore tbl mid k := by
  unfold dictScore
  congr 1
  apply List.map_congr_left
  intro d hd
  obtain ⟨a0, a, b, c⟩ := hs d hd
  exact dict_entry_local d.word d.weights pre mid post k a0 a b c

/-- the score of boundary `pre.length + k` of `pre ++ mid ++ post` is the score of boundary `k` of `mid` -/
theorem specScore_local (m : WModel)
    (hcs : ∀ d ∈ m.charNgrams, 1 ≤ d.ngram.length ∧ d.ngram.length ≤ 2 * m.charW ∧
      d.weights.length = 2 * m.charW - d.ngram.length + 1)
    (hts : ∀ d ∈ m.typeNgrams, 1 ≤ d.ngram.length ∧ d.ngram.length ≤ 2 * m.typeW ∧
      d.weights.length = 2 * m.typeW - d.ngram.length + 1)
    (hds : ∀ d ∈ m.dict, 1 ≤ d.word.length ∧ d.weights.length = d.word.length + 1)
    (R : Nat) (hc : m.charW ≤ R) (ht : m.typeW ≤ R) (hd : ∀ d ∈ m.dict, d.word.length ≤ R)
    (pre mid post : List Char) (k : Nat) (hk1 : R ≤ k + 1) (hk2 : k + 1 + R ≤ mid.length) :
    specScore m (pre ++ mid ++ post) (pre.length + k) = specScore m mid k := by
  have hty : typesOf (pre ++ mid ++ post) = typesOf pre ++ typesOf mid ++ typesOf post := by
    simp [typesOf]
  have hpl : pre.length = (typesOf pre).length := by simp [typesOf]
  unfold specScore
  rw [ngramScore_local m.charW m.charNgrams pre mid post k hcs (by omega) (by omega),
    dictScore_local m.dict pre mid post k
      (fun d h => ⟨(hds d h).1, (hds d h).2, by have := hd d h; omega, by have := hd d h; omega⟩),
    hty]
  conv => lhs; rw [hpl]
  rw [ngramScore_local m.typeW m.typeNgrams (typesOf pre) (typesOf mid) (typesOf post) k hts (by omega)
    (by simp only [typesOf, List.length_map]; omega)]

end V.C01Loc
