import VProofs.Lemmas.BinUtf8
/-!
# Containers, the structs of the model and the model itself are strict and safe decoders
-/
namespace V.BinL
open V V.Bin

/-! ## `Vec<T>` -/

theorem Strict.vec {α : Type} {e : α → Bytes} {d : Dec α} {P : α → Prop} (h : Strict e d P) :
    Strict (encVec e) (decVec d) (fun xs => ∀ x ∈ xs, P x) := by
  have hv := strict_varint64
  have hl9 : ∀ n, (encVarint n).length < bound := fun n => by
    have := encVarint_length_le n; simp only [bound]; omega
  constructor
  · intro xs r hP hlen
    simp only [encVec, List.length_append] at hlen
    have hle := length_le_encList h.nonempty xs
    have hn : xs.length < 2 ^ 64 := by simp only [bound] at hlen; omega
    simp only [encVec, decVec, List.append_assoc]
    rw [hv.rt xs.length _ hn (hl9 _)]
    simp only []
    rw [if_neg (by simp only [List.length_append]; omega)]
    exact decN_rt h xs r hP (by omega)
  · intro xs p hP hlen hp hne
    simp only [encVec, List.length_append] at hlen
    simp only [encVec] at hp hne
    have hle := length_le_encList h.nonempty xs
    have hn : xs.length < 2 ^ 64 := by simp only [bound] at hlen; omega
    simp only [decVec]
    rcases prefix_append_cases hp with ⟨h1, h2⟩ | ⟨q, rfl, hq2⟩
    · obtain ⟨er, he⟩ := hv.pref xs.length p hn (hl9 _) h1 h2
      rw [he]; exact ⟨_, rfl⟩
    · rw [hv.rt xs.length q hn (hl9 _)]
      simp only []
      have hq : q ≠ encList e xs := by intro hh; apply hne; rw [hh]
      split
      · exact ⟨_, rfl⟩
      · exact decN_pref h xs q hP (by omega) hq2 hq
  · intro xs
    have := encVarint_nonempty xs.length
    simp only [encVec, List.length_append]; omega

theorem SafeDec.vec {α : Type} {d : Dec α} (h : SafeDec d) : SafeDec (decVec d) := by
  intro bs
  simp only [decVec]
  split
  · split
    · simp [derr, Res.Safe]
    · exact SafeDec.decN h _ _
  · simp [derr, Res.Safe]

/-! ## `String` -/

theorem strict_string : Strict encString decString (fun _ => True) := by
  have hv := strict_varint64
  have hl9 : ∀ n, (encVarint n).length < bound := fun n => by
    have := encVarint_length_le n; simp only [bound]; omega
  constructor
  · intro s r _ hlen
    simp only [encString, List.length_append] at hlen
    have hn : (utf8Encode s).length < 2 ^ 64 := by simp only [bound] at hlen; omega
    simp only [encString, decString, List.append_assoc]
    rw [hv.rt _ _ hn (hl9 _)]
    simp only []
    rw [takeN_append rfl]
    simp only [utf8Decode_encode]
  · intro s p _ hlen hp hne
    simp only [encString, List.length_append] at hlen
    simp only [encString] at hp hne
    have hn : (utf8Encode s).length < 2 ^ 64 := by simp only [bound] at hlen; omega
    simp only [decString]
    rcases prefix_append_cases hp with ⟨h1, h2⟩ | ⟨q, rfl, hq2⟩
    · obtain ⟨er, he⟩ := hv.pref _ p hn (hl9 _) h1 h2
      rw [he]; exact ⟨_, rfl⟩
    · rw [hv.rt _ q hn (hl9 _)]
      simp only []
      have hq : q ≠ utf8Encode s := by intro hh; apply hne; rw [hh]
      rw [takeN_short (prefix_length_lt hq2 hq)]
      exact ⟨_, rfl⟩
  · intro s
    have := encVarint_nonempty (utf8Encode s).length
    simp only [encString, List.length_append]; omega

theorem safe_string : SafeDec decString := by
  intro bs
  simp only [decString]
  repeat' split
  all_goals simp [derr, Res.Safe]

/-! ## value predicates -/

def OkNgramC (d : NgramData Char) : Prop := ∀ w ∈ d.weights, OkI32 w
def OkNgramT (d : NgramData Nat) : Prop := (∀ c ∈ d.ngram, c < 256) ∧ ∀ w ∈ d.weights, OkI32 w
def OkWord (d : DictWord) : Prop := ∀ w ∈ d.weights, OkI32 w
def OkTagWeight (w : TagWeight) : Prop := w.rel < 256 ∧ ∀ x ∈ w.weights, OkI32 x
def OkTagNgramC (d : TagNgramData Char) : Prop := ∀ w ∈ d.weights, OkTagWeight w
def OkTagNgramT (d : TagNgramData Nat) : Prop := (∀ c ∈ d.ngram, c < 256) ∧ ∀ w ∈ d.weights, OkTagWeight w
def OkTagModel (t : TagModel) : Prop :=
  (∀ g ∈ t.charNgrams, OkTagNgramC g) ∧ (∀ g ∈ t.typeNgrams, OkTagNgramT g) ∧ ∀ w ∈ t.bias, OkI32 w
def OkModel (m : WModel) : Prop :=
  (∀ g ∈ m.charNgrams, OkNgramC g) ∧ (∀ g ∈ m.typeNgrams, OkNgramT g) ∧ (∀ d ∈ m.dict, OkWord d) ∧ OkI32 m.bias ∧
    m.charW < 256 ∧ m.typeW < 256 ∧ ∀ t ∈ m.tagModels, OkTagModel t

/-! ## structs -/

theorem strict_ngramC : Strict encNgramC decNgramC OkNgramC :=
  (strict_string.pair strict_i32.vec).conv _ (fun d => (d.ngram, d.weights)) (fun _ => rfl) (fun _ => rfl)
    (fun _ h => ⟨trivial, h⟩)

theorem strict_ngramT : Strict encNgramT decNgramT OkNgramT :=
  (strict_u8.vec.pair strict_i32.vec).conv _ (fun d => (d.ngram, d.weights)) (fun _ => rfl) (fun _ => rfl)
    (fun _ h => h)

theorem strict_word : Strict encWord decWord OkWord :=
  (strict_string.pair (strict_i32.vec.pair strict_string)).conv _ (fun d => (d.word, d.weights, d.comment))
    (fun _ => rfl) (fun _ => by simp [encWord, encPair]) (fun _ h => ⟨trivial, h, trivial⟩)

theorem strict_tagWeight : Strict encTagWeight decTagWeight OkTagWeight :=
  (strict_u8.pair strict_i32.vec).conv _ (fun d => (d.rel, d.weights)) (fun _ => rfl) (fun _ => rfl)
    (fun _ h => h)

theorem strict_tagNgramC : Strict encTagNgramC decTagNgramC OkTagNgramC :=
  (strict_string.pair strict_tagWeight.vec).conv _ (fun d => (d.ngram, d.weights)) (fun _ => rfl) (fun _ => rfl)
    (fun _ h => ⟨trivial, h⟩)

theorem strict_tagNgramT : Strict encTagNgramT decTagNgramT OkTagNgramT :=
  (strict_u8.vec.pair strict_tagWeight.vec).conv _ (fun d => (d.ngram, d.weights)) (fun _ => rfl) (fun _ => rfl)
    (fun _ h => h)

theorem strict_tagModel : Strict encTagModel decTagModel OkTagModel :=
  (strict_string.pair (strict_string.vec.vec.pair (strict_tagNgramC.vec.pair
      (strict_tagNgramT.vec.pair strict_i32.vec)))).conv _
    (fun t => (t.token, t.tags, t.charNgrams, t.typeNgrams, t.bias))
    (fun _ => rfl) (fun _ => by simp [encTagModel, encPair])
    (fun _ h => ⟨trivial, fun _ _ _ _ => trivial, h.1, h.2.1, h.2.2⟩)

theorem strict_modelData : Strict encModelData decModelData OkModel :=
  (strict_ngramC.vec.pair (strict_ngramT.vec.pair (strict_word.vec.pair (strict_i32.pair
      (strict_u8.pair (strict_u8.pair strict_tagModel.vec)))))).conv _
    (fun m => (m.charNgrams, m.typeNgrams, m.dict, m.bias, m.charW, m.typeW, m.tagModels))
    (fun _ => rfl) (fun _ => by simp [encModelData, encPair])
    (fun _ h => h)

/-! ## safety -/

theorem safe_modelData : SafeDec decModelData := by
  have hw : SafeDec decTagWeight := (safe_u8.pair safe_i32.vec).map _
  have hc : SafeDec decTagNgramC := (safe_string.pair hw.vec).map _
  have ht : SafeDec decTagNgramT := (safe_u8.vec.pair hw.vec).map _
  have htm : SafeDec decTagModel :=
    (safe_string.pair (safe_string.vec.vec.pair (hc.vec.pair (ht.vec.pair safe_i32.vec)))).map _
  have h1 : SafeDec decNgramC := (safe_string.pair safe_i32.vec).map _
  have h2 : SafeDec decNgramT := (safe_u8.vec.pair safe_i32.vec).map _
  have h3 : SafeDec decWord := (safe_string.pair (safe_i32.vec.pair safe_string)).map _
  exact (h1.vec.pair (h2.vec.pair (h3.vec.pair (safe_i32.pair (safe_u8.pair (safe_u8.pair htm.vec)))))).map _

/-! ## `Encodable` gives the value predicates -/

theorem okModel_of_encodable {m : WModel} (h : Encodable m) : OkModel m := by
  refine ⟨?_, ?_, ?_, h.bias, h.charW, h.typeW, ?_⟩
  · intro g hg w hw
    exact h.i32 w (Or.inl (List.mem_flatMap.2 ⟨g, hg, hw⟩))
  · intro g hg
    refine ⟨fun c hc => h.codes c (Or.inl (List.mem_flatMap.2 ⟨g, hg, hc⟩)), fun w hw => ?_⟩
    exact h.i32 w (Or.inr (Or.inl (List.mem_flatMap.2 ⟨g, hg, hw⟩)))
  · intro g hg w hw
    exact h.i32 w (Or.inr (Or.inr (Or.inl (List.mem_flatMap.2 ⟨g, hg, hw⟩))))
  · intro t ht
    have hi : ∀ w, w ∈ t.bias ++ t.charNgrams.flatMap (fun g => g.weights.flatMap (·.weights))
        ++ t.typeNgrams.flatMap (fun g => g.weights.flatMap (·.weights)) → OkI32 w := fun w hw =>
      h.i32 w (Or.inr (Or.inr (Or.inr (List.mem_flatMap.2 ⟨t, ht, hw⟩))))
    have hr : ∀ r, r ∈ (t.charNgrams.flatMap (fun g => g.weights.map (·.rel)))
        ++ t.typeNgrams.flatMap (fun g => g.weights.map (·.rel)) → r < 256 := fun r hr =>
      h.rels r (List.mem_flatMap.2 ⟨t, ht, hr⟩)
    refine ⟨?_, ?_, ?_⟩
    · intro g hg tw htw
      refine ⟨hr _ (List.mem_append_left _ (List.mem_flatMap.2 ⟨g, hg, List.mem_map.2 ⟨tw, htw, rfl⟩⟩)), ?_⟩
      intro x hx
      exact hi x (List.mem_append_left _ (List.mem_append_right _
        (List.mem_flatMap.2 ⟨g, hg, List.mem_flatMap.2 ⟨tw, htw, hx⟩⟩)))
    · intro g hg
      refine ⟨fun c hc => h.codes c (Or.inr (List.mem_flatMap.2 ⟨t, ht, List.mem_flatMap.2 ⟨g, hg, hc⟩⟩)), ?_⟩
      intro tw htw
      refine ⟨hr _ (List.mem_append_right _ (List.mem_flatMap.2 ⟨g, hg, List.mem_map.2 ⟨tw, htw, rfl⟩⟩)), ?_⟩
      intro x hx
      exact hi x (List.mem_append_right _ (List.mem_flatMap.2 ⟨g, hg, List.mem_flatMap.2 ⟨tw, htw, hx⟩⟩))
    · intro w hw
      exact hi w (List.mem_append_left _ (List.mem_append_left _ hw))

/-! ## the two readers -/

theorem magic_length : magic.length = 25 := rfl

theorem decModelData_rt {m : WModel} (h : Encodable m) (r : Bytes) :
    decModelData (encModelData m ++ r) = .ok (m, r) :=
  strict_modelData.rt m r (okModel_of_encodable h) h.size

theorem decModelData_pref {m : WModel} (h : Encodable m) {p : Bytes} (hp : p <+: encModelData m)
    (hne : p ≠ encModelData m) : ∃ e, decModelData p = .err e :=
  strict_modelData.pref m p (okModel_of_encodable h) h.size hp hne

end V.BinL
