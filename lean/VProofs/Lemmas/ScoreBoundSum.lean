import VModel.Weights
import VProofs.Lemmas.ScoreWeights
import VProofs.Lemmas.ScoreSum
/-!
# Absolute values of finite sums (for the C01 overflow bound)

`iabs x` is `|x|` as an `Int`, so that the summation lemmas of `ScoreSum` (exchange of summation, filters, …) apply.
The key fact is `isum_abs_getZ_le`: reading a weight vector at pairwise different indices and summing the absolute values
never exceeds `absSum`, the sum of the absolute values of all its entries.
-/
namespace V

/-- sum of the absolute values of a weight vector -/
def absSum (w : List Int) : Nat := (w.map Int.natAbs).sum

namespace C01B
open C01L

/-- `|x|` as an integer -/
def iabs (x : Int) : Int := ((x.natAbs : Nat) : Int)

theorem iabs_nonneg (x : Int) : 0 ≤ iabs x := by unfold iabs; omega
theorem iabs_zero : iabs 0 = 0 := rfl
theorem iabs_add_le (a b : Int) : iabs (a + b) ≤ iabs a + iabs b := by unfold iabs; omega
theorem iabs_le_iff (x : Int) (M : Nat) : iabs x ≤ (M : Int) ↔ x.natAbs ≤ M := by unfold iabs; omega

theorem isum_map_le {β : Type} (l : List β) (f g : β → Int) (h : ∀ a ∈ l, f a ≤ g a) :
    (l.map f).sum ≤ (l.map g).sum := by
  induction l with
  | nil => simp
  | cons a l ih =>
    simp only [List.map_cons, List.sum_cons]
    have h1 := h a (by simp)
    have h2 := ih (fun b hb => h b (by simp [hb]))
    omega

theorem isum_map_nonneg {β : Type} (l : List β) (f : β → Int) (h : ∀ a ∈ l, 0 ≤ f a) : 0 ≤ (l.map f).sum := by
  have := isum_map_le l (fun _ => 0) f h
  rw [isum_map_zero] at this
  exact this

theorem isum_abs_nonneg (l : List Int) : 0 ≤ (l.map iabs).sum :=
  isum_map_nonneg l iabs (fun a _ => iabs_nonneg a)

theorem iabs_sum_le (l : List Int) : iabs l.sum ≤ (l.map iabs).sum := by
  induction l with
  | nil => simp [iabs]
  | cons a l ih =>
    simp only [List.sum_cons, List.map_cons]
    have := iabs_add_le a l.sum
    omega

theorem iabs_sum_map_le {β : Type} (l : List β) (f : β → Int) : iabs (l.map f).sum ≤ (l.map fun a => iabs (f a)).sum := by
  have := iabs_sum_le (l.map f)
  rw [List.map_map] at this
  exact this

/-- every partial sum of a list is bounded by the sum of the absolute values of the whole list -/
theorem iabs_take_sum_le (l : List Int) (k : Nat) : iabs (l.take k).sum ≤ (l.map iabs).sum := by
  induction l generalizing k with
  | nil => simp [iabs]
  | cons a l ih =>
    cases k with
    | zero =>
      simp only [List.take_zero, List.sum_nil, iabs_zero]
      exact isum_abs_nonneg _
    | succ k =>
      simp only [List.take_succ_cons, List.sum_cons, List.map_cons]
      have := iabs_add_le a (l.take k).sum
      have := ih k
      omega

/-- a sum of non-negative terms over the entries that pass a filter is at most the sum over all entries -/
theorem isum_filter_le {β : Type} (l : List β) (p : β → Bool) (f : β → Int) (h : ∀ a ∈ l, 0 ≤ f a) :
    ((l.filter p).map f).sum ≤ (l.map f).sum := by
  rw [isum_filter]
  apply isum_map_le
  intro a ha
  have := h a ha
  split <;> omega

/-! ## `absSum` -/

theorem absSum_nil : absSum [] = 0 := rfl
theorem absSum_cons (x : Int) (w : List Int) : absSum (x :: w) = x.natAbs + absSum w := by
  simp [absSum]

theorem absSum_cast (w : List Int) : ((absSum w : Nat) : Int) = (w.map iabs).sum := by
  induction w with
  | nil => rfl
  | cons x w ih =>
    rw [absSum_cons, List.map_cons, List.sum_cons, ← ih]
    unfold iabs
    omega

theorem absSum_append (a b : List Int) : absSum (a ++ b) = absSum a + absSum b := by
  induction a with
  | nil => simp [absSum]
  | cons x a ih => rw [List.cons_append, absSum_cons, absSum_cons, ih]; omega

theorem absSum_replicate_zero (k : Nat) : absSum (List.replicate k 0) = 0 := by
  induction k with
  | zero => rfl
  | succ k ih => rw [List.replicate_succ, absSum_cons, ih]; rfl

theorem natAbs_le_absSum_of_mem (w : List Int) (x : Int) (h : x ∈ w) : x.natAbs ≤ absSum w := by
  induction w with
  | nil => cases h
  | cons y w ih =>
    rw [absSum_cons]
    rcases List.mem_cons.mp h with h | h
    · subst h; omega
    · have := ih h; omega

/-! ## reading a vector at different indices -/

theorem getZ_cons (x : Int) (w : List Int) (i : Int) :
    getZ (x :: w) i = if i = 0 then x else getZ w (i - 1) := by
  by_cases h0 : i = 0
  · subst h0; simp [getZ]
  · rw [if_neg h0]
    by_cases hneg : i < 0
    · rw [getZ_neg _ _ hneg, getZ_neg _ _ (by omega)]
    · have h1 : 0 ≤ i := by omega
      have h2 : 0 ≤ i - 1 := by omega
      rw [getZ_eq_getD _ _ h1, getZ_eq_getD _ _ h2]
      have : i.toNat = (i - 1).toNat + 1 := by omega
      rw [this, List.getD_cons_succ]

theorem getZ_mem_or_zero (w : List Int) (i : Int) : getZ w i = 0 ∨ getZ w i ∈ w := by
  by_cases h0 : 0 ≤ i
  · rw [getZ_eq_getD _ _ h0, List.getD_eq_getElem?_getD]
    cases h : w[i.toNat]? with
    | none => left; rfl
    | some v => right; exact List.mem_of_getElem? h
  · left; exact getZ_neg _ _ (by omega)

theorem iabs_getZ_le (w : List Int) (i : Int) : iabs (getZ w i) ≤ ((absSum w : Nat) : Int) := by
  rcases getZ_mem_or_zero w i with h | h
  · rw [h, iabs_zero]; omega
  · have := natAbs_le_absSum_of_mem w _ h
    unfold iabs; omega

/-- an indicator sum over a range picks at most one term -/
theorem isum_range_indicator (n : Nat) (c a : Int) (ha : 0 ≤ a) :
    ((List.range n).map fun (k : Nat) => if c - (k : Int) = 0 then a else 0).sum ≤ a := by
  induction n with
  | zero => simpa using ha
  | succ n ih =>
    rw [List.range_succ, List.map_append, isum_append]
    simp only [List.map_cons, List.map_nil, List.sum_cons, List.sum_nil]
    by_cases hc : c - (n : Int) = 0
    · rw [if_pos hc]
      have hz : ((List.range n).map fun (k : Nat) => if c - (k : Int) = 0 then a else 0).sum = 0 := by
        apply isum_map_eq_zero
        intro k hk
        have := List.mem_range.mp hk
        rw [if_neg (by omega)]
      rw [hz]; omega
    · rw [if_neg hc]; omega

/-- **the counting argument**: reading `w` at the pairwise different indices `c, c − 1, …, c − (n − 1)` and adding up the
absolute values gives at most `absSum w` -/
theorem isum_abs_getZ_le (w : List Int) (c : Int) (n : Nat) :
    ((List.range n).map fun (k : Nat) => iabs (getZ w (c - (k : Int)))).sum ≤ ((absSum w : Nat) : Int) := by
  induction w generalizing c with
  | nil =>
    rw [isum_map_eq_zero _ _ (fun k _ => by rw [getZ_nil]; rfl)]
    omega
  | cons x w ih =>
    have hsplit : ∀ k ∈ List.range n, iabs (getZ (x :: w) (c - (k : Int)))
        = (if c - (k : Int) = 0 then iabs x else 0) + (if c - (k : Int) = 0 then 0 else iabs (getZ w (c - 1 - (k : Int)))) := by
      intro k _
      rw [getZ_cons]
      by_cases h : c - (k : Int) = 0
      · simp [h]
      · simp only [h, if_false]
        have : c - (k : Int) - 1 = c - 1 - (k : Int) := by omega
        rw [this]; omega
    rw [isum_map_congr _ _ _ hsplit, isum_map_add, absSum_cons]
    have h1 := isum_range_indicator n c (iabs x) (iabs_nonneg x)
    have h2 : ((List.range n).map fun (k : Nat) => if c - (k : Int) = 0 then 0 else iabs (getZ w (c - 1 - (k : Int)))).sum
        ≤ ((List.range n).map fun (k : Nat) => iabs (getZ w (c - 1 - (k : Int)))).sum := by
      apply isum_map_le
      intro k _
      have := iabs_nonneg (getZ w (c - 1 - (k : Int)))
      split <;> omega
    have h3 := ih (c - 1)
    have hx : iabs x = ((x.natAbs : Nat) : Int) := rfl
    omega

/-- the same with a condition on the positions (only some of the indices are read) -/
theorem isum_abs_getZ_cond_le (w : List Int) (c : Int) (n : Nat) (p : Nat → Bool) :
    ((List.range n).map fun (k : Nat) => if p k then iabs (getZ w (c - (k : Int))) else 0).sum
      ≤ ((absSum w : Nat) : Int) := by
  refine Int.le_trans (isum_map_le _ _ (fun (k : Nat) => iabs (getZ w (c - (k : Int)))) ?_) (isum_abs_getZ_le w c n)
  intro k _
  have := iabs_nonneg (getZ w (c - (k : Int)))
  split <;> omega

end C01B
end V
