import VModel.F64Arith
import VProofs.Lemmas.QuantBits
/-!
# `f64OfNat`, `f64Mul`, `f64Add`: results are binary64 values, commutativity, IEEE special cases, exactness on small integers

Pitfall (as in `QuantMain.lean`): `unit = 2^1074` and `top = 2^2098` stay named constants; closed numeric facts about them are
checked by kernel evaluation, everything else treats them as atoms.
-/
namespace V.EvalF
open V V.F64 V.QuantL

/-! ## constants -/

/-- `2^1021` units = `2^-53`: the grid step just below `1.0` -/
def e1021 : Nat := 2 ^ 1021
theorem e1021_pos : 0 < e1021 := by unfold e1021; exact two_pow_pos 1021
set_option exponentiation.threshold 5000 in
theorem unit_split53 : unit = 2 ^ 53 * e1021 := by decide +kernel
set_option exponentiation.threshold 5000 in
theorem unit_le_sq : unit ≤ e1021 * e1021 := by decide +kernel
set_option exponentiation.threshold 5000 in
/-- `2^32` is finite -/
theorem c32_lt_top : 2 * (2 ^ 31 * unit) < top := by decide +kernel
set_option exponentiation.threshold 5000 in
theorem c53_lt_top : 2 ^ 53 * unit < top := by decide +kernel

/- from here on the unifier must never look inside the two big constants -/
attribute [local irreducible] F64.top F64.unit

theorem repU_unit : RepU unit := by unfold unit; exact repU_pow 1074
theorem repU_zero : RepU 0 := ⟨0, 0, rfl, by decide⟩
theorem repU_one : RepU 1 := ⟨1, 0, rfl, by decide⟩
theorem repU_double {a : Nat} (h : RepU a) : RepU (2 * a) := by
  obtain ⟨c, t, rfl, hc⟩ := h
  exact ⟨c, t + 1, by rw [Nat.pow_succ]; ac_rfl, hc⟩

theorem bne_comm' (s t : Bool) : (s != t) = (t != s) := by cases s <;> cases t <;> rfl
theorem bne_self' (s : Bool) : (s != s) = false := by cases s <;> rfl

/-! ## `pack` -/

theorem pack_lt {s : Bool} {r : Nat} (h : r < top) : F64.pack s r = .fin s r := by
  unfold F64.pack; rw [if_pos h]
theorem pack_ge {s : Bool} {r : Nat} (h : ¬ r < top) : F64.pack s r = .inf s := by
  unfold F64.pack; rw [if_neg h]

theorem pack_isDouble (s : Bool) (r : Nat) (h : RepU r) : (F64.pack s r).IsDouble := by
  cases Nat.lt_or_ge r top with
  | inl c => rw [pack_lt c]; exact ⟨c, repUnits_of_repU h⟩
  | inr c => rw [pack_ge (Nat.not_lt.mpr c)]; exact trivial

theorem pack_ne_nan (s : Bool) (r : Nat) : F64.pack s r ≠ .nan := by
  cases Nat.lt_or_ge r top with
  | inl c => rw [pack_lt c]; exact F64.noConfusion
  | inr c => rw [pack_ge (Nat.not_lt.mpr c)]; exact F64.noConfusion

/-! ## rounding an integer number of units -/

theorem roundUnits_one (g : Nat) (hg : RepU g) : roundUnits g 1 = g := by
  have := roundUnits_exact g 1 (by decide) hg
  rw [Nat.one_mul] at this
  exact this

/-- `fl (n·unit / unit) = fl (n / 1)` -/
theorem roundUnits_unit (n : Nat) : roundUnits (n * unit) unit = roundUnits n 1 := by
  have := roundUnits_scale n 1 unit unit_pos
  rw [Nat.one_mul] at this
  exact this

theorem roundUnits_pos (n d : Nat) (hd : 0 < d) (h : d ≤ n) : 0 < roundUnits n d := by
  have := le_roundUnits_of_le n d 1 hd repU_one (by rw [Nat.mul_one]; exact h)
  omega

theorem roundUnits_eq_zero_iff (n : Nat) : roundUnits n 1 = 0 ↔ n = 0 := by
  constructor
  · intro h
    apply Nat.eq_zero_of_not_pos
    intro hp
    have := roundUnits_pos n 1 (by decide) hp
    omega
  · intro h; rw [h]; exact roundUnits_zero 1 (by decide)

/-! ## `f64OfNat` -/

theorem small_units_lt_top (n : Nat) (h : n ≤ 2 ^ 53) : n * unit < top :=
  Nat.lt_of_le_of_lt (Nat.mul_le_mul_right _ h) c53_lt_top

/-- the conversion is exact below `2^53` (so for every `i32`/`u32`) -/
theorem f64OfNat_exact (n : Nat) (h : n < 2 ^ 53) : f64OfNat n = .fin false (n * unit) := by
  unfold f64OfNat
  rw [roundUnits_one _ (repU_units n h), pack_lt (small_units_lt_top n (Nat.le_of_lt h))]

theorem f64OfNat_zero : f64OfNat 0 = .fin false 0 := by
  rw [f64OfNat_exact 0 (by decide), Nat.zero_mul]

theorem f64OfNat_one : f64OfNat 1 = .fin false unit := by
  rw [f64OfNat_exact 1 (by decide), Nat.one_mul]

theorem f64OfNat_two : f64OfNat 2 = f64Two := f64OfNat_exact 2 (by decide)

/-- in general: the correctly rounded value (`C11_f64_rounding` describes `roundUnits`), a binary64 value, never NaN -/
theorem f64OfNat_isDouble (n : Nat) : (f64OfNat n).IsDouble := by
  unfold f64OfNat
  exact pack_isDouble _ _ (roundUnits_rep _ 1 (Nat.le_refl 1))

/-! ## the finite/finite cases -/

theorem mul_fin (s t : Bool) (a b : Nat) :
    f64Mul (.fin s a) (.fin t b) = F64.pack (s != t) (roundUnits (a * b) unit) := rfl

theorem add_fin_same (s : Bool) (a b : Nat) :
    f64Add (.fin s a) (.fin s b) = F64.pack s (roundUnits (a + b) 1) := by
  unfold f64Add
  simp only [↓reduceIte]

theorem add_fin_opp (s : Bool) (a b : Nat) :
    f64Add (.fin s a) (.fin (!s) b) =
      if a = b then .fin false 0 else if b < a then F64.pack s (roundUnits (a - b) 1)
      else F64.pack (!s) (roundUnits (b - a) 1) := by
  unfold f64Add
  simp only []
  rw [if_neg (by cases s <;> decide)]

/-! ## commutativity (all operands, including NaN, ±∞, ±0) -/

theorem mul_inf_inf (s t : Bool) : f64Mul (.inf s) (.inf t) = .inf (s != t) := rfl
theorem mul_inf_fin (s t : Bool) (b : Nat) : f64Mul (.inf s) (.fin t b) = if b = 0 then .nan else .inf (s != t) := rfl
theorem mul_fin_inf (s t : Bool) (a : Nat) : f64Mul (.fin s a) (.inf t) = if a = 0 then .nan else .inf (s != t) := rfl

theorem f64Mul_comm (x y : F64) : f64Mul x y = f64Mul y x := by
  cases x with
  | nan => cases y <;> rfl
  | inf s =>
    cases y with
    | nan => rfl
    | inf t => rw [mul_inf_inf, mul_inf_inf, bne_comm']
    | fin t b => rw [mul_inf_fin, mul_fin_inf, bne_comm']
  | fin s a =>
    cases y with
    | nan => rfl
    | inf t => rw [mul_inf_fin, mul_fin_inf, bne_comm']
    | fin t b => rw [mul_fin, mul_fin, bne_comm', Nat.mul_comm]

theorem f64Add_comm (x y : F64) : f64Add x y = f64Add y x := by
  cases x with
  | nan => cases y <;> rfl
  | inf s =>
    cases y with
    | nan => rfl
    | inf t => cases s <;> cases t <;> rfl
    | fin t b => rfl
  | fin s a =>
    cases y with
    | nan => rfl
    | inf t => rfl
    | fin t b =>
      by_cases hst : s = t
      · subst hst
        rw [add_fin_same, add_fin_same, Nat.add_comm]
      · have ht : t = !s := by cases s <;> cases t <;> first | rfl | exact absurd rfl hst
        subst ht
        have e : f64Add (.fin (!s) b) (.fin s a) = f64Add (.fin (!s) b) (.fin (!(!s)) a) := by rw [Bool.not_not]
        rw [e, add_fin_opp, add_fin_opp, Bool.not_not]
        rcases Nat.lt_trichotomy a b with h | h | h
        · rw [if_neg (by omega), if_neg (by omega), if_neg (by omega), if_pos h]
        · rw [if_pos h, if_pos h.symm]
        · rw [if_neg (by omega), if_pos h, if_neg (by omega), if_neg (by omega)]

/-! ## results are binary64 values -/

theorem add_inf_inf (s t : Bool) : f64Add (.inf s) (.inf t) = if s = t then .inf s else .nan := rfl
theorem add_fin (s t : Bool) (a b : Nat) : f64Add (.fin s a) (.fin t b) =
    if s = t then F64.pack s (roundUnits (a + b) 1)
    else if a = b then .fin false 0
    else if b < a then F64.pack s (roundUnits (a - b) 1)
    else F64.pack t (roundUnits (b - a) 1) := rfl

theorem ite_nan_inf_isDouble (c : Prop) [Decidable c] (s : Bool) : (if c then F64.nan else F64.inf s).IsDouble := by
  by_cases h : c
  · rw [if_pos h]; exact trivial
  · rw [if_neg h]; exact trivial

theorem f64Mul_isDouble (x y : F64) : (f64Mul x y).IsDouble := by
  cases x with
  | nan => cases y <;> exact trivial
  | inf s =>
    cases y with
    | nan => exact trivial
    | inf t => exact trivial
    | fin t b => rw [mul_inf_fin]; exact ite_nan_inf_isDouble _ _
  | fin s a =>
    cases y with
    | nan => exact trivial
    | inf t => rw [mul_fin_inf]; exact ite_nan_inf_isDouble _ _
    | fin t b => rw [mul_fin]; exact pack_isDouble _ _ (roundUnits_rep _ _ unit_pos)

theorem f64Add_isDouble (x y : F64) : (f64Add x y).IsDouble := by
  cases x with
  | nan => cases y <;> exact trivial
  | inf s =>
    cases y with
    | nan => exact trivial
    | inf t => rw [add_inf_inf]; cases s <;> cases t <;> exact trivial
    | fin t b => exact trivial
  | fin s a =>
    cases y with
    | nan => exact trivial
    | inf t => exact trivial
    | fin t b =>
      have h1 : ∀ n, RepU (roundUnits n 1) := fun n => roundUnits_rep n 1 (Nat.le_refl 1)
      rw [add_fin]
      by_cases c1 : s = t
      · rw [if_pos c1]; exact pack_isDouble _ _ (h1 _)
      · rw [if_neg c1]
        by_cases c2 : a = b
        · rw [if_pos c2]; exact ⟨top_pos, repUnits_of_repU repU_zero⟩
        · rw [if_neg c2]
          by_cases c3 : b < a
          · rw [if_pos c3]; exact pack_isDouble _ _ (h1 _)
          · rw [if_neg c3]; exact pack_isDouble _ _ (h1 _)

/-! ## IEEE special cases -/

/-- `x + (−x) = +0` for every finite `x`; `∞ − ∞` is NaN -/
theorem add_neg_self (s : Bool) (a : Nat) : f64Add (.fin s a) (f64Neg (.fin s a)) = .fin false 0 := by
  unfold f64Neg
  rw [add_fin_opp, if_pos rfl]

theorem sub_self_fin (s : Bool) (a : Nat) : f64Sub (.fin s a) (.fin s a) = .fin false 0 := add_neg_self s a

theorem inf_sub_inf (s : Bool) : f64Sub (.inf s) (.inf s) = .nan := by cases s <;> rfl

theorem zero_mul_inf (s t : Bool) : f64Mul (.fin s 0) (.inf t) = .nan ∧ f64Mul (.inf t) (.fin s 0) = .nan := ⟨rfl, rfl⟩

theorem neg_zero_add_neg_zero : f64Add (.fin true 0) (.fin true 0) = .fin true 0 := by
  rw [add_fin_same, roundUnits_zero 1 (by decide), pack_lt top_pos]

theorem nan_mul (y : F64) : f64Mul .nan y = .nan := rfl
theorem mul_nan (x : F64) : f64Mul x .nan = .nan := by cases x <;> rfl
theorem nan_add (y : F64) : f64Add .nan y = .nan := rfl
theorem add_nan (x : F64) : f64Add x .nan = .nan := by cases x <;> rfl
theorem nan_div (y : F64) : f64Div .nan y = .nan := rfl
theorem div_nan (x : F64) : f64Div x .nan = .nan := by cases x <;> rfl

/-! ## comparisons of non-negative finite values -/

theorem le_fin_nonneg (a b : Nat) : f64Le (.fin false a) (.fin false b) = decide (a ≤ b) := by
  rw [f64Le_fin]
  unfold F64.sval
  simp only [Bool.false_eq_true, if_false]
  by_cases h : a ≤ b
  · rw [decide_eq_true h, decide_eq_true (by omega : (a : Int) ≤ b)]
  · rw [decide_eq_false h, decide_eq_false (by omega : ¬ (a : Int) ≤ b)]

theorem lt_fin_nonneg (a b : Nat) : f64Lt (.fin false a) (.fin false b) = decide (a < b) := by
  unfold f64Lt
  rw [le_fin_nonneg, le_fin_nonneg]
  by_cases h : a < b
  · rw [decide_eq_true h, decide_eq_true (by omega : a ≤ b), decide_eq_false (by omega : ¬ b ≤ a)]; rfl
  · rw [decide_eq_false h]
    by_cases h2 : a ≤ b
    · rw [decide_eq_true h2, decide_eq_true (by omega : b ≤ a)]; rfl
    · rw [decide_eq_false h2]; rfl

end V.EvalF
