import VModel.Tantivy
/-!
# TkOffsets — byte offsets of character boundaries, `sliceBytes`, `boundaryPos`, `advanceAll`
-/
namespace V.C16L
open V

/-! ## `charToStr` is strictly increasing, starts at 0, ends at `utf8Len` -/

theorem charToStrFrom_length (p : Nat) (t : List Char) : (charToStrFrom p t).length = t.length + 1 := by
  induction t generalizing p with
  | nil => rfl
  | cons c cs ih => simp only [charToStrFrom, List.length_cons, ih]

theorem charToStrFrom_ge (p : Nat) (t : List Char) : ∀ x ∈ charToStrFrom p t, p ≤ x := by
  induction t generalizing p with
  | nil => intro x hx; simp only [charToStrFrom, List.mem_singleton] at hx; omega
  | cons c cs ih =>
    intro x hx
    simp only [charToStrFrom, List.mem_cons] at hx
    rcases hx with hx | hx
    · omega
    · have := ih _ x hx; omega

theorem charToStrFrom_pairwise (p : Nat) (t : List Char) : (charToStrFrom p t).Pairwise (· < ·) := by
  induction t generalizing p with
  | nil => simp [charToStrFrom]
  | cons c cs ih =>
    simp only [charToStrFrom]
    refine List.pairwise_cons.mpr ⟨fun x hx => ?_, ih _⟩
    have := charToStrFrom_ge _ cs x hx
    have := Char.utf8Size_pos c
    omega

theorem charToStrFrom_last (p : Nat) (t : List Char) : (charToStrFrom p t)[t.length]? = some (p + utf8Len t) := by
  induction t generalizing p with
  | nil => simp [charToStrFrom, utf8Len]
  | cons c cs ih =>
    simp only [charToStrFrom, List.length_cons, List.getElem?_cons_succ, ih]
    simp only [utf8Len, List.map_cons, List.sum_cons, Nat.add_assoc]

theorem charToStr_length (t : List Char) : (charToStr t).length = t.length + 1 := charToStrFrom_length 0 t

theorem charToStr_zero (t : List Char) : (charToStr t)[0]? = some 0 := by
  cases t <;> rfl

theorem charToStr_last (t : List Char) : (charToStr t)[t.length]? = some (utf8Len t) := by
  have := charToStrFrom_last 0 t
  rwa [Nat.zero_add] at this

theorem charToStr_mono (t : List Char) {i j x y : Nat} (hi : (charToStr t)[i]? = some x)
    (hj : (charToStr t)[j]? = some y) (hij : i < j) : x < y := by
  obtain ⟨hi', rfl⟩ := List.getElem?_eq_some_iff.mp hi
  obtain ⟨hj', rfl⟩ := List.getElem?_eq_some_iff.mp hj
  exact List.pairwise_iff_getElem.mp (charToStrFrom_pairwise 0 t) i j hi' hj' hij

/-! ## `idxOf?` -/

theorem idxOf?_of_mem {x : Nat} : ∀ {l : List Nat}, x ∈ l → ∃ i, l.idxOf? x = some i ∧ l[i]? = some x
  | [], h => by simp at h
  | a :: l, h => by
    rw [List.idxOf?_cons]
    by_cases hax : a = x
    · subst hax
      exact ⟨0, by simp, by simp⟩
    · have hm : x ∈ l := by
        rcases List.mem_cons.mp h with h | h
        · exact absurd h.symm hax
        · exact h
      obtain ⟨i, h1, h2⟩ := idxOf?_of_mem hm
      refine ⟨i + 1, ?_, by simpa using h2⟩
      rw [if_neg (by simpa using hax), h1]
      rfl

/-- slicing between two character boundaries `lo < hi` never panics -/
theorem sliceBytes_some (text : List Char) {lo hi : Nat} (hlo : lo ∈ charToStr text) (hhi : hi ∈ charToStr text)
    (hlt : lo < hi) : ∃ t, sliceBytes text lo hi = some t := by
  obtain ⟨a, ha, ha'⟩ := idxOf?_of_mem hlo
  obtain ⟨b, hb, hb'⟩ := idxOf?_of_mem hhi
  have hab : a ≤ b := by
    rcases Nat.lt_or_ge b a with h | h
    · have := charToStr_mono text hb' ha' h; omega
    · exact h
  refine ⟨(text.drop a).take (b - a), ?_⟩
  unfold sliceBytes strToChar?
  simp only [ha, hb, if_pos hab]

/-! ## `advanceAll` on a strictly increasing list of character boundaries -/

/-- tokens tile the text (copy of `V.StreamChain`, which lives in the property file; `C16.lean` shows they agree) -/
def Chain (text : List Char) : List StreamToken → Nat → Nat → Prop
  | [], off, _ => off = utf8Len text
  | t :: r, off, pos =>
    t.offsetFrom = off ∧ off < t.offsetTo ∧ t.position = pos ∧ sliceBytes text off t.offsetTo = some t.text ∧
      Chain text r t.offsetTo (pos + 1)

theorem advanceAll_spec (text : List Char) : ∀ (offs : List Nat) (frm pos : Nat),
    frm ∈ charToStr text → (∀ o ∈ offs, o ∈ charToStr text) → (frm :: offs).Pairwise (· < ·) →
    (frm :: offs).getLast? = some (utf8Len text) →
    ∃ toks, advanceAll text offs frm pos = .ok toks ∧ Chain text toks frm pos ∧
      toks.map (·.offsetFrom) = (frm :: offs).dropLast ∧ toks.length = offs.length
  | [], frm, pos, _, _, _, hl => by
    refine ⟨[], rfl, ?_, rfl, rfl⟩
    simpa [Chain] using hl
  | to :: r, frm, pos, hf, ho, hp, hl => by
    have hp' := List.pairwise_cons.mp hp
    have hlt : frm < to := hp'.1 to List.mem_cons_self
    obtain ⟨t, ht⟩ := sliceBytes_some text hf (ho to List.mem_cons_self) hlt
    obtain ⟨toks, h1, h2, h3, h4⟩ := advanceAll_spec text r to (pos + 1) (ho to List.mem_cons_self)
      (fun o h => ho o (List.mem_cons_of_mem _ h)) hp'.2 (by rwa [List.getLast?_cons_cons] at hl)
    refine ⟨⟨frm, to, pos, t⟩ :: toks, ?_, ⟨rfl, hlt, rfl, ht, h2⟩, ?_, ?_⟩
    · simp only [advanceAll, ht, h1]
    · rw [List.map_cons, h3, List.dropLast_cons_cons]
    · rw [List.length_cons, h4, List.length_cons]

/-! ## `boundaryPos` -/

/-- the break offsets, by boundary index -/
def breaks (text : List Char) (bounds : List B) : List Nat :=
  (List.range bounds.length).filterMap fun i =>
    if bounds[i]? = some B.W then (charToStr text)[i + 1]? else none

theorem zipFilter_eq : ∀ (xs : List Nat) (bs : List B),
    ((xs.zip bs).filterMap fun (o, b) => if b = B.W then some o else none) =
      (List.range bs.length).filterMap fun i => if bs[i]? = some B.W then xs[i]? else none
  | [], bs => by
    rw [List.zip_nil_left, List.filterMap_nil]
    symm
    apply List.filterMap_eq_nil_iff.mpr
    intro i _
    simp
  | x :: xs, [] => by simp
  | x :: xs, b :: bs => by
    rw [List.zip_cons_cons, List.filterMap_cons, List.length_cons, List.range_succ_eq_map, List.filterMap_cons,
      List.filterMap_map, zipFilter_eq xs bs]
    have : ((fun i => if (b :: bs)[i]? = some B.W then (x :: xs)[i]? else none) ∘ Nat.succ) =
        fun i => if bs[i]? = some B.W then xs[i]? else none := by
      funext i
      simp only [Function.comp, Nat.succ_eq_add_one, List.getElem?_cons_succ]
    rw [this]
    by_cases hb : b = B.W
    · simp [hb]
    · simp [hb]

theorem boundaryPos_eq (text : List Char) (bounds : List B) :
    boundaryPos text bounds = breaks text bounds ++ [utf8Len text] := by
  unfold boundaryPos breaks
  simp only [zipFilter_eq, List.getElem?_drop, Nat.add_comm 1]

theorem breaks_mem (text : List Char) (bounds : List B) {x : Nat} (hx : x ∈ breaks text bounds) :
    ∃ i, i < bounds.length ∧ (charToStr text)[i + 1]? = some x := by
  obtain ⟨i, hi, he⟩ := List.mem_filterMap.mp hx
  refine ⟨i, List.mem_range.mp hi, ?_⟩
  split at he
  · exact he
  · exact absurd he (by simp)

theorem breaks_pairwise (text : List Char) (bounds : List B) : (breaks text bounds).Pairwise (· < ·) := by
  refine List.Pairwise.filterMap _ (fun i j hij x hx y hy => ?_) List.pairwise_lt_range
  split at hx
  · split at hy
    · exact charToStr_mono text hx hy (by omega)
    · exact absurd hy (by simp)
  · exact absurd hx (by simp)

/-- the token stream of `advanceAll` over `boundaryPos` -/
theorem advance_boundaryPos (text : List Char) (hne : text ≠ []) (bounds : List B)
    (hb : bounds.length + 1 ≤ text.length) :
    ∃ toks, advanceAll text (boundaryPos text bounds) 0 0 = .ok toks ∧ toks ≠ [] ∧ Chain text toks 0 0 ∧
      (toks.drop 1).map (·.offsetFrom) = breaks text bounds := by
  have hn : 0 < text.length := List.length_pos_iff.mpr hne
  have h0 := charToStr_zero text
  have hu := charToStr_last text
  have hu0 : 0 < utf8Len text := charToStr_mono text h0 hu hn
  have hbr : ∀ x ∈ breaks text bounds, x ∈ charToStr text ∧ 0 < x ∧ x < utf8Len text := by
    intro x hx
    obtain ⟨i, hi, he⟩ := breaks_mem text bounds hx
    exact ⟨List.mem_of_getElem? he, charToStr_mono text h0 he (by omega), charToStr_mono text he hu (by omega)⟩
  obtain ⟨toks, h1, h2, h3, h4⟩ := advanceAll_spec text (boundaryPos text bounds) 0 0 (List.mem_of_getElem? h0)
    (by
      intro o ho
      rw [boundaryPos_eq, List.mem_append, List.mem_singleton] at ho
      rcases ho with ho | ho
      · exact (hbr o ho).1
      · rw [ho]; exact List.mem_of_getElem? hu)
    (by
      rw [boundaryPos_eq]
      refine List.pairwise_cons.mpr ⟨fun x hx => ?_, List.pairwise_append.mpr ⟨breaks_pairwise text bounds, by simp, ?_⟩⟩
      · rw [List.mem_append, List.mem_singleton] at hx
        rcases hx with hx | hx
        · exact (hbr x hx).2.1
        · rw [hx]; exact hu0
      · intro a ha b hb
        rw [List.mem_singleton] at hb
        rw [hb]; exact (hbr a ha).2.2)
    (by rw [boundaryPos_eq, ← List.cons_append, List.getLast?_concat])
  refine ⟨toks, h1, ?_, h2, ?_⟩
  · intro he
    rw [he, boundaryPos_eq] at h4
    simp at h4
  · rw [boundaryPos_eq, ← List.cons_append, List.dropLast_concat] at h3
    rw [List.map_drop, h3, List.drop_one, List.tail_cons]

end V.C16L
