import VModel.Filters
import VProofs.Lemmas.Inv
/-! Helper lemmas for C15: `PatternMatchTagger::filter` — the collected queue, its application, and the
resulting pointwise description of the tag array. -/
namespace V.C15L

/-! ## tokens are ordered: no two tokens share an end -/

theorem specSeg_lower (rest : List B) :
    ∀ (start pos : Nat) (dirty : Bool), start ≤ pos → ∀ se ∈ specSeg rest start pos dirty, start ≤ se.1 := by
  induction rest with
  | nil =>
    intro start pos dirty _ se hse
    cases dirty
    · simp only [specSeg, Bool.false_eq_true, if_false, List.mem_singleton] at hse
      subst hse; exact Nat.le_refl _
    · simp [specSeg] at hse
  | cons b r ih =>
    intro start pos dirty h se hse
    cases b with
    | N => simp only [specSeg] at hse; exact ih start (pos + 1) dirty (by omega) se hse
    | U => simp only [specSeg] at hse; exact ih start (pos + 1) true (by omega) se hse
    | W =>
      simp only [specSeg, List.mem_append] at hse
      rcases hse with hse | hse
      · cases dirty
        · simp only [Bool.false_eq_true, if_false, List.mem_singleton] at hse
          subst hse; exact Nat.le_refl _
        · simp at hse
      · have := ih (pos + 1) (pos + 1) false (Nat.le_refl _) se hse
        omega

theorem specSeg_pairwise (rest : List B) :
    ∀ (start pos : Nat) (dirty : Bool), start ≤ pos →
      List.Pairwise (fun a b : Nat × Nat => a.2 ≤ b.1) (specSeg rest start pos dirty) := by
  induction rest with
  | nil =>
    intro start pos dirty _
    cases dirty <;> simp [specSeg]
  | cons b r ih =>
    intro start pos dirty h
    cases b with
    | N => simp only [specSeg]; exact ih start (pos + 1) dirty (by omega)
    | U => simp only [specSeg]; exact ih start (pos + 1) true (by omega)
    | W =>
      simp only [specSeg]
      rw [List.pairwise_append]
      refine ⟨by cases dirty <;> simp, ih (pos + 1) (pos + 1) false (Nat.le_refl _), ?_⟩
      intro a ha b' hb
      have hlow := specSeg_lower r (pos + 1) (pos + 1) false (Nat.le_refl _) b' hb
      cases dirty
      · simp only [Bool.false_eq_true, if_false, List.mem_singleton] at ha
        subst ha; exact hlow
      · simp at ha

theorem pairwise_mem {α : Type} {R : α → α → Prop} {l : List α} (h : List.Pairwise R l) {a b : α}
    (ha : a ∈ l) (hb : b ∈ l) : a = b ∨ R a b ∨ R b a := by
  induction l with
  | nil => simp at ha
  | cons x r ih =>
    rw [List.pairwise_cons] at h
    rw [List.mem_cons] at ha hb
    rcases ha with ha | ha <;> rcases hb with hb | hb
    · exact Or.inl (ha.trans hb.symm)
    · subst ha; exact Or.inr (Or.inl (h.1 b hb))
    · subst hb; exact Or.inr (Or.inr (h.1 a ha))
    · exact ih h.2 ha hb

/-- a token is determined by its end -/
theorem token_end_inj (bs : List B) {st st' en : Nat} (h1 : (st, en) ∈ iterTokens bs)
    (h2 : (st', en) ∈ iterTokens bs) : st = st' := by
  have r1 := iterTokens_range bs _ h1
  have r2 := iterTokens_range bs _ h2
  rw [iterTokens_eq_spec] at h1 h2
  have := pairwise_mem (specSeg_pairwise bs 0 0 false (Nat.le_refl _)) h1 h2
  simp only at r1 r2
  rcases this with h | h | h
  · injection h
  · simp only at h; omega
  · simp only at h; omega

/-! ## slot arithmetic -/

theorem slot_inj {m i j i' j' : Nat} (hj : j < m) (hj' : j' < m) (h : i * m + j = i' * m + j') :
    i = i' ∧ j = j' := by
  have key : ∀ a b x y : Nat, x < m → y < m → a * m + x = b * m + y → ¬ a < b := by
    intro a b x y hx hy e hab
    have h1 : (a + 1) * m ≤ b * m := Nat.mul_le_mul_right m hab
    rw [Nat.succ_mul] at h1
    omega
  have h1 := key i i' j j' hj hj' h
  have h2 := key i' i j' j hj' hj h.symm
  have : i = i' := by omega
  subst this
  exact ⟨rfl, by omega⟩

theorem slot_lt {n m en j len : Nat} (h0 : 0 < en) (h1 : en ≤ n) (hj : j < m) (hl : len = n * m) :
    (en - 1) * m + j < len := by
  have h2 : en * m ≤ n * m := Nat.mul_le_mul_right m h1
  have h3 : (en - 1 + 1) * m = (en - 1) * m + m := Nat.succ_mul _ _
  have h4 : en - 1 + 1 = en := by omega
  rw [h4] at h3
  omega

/-! ## the queue -/

/-- what `collect` queues: one entry per absent tag slot of a token whose surface has a rule -/
def Queued (rules : TagRules) (s : Sentence) (toks : List (Nat × Nat)) (e : Nat × Nat × Tag) : Prop :=
  ∃ (st en j : Nat) (r : List Tag), (st, en) ∈ toks ∧ e = (en - 1, j, (r[j]?).bind id) ∧ j < s.nTags ∧
    s.tags[(en - 1) * s.nTags + j]? = some none ∧ rulesGet rules ((s.text.drop st).take (en - st)) = some r

theorem collect_spec (rules : TagRules) (s : Sentence) (toks : List (Nat × Nat))
    (hr : ∀ se ∈ toks, se.1 < se.2 ∧ se.2 ≤ s.text.length) (ht : s.tags.length = s.text.length * s.nTags) :
    ∃ q, filterTagger.collect rules s toks = .ok q ∧ ∀ e, e ∈ q ↔ Queued rules s toks e := by
  induction toks with
  | nil => exact ⟨[], rfl, fun e => by simp [Queued]⟩
  | cons x r ih =>
    obtain ⟨st, en⟩ := x
    obtain ⟨rest, hc, hq⟩ := ih (fun se hse => hr se (by simp [hse]))
    have hx := hr (st, en) (by simp)
    simp only at hx
    have hsub : s.substring st en = .ok ((s.text.drop st).take (en - st)) := by
      unfold Sentence.substring
      rw [if_pos ⟨by omega, hx.2⟩]
    have htt : s.tokenTags en = .ok ((s.tags.drop ((en - 1) * s.nTags)).take s.nTags) := by
      unfold Sentence.tokenTags
      rw [if_neg (by omega), if_pos (by rw [ht]; exact Nat.mul_le_mul_right _ hx.2)]
    unfold filterTagger.collect
    simp only [hsub, htt, hc]
    refine ⟨_, rfl, fun e => ?_⟩
    rw [List.mem_append, hq e, List.mem_filterMap]
    constructor
    · rintro (⟨⟨tg, j⟩, hm, hf⟩ | ⟨st', en', j, r', hm, rest'⟩)
      · rw [List.mem_zipIdx_iff_getElem?] at hm
        simp only [List.getElem?_take, List.getElem?_drop] at hm
        have hj : j < s.nTags := by
          apply Classical.byContradiction
          intro hn; rw [if_neg hn] at hm; cases hm
        rw [if_pos hj] at hm
        cases tg with
        | some t => simp at hf
        | none =>
          cases hg : rulesGet rules ((s.text.drop st).take (en - st)) with
          | none => simp [hg] at hf
          | some r' =>
            simp only [hg, Option.isNone_none, if_true, Option.some.injEq] at hf
            exact ⟨st, en, j, r', by simp, hf.symm, hj, hm, hg⟩
      · exact ⟨st', en', j, r', by simp [hm], rest'⟩
    · rintro ⟨st', en', j, r', hm, he, hj, hn, hg⟩
      rw [List.mem_cons] at hm
      rcases hm with hm | hm
      · injection hm with e1 e2
        subst e1; subst e2
        refine Or.inl ⟨(none, j), ?_, ?_⟩
        · rw [List.mem_zipIdx_iff_getElem?]
          simp only [List.getElem?_take, List.getElem?_drop, if_pos hj]
          exact hn
        · simp only [hg, Option.isNone_none, if_true, he]
      · exact Or.inr ⟨st', en', j, r', hm, he, hj, hn, hg⟩

/-! ## applying the queue -/

theorem apply_spec (s : Sentence) (q : List (Nat × Nat × Tag)) :
    ∀ (tags : List Tag), (∀ e ∈ q, e.1 * s.nTags + e.2.1 < tags.length) →
      ∃ out, filterTagger.apply s q tags = .ok out ∧ out.length = tags.length ∧
        ∀ k, ((∀ e ∈ q, e.1 * s.nTags + e.2.1 ≠ k) → out[k]? = tags[k]?) ∧
             ((∃ e ∈ q, e.1 * s.nTags + e.2.1 = k) → ∃ e ∈ q, e.1 * s.nTags + e.2.1 = k ∧ out[k]? = some e.2.2) := by
  induction q with
  | nil =>
    intro tags _
    exact ⟨tags, rfl, rfl, fun k => ⟨fun _ => rfl, fun ⟨e, he, _⟩ => by simp at he⟩⟩
  | cons x r ih =>
    intro tags hq
    obtain ⟨i, j, t⟩ := x
    have hlt : i * s.nTags + j < tags.length := hq (i, j, t) (by simp)
    obtain ⟨out, h1, h2, h3⟩ := ih (tags.set (i * s.nTags + j) t)
      (fun e he => by rw [List.length_set]; exact hq e (by simp [he]))
    refine ⟨out, ?_, by rw [h2, List.length_set], fun k => ⟨fun hno => ?_, fun hex => ?_⟩⟩
    · simp only [filterTagger.apply, if_pos hlt]
      exact h1
    · rw [(h3 k).1 (fun e he => hno e (by simp [he])), List.getElem?_set]
      have : i * s.nTags + j ≠ k := hno (i, j, t) (by simp)
      rw [if_neg this]
    · by_cases hin : ∃ e ∈ r, e.1 * s.nTags + e.2.1 = k
      · obtain ⟨e, he, hk, ho⟩ := (h3 k).2 hin
        exact ⟨e, by simp [he], hk, ho⟩
      · have hno : ∀ e ∈ r, e.1 * s.nTags + e.2.1 ≠ k := fun e he hk => hin ⟨e, he, hk⟩
        obtain ⟨e, he, hk⟩ := hex
        rw [List.mem_cons] at he
        rcases he with he | he
        · subst he
          simp only at hk
          refine ⟨(i, j, t), by simp, hk, ?_⟩
          rw [(h3 k).1 hno, List.getElem?_set, if_pos hk, if_pos hlt]
        · exact absurd hk (hno e he)

/-! ## the filter -/

/-- the statement of `C15_tagger`, from the clauses of the invariant it needs -/
theorem tagger_spec (rules : TagRules) (s : Sentence) (hb : s.bounds.length + 1 = s.text.length)
    (ht : s.tags.length = s.text.length * s.nTags) :
    ∃ tags, filterTagger rules s = .ok { s with tags := tags } ∧ tags.length = s.tags.length ∧
      (∀ (k : Nat) (t : List Char), s.tags[k]? = some (some t) → tags[k]? = some (some t)) ∧
      (∀ (k : Nat), k < s.tags.length → tags[k]? ≠ s.tags[k]? →
        ∃ (st en j : Nat) (r : List Tag), (st, en) ∈ iterTokens s.bounds ∧ j < s.nTags ∧ k = (en - 1) * s.nTags + j ∧
          rulesGet rules ((s.text.drop st).take (en - st)) = some r ∧ tags[k]? = some ((r[j]?).bind id)) ∧
      (∀ (st en j : Nat) (r : List Tag), (st, en) ∈ iterTokens s.bounds → j < s.nTags →
          s.tags[(en - 1) * s.nTags + j]? = some none →
          rulesGet rules ((s.text.drop st).take (en - st)) = some r →
          tags[(en - 1) * s.nTags + j]? = some ((r[j]?).bind id)) := by
  have hrange : ∀ se ∈ iterTokens s.bounds, se.1 < se.2 ∧ se.2 ≤ s.text.length := by
    intro se hse
    have := iterTokens_range s.bounds se hse
    omega
  obtain ⟨q, hc, hq⟩ := collect_spec rules s (iterTokens s.bounds) hrange ht
  have hin : ∀ e ∈ q, e.1 * s.nTags + e.2.1 < s.tags.length := by
    intro e he
    obtain ⟨st, en, j, r, hm, rfl, hj, _, _⟩ := (hq e).1 he
    have := hrange _ hm
    simp only at this ⊢
    exact slot_lt (by omega) this.2 hj ht
  obtain ⟨out, ha, hlen, hk⟩ := apply_spec s q s.tags hin
  refine ⟨out, ?_, hlen, ?_, ?_, ?_⟩
  · simp only [filterTagger, hc, ha]
  · intro k t hkt
    apply Classical.byContradiction
    intro hne
    have hex : ∃ e ∈ q, e.1 * s.nTags + e.2.1 = k := by
      apply Classical.byContradiction
      intro hno
      exact hne (by rw [(hk k).1 (fun e he h => hno ⟨e, he, h⟩)]; exact hkt)
    obtain ⟨e, he, hslot⟩ := hex
    obtain ⟨st, en, j, r, _, rfl, _, hn, _⟩ := (hq e).1 he
    simp only at hslot
    rw [hslot, hkt] at hn
    cases hn
  · intro k _ hne
    have hex : ∃ e ∈ q, e.1 * s.nTags + e.2.1 = k := by
      apply Classical.byContradiction
      intro hno
      exact hne ((hk k).1 (fun e he h => hno ⟨e, he, h⟩))
    obtain ⟨e, he, hslot, ho⟩ := (hk k).2 hex
    obtain ⟨st, en, j, r, hm, rfl, hj, _, hg⟩ := (hq e).1 he
    exact ⟨st, en, j, r, hm, hj, hslot.symm, hg, ho⟩
  · intro st en j r hm hj hn hg
    have hmem : ((en - 1, j, (r[j]?).bind id) : Nat × Nat × Tag) ∈ q :=
      (hq _).2 ⟨st, en, j, r, hm, rfl, hj, hn, hg⟩
    obtain ⟨e, he, hslot, ho⟩ := (hk ((en - 1) * s.nTags + j)).2 ⟨_, hmem, rfl⟩
    obtain ⟨st', en', j', r', hm', rfl, hj', _, hg'⟩ := (hq e).1 he
    simp only at hslot ho
    obtain ⟨e1, e2⟩ := slot_inj hj' hj hslot
    have r1 := hrange _ hm
    have r2 := hrange _ hm'
    simp only at r1 r2
    have e3 : en' = en := by omega
    subst e2; subst e3
    have e4 := token_end_inj s.bounds hm' hm
    subst e4
    rw [hg] at hg'
    injection hg' with hg'
    subst hg'
    exact ho

/-- a second pass of the tagger changes nothing: present tags stay, and an absent slot of a token with a rule was
already given the rule's entry (possibly absent) by the first pass -/
theorem tagger_idem (rules : TagRules) (s s' : Sentence) (hb : s.bounds.length + 1 = s.text.length)
    (ht : s.tags.length = s.text.length * s.nTags) (hf : filterTagger rules s = .ok s') :
    filterTagger rules s' = .ok s' := by
  obtain ⟨tags, e, hl, hA, _, hC⟩ := tagger_spec rules s hb ht
  rw [e] at hf
  injection hf with hf
  subst hf
  have ht' : ({ s with tags := tags } : Sentence).tags.length =
      ({ s with tags := tags } : Sentence).text.length * ({ s with tags := tags } : Sentence).nTags := by
    show tags.length = s.text.length * s.nTags
    rw [hl]; exact ht
  obtain ⟨tags', e', hl', hA', hB', _⟩ := tagger_spec rules { s with tags := tags } hb ht'
  have hl'' : tags'.length = tags.length := hl'
  rw [e']
  have : tags' = tags := by
    apply List.ext_getElem?
    intro k
    apply Classical.byContradiction
    intro hne
    have hk : k < tags.length := by
      apply Classical.byContradiction
      intro hn
      apply hne
      rw [List.getElem?_eq_none (by omega), List.getElem?_eq_none (by omega)]
    obtain ⟨st, en, j, r, hm, hj, rfl, hg, ho⟩ := hB' k hk hne
    have hks : (en - 1) * s.nTags + j < s.tags.length := by rw [← hl]; exact hk
    have hs := List.getElem?_eq_getElem hks
    cases hx : s.tags[(en - 1) * s.nTags + j] with
    | some t =>
      rw [hx] at hs
      have h1 := hA _ t hs
      have h2 := hA' _ t h1
      exact hne (h2.trans h1.symm)
    | none =>
      rw [hx] at hs
      have h1 := hC st en j r hm hj hs hg
      exact hne (ho.trans h1.symm)
  rw [this]

end V.C15L
