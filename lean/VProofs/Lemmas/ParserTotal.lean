import VModel.Sentence
/-! Helper lemmas for C05: the two annotated parsers never panic and return a well-shaped `Parsed`. -/
namespace V

/-- `r` neither panicked nor left its contract, and if it returned a value then `P` holds of it -/
def Res.All {α : Type} (P : α → Prop) : Res α → Prop
  | .ok a => P a
  | .err _ => True
  | .panic _ => False
  | .ub _ => False

theorem Res.All.safe {α : Type} {P : α → Prop} {r : Res α} (h : r.All P) : r.Safe := by
  cases r <;> simp_all [Res.All, Res.Safe]

theorem Res.All.of_ok {α : Type} {P : α → Prop} {r : Res α} {a : α} (h : r.All P) (e : r = .ok a) : P a := by
  subst e; exact h

theorem Res.All.mono {α : Type} {P Q : α → Prop} {r : Res α} (h : r.All P) (hpq : ∀ a, P a → Q a) : r.All Q := by
  cases r with
  | ok a => exact hpq a h
  | err e => trivial
  | panic p => exact h
  | ub p => exact h

theorem ne_nil_of_length_eq {α β : Type} {a : List α} {b : List β} (h : a.length = b.length) (hb : b ≠ []) :
    a ≠ [] := by
  intro e
  subst e
  cases b with
  | nil => exact hb rfl
  | cons x xs => simp at h

/-! ## `pushLast`, `maxLen`, `padTags` -/

theorem pushLast_some (tt : List (List (List Char))) (t : List Char) (h : tt ≠ []) :
    ∃ tt', pushLast tt t = some tt' ∧ tt'.length = tt.length := by
  induction tt with
  | nil => exact absurd rfl h
  | cons x r ih =>
    cases r with
    | nil => exact ⟨_, rfl, rfl⟩
    | cons y r' =>
      obtain ⟨tt', h1, h2⟩ := ih (by simp)
      refine ⟨x :: tt', ?_, ?_⟩
      · simp [pushLast, h1]
      · simp [h2]

theorem foldl_max_bound (tt : List (List (List Char))) (acc : Nat) :
    acc ≤ tt.foldl (fun acc x => max acc x.length) acc ∧
    ∀ ts ∈ tt, ts.length ≤ tt.foldl (fun acc x => max acc x.length) acc := by
  induction tt generalizing acc with
  | nil => simp
  | cons x r ih =>
    simp only [List.foldl_cons]
    obtain ⟨h1, h2⟩ := ih (max acc x.length)
    refine ⟨by omega, ?_⟩
    intro ts hts
    rcases List.mem_cons.mp hts with rfl | hts
    · omega
    · exact h2 ts hts

theorem le_maxLen (tt : List (List (List Char))) : ∀ ts ∈ tt, ts.length ≤ maxLen tt :=
  (foldl_max_bound tt 0).2

theorem padTags_length (n : Nat) (tt : List (List (List Char))) (h : ∀ ts ∈ tt, ts.length ≤ n) :
    (padTags n tt).length = tt.length * n := by
  induction tt with
  | nil => simp [padTags]
  | cons x r ih =>
    have hx : x.length ≤ n := h x (by simp)
    have hr := ih (fun ts hts => h ts (by simp [hts]))
    unfold padTags at hr ⊢
    simp only [List.flatMap_cons, List.length_append, List.length_map, List.length_replicate, List.length_cons, hr,
      Nat.succ_mul]
    omega

theorem padTags_maxLen_length (tt : List (List (List Char))) :
    (padTags (maxLen tt) tt).length = tt.length * maxLen tt :=
  padTags_length _ _ (le_maxLen tt)

/-! ## the shape of an accepted parse -/

/-- what both annotated parsers guarantee about an accepted input -/
structure GoodParsed (p : Parsed) : Prop where
  text_ne : p.text ≠ []
  bounds_len : p.bounds.length + 1 = p.text.length
  tags_len : ∃ n, p.tags.length = p.text.length * n

theorem GoodParsed.divTags {p : Parsed} (h : GoodParsed p) :
    divTags p.tags p.text = .ok (p.tags.length / p.text.length) ∧
    p.tags.length = p.text.length * (p.tags.length / p.text.length) := by
  obtain ⟨h1, _, n, h3⟩ := h
  have hpos : 0 < p.text.length := List.length_pos_iff.mpr h1
  refine ⟨?_, ?_⟩
  · unfold V.divTags
    rw [if_neg (by omega)]
  · rw [h3, Nat.mul_div_cancel_left n hpos]

theorem goodParsed_mk (text : List Char) (bounds : List B) (tt : List (List (List Char)))
    (hne : text ≠ []) (hb : bounds.length + 1 = text.length) (ht : tt.length = text.length) :
    GoodParsed ⟨text, bounds, padTags (maxLen tt) tt⟩ :=
  ⟨hne, hb, maxLen tt, by simp only [padTags_maxLen_length, ht]⟩

/-! ## `parse_tokenized` -/

structure TokInv (s : TokSt) : Prop where
  tmp_len : s.tagsTmp.length = s.text.length
  tag_ne : s.tagStr.isSome → s.text ≠ []
  bounds_len : s.bounds.length = s.text.length - 1

theorem tokInv_init : TokInv {} := ⟨rfl, by simp, rfl⟩

theorem tokStep_all (s : TokSt) (c : Char) (h : TokInv s) : (tokStep s c).All TokInv := by
  obtain ⟨h1, h2, h3⟩ := h
  unfold tokStep
  split
  · exact ⟨h1, h2, h3⟩
  · split
    · split
      · trivial
      · split
        · trivial
        · split
          · exact ⟨h1, h2, h3⟩
          · next t ht =>
            have hne : s.text ≠ [] := h2 (by simp [ht])
            obtain ⟨tt', e, hl⟩ := pushLast_some s.tagsTmp t (ne_nil_of_length_eq h1 hne)
            simp only [e]
            exact ⟨by simpa [hl] using h1, by simp, h3⟩
    · split
      · split
        · trivial
        · split
          · next hne _ _ =>
            have hne' : s.text ≠ [] := by simp at hne; exact hne.1
            exact ⟨h1, fun _ => hne', h3⟩
          · next t ht =>
            have hne : s.text ≠ [] := h2 (by simp [ht])
            obtain ⟨tt', e, hl⟩ := pushLast_some s.tagsTmp t (ne_nil_of_length_eq h1 hne)
            simp only [e]
            exact ⟨by simpa [hl] using h1, fun _ => hne, h3⟩
      · split
        · trivial
        · split
          · next t ht =>
            exact ⟨h1, fun _ => h2 (by simp [ht]), h3⟩
          · refine ⟨by simp [h1], by simp, ?_⟩
            by_cases ht : s.text = []
            · simp [ht, h3]
            · have hpos : 0 < s.text.length := List.length_pos_iff.mpr ht
              simp [ht, h3]
              omega

theorem tokRun_all (cs : List Char) (s : TokSt) (h : TokInv s) : (tokRun s cs).All TokInv := by
  induction cs generalizing s with
  | nil => exact h
  | cons c cs ih =>
    have := tokStep_all s c h
    unfold tokRun
    cases hs : tokStep s c with
    | ok s' => rw [hs] at this; exact ih s' this
    | err e => trivial
    | panic p => rw [hs] at this; exact this
    | ub p => rw [hs] at this; exact this

theorem parseTokenized_all (x : List Char) : (parseTokenized x).All GoodParsed := by
  unfold parseTokenized
  split
  · trivial
  · have := tokRun_all x {} tokInv_init
    cases hs : tokRun {} x with
    | ok s =>
      rw [hs] at this
      obtain ⟨h1, h2, h3⟩ := this
      simp only
      split
      · trivial
      · split
        · trivial
        · next hne =>
          have hpos : 0 < s.text.length := List.length_pos_iff.mpr hne
          split
          · exact goodParsed_mk _ _ _ hne (by omega) h1
          · next t ht =>
            obtain ⟨tt', e, hl⟩ := pushLast_some s.tagsTmp t (ne_nil_of_length_eq h1 hne)
            simp only [e]
            exact goodParsed_mk _ _ _ hne (by omega) (by omega)
    | err e => trivial
    | panic p => rw [hs] at this; exact this
    | ub p => rw [hs] at this; exact this

/-! ## `parse_partial_annotation` -/

structure PartInv (s : PartSt) : Prop where
  tmp_len : s.tagsTmp.length = s.text.length
  tag_ne : s.tagStr.isSome → s.isChar = false
  bounds_len : s.bounds.length + (if s.isChar then 0 else 1) = s.text.length

theorem partInv_init : PartInv {} := ⟨rfl, by simp, rfl⟩

theorem PartInv.text_ne {s : PartSt} (h : PartInv s) (hc : s.isChar = false) : s.text ≠ [] := by
  have := h.bounds_len
  intro e
  simp [hc, e] at this

theorem partBoundary_all (s : PartSt) (b : B) (h : PartInv s) (hc : s.isChar = false) :
    (partBoundary s b).All PartInv := by
  have hne := h.text_ne hc
  obtain ⟨h1, h2, h3⟩ := h
  simp only [hc] at h3
  unfold partBoundary
  split
  · exact ⟨h1, by simp_all, by simpa using h3⟩
  · next t ht =>
    obtain ⟨tt', e, hl⟩ := pushLast_some s.tagsTmp t (ne_nil_of_length_eq h1 hne)
    simp only [e]
    exact ⟨by simpa [hl] using h1, by simp, by simpa using h3⟩

theorem partStep_all (s : PartSt) (c : Char) (h : PartInv s) : (partStep s c).All PartInv := by
  unfold partStep
  split
  · next hc =>
    obtain ⟨h1, h2, h3⟩ := h
    split
    · trivial
    · refine ⟨by simp [h1], ?_, ?_⟩
      · intro ht
        have := h2 ht
        simp [hc] at this
      · simpa [hc] using h3
  · next hc =>
    have hc : s.isChar = false := by simpa using hc
    split
    · exact ⟨h.1, h.2, h.3⟩
    · split
      · exact partBoundary_all s _ h hc
      · split
        · exact partBoundary_all s _ h hc
        · split
          · exact partBoundary_all s _ h hc
          · have hne := h.text_ne hc
            obtain ⟨h1, h2, h3⟩ := h
            split
            · split
              · exact ⟨h1, fun _ => hc, h3⟩
              · next t ht =>
                obtain ⟨tt', e, hl⟩ := pushLast_some s.tagsTmp t (ne_nil_of_length_eq h1 hne)
                simp only [e]
                exact ⟨by simpa [hl] using h1, fun _ => hc, h3⟩
            · split
              · exact ⟨h1, fun _ => hc, h3⟩
              · trivial

theorem partRun_all (cs : List Char) (s : PartSt) (h : PartInv s) : (partRun s cs).All PartInv := by
  induction cs generalizing s with
  | nil => exact h
  | cons c cs ih =>
    have := partStep_all s c h
    unfold partRun
    cases hs : partStep s c with
    | ok s' => rw [hs] at this; exact ih s' this
    | err e => trivial
    | panic p => rw [hs] at this; exact this
    | ub p => rw [hs] at this; exact this

theorem parsePartial_all (x : List Char) : (parsePartial x).All GoodParsed := by
  unfold parsePartial
  split
  · trivial
  · have := partRun_all x {} partInv_init
    cases hs : partRun {} x with
    | ok s =>
      rw [hs] at this
      simp only
      split
      · trivial
      · next hc =>
        have hc : s.isChar = false := by simpa using hc
        have hne := this.text_ne hc
        obtain ⟨h1, h2, h3⟩ := this
        simp only [hc] at h3
        split
        · exact goodParsed_mk _ _ _ hne (by simpa using h3) h1
        · next t ht =>
          obtain ⟨tt', e, hl⟩ := pushLast_some s.tagsTmp t (ne_nil_of_length_eq h1 hne)
          simp only [e]
          exact goodParsed_mk _ _ _ hne (by simpa using h3) (by omega)
    | err e => trivial
    | panic p => rw [hs] at this; exact this
    | ub p => rw [hs] at this; exact this

end V
