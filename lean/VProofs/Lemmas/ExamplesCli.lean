import VProofs.Lemmas.Examples
import VProofs.C06
/-!
# ExamplesCli — the two example programs (`VModel/Examples.lean`) against the `predict` tool (`VModel/Cli.lean`):
helper lemmas for the cross-component theorems at the end of `VProofs/C20.lean`
-/
namespace V.ExCli
open V V.C20L V.ExL

/-! ## the embedded device = `predict --no-norm --wsconst D` -/

/-- the flags of `predict --no-norm --wsconst D` -/
def embeddedFlags : PredictFlags :=
  { noNorm := true, predictTags := false, scores := false, tagScores := false, wsconst := ['D'] }

theorem embedded_eq_tool (p : Predictor) (text : List Char) (hne : text ≠ []) (hnul : '\x00' ∉ text) :
    (embeddedTokenize p text).map (· ++ ['\n']) = libLine' embeddedFlags p [PostFilter.ws 1] text := by
  have h0 := C16L.fromRaw_ok text hne hnul
  unfold embeddedTokenize libLine' origCopy embeddedFlags applyWsconst
  simp only [if_true, h0, Bool.false_eq_true, if_false, Bool.and_false, applyPostFilters]
  cases p.predict 0 (Sentence.mkRaw text) with
  | ok s1 =>
    simp only [bindR_ok]
    cases filterWsConst 1 s1 with
    | ok s2 =>
      simp only [bindR_ok]
      cases s2.writeTokenized with
      | ok w => simp only [bindR_ok, Res.map, List.append_nil]
      | err e => rfl
      | panic q => rfl
      | ub q => rfl
    | err e => rfl
    | panic q => rfl
    | ub q => rfl
  | err e => rfl
  | panic q => rfl
  | ub q => rfl

theorem embedded_rejected (p : Predictor) (text : List Char) (h : text = [] ∨ '\x00' ∈ text) :
    embeddedTokenize p text = .panic "Sentence::from_raw(text).unwrap()" ∧
    libLine' embeddedFlags p [PostFilter.ws 1] text = .ok ['\n'] := by
  have h0 : Sentence.fromRaw text = .err .invalidArgument := by
    rcases raw_cases text with ⟨h1, _⟩ | ⟨⟨hne, hnul⟩, _, _⟩
    · exact h1
    · rcases h with h | h
      · exact absurd h hne
      · exact absurd h hnul
  constructor
  · unfold embeddedTokenize
    simp only [h0]
  · unfold libLine' embeddedFlags
    simp only [if_true, h0]

/-! ## the tags a tag-predicting predictor can write are tags of the model -/

theorem firstMax_lt : ∀ (l : List Int), l ≠ [] → firstMax l < l.length
  | [], h => absurd rfl h
  | x :: r, _ => by
    unfold firstMax
    split
    · simp
    · next hall =>
      have hr : r ≠ [] := by
        intro c
        subst c
        simp at hall
      have := firstMax_lt r hr
      simp only [List.length_cons]
      omega

theorem pick_mem : ∀ (tags : List (List (List Char))) (sc : List Int) (t : List Char),
    some t ∈ specPickTags tags sc → ∃ cands ∈ tags, t ∈ cands
  | [], _, t, h => by simp [specPickTags] at h
  | cands :: r, sc, t, h => by
    unfold specPickTags at h
    split at h
    · next h2 =>
      rcases List.mem_cons.mp h with h | h
      · have hi : firstMax (sc.take cands.length) < cands.length := by
          by_cases he : sc.take cands.length = []
          · rw [he]
            show 0 < cands.length
            omega
          · have h1 := firstMax_lt _ he
            have h2 : (sc.take cands.length).length ≤ cands.length := by
              rw [List.length_take]
              exact Nat.min_le_left _ _
            omega
        injection h with h
        refine ⟨cands, List.mem_cons_self, ?_⟩
        rw [h, List.getD_eq_getElem?_getD, List.getElem?_eq_getElem hi]
        exact List.getElem_mem hi
      · obtain ⟨c, hc, ht⟩ := pick_mem r _ t h
        exact ⟨c, List.mem_cons_of_mem _ hc, ht⟩
    · rcases List.mem_cons.mp h with h | h
      · exact ⟨cands, List.mem_cons_self, List.mem_of_mem_head? h.symm⟩
      · obtain ⟨c, hc, ht⟩ := pick_mem r _ t h
        exact ⟨c, List.mem_cons_of_mem _ hc, ht⟩

theorem tokenTags_mem (m : WModel) (text : List Char) (st en : Nat) (t : List Char)
    (h : some t ∈ specTokenTags m text st en) : ∃ tm ∈ m.tagModels, ∃ cands ∈ tm.tags, t ∈ cands := by
  unfold specTokenTags at h
  split at h
  · cases (List.mem_replicate.mp h).2
  · next tm htm =>
    rcases List.mem_append.mp h with h | h
    · exact ⟨tm, C06L.tagModelOf_mem m _ tm htm, pick_mem _ _ t h⟩
    · cases (List.mem_replicate.mp h).2

theorem allTags_mem (m : WModel) (text : List Char) (bs : List B) (t : List Char)
    (h : some t ∈ specAllTags m text bs) : ∃ tm ∈ m.tagModels, ∃ cands ∈ tm.tags, t ∈ cands := by
  unfold specAllTags at h
  obtain ⟨i, _, h⟩ := List.mem_flatMap.mp h
  split at h
  · exact tokenTags_mem m text _ _ t h
  · cases (List.mem_replicate.mp h).2

/-! ## the browser worker = `predict --predict-tags --wsconst GD` -/

/-- the flags of `predict --predict-tags --wsconst GD` -/
def wasmFlags : PredictFlags :=
  { noNorm := false, predictTags := true, scores := false, tagScores := false, wsconst := ['G', 'D'] }

/-- the stages that the worker and the tool share, on the normalised message: the sentence `s` after `fill_tags` is
consistent, has no unknown boundary, and carries only tags of the model -/
theorem wasm_stage (cfg : Cfg) (m : WModel) (hm : WFModel m) (ht : WFTags m) (p : Predictor)
    (hp : Predictor.new cfg m true = .ok p) (msg : List Char) (hne : msg ≠ []) (hnul : '\x00' ∉ msg)
    (cl : List Nat) (hpos : ∀ l ∈ cl, 1 ≤ l) (hsum : cl.sum = msg.length) :
    ∃ s1 s2 s,
      Sentence.fromRaw (Gen.fullwidth msg) = .ok (Sentence.mkRaw (Gen.fullwidth msg)) ∧
      p.predict 0 (Sentence.mkRaw (Gen.fullwidth msg)) = .ok s1 ∧
      filterGraphemes cl s1 = .ok s2 ∧
      (∃ s3, filterWsConst 1 s2 = .ok s3 ∧ p.predictTags s3 = .ok s) ∧
      Fin wasmFlags (Gen.fullwidth msg) s ∧
      (∀ t, some t ∈ s.tags → ∃ tm ∈ m.tagModels, ∃ cands ∈ tm.tags, t ∈ cands) := by
  have hx_ne := C16L.fullwidth_ne_nil msg hne
  have hx_nul := C16L.fullwidth_no_nul msg hnul
  have hlen := C16L.fullwidth_length msg
  obtain ⟨s1, e1, hP⟩ := predict_stage cfg m hm true p hp _ hx_ne
  obtain ⟨bs2, e2, l2, p2⟩ := C15_graphemes cl s1 hP.inv hpos (by rw [hsum, hP.text, hlen])
  have hU2 : ∀ b ∈ bs2, b ≠ B.U := C16L.noU_pointwise hP.noU l2 fun i hi => ⟨_, p2 i hi, by
    split
    · exact Or.inr (Or.inr rfl)
    · exact Or.inr (Or.inl rfl)⟩
  have hi2 : Inv ({ s1 with bounds := bs2 } : Sentence) := Inv.ofC (C15L.invC_bounds hP.inv.toC l2)
  obtain ⟨bs3, e3, l3, p3⟩ := C15_wsconst 1 _ hi2
  have hU3 : ∀ b ∈ bs3, b ≠ B.U := C16L.noU_pointwise hU2 l3 fun i hi => ⟨_, p3 i hi, by
    split
    · exact Or.inr (Or.inl rfl)
    · exact Or.inr (Or.inr rfl)⟩
  have e3' : filterWsConst 1 ({ s1 with bounds := bs2 } : Sentence) = .ok ({ s1 with bounds := bs3 } : Sentence) := e3
  obtain ⟨s3, e4, hF⟩ := tags_stage cfg m hm ht p hp ⟨false, true, false, p.storeTagScores, []⟩ rfl _ hx_ne s1 e1 hP bs3
    (l3.trans l2) hU3
  have e4' : p.predictTags ({ s1 with bounds := bs3 } : Sentence) = .ok s3 := e4
  have hF' : Fin wasmFlags (Gen.fullwidth msg) s3 :=
    ⟨hF.inv, hF.text, hF.noU, hF.sc, fun c => absurd c (by decide), fun c => absurd c (by decide)⟩
  refine ⟨s1, _, s3, C16L.fromRaw_ok _ hx_ne hx_nul, e1, e2, ⟨_, e3', e4'⟩, hF', ?_⟩
  -- the tags
  obtain ⟨_, htp, hnt, _⟩ := C06L.new_tag_ok cfg m p hp
  rcases Nat.eq_zero_or_pos (specNTags m) with hn | hn
  · have e0 : p.predictTags ({ s1 with bounds := bs3 } : Sentence) = .ok ({ s1 with
          bounds := bs3
          tagScores := if p.storeTagScores then List.replicate s1.types.length none else [] } : Sentence) := by
      unfold Predictor.predictTags
      simp only [htp, hnt, hn, if_true]
    have := e4'.symm.trans e0
    injection this with this
    intro t h
    rw [this] at h
    have h' : some t ∈ s1.tags := h
    rw [hP.tags] at h'
    cases h'
  · have e0 := (C06_predictTags cfg m hm ht p hp p.storeTagScores _ s1 (sentOK_mkRaw _ hx_ne) 0 e1 bs3 (l3.trans l2) hn).2
    have e0' : p.predictTags ({ s1 with bounds := bs3 } : Sentence) = _ := e0
    have := e4'.symm.trans e0'
    injection this with this
    intro t h
    rw [this] at h
    exact allTags_mem m _ bs3 t h

theorem trimNone_append : ∀ (l : List Tag), ∃ k, l = trimNone l ++ List.replicate k none
  | [] => ⟨0, rfl⟩
  | t :: ts => by
    obtain ⟨k, hk⟩ := trimNone_append ts
    unfold trimNone
    cases hr : trimNone ts with
    | nil =>
      rw [hr, List.nil_append] at hk
      cases t with
      | none =>
        refine ⟨k + 1, ?_⟩
        simp only [Option.isSome_none, Bool.false_eq_true, if_false, List.nil_append, List.replicate_succ]
        rw [← hk]
      | some x =>
        refine ⟨k, ?_⟩
        simp only [Option.isSome_some, if_true, List.cons_append, List.nil_append]
        rw [← hk]
    | cons a r =>
      rw [hr] at hk
      refine ⟨k, ?_⟩
      show t :: ts = (t :: a :: r) ++ List.replicate k none
      rw [List.cons_append, ← hk]

/-- the worker's answer and the line of the tool: same characters, same segmentation, same tags -/
theorem wasm_eq_tool (cfg : Cfg) (m : WModel) (hm : WFModel m) (ht : WFTags m)
    (htag : ∀ tm ∈ m.tagModels, ∀ cands ∈ tm.tags, ∀ t ∈ cands, t ≠ [] ∧ '\x00' ∉ t)
    (p : Predictor) (hp : Predictor.new cfg m true = .ok p) (w : WasmWorker) (msg : List Char) (hne : msg ≠ [])
    (hnul : '\x00' ∉ msg) (cl : List Nat) (hpos : ∀ l ∈ cl, 1 ≤ l) (hsum : cl.sum = msg.length) :
    ∃ w' toks n line q,
      wasmReceived p cl w msg = .ok (w', toks, n) ∧
      libLine' wasmFlags p [PostFilter.graphemes cl, PostFilter.ws 1] msg = .ok (line ++ ['\n']) ∧
      parseTokenized line = .ok q ∧ q.text = msg ∧
      toks.map (·.1) = (iterTokens q.bounds).map (fun se => (q.text.drop se.1).take (se.2 - se.1)) ∧
      ∀ i, i < toks.length → ∃ k,
        (toks.getD i ([], [])).2 =
          (tokenTagsTrim q.tags (q.tags.length / q.text.length) ((iterTokens q.bounds).getD i (0, 0)).2).map (·.getD [])
            ++ List.replicate k [] := by
  obtain ⟨s1, s2, s, e0, e1, e2, ⟨s3, e3, e4⟩, hF, htags⟩ := wasm_stage cfg m hm ht p hp msg hne hnul cl hpos hsum
  obtain ⟨s', w', toks, hlib, hrecv, htoks, _⟩ := wasm_answer cfg m hm ht p hp w msg hne hnul cl hpos hsum
  have hs : s' = s := by
    have h : wasmLib p cl (Gen.fullwidth msg) = .ok s := by simp only [wasmLib, e0, e1, e2, e3, e4, bindR_ok]
    rw [h] at hlib
    injection hlib with h
    exact h.symm
  subst hs
  obtain ⟨shown, wl, sc, ts, c1, c2, c3, c4, hinv, htx, hbd, htg, hsc, hts⟩ := tail_ok wasmFlags msg hne hnul s' hF
  have hsc0 := hsc rfl
  have hts0 := hts rfl
  subst hsc0 hts0
  -- the tag count of the shown sentence
  have hnt : shown.nTags = s'.nTags := by
    have c := c1
    unfold origCopy at c
    have n1 : wasmFlags.noNorm = false := rfl
    simp only [n1, Bool.false_eq_true, if_false, C16L.fromRaw_ok msg hne hnul] at c
    split at c
    · cases c
    · split at c
      · cases c
      · injection c with c
        rw [← c]
  have hwf : WFTok shown :=
    ⟨hinv.text_ne, by rw [htx]; exact fun c hc e => hnul (e ▸ hc), hinv.bounds_len, by rw [hbd]; exact hF.noU,
      hinv.tags_len, fun t h => by
        rw [htg] at h
        obtain ⟨tm, h1, c, h2, h3⟩ := htags t h
        obtain ⟨g1, g2⟩ := htag tm h1 c h2 t h3
        exact ⟨g1, fun c hc e => g2 (e ▸ hc)⟩⟩
  obtain ⟨wl', q, hw, hq, hqt, hqb, hqtags⟩ := C03_roundtrip shown hwf
  rw [c2] at hw
  injection hw with hw
  subst hw
  have hb : q.bounds = s'.bounds := hqb.trans hbd
  refine ⟨w', toks, s'.nTags, wl, q, hrecv, ?_, hq, hqt.trans htx, ?_, ?_⟩
  · have n1 : wasmFlags.noNorm = false := rfl
    have n2 : wasmFlags.predictTags = true := rfl
    have n3 : wasmFlags.tagScores = false := rfl
    have n4 : wasmFlags.scores = false := rfl
    have e23 : applyPostFilters [PostFilter.graphemes cl, PostFilter.ws 1] s1 = .ok s3 := by
      simp only [applyPostFilters, e2, e3]
    simp only [libLine', n1, n2, n3, n4, Bool.false_and, Bool.false_eq_true, if_false, if_true, e0, e1, bindR_ok,
      applyWsconst, e23, e4, c1, c2, List.append_nil]
  · rw [htoks, List.map_map, hb, hqt, htx]
    rfl
  · intro i hi
    have hlen : toks.length = (iterTokens s'.bounds).length := by rw [htoks, List.length_map]
    have hi' : i < (iterTokens s'.bounds).length := by omega
    have hmem : (iterTokens s'.bounds)[i] ∈ iterTokens shown.bounds := by
      rw [hbd]
      exact List.getElem_mem hi'
    have hrow := hqtags _ hmem
    obtain ⟨k, hk⟩ := trimNone_append
      ((s'.tags.drop ((((iterTokens s'.bounds)[i]).2 - 1) * s'.nTags)).take s'.nTags)
    refine ⟨k, ?_⟩
    rw [hb, List.getD_eq_getElem?_getD, List.getD_eq_getElem?_getD, List.getElem?_eq_getElem hi',
      List.getElem?_eq_getElem hi]
    simp only [Option.getD_some]
    rw [hrow]
    simp only [htoks, List.getElem_map]
    unfold tokenTagsTrim
    rw [htg, hnt]
    conv => lhs; rw [hk]
    rw [List.map_append, List.map_replicate]
    rfl

end V.ExCli
