import VModel.Spec
import VProofs.Lemmas.TagBoundBuild
import VProofs.Lemmas.TagBoundRun
/-!
# `Predictor.new(model, true)` and `fill_tags` stay within the tag mass of the model (for the C06 overflow bound): assembly
-/
namespace V.C06B
open C01L C01B C06L Merge

theorem hT_char (m : WModel) (hW : WFT m) :
    ∀ i tmc, (m.tagModels.map (·.charNgrams))[i]? = some tmc → ∀ d ∈ tmc, ∀ w ∈ d.weights,
      w.weights.length = Lm m i := by
  intro i tmc hi d hd w hw
  rw [List.getElem?_map] at hi
  cases htm : m.tagModels[i]? with
  | none => rw [htm] at hi; cases hi
  | some tm =>
    rw [htm] at hi
    simp only [Option.map_some, Option.some.injEq] at hi
    subst hi
    rw [Lm_eq m i tm htm]
    exact hW.char_ok tm (List.mem_of_getElem? htm) d hd w hw

theorem hT_type (m : WModel) (hW : WFT m) :
    ∀ i tmc, (m.tagModels.map (·.typeNgrams))[i]? = some tmc → ∀ d ∈ tmc, ∀ w ∈ d.weights,
      w.weights.length = Lm m i := by
  intro i tmc hi d hd w hw
  rw [List.getElem?_map] at hi
  cases htm : m.tagModels[i]? with
  | none => rw [htm] at hi; cases hi
  | some tm =>
    rw [htm] at hi
    simp only [Option.map_some, Option.some.injEq] at hi
    subst hi
    rw [Lm_eq m i tm htm]
    exact hW.type_ok tm (List.mem_of_getElem? htm) d hd w hw

/-- `predOK_of_new0` for a model with at least one tag model (its tag categories may all be empty) -/
theorem predOK_of_new_ne (cfg : Cfg) (m : WModel) (hW : WFT m)
    (p : Predictor) (hp : Predictor.new cfg m true = .ok p) (hne : m.tagModels ≠ []) : PredOK cfg m p := by
  obtain ⟨hcfg, h1, h2, h3, h4⟩ := new_tag_ok cfg m p hp
  exact ⟨h1, h2,
    charScorer_tag0 cfg hcfg m _ (by simpa using hne) (Lm m) (hT_char m hW) p.charScorer h3,
    typeScorer_tag0 cfg hcfg m _ (by simpa using hne) (Lm m) (hT_type m hW) p.typeScorer h4⟩

theorem tagNgramMass_char_le (m : WModel) (tid : Nat) :
    tagNgramMass ((m.tagModels.map (·.charNgrams)).getD tid []) ≤ m.tagMass := by
  rw [List.getD_eq_getElem?_getD, List.getElem?_map]
  cases htm : m.tagModels[tid]? with
  | none => exact Nat.zero_le _
  | some tm =>
    have := mass_le_tagMass m tm (List.mem_of_getElem? htm)
    simp only [Option.map_some, Option.getD_some]
    unfold TagModel.mass at this
    omega

theorem tagNgramMass_type_le (m : WModel) (tid : Nat) :
    tagNgramMass ((m.tagModels.map (·.typeNgrams)).getD tid []) ≤ m.tagMass := by
  rw [List.getD_eq_getElem?_getD, List.getElem?_map]
  cases htm : m.tagModels[tid]? with
  | none => exact Nat.zero_le _
  | some tm =>
    have := mass_le_tagMass m tm (List.mem_of_getElem? htm)
    simp only [Option.map_some, Option.getD_some]
    unfold TagModel.mass at this
    omega

/-! ## construction -/

theorem build_within_tag (cfg : Cfg) (m m0 : WModel) (hd : IsDropW0 m m0) (htm : m0.tagModels = m.tagModels) (hW : WFT m)
    (p : Predictor) (hp : Predictor.new cfg m true = .ok p) (P Q : Int → Bool)
    (hP : ∀ x : Int, x.natAbs ≤ m0.mass → P x = true) (hQ : ∀ x : Int, x.natAbs ≤ m.tagMass → Q x = true) :
    TagBuildWithin P Q cfg m0 p := by
  obtain ⟨hcfg, h1, _, h3, h4⟩ := new_tag_ok cfg m p hp
  have hmass : m0.mass = m0.bias.natAbs + ngramMass m0.charNgrams + ngramMass m0.typeNgrams + dictMass m0.dict := rfl
  unfold TagBuildWithin
  rw [htm]
  refine ⟨?_, ?_, ?_⟩
  · intro tpm htpm e he x hx
    rw [h1] at htpm
    simp only [Option.some.injEq] at htpm
    subst htpm
    obtain ⟨⟨tm, i⟩, hmem, rfl⟩ := List.mem_map.mp he
    obtain ⟨_, h2, h3⟩ := List.mem_zipIdx hmem
    have htmm : tm ∈ m.tagModels := by rw [h3]; exact List.getElem_mem _
    apply hQ
    have hle := mass_le_tagMass m tm htmm
    rcases ofList_toList_mem cfg tm.bias x hx with h | h
    · have := natAbs_le_absSum_of_mem tm.bias x h
      unfold TagModel.mass at hle
      omega
    · rw [h]; simp
  · intro sc hsc
    rw [hsc] at h3
    have hb := charScorerNew_tagBuilt cfg hcfg m _ sc h3
    rw [← hd.charNgrams, ← hd.charW, ← hd.dict, List.length_map] at hb
    rcases hb with ⟨hT, hnone⟩ | hb
    · refine ⟨fun tw htw => (by rw [hnone] at htw; cases htw), Or.inl ⟨?_, hnone⟩⟩
      simpa using hT
    · obtain ⟨g1, g2⟩ := tagMergerIn_of_built P Q m0.mass m.tagMass hP hQ (Lm m) cfg m0.charW
        (m0.charNgrams.map (fun d => (d.ngram, ({ weight := some ⟨-(m0.charW : Int), d.weights⟩, tagInfo := [] } : PWT)))
          ++ m0.dict.map (fun d => (d.word, ({ weight := some ⟨-(d.word.length : Int), d.weights⟩, tagInfo := [] } : PWT))))
        (m.tagModels.map (·.charNgrams))
        (by
          intro e he
          rcases List.mem_append.mp he with he | he
          · obtain ⟨d, _, rfl⟩ := List.mem_map.mp he; rfl
          · obtain ⟨d, _, rfl⟩ := List.mem_map.mp he; rfl)
        (hT_char m hW)
        (by
          have := emass_charEntriesT m0.charW m0.charNgrams m0.dict (m.tagModels.map (·.charNgrams))
          unfold charEntriesTOf at this
          rw [this, hmass]; omega)
        (tagNgramMass_char_le m) sc (by rw [List.length_map]; exact hb)
      rw [List.length_map] at g2
      exact ⟨g1, Or.inr g2⟩
  · intro sc hsc
    rw [hsc] at h4
    have hb := typeScorerNew_tagBuilt cfg hcfg m _ sc h4
    rw [← hd.typeNgrams, ← hd.typeW, List.length_map] at hb
    rcases hb with ⟨hT, hnone⟩ | hb
    · refine ⟨fun tw htw => (by rw [hnone] at htw; cases htw), Or.inl ⟨?_, hnone⟩⟩
      simpa using hT
    · obtain ⟨g1, g2⟩ := tagMergerIn_of_built P Q m0.mass m.tagMass hP hQ (Lm m) cfg m0.typeW
        (m0.typeNgrams.map (fun d => (d.ngram, ({ weight := some ⟨-(m0.typeW : Int), d.weights⟩, tagInfo := [] } : PWT))))
        (m.tagModels.map (·.typeNgrams))
        (by
          intro e he
          obtain ⟨d, _, rfl⟩ := List.mem_map.mp he; rfl)
        (hT_type m hW)
        (by
          have := emass_typeEntriesT m0.typeW m0.typeNgrams (m.tagModels.map (·.typeNgrams))
          unfold typeEntriesTOf at this
          rw [this, hmass]; omega)
        (tagNgramMass_type_le m) sc (by rw [List.length_map]; exact hb)
      rw [List.length_map] at g2
      exact ⟨g1, Or.inr g2⟩

/-! ## the token lookup of `tagToken` -/

/-- the pair `tagToken` finds for a token surface is the index of a tag model and that model's predictor -/
theorem lookup_tagModel (cfg : Cfg) (m : WModel) (tok : List Char) (tid : Nat) (tp : TagPredictor)
    (h : lookupLast tok (tpmOf cfg m) = some (tid, tp)) :
    ∃ tm, m.tagModels[tid]? = some tm ∧ tp = mkTP cfg tm ∧ tagModelOf m tok = some tm := by
  unfold tpmOf at h
  rw [lookupLast_zipIdx] at h
  cases hl : lastWith tok m.tagModels 0 with
  | none => rw [hl] at h; cases h
  | some x =>
    obtain ⟨tid', tm⟩ := x
    rw [hl] at h
    simp only [Option.map_some, Option.some.injEq, Prod.mk.injEq] at h
    obtain ⟨h1, h2⟩ := h
    subst h1
    obtain ⟨_, htid⟩ := lastWith_idx _ _ 0 tid' tm hl
    rw [Nat.sub_zero] at htid
    refine ⟨tm, htid, h2.symm, ?_⟩
    unfold tagModelOf
    rw [← lastWith_find _ _ 0, hl]
    rfl

end V.C06B
