import VProofs.Lemmas.CliSafe
import VProofs.Lemmas.EvalCountWord
import VProofs.C16
/-! Helper lemmas for C20 (`evaluate`): every line handed to the counters is well formed. -/
namespace V.C20E
open V

theorem tagRows_length (s : Sentence) (rows : List (List Tag)) (h : tagRows s = .ok rows) :
    rows.length = s.bounds.length + 1 := by
  unfold tagRows at h
  split at h
  · cases h
  · injection h with h
    rw [← h, List.length_map, List.length_range]

/-- one `fill(N)` introduces no unknown label -/
theorem fill_noU (bs : List B) (start stop : Nat) (h : ∀ b ∈ bs, b ≠ B.U) :
    ∀ b ∈ bs.take start ++ List.replicate (stop - start) B.N ++ bs.drop stop, b ≠ B.U := by
  intro b hb
  simp only [List.mem_append] at hb
  rcases hb with (hb | hb) | hb
  · exact h b (List.mem_of_mem_take hb)
  · rw [(List.mem_replicate.mp hb).2]; decide
  · exact h b (List.mem_of_mem_drop hb)

/-- the grapheme loop, for ANY cluster data on which it returns: no unknown label appears -/
theorem grGo_noU (ls : List Nat) :
    ∀ (start : Nat) (bs out : List B), filterGraphemes.go ls start bs = .ok out → (∀ b ∈ bs, b ≠ B.U) →
      ∀ b ∈ out, b ≠ B.U := by
  induction ls with
  | nil =>
    intro start bs out h hu
    simp only [filterGraphemes.go] at h
    injection h with h
    rw [← h]; exact hu
  | cons l r ih =>
    intro start bs out h hu
    simp only [filterGraphemes.go, fillN] at h
    by_cases hl0 : l = 0
    · rw [if_pos hl0] at h; cases h
    · rw [if_neg hl0] at h
      by_cases hc : start ≤ start + l - 1 ∧ start + l - 1 ≤ bs.length
      · rw [if_pos hc] at h
        exact ih _ _ _ h (fill_noU bs start _ hu)
      · rw [if_neg hc] at h; cases h

/-- the configured filters (character types and grapheme clusters, any cluster data), whenever they return: only the
boundary vector is rewritten, its length is kept and no unknown label appears -/
theorem filters_bounds : ∀ (fs : List PostFilter) (s s' : Sentence), Inv s → (∀ b ∈ s.bounds, b ≠ B.U) →
    applyPostFilters fs s = .ok s' →
    ∃ bs, s' = { s with bounds := bs } ∧ bs.length = s.bounds.length ∧ ∀ b ∈ bs, b ≠ B.U
  | [], s, s', _, hu, h => by
    simp only [applyPostFilters] at h
    injection h with h
    exact ⟨s.bounds, h.symm, rfl, hu⟩
  | .ws t :: r, s, s', hi, hu, h => by
    obtain ⟨bs1, e1, l1, p1⟩ := C15_wsconst t s hi
    simp only [applyPostFilters, e1] at h
    have hi1 : Inv ({ s with bounds := bs1 } : Sentence) := Inv.ofC (C15L.invC_bounds hi.toC l1)
    have hu1 : ∀ b ∈ bs1, b ≠ B.U := by
      refine C16L.noU_pointwise hu l1 fun i hi' => ⟨_, p1 i hi', ?_⟩
      split
      · exact Or.inr (Or.inl rfl)
      · exact Or.inr (Or.inr rfl)
    obtain ⟨bs2, e2, l2, p2⟩ := filters_bounds r { s with bounds := bs1 } s' hi1 hu1 h
    exact ⟨bs2, e2, l2.trans l1, p2⟩
  | .graphemes ls :: r, s, s', hi, hu, h => by
    simp only [applyPostFilters] at h
    cases hg : filterGraphemes.go ls 0 s.bounds with
    | ok bs1 =>
      have e1 : filterGraphemes ls s = .ok { s with bounds := bs1 } := by simp only [filterGraphemes, hg]
      rw [e1] at h
      have l1 := C15L.grGo_length ls 0 s.bounds bs1 hg
      have hi1 : Inv ({ s with bounds := bs1 } : Sentence) := Inv.ofC (C15L.invC_bounds hi.toC l1)
      obtain ⟨bs2, e2, l2, p2⟩ := filters_bounds r { s with bounds := bs1 } s' hi1 (grGo_noU ls 0 s.bounds bs1 hg hu) h
      exact ⟨bs2, e2, l2.trans l1, p2⟩
    | err e => simp [filterGraphemes, hg] at h
    | panic q => simp [filterGraphemes, hg] at h
    | ub q => simp [filterGraphemes, hg] at h

/-- `fill_tags` after prediction keeps the boundary vector -/
theorem tags_bounds (cfg : Cfg) (m : WModel) (hm : WFModel m) (ht : WFTags m) (p : Predictor)
    (hp : Predictor.new cfg m true = .ok p) (x : List Char) (hne : x ≠ []) (s1 : Sentence)
    (h1 : p.predict 0 (Sentence.mkRaw x) = .ok s1) (bs : List B) (hbs : bs.length = s1.bounds.length) (s3 : Sentence)
    (h3 : p.predictTags { s1 with bounds := bs } = .ok s3) : s3.bounds = bs := by
  have hs := C20L.sentOK_mkRaw x hne
  obtain ⟨_, htp, hnt, _⟩ := C06L.new_tag_ok cfg m p hp
  rcases Nat.eq_zero_or_pos (specNTags m) with hn | hn
  · unfold Predictor.predictTags at h3
    simp only [htp, hnt, hn, if_true] at h3
    injection h3 with h3
    rw [← h3]
  · obtain ⟨_, e3⟩ := C06_predictTags cfg m hm ht p hp p.storeTagScores _ s1 hs 0 h1 bs hbs hn
    have e3' : p.predictTags { s1 with bounds := bs } = _ := e3
    rw [e3'] at h3
    injection h3 with h3
    rw [← h3]

theorem line_wf (cfg : Cfg) (m : WModel) (hm : WFModel m) (ht : WFTags m) (fl : EvalFlags)
    (p : Predictor) (hp : Predictor.new cfg m fl.predictTags = .ok p)
    (filters : List PostFilter) (line : List Char) (e : EvalLine)
    (he : evalLine fl p filters line = .ok e) : LineWF e := by
  unfold evalLine at he
  obtain ⟨r, hr, he⟩ := C20L.bindR_eq_ok he
  obtain ⟨refT, hrT, he⟩ := C20L.bindR_eq_ok he
  obtain ⟨s0, hs0, he⟩ := C20L.bindR_eq_ok he
  obtain ⟨s1, h1, he⟩ := C20L.bindR_eq_ok he
  obtain ⟨s2, h2, he⟩ := C20L.bindR_eq_ok he
  obtain ⟨s3, h3, he⟩ := C20L.bindR_eq_ok he
  obtain ⟨sysT, hsT, he⟩ := C20L.bindR_eq_ok he
  injection he with he
  subst he
  -- the reference sentence
  have hwf : WFTok r := by
    unfold Sentence.fromTokenized at hr
    cases hp' : parseTokenized line with
    | ok q =>
      rw [hp'] at hr
      obtain ⟨s, hs1, hs2⟩ := C03_parsed_wf line q hp'
      have hr' : Sentence.ofParsed q = .ok r := hr
      rw [hs1] at hr'
      injection hr' with hr'
      rw [← hr']; exact hs2
    | err e => rw [hp'] at hr; cases hr
    | panic q => rw [hp'] at hr; cases hr
    | ub q => rw [hp'] at hr; cases hr
  -- the fresh sentence over the (normalised) reference characters
  have hxlen : (if fl.noNorm then r.text else Gen.fullwidth r.text).length = r.text.length := by
    split
    · rfl
    · exact C16_norm_len r.text
  generalize hx : (if fl.noNorm then r.text else Gen.fullwidth r.text) = x at hs0 hxlen
  rcases C20L.raw_cases x with ⟨herr, _⟩ | ⟨⟨hne, _⟩, hok, _⟩
  · rw [herr] at hs0; cases hs0
  rw [hok] at hs0
  injection hs0 with hs0
  subst hs0
  obtain ⟨s1', h1', hP⟩ := C20L.predict_stage cfg m hm fl.predictTags p hp x hne
  rw [h1] at h1'
  injection h1' with h1'
  subst h1'
  obtain ⟨bs, e2, hbs, hU⟩ := filters_bounds filters s1 s2 hP.inv hP.noU h2
  have hb3 : s3.bounds = bs := by
    cases hft : fl.predictTags
    · rw [hft] at h3
      simp only [Bool.false_eq_true, if_false] at h3
      injection h3 with h3
      rw [← h3, e2]
    · rw [hft] at h3 hp
      simp only [if_true] at h3
      rw [e2] at h3
      exact tags_bounds cfg m hm ht p hp x hne s1 h1 bs hbs s3 h3
  have hl1 : s1.bounds.length + 1 = r.bounds.length + 1 := by
    rw [hP.inv.bounds_len, hP.text, hxlen, hwf.bounds_len]
  refine ⟨?_, tagRows_length r refT hrT, tagRows_length s3 sysT hsT, hwf.no_unknown, ?_⟩
  · show s3.bounds.length = r.bounds.length
    rw [hb3, hbs]; omega
  · show ∀ b ∈ s3.bounds, b ≠ B.U
    rw [hb3]; exact hU

end V.C20E
