import VProofs.Lemmas.CsvFileStrict
import VProofs.Lemmas.CsvSplit
/-!
# CsvFile helper lemmas, part 5: dictionary files (`csvDumpFile`, `csvLoadFile`)
-/
namespace V.C19F
open V

theorem header_record : csvRecord csvHeader =
    'w' :: ['o', 'r', 'd', ',', 'w', 'e', 'i', 'g', 'h', 't', 's', ',', 'c', 'o', 'm', 'm', 'e', 'n', 't', '\n'] := by
  decide

theorem header_ne_nil : csvHeader ≠ [] := by decide

theorem stripBom_header (rest : List Char) : csvStripBom (csvRecord csvHeader ++ rest) = csvRecord csvHeader ++ rest := by
  rw [header_record]
  rfl

theorem hasBom_header (rest : List Char) : csvHasBom (csvRecord csvHeader ++ rest) = false := by
  rw [header_record]
  rfl

theorem rowOf_rowFields (r : List Char × List Char × List Char) : csvRowOf? (csvRowFields r) = some r := rfl

theorem mapM_rowOf : ∀ rows : List (List Char × List Char × List Char),
    (rows.map csvRowFields).mapM csvRowOf? = some rows := by
  intro rows
  induction rows with
  | nil => rfl
  | cons r rs ih => rw [List.map_cons, List.mapM_cons, rowOf_rowFields, ih]; rfl

/-- a record that does not have exactly three fields -/
theorem rowOf_none {r : List (List Char)} (h : r.length ≠ 3) : csvRowOf? r = none := by
  match r, h with
  | [], _ => rfl
  | [_], _ => rfl
  | [_, _], _ => rfl
  | [_, _, _], h => exact absurd rfl h
  | _ :: _ :: _ :: _ :: _, _ => rfl

theorem mapM_rowOf_none : ∀ recs : List (List (List Char)), (∃ r ∈ recs, r.length ≠ 3) →
    recs.mapM csvRowOf? = none := by
  intro recs
  induction recs with
  | nil => intro ⟨r, hr, _⟩; cases hr
  | cons x xs ih =>
    intro ⟨r, hr, hl⟩
    rw [List.mapM_cons]
    by_cases hx : x.length ≠ 3
    · rw [rowOf_none hx]; rfl
    · have hrx : r ∈ xs := by
        rcases List.mem_cons.mp hr with e | e
        · subst e; exact absurd hl hx
        · exact e
      rw [ih ⟨r, hrx, hl⟩]
      cases csvRowOf? x <;> rfl

/-- a file written as the header followed by arbitrary (non-empty) records is loaded by checking the field counts and then
`loadRows` -/
theorem load_written_records (recs : List (List (List Char))) (hne : ∀ r ∈ recs, r ≠ []) :
    csvLoadFile (csvRecord csvHeader ++ recs.flatMap csvRecord) =
      match recs.mapM csvRowOf? with
      | some rows => loadRows rows
      | none => .err .invalidArgument := by
  have hp : csvGo .startRecord [] [] (csvRecord csvHeader ++ recs.flatMap csvRecord) = csvHeader :: recs := by
    have h := go_records (csvHeader :: recs) (by
      intro r hr
      rcases List.mem_cons.mp hr with e | e
      · rw [e]; exact header_ne_nil
      · exact hne r e) []
    simpa [csvGo] using h
  unfold csvLoadFile csvParse
  rw [stripBom_header, hp]
  simp only [if_true]
  cases recs.mapM csvRowOf? <;> rfl

theorem load_written (rows : List (List Char × List Char × List Char)) :
    csvLoadFile (csvRecord csvHeader ++ rows.flatMap fun r => csvRecord (csvRowFields r)) = loadRows rows := by
  have h := load_written_records (rows.map csvRowFields) (by
    intro r hr
    obtain ⟨x, _, e⟩ := List.mem_map.mp hr
    rw [← e]; simp [csvRowFields])
  rw [List.flatMap_map, mapM_rowOf] at h
  exact h

theorem dumpFile_eq (d : List DictWord) (hne : d ≠ []) :
    csvDumpFile d = csvRecord csvHeader ++ (d.map dumpRow).flatMap fun r => csvRecord (csvRowFields r) := by
  cases d with
  | nil => exact absurd rfl hne
  | cons e es => rw [List.flatMap_map]; rfl

/-! ## rejected rows -/

theorem loadRow_cases (r : List Char × List Char × List Char) :
    (∃ d, loadRow r = .ok d) ∨ loadRow r = .err .invalidArgument := by
  unfold loadRow
  cases parseWeights r.2.1 with
  | none => exact Or.inr rfl
  | some ws =>
    show (∃ d, wordRecordNew r.1 ws r.2.2 = .ok d) ∨ wordRecordNew r.1 ws r.2.2 = .err .invalidArgument
    unfold wordRecordNew
    by_cases h : ws.length ≠ r.1.length + 1
    · rw [if_pos h]; exact Or.inr rfl
    · rw [if_neg h]; exact Or.inl ⟨_, rfl⟩

theorem loadRows_cases : ∀ rows : List (List Char × List Char × List Char),
    (∃ ds, loadRows rows = .ok ds) ∨ loadRows rows = .err .invalidArgument := by
  intro rows
  induction rows with
  | nil => exact Or.inl ⟨[], rfl⟩
  | cons r rs ih =>
    rw [loadRows]
    rcases loadRow_cases r with ⟨d, e⟩ | e
    · rw [e]
      rcases ih with ⟨ds, e2⟩ | e2
      · rw [e2]; exact Or.inl ⟨_, rfl⟩
      · rw [e2]; exact Or.inr rfl
    · rw [e]; exact Or.inr rfl

/-- the row is rejected: its weights do not parse, or their number is not the word length + 1 -/
def BadRow (r : List Char × List Char × List Char) : Prop :=
  ∀ ws, parseWeights r.2.1 = some ws → ws.length ≠ r.1.length + 1

theorem loadRow_bad {r : List Char × List Char × List Char} (h : BadRow r) : loadRow r = .err .invalidArgument := by
  unfold loadRow
  cases hp : parseWeights r.2.1 with
  | none => rfl
  | some ws =>
    show wordRecordNew r.1 ws r.2.2 = .err .invalidArgument
    unfold wordRecordNew
    rw [if_pos (h ws hp)]

theorem loadRows_bad : ∀ rows : List (List Char × List Char × List Char), (∃ r ∈ rows, BadRow r) →
    loadRows rows = .err .invalidArgument := by
  intro rows
  induction rows with
  | nil => intro ⟨r, hr, _⟩; cases hr
  | cons x xs ih =>
    intro ⟨r, hr, hb⟩
    rw [loadRows]
    rcases loadRow_cases x with ⟨d, e⟩ | e
    · have hrx : r ∈ xs := by
        rcases List.mem_cons.mp hr with e' | e'
        · subst e'; rw [loadRow_bad hb] at e; cases e
        · exact e'
      rw [e, ih ⟨r, hrx, hb⟩]
    · rw [e]

end V.C19F
