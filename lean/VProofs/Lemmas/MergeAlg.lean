import VModel.Merge
/-!
# The loop invariant of `V.Merge.merge` for an arbitrary weight type

Helper lemmas for `VProofs.Lemmas.MergeCorrect`.  The weights are arbitrary; correctness is stated through an
evaluation `ev : W → Int` that `add` respects on weights satisfying a key-indexed invariant `P`.
-/
namespace V.Merge
variable {α : Type} [DecidableEq α] {W : Type}

@[simp] theorem upd_same {β : Type} (f : List α → β) (k : List α) (v : β) : upd f k v k = v := by simp [upd]
theorem upd_other {β : Type} (f : List α → β) (k : List α) (v : β) (x : List α) (h : x ≠ k) :
    upd f k v x = f x := by simp [upd, h]

/-! ### `backprop` on the unreversed chain -/

def stepTo (add : W → W → W) (st : St α W) (fromK t : List α) : St α W :=
  { w := upd st.w t (add (st.w t) (st.w fromK)), done := upd st.done t true }

def markDone (st : St α W) (f : List α) : St α W := { st with done := upd st.done f true }

theorem go_append (add : W → W → W) (st : St α W) (f : List α) (xs ys : List (List α)) :
    go add st f (xs ++ ys) = go add (go add st f xs) ((f :: xs).getLast (by simp)) ys := by
  induction xs generalizing st f with
  | nil => simp [go]
  | cons x xs ih =>
    simp only [List.cons_append, go]
    rw [ih]
    simp [List.getLast_cons]

/-- backprop on the unreversed chain -/
def bp (add : W → W → W) (st : St α W) : List (List α) → St α W
  | [] => st
  | [p] => markDone st p
  | p :: q :: r => stepTo add (bp add st (q :: r)) q p

theorem backprop_reverse (add : W → W → W) (st : St α W) (c : List (List α)) :
    backprop add st c.reverse = bp add st c := by
  induction c with
  | nil => simp [backprop, bp]
  | cons p c ih =>
    cases c with
    | nil => simp [backprop, bp, go, markDone]
    | cons q r =>
      have hne : (q :: r).reverse ≠ [] := by simp
      obtain ⟨f, rest, hfr⟩ := List.exists_cons_of_ne_nil hne
      have : (p :: q :: r).reverse = f :: (rest ++ [p]) := by
        rw [List.reverse_cons, hfr]; simp
      rw [this]
      simp only [backprop]
      rw [go_append]
      have ih' : go add { st with done := upd st.done f true } f rest = bp add st (q :: r) := by
        rw [← ih, hfr]; simp [backprop]
      rw [ih']
      have hlast : (f :: rest).getLast (by simp) = q := by
        have : (f :: rest) = (q :: r).reverse := hfr.symm
        simp [this]
      simp only [go, bp, stepTo, hlast]

/-! ### what `bp` computes -/

def tailSum (f : List α → Int) : List (List α) → List α → Int
  | [], x => f x
  | p :: r, x => if x = p then ((p :: r).map f).sum else tailSum f r x

theorem tailSum_not_mem (f : List α → Int) (c : List (List α)) (x : List α) (h : x ∉ c) :
    tailSum f c x = f x := by
  induction c with
  | nil => rfl
  | cons p r ih =>
    simp only [List.mem_cons, not_or] at h
    simp [tailSum, h.1, ih h.2]

theorem bp_done (add : W → W → W) (st : St α W) (c : List (List α)) (x : List α) :
    (bp add st c).done x = (st.done x || decide (x ∈ c)) := by
  induction c with
  | nil => simp [bp]
  | cons p c ih =>
    cases c with
    | nil => by_cases h : x = p <;> simp [bp, markDone, upd, h]
    | cons q r =>
      simp only [bp, stepTo]
      by_cases h : x = p
      · simp [upd, h]
      · rw [upd_other _ _ _ _ h, ih]; simp [h]

theorem bp_w_not_mem (add : W → W → W) (st : St α W) (c : List (List α)) (x : List α) (h : x ∉ c) :
    (bp add st c).w x = st.w x := by
  induction c with
  | nil => rfl
  | cons p c ih =>
    cases c with
    | nil => simp [bp, markDone]
    | cons q r =>
      simp only [List.mem_cons, not_or] at h
      simp only [bp, stepTo]
      rw [upd_other _ _ _ _ h.1]
      exact ih (by simp [h.2])

/-- along a chain in which every element is a suffix of all earlier ones, `bp` keeps the invariant `P` and
gives every chain element (under `ev`) the sum of the weights from itself to the end of the chain -/
theorem bp_w (add : W → W → W) (ev : W → Int) (P : List α → W → Prop)
    (hP : ∀ k q a b, q.isSuffixOf k = true → P k a → P q b → P k (add a b))
    (hadd : ∀ k q a b, q.isSuffixOf k = true → P k a → P q b → ev (add a b) = ev a + ev b)
    (st : St α W) (c : List (List α)) (hnd : c.Nodup)
    (hsuf : c.Pairwise (fun p q => q.isSuffixOf p = true))
    (hPc : ∀ x ∈ c, P x (st.w x)) :
    (∀ x ∈ c, P x ((bp add st c).w x)) ∧
    ∀ x, ev ((bp add st c).w x) = tailSum (fun k => ev (st.w k)) c x := by
  induction c with
  | nil => exact ⟨by simp, fun _ => rfl⟩
  | cons p c ih =>
    cases c with
    | nil =>
      refine ⟨fun x hx => ?_, fun x => ?_⟩
      · simpa [bp, markDone] using hPc x hx
      · by_cases h : x = p <;> simp [bp, markDone, tailSum, h]
    | cons q r =>
      have hnd' : (q :: r).Nodup := (List.nodup_cons.1 hnd).2
      have hp : p ∉ q :: r := (List.nodup_cons.1 hnd).1
      have hsuf' := (List.pairwise_cons.1 hsuf).2
      have hqp : q.isSuffixOf p = true := (List.pairwise_cons.1 hsuf).1 q (by simp)
      obtain ⟨ihP, ihE⟩ := ih hnd' hsuf' (fun x hx => hPc x (List.mem_cons_of_mem _ hx))
      have hwp : (bp add st (q :: r)).w p = st.w p := bp_w_not_mem add st _ p hp
      have hPp : P p ((bp add st (q :: r)).w p) := by rw [hwp]; exact hPc p (by simp)
      have hPq : P q ((bp add st (q :: r)).w q) := ihP q (by simp)
      refine ⟨fun x hx => ?_, fun x => ?_⟩
      · simp only [bp, stepTo]
        by_cases h : x = p
        · subst h
          rw [upd_same]
          exact hP _ _ _ _ hqp hPp hPq
        · rw [upd_other _ _ _ _ h]
          rcases List.mem_cons.1 hx with hx | hx
          · exact absurd hx h
          · exact ihP x hx
      · simp only [bp, stepTo]
        by_cases h : x = p
        · subst h
          rw [upd_same, hadd _ _ _ _ hqp hPp hPq, ihE q, hwp]
          simp [tailSum]
        · rw [upd_other _ _ _ _ h, ihE x]
          conv => rhs; unfold tailSum
          simp [h]

/-! ### the chain, as a recursion on the key string itself -/

def cOf (keys : List (List α)) (st : St α W) : List α → List (List α)
  | [] => []
  | _ :: t => match t with
    | [] => []
    | b :: u =>
      if (b :: u) ∈ keys then (if st.done (b :: u) then [b :: u] else (b :: u) :: cOf keys st (b :: u))
      else cOf keys st (b :: u)

theorem chainAux_properSuffixes (keys : List (List α)) (st : St α W) (x : List α) :
    chainAux keys st (properSuffixes x) = cOf keys st x := by
  induction x with
  | nil => rfl
  | cons a t ih =>
    cases t with
    | nil => rfl
    | cons b u =>
      have hps : properSuffixes (a :: b :: u) = (b :: u) :: properSuffixes (b :: u) := rfl
      rw [hps]
      simp only [chainAux, cOf]
      rw [ih]

theorem cOf_suffix (keys : List (List α)) (st : St α W) (x : List α) :
    ∀ q ∈ cOf keys st x, q.length < x.length ∧ q <:+ x := by
  induction x with
  | nil => simp [cOf]
  | cons a t ih =>
    cases t with
    | nil => simp [cOf]
    | cons b u =>
      have hself : (b :: u).length < (a :: b :: u).length ∧ (b :: u) <:+ (a :: b :: u) :=
        ⟨by simp, List.suffix_cons a (b :: u)⟩
      have hrec : ∀ q ∈ cOf keys st (b :: u), q.length < (a :: b :: u).length ∧ q <:+ (a :: b :: u) := by
        intro q hq
        obtain ⟨h1, h2⟩ := ih q hq
        exact ⟨by simp at h1 ⊢; omega, h2.trans (List.suffix_cons a (b :: u))⟩
      intro q hq
      simp only [cOf] at hq
      split at hq
      · split at hq
        · simp at hq; subst hq; exact hself
        · rcases List.mem_cons.1 hq with h | h
          · subst h; exact hself
          · exact hrec q h
      · exact hrec q hq

theorem cOf_length (keys : List (List α)) (st : St α W) (x : List α) :
    ∀ q ∈ cOf keys st x, q.length < x.length := fun q hq => (cOf_suffix keys st x q hq).1

theorem cOf_nodup (keys : List (List α)) (st : St α W) (x : List α) : (cOf keys st x).Nodup := by
  induction x with
  | nil => simp [cOf]
  | cons a t ih =>
    cases t with
    | nil => simp [cOf]
    | cons b u =>
      simp only [cOf]
      split
      · split
        · simp
        · refine List.nodup_cons.2 ⟨?_, ih⟩
          intro h; have := cOf_length keys st _ _ h; omega
      · exact ih

theorem cOf_pairwise (keys : List (List α)) (st : St α W) (x : List α) :
    (cOf keys st x).Pairwise (fun p q => q.isSuffixOf p = true) := by
  induction x with
  | nil => simp [cOf]
  | cons a t ih =>
    cases t with
    | nil => simp [cOf]
    | cons b u =>
      simp only [cOf]
      split
      · split
        · simp
        · refine List.pairwise_cons.2 ⟨?_, ih⟩
          intro q hq
          exact List.isSuffixOf_iff_suffix.2 (cOf_suffix keys st _ q hq).2
      · exact ih

theorem cOf_mem_keys (keys : List (List α)) (st : St α W) (x : List α) :
    ∀ q ∈ cOf keys st x, q ∈ keys := by
  induction x with
  | nil => simp [cOf]
  | cons a t ih =>
    cases t with
    | nil => simp [cOf]
    | cons b u =>
      intro q hq
      simp only [cOf] at hq
      split at hq
      · rename_i hk
        split at hq
        · simp at hq; subst hq; exact hk
        · rcases List.mem_cons.1 hq with h | h
          · subst h; exact hk
          · exact ih q h
      · exact ih q hq

/-! ### the specification side -/

/-- specification: sum of the original (evaluated) weights of all keys that are suffixes of `k` -/
def S (keys : List (List α)) (w0 : List α → Int) (k : List α) : Int :=
  ((keys.filter (fun q => q.isSuffixOf k)).map w0).sum

theorem sum_filter_eq (keys : List (List α)) (f : List α → Int) (x : List α) (hnd : keys.Nodup) :
    ((keys.filter (fun q => decide (q = x))).map f).sum = if x ∈ keys then f x else 0 := by
  induction keys with
  | nil => simp
  | cons k ks ih =>
    have hk : k ∉ ks := (List.nodup_cons.1 hnd).1
    have ih' := ih (List.nodup_cons.1 hnd).2
    by_cases h : k = x
    · subst h
      simp [ih', hk]
    · have : x ≠ k := fun e => h e.symm
      simp [h, ih', this]

omit [DecidableEq α] in
theorem sum_filter_or (keys : List (List α)) (f : List α → Int) (A B : List α → Bool)
    (hdis : ∀ q, A q = true → B q = false) :
    ((keys.filter (fun q => A q || B q)).map f).sum =
      ((keys.filter A).map f).sum + ((keys.filter B).map f).sum := by
  induction keys with
  | nil => simp
  | cons k ks ih =>
    cases hA : A k <;> cases hB : B k <;> simp [hA, hB, ih] <;> try omega
    have := hdis k hA; simp [hB] at this

theorem S_nil (keys : List (List α)) (w0 : List α → Int) (hne : [] ∉ keys) : S keys w0 [] = 0 := by
  unfold S
  have : keys.filter (fun q => q.isSuffixOf ([] : List α)) = [] := by
    apply List.filter_eq_nil_iff.2
    intro q hq
    cases q with
    | nil => exact absurd hq hne
    | cons a t => simp [List.isSuffixOf]
  simp [this]

theorem S_cons (keys : List (List α)) (w0 : List α → Int) (hnd : keys.Nodup) (a : α) (t : List α) :
    S keys w0 (a :: t) = (if (a :: t) ∈ keys then w0 (a :: t) else 0) + S keys w0 t := by
  unfold S
  have hfun : (fun q : List α => q.isSuffixOf (a :: t)) =
      (fun q => decide (q = a :: t) || q.isSuffixOf t) := by
    funext q
    rw [Bool.eq_iff_iff]
    simp [List.suffix_cons_iff]
  rw [hfun, sum_filter_or, sum_filter_eq _ _ _ hnd]
  intro q hq
  simp at hq; subst hq
  simp only [Bool.eq_false_iff, ne_eq, List.isSuffixOf_iff_suffix]
  intro h
  have := h.length_le
  simp at this
  omega

/-! ### the loop invariant -/

/-- the loop invariant of `merge` -/
def Inv (ev : W → Int) (P : List α → W → Prop) (keys : List (List α)) (w0 : List α → W) (st : St α W) : Prop :=
  ∀ k ∈ keys, P k (st.w k) ∧
    (st.done k = true → ev (st.w k) = S keys (fun q => ev (w0 q)) k) ∧
    (st.done k = false → ev (st.w k) = ev (w0 k))

/-- sum of current weights along the chain below `x` = spec sum over the proper suffixes of `x` -/
theorem sum_cOf (ev : W → Int) (P : List α → W → Prop) (keys : List (List α)) (w0 : List α → W) (st : St α W)
    (hnd : keys.Nodup) (hne : [] ∉ keys) (hinv : Inv ev P keys w0 st) (a : α) (t : List α) :
    ((cOf keys st (a :: t)).map (fun k => ev (st.w k))).sum = S keys (fun q => ev (w0 q)) t := by
  induction t generalizing a with
  | nil => simp [cOf, S_nil keys _ hne]
  | cons b u ih =>
    simp only [cOf]
    split
    · rename_i hk
      split
      · rename_i hd
        simp [(hinv _ hk).2.1 hd]
      · rename_i hd
        have hd' : st.done (b :: u) = false := by simpa using hd
        simp only [List.map_cons, List.sum_cons, ih b, (hinv _ hk).2.2 hd']
        rw [S_cons keys _ hnd b u]; simp [hk]
    · rename_i hk
      rw [ih b, S_cons keys _ hnd b u]; simp [hk]

/-- every element of the chain below `x` receives exactly its spec sum -/
theorem tailSum_cOf (ev : W → Int) (P : List α → W → Prop) (keys : List (List α)) (w0 : List α → W) (st : St α W)
    (hnd : keys.Nodup) (hne : [] ∉ keys) (hinv : Inv ev P keys w0 st) (x : List α) :
    ∀ q ∈ cOf keys st x,
      tailSum (fun k => ev (st.w k)) (cOf keys st x) q = S keys (fun q => ev (w0 q)) q := by
  induction x with
  | nil => simp [cOf]
  | cons a t ih =>
    cases t with
    | nil => simp [cOf]
    | cons b u =>
      intro q hq
      simp only [cOf] at hq ⊢
      split at hq
      · rename_i hk
        rw [if_pos hk]
        split at hq
        · rename_i hd
          simp at hq; subst hq
          simp [hd, tailSum, (hinv _ hk).2.1 hd]
        · rename_i hd
          have hd' : st.done (b :: u) = false := by simpa using hd
          rw [if_neg hd]
          rcases List.mem_cons.1 hq with h | h
          · subst h
            simp only [tailSum, if_true, List.map_cons, List.sum_cons]
            rw [sum_cOf ev P keys w0 st hnd hne hinv b u, (hinv _ hk).2.2 hd', S_cons keys _ hnd b u]
            simp [hk]
          · have hlen := cOf_length keys st _ _ h
            have hneq : q ≠ b :: u := by intro e; subst e; omega
            simp only [tailSum, hneq, if_false]
            exact ih q h
      · rename_i hk
        rw [if_neg hk]
        exact ih q hq

theorem step_inv (add : W → W → W) (ev : W → Int) (P : List α → W → Prop)
    (hP : ∀ k q a b, q.isSuffixOf k = true → P k a → P q b → P k (add a b))
    (hadd : ∀ k q a b, q.isSuffixOf k = true → P k a → P q b → ev (add a b) = ev a + ev b)
    (keys : List (List α)) (w0 : List α → W) (st : St α W)
    (hnd : keys.Nodup) (hne : [] ∉ keys) (hinv : Inv ev P keys w0 st) (k : List α) (hk : k ∈ keys) :
    Inv ev P keys w0 (step add keys st k) ∧ (step add keys st k).done k = true ∧
      ∀ q, st.done q = true → (step add keys st k).done q = true := by
  unfold step
  by_cases hd : st.done k = true
  · simp [hd, hinv]
  · have hd' : st.done k = false := by simpa using hd
    rw [if_neg hd]
    rw [backprop_reverse, chain, chainAux_properSuffixes]
    have hcn : (k :: cOf keys st k).Nodup := by
      refine List.nodup_cons.2 ⟨?_, cOf_nodup keys st k⟩
      intro h; have := cOf_length keys st _ _ h; omega
    have hcs : (k :: cOf keys st k).Pairwise (fun p q => q.isSuffixOf p = true) := by
      refine List.pairwise_cons.2 ⟨?_, cOf_pairwise keys st k⟩
      intro q hq
      exact List.isSuffixOf_iff_suffix.2 (cOf_suffix keys st _ q hq).2
    have hcP : ∀ x ∈ k :: cOf keys st k, P x (st.w x) := by
      intro x hx
      rcases List.mem_cons.1 hx with h | h
      · subst h; exact (hinv _ hk).1
      · exact (hinv _ (cOf_mem_keys keys st k x h)).1
    obtain ⟨bP, bE⟩ := bp_w add ev P hP hadd st _ hcn hcs hcP
    refine ⟨?_, ?_, ?_⟩
    · intro q hq
      rw [bp_done, bE]
      by_cases hmem : q ∈ k :: cOf keys st k
      · refine ⟨bP q hmem, fun _ => ?_, fun h => by simp [hmem] at h⟩
        rcases List.mem_cons.1 hmem with h | h
        · subst h
          cases q with
          | nil => exact absurd hq hne
          | cons a t =>
            simp only [tailSum, if_true, List.map_cons, List.sum_cons]
            rw [sum_cOf ev P keys w0 st hnd hne hinv a t, (hinv _ hq).2.2 hd', S_cons keys _ hnd a t]
            simp [hq]
        · have hlen := cOf_length keys st _ _ h
          have hneq : q ≠ k := by intro e; subst e; omega
          simp only [tailSum, hneq, if_false]
          exact tailSum_cOf ev P keys w0 st hnd hne hinv k q h
      · rw [tailSum_not_mem _ _ _ hmem, bp_w_not_mem _ _ _ _ hmem]
        simp only [hmem, decide_false, Bool.or_false]
        exact hinv q hq
    · rw [bp_done]; simp
    · intro q hq; rw [bp_done]; simp [hq]

theorem foldl_inv (add : W → W → W) (ev : W → Int) (P : List α → W → Prop)
    (hP : ∀ k q a b, q.isSuffixOf k = true → P k a → P q b → P k (add a b))
    (hadd : ∀ k q a b, q.isSuffixOf k = true → P k a → P q b → ev (add a b) = ev a + ev b)
    (keys : List (List α)) (w0 : List α → W) (hnd : keys.Nodup) (hne : [] ∉ keys) :
    ∀ (ks : List (List α)) (st : St α W), (∀ k ∈ ks, k ∈ keys) → Inv ev P keys w0 st →
      Inv ev P keys w0 (ks.foldl (step add keys) st) ∧
      (∀ k ∈ ks, (ks.foldl (step add keys) st).done k = true) ∧
      (∀ q, st.done q = true → (ks.foldl (step add keys) st).done q = true) := by
  intro ks
  induction ks with
  | nil => intro st _ h; exact ⟨h, by simp, fun _ h => h⟩
  | cons k ks ih =>
    intro st hsub hinv
    obtain ⟨h1, h2, h3⟩ := step_inv add ev P hP hadd keys w0 st hnd hne hinv k (hsub k (by simp))
    obtain ⟨i1, i2, i3⟩ := ih (step add keys st k) (fun q hq => hsub q (by simp [hq])) h1
    refine ⟨i1, ?_, fun q hq => i3 q (h3 q hq)⟩
    intro q hq
    rcases List.mem_cons.1 hq with h | h
    · subst h; exact i3 _ h2
    · exact i2 q h

/-- after `merge`, every key carries (under `ev`) the sum of the original weights of all keys that are suffixes of
it, and the invariant `P` -/
theorem merge_correct (add : W → W → W) (ev : W → Int) (P : List α → W → Prop)
    (hP : ∀ k q a b, q.isSuffixOf k = true → P k a → P q b → P k (add a b))
    (hadd : ∀ k q a b, q.isSuffixOf k = true → P k a → P q b → ev (add a b) = ev a + ev b)
    (keys : List (List α)) (w0 : List α → W) (hnd : keys.Nodup) (hne : [] ∉ keys)
    (hw0 : ∀ k ∈ keys, P k (w0 k)) :
    ∀ k ∈ keys, P k ((merge add keys w0).w k) ∧
      ev ((merge add keys w0).w k) = S keys (fun q => ev (w0 q)) k := by
  intro k hk
  have hinv0 : Inv ev P keys w0 { w := w0, done := fun _ => false } := by
    intro q hq; exact ⟨hw0 q hq, by simp, by simp⟩
  obtain ⟨i1, i2, _⟩ := foldl_inv add ev P hP hadd keys w0 hnd hne keys _ (fun _ h => h) hinv0
  exact ⟨(i1 k hk).1, (i1 k hk).2.1 (i2 k hk)⟩

end V.Merge
