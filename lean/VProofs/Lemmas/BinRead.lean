import VProofs.Lemmas.BinModel
/-!
# `readSlice`, `read`, `write` in terms of the header and `decModelData`
-/
namespace V.BinL
open V V.Bin

theorem take_magic_append (x : Bytes) : (magic ++ x).take magic.length = magic := by
  simp

theorem drop_magic_append (x : Bytes) : (magic ++ x).drop magic.length = x := by
  simp

theorem readSlice_magic_ok {x : Bytes} {m : WModel} {r : Bytes} (h : decModelData x = .ok (m, r)) :
    readSlice (magic ++ x) = .ok (m, r) := by
  unfold readSlice
  rw [take_magic_append, drop_magic_append, h]
  simp

theorem readSlice_magic_err {x : Bytes} {e : Err} (h : decModelData x = .err e) :
    readSlice (magic ++ x) = .err .decode := by
  unfold readSlice
  rw [take_magic_append, drop_magic_append, h]
  simp

theorem read_magic_ok {x : Bytes} {m : WModel} {r : Bytes} (h : decModelData x = .ok (m, r)) :
    Bin.read (magic ++ x) = .ok m := by
  unfold Bin.read
  rw [take_magic_append, drop_magic_append, h]
  simp

theorem read_magic_err {x : Bytes} {e : Err} (h : decModelData x = .err e) :
    Bin.read (magic ++ x) = .err .decode := by
  unfold Bin.read
  rw [take_magic_append, drop_magic_append, h]
  simp

theorem readSlice_bad_header {bs : Bytes} (h : bs.take magic.length ≠ magic) :
    readSlice bs = .err .invalidModel := by
  unfold readSlice; rw [if_pos h]

theorem read_bad_header {bs : Bytes} (hl : magic.length ≤ bs.length) (h : bs.take magic.length ≠ magic) :
    Bin.read bs = .err .invalidModel := by
  unfold Bin.read; rw [if_neg (by omega), if_pos h]

theorem read_short {bs : Bytes} (hl : bs.length < magic.length) : Bin.read bs = .err .io := by
  unfold Bin.read; rw [if_pos hl]

theorem take_ne_magic_of_short {bs : Bytes} (hl : bs.length < magic.length) : bs.take magic.length ≠ magic := by
  intro h
  have := congrArg List.length h
  simp only [List.length_take] at this
  omega

theorem readSlice_toVec {m : WModel} (h : Encodable m) (rest : Bytes) :
    readSlice (toVec m ++ rest) = .ok (m, rest) := by
  rw [toVec, List.append_assoc, readSlice_magic_ok (decModelData_rt h rest)]

theorem read_toVec {m : WModel} (h : Encodable m) (rest : Bytes) :
    Bin.read (toVec m ++ rest) = .ok m := by
  rw [toVec, List.append_assoc, read_magic_ok (decModelData_rt h rest)]

theorem prefix_rejected {m : WModel} (h : Encodable m) {p : Bytes} (hp : p <+: toVec m) (hne : p ≠ toVec m) :
    (∃ e, readSlice p = .err e) ∧ (∃ e, Bin.read p = .err e) := by
  rcases prefix_append_cases hp with ⟨h1, h2⟩ | ⟨q, rfl, hq⟩
  · have hl := prefix_length_lt h1 h2
    exact ⟨⟨_, readSlice_bad_header (take_ne_magic_of_short hl)⟩, ⟨_, read_short hl⟩⟩
  · have hq2 : q ≠ encModelData m := by intro hh; apply hne; rw [hh, toVec]
    obtain ⟨e, he⟩ := decModelData_pref h hq hq2
    exact ⟨⟨_, readSlice_magic_err he⟩, ⟨_, read_magic_err he⟩⟩

theorem readers_safe (bs : Bytes) : (readSlice bs).Safe ∧ (Bin.read bs).Safe := by
  have hs := safe_modelData (bs.drop magic.length)
  unfold readSlice Bin.read
  constructor
  · split
    · trivial
    · cases hd : decModelData (bs.drop magic.length) with
      | ok x => trivial
      | err e => trivial
      | panic s => rw [hd] at hs; exact hs.elim
      | ub s => rw [hd] at hs; exact hs.elim
  · split
    · trivial
    · split
      · trivial
      · cases hd : decModelData (bs.drop magic.length) with
        | ok x => trivial
        | err e => trivial
        | panic s => rw [hd] at hs; exact hs.elim
        | ub s => rw [hd] at hs; exact hs.elim

end V.BinL
