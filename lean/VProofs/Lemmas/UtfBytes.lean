import VProofs.Lemmas.BinUtf8
/-!
# UTF-8: lead / continuation structure of the encoder, escaping bytes is escaping characters
-/
namespace V.UtfL
open V V.Bin V.BinL

theorem isCont_false_of {b : UInt8} (h : b.toNat < 0x80 ∨ 0xC0 ≤ b.toNat) : isCont b = false := by
  cases hc : isCont b with
  | false => rfl
  | true =>
    simp only [isCont, Bool.and_eq_true, decide_eq_true_eq] at hc
    omega

theorem isCont_ge {b : UInt8} (h : isCont b = true) : 0x80 ≤ b.toNat := by
  simp only [isCont, Bool.and_eq_true, decide_eq_true_eq] at h
  exact h.1

/-- the shape of one encoded character: a lead byte followed by continuation bytes; one byte `< 0x80` exactly for ASCII -/
theorem encChar_shape (c : Char) : ∃ b rest, utf8EncodeChar c = b :: rest ∧ isCont b = false ∧
    (∀ x ∈ rest, isCont x = true) ∧ (c.toNat < 0x80 → rest = [] ∧ b.toNat = c.toNat) ∧
    (¬ c.toNat < 0x80 → 0x80 ≤ b.toNat) := by
  have hv : c.toNat.isValidChar := c.valid
  simp only [utf8EncodeChar]
  generalize c.toNat = n at hv
  simp only [Nat.isValidChar] at hv
  by_cases h1 : n < 0x80
  · have e0 : (UInt8.ofNat n).toNat = n := by rw [ofNat_toNat]; omega
    refine ⟨UInt8.ofNat n, [], by simp only [h1, if_true], isCont_false_of (by omega), by simp, ?_, ?_⟩
    · intro _; exact ⟨rfl, e0⟩
    · intro h; exact absurd h1 h
  · by_cases h2 : n < 0x800
    · have e0 : (UInt8.ofNat (0xC0 + n / 64)).toNat = 0xC0 + n / 64 := by rw [ofNat_toNat]; omega
      have e1 : (UInt8.ofNat (0x80 + n % 64)).toNat = 0x80 + n % 64 := by rw [ofNat_toNat]; omega
      refine ⟨_, _, by simp only [h1, h2, if_true, if_false]; rfl, isCont_false_of (by omega), ?_, ?_, ?_⟩
      · intro x hx
        simp only [List.mem_cons, List.not_mem_nil, or_false] at hx
        subst hx; exact isCont_of e1 (by omega)
      · intro h; exact absurd h h1
      · intro _; omega
    · by_cases h3 : n < 0x10000
      · have e0 : (UInt8.ofNat (0xE0 + n / 4096)).toNat = 0xE0 + n / 4096 := by rw [ofNat_toNat]; omega
        have e1 : (UInt8.ofNat (0x80 + n / 64 % 64)).toNat = 0x80 + n / 64 % 64 := by rw [ofNat_toNat]; omega
        have e2 : (UInt8.ofNat (0x80 + n % 64)).toNat = 0x80 + n % 64 := by rw [ofNat_toNat]; omega
        refine ⟨_, _, by simp only [h1, h2, h3, if_true, if_false]; rfl, isCont_false_of (by omega), ?_, ?_, ?_⟩
        · intro x hx
          simp only [List.mem_cons, List.not_mem_nil, or_false] at hx
          rcases hx with hx | hx
          · subst hx; exact isCont_of e1 (by omega)
          · subst hx; exact isCont_of e2 (by omega)
        · intro h; exact absurd h h1
        · intro _; omega
      · have e0 : (UInt8.ofNat (0xF0 + n / 262144)).toNat = 0xF0 + n / 262144 := by rw [ofNat_toNat]; omega
        have e1 : (UInt8.ofNat (0x80 + n / 4096 % 64)).toNat = 0x80 + n / 4096 % 64 := by rw [ofNat_toNat]; omega
        have e2 : (UInt8.ofNat (0x80 + n / 64 % 64)).toNat = 0x80 + n / 64 % 64 := by rw [ofNat_toNat]; omega
        have e3 : (UInt8.ofNat (0x80 + n % 64)).toNat = 0x80 + n % 64 := by rw [ofNat_toNat]; omega
        refine ⟨_, _, by simp only [h1, h2, h3, if_false]; rfl, isCont_false_of (by omega), ?_, ?_, ?_⟩
        · intro x hx
          simp only [List.mem_cons, List.not_mem_nil, or_false] at hx
          rcases hx with hx | hx | hx
          · subst hx; exact isCont_of e1 (by omega)
          · subst hx; exact isCont_of e2 (by omega)
          · subst hx; exact isCont_of e3 (by omega)
        · intro h; exact absurd h h1
        · intro _; omega

theorem tokSpecial_iff (c : Char) :
    tokSpecial c = true ↔ (c.toNat = 0x20 ∨ c.toNat = 0x5C ∨ c.toNat = 0x2F) := by
  simp only [tokSpecial, Bool.or_eq_true, decide_eq_true_eq, ← Char.toNat_inj, or_assoc]
  rfl

theorem byteSpecial_iff (b : UInt8) :
    (b = 0x20 ∨ b = 0x5C ∨ b = 0x2F) ↔ (b.toNat = 0x20 ∨ b.toNat = 0x5C ∨ b.toNat = 0x2F) := by
  simp only [← UInt8.toNat_inj]
  rfl

section
variable (f : Bytes → Bytes)
  (h1 : ∀ b r, f (b :: r) = if b = 0x20 ∨ b = 0x5C ∨ b = 0x2F then 0x5C :: b :: f r else b :: f r)
include h1

theorem esc_high (l r : Bytes) (hl : ∀ x ∈ l, 0x80 ≤ x.toNat) : f (l ++ r) = l ++ f r := by
  induction l with
  | nil => rfl
  | cons b l ih =>
    have hb := hl b (by simp)
    rw [List.cons_append, h1, if_neg, ih (fun x hx => hl x (by simp [hx]))]
    · rfl
    · rw [byteSpecial_iff]; omega

/-- escaping bytes is escaping characters, for any function satisfying the defining equations of the byte loop -/
theorem escape_bytes_of (h0 : f [] = []) (cs : List Char) : utf8Encode (escTok cs) = f (utf8Encode cs) := by
  induction cs with
  | nil => simp [escTok, utf8Encode, h0]
  | cons c cs ih =>
    obtain ⟨b, rest, he, _, hrest, hlow, hhigh⟩ := encChar_shape c
    rw [utf8Encode_cons]
    by_cases hc : c.toNat < 0x80
    · obtain ⟨hr, hb⟩ := hlow hc
      subst hr
      rw [he, List.singleton_append, h1]
      by_cases hs : tokSpecial c = true
      · have hs' := hs
        rw [tokSpecial_iff, ← hb, ← byteSpecial_iff] at hs'
        rw [if_pos hs']
        simp only [escTok, hs, if_true]
        rw [utf8Encode_cons, utf8Encode_cons, he, ih]
        rfl
      · have hs' := hs
        rw [tokSpecial_iff, ← hb, ← byteSpecial_iff] at hs'
        rw [if_neg hs']
        simp only [escTok, hs]
        rw [if_neg (by simp), utf8Encode_cons, he, ih]
        rfl
    · have hs : ¬ tokSpecial c = true := by rw [tokSpecial_iff]; omega
      simp only [escTok, hs]
      rw [if_neg (by simp), utf8Encode_cons, ih, esc_high f h1]
      intro x hx
      rw [he] at hx
      rcases List.mem_cons.1 hx with hx | hx
      · subst hx; exact hhigh hc
      · exact isCont_ge (hrest x hx)
end

end V.UtfL
