import VModel.Trainer
import VModel.Spec
import VProofs.Lemmas.TagAsmSizes
/-!
# Helper lemmas for C12: which tokens get a tag model (`assembleTags`)
-/
namespace V.C12L

/-! ## the `BTreeMap<&str, _>` order is a strict total order -/

theorem char_toNat_inj {a b : Char} (h : a.toNat = b.toNat) : a = b := by
  apply Char.ext
  exact UInt32.toNat_inj.mp h

/-- key order of the map -/
abbrev clt (a b : List Char) : Prop := lexLt ltChar a b = true

theorem clt_cons_cons (a b : Char) (as bs : List Char) :
    clt (a :: as) (b :: bs) ↔ a.toNat < b.toNat ∨ (a = b ∧ clt as bs) := by
  show (if ltChar a b then true else if ltChar b a then false else lexLt ltChar as bs) = true ↔ _
  simp only [ltChar]
  by_cases h1 : a.toNat < b.toNat
  · simp [h1]
  · by_cases h2 : b.toNat < a.toNat
    · have : a ≠ b := by intro h; subst h; omega
      simp [h1, h2, this]
    · have : a = b := char_toNat_inj (by omega)
      subst this; simp

theorem clt_nil_cons (b : Char) (bs : List Char) : clt [] (b :: bs) := rfl
theorem not_clt_nil (a : List Char) : ¬ clt a [] := by
  cases a <;> simp [clt, lexLt]

theorem clt_irrefl : ∀ (a : List Char), ¬ clt a a
  | [] => not_clt_nil []
  | x :: xs => by
    rw [clt_cons_cons]
    rintro (h | ⟨_, h⟩)
    · omega
    · exact clt_irrefl xs h

theorem clt_trans : ∀ (a b c : List Char), clt a b → clt b c → clt a c
  | _, _, [], _, h2 => absurd h2 (not_clt_nil _)
  | _, [], _ :: _, h1, _ => absurd h1 (not_clt_nil _)
  | [], _ :: _, z :: zs, _, _ => clt_nil_cons z zs
  | x :: xs, y :: ys, z :: zs, h1, h2 => by
    rw [clt_cons_cons] at h1 h2 ⊢
    rcases h1 with h1 | ⟨h1, h1'⟩ <;> rcases h2 with h2 | ⟨h2, h2'⟩
    · left; omega
    · subst h2; left; exact h1
    · subst h1; left; exact h2
    · subst h1; subst h2; right; exact ⟨rfl, clt_trans xs ys zs h1' h2'⟩

theorem clt_total : ∀ (a b : List Char), ¬ clt a b → a ≠ b → clt b a
  | [], [], _, h => absurd rfl h
  | [], y :: ys, h, _ => absurd (clt_nil_cons y ys) h
  | x :: xs, [], _, _ => clt_nil_cons x xs
  | x :: xs, y :: ys, h1, h2 => by
    rw [clt_cons_cons] at h1 ⊢
    by_cases hlt : y.toNat < x.toNat
    · exact Or.inl hlt
    · have hxy : ¬ x.toNat < y.toNat := fun h => h1 (Or.inl h)
      have hxy : x = y := char_toNat_inj (by omega)
      subst hxy
      refine Or.inr ⟨rfl, clt_total xs ys (fun h => h1 (Or.inr ⟨rfl, h⟩)) ?_⟩
      intro h; subst h; exact h2 rfl

/-! ## `exInsert` on key-sorted association lists -/

abbrev EMap := List (List Char × List (List Tag))

def keys (m : EMap) : List (List Char) := m.map (·.1)

def Sorted (m : EMap) : Prop := (keys m).Pairwise clt

theorem keys_cons (p : List Char × List (List Tag)) (m : EMap) : keys (p :: m) = p.1 :: keys m := rfl

theorem mem_keys_of_mem {m : EMap} {p : List Char × List (List Tag)} (h : p ∈ m) : p.1 ∈ keys m :=
  List.mem_map.mpr ⟨p, h, rfl⟩

theorem sorted_cons {p : List Char × List (List Tag)} {m : EMap} :
    Sorted (p :: m) ↔ (∀ a ∈ keys m, clt p.1 a) ∧ Sorted m := by
  unfold Sorted; rw [keys_cons, List.pairwise_cons]

theorem sorted_nodup {m : EMap} (h : Sorted m) : (keys m).Nodup := by
  unfold Sorted at h
  refine List.Pairwise.imp ?_ h
  intro a b hab he
  subst he
  exact clt_irrefl a hab

theorem exInsert_keys (k : List Char) (v : List Tag) : ∀ (m : EMap) (x : List Char),
    x ∈ keys (exInsert k v m) ↔ x = k ∨ x ∈ keys m := by
  intro m
  induction m with
  | nil => intro x; simp [exInsert, keys]
  | cons p r ih =>
    intro x
    obtain ⟨k0, vs0⟩ := p
    unfold exInsert
    split
    · rename_i h; subst h
      simp only [keys_cons, List.mem_cons]
      constructor
      · exact Or.inr
      · rintro (h | h)
        · exact Or.inl h
        · exact h
    · split
      · simp only [keys_cons, List.mem_cons]
      · simp only [keys_cons, List.mem_cons, ih x]
        constructor
        · rintro (h | h | h)
          · exact Or.inr (Or.inl h)
          · exact Or.inl h
          · exact Or.inr (Or.inr h)
        · rintro (h | h | h)
          · exact Or.inr (Or.inl h)
          · exact Or.inl h
          · exact Or.inr (Or.inr h)

theorem exInsert_sorted (k : List Char) (v : List Tag) : ∀ (m : EMap), Sorted m → Sorted (exInsert k v m) := by
  intro m
  induction m with
  | nil => intro _; simp [exInsert, Sorted, keys]
  | cons p r ih =>
    intro hs
    obtain ⟨k0, vs0⟩ := p
    have hs' := sorted_cons.mp hs
    unfold exInsert
    split
    · exact sorted_cons.mpr hs'
    · rename_i hne
      split
      · rename_i hlt
        refine sorted_cons.mpr ⟨?_, hs⟩
        intro a ha
        rw [keys_cons] at ha
        rcases List.mem_cons.mp ha with ha | ha
        · subst ha; exact hlt
        · exact clt_trans _ _ _ hlt (hs'.1 a ha)
      · rename_i hlt
        refine sorted_cons.mpr ⟨?_, ih hs'.2⟩
        intro a ha
        rcases (exInsert_keys k v r a).mp ha with ha | ha
        · subst ha
          exact clt_total _ _ hlt (fun h => hne h.symm)
        · exact hs'.1 a ha

/-- where the entries of `exInsert k v m` come from -/
theorem exInsert_mem (k : List Char) (v : List Tag) : ∀ (m : EMap), Sorted m →
    ∀ p ∈ exInsert k v m,
      (p.1 ≠ k ∧ p ∈ m) ∨
      (p.1 = k ∧ ∃ vs, p.2 = vs ++ [v] ∧ ((k, vs) ∈ m ∨ (vs = [] ∧ k ∉ keys m))) := by
  intro m
  induction m with
  | nil =>
    intro _ p hp
    simp only [exInsert, List.mem_singleton] at hp
    subst hp
    exact Or.inr ⟨rfl, [], rfl, Or.inr ⟨rfl, by simp [keys]⟩⟩
  | cons q r ih =>
    intro hs p hp
    obtain ⟨k0, vs0⟩ := q
    have hs' := sorted_cons.mp hs
    unfold exInsert at hp
    split at hp
    · rename_i heq
      subst heq
      rcases List.mem_cons.mp hp with hp | hp
      · subst hp
        exact Or.inr ⟨rfl, vs0, rfl, Or.inl (List.mem_cons_self ..)⟩
      · refine Or.inl ⟨?_, List.mem_cons_of_mem _ hp⟩
        intro h
        have := hs'.1 p.1 (mem_keys_of_mem hp)
        rw [h] at this
        exact clt_irrefl _ this
    · rename_i hne
      split at hp
      · rename_i hlt
        rcases List.mem_cons.mp hp with hp | hp
        · subst hp
          refine Or.inr ⟨rfl, [], rfl, Or.inr ⟨rfl, ?_⟩⟩
          intro hk
          rw [keys_cons] at hk
          rcases List.mem_cons.mp hk with hk | hk
          · exact hne hk.symm
          · exact clt_irrefl _ (clt_trans _ _ _ hlt (hs'.1 k hk))
        · by_cases hpk : p.1 = k
          · exfalso
            rcases List.mem_cons.mp hp with hp | hp
            · subst hp; exact hne hpk
            · have := hs'.1 p.1 (mem_keys_of_mem hp)
              rw [hpk] at this
              exact clt_irrefl _ (clt_trans _ _ _ hlt this)
          · exact Or.inl ⟨hpk, hp⟩
      · rcases List.mem_cons.mp hp with hp | hp
        · subst hp
          exact Or.inl ⟨hne, List.mem_cons_self ..⟩
        · rcases ih hs'.2 p hp with ⟨h1, h2⟩ | ⟨h1, vs, h2, h3⟩
          · exact Or.inl ⟨h1, List.mem_cons_of_mem _ h2⟩
          · refine Or.inr ⟨h1, vs, h2, ?_⟩
            rcases h3 with h3 | ⟨h3, h4⟩
            · exact Or.inl (List.mem_cons_of_mem _ h3)
            · refine Or.inr ⟨h3, ?_⟩
              intro hk
              rw [keys_cons] at hk
              rcases List.mem_cons.mp hk with hk | hk
              · exact hne hk.symm
              · exact h4 hk

/-! ## the corpus fold -/

/-- the tag rows of the examples with surface `k`, in corpus order -/
def rowsOf (seen : List TagExample) (k : List Char) : List (List Tag) :=
  (seen.filter fun e => e.surface = k).map (·.tags)

theorem rowsOf_snoc (seen : List TagExample) (e : TagExample) (k : List Char) :
    rowsOf (seen ++ [e]) k = rowsOf seen k ++ if e.surface = k then [e.tags] else [] := by
  unfold rowsOf
  rw [List.filter_append, List.map_append]
  congr 1
  by_cases h : e.surface = k <;> simp [h]

theorem rowsOf_nil_of_not_mem (seen : List TagExample) (k : List Char)
    (h : ¬ ∃ e ∈ seen, e.surface = k) : rowsOf seen k = [] := by
  unfold rowsOf
  rw [List.map_eq_nil_iff, List.filter_eq_nil_iff]
  intro e he hk
  exact h ⟨e, he, by simpa using hk⟩

def CInv (m : EMap) (seen : List TagExample) : Prop :=
  Sorted m ∧ (∀ x, x ∈ keys m ↔ ∃ e ∈ seen, e.surface = x) ∧ ∀ p ∈ m, p.2 = rowsOf seen p.1

theorem cinv_step (m : EMap) (seen : List TagExample) (e : TagExample) (h : CInv m seen) :
    CInv (exInsert e.surface e.tags m) (seen ++ [e]) := by
  obtain ⟨hs, hk, hv⟩ := h
  refine ⟨exInsert_sorted _ _ _ hs, ?_, ?_⟩
  · intro x
    rw [exInsert_keys, hk x]
    simp only [List.mem_append, List.mem_singleton]
    constructor
    · rintro (h | ⟨e', h1, h2⟩)
      · exact ⟨e, Or.inr rfl, h.symm⟩
      · exact ⟨e', Or.inl h1, h2⟩
    · rintro ⟨e', h1 | h1, h2⟩
      · exact Or.inr ⟨e', h1, h2⟩
      · subst h1; exact Or.inl h2.symm
  · intro p hp
    rw [rowsOf_snoc]
    rcases exInsert_mem _ _ _ hs p hp with ⟨h1, h2⟩ | ⟨h1, vs, h2, h3⟩
    · rw [if_neg (fun h => h1 h.symm), List.append_nil]
      exact hv p h2
    · rw [if_pos h1.symm, h2]
      congr 1
      rcases h3 with h3 | ⟨h3, h4⟩
      · have := hv _ h3
        simp only at this
        rw [this, h1]
      · rw [h3, rowsOf_nil_of_not_mem]
        intro hex
        rw [h1] at hex
        exact h4 ((hk _).mpr hex)

theorem cinv_fold : ∀ (l : List TagExample) (m : EMap) (seen : List TagExample), CInv m seen →
    CInv (l.foldl (fun acc e => exInsert e.surface e.tags acc) m) (seen ++ l) := by
  intro l
  induction l with
  | nil => intro m seen h; simpa using h
  | cons e r ih =>
    intro m seen h
    rw [List.foldl_cons, List.append_cons]
    exact ih _ _ (cinv_step m seen e h)

theorem cinv_nil : CInv [] [] := by
  refine ⟨by simp [Sorted, keys], by simp [keys], by simp⟩

/-! ## the dictionary fold -/

def dstep (acc : EMap) (d : List Char × List Tag) : EMap :=
  if d.2.any Option.isSome && !(acc.any fun x => x.1 = d.1) then exInsert d.1 d.2 acc else acc

theorem any_key (m : EMap) (k : List Char) : (m.any fun x => x.1 = k) = true ↔ k ∈ keys m := by
  simp only [List.any_eq_true, decide_eq_true_eq, keys, List.mem_map]

def DInv (corpus : List TagExample) (m : EMap) (seen : List (List Char × List Tag)) : Prop :=
  Sorted m ∧
  (∀ x, x ∈ keys m ↔ (∃ e ∈ corpus, e.surface = x) ∨ ∃ d ∈ seen, d.1 = x ∧ d.2.any Option.isSome = true) ∧
  ∀ p ∈ m, (∃ e ∈ corpus, e.surface = p.1) → p.2 = rowsOf corpus p.1

theorem dinv_step (corpus : List TagExample) (m : EMap) (seen : List (List Char × List Tag))
    (d : List Char × List Tag) (h : DInv corpus m seen) : DInv corpus (dstep m d) (seen ++ [d]) := by
  obtain ⟨hs, hk, hv⟩ := h
  unfold dstep
  split
  · rename_i hc
    rw [Bool.and_eq_true, Bool.not_eq_true', ← Bool.not_eq_true, any_key] at hc
    refine ⟨exInsert_sorted _ _ _ hs, ?_, ?_⟩
    · intro x
      rw [exInsert_keys, hk x]
      simp only [List.mem_append, List.mem_singleton]
      constructor
      · rintro (h | h | ⟨d', h1, h2⟩)
        · exact Or.inr ⟨d, Or.inr rfl, h.symm, hc.1⟩
        · exact Or.inl h
        · exact Or.inr ⟨d', Or.inl h1, h2⟩
      · rintro (h | ⟨d', h1 | h1, h2⟩)
        · exact Or.inr (Or.inl h)
        · exact Or.inr (Or.inr ⟨d', h1, h2⟩)
        · subst h1; exact Or.inl h2.1.symm
    · intro p hp hex
      rcases exInsert_mem _ _ _ hs p hp with ⟨_, h2⟩ | ⟨h1, _⟩
      · exact hv p h2 hex
      · exfalso
        rw [h1] at hex
        exact hc.2 ((hk _).mpr (Or.inl hex))
  · rename_i hc
    refine ⟨hs, ?_, hv⟩
    intro x
    rw [hk x]
    simp only [List.mem_append, List.mem_singleton]
    constructor
    · rintro (h | ⟨d', h1, h2⟩)
      · exact Or.inl h
      · exact Or.inr ⟨d', Or.inl h1, h2⟩
    · rintro (h | ⟨d', h1 | h1, h2⟩)
      · exact Or.inl h
      · exact Or.inr ⟨d', h1, h2⟩
      · subst h1
        rcases h2 with ⟨h2, h3⟩
        have : d'.1 ∈ keys m := by
          apply Classical.byContradiction
          intro hn
          apply hc
          rw [Bool.and_eq_true, Bool.not_eq_true', ← Bool.not_eq_true, any_key]
          exact ⟨h3, hn⟩
        rw [h2] at this
        exact (hk x).mp this

theorem dinv_fold (corpus : List TagExample) : ∀ (l : List (List Char × List Tag)) (m : EMap)
    (seen : List (List Char × List Tag)), DInv corpus m seen → DInv corpus (l.foldl dstep m) (seen ++ l) := by
  intro l
  induction l with
  | nil => intro m seen h; simpa using h
  | cons d r ih =>
    intro m seen h
    rw [List.foldl_cons, List.append_cons]
    exact ih _ _ (dinv_step corpus m seen d h)

/-! ## `mapRes` -/

theorem mapRes_cons_ok {β γ : Type} (f : β → Res γ) (x : β) (xs : List β) (ys : List γ)
    (h : mapRes f (x :: xs) = .ok ys) : ∃ y ys', f x = .ok y ∧ mapRes f xs = .ok ys' ∧ ys = y :: ys' := by
  unfold mapRes at h
  cases hx : f x with
  | ok y =>
    rw [hx] at h
    simp only at h
    cases hxs : mapRes f xs with
    | ok ys' =>
      rw [hxs] at h
      simp only [Res.map, Res.ok.injEq] at h
      exact ⟨y, ys', rfl, rfl, h.symm⟩
    | err e => rw [hxs] at h; simp [Res.map] at h
    | panic p => rw [hxs] at h; simp [Res.map] at h
    | ub p => rw [hxs] at h; simp [Res.map] at h
  | err e => rw [hx] at h; simp at h
  | panic p => rw [hx] at h; simp at h
  | ub p => rw [hx] at h; simp at h

theorem mapRes_map {β γ δ : Type} (f : β → Res γ) (g : γ → δ) (k : β → δ)
    (hf : ∀ x y, f x = .ok y → g y = k x) :
    ∀ (l : List β) (ys : List γ), mapRes f l = .ok ys → ys.map g = l.map k := by
  intro l
  induction l with
  | nil => intro ys h; simp only [mapRes, Res.ok.injEq] at h; subst h; rfl
  | cons x xs ih =>
    intro ys h
    obtain ⟨y, ys', h1, h2, rfl⟩ := mapRes_cons_ok f x xs ys h
    rw [List.map_cons, List.map_cons, hf x y h1, ih ys' h2]

theorem mapRes_mem {β γ : Type} (f : β → Res γ) :
    ∀ (l : List β) (ys : List γ), mapRes f l = .ok ys → ∀ y ∈ ys, ∃ x ∈ l, f x = .ok y := by
  intro l
  induction l with
  | nil => intro ys h y hy; simp only [mapRes, Res.ok.injEq] at h; subst h; cases hy
  | cons x xs ih =>
    intro ys h y hy
    obtain ⟨y0, ys', h1, h2, rfl⟩ := mapRes_cons_ok f x xs ys h
    rcases List.mem_cons.mp hy with hy | hy
    · subst hy; exact ⟨x, List.mem_cons_self .., h1⟩
    · obtain ⟨x', hx', hf⟩ := ih ys' h2 y hy
      exact ⟨x', List.mem_cons_of_mem _ hx', hf⟩

/-! ## `assembleTags` -/

theorem assembleTags_eq (corpus : List TagExample) (dict : List (List Char × List Tag)) (trace : List TagTraceItem) :
    assembleTags corpus dict trace =
      mapRes (fun (e : List Char × List (List Tag)) => assembleTag e.1 e.2 trace)
        (dict.foldl dstep (corpus.foldl (fun acc e => exInsert e.surface e.tags acc) [])) := rfl

theorem assembleTags_spec (corpus : List TagExample) (dict : List (List Char × List Tag)) (trace : List TagTraceItem)
    (tms : List TagModel) (h : assembleTags corpus dict trace = .ok tms) :
    (tms.map (·.token)).Nodup ∧
    (∀ tok, tok ∈ tms.map (·.token) ↔
      (∃ e ∈ corpus, e.surface = tok) ∨ (∃ d ∈ dict, d.1 = tok ∧ d.2.any Option.isSome = true)) ∧
    (∀ tm ∈ tms, (∃ e ∈ corpus, e.surface = tm.token) →
      tm.tags = collectTags ((corpus.filter fun e => e.surface = tm.token).map (·.tags))) := by
  rw [assembleTags_eq] at h
  have hc : CInv (corpus.foldl (fun acc e => exInsert e.surface e.tags acc) []) corpus := by
    have := cinv_fold corpus [] [] cinv_nil
    simpa using this
  have hd0 : DInv corpus (corpus.foldl (fun acc e => exInsert e.surface e.tags acc) []) [] := by
    obtain ⟨h1, h2, h3⟩ := hc
    refine ⟨h1, ?_, fun p hp _ => h3 p hp⟩
    intro x; rw [h2 x]; simp
  have hd := dinv_fold corpus dict _ [] hd0
  rw [List.nil_append] at hd
  generalize dict.foldl dstep (corpus.foldl (fun acc e => exInsert e.surface e.tags acc) []) = M at h hd
  obtain ⟨hs, hk, hv⟩ := hd
  have htok : tms.map (·.token) = keys M :=
    mapRes_map _ (·.token) (·.1) (fun x y hxy => (assembleTag_spec _ _ _ _ hxy).1) M tms h
  refine ⟨?_, ?_, ?_⟩
  · rw [htok]; exact sorted_nodup hs
  · intro tok; rw [htok]; exact hk tok
  · intro tm htm hex
    obtain ⟨p, hp, hpt⟩ := mapRes_mem _ M tms h tm htm
    have hspec := assembleTag_spec _ _ _ _ hpt
    rw [hspec.1] at hex ⊢
    rw [hspec.2.1, hv p hp hex]
    rfl

end V.C12L
