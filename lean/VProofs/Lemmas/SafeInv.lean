import VModel.History
import VProofs.C01
import VProofs.C05
import VProofs.C06
import VProofs.C15
/-!
# The history invariant of C18 and the operations that do not involve a predictor

`InvH env s`: the sentence is consistent (`Inv`) and, when it remembers a predictor, that predictor exists and the
sentence is — up to labels, tags, tag count and stored tag scores — what that predictor's `predict` returned.
-/
namespace V.C18L

/-- a predictor built through the safe API from a well-formed model (same body as `EnvWF` in `C18.lean`) -/
def PredWF (p : Predictor) : Prop :=
  ∃ cfg m pt p0 store, WFModel m ∧ WFTags m ∧ Predictor.new cfg m pt = .ok p0 ∧
    p = { p0 with storeTagScores := store }

/-- the sentence carries what `p.predict k` computed, for some earlier state with the same text -/
def Traced (p : Predictor) (k : Nat) (s : Sentence) : Prop :=
  ∃ s0 s1, SentOK s0 ∧ p.predict k s0 = .ok s1 ∧ s.text = s1.text ∧ s.types = s1.types ∧ s.scores = s1.scores ∧
    s.padding = s1.padding ∧ s.cstates = s1.cstates ∧ s.tstates = s1.tstates ∧ s.bounds.length = s1.bounds.length

def InvH (env : List Predictor) (s : Sentence) : Prop :=
  Inv s ∧ ∀ k, s.pred = some k → ∃ p, env[k]? = some p ∧ Traced p k s

theorem invH_of_none {env : List Predictor} {s : Sentence} (h : Inv s) (hp : s.pred = none) : InvH env s :=
  ⟨h, fun k hk => by rw [hp] at hk; cases hk⟩

theorem invH_default (env : List Predictor) : InvH env Sentence.default :=
  invH_of_none C05_default_inv rfl

/-- an operation that keeps everything `predict` wrote except the labels (same number of them) keeps the invariant -/
theorem invH_frame {env : List Predictor} {s s' : Sentence} (h : InvH env s) (hi : Inv s')
    (hpred : s'.pred = s.pred) (htext : s'.text = s.text) (htypes : s'.types = s.types)
    (hscores : s'.scores = s.scores) (hpad : s'.padding = s.padding) (hcs : s'.cstates = s.cstates)
    (hts : s'.tstates = s.tstates) (hbl : s'.bounds.length = s.bounds.length) : InvH env s' := by
  refine ⟨hi, fun k hk => ?_⟩
  rw [hpred] at hk
  obtain ⟨p, hp, s0, s1, h0, h1, e1, e2, e3, e4, e5, e6, e7⟩ := h.2 k hk
  exact ⟨p, hp, s0, s1, h0, h1, htext.trans e1, htypes.trans e2, hscores.trans e3, hpad.trans e4, hcs.trans e5,
    hts.trans e6, hbl.trans e7⟩

theorem invH_bounds {env : List Predictor} {s : Sentence} (h : InvH env s) {bs : List B}
    (hl : bs.length = s.bounds.length) : InvH env { s with bounds := bs } :=
  invH_frame h (Inv.ofC (C15L.invC_bounds h.1.toC hl)) rfl rfl rfl rfl rfl rfl rfl hl

theorem invH_tags {env : List Predictor} {s : Sentence} (h : InvH env s) {ts : List Tag}
    (hl : ts.length = s.tags.length) : InvH env { s with tags := ts } :=
  invH_frame h (Inv.ofC (C15L.invC_tags h.1.toC hl)) rfl rfl rfl rfl rfl rfl rfl rfl

/-! ## the three updates forget the predictor -/

theorem updateRaw_pred {s s' : Sentence} {x : List Char} {ok : Bool} (h : s.updateRaw x = .ok (s', ok)) :
    s'.pred = none := by
  unfold Sentence.updateRaw at h
  split at h
  · simp only [Res.ok.injEq, Prod.mk.injEq] at h
    rw [← h.1]
  · simp only [Res.ok.injEq, Prod.mk.injEq] at h
    rw [← h.1]; rfl
  · cases h
  · cases h

theorem updateParsed_pred {s s' : Sentence} {r : Res Parsed} {ok : Bool} (h : s.updateParsed r = .ok (s', ok)) :
    s'.pred = none := by
  unfold Sentence.updateParsed at h
  split at h
  · split at h
    · simp only [Res.ok.injEq, Prod.mk.injEq] at h
      rw [← h.1]
    · cases h
    · cases h
    · cases h
  · simp only [Res.ok.injEq, Prod.mk.injEq] at h
    rw [← h.1]; rfl
  · cases h
  · cases h

theorem update_step (env : List Predictor) (s : Sentence) (h : Inv s) (op : SOp) (hop : ∀ k, op ≠ .resetTags k) :
    ∃ s' ok, op.apply s = .ok (s', ok) ∧ InvH env s' := by
  obtain ⟨s', ok, h1⟩ := C05_update_returns s op
  refine ⟨s', ok, h1, invH_of_none (C05_step_inv s s' op ok h h1) ?_⟩
  cases op with
  | updateRaw x => exact updateRaw_pred h1
  | updateTokenized x => exact updateParsed_pred h1
  | updatePartial x => exact updateParsed_pred h1
  | resetTags k => exact absurd rfl (hop k)

/-! ## `reset_tags` and the mutable slices -/

theorem resetTags_step {env : List Predictor} {s : Sentence} (h : InvH env s) (k : Nat) : InvH env (s.resetTags k) :=
  invH_frame h (Inv.ofC (invC_resetTags s k h.1.toC)) rfl rfl rfl rfl rfl rfl rfl rfl

theorem setBoundary_step {env : List Predictor} {s : Sentence} (h : InvH env s) (i : Nat) (b : B)
    (hi : i < s.bounds.length) : ∃ s', s.setBoundary i b = .ok s' ∧ InvH env s' := by
  refine ⟨_, by unfold Sentence.setBoundary; rw [if_pos hi], invH_bounds h (List.length_set ..)⟩

theorem setTag_step {env : List Predictor} {s : Sentence} (h : InvH env s) (i : Nat) (t : Tag)
    (hi : i < s.tags.length) : ∃ s', s.setTag i t = .ok s' ∧ InvH env s' := by
  refine ⟨_, by unfold Sentence.setTag; rw [if_pos hi], invH_tags h (List.length_set ..)⟩

/-! ## the four filters -/

theorem filterWs_step {env : List Predictor} {s : Sentence} (h : InvH env s) (t : Nat) :
    ∃ s', filterWsConst t s = .ok s' ∧ InvH env s' := by
  obtain ⟨bs, e, hl, _⟩ := C15_wsconst t s h.1
  exact ⟨_, e, invH_bounds h hl⟩

theorem filterLb_step {env : List Predictor} {s : Sentence} (h : InvH env s) :
    ∃ s', filterLinebreaks s = .ok s' ∧ InvH env s' := by
  obtain ⟨bs, e, hl, _⟩ := C15_linebreaks s h.1
  exact ⟨_, e, invH_bounds h hl⟩

theorem filterGc_step {env : List Predictor} {s : Sentence} (h : InvH env s) (ls : List Nat)
    (hpos : ∀ l ∈ ls, 1 ≤ l) (hsum : ls.sum = s.text.length) :
    ∃ s', filterGraphemes ls s = .ok s' ∧ InvH env s' := by
  obtain ⟨bs, e, hl, _⟩ := C15_graphemes ls s h.1 hpos hsum
  exact ⟨_, e, invH_bounds h hl⟩

theorem filterTag_step {env : List Predictor} {s : Sentence} (h : InvH env s) (rules : TagRules) :
    ∃ s', filterTagger rules s = .ok s' ∧ InvH env s' := by
  obtain ⟨ts, e, hl, _⟩ := C15_tagger rules s h.1
  exact ⟨_, e, invH_tags h hl⟩

end V.C18L
