import VProofs.Lemmas.KyDump
/-!
# C17 — the trie the harness's encoder writes

`trieStates keys` is a `TreeTable` whose gotos are strictly ascending, and below the root it encodes exactly
`(key, entry)` for every key (with the entry of its last occurrence).
-/
namespace V.C17L
open V V.Ky

/-! ## nodes -/

theorem mem_prefixesOf {q w : List Char} : q ∈ prefixesOf w ↔ q ≠ [] ∧ q <+: w := by
  simp only [prefixesOf, List.mem_map, List.mem_range]
  constructor
  · rintro ⟨n, hn, rfl⟩
    refine ⟨?_, List.take_prefix _ _⟩
    intro h
    have := congrArg List.length h
    simp only [List.length_take, List.length_nil] at this
    omega
  · rintro ⟨hne, hp⟩
    have hlen : 0 < q.length := List.length_pos_iff.2 hne
    have hle := hp.length_le
    refine ⟨q.length - 1, by omega, ?_⟩
    have : q.length - 1 + 1 = q.length := by omega
    rw [this]
    exact (List.prefix_iff_eq_take.1 hp).symm

theorem mem_foldl_addNew (q : List Char) : ∀ (ps acc : List (List Char)),
    q ∈ ps.foldl addNew acc ↔ q ∈ acc ∨ q ∈ ps := by
  intro ps
  induction ps with
  | nil => intro acc; simp
  | cons p ps ih =>
    intro acc
    rw [List.foldl_cons, ih]
    unfold addNew
    by_cases h : p ∈ acc
    · simp only [h, if_true, List.mem_cons]
      constructor
      · rintro (h1 | h1)
        · exact Or.inl h1
        · exact Or.inr (Or.inr h1)
      · rintro (h1 | h1 | h1)
        · exact Or.inl h1
        · subst h1; exact Or.inl h
        · exact Or.inr h1
    · simp only [h, if_false, List.mem_append, List.mem_cons, List.not_mem_nil, or_false]
      constructor
      · rintro ((h1 | h1) | h1)
        · exact Or.inl h1
        · exact Or.inr (Or.inl h1)
        · exact Or.inr (Or.inr h1)
      · rintro (h1 | h1 | h1)
        · exact Or.inl (Or.inl h1)
        · exact Or.inl (Or.inr h1)
        · exact Or.inr h1

theorem nodup_foldl_addNew : ∀ (ps acc : List (List Char)), acc.Nodup → (ps.foldl addNew acc).Nodup := by
  intro ps
  induction ps with
  | nil => intro acc h; simpa using h
  | cons p ps ih =>
    intro acc h
    rw [List.foldl_cons]
    apply ih
    unfold addNew
    by_cases hp : p ∈ acc
    · simpa [hp] using h
    · simp only [hp, if_false]
      refine List.nodup_append.2 ⟨h, by simp, ?_⟩
      intro a ha b hb hab
      simp only [List.mem_singleton] at hb
      subst hb; subst hab; exact hp ha

theorem prefix_foldl_addNew : ∀ (ps acc : List (List Char)), acc <+: ps.foldl addNew acc := by
  intro ps
  induction ps with
  | nil => intro acc; exact List.prefix_refl _
  | cons p ps ih =>
    intro acc
    rw [List.foldl_cons]
    refine List.IsPrefix.trans ?_ (ih _)
    unfold addNew
    by_cases hp : p ∈ acc
    · simp [hp]
    · simp [hp]

theorem trieNodes_nodup (keys : List (List Char)) : (trieNodes keys).Nodup :=
  nodup_foldl_addNew _ _ (by simp)

theorem trieNodes_head (keys : List (List Char)) : ∃ t, trieNodes keys = [] :: t := by
  obtain ⟨t, ht⟩ := prefix_foldl_addNew (keys.flatMap prefixesOf) [[]]
  exact ⟨t, by rw [trieNodes, ← ht]; rfl⟩

theorem mem_trieNodes {keys : List (List Char)} {q : List Char} :
    q ∈ trieNodes keys ↔ q = [] ∨ ∃ k ∈ keys, q <+: k := by
  rw [trieNodes, mem_foldl_addNew]
  simp only [List.mem_singleton, List.mem_flatMap, mem_prefixesOf]
  constructor
  · rintro (h | ⟨k, hk, _, hp⟩)
    · exact Or.inl h
    · exact Or.inr ⟨k, hk, hp⟩
  · rintro (h | ⟨k, hk, hp⟩)
    · exact Or.inl h
    · by_cases hq : q = []
      · exact Or.inl hq
      · exact Or.inr ⟨k, hk, hq, hp⟩

theorem nil_mem_trieNodes (keys : List (List Char)) : [] ∈ trieNodes keys := mem_trieNodes.2 (Or.inl rfl)

theorem key_mem_trieNodes {keys : List (List Char)} {k : List Char} (h : k ∈ keys) : k ∈ trieNodes keys :=
  mem_trieNodes.2 (Or.inr ⟨k, h, List.prefix_refl _⟩)

theorem prefix_mem_trieNodes {keys : List (List Char)} {p q : List Char} (hq : q ∈ trieNodes keys) (hp : p <+: q) :
    p ∈ trieNodes keys := by
  rcases mem_trieNodes.1 hq with rfl | ⟨k, hk, hqk⟩
  · rw [List.prefix_nil.1 hp]; exact nil_mem_trieNodes _
  · exact mem_trieNodes.2 (Or.inr ⟨k, hk, hp.trans hqk⟩)

theorem idxOf_nil_trieNodes (keys : List (List Char)) : (trieNodes keys).idxOf [] = 0 := by
  obtain ⟨t, ht⟩ := trieNodes_head keys
  rw [ht]; simp

theorem trieNodes_getElem?_zero (keys : List (List Char)) : (trieNodes keys)[0]? = some [] := by
  obtain ⟨t, ht⟩ := trieNodes_head keys
  rw [ht]; rfl

theorem getElem?_idxOf_of_mem {l : List (List Char)} {q : List Char} (h : q ∈ l) : l[l.idxOf q]? = some q := by
  have hlt := List.idxOf_lt_length_of_mem h
  rw [List.getElem?_eq_getElem hlt, List.getElem_idxOf]

theorem idxOf_of_getElem? {l : List (List Char)} (hnd : l.Nodup) {i : Nat} {q : List Char} (h : l[i]? = some q) :
    l.idxOf q = i := by
  obtain ⟨hi, rfl⟩ := List.getElem?_eq_some_iff.1 h
  exact hnd.idxOf_getElem i hi

/-! ## `lastIdx` -/

theorem lastIdxAux_some {p : List Char} {e : Nat} : ∀ (ks : List (List Char)) (i : Nat) (r : Option Nat),
    lastIdxAux p ks i r = some e → r = some e ∨ ∃ j, ks[j]? = some p ∧ e = i + j := by
  intro ks
  induction ks with
  | nil => intro i r h; exact Or.inl h
  | cons k ks ih =>
    intro i r h
    simp only [lastIdxAux] at h
    rcases ih _ _ h with h1 | ⟨j, hj, rfl⟩
    · by_cases hk : k = p
      · simp only [hk, if_true] at h1
        cases h1
        exact Or.inr ⟨0, by simp [hk], rfl⟩
      · simp only [hk, if_false] at h1
        exact Or.inl h1
    · exact Or.inr ⟨j + 1, by simpa using hj, by omega⟩

theorem lastIdxAux_isSome {p : List Char} : ∀ (ks : List (List Char)) (i : Nat) (r : Option Nat),
    (r.isSome ∨ p ∈ ks) → (lastIdxAux p ks i r).isSome := by
  intro ks
  induction ks with
  | nil => intro i r h; simpa [lastIdxAux] using h
  | cons k ks ih =>
    intro i r h
    simp only [lastIdxAux]
    apply ih
    by_cases hk : k = p
    · simp [hk]
    · simp only [hk, if_false]
      rcases h with h | h
      · exact Or.inl h
      · rcases List.mem_cons.1 h with h | h
        · exact absurd h.symm hk
        · exact Or.inr h

theorem lastIdx_some {p : List Char} {keys : List (List Char)} {e : Nat} (h : lastIdx p keys = some e) :
    keys[e]? = some p := by
  rcases lastIdxAux_some keys 0 none h with h1 | ⟨j, hj, rfl⟩
  · cases h1
  · simpa using hj

theorem lastIdx_of_mem {p : List Char} {keys : List (List Char)} (h : p ∈ keys) : ∃ e, lastIdx p keys = some e :=
  Option.isSome_iff_exists.1 (lastIdxAux_isSome keys 0 none (Or.inr h))

theorem lastIdx_eq_of_nodup {p : List Char} {keys : List (List Char)} (hnd : keys.Nodup) {e : Nat}
    (h : keys[e]? = some p) : lastIdx p keys = some e := by
  obtain ⟨e', he'⟩ := lastIdx_of_mem (List.mem_of_getElem? h)
  have h2 := lastIdx_some he'
  have hlt : e < keys.length := (List.getElem?_eq_some_iff.1 h).1
  have := (List.getElem?_inj hlt hnd).1 (h.trans h2.symm)
  rw [he', this]

/-! ## gotos -/

theorem mem_insertGoto {x g : Char × Nat} : ∀ {l : List (Char × Nat)}, g ∈ insertGoto x l ↔ g = x ∨ g ∈ l := by
  intro l
  induction l with
  | nil => simp [insertGoto]
  | cons y r ih =>
    simp only [insertGoto]
    by_cases h : gotoLe x y = true
    · simp [h]
    · rw [if_neg h]
      simp only [List.mem_cons, ih]
      constructor
      · rintro (h1 | h1 | h1)
        · exact Or.inr (Or.inl h1)
        · exact Or.inl h1
        · exact Or.inr (Or.inr h1)
      · rintro (h1 | h1 | h1)
        · exact Or.inr (Or.inl h1)
        · exact Or.inl h1
        · exact Or.inr (Or.inr h1)

theorem mem_sortGotos {g : Char × Nat} : ∀ {l : List (Char × Nat)}, g ∈ sortGotos l ↔ g ∈ l := by
  intro l
  induction l with
  | nil => simp [sortGotos]
  | cons y r ih => simp only [sortGotos, mem_insertGoto, ih, List.mem_cons]

theorem insertGoto_perm (x : Char × Nat) : ∀ (l : List (Char × Nat)), (insertGoto x l).Perm (x :: l) := by
  intro l
  induction l with
  | nil => exact List.Perm.refl _
  | cons y r ih =>
    simp only [insertGoto]
    by_cases h : gotoLe x y = true
    · simp [h]
    · rw [if_neg h]
      exact (List.Perm.cons y ih).trans (List.Perm.swap x y r)

theorem sortGotos_perm : ∀ (l : List (Char × Nat)), (sortGotos l).Perm l := by
  intro l
  induction l with
  | nil => exact List.Perm.refl _
  | cons y r ih =>
    simp only [sortGotos]
    exact (insertGoto_perm y _).trans (List.Perm.cons y ih)

/-- strictly ascending characters -/
abbrev CharAsc (l : List (Char × Nat)) : Prop := l.Pairwise fun a b => a.1.toNat < b.1.toNat

theorem insertGoto_asc {x : Char × Nat} : ∀ {l : List (Char × Nat)}, CharAsc l → (∀ y ∈ l, x.1.toNat ≠ y.1.toNat) →
    CharAsc (insertGoto x l) := by
  intro l
  induction l with
  | nil => intro _ _; simp [insertGoto, CharAsc]
  | cons y r ih =>
    intro hl hx
    have hxy := hx y (by simp)
    simp only [CharAsc, List.pairwise_cons] at hl
    simp only [insertGoto]
    by_cases h : gotoLe x y = true
    · rw [if_pos h]
      simp only [CharAsc, List.pairwise_cons]
      have hlt : x.1.toNat < y.1.toNat := by
        simp only [gotoLe, Bool.or_eq_true, Bool.and_eq_true, decide_eq_true_eq, beq_iff_eq] at h
        rcases h with h | h
        · exact h
        · exact absurd h.1 hxy
      refine ⟨?_, hl⟩
      intro z hz
      rcases List.mem_cons.1 hz with rfl | hz
      · exact hlt
      · exact Nat.lt_trans hlt (hl.1 z hz)
    · rw [if_neg h]
      simp only [CharAsc, List.pairwise_cons]
      have hlt : y.1.toNat < x.1.toNat := by
        simp only [gotoLe, Bool.or_eq_true, Bool.and_eq_true, decide_eq_true_eq, beq_iff_eq, not_or] at h
        omega
      refine ⟨?_, ih hl.2 (fun z hz => hx z (by simp [hz]))⟩
      intro z hz
      rcases mem_insertGoto.1 hz with rfl | hz
      · exact hlt
      · exact hl.1 z hz

theorem sortGotos_asc : ∀ {l : List (Char × Nat)}, (l.Pairwise fun a b => a.1.toNat ≠ b.1.toNat) → CharAsc (sortGotos l) := by
  intro l
  induction l with
  | nil => intro _; simp [sortGotos, CharAsc]
  | cons y r ih =>
    intro h
    simp only [List.pairwise_cons] at h
    simp only [sortGotos]
    exact insertGoto_asc (ih h.2) (fun z hz => h.1 z (mem_sortGotos.1 hz))

/-- `sort_unstable` undoes the descending order of the file -/
theorem sortGotos_concat {a : Char × Nat} : ∀ {l : List (Char × Nat)}, (∀ x ∈ l, a.1.toNat < x.1.toNat) →
    sortGotos (l ++ [a]) = a :: sortGotos l := by
  intro l
  induction l with
  | nil => intro _; simp [sortGotos, insertGoto]
  | cons y r ih =>
    intro h
    have hy := h y (by simp)
    simp only [List.cons_append, sortGotos]
    rw [ih (fun x hx => h x (by simp [hx]))]
    simp only [insertGoto]
    have : gotoLe y a = false := by
      simp only [gotoLe, Bool.or_eq_false_iff, Bool.and_eq_false_iff, decide_eq_false_iff_not, beq_eq_false_iff_ne]
      omega
    simp [this]

theorem sortGotos_reverse : ∀ {l : List (Char × Nat)}, CharAsc l → sortGotos l.reverse = l := by
  intro l
  induction l with
  | nil => intro _; rfl
  | cons a r ih =>
    intro h
    simp only [CharAsc, List.pairwise_cons] at h
    rw [List.reverse_cons, sortGotos_concat (fun x hx => h.1 x (List.mem_reverse.1 hx)), ih h.2]

/-! ## the states -/

theorem childF_some {nodes : List (List Char)} {p q : List Char} {b : Char × Nat}
    (h : (match q.getLast? with
      | some c => if q = p ++ [c] then some (c, nodes.idxOf q) else none
      | none => none) = some b) : q = p ++ [b.1] ∧ b.2 = nodes.idxOf q := by
  cases hl : q.getLast? with
  | none => simp [hl] at h
  | some c =>
    simp only [hl] at h
    by_cases hqc : q = p ++ [c]
    · rw [if_pos hqc] at h
      cases h
      exact ⟨hqc, rfl⟩
    · rw [if_neg hqc] at h; cases h

theorem mem_childrenOf {nodes : List (List Char)} {p : List Char} {g : Char × Nat} :
    g ∈ childrenOf nodes p ↔ (p ++ [g.1]) ∈ nodes ∧ g.2 = nodes.idxOf (p ++ [g.1]) := by
  simp only [childrenOf, List.mem_filterMap]
  constructor
  · rintro ⟨q, hq, h⟩
    obtain ⟨h1, h2⟩ := childF_some h
    subst h1
    exact ⟨hq, h2⟩
  · rintro ⟨hm, hi⟩
    refine ⟨p ++ [g.1], hm, ?_⟩
    rw [List.getLast?_concat]
    simp only [if_true]
    rw [← hi]

theorem childrenOf_pairwise {nodes : List (List Char)} (p : List Char) (hnd : nodes.Nodup) :
    (childrenOf nodes p).Pairwise fun a b => a.1.toNat ≠ b.1.toNat ∧ a.2 ≠ b.2 := by
  unfold childrenOf
  refine List.Pairwise.filterMap _ ?_ (List.Pairwise.and_mem.1 hnd)
  rintro q q' ⟨hq, hq', hne⟩ b hb b' hb'
  obtain ⟨h1, h2⟩ := childF_some hb
  obtain ⟨h1', h2'⟩ := childF_some hb'
  constructor
  · intro hc
    apply hne
    rw [h1, h1', Char.toNat_inj.1 hc]
  · intro hi
    apply hne
    have e1 := getElem?_idxOf_of_mem hq
    have e2 := getElem?_idxOf_of_mem hq'
    rw [← h2, hi, h2', e2] at e1
    exact (Option.some.inj e1).symm

theorem trieStates_getElem? {keys : List (List Char)} {i : Nat} {st : KState} (h : (trieStates keys)[i]? = some st) :
    ∃ p, (trieNodes keys)[i]? = some p ∧ st = trieState keys (trieNodes keys) p := by
  simp only [trieStates, List.getElem?_map, Option.map_eq_some_iff] at h
  obtain ⟨p, hp, rfl⟩ := h
  exact ⟨p, hp, rfl⟩

theorem trieStates_of_node {keys : List (List Char)} {i : Nat} {p : List Char} (h : (trieNodes keys)[i]? = some p) :
    (trieStates keys)[i]? = some (trieState keys (trieNodes keys) p) := by
  simp only [trieStates, List.getElem?_map, h, Option.map_some]

theorem mem_trieState_gotos {keys nodes : List (List Char)} {p : List Char} {g : Char × Nat} :
    g ∈ (trieState keys nodes p).gotos ↔ (p ++ [g.1]) ∈ nodes ∧ g.2 = nodes.idxOf (p ++ [g.1]) :=
  mem_sortGotos.trans mem_childrenOf

theorem trieState_asc (keys : List (List Char)) {nodes : List (List Char)} (p : List Char) (hnd : nodes.Nodup) :
    CharAsc (trieState keys nodes p).gotos :=
  sortGotos_asc ((childrenOf_pairwise p hnd).imp fun h => h.1)

theorem trieStates_asc (keys : List (List Char)) (i : Nat) (st : KState) (h : (trieStates keys)[i]? = some st) :
    CharAsc st.gotos := by
  obtain ⟨p, _, rfl⟩ := trieStates_getElem? h
  exact trieState_asc keys p (trieNodes_nodup keys)

theorem trieStates_length (keys : List (List Char)) : (trieStates keys).length = (trieNodes keys).length := by
  simp [trieStates]

theorem trieNodes_length_pos (keys : List (List Char)) : 0 < (trieNodes keys).length := by
  obtain ⟨t, ht⟩ := trieNodes_head keys
  rw [ht]; simp

/-- the encoder's trie is a tree whose branch states carry the index of a key -/
theorem trieStates_tree {τ : Type} (keys : List (List Char)) (entries : List τ) (hlen : entries.length = keys.length) :
    TreeTable (trieStates keys) entries := by
  have hnd := trieNodes_nodup keys
  constructor
  · rw [trieStates_length]; exact trieNodes_length_pos keys
  · intro i i' st st' g g' hst hst' hg hg' heq
    obtain ⟨p, hp, rfl⟩ := trieStates_getElem? hst
    obtain ⟨p', hp', rfl⟩ := trieStates_getElem? hst'
    obtain ⟨hm, hi⟩ := mem_trieState_gotos.1 hg
    obtain ⟨hm', hi'⟩ := mem_trieState_gotos.1 hg'
    have e1 := getElem?_idxOf_of_mem hm
    have e2 := getElem?_idxOf_of_mem hm'
    rw [← hi, heq, hi', e2] at e1
    have hpp : p' = p := List.append_inj_left' (Option.some.inj e1) rfl
    subst hpp
    rw [← idxOf_of_getElem? hnd hp, ← idxOf_of_getElem? hnd hp']
  · intro i st hst
    obtain ⟨p, hp, rfl⟩ := trieStates_getElem? hst
    have h1 : ((childrenOf (trieNodes keys) p).map (·.2)).Nodup :=
      List.pairwise_map.2 ((childrenOf_pairwise p hnd).imp fun h => h.2)
    exact ((sortGotos_perm _).map _).nodup_iff.2 h1
  · intro i st hst g hg
    obtain ⟨p, hp, rfl⟩ := trieStates_getElem? hst
    obtain ⟨hm, hi⟩ := mem_trieState_gotos.1 hg
    rw [trieStates_length, hi]
    refine ⟨List.idxOf_lt_length_of_mem hm, ?_⟩
    intro h0
    have e1 := getElem?_idxOf_of_mem hm
    rw [h0, trieNodes_getElem?_zero] at e1
    have := Option.some.inj e1
    simp at this
  · intro i st hst hb
    obtain ⟨p, hp, rfl⟩ := trieStates_getElem? hst
    simp only [trieState] at hb ⊢
    obtain ⟨e, he⟩ := Option.isSome_iff_exists.1 hb
    have hk := lastIdx_some he
    have hlt : e < entries.length := by
      rw [hlen]; exact (List.getElem?_eq_some_iff.1 hk).1
    exact ⟨e, [], entries[e], by simp [he], List.getElem?_eq_getElem hlt⟩

/-! ## what the trie encodes -/

theorem enc_trie_sound {τ : Type} (keys : List (List Char)) (entries : List τ) :
    ∀ (i : Nat) (w : List Char) (x : List Char × τ), Enc (trieStates keys) entries i w x →
      (trieNodes keys)[i]? = some w → ∃ e, lastIdx x.1 keys = some e ∧ entries[e]? = some x.2 ∧ w <+: x.1 := by
  intro i w x h
  induction h with
  | @here i w st o os e hst hb ho he =>
    intro hw
    obtain ⟨p, hp, rfl⟩ := trieStates_getElem? hst
    rw [hw] at hp; cases hp
    simp only [trieState] at ho
    cases hl : lastIdx w keys with
    | none => simp [hl] at ho
    | some e' =>
      simp only [hl, List.cons.injEq] at ho
      obtain ⟨rfl, _⟩ := ho
      exact ⟨e', by first | exact hl | rfl, he, List.prefix_refl _⟩
  | @child i w st g x hst hg _ ih =>
    intro hw
    obtain ⟨p, hp, rfl⟩ := trieStates_getElem? hst
    rw [hw] at hp; cases hp
    obtain ⟨hm, hi⟩ := mem_trieState_gotos.1 hg
    have e1 := getElem?_idxOf_of_mem hm
    rw [← hi] at e1
    obtain ⟨e, h1, h2, h3⟩ := ih e1
    exact ⟨e, h1, h2, (List.prefix_append _ _).trans h3⟩

theorem enc_trie_complete {τ : Type} (keys : List (List Char)) (entries : List τ) {w : List Char} {e : Nat} {v : τ}
    (hl : lastIdx w keys = some e) (hv : entries[e]? = some v) :
    ∀ (n : Nat) (p : List Char), p <+: w → w.length - p.length = n →
      Enc (trieStates keys) entries ((trieNodes keys).idxOf p) p (w, v) := by
  have hwk : w ∈ keys := List.mem_of_getElem? (lastIdx_some hl)
  intro n
  induction n with
  | zero =>
    intro p hp hn
    have : p = w := hp.eq_of_length (by have := hp.length_le; omega)
    subst this
    have hnode := getElem?_idxOf_of_mem (key_mem_trieNodes hwk)
    refine Enc.here (trieStates_of_node hnode) (o := e) (os := []) ?_ ?_ hv
    · simp [trieState, hl]
    · simp [trieState, hl]
  | succ n ih =>
    intro p hp hn
    obtain ⟨t, rfl⟩ := hp
    cases t with
    | nil => simp at hn
    | cons c t =>
      have hpm : p ∈ trieNodes keys := mem_trieNodes.2 (Or.inr ⟨_, hwk, List.prefix_append _ _⟩)
      have hpc : (p ++ [c]) <+: p ++ c :: t := ⟨t, by simp⟩
      have hcm : (p ++ [c]) ∈ trieNodes keys := mem_trieNodes.2 (Or.inr ⟨_, hwk, hpc⟩)
      have hnode := getElem?_idxOf_of_mem hpm
      refine Enc.child (g := (c, (trieNodes keys).idxOf (p ++ [c]))) (trieStates_of_node hnode) ?_ ?_
      · exact mem_trieState_gotos.2 ⟨hcm, rfl⟩
      · apply ih (p ++ [c]) hpc
        simp only [List.length_append, List.length_cons, List.length_nil] at hn ⊢
        omega

theorem enc_trie_root {τ : Type} (keys : List (List Char)) (entries : List τ) (x : List Char × τ) :
    Enc (trieStates keys) entries 0 [] x ↔ ∃ e, lastIdx x.1 keys = some e ∧ entries[e]? = some x.2 := by
  constructor
  · intro h
    obtain ⟨e, h1, h2, _⟩ := enc_trie_sound keys entries 0 [] x h (trieNodes_getElem?_zero keys)
    exact ⟨e, h1, h2⟩
  · rintro ⟨e, h1, h2⟩
    have := enc_trie_complete keys entries h1 h2 _ [] List.nil_prefix rfl
    rwa [idxOf_nil_trieNodes] at this

/-- with distinct keys the trie encodes exactly the listed items -/
theorem enc_trie_items {α τ : Type} (l : List α) (key : α → List Char) (f : α → τ) (hnd : (l.map key).Nodup)
    (x : List Char × τ) :
    Enc (trieStates (l.map key)) (l.map f) 0 [] x ↔ x ∈ l.map fun y => (key y, f y) := by
  rw [enc_trie_root]
  constructor
  · rintro ⟨e, h1, h2⟩
    have h3 := lastIdx_some h1
    simp only [List.getElem?_map, Option.map_eq_some_iff] at h2 h3
    obtain ⟨y, hy, hf⟩ := h2
    obtain ⟨y', hy', hk⟩ := h3
    rw [hy] at hy'; cases hy'
    exact List.mem_map.2 ⟨y, List.mem_of_getElem? hy, by rw [hk, hf]⟩
  · intro h
    obtain ⟨y, hy, rfl⟩ := List.mem_map.1 h
    obtain ⟨e, he⟩ := List.mem_iff_getElem?.1 hy
    refine ⟨e, lastIdx_eq_of_nodup hnd (by simp [he]), by simp [he]⟩

end V.C17L
