import VProofs.Lemmas.SafeFill
/-!
# One valid call of a history keeps the history invariant (for C18)
-/
namespace V.C18L

/-- same body as `HOp.Valid` in `C18.lean` -/
def OpValid (env : List Predictor) (s : Sentence) : HOp → Prop
  | .predict k => k < env.length
  | .fillTags => ∀ k, s.pred = some k → ∃ p, env[k]? = some p ∧ p.tagPredictor.isSome = true
  | .setBoundary i _ => i < s.bounds.length
  | .setTag i _ => i < s.tags.length
  | .filterGc ls => (∀ l ∈ ls, 1 ≤ l) ∧ ls.sum = s.text.length
  | _ => True

theorem map_ok {s' : Sentence} {r : Res Sentence} (h : r = .ok s') : r.map (·, true) = .ok (s', true) := by
  rw [h]; rfl

/-- every valid call returns, and returns a sentence satisfying the invariant -/
theorem step_safe {env : List Predictor} (henv : ∀ p ∈ env, PredWF p) {s : Sentence} (h : InvH env s) (op : HOp)
    (hv : OpValid env s op) : ∃ s' ok, op.apply env s = .ok (s', ok) ∧ InvH env s' := by
  cases op with
  | updateRaw x => exact update_step env s h.1 (.updateRaw x) (fun k e => by cases e)
  | updateTokenized x => exact update_step env s h.1 (.updateTokenized x) (fun k e => by cases e)
  | updatePartial x => exact update_step env s h.1 (.updatePartial x) (fun k e => by cases e)
  | predict k =>
    have hk : k < env.length := hv
    have hget : env[k]? = some env[k] := List.getElem?_eq_getElem hk
    obtain ⟨s', h1, h2⟩ := predict_step h.1 k env[k] hget (henv _ (List.getElem_mem hk))
    refine ⟨s', true, ?_, h2⟩
    simp only [HOp.apply, hget]
    exact map_ok h1
  | fillTags =>
    obtain ⟨s', h1, h2⟩ := fillTags_step henv h hv
    exact ⟨s', true, map_ok h1, h2⟩
  | resetTags k => exact ⟨_, true, rfl, resetTags_step h k⟩
  | setBoundary i b =>
    obtain ⟨s', h1, h2⟩ := setBoundary_step h i b hv
    exact ⟨s', true, map_ok h1, h2⟩
  | setTag i t =>
    obtain ⟨s', h1, h2⟩ := setTag_step h i t hv
    exact ⟨s', true, map_ok h1, h2⟩
  | filterWs t =>
    obtain ⟨s', h1, h2⟩ := filterWs_step h t
    exact ⟨s', true, map_ok h1, h2⟩
  | filterLb =>
    obtain ⟨s', h1, h2⟩ := filterLb_step h
    exact ⟨s', true, map_ok h1, h2⟩
  | filterGc ls =>
    obtain ⟨s', h1, h2⟩ := filterGc_step h ls hv.1 hv.2
    exact ⟨s', true, map_ok h1, h2⟩
  | filterTag rules =>
    obtain ⟨s', h1, h2⟩ := filterTag_step h rules
    exact ⟨s', true, map_ok h1, h2⟩

end V.C18L
