import VModel.Spec
/-!
# `argmaxFirst` / `TagPredictor.predict` / `candidatesLoop` against `firstMax` / `specPickTags` (for C06)
-/
namespace V.C06L

/-! ## first maximum -/

theorem argmaxFirst_some (r : List Int) (i best : Nat) (m : Int) :
    argmaxFirst r i best (some m)
      = if r.all (fun y => decide (y ≤ m)) = true then best else i + firstMax r := by
  induction r generalizing i best m with
  | nil => simp [argmaxFirst]
  | cons y r ih =>
    rw [argmaxFirst]
    by_cases hy : y > m
    · rw [if_pos hy, ih]
      have hall : (y :: r).all (fun y => decide (y ≤ m)) = false := by
        simp only [List.all_cons, Bool.and_eq_false_iff, decide_eq_false_iff_not]
        left; omega
      rw [hall]
      simp only [Bool.false_eq_true, if_false]
      show _ = i + (if r.all (fun z => decide (z ≤ y)) = true then 0 else firstMax r + 1)
      split <;> omega
    · rw [if_neg hy, ih]
      have hym : y ≤ m := by omega
      by_cases hall : r.all (fun y => decide (y ≤ m)) = true
      · have : (y :: r).all (fun y => decide (y ≤ m)) = true := by
          simp only [List.all_cons, Bool.and_eq_true, decide_eq_true_eq]
          exact ⟨hym, hall⟩
        rw [if_pos hall, if_pos this]
      · have h1 : ¬ (y :: r).all (fun y => decide (y ≤ m)) = true := by
          simp only [List.all_cons, Bool.and_eq_true, decide_eq_true_eq]
          exact fun h => hall h.2
        have h2 : ¬ r.all (fun z => decide (z ≤ y)) = true := by
          intro h
          apply hall
          rw [List.all_eq_true] at h ⊢
          intro z hz
          have := h z hz
          simp only [decide_eq_true_eq] at this ⊢
          omega
        rw [if_neg hall, if_neg h1]
        show _ = i + (if r.all (fun z => decide (z ≤ y)) = true then 0 else firstMax r + 1)
        rw [if_neg h2]; omega

theorem argmaxFirst_eq (l : List Int) : argmaxFirst l 0 0 none = firstMax l := by
  cases l with
  | nil => rfl
  | cons x xs =>
    rw [argmaxFirst, argmaxFirst_some]
    show _ = if xs.all (fun y => decide (y ≤ x)) = true then 0 else firstMax xs + 1
    split <;> omega

/-! ## number of trainable classes -/

theorem nClass_nil : nClass [] = 0 := rfl

theorem nClass_cons (c : List (List Char)) (r : List (List (List Char))) :
    nClass (c :: r) = (if 2 ≤ c.length then c.length else 0) + nClass r := by
  unfold nClass
  by_cases h : 2 ≤ c.length
  · simp [h]
  · simp [h]

/-! ## `TagPredictor.predict` -/

theorem take_take_add {β : Type} (X : List β) (a b : Nat) : (X.take (a + b)).take a = X.take a := by
  rw [List.take_take]; congr 1; omega

theorem drop_take_add {β : Type} (X : List β) (a b : Nat) : (X.take (a + b)).drop a = (X.drop a).take b := by
  rw [List.drop_take]; congr 1; omega

theorem tagPredict_spec (tp : TagPredictor) (scores : List Int) (tags : List (List (List Char))) :
    ∀ (offset : Nat) (slots : List Tag), offset + nClass tags ≤ scores.length → tags.length ≤ slots.length →
      tp.predict scores tags offset slots
        = .ok (specPickTags tags ((scores.drop offset).take (nClass tags)) ++ slots.drop tags.length) := by
  induction tags with
  | nil => intro offset slots _ _; simp [TagPredictor.predict, specPickTags]
  | cons cands r ih =>
    intro offset slots h1 h2
    cases slots with
    | nil => simp at h2
    | cons slot slots =>
      rw [nClass_cons] at h1 ⊢
      simp only [List.length_cons] at h2
      rw [TagPredictor.predict]
      by_cases hc : 2 ≤ cands.length
      · simp only [hc, if_true] at h1 ⊢
        rw [if_pos (show offset + cands.length ≤ scores.length by omega)]
        simp only [ih (offset + cands.length) slots (by omega) (by omega)]
        simp only [specPickTags, hc, if_true, argmaxFirst_eq, take_take_add, drop_take_add, List.drop_drop,
          List.length_cons, List.drop_succ_cons, List.cons_append]
      · simp only [hc, if_false] at h1 ⊢
        simp only [ih offset slots (by omega) (by omega)]
        simp only [specPickTags, hc, if_false, Nat.zero_add, List.length_cons, List.drop_succ_cons, List.cons_append]

theorem specPickTags_length (tags : List (List (List Char))) (sc : List Int) :
    (specPickTags tags sc).length = tags.length := by
  induction tags generalizing sc with
  | nil => rfl
  | cons c r ih =>
    unfold specPickTags
    split <;> simp [ih]

/-! ## `candidatesLoop` -/

/-- same equations as `V.specCandidates` (defined in `C06.lean`) -/
def candSpec : List (List (List Char)) → List Int → List (List (List Char × Int))
  | [], _ => []
  | cands :: r, sc =>
    if cands.length = 1 then [(cands.headD [], 0)] :: candSpec r sc
    else if 2 ≤ cands.length then cands.zip (sc.take cands.length) :: candSpec r (sc.drop cands.length)
    else [] :: candSpec r sc

theorem candidatesLoop_spec (tags : List (List (List Char))) (scores : List Int) :
    ∀ (i : Nat), i + nClass tags ≤ scores.length →
      candidatesLoop tags scores i = .ok (candSpec tags ((scores.drop i).take (nClass tags))) := by
  induction tags with
  | nil => intro i _; rfl
  | cons cands r ih =>
    intro i h
    rw [nClass_cons] at h ⊢
    rw [candidatesLoop]
    by_cases h1 : cands.length = 1
    · have hc : ¬ 2 ≤ cands.length := by omega
      rw [if_neg hc] at h ⊢
      rw [if_pos h1, ih i (by omega)]
      simp only [candSpec, if_pos h1, Nat.zero_add]
    · rw [if_neg h1]
      by_cases hc : 2 ≤ cands.length
      · rw [if_pos hc] at h ⊢
        rw [if_pos (by omega), ih (i + cands.length) (by omega)]
        simp only [candSpec, if_neg h1, if_pos hc, take_take_add, drop_take_add, List.drop_drop]
      · rw [if_neg hc] at h ⊢
        have h0 : cands = [] := by
          cases cands with
          | nil => rfl
          | cons a b => simp only [List.length_cons] at h1 hc; omega
        subst h0
        rw [if_pos (by simp only [List.length_nil]; omega), ih (i + ([] : List (List Char)).length) (by simpa using h)]
        simp [candSpec]

end V.C06L
