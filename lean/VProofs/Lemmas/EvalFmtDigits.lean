import VProofs.Lemmas.EvalFmtRound
/-!
# Decimal digits, removing factors of ten, and the search of `f64ShortestDec`: what comes out reads back as the double
-/
namespace V.FmtL
open V V.F64 V.QuantL

/-! ## digits -/

theorem digitsRev_foldr (fuel m : Nat) (h : m < 2 ^ fuel) :
    (digitsRev fuel m).foldr (fun d acc => acc * 10 + d) 0 = m := by
  induction fuel generalizing m with
  | zero => simp only [Nat.pow_zero] at h; simp only [digitsRev, List.foldr_nil]; omega
  | succ f ih =>
    unfold digitsRev
    split
    · simp only [List.foldr_cons, List.foldr_nil]; omega
    · rw [List.foldr_cons, ih (m / 10) (by rw [Nat.pow_succ] at h; omega)]
      omega

theorem ofDigits_decDigits (m : Nat) : ofDigits (decDigits m) = m := by
  unfold ofDigits decDigits
  rw [List.foldl_reverse]
  exact digitsRev_foldr _ m Nat.lt_log2_self

/-! ## `roundDec` is invariant under moving a factor ten between mantissa and exponent -/

theorem roundDec_div10 (m : Nat) (p : Int) (h : m % 10 = 0) : roundDec (m / 10) (p + 1) = roundDec m p := by
  have hm : m = m / 10 * 10 := by omega
  unfold roundDec decNum decDen
  generalize unit = U
  by_cases hp : 0 ≤ p
  · have e1 : (p + 1).toNat = p.toNat + 1 := by omega
    have e2 : (-(p + 1)).toNat = 0 := by omega
    have e3 : (-p).toNat = 0 := by omega
    rw [e1, e2, e3, Nat.pow_succ]
    have e4 : m / 10 * (10 ^ p.toNat * 10) * U = m * 10 ^ p.toNat * U := by
      conv => rhs; rw [hm]
      ac_rfl
    rw [e4]
  · have e1 : (p + 1).toNat = 0 := by omega
    have e2 : (-p).toNat = (-(p + 1)).toNat + 1 := by omega
    have e3 : p.toNat = 0 := by omega
    rw [e1, e2, e3, Nat.pow_succ, Nat.pow_zero, Nat.mul_one, Nat.mul_one]
    conv => rhs; rw [hm]
    have : m / 10 * 10 * U = m / 10 * U * 10 := by ac_rfl
    rw [this]
    exact (roundUnits_scale _ _ 10 (by decide)).symm

theorem stripZeros_roundDec (fuel m : Nat) (p : Int) :
    roundDec (stripZeros fuel m p).1 (stripZeros fuel m p).2 = roundDec m p := by
  induction fuel generalizing m p with
  | zero => rfl
  | succ f ih =>
    unfold stripZeros
    split
    · rename_i h
      rw [ih, roundDec_div10 m p h.1]
    · rfl

/-! ## the search -/

theorem search_in_interval (a : Nat) (e : Int) (fuel k m : Nat) (p : Int)
    (h : shortestSearch a e fuel k = some (m, p)) : decInInterval a m p = true := by
  induction fuel generalizing k with
  | zero => simp [shortestSearch] at h
  | succ f ih =>
    unfold shortestSearch at h
    simp only [] at h
    split at h
    · rename_i hb
      rw [Bool.and_eq_true] at hb
      simp only [Option.some.injEq, Prod.mk.injEq] at h
      obtain ⟨h1, h2⟩ := h
      subst h2
      split at h1
      · subst h1; exact hb.1
      · subst h1; exact hb.2
    · split at h
      · rename_i hb
        simp only [Option.some.injEq, Prod.mk.injEq] at h
        obtain ⟨h1, h2⟩ := h
        subst h1; subst h2; exact hb
      · split at h
        · rename_i hb
          simp only [Option.some.injEq, Prod.mk.injEq] at h
          obtain ⟨h1, h2⟩ := h
          subst h1; subst h2; exact hb
        · exact ih _ h

theorem decDen_pos (p : Int) : 0 < decDen p := Nat.pow_pos (by decide)

/-- the exact decimal expansion reads back -/
theorem roundDec_exact (a : Nat) (hrep : repUnits a = true) : roundDec (a * 5 ^ 1074) (-1074) = a := by
  unfold roundDec decNum decDen
  have e1 : (-1074 : Int).toNat = 0 := by decide
  have e2 : (-(-1074 : Int)).toNat = 1074 := by decide
  rw [e1, e2, Nat.pow_zero, Nat.mul_one]
  have e3 : a * 5 ^ 1074 * unit = 10 ^ 1074 * a := by
    have : (10 : Nat) ^ 1074 = 5 ^ 1074 * 2 ^ 1074 := by rw [← Nat.mul_pow]
    rw [this]; unfold unit
    generalize (5 : Nat) ^ 1074 = F
    generalize (2 : Nat) ^ 1074 = U
    ac_rfl
  rw [e3]
  exact roundUnits_exact a _ (Nat.pow_pos (by decide)) (repU_of_repUnits hrep)

/-- the decimal `f64ShortestDec a` reads back as `a` -/
theorem shortestDec_round (a : Nat) (ha : 0 < a) (hrep : repUnits a = true) :
    roundDec (f64ShortestDec a).1 (f64ShortestDec a).2 = a := by
  unfold f64ShortestDec
  simp only []
  rw [stripZeros_roundDec]
  cases hs : shortestSearch a (decExponent a) 20 1 with
  | none => exact roundDec_exact a hrep
  | some r =>
    obtain ⟨m, p⟩ := r
    simp only [Option.getD_some]
    have := search_in_interval a _ _ _ m p hs
    unfold decInInterval at this
    exact round_of_interval a _ _ (decDen_pos p) ha hrep this

/-- `parse(display digits) = the double` -/
theorem display_roundtrip (a : Nat) (ha : 0 < a) (hlt : a < top) (hrep : repUnits a = true) :
    decimalToF64 (f64ShortestDigits a).1 (f64ShortestDigits a).2 = .fin false a := by
  unfold decimalToF64 f64ShortestDigits
  simp only []
  rw [ofDigits_decDigits]
  have e : (f64ShortestDec a).2 + ((decDigits (f64ShortestDec a).1).length : Int) -
      ((decDigits (f64ShortestDec a).1).length : Int) = (f64ShortestDec a).2 := by omega
  rw [e, shortestDec_round a ha hrep]
  unfold F64.pack
  rw [if_pos hlt]

end V.FmtL
