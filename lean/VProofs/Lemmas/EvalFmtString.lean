import VProofs.Lemmas.EvalFmtShape
/-!
# The printed text determines the double: `digitsToDecStr` is injective on digit strings without leading and trailing zero
-/
namespace V.FmtL
open V V.F64 V.QuantL

/-! ## characters -/

theorem digitChar_facts : ∀ d < 10, digitChar d ≠ '.' ∧ digitChar d ≠ '-' ∧ (digitChar d = '0' → d = 0) ∧
    ∀ d' < 10, digitChar d = digitChar d' → d = d' := by decide

theorem map_digitChar_inj (ds ds' : List Nat) (h : ∀ d ∈ ds, d < 10) (h' : ∀ d ∈ ds', d < 10)
    (e : ds.map digitChar = ds'.map digitChar) : ds = ds' := by
  induction ds generalizing ds' with
  | nil =>
    cases ds' with
    | nil => rfl
    | cons b t => simp at e
  | cons a t ih =>
    cases ds' with
    | nil => simp at e
    | cons b t' =>
      simp only [List.map_cons, List.cons.injEq] at e
      have hab := (digitChar_facts a (h a List.mem_cons_self)).2.2.2 b (h' b List.mem_cons_self) e.1
      rw [hab, ih t' (fun d hd => h d (List.mem_cons_of_mem _ hd)) (fun d hd => h' d (List.mem_cons_of_mem _ hd)) e.2]

/-! ## lists -/

theorem replicate_append_inj {α : Type} (c : α) (z z' : Nat) (l l' : List α) (h : l.head? ≠ some c) (h' : l'.head? ≠ some c)
    (e : List.replicate z c ++ l = List.replicate z' c ++ l') : z = z' ∧ l = l' := by
  induction z generalizing z' with
  | zero =>
    cases z' with
    | zero => exact ⟨rfl, by simpa using e⟩
    | succ k =>
      exfalso
      simp only [List.replicate_zero, List.nil_append, List.replicate_succ, List.cons_append] at e
      rw [e] at h
      exact h rfl
  | succ k ih =>
    cases z' with
    | zero =>
      exfalso
      simp only [List.replicate_zero, List.nil_append, List.replicate_succ, List.cons_append] at e
      rw [← e] at h'
      exact h' rfl
    | succ k' =>
      simp only [List.replicate_succ, List.cons_append, List.cons.injEq, true_and] at e
      obtain ⟨e1, e2⟩ := ih k' e
      exact ⟨by rw [e1], e2⟩

theorem split_at_inj {α : Type} (c : α) (l1 l2 l1' l2' : List α) (h : c ∉ l1) (h' : c ∉ l1')
    (e : l1 ++ c :: l2 = l1' ++ c :: l2') : l1 = l1' ∧ l2 = l2' := by
  induction l1 generalizing l1' with
  | nil =>
    cases l1' with
    | nil => exact ⟨rfl, by simpa using e⟩
    | cons b t =>
      exfalso
      simp only [List.nil_append, List.cons_append, List.cons.injEq] at e
      exact h' (by rw [e.1]; exact List.mem_cons_self)
  | cons a t ih =>
    cases l1' with
    | nil =>
      exfalso
      simp only [List.nil_append, List.cons_append, List.cons.injEq] at e
      exact h (by rw [← e.1]; exact List.mem_cons_self)
    | cons b t' =>
      simp only [List.cons_append, List.cons.injEq] at e
      obtain ⟨e1, e2⟩ := ih t' (fun hm => h (List.mem_cons_of_mem _ hm)) (fun hm => h' (List.mem_cons_of_mem _ hm)) e.2
      exact ⟨by rw [e.1, e1], e2⟩

/-! ## digit strings in normal form -/

/-- non-empty, decimal digits, neither the first nor the last digit is `0` -/
structure NormDigits (ds : List Nat) : Prop where
  ne : ds ≠ []
  lt : ∀ d ∈ ds, d < 10
  head : ds.head? ≠ some 0
  last : ds.getLast? ≠ some 0

/-- what the characters of such a digit string look like -/
structure NormChars (cs : List Char) : Prop where
  ne : cs ≠ []
  nodot : '.' ∉ cs
  nominus : '-' ∉ cs
  head : cs.head? ≠ some '0'
  last : cs.getLast? ≠ some '0'

theorem normChars_of (ds : List Nat) (g : NormDigits ds) : NormChars (ds.map digitChar) := by
  refine ⟨?_, ?_, ?_, ?_, ?_⟩
  · intro h; exact g.ne (List.map_eq_nil_iff.mp h)
  · intro h
    obtain ⟨d, hd, e⟩ := List.mem_map.mp h
    exact (digitChar_facts d (g.lt d hd)).1 e
  · intro h
    obtain ⟨d, hd, e⟩ := List.mem_map.mp h
    exact (digitChar_facts d (g.lt d hd)).2.1 e
  · intro h
    rw [List.head?_map] at h
    cases hh : ds.head? with
    | none => rw [hh] at h; simp at h
    | some d =>
      rw [hh] at h
      simp only [Option.map_some, Option.some.injEq] at h
      have hd : d ∈ ds := List.mem_of_mem_head? hh
      have := (digitChar_facts d (g.lt d hd)).2.2.1 h
      exact g.head (by rw [hh, this])
  · intro h
    rw [List.getLast?_map] at h
    cases hh : ds.getLast? with
    | none => rw [hh] at h; simp at h
    | some d =>
      rw [hh] at h
      simp only [Option.map_some, Option.some.injEq] at h
      have hd : d ∈ ds := List.mem_of_getLast? hh
      have := (digitChar_facts d (g.lt d hd)).2.2.1 h
      exact g.last (by rw [hh, this])

/-! ## the three layouts -/

/-- `digitsToDecStr` on the characters -/
def decStrC (cs : List Char) (e : Int) : List Char :=
  if e ≤ 0 then '0' :: '.' :: (List.replicate (-e).toNat '0' ++ cs)
  else if cs.length ≤ e.toNat then cs ++ List.replicate (e.toNat - cs.length) '0'
  else cs.take e.toNat ++ '.' :: cs.drop e.toNat

theorem digitsToDecStr_eq (ds : List Nat) (e : Int) : digitsToDecStr ds e = decStrC (ds.map digitChar) e := by
  unfold digitsToDecStr decStrC
  simp only [List.length_map]

theorem head?_append_ne {α : Type} (l r : List α) (h : l ≠ []) : (l ++ r).head? = l.head? := by
  cases l with
  | nil => exact absurd rfl h
  | cons a t => rfl

/-- the layout `0.000ddd`: starts with `0`, has a point -/
theorem layoutA (cs : List Char) (e : Int) (he : e ≤ 0) :
    decStrC cs e = '0' :: '.' :: (List.replicate (-e).toNat '0' ++ cs) := by
  unfold decStrC; rw [if_pos he]

/-- the layout `ddd000`: no point, does not start with `0` -/
theorem layoutB (cs : List Char) (g : NormChars cs) (e : Int) (he : 0 < e) (hl : cs.length ≤ e.toNat) :
    decStrC cs e = cs ++ List.replicate (e.toNat - cs.length) '0' ∧ '.' ∉ decStrC cs e ∧
      (decStrC cs e).head? ≠ some '0' := by
  have e1 : decStrC cs e = cs ++ List.replicate (e.toNat - cs.length) '0' := by
    unfold decStrC; rw [if_neg (by omega), if_pos hl]
  refine ⟨e1, ?_, ?_⟩
  · rw [e1, List.mem_append]
    rintro (h | h)
    · exact g.nodot h
    · have := (List.mem_replicate.mp h).2
      exact absurd this (by decide)
  · rw [e1, head?_append_ne _ _ g.ne]; exact g.head

/-- the layout `dd.ddd`: a point, does not start with `0` -/
theorem layoutC (cs : List Char) (g : NormChars cs) (e : Int) (he : 0 < e) (hl : e.toNat < cs.length) :
    decStrC cs e = cs.take e.toNat ++ '.' :: cs.drop e.toNat ∧ (decStrC cs e).head? ≠ some '0' := by
  have e1 : decStrC cs e = cs.take e.toNat ++ '.' :: cs.drop e.toNat := by
    unfold decStrC; rw [if_neg (by omega), if_neg (by omega)]
  refine ⟨e1, ?_⟩
  have hne : cs.take e.toNat ≠ [] := by
    intro h
    have := congrArg List.length h
    rw [List.length_take, List.length_nil] at this
    omega
  rw [e1, head?_append_ne _ _ hne]
  have : (cs.take e.toNat).head? = cs.head? := by
    cases cs with
    | nil => exact absurd rfl g.ne
    | cons a t =>
      obtain ⟨k, hk⟩ : ∃ k, e.toNat = k + 1 := ⟨e.toNat - 1, by omega⟩
      rw [hk]; rfl
  rw [this]; exact g.head

theorem decStrC_inj (cs cs' : List Char) (g : NormChars cs) (g' : NormChars cs') (e e' : Int)
    (h : decStrC cs e = decStrC cs' e') : cs = cs' ∧ e = e' := by
  have dot0 : ('.' : Char) ≠ '0' := by decide
  by_cases hA : e ≤ 0
  · have a1 := layoutA cs e hA
    by_cases hA' : e' ≤ 0
    · -- A / A
      have a2 := layoutA cs' e' hA'
      rw [a1, a2] at h
      simp only [List.cons.injEq, true_and] at h
      obtain ⟨z, c⟩ := replicate_append_inj '0' _ _ cs cs' g.head g'.head h
      exact ⟨c, by omega⟩
    · exfalso
      have hh : (decStrC cs' e').head? = some '0' := by rw [← h, a1]; rfl
      have hd : '.' ∈ decStrC cs' e' := by rw [← h, a1]; simp
      by_cases hB' : cs'.length ≤ e'.toNat
      · exact (layoutB cs' g' e' (by omega) hB').2.1 hd
      · exact (layoutC cs' g' e' (by omega) (by omega)).2 hh
  · by_cases hA' : e' ≤ 0
    · exfalso
      have a2 := layoutA cs' e' hA'
      have hh : (decStrC cs e).head? = some '0' := by rw [h, a2]; rfl
      have hd : '.' ∈ decStrC cs e := by rw [h, a2]; simp
      by_cases hB : cs.length ≤ e.toNat
      · exact (layoutB cs g e (by omega) hB).2.1 hd
      · exact (layoutC cs g e (by omega) (by omega)).2 hh
    · by_cases hB : cs.length ≤ e.toNat
      · obtain ⟨b1, b2, _⟩ := layoutB cs g e (by omega) hB
        by_cases hB' : cs'.length ≤ e'.toNat
        · -- B / B
          obtain ⟨b1', _, _⟩ := layoutB cs' g' e' (by omega) hB'
          rw [b1, b1'] at h
          have hr := congrArg List.reverse h
          rw [List.reverse_append, List.reverse_append, List.reverse_replicate, List.reverse_replicate] at hr
          obtain ⟨z, c⟩ := replicate_append_inj '0' _ _ cs.reverse cs'.reverse
            (by rw [List.head?_reverse]; exact g.last) (by rw [List.head?_reverse]; exact g'.last) hr
          have c' : cs = cs' := by rw [← List.reverse_reverse cs, c, List.reverse_reverse]
          refine ⟨c', ?_⟩
          rw [c'] at z hB
          omega
        · exfalso
          obtain ⟨c1, _⟩ := layoutC cs' g' e' (by omega) (by omega)
          apply b2
          rw [h, c1]; simp
      · obtain ⟨c1, _⟩ := layoutC cs g e (by omega) (by omega)
        by_cases hB' : cs'.length ≤ e'.toNat
        · exfalso
          obtain ⟨_, b2, _⟩ := layoutB cs' g' e' (by omega) hB'
          apply b2
          rw [← h, c1]; simp
        · -- C / C
          obtain ⟨c1', _⟩ := layoutC cs' g' e' (by omega) (by omega)
          rw [c1, c1'] at h
          obtain ⟨t1, t2⟩ := split_at_inj '.' _ _ _ _ (fun hm => g.nodot (List.mem_of_mem_take hm))
            (fun hm => g'.nodot (List.mem_of_mem_take hm)) h
          have c' : cs = cs' := by rw [← List.take_append_drop e.toNat cs, t1, t2, List.take_append_drop]
          refine ⟨c', ?_⟩
          have hl := congrArg List.length t1
          rw [List.length_take, List.length_take] at hl
          omega

/-- the positional text determines digits and exponent -/
theorem digitsToDecStr_inj (ds ds' : List Nat) (g : NormDigits ds) (g' : NormDigits ds') (e e' : Int)
    (h : digitsToDecStr ds e = digitsToDecStr ds' e') : ds = ds' ∧ e = e' := by
  rw [digitsToDecStr_eq, digitsToDecStr_eq] at h
  obtain ⟨c, he⟩ := decStrC_inj _ _ (normChars_of ds g) (normChars_of ds' g') e e' h
  exact ⟨map_digitChar_inj ds ds' g.lt g'.lt c, he⟩

/-- the text of a non-zero magnitude is not `0`, and it does not start with `-` -/
theorem decStrC_ne_zero (cs : List Char) (g : NormChars cs) (e : Int) :
    decStrC cs e ≠ ['0'] ∧ (decStrC cs e).head? ≠ some '-' := by
  by_cases hA : e ≤ 0
  · rw [layoutA cs e hA]
    exact ⟨by simp, by simp⟩
  · by_cases hB : cs.length ≤ e.toNat
    · obtain ⟨b1, _, b3⟩ := layoutB cs g e (by omega) hB
      refine ⟨fun h => b3 (by rw [h]; rfl), ?_⟩
      rw [b1, head?_append_ne _ _ g.ne]
      intro h
      exact g.nominus (List.mem_of_mem_head? h)
    · obtain ⟨c1, c2⟩ := layoutC cs g e (by omega) (by omega)
      refine ⟨fun h => c2 (by rw [h]; rfl), ?_⟩
      intro h
      rw [c1] at h
      have hne : cs.take e.toNat ≠ [] := by
        intro h'
        have := congrArg List.length h'
        rw [List.length_take, List.length_nil] at this
        omega
      rw [head?_append_ne _ _ hne] at h
      exact g.nominus (List.mem_of_mem_take (List.mem_of_mem_head? h))

/-! ## the digits of `format_shortest` are in normal form -/

theorem digitsRev_last (f m : Nat) (hf : m < 2 ^ (f + 1)) (h0 : 0 < m) :
    ∃ d, (digitsRev (f + 1) m).getLast? = some d ∧ d ≠ 0 := by
  induction f generalizing m with
  | zero =>
    have hm : m < 10 := by simp only [Nat.zero_add, Nat.pow_one] at hf; omega
    unfold digitsRev
    rw [if_pos hm]
    exact ⟨m, rfl, by omega⟩
  | succ f ih =>
    unfold digitsRev
    split
    · exact ⟨m, rfl, by omega⟩
    · rename_i h
      obtain ⟨d, h1, h2⟩ := ih (m / 10) (by rw [Nat.pow_succ] at hf; omega) (by omega)
      refine ⟨d, ?_, h2⟩
      rw [List.getLast?_cons, h1]
      rfl

theorem decDigits_norm (m : Nat) (h0 : m ≠ 0) (h10 : m % 10 ≠ 0) : NormDigits (decDigits m) := by
  obtain ⟨f1, f2, _⟩ := decDigits_facts m
  obtain ⟨d, h1, h2⟩ := digitsRev_last m.log2 m Nat.lt_log2_self (Nat.pos_of_ne_zero h0)
  have hh : (decDigits m).head? = some d := by
    unfold decDigits; rw [List.head?_reverse]; exact h1
  refine ⟨?_, f1, ?_, ?_⟩
  · intro h; rw [h] at hh; simp at hh
  · rw [hh]; intro h; exact h2 (Option.some.inj h)
  · rw [f2]; intro h; exact h10 (Option.some.inj h)

theorem shortestDigits_norm (a : Nat) (ha : 0 < a) (hrep : repUnits a = true) : NormDigits (f64ShortestDigits a).1 := by
  obtain ⟨h0, h10⟩ := shortestDec_mant a ha hrep
  exact decDigits_norm _ h0 h10

/-- the text of a magnitude: `0`, or the positional digits -/
def magText (a : Nat) : List Char :=
  if a = 0 then ['0'] else digitsToDecStr (f64ShortestDigits a).1 (f64ShortestDigits a).2

theorem f64Display_fin (s : Bool) (a : Nat) : f64Display (.fin s a) = (if s then ['-'] else []) ++ magText a := rfl

theorem magText_head (a : Nat) (hrep : repUnits a = true) : (magText a).head? ≠ some '-' := by
  unfold magText
  by_cases h0 : a = 0
  · rw [if_pos h0]; decide
  · rw [if_neg h0, digitsToDecStr_eq]
    exact (decStrC_ne_zero _ (normChars_of _ (shortestDigits_norm a (by omega) hrep)) _).2

theorem magText_inj (a b : Nat) (ha : repUnits a = true) (hb : repUnits b = true) (hat : a < top) (hbt : b < top)
    (h : magText a = magText b) : a = b := by
  unfold magText at h
  by_cases ha0 : a = 0
  · by_cases hb0 : b = 0
    · rw [ha0, hb0]
    · exfalso
      rw [if_pos ha0, if_neg hb0, digitsToDecStr_eq] at h
      exact (decStrC_ne_zero _ (normChars_of _ (shortestDigits_norm b (by omega) hb)) _).1 h.symm
  · by_cases hb0 : b = 0
    · exfalso
      rw [if_neg ha0, if_pos hb0, digitsToDecStr_eq] at h
      exact (decStrC_ne_zero _ (normChars_of _ (shortestDigits_norm a (by omega) ha)) _).1 h
    · rw [if_neg ha0, if_neg hb0] at h
      obtain ⟨e1, e2⟩ := digitsToDecStr_inj _ _ (shortestDigits_norm a (by omega) ha)
        (shortestDigits_norm b (by omega) hb) _ _ h
      have r1 := display_roundtrip a (by omega) hat ha
      have r2 := display_roundtrip b (by omega) hbt hb
      rw [e1, e2, r2] at r1
      exact (F64.fin.inj r1).2.symm

/-- the sign prefix and the magnitude text can be read off the whole text -/
theorem display_fin_inj (s t : Bool) (a b : Nat) (ha : repUnits a = true) (hb : repUnits b = true)
    (h : f64Display (.fin s a) = f64Display (.fin t b)) : s = t ∧ magText a = magText b := by
  rw [f64Display_fin, f64Display_fin] at h
  have h1 := magText_head a ha
  have h2 := magText_head b hb
  cases s <;> cases t
  · exact ⟨rfl, by simpa using h⟩
  · exfalso
    simp only [Bool.false_eq_true, if_false, List.nil_append, if_true, List.cons_append] at h
    exact h1 (by rw [h]; rfl)
  · exfalso
    simp only [Bool.false_eq_true, if_false, List.nil_append, if_true, List.cons_append] at h
    exact h2 (by rw [← h]; rfl)
  · exact ⟨rfl, by simpa using h⟩

end V.FmtL
