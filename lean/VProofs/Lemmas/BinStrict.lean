import VModel.Bincode
/-!
# Strict decoders (C07)

`Strict enc dec P`: for every value `v` with `P v` whose encoding is shorter than `2^64` bytes
* `dec (enc v ++ r) = .ok (v, r)` (round trip, the rest is returned untouched),
* every proper prefix of `enc v` is rejected with an error,
and every encoding occupies at least one byte.  The notion is closed under sequencing (`Strict.pair`),
re-packing into a struct (`Strict.conv`) and length-prefixed repetition (`Strict.vec`, in `BinVec`).

`SafeDec dec`: the decoder never panics.
-/
namespace V.BinL
open V V.Bin

/-- the size bound under which every length prefix fits the u64 varint -/
abbrev bound : Nat := 2 ^ 64

structure Strict {α : Type} (enc : α → Bytes) (dec : Dec α) (P : α → Prop) : Prop where
  rt : ∀ v r, P v → (enc v).length < bound → dec (enc v ++ r) = .ok (v, r)
  pref : ∀ v p, P v → (enc v).length < bound → p <+: enc v → p ≠ enc v → ∃ e, dec p = .err e
  nonempty : ∀ v, 1 ≤ (enc v).length

/-- the decoder returns a value or an error on every input -/
def SafeDec {α : Type} (dec : Dec α) : Prop := ∀ bs, (dec bs).Safe

theorem prefix_append_cases {p a b : Bytes} (h : p <+: a ++ b) :
    (p <+: a ∧ p ≠ a) ∨ ∃ q, p = a ++ q ∧ q <+: b := by
  rcases List.prefix_or_prefix_of_prefix h (List.prefix_append a b) with h1 | h1
  · by_cases hp : p = a
    · right; exact ⟨[], by simp [hp], List.nil_prefix⟩
    · left; exact ⟨h1, hp⟩
  · obtain ⟨q, rfl⟩ := h1
    right; exact ⟨q, rfl, (List.prefix_append_right_inj a).1 h⟩

theorem prefix_length_lt {p a : Bytes} (h : p <+: a) (hne : p ≠ a) : p.length < a.length := by
  rcases Nat.lt_or_ge p.length a.length with h1 | h1
  · exact h1
  · exact absurd (List.IsPrefix.eq_of_length_le h h1) hne

/-! ## sequencing -/

def encPair {α β : Type} (ea : α → Bytes) (eb : β → Bytes) (x : α × β) : Bytes := ea x.1 ++ eb x.2

theorem Strict.pair {α β : Type} {ea : α → Bytes} {eb : β → Bytes} {da : Dec α} {db : Dec β}
    {P : α → Prop} {Q : β → Prop} (ha : Strict ea da P) (hb : Strict eb db Q) :
    Strict (encPair ea eb) (decPair da db) (fun x => P x.1 ∧ Q x.2) := by
  constructor
  · rintro ⟨a, b⟩ r ⟨hp, hq⟩ hlen
    simp only [encPair, List.length_append] at hlen
    simp only [encPair, decPair, List.append_assoc]
    rw [ha.rt a _ hp (by omega)]; simp only []; rw [hb.rt b r hq (by omega)]
  · rintro ⟨a, b⟩ p ⟨hp, hq⟩ hlen hpre hne
    simp only [encPair, List.length_append] at hlen
    simp only [encPair] at hpre hne
    simp only [decPair]
    rcases prefix_append_cases hpre with ⟨h1, h2⟩ | ⟨q, rfl, hq2⟩
    · obtain ⟨e, he⟩ := ha.pref a p hp (by omega) h1 h2
      rw [he]; exact ⟨e, rfl⟩
    · rw [ha.rt a q hp (by omega)]; simp only []
      have : q ≠ eb b := by intro h; apply hne; rw [h]
      obtain ⟨e, he⟩ := hb.pref b q hq (by omega) hq2 this
      rw [he]; exact ⟨e, rfl⟩
  · rintro ⟨a, b⟩
    have := ha.nonempty a
    simp only [encPair, List.length_append]; omega

/-- re-pack the decoded value (`decMap`), with a pointwise-equal encoder and a stronger precondition -/
theorem Strict.conv {α β : Type} {enc : α → Bytes} {dec : Dec α} {P : α → Prop} (h : Strict enc dec P)
    {enc' : β → Bytes} {P' : β → Prop} (f : α → β) (g : β → α) (hfg : ∀ v, f (g v) = v)
    (henc : ∀ v, enc' v = enc (g v)) (hP : ∀ v, P' v → P (g v)) :
    Strict enc' (decMap f dec) P' := by
  constructor
  · intro v r hp hlen
    rw [henc] at hlen ⊢
    simp only [decMap]; rw [h.rt (g v) r (hP v hp) hlen]; simp only [hfg]
  · intro v p hp hlen hpre hne
    rw [henc] at hlen hpre hne
    obtain ⟨e, he⟩ := h.pref (g v) p (hP v hp) hlen hpre hne
    simp only [decMap]; rw [he]; exact ⟨e, rfl⟩
  · intro v; rw [henc]; exact h.nonempty (g v)

theorem Strict.mono {α : Type} {enc : α → Bytes} {dec : Dec α} {P P' : α → Prop} (h : Strict enc dec P)
    (hP : ∀ v, P' v → P v) : Strict enc dec P' :=
  ⟨fun v r hp hl => h.rt v r (hP v hp) hl, fun v p hp hl => h.pref v p (hP v hp) hl, h.nonempty⟩

/-! ## counted repetition -/

theorem encList_cons {α : Type} (e : α → Bytes) (x : α) (xs : List α) :
    encList e (x :: xs) = e x ++ encList e xs := by
  simp [encList]

theorem encList_nil {α : Type} (e : α → Bytes) : encList e ([] : List α) = [] := rfl

theorem length_le_encList {α : Type} {e : α → Bytes} (hne : ∀ v, 1 ≤ (e v).length) (xs : List α) :
    xs.length ≤ (encList e xs).length := by
  induction xs with
  | nil => simp
  | cons x xs ih =>
    have := hne x
    simp only [encList_cons, List.length_cons, List.length_append]; omega

theorem mem_length_le_encList {α : Type} (e : α → Bytes) {x : α} {xs : List α} (hx : x ∈ xs) :
    (e x).length ≤ (encList e xs).length := by
  induction xs with
  | nil => cases hx
  | cons y ys ih =>
    simp only [encList_cons, List.length_append]
    rcases List.mem_cons.1 hx with rfl | h
    · omega
    · have := ih h; omega

theorem decN_rt {α : Type} {e : α → Bytes} {d : Dec α} {P : α → Prop} (h : Strict e d P) :
    ∀ (xs : List α) r, (∀ x ∈ xs, P x) → (encList e xs).length < bound →
      decN d xs.length (encList e xs ++ r) = .ok (xs, r) := by
  intro xs; induction xs with
  | nil => intro r _ _; simp [decN, encList]
  | cons x xs ih =>
    intro r hP hlen
    simp only [encList_cons, List.length_append] at hlen
    simp only [List.length_cons, decN, encList_cons, List.append_assoc]
    rw [h.rt x _ (hP x (by simp)) (by omega)]; simp only []
    rw [ih r (fun y hy => hP y (by simp [hy])) (by omega)]

theorem decN_pref {α : Type} {e : α → Bytes} {d : Dec α} {P : α → Prop} (h : Strict e d P) :
    ∀ (xs : List α) p, (∀ x ∈ xs, P x) → (encList e xs).length < bound → p <+: encList e xs →
      p ≠ encList e xs → ∃ er, decN d xs.length p = .err er := by
  intro xs; induction xs with
  | nil => intro p _ _ hp hne; simp [encList] at hp hne; exact absurd hp hne
  | cons x xs ih =>
    intro p hP hlen hp hne
    simp only [encList_cons, List.length_append] at hlen
    simp only [encList_cons] at hp hne
    simp only [List.length_cons, decN]
    rcases prefix_append_cases hp with ⟨h1, h2⟩ | ⟨q, rfl, hq2⟩
    · obtain ⟨er, he⟩ := h.pref x p (hP x (by simp)) (by omega) h1 h2
      rw [he]; exact ⟨er, rfl⟩
    · rw [h.rt x q (hP x (by simp)) (by omega)]; simp only []
      have : q ≠ encList e xs := by intro hh; apply hne; rw [hh]
      obtain ⟨er, he⟩ := ih q (fun y hy => hP y (by simp [hy])) (by omega) hq2 this
      rw [he]; exact ⟨er, rfl⟩

/-! ## safety -/

theorem SafeDec.pair {α β : Type} {da : Dec α} {db : Dec β} (ha : SafeDec da) (hb : SafeDec db) :
    SafeDec (decPair da db) := by
  intro bs
  have h1 := ha bs
  simp only [decPair]
  cases hda : da bs with
  | ok x =>
    obtain ⟨a, r⟩ := x
    have h2 := hb r
    simp only []
    cases hdb : db r with
    | ok y => simp [Res.Safe]
    | err e => simp [Res.Safe]
    | panic s => rw [hdb] at h2; exact h2.elim
    | ub s => rw [hdb] at h2; exact h2.elim
  | err e => simp [Res.Safe]
  | panic s => rw [hda] at h1; exact h1.elim
  | ub s => rw [hda] at h1; exact h1.elim

theorem SafeDec.map {α β : Type} {d : Dec α} (f : α → β) (h : SafeDec d) : SafeDec (decMap f d) := by
  intro bs
  have h1 := h bs
  simp only [decMap]
  cases hd : d bs with
  | ok x => simp [Res.Safe]
  | err e => simp [Res.Safe]
  | panic s => rw [hd] at h1; exact h1.elim
  | ub s => rw [hd] at h1; exact h1.elim

theorem SafeDec.decN {α : Type} {d : Dec α} (h : SafeDec d) : ∀ n, SafeDec (decN d n) := by
  intro n; induction n with
  | zero => intro bs; simp [Bin.decN, Res.Safe]
  | succ n ih =>
    intro bs
    have h1 := h bs
    simp only [Bin.decN]
    cases hd : d bs with
    | ok x =>
      obtain ⟨a, r⟩ := x
      have h2 := ih r
      simp only []
      cases hdb : Bin.decN d n r with
      | ok y => simp [Res.Safe]
      | err e => simp [Res.Safe]
      | panic s => rw [hdb] at h2; exact h2.elim
      | ub s => rw [hdb] at h2; exact h2.elim
    | err e => simp [Res.Safe]
    | panic s => rw [hd] at h1; exact h1.elim
    | ub s => rw [hd] at h1; exact h1.elim

end V.BinL
