import VProofs.Lemmas.Iter
/-! Helper lemmas for C02: the declarative reading of `specSeg` / `specTokens` for arbitrary label vectors
(any mix of `N`, `W`, `U`) and the order / no-duplicates facts. -/
namespace V.C02L

/-- the declarative description of a reported segment `[st, en)` of the label vector `bs` -/
def Decl (bs : List B) (st en : Nat) : Prop :=
  st < en ∧ en ≤ bs.length + 1 ∧
  (st = 0 ∨ bs[st - 1]? = some B.W) ∧ (en = bs.length + 1 ∨ bs[en - 1]? = some B.W) ∧
  ∀ k, st ≤ k → k + 1 < en → bs[k]? = some B.N

theorem drop_cons {α : Type} {l : List α} {n : Nat} {b : α} {r : List α} (h : l.drop n = b :: r) :
    l[n]? = some b ∧ l.drop (n + 1) = r := by
  constructor
  · have h0 : (l.drop n)[0]? = some b := by rw [h]; rfl
    rw [List.getElem?_drop] at h0
    simpa using h0
  · have h1 : (l.drop n).drop 1 = r := by rw [h]; rfl
    rw [List.drop_drop] at h1
    exact h1

/-- a segment cannot end just after a label that is not `W` -/
theorem decl_end_ne {bs : List B} {st en pos : Nat} (hd : Decl bs st en) (hlt : pos < bs.length)
    (hne : bs[pos]? ≠ some B.W) : en ≠ pos + 1 := by
  intro he
  obtain ⟨_, _, _, h4, _⟩ := hd
  subst he
  rcases h4 with h4 | h4
  · omega
  · rw [Nat.add_sub_cancel] at h4
    exact hne h4

/-- the segment closed at position `pos` (end of the labels or a `W` at `pos`) -/
theorem close_iff (bs : List B) (start pos : Nat) (dirty : Bool)
    (hpos : pos ≤ bs.length) (hsp : start ≤ pos)
    (hstart : start = 0 ∨ bs[start - 1]? = some B.W)
    (hnw : ∀ k, start ≤ k → k < pos → bs[k]? ≠ some B.W)
    (hdirty : dirty = true ↔ ∃ k, start ≤ k ∧ k < pos ∧ bs[k]? = some B.U)
    (hclose : pos = bs.length ∨ bs[pos]? = some B.W) (st en : Nat) :
    (st, en) ∈ (if dirty then [] else [(start, pos + 1)]) ↔ Decl bs st en ∧ en = pos + 1 := by
  constructor
  · intro hm
    cases dirty with
    | true => simp at hm
    | false =>
      simp only [Bool.false_eq_true, if_false, List.mem_singleton, Prod.mk.injEq] at hm
      obtain ⟨rfl, rfl⟩ := hm
      refine ⟨⟨by omega, by omega, hstart, ?_, ?_⟩, rfl⟩
      · rw [Nat.add_sub_cancel]
        rcases hclose with h | h
        · left; omega
        · right; exact h
      · intro k hk1 hk2
        have hklt : k < bs.length := by omega
        have hnw' := hnw k hk1 (by omega)
        have hnu : bs[k]? ≠ some B.U := by
          intro hu
          have : false = true := hdirty.mpr ⟨k, hk1, by omega, hu⟩
          exact absurd this (by simp)
        rw [List.getElem?_eq_getElem hklt] at hnw' hnu ⊢
        cases hx : bs[k] with
        | N => rfl
        | W => rw [hx] at hnw'; exact absurd rfl hnw'
        | U => rw [hx] at hnu; exact absurd rfl hnu
  · rintro ⟨⟨h1, h2, h3, h4, h5⟩, rfl⟩
    have hst : st = start := by
      rcases Nat.lt_trichotomy st start with hlt | heq | hgt
      · exfalso
        rcases hstart with h0 | hw
        · omega
        · have := h5 (start - 1) (by omega) (by omega)
          rw [hw] at this
          exact absurd this (by simp)
      · exact heq
      · exfalso
        rcases h3 with h0 | hw
        · omega
        · exact hnw (st - 1) (by omega) (by omega) hw
    subst hst
    cases dirty with
    | false => simp
    | true =>
      exfalso
      obtain ⟨k, hk1, hk2, hk3⟩ := hdirty.mp rfl
      have := h5 k hk1 (by omega)
      rw [hk3] at this
      exact absurd this (by simp)

/-- generalised invariant: with the whole label vector `bs`, `rest = bs.drop pos`, the current segment starting at
`start` (a legal start) with no `W` in `[start, pos)` and `dirty` recording a `U` there, the members of
`specSeg rest start pos dirty` are exactly the declaratively described segments ending after `pos` -/
theorem specSeg_decl (bs : List B) (rest : List B) :
    ∀ (start pos : Nat) (dirty : Bool), bs.drop pos = rest → pos ≤ bs.length → start ≤ pos →
      (start = 0 ∨ bs[start - 1]? = some B.W) →
      (∀ k, start ≤ k → k < pos → bs[k]? ≠ some B.W) →
      (dirty = true ↔ ∃ k, start ≤ k ∧ k < pos ∧ bs[k]? = some B.U) →
      ∀ st en, (st, en) ∈ specSeg rest start pos dirty ↔ Decl bs st en ∧ pos < en := by
  induction rest with
  | nil =>
    intro start pos dirty hdrop hpos hsp hstart hnw hdirty st en
    have hlen : pos = bs.length := by
      have := congrArg List.length hdrop
      simp only [List.length_drop, List.length_nil] at this
      omega
    simp only [specSeg]
    rw [close_iff bs start pos dirty hpos hsp hstart hnw hdirty (Or.inl hlen) st en]
    constructor
    · rintro ⟨hd, he⟩; exact ⟨hd, by omega⟩
    · rintro ⟨hd, he⟩; exact ⟨hd, by have := hd.2.1; omega⟩
  | cons b r ih =>
    intro start pos dirty hdrop hpos hsp hstart hnw hdirty st en
    obtain ⟨hb, hdrop'⟩ := drop_cons hdrop
    have hlt : pos < bs.length := by
      rcases Nat.lt_or_ge pos bs.length with h | h
      · exact h
      · rw [List.getElem?_eq_none h] at hb; exact absurd hb (by simp)
    -- for `N` and `U`: nothing ends at `pos + 1`
    have skip : bs[pos]? ≠ some B.W → ((Decl bs st en ∧ pos + 1 < en) ↔ (Decl bs st en ∧ pos < en)) := by
      intro hne
      constructor
      · rintro ⟨hd, he⟩; exact ⟨hd, by omega⟩
      · rintro ⟨hd, he⟩
        have := decl_end_ne hd hlt hne
        exact ⟨hd, by omega⟩
    cases b with
    | N =>
      simp only [specSeg]
      rw [ih start (pos + 1) dirty hdrop' (by omega) (by omega) hstart ?_ ?_ st en]
      · exact skip (by rw [hb]; simp)
      · intro k hk1 hk2
        rcases Nat.lt_or_ge k pos with h | h
        · exact hnw k hk1 h
        · have : k = pos := by omega
          subst this; rw [hb]; simp
      · rw [hdirty]
        constructor
        · rintro ⟨k, h1, h2, h3⟩; exact ⟨k, h1, by omega, h3⟩
        · rintro ⟨k, h1, h2, h3⟩
          rcases Nat.lt_or_ge k pos with h | h
          · exact ⟨k, h1, h, h3⟩
          · have : k = pos := by omega
            subst this; rw [hb] at h3; exact absurd h3 (by simp)
    | U =>
      simp only [specSeg]
      rw [ih start (pos + 1) true hdrop' (by omega) (by omega) hstart ?_ ?_ st en]
      · exact skip (by rw [hb]; simp)
      · intro k hk1 hk2
        rcases Nat.lt_or_ge k pos with h | h
        · exact hnw k hk1 h
        · have : k = pos := by omega
          subst this; rw [hb]; simp
      · constructor
        · intro _; exact ⟨pos, hsp, by omega, hb⟩
        · intro _; rfl
    | W =>
      simp only [specSeg, List.mem_append]
      rw [close_iff bs start pos dirty hpos hsp hstart hnw hdirty (Or.inr hb) st en]
      rw [ih (pos + 1) (pos + 1) false hdrop' (by omega) (Nat.le_refl _)
        (Or.inr (by rw [Nat.add_sub_cancel]; exact hb)) (fun k h1 h2 => by omega) ?_ st en]
      · constructor
        · rintro (⟨hd, he⟩ | ⟨hd, he⟩)
          · exact ⟨hd, by omega⟩
          · exact ⟨hd, by omega⟩
        · rintro ⟨hd, he⟩
          rcases Nat.lt_or_ge (pos + 1) en with h | h
          · exact Or.inr ⟨hd, h⟩
          · exact Or.inl ⟨hd, by omega⟩
      · constructor
        · intro h; exact absurd h (by simp)
        · rintro ⟨k, h1, h2, _⟩; omega

theorem specTokens_decl (bs : List B) (st en : Nat) : (st, en) ∈ specTokens bs ↔ Decl bs st en := by
  unfold specTokens
  rw [specSeg_decl bs bs 0 0 false (List.drop_zero) (Nat.zero_le _) (Nat.le_refl _) (Or.inl rfl)
    (fun k _ h => by omega) ?_ st en]
  · constructor
    · exact fun h => h.1
    · intro h; exact ⟨h, by have := h.1; omega⟩
  · constructor
    · intro h; exact absurd h (by simp)
    · rintro ⟨k, _, h2, _⟩; omega

/-! ## order -/

/-- members start at or after `start` and are non-empty; the list is ordered by position -/
theorem specSeg_sorted (rest : List B) :
    ∀ (start pos : Nat) (dirty : Bool), start ≤ pos →
      (∀ se ∈ specSeg rest start pos dirty, start ≤ se.1 ∧ se.1 < se.2) ∧
      List.Pairwise (fun a b : Nat × Nat => a.2 ≤ b.1) (specSeg rest start pos dirty) := by
  induction rest with
  | nil =>
    intro start pos dirty h
    cases dirty
    · simp only [specSeg, Bool.false_eq_true, if_false, List.mem_singleton, List.pairwise_cons,
        List.not_mem_nil, false_imp_iff, implies_true, List.Pairwise.nil, and_true]
      intro se hse; subst hse; simp only; omega
    · simp [specSeg]
  | cons b r ih =>
    intro start pos dirty h
    cases b with
    | N => simp only [specSeg]; exact ih start (pos + 1) dirty (by omega)
    | U => simp only [specSeg]; exact ih start (pos + 1) true (by omega)
    | W =>
      simp only [specSeg]
      obtain ⟨ih1, ih2⟩ := ih (pos + 1) (pos + 1) false (Nat.le_refl _)
      have hhead : ∀ se ∈ (if dirty = true then [] else [(start, pos + 1)]),
          se.1 = start ∧ se.2 = pos + 1 := by
        intro se hse
        cases dirty
        · simp only [Bool.false_eq_true, if_false, List.mem_singleton] at hse
          subst hse; exact ⟨rfl, rfl⟩
        · simp at hse
      constructor
      · intro se hse
        rcases List.mem_append.mp hse with hse | hse
        · have := hhead se hse; omega
        · have := ih1 se hse; omega
      · rw [List.pairwise_append]
        refine ⟨by cases dirty <;> simp, ih2, ?_⟩
        intro a ha b' hb
        have h1 := hhead a ha
        have h2 := ih1 b' hb
        omega

theorem specTokens_sorted (bs : List B) :
    (specTokens bs).Pairwise (fun a b => a.2 ≤ b.1) ∧ (specTokens bs).Nodup := by
  obtain ⟨h1, h2⟩ := specSeg_sorted bs 0 0 false (Nat.le_refl _)
  refine ⟨h2, ?_⟩
  unfold List.Nodup
  refine List.Pairwise.imp_of_mem ?_ h2
  intro a b ha _ hab heq
  subst heq
  have := h1 a ha
  omega

end V.C02L
