import VProofs.Lemmas.KyTrie
import VProofs.Lemmas.BinVarint
/-!
# C17 — sizes: every count of a file shorter than 4 GiB is a `u32`
-/
namespace V.C17L
open V V.Ky
open V.Bin (Bytes leBytes)

theorem encU8_length (n : Nat) : (encU8 n).length = 1 := BinL.leBytes_length 1 n
theorem encU16_length (n : Nat) : (encU16 n).length = 2 := BinL.leBytes_length 2 n
theorem encU32_length (n : Nat) : (encU32 n).length = 4 := BinL.leBytes_length 4 n
theorem encI16_length (x : Int) : (encI16 x).length = 2 := BinL.leBytes_length 2 _

theorem length_le_flatMap {α : Type} {e : α → Bytes} (hne : ∀ v, 1 ≤ (e v).length) (xs : List α) :
    xs.length ≤ (xs.flatMap e).length := BinL.length_le_encList hne xs

theorem mem_length_le_flatMap {α : Type} (e : α → Bytes) {x : α} {xs : List α} (hx : x ∈ xs) :
    (e x).length ≤ (xs.flatMap e).length := BinL.mem_length_le_encList e hx

theorem encVecOf_length {α : Type} (e : α → Bytes) (xs : List α) :
    (encVecOf e xs).length = 4 + (xs.flatMap e).length := by
  simp [encVecOf, encU32_length]

theorem length_le_encVecOf {α : Type} {e : α → Bytes} (hne : ∀ v, 1 ≤ (e v).length) (xs : List α) :
    xs.length ≤ (encVecOf e xs).length := by
  have := length_le_flatMap hne xs
  rw [encVecOf_length]; omega

theorem mem_length_le_encVecOf {α : Type} (e : α → Bytes) {x : α} {xs : List α} (hx : x ∈ xs) :
    (e x).length ≤ (encVecOf e xs).length := by
  have := mem_length_le_flatMap e hx
  rw [encVecOf_length]; omega

theorem length_le_encI16s (v : List Int) : v.length ≤ (encI16s v).length :=
  length_le_encVecOf (fun x => by rw [encI16_length]; omega) v

theorem length_le_encStr (cm : List Char) (s : List Char) : s.length ≤ (encStr cm s).length :=
  length_le_encVecOf (fun c => by simp only [encChar]; rw [encU16_length]; omega) s

theorem encState_length_pos (cm : List Char) (st : KState) : 1 ≤ (encState cm st).length := by
  simp only [encState, List.length_append, encU8_length]; omega

/-- the sizes of a dictionary are bounded by the size of its encoding -/
theorem encDict_bounds {τ : Type} (cm : List Char) (nD : Nat) (keys : List (List Char)) (e : τ → Bytes)
    (entries : List τ) :
    (trieStates keys).length ≤ (encDict cm nD keys e entries).length ∧
    (keys.isEmpty = false → (encVecOf e entries).length ≤ (encDict cm nD keys e entries).length) := by
  by_cases hk : keys.isEmpty = true
  · have : keys = [] := List.isEmpty_iff.1 hk
    subst this
    refine ⟨?_, by simp⟩
    simp only [encDict, List.isEmpty_nil, if_true, List.length_append, encU8_length, encU32_length]
    simp [trieStates, trieNodes]
  · simp only [encDict]
    rw [if_neg hk]
    simp only [List.length_append, encU8_length, encU32_length]
    have := length_le_flatMap (encState_length_pos cm) (trieStates keys)
    exact ⟨by omega, fun _ => by omega⟩

theorem encLookup_length (k : AbsKytea) : (encLookup k).length =
    1 + (encDict k.charMap 0 (k.charNgrams.map (·.1)) encI16s (k.charNgrams.map (·.2))).length
      + (encDict k.charMap 0 (k.typeNgrams.map (·.1)) encI16s (k.typeNgrams.map (·.2))).length
      + (encDict k.charMap 0 [] encI16s []).length
      + (encI16s k.dictVec).length + (encI16s [k.bias]).length + (encI16s []).length + (encI16s []).length := by
  simp only [encLookup, List.length_append, encU8_length]

theorem encodeKytea_length (k : AbsKytea) : (encodeKytea k).length =
    (encHeader k).length + (encWordseg k).length + (encGlobals k).length
      + (encDict k.charMap k.nDicts (k.words.map (·.1)) (encTagEntry k) k.words).length
      + (encDict (τ := Unit) k.charMap 0 [] (fun _ => []) []).length := by
  simp only [encodeKytea, List.length_append]

theorem encWordseg_length (k : AbsKytea) : (encLookup k).length ≤ (encWordseg k).length := by
  simp only [encWordseg, List.length_append]; omega

structure Sizes (k : AbsKytea) (n : Nat) : Prop where
  cStates : (trieStates (k.charNgrams.map (·.1))).length ≤ n
  tStates : (trieStates (k.typeNgrams.map (·.1))).length ≤ n
  wStates : (trieStates (k.words.map (·.1))).length ≤ n
  cCount : k.charNgrams.length ≤ n
  tCount : k.typeNgrams.length ≤ n
  wCount : k.words.length ≤ n
  cVec : ∀ e ∈ k.charNgrams, e.2.length ≤ n
  tVec : ∀ e ∈ k.typeNgrams, e.2.length ≤ n
  wLen : ∀ e ∈ k.words, e.1.length ≤ n
  dictVec : k.dictVec.length ≤ n

theorem ngram_bounds (cm : List Char) (l : List (List Char × List Int)) (hne : l ≠ []) :
    l.length ≤ (encDict cm 0 (l.map (·.1)) encI16s (l.map (·.2))).length ∧
    ∀ e ∈ l, e.2.length ≤ (encDict cm 0 (l.map (·.1)) encI16s (l.map (·.2))).length := by
  have hk : (l.map (·.1)).isEmpty = false := by
    cases l with
    | nil => exact absurd rfl hne
    | cons a t => rfl
  have h1 := (encDict_bounds cm 0 (l.map (·.1)) encI16s (l.map (·.2))).2 hk
  constructor
  · have := length_le_encVecOf (e := encI16s) (fun v => by rw [encI16s, encVecOf_length]; omega) (l.map (·.2))
    simp only [List.length_map] at this
    omega
  · intro e he
    have h2 := mem_length_le_encVecOf encI16s (List.mem_map.2 ⟨e, he, rfl⟩ : e.2 ∈ l.map (·.2))
    have h3 := length_le_encI16s e.2
    omega

theorem word_bounds (k : AbsKytea) :
    k.words.length ≤ (encDict k.charMap k.nDicts (k.words.map (·.1)) (encTagEntry k) k.words).length ∧
    ∀ e ∈ k.words, e.1.length ≤ (encDict k.charMap k.nDicts (k.words.map (·.1)) (encTagEntry k) k.words).length := by
  by_cases hne : k.words = []
  · rw [hne]; simp
  · have hk : (k.words.map (·.1)).isEmpty = false := by
      cases h : k.words with
      | nil => exact absurd h hne
      | cons a t => rfl
    have h1 := (encDict_bounds k.charMap k.nDicts (k.words.map (·.1)) (encTagEntry k) k.words).2 hk
    have hpos : ∀ e, 1 ≤ (encTagEntry k e).length := by
      intro e
      simp only [encTagEntry, List.length_append, encU8_length]; omega
    constructor
    · have := length_le_encVecOf hpos k.words
      omega
    · intro e he
      have h2 := mem_length_le_encVecOf (encTagEntry k) he
      have h3 := length_le_encStr k.charMap e.1
      have h4 : (encStr k.charMap e.1).length ≤ (encTagEntry k e).length := by
        simp only [encTagEntry, List.length_append]; omega
      omega

/-- every count is bounded by the length of the file -/
theorem sizes (k : AbsKytea) (hc : k.charNgrams ≠ []) (ht : k.typeNgrams ≠ []) : Sizes k (encodeKytea k).length := by
  have hlen := encodeKytea_length k
  have hws := encWordseg_length k
  have hlk := encLookup_length k
  have c1 := (encDict_bounds k.charMap 0 (k.charNgrams.map (·.1)) encI16s (k.charNgrams.map (·.2))).1
  have t1 := (encDict_bounds k.charMap 0 (k.typeNgrams.map (·.1)) encI16s (k.typeNgrams.map (·.2))).1
  have w1 := (encDict_bounds k.charMap k.nDicts (k.words.map (·.1)) (encTagEntry k) k.words).1
  have c2 := ngram_bounds k.charMap k.charNgrams hc
  have t2 := ngram_bounds k.charMap k.typeNgrams ht
  have w2 := word_bounds k
  have dv := length_le_encI16s k.dictVec
  constructor
  · omega
  · omega
  · omega
  · omega
  · omega
  · omega
  · intro e he; have := c2.2 e he; omega
  · intro e he; have := t2.2 e he; omega
  · intro e he; have := w2.2 e he; omega
  · omega

theorem trieFuel_le (k : AbsKytea) (hc : k.charNgrams ≠ []) (ht : k.typeNgrams ≠ []) :
    trieFuel k ≤ (encodeKytea k).length := by
  have s := sizes k hc ht
  have := s.cStates; have := s.tStates; have := s.wStates
  simp only [trieFuel]; omega

end V.C17L
