import VModel.Trainer
import VModel.Spec
import VProofs.Lemmas.TagAsmCollect
import VProofs.Lemmas.TagAsmSizes
import VProofs.Lemmas.TagAsmTokens
/-!
# C12 — Tag models reflect exactly the tags seen in training

Property theorems only (helper lemmas live in `VProofs/Lemmas/TagAsm*.lean`).
-/
namespace V

/-- per tag category the model lists exactly the distinct tags observed for the token, each once -/
theorem C12_candidates (examples : List (List Tag)) :
    (∀ c ∈ collectTags examples, c.Nodup) ∧
    (collectTags examples).length = examples.foldl (fun acc x => max acc x.length) 0 ∧
    ∀ (j : Nat) (t : List Char), t ∈ (collectTags examples).getD j [] ↔ ∃ ts ∈ examples, ts[j]? = some (some t) := by
  exact C12L.collectTags_spec examples

/-- the assembled tag model of a token: its candidate lists are the observed tags, and the bias and every weight vector
have exactly one entry per trainable candidate (categories with at least two candidates) -/
theorem C12_sizes (token : List Char) (examples : List (List Tag)) (trace : List TagTraceItem) (tm : TagModel)
    (h : assembleTag token examples trace = .ok tm) :
    tm.token = token ∧ tm.tags = collectTags examples ∧ tm.bias.length = nClass tm.tags ∧
    (∀ d ∈ tm.charNgrams, ∀ w ∈ d.weights, w.weights.length = nClass tm.tags) ∧
    (∀ d ∈ tm.typeNgrams, ∀ w ∈ d.weights, w.weights.length = nClass tm.tags) := by
  exact C12L.assembleTag_spec token examples trace tm h

/-- which tokens get a tag model: every surface that occurs with tag slots in the corpus, plus every surface that only
occurs in the tag dictionary with at least one tag; corpus examples win over the dictionary entry; each token once -/
theorem C12_tokens (corpus : List TagExample) (dict : List (List Char × List Tag)) (trace : List TagTraceItem)
    (tms : List TagModel) (h : assembleTags corpus dict trace = .ok tms) :
    (tms.map (·.token)).Nodup ∧
    (∀ tok, tok ∈ tms.map (·.token) ↔
      (∃ e ∈ corpus, e.surface = tok) ∨ (∃ d ∈ dict, d.1 = tok ∧ d.2.any Option.isSome = true)) ∧
    (∀ tm ∈ tms, (∃ e ∈ corpus, e.surface = tm.token) →
      tm.tags = collectTags ((corpus.filter fun e => e.surface = tm.token).map (·.tags))) := by
  exact C12L.assembleTags_spec corpus dict trace tms h

/-- what prediction then does with such a tag model, for ANY class scores: a category seen with a single tag always gets
that tag, a category seen with several gets one of them, a category never seen gets none -/
theorem C12_pick (cats : List (List (List Char))) (scores : List Int) (j : Nat) (cands : List (List Char))
    (hj : cats[j]? = some cands) :
    ∃ r, (specPickTags cats scores)[j]? = some r ∧
      (cands = [] → r = none) ∧
      (∀ t, cands = [t] → r = some t) ∧
      (2 ≤ cands.length → ∃ t ∈ cands, r = some t) := by
  exact C12L.pick_spec cats scores j cands hj

/-! non-vacuity: three tag rows, an absent tag (`none`), a repeated tag, and a second category seen only once -/
example : collectTags [[some ['a'], none], [some ['b'], some ['x']], [some ['a']]] = [[['a'], ['b']], [['x']]] := by
  decide

example : specPickTags [[['a'], ['b']], [['x']], []] [1, 5] = [some ['b'], some ['x'], none] := by decide

end V
