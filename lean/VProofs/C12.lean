import VModel.Trainer
import VModel.Spec
import VProofs.Lemmas.TagAsmCollect
import VProofs.Lemmas.TagAsmSizes
import VProofs.Lemmas.TagAsmTokens
import VProofs.Lemmas.PermTag
/-!
# C12 — Tag models reflect exactly the tags seen in training

Property theorems only (helper lemmas live in `VProofs/Lemmas/TagAsm*.lean`).
-/
namespace V

/-- per tag category the model lists exactly the distinct tags observed for the token, each once -/
theorem C12_candidates (examples : List (List Tag)) :
    (∀ c ∈ collectTags examples, c.Nodup) ∧
    (collectTags examples).length = examples.foldl (fun acc x => max acc x.length) 0 ∧
    ∀ (j : Nat) (t : List Char), t ∈ (collectTags examples).getD j [] ↔ ∃ ts ∈ examples, ts[j]? = some (some t) := by
  exact C12L.collectTags_spec examples

/-- the assembled tag model of a token: its candidate lists are the observed tags, and the bias and every weight vector
have exactly one entry per trainable candidate (categories with at least two candidates) -/
theorem C12_sizes (token : List Char) (examples : List (List Tag)) (trace : List TagTraceItem) (tm : TagModel)
    (h : assembleTag token examples trace = .ok tm) :
    tm.token = token ∧ tm.tags = collectTags examples ∧ tm.bias.length = nClass tm.tags ∧
    (∀ d ∈ tm.charNgrams, ∀ w ∈ d.weights, w.weights.length = nClass tm.tags) ∧
    (∀ d ∈ tm.typeNgrams, ∀ w ∈ d.weights, w.weights.length = nClass tm.tags) := by
  exact C12L.assembleTag_spec token examples trace tm h

/-- which tokens get a tag model: every surface that occurs with tag slots in the corpus, plus every surface that only
occurs in the tag dictionary with at least one tag; corpus examples win over the dictionary entry; each token once -/
theorem C12_tokens (corpus : List TagExample) (dict : List (List Char × List Tag)) (trace : List TagTraceItem)
    (tms : List TagModel) (h : assembleTags corpus dict trace = .ok tms) :
    (tms.map (·.token)).Nodup ∧
    (∀ tok, tok ∈ tms.map (·.token) ↔
      (∃ e ∈ corpus, e.surface = tok) ∨ (∃ d ∈ dict, d.1 = tok ∧ d.2.any Option.isSome = true)) ∧
    (∀ tm ∈ tms, (∃ e ∈ corpus, e.surface = tm.token) →
      tm.tags = collectTags ((corpus.filter fun e => e.surface = tm.token).map (·.tags))) := by
  exact C12L.assembleTags_spec corpus dict trace tms h

/-- what prediction then does with such a tag model, for ANY class scores: a category seen with a single tag always gets
that tag, a category seen with several gets one of them, a category never seen gets none -/
theorem C12_pick (cats : List (List (List Char))) (scores : List Int) (j : Nat) (cands : List (List Char))
    (hj : cats[j]? = some cands) :
    ∃ r, (specPickTags cats scores)[j]? = some r ∧
      (cands = [] → r = none) ∧
      (∀ t, cands = [t] → r = some t) ∧
      (2 ≤ cands.length → ∃ t ∈ cands, r = some t) := by
  exact C12L.pick_spec cats scores j cands hj

/-! non-vacuity: three tag rows, an absent tag (`none`), a repeated tag, and a second category seen only once -/
example : collectTags [[some ['a'], none], [some ['b'], some ['x']], [some ['a']]] = [[['a'], ['b']], [['x']]] := by
  decide

example : specPickTags [[['a'], ['b']], [['x']], []] [1, 5] = [some ['b'], some ['x'], none] := by decide

end V

/-! ## hash-map iteration orders in `tag_trainer.rs` are not observable

`train_tag` walks `feature_ids` — a hashbrown `HashMap` filled by `gen_feature_vecs` — once per classifier (one classifier per
token and tag category, i.e. per `(token, class_offset)`); for every feature it writes one weight per class.  The tokens come
from a `BTreeMap` and the categories and classes from `Vec`s, so the real code can only reorder the FEATURES (the runs of
trace items of one feature) inside one classifier.  The theorems below allow more: ANY permutation of the whole trace, as long
as no two items write the same cell `(token, feature-or-bias, class_offset + cls)` — which holds for every real trace, whose
features are the distinct keys of a map and whose class slots are distinct.  The outcomes are equal as `Res` values (all panics
of one of the three folds carry the same site string, so no "which panic first" effect as in C09). -/
namespace V

/-- **order independence (trace)**: any permutation of a trace whose items write pairwise different cells gives the same tag
models (or the same panic) -/
theorem C12_assemble_perm (corpus : List TagExample) (dict : List (List Char × List Tag)) (trace₁ trace₂ : List TagTraceItem)
    (hp : trace₁.Perm trace₂) (hnd : (trace₁.map fun t => (t.token, t.feat, t.offset + t.cls)).Nodup) :
    assembleTags corpus dict trace₁ = assembleTags corpus dict trace₂ :=
  C12L.assembleTags_perm_trace corpus dict hp hnd

/-- the same for the model of one token (`train_tag`) -/
theorem C12_assembleTag_perm (token : List Char) (examples : List (List Tag)) (trace₁ trace₂ : List TagTraceItem)
    (hp : trace₁.Perm trace₂) (hnd : (trace₁.map fun t => (t.token, t.feat, t.offset + t.cls)).Nodup) :
    assembleTag token examples trace₁ = assembleTag token examples trace₂ :=
  C12L.assembleTag_perm token examples hp hnd

/-- exactly what the real code can do: inside one classifier (between the items `pre` written before and `post` written after)
the per-feature runs `runs₁` come in another order `runs₂` -/
theorem C12_assemble_perm_features (corpus : List TagExample) (dict : List (List Char × List Tag))
    (pre post : List TagTraceItem) (runs₁ runs₂ : List (List TagTraceItem)) (hp : runs₁.Perm runs₂)
    (hnd : ((pre ++ runs₁.flatten ++ post).map fun t => (t.token, t.feat, t.offset + t.cls)).Nodup) :
    assembleTags corpus dict (pre ++ runs₁.flatten ++ post) = assembleTags corpus dict (pre ++ runs₂.flatten ++ post) :=
  C12L.assembleTags_perm_trace corpus dict (((List.Perm.refl pre).append hp.flatten).append (List.Perm.refl post)) hnd

/-- **order independence (`default_tags`)**: `TagTrainer::train` walks the `HashMap` `default_tags` to add the dictionary-only
tokens; any order of its (distinct) keys gives the same tag models -/
theorem C12_assemble_dict_perm (corpus : List TagExample) (dict₁ dict₂ : List (List Char × List Tag)) (trace : List TagTraceItem)
    (hp : dict₁.Perm dict₂) (hnd : (dict₁.map Prod.fst).Nodup) :
    assembleTags corpus dict₁ trace = assembleTags corpus dict₂ trace :=
  C12L.assembleTags_perm_dict corpus trace hp hnd

-- (for the `decide`d examples only)
deriving instance DecidableEq for TagTraceItem

namespace C12PermEx

def corpus : List TagExample :=
  [{ surface := ['a'], tags := [some ['x']], feats := [] }, { surface := ['a'], tags := [some ['y']], feats := [] },
   { surface := ['b'], tags := [some ['x']], feats := [] }, { surface := ['b'], tags := [some ['z']], feats := [] }]
def it (tok : List Char) (cls : Nat) (f : Option TagFeat) (w : Int) : TagTraceItem :=
  { token := tok, offset := 0, cls := cls, feat := f, weight := w }
def biasA : List TagTraceItem := [it ['a'] 0 none 3, it ['a'] 1 none (-2)]
def run1 : List TagTraceItem := [it ['a'] 0 (some (.charNgram ['a'] 0)) 5, it ['a'] 1 (some (.charNgram ['a'] 0)) 7]
def run2 : List TagTraceItem := [it ['a'] 0 (some (.charNgram ['b', 'a'] 0)) 0, it ['a'] 1 (some (.charNgram ['b', 'a'] 0)) 1]
def run3 : List TagTraceItem := [it ['a'] 0 (some (.typeNgram [1] 0)) 2, it ['a'] 1 (some (.typeNgram [1] 0)) 4]
def run4 : List TagTraceItem := [it ['a'] 0 (some (.charNgram ['a'] 1)) 9, it ['a'] 1 (some (.charNgram ['a'] 1)) 0]
def tokB : List TagTraceItem := [it ['b'] 0 none 1, it ['b'] 1 none 1, it ['b'] 1 (some (.charNgram ['b'] 0)) 6]

/-- non-vacuity of `C12_assemble_perm_features`: four feature runs of token `a` in two different orders (a rotation composed
with a swap), distinct cells, a value (not a panic) on both sides, with several entries per table -/
example :
    [run1, run2, run3, run4].Perm [run3, run1, run4, run2] ∧
    ((biasA ++ [run1, run2, run3, run4].flatten ++ tokB).map fun t => (t.token, t.feat, t.offset + t.cls)).Nodup ∧
    assembleTags corpus [] (biasA ++ [run1, run2, run3, run4].flatten ++ tokB)
      = assembleTags corpus [] (biasA ++ [run3, run1, run4, run2].flatten ++ tokB) ∧
    assembleTags corpus [] (biasA ++ [run1, run2, run3, run4].flatten ++ tokB) =
      .ok [{ token := ['a'], tags := [[['x'], ['y']]],
             charNgrams := [⟨['a'], [⟨0, [5, 7]⟩, ⟨1, [9, 0]⟩]⟩, ⟨['b', 'a'], [⟨0, [0, 1]⟩]⟩],
             typeNgrams := [⟨[1], [⟨0, [2, 4]⟩]⟩], bias := [3, -2] },
           { token := ['b'], tags := [[['x'], ['z']]], charNgrams := [⟨['b'], [⟨0, [0, 6]⟩]⟩], typeNgrams := [],
             bias := [1, 1] }] := by
  refine ⟨by decide, by decide, by decide, by decide⟩

/-- the hypothesis is needed: two items that write the SAME cell do not commute (the later one wins); a real trace has no such
pair -/
example :
    [it ['a'] 0 none 3, it ['a'] 0 none 4].Perm [it ['a'] 0 none 4, it ['a'] 0 none 3] ∧
    assembleTags corpus [] [it ['a'] 0 none 3, it ['a'] 0 none 4] ≠ assembleTags corpus [] [it ['a'] 0 none 4, it ['a'] 0 none 3] := by
  refine ⟨List.Perm.swap _ _ _, by decide⟩

/-- non-vacuity of `C12_assemble_dict_perm`: three dictionary-only tokens (one without any tag, so skipped; one that the corpus
already has) in two orders -/
example :
    let d₁ : List (List Char × List Tag) := [(['q'], [some ['n']]), (['a'], [some ['w']]), (['c'], [none]), (['d'], [some ['v']])]
    let d₂ : List (List Char × List Tag) := [(['d'], [some ['v']]), (['c'], [none]), (['q'], [some ['n']]), (['a'], [some ['w']])]
    d₁.Perm d₂ ∧ (d₁.map Prod.fst).Nodup ∧ assembleTags corpus d₁ biasA = assembleTags corpus d₂ biasA ∧
    (assembleTags corpus d₁ biasA).isOk = true := by
  refine ⟨by decide, by decide, by decide, by decide⟩

end C12PermEx

end V
