import VProofs.Lemmas.KyDump
import VProofs.Lemmas.KyTrie
import VProofs.Lemmas.KyOrder
import VProofs.Lemmas.KyConvert
import VProofs.Lemmas.KySize
import VProofs.Lemmas.KyRead
import VProofs.Lemmas.KyExpected
/-!
# C17 — KyTea model conversion preserves the word-segmentation model

Model: `VModel/Kytea.lean` (`readKytea` = `KyteaModel::read`, `dumpItems` = `Dictionary::dump_items`,
`convert` = `impl TryFrom<KyteaModel> for Model`, `convertBytes` = read, then convert; `AbsKytea`, `encodeKytea`,
`expectedModel` = the harness's abstract description, its independent encoder and the model the file is meant to encode;
`WFKytea` = the descriptions that stand for a KyTea model; `reprKytea` = the record structure of the file).
Property theorems only; helper lemmas live in `VProofs/Lemmas/Ky*.lean` (namespace `V.C17L`).

* `C17_dump`, `C17_dump_sorted`, `C17_fuel_enough`, `C17_trie_items` — the trie walk;
* `C17_read_encode` — the reader inverts the encoder;
* `C17_convert_any` — any record structure: a successful conversion contains exactly the encoded items;
* `C17_convert_partial` (on the record structure) and `C17_convert` (on the bytes) — the converted model IS
  `expectedModel k` (same entries, same order, same weights), hence every text is segmented as those weights dictate;
  `C17_char_ngrams`, `C17_type_ngrams`, `C17_dict_words` spell out what `expectedModel` contains;
* `C17_truncated` — every proper prefix of the file is rejected with an error.
-/
namespace V
open V.Ky V.C17L
open V.Bin (Bytes)

/-! ## the trie walk -/

/-- **soundness and completeness of `dump_items`**, for an arbitrary state table (cyclic, shared, out of range …):
whenever the walk returns, it lists exactly the `(word, entry)` pairs the table encodes below state 0 -/
theorem C17_dump {τ : Type} (states : List KState) (entries : List τ) (fuel : Nat) (res : List (List Char × τ))
    (h : dumpItems states entries fuel [(0, [])] [] = .ok res) :
    ∀ x, x ∈ res ↔ Enc states entries 0 [] x :=
  dump_correct states entries fuel res h

/-- when every state lists its gotos in strictly ascending character order (what `gotos.sort_unstable()` establishes
when no character repeats), the walk emits the words in strictly ascending code-point order -/
theorem C17_dump_sorted {τ : Type} (states : List KState) (entries : List τ)
    (hasc : ∀ (i : Nat) (st : KState), states[i]? = some st →
      st.gotos.Pairwise fun a b => a.1.toNat < b.1.toNat)
    (fuel : Nat) (res : List (List Char × τ)) (h : dumpItems states entries fuel [(0, [])] [] = .ok res) :
    res.Pairwise fun a b => lexLt a.1 b.1 = true :=
  dump_sorted states entries hasc fuel res h

/-- on the tries the encoder builds, the walk returns within `n_states` pops (it neither panics nor runs out of fuel) -/
theorem C17_fuel_enough {τ : Type} (keys : List (List Char)) (entries : List τ) (hlen : entries.length = keys.length)
    (fuel : Nat) (hf : (trieStates keys).length ≤ fuel) :
    ∃ res, dumpItems (trieStates keys) entries fuel [(0, [])] [] = .ok res :=
  dump_terminates (trieStates_tree keys entries hlen) fuel hf

/-- … and, for distinct keys, returns exactly the encoded `(key, entry)` pairs, in ascending key order -/
theorem C17_trie_items {α τ : Type} (l : List α) (key : α → List Char) (entry : α → τ) (hnd : (l.map key).Nodup)
    (fuel : Nat) (hf : (trieStates (l.map key)).length ≤ fuel) :
    dumpItems (trieStates (l.map key)) (l.map entry) fuel [(0, [])] []
      = .ok (sortByKey (l.map fun y => (key y, entry y))) :=
  dump_trie l key entry hnd fuel hf

/-! ## reading what the encoder wrote -/

/-- the reader inverts the encoder and leaves the rest of the input untouched -/
theorem C17_read_encode (k : AbsKytea) (wf : WFKytea k) (rest : Bytes) :
    readKytea (encodeKytea k ++ rest) = .ok (reprKytea k, rest) :=
  (strict_kytea k wf).1 rest

/-! ## the conversion -/

/-- the conversion of the record structure of a well-formed description returns the model the description stands for -/
theorem C17_convert_partial (k : AbsKytea) (wf : WFKytea k) (fuel : Nat) (hf : trieFuel k ≤ fuel) :
    ∃ m, convert fuel (reprKytea k) = .ok m ∧ expectedModel k = some m :=
  convert_repr k wf fuel hf

/-- **conversion of a KyTea model file**: reading and converting the file of a well-formed description (with any
trailing bytes, and any fuel of at least the length of the file) returns exactly the model the description stands for:
the same n-grams, dictionary words, weights, bias and window sizes, in the same order -/
theorem C17_convert (k : AbsKytea) (wf : WFKytea k) (rest : Bytes) (fuel : Nat) (hf : (encodeKytea k).length ≤ fuel) :
    ∃ m, convertBytes fuel (encodeKytea k ++ rest) = .ok m ∧ expectedModel k = some m := by
  obtain ⟨m, h1, h2⟩ := convert_repr k wf fuel (Nat.le_trans (trieFuel_le k wf.charSome wf.typeSome) hf)
  refine ⟨m, ?_, h2⟩
  simp only [convertBytes, C17_read_encode k wf rest, h1]

/-- … so that every predictor built from the converted model is the predictor built from the encoded weights -/
theorem C17_same_predictor (k : AbsKytea) (wf : WFKytea k) (rest : Bytes) (fuel : Nat)
    (hf : (encodeKytea k).length ≤ fuel) (cfg : Cfg) (predictTags : Bool) :
    ∃ m, expectedModel k = some m ∧
      (convertBytes fuel (encodeKytea k ++ rest)).bind (fun m' => Predictor.new cfg m' predictTags)
        = Predictor.new cfg m predictTags := by
  obtain ⟨m, h1, h2⟩ := C17_convert k wf rest fuel hf
  exact ⟨m, h2, by rw [h1]; rfl⟩

/-- **any file**: whenever the conversion of a record structure succeeds (whatever file it was read from: state tables
with sharing, entries longer than needed, several dictionaries …), the converted model has the window sizes and the
first bias of the file and contains exactly the items its three state tables encode (`Enc`), each cut to the window
(`charNgramOf`), mapped to type codes unless it contains U+0004 (`typeNgramOf`), or with the summed dictionary weights
(`dictWordOf`) -/
theorem C17_convert_any (fuel : Nat) (km : KyteaModel) (m : WModel) (h : convert fuel km = .ok m) :
    ∃ ws fl cd td, km.wordseg = some ws ∧ ws.featureLookup = some fl ∧ fl.charDict = some cd ∧ fl.typeDict = some td ∧
      fl.biases.head? = some m.bias ∧ m.charW = km.config.charW ∧ m.typeW = km.config.typeW ∧ m.tagModels = [] ∧
      (∀ y, y ∈ m.charNgrams ↔ ∃ x, Enc cd.states cd.entries 0 [] x ∧ charNgramOf km.config.charW x = .ok y) ∧
      (∀ y, y ∈ m.typeNgrams ↔ ∃ x, Enc td.states td.entries 0 [] x ∧ typeNgramOf km.config.typeW x = .ok (some y)) ∧
      (∀ y, y ∈ m.dict ↔ ∃ kd x, km.dict = some kd ∧ Enc kd.states kd.entries 0 [] x ∧
        dictWordOf km.config.dictN kd.nDicts fl.dictVec x = .ok y) :=
  convert_any fuel km m h

/-! ### what `expectedModel` contains -/

/-- window sizes, bias, no tag models -/
theorem C17_header (k : AbsKytea) (m : WModel) (h : expectedModel k = some m) :
    m.charW = k.charW ∧ m.typeW = k.typeW ∧ m.bias = k.bias ∧ m.tagModels = [] :=
  expected_header k m h

/-- exactly the character n-grams of the file, each with the first `2w − ℓ + 1` weights the file stores -/
theorem C17_char_ngrams (k : AbsKytea) (m : WModel) (h : expectedModel k = some m) (y : NgramData Char) :
    y ∈ m.charNgrams ↔ ∃ e ∈ k.charNgrams, y = ⟨e.1, e.2.take (2 * k.charW + 1 - e.1.length)⟩ :=
  expected_char k m h y

/-- exactly the type n-grams of the file that do not contain U+0004, letters mapped to type codes -/
theorem C17_type_ngrams (k : AbsKytea) (m : WModel) (h : expectedModel k = some m) (y : NgramData Nat) :
    y ∈ m.typeNgrams ↔ ∃ e ∈ k.typeNgrams, Char.ofNat 4 ∉ e.1 ∧
      y = ⟨e.1.map letterCode, e.2.take (2 * k.typeW + 1 - e.1.length)⟩ :=
  expected_type k m h y

/-- exactly the dictionary words of the file; the weights are `left, inside × (ℓ − 1), right`, each the sum, over the
dictionaries `j < n_dicts` the word belongs to, of the entry of `dict_vec` for dictionary `j` and length bucket
`min(ℓ, dict_n) − 1` -/
theorem C17_dict_words (k : AbsKytea) (m : WModel) (h : expectedModel k = some m) (y : DictWord) :
    y ∈ m.dict ↔ ∃ e ∈ k.words,
      y = ⟨e.1, wordWeights e.1.length (dictTotals k e.2 (min e.1.length k.dictN - 1)), []⟩ :=
  expected_dict k m h y

/-! ## truncated files -/

/-- every proper prefix of the file of a well-formed description is rejected by the reader with an error
(never a panic, never a value) -/
theorem C17_truncated (k : AbsKytea) (wf : WFKytea k) (p : Bytes) (hp : p <+: encodeKytea k)
    (hne : p ≠ encodeKytea k) : ∃ e, readKytea p = .err e :=
  (strict_kytea k wf).2 p hp hne

/-- … and so is its conversion -/
theorem C17_truncated_convert (k : AbsKytea) (wf : WFKytea k) (n : Nat) (hn : n < (encodeKytea k).length)
    (fuel : Nat) : ∃ e, convertBytes fuel ((encodeKytea k).take n) = .err e := by
  obtain ⟨e, he⟩ := C17_truncated k wf ((encodeKytea k).take n) (List.take_prefix _ _) (by
    intro h
    have := congrArg List.length h
    simp only [List.length_take] at this
    omega)
  exact ⟨e, by simp only [convertBytes, he]⟩

/-! ## non-vacuity -/

/-- a small description: window 1, two dictionaries, a type n-gram with the stray U+0004 -/
def C17_example : AbsKytea :=
  { charW := 1, charN := 3, typeW := 1, typeN := 3, dictN := 2, nTags := 1, nDicts := 2,
    charMap := ['a', 'b', 'H', 'K', Char.ofNat 4], bias := -7,
    charNgrams := [(['b'], [1, -2]), (['a', 'b'], [3]), (['a'], [4, 5])],
    typeNgrams := [(['K', 'H'], [6]), (['H'], [7, 8]), ([Char.ofNat 4], [9, 9])],
    dictVec := [1, 2, 3, 4, 5, 6, 10, 20, 30, 40, 50, 60],
    words := [(['b', 'a'], 3), (['a'], 2)] }

/-- the model it stands for -/
def C17_example_model : WModel :=
  { charNgrams := [⟨['a'], [4, 5]⟩, ⟨['a', 'b'], [3]⟩, ⟨['b'], [1, -2]⟩]
    typeNgrams := [⟨[3], [7, 8]⟩, ⟨[5, 3], [6]⟩]
    dict := [⟨['a'], [10, 30], []⟩, ⟨['b', 'a'], [44, 55, 66], []⟩]
    bias := -7, charW := 1, typeW := 1, tagModels := [] }

/-- the hypotheses of the theorems above are satisfiable -/
theorem C17_example_wf : WFKytea C17_example := by
  constructor
  · decide
  · decide
  · decide
  · decide
  · decide
  · decide
  · decide
  · decide
  · decide
  · decide
  · intro e he
    simp only [C17_example, List.mem_cons, List.not_mem_nil, or_false] at he
    rcases he with rfl | rfl | rfl <;> constructor <;> decide
  · decide
  · decide
  · intro e he
    simp only [C17_example, List.mem_cons, List.not_mem_nil, or_false] at he
    rcases he with rfl | rfl | rfl <;> refine ⟨?_, ?_⟩ <;> first | decide | (constructor <;> decide)
  · decide
  · decide
  · decide
  · intro x hx
    simp only [C17_example, List.mem_cons, List.not_mem_nil, or_false] at hx
    rcases hx with rfl | rfl | rfl | rfl | rfl | rfl | rfl | rfl | rfl | rfl | rfl | rfl <;> decide
  · intro e he
    simp only [C17_example, List.mem_cons, List.not_mem_nil, or_false] at he
    rcases he with rfl | rfl <;> decide
  · decide
  · decide +kernel

/-- the whole pipeline on its 510-byte file … -/
example : convertBytes 510 (encodeKytea C17_example) = .ok C17_example_model := by decide +kernel
example : expectedModel C17_example = some C17_example_model := by decide +kernel
/-- … and on a truncation of it -/
example : convertBytes 510 ((encodeKytea C17_example).take 100) = .err .io := by decide +kernel
/-- truncation inside a multi-byte character of the character map is a UTF-8 error -/
example : (readKytea ([0x0a, 1, 0, 0, 0, 0, 0, 1, 3, 1, 3, 1, 1, 0, 0, 0, 0, 0, 0, 0, 0, 1, 0xe3, 0x81])).map (·.1.config.nTags)
    = .err .utf8 := by decide +kernel
/-- a cyclic table exhausts any fuel (the Rust loop does not terminate), a character index 0 panics -/
example : dumpItems [⟨0, [('a', 0)], [], false⟩] ([] : List Nat) 5 [(0, [])] [] = .err .fuel := by decide
example : (readChar ['a'] [0, 0]).map (·.1) = .panic "cidx - 1" := by decide
/-- a file without feature lookup is an invalid model; an n-gram longer than the window panics -/
example : convert 10 { reprKytea C17_example with wordseg := none } = .err .invalidModel := by decide +kernel
example : charNgramOf 1 (['a', 'b', 'c'], [1, 2, 3]) = .panic "w * 2 - len" := by decide

end V
