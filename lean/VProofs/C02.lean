import VProofs.Lemmas.Iter
import VProofs.Lemmas.IterDecl
/-!
# C02 — Tokens are a lossless, ordered partition of the text

Property theorems only (helper lemmas live in `VProofs/Lemmas/Iter.lean`).
`iterTokens` mirrors `TokenIterator::next` (Rust variables `start`, `end`, `skip_token`, loop index `i`
relative to the slice taken at the old `end`); `specTokens` is the specification: the maximal
`W`-delimited segments of `[0, n)` with no `U` inside, in order.
-/
namespace V

/-- the iterator yields exactly the specified segments, for every label vector (any mix of `N`, `W`, `U`,
including runs of several consecutive segments that contain `U`) -/
theorem C02_iter_eq_spec (bs : List B) : iterTokens bs = specTokens bs := iterTokens_eq_spec bs

/-- without unknown boundaries the tokens are non-empty, contiguous, in order, start at 0 and end at `n` -/
theorem C02_partition_chain (bs : List B) (h : ∀ x ∈ bs, x ≠ B.U) :
    IsChain 0 (iterTokens bs) (bs.length + 1) := by
  rw [C02_iter_eq_spec]
  have := specSeg_chain bs 0 0 h (Nat.le_refl _)
  simpa [specTokens] using this

/-- … they break exactly at the word boundaries (token starts = 0 followed by `i + 1` for every `bs[i] = W`) -/
theorem C02_partition_breaks (bs : List B) (h : ∀ x ∈ bs, x ≠ B.U) :
    (iterTokens bs).map Prod.fst = 0 :: wPos bs 0 := by
  rw [C02_iter_eq_spec]
  exact specSeg_starts bs 0 0 h

/-- … and their surfaces concatenate to the text unchanged -/
theorem C02_partition_concat (text : List Char) (bs : List B) (h : ∀ x ∈ bs, x ≠ B.U)
    (hlen : text.length = bs.length + 1) :
    (iterTokens bs).flatMap (slice text) = text := by
  rw [C02_iter_eq_spec]
  have := specSeg_concat text bs 0 0 h (Nat.le_refl _) (by omega)
  simp only [specTokens, this, List.drop_zero, Nat.zero_add, Nat.sub_zero]
  rw [← hlen]; exact List.take_length

/-- the tokenized writer emits exactly the specified tokens -/
theorem C02_writer (s : Sentence) : s.writeTokenized = writeTokBody s (specTokens s.bounds) true := by
  unfold Sentence.writeTokenized
  rw [C02_iter_eq_spec]

/-- surfaces are the true character spans: `substring` never fails on a specified token of a consistent sentence -/
theorem C02_surface_span (s : Sentence) (hlen : s.text.length = s.bounds.length + 1)
    (h : ∀ x ∈ s.bounds, x ≠ B.U) (st en : Nat) (hm : (st, en) ∈ iterTokens s.bounds) :
    s.substring st en = .ok (slice s.text (st, en)) ∧ st < en ∧ en ≤ s.text.length := by
  have hc := C02_partition_chain s.bounds h
  -- every member of a chain from 0 to n lies inside [0, n] and is non-empty
  have key : ∀ (l : List (Nat × Nat)) (a z : Nat), IsChain a l z → ∀ p ∈ l, a ≤ p.1 ∧ p.1 < p.2 ∧ p.2 ≤ z := by
    intro l
    induction l with
    | nil => intro a z hc; exact absurd hc (by simp [IsChain])
    | cons x xs ih =>
      intro a z hc p hp
      cases xs with
      | nil =>
        obtain ⟨s1, e1⟩ := x
        simp only [IsChain] at hc
        simp only [List.mem_singleton] at hp
        subst hp
        simp; omega
      | cons y ys =>
        obtain ⟨s1, e1⟩ := x
        simp only [IsChain] at hc
        obtain ⟨h1, h2, h3⟩ := hc
        have hz : ∀ q ∈ y :: ys, e1 ≤ q.1 ∧ q.1 < q.2 ∧ q.2 ≤ z := ih e1 z h3
        rcases List.mem_cons.mp hp with rfl | hp'
        · have := hz y (by simp)
          simp; omega
        · have := hz p hp'
          omega
  have := key _ _ _ hc (st, en) hm
  simp only at this
  refine ⟨?_, this.2.1, by omega⟩
  unfold Sentence.substring slice
  have : st ≤ en ∧ en ≤ s.text.length := by omega
  simp [this]

/-- the specification read declaratively: `[st, en)` is reported iff it is non-empty, delimited on both sides by a word
boundary or an end of the text, and every boundary strictly inside it is a known non-boundary (no `W`, no `U`) -/
theorem C02_spec_declarative (bs : List B) (st en : Nat) :
    (st, en) ∈ specTokens bs ↔
      st < en ∧ en ≤ bs.length + 1 ∧
      (st = 0 ∨ bs[st - 1]? = some B.W) ∧ (en = bs.length + 1 ∨ bs[en - 1]? = some B.W) ∧
      ∀ k, st ≤ k → k + 1 < en → bs[k]? = some B.N := by
  exact C02L.specTokens_decl bs st en

/-- each such segment is reported once, and the segments come in order of position -/
theorem C02_spec_sorted (bs : List B) :
    (specTokens bs).Pairwise (fun a b => a.2 ≤ b.1) ∧ (specTokens bs).Nodup := by
  exact C02L.specTokens_sorted bs

/-! ## non-vacuity and the pinned-tree counterexample -/

example : iterTokens [B.U, B.W, B.U, B.W] = [(4, 5)] := by decide
example : iterTokens [B.N, B.W, B.W] = [(0, 2), (2, 3), (3, 4)] ∧ (∀ x ∈ [B.N, B.W, B.W], x ≠ B.U) := by decide

end V
