import VModel.Trainer
import VProofs.Lemmas.FeatGen
import VProofs.Lemmas.TrainCli
/-!
# C10 — Training uses exactly the annotated boundaries with the documented features

Property theorems only (helper lemmas live in `VProofs/Lemmas/Feat*.lean`).
-/
namespace V

/-- the examples handed to the learner are exactly one per annotated boundary, in order, labelled by that annotation -/
theorem C10_examples (cfg : TrainCfg) (s : Sentence) :
    (examplesOf cfg s).map Prod.snd = s.bounds.filter (fun b => b ≠ B.U) ∧
    ∀ e ∈ examplesOf cfg s, ∃ i, i < s.bounds.length ∧ s.bounds[i]? = some e.2 ∧ e.2 ≠ B.U ∧ e.1 = genFeatures cfg s.text i := by
  exact ⟨C10L.examples_snd cfg s.text s.bounds 0, C10L.examples_mem cfg s⟩

/-- a sentence without annotations contributes no example, so adding it does not change the training problem -/
theorem C10_unknown_neutral (cfg : TrainCfg) (s : Sentence) (h : ∀ b ∈ s.bounds, b = B.U)
    (corpus₁ corpus₂ : List Sentence) :
    (corpus₁ ++ s :: corpus₂).flatMap (examplesOf cfg) = (corpus₁ ++ corpus₂).flatMap (examplesOf cfg) := by
  simp only [List.flatMap_append, List.flatMap_cons, C10L.examples_nil cfg s h, List.nil_append]

/-- character n-gram features of boundary `i`: exactly the n-grams `[j, j+ℓ)` with `1 ≤ ℓ ≤ N` that lie inside the window
`[i+1−W, i+1+W)` clipped to the text, each once, with relative position `j − i − 1` -/
theorem C10_char_ngram_spec (cfg : TrainCfg) (text : List Char) (i : Nat) (g : List Char) (rel : Int) :
    (genFeatures cfg text i).count (Feature.charNgram g rel) ≤ 1 ∧
    (Feature.charNgram g rel ∈ genFeatures cfg text i ↔
      ∃ j l, 1 ≤ l ∧ l ≤ cfg.charN ∧ i + 1 ≤ j + cfg.charW ∧ j + l ≤ min text.length (i + 1 + cfg.charW) ∧
          g = (text.drop j).take l ∧ rel = (j : Int) - (i : Int) - 1) := by
  have hc := C10L.count_char_genFeatures cfg text i g rel
  refine ⟨hc ▸ C10L.count_ngramFeats_le_one _ _ _ _ _, ?_⟩
  rw [C10L.mem_iff_of_count_eq hc]
  exact C10L.mem_ngramFeats _ _ _ _ _ _

/-- the same for character-type n-grams with their own window and size -/
theorem C10_type_ngram_spec (cfg : TrainCfg) (text : List Char) (i : Nat) (g : List Nat) (rel : Int) :
    (genFeatures cfg text i).count (Feature.typeNgram g rel) ≤ 1 ∧
    (Feature.typeNgram g rel ∈ genFeatures cfg text i ↔
      ∃ j l, 1 ≤ l ∧ l ≤ cfg.typeN ∧ i + 1 ≤ j + cfg.typeW ∧ j + l ≤ min text.length (i + 1 + cfg.typeW) ∧
          g = ((typesOf text).drop j).take l ∧ rel = (j : Int) - (i : Int) - 1) := by
  have hc := C10L.count_type_genFeatures cfg text i g rel
  refine ⟨hc ▸ C10L.count_ngramFeats_le_one _ _ _ _ _, ?_⟩
  rw [C10L.mem_iff_of_count_eq hc, C10L.mem_ngramFeats, C10L.length_typesOf]

/-- dictionary features: one per dictionary-word occurrence `[st, en)` touching the boundary — left if the boundary is just
before the word, inside if it is strictly inside, right if it is just after the word and not the end of the text — by
length bucket `min(en − st, max_len)`; occurrences are counted with multiplicity -/
theorem C10_dict_spec (cfg : TrainCfg) (text : List Char) (i : Nat) (len : Nat) (pos : DPos) :
    (genFeatures cfg text i).count (Feature.dictWord len pos) =
      ((dictMatches cfg.dictWords text).filter fun se =>
        decide (min (se.2 - se.1) cfg.dictMaxLen = len) &&
        (match pos with
         | .left => decide (se.1 ≠ 0 ∧ i = se.1 - 1)
         | .inside => decide (se.1 ≤ i ∧ i + 1 < se.2)
         | .right => decide (se.2 ≠ text.length ∧ i = se.2 - 1))).length := by
  rw [C10L.count_dict_genFeatures, C10L.count_dictFeats]
  rfl

/-- `dictMatches` are exactly the occurrences of dictionary words: `(st, en)` with multiplicity one per word equal to `text[st, en)` -/
theorem C10_dict_matches (words : List (List Char)) (text : List Char) (st en : Nat) :
    (dictMatches words text).count (st, en) =
      if st < en ∧ en ≤ text.length then words.count ((text.drop st).take (en - st)) else
      if st = en ∧ 1 ≤ en ∧ en ≤ text.length then words.count [] else 0 := by
  exact C10L.count_dictMatches words text st en

/-- non-vacuity: with window 2 and n-gram size 2 the bigram `ab` is a feature of boundary 0 of `abc`, exactly once,
and the dictionary word `bc` gives a `left` feature there -/
example :
    let cfg : TrainCfg := { charW := 2, charN := 2, typeW := 1, typeN := 1, dictWords := [['b', 'c']], dictMaxLen := 4 }
    Feature.charNgram ['a', 'b'] (-1) ∈ genFeatures cfg ['a', 'b', 'c'] 0 ∧
    (genFeatures cfg ['a', 'b', 'c'] 0).count (Feature.charNgram ['a', 'b'] (-1)) = 1 ∧
    (genFeatures cfg ['a', 'b', 'c'] 0).count (Feature.dictWord 2 .left) = 1 ∧
    dictMatches cfg.dictWords ['a', 'b', 'c'] = [(1, 3)] := by
  decide

/-! ## the `train` tool: what reaches the learner is what the input lines say (loading stage, hook H5) -/

/-- one input line of the `train` tool.  With `--no-norm` the sentence handed to the trainer is the parsed line itself; without
it, it is a consistent sentence over the *normalised* text that carries the labels, the tag count and the tags of the parsed
line (so the examples of C10 are those of the normalised sentence with the line's annotation); a line the parser rejects is
an error of the tool; nothing panics (both length-checked slice copies always fit, because normalisation keeps the number of
characters) -/
theorem C10_train_tool_line (k : CorpusKind) (line : List Char) :
    loadLine k true line = parseLine k line ∧
    (∀ e, parseLine k line = .err e → ∀ nn, loadLine k nn line = .err e) ∧
    (∀ r, parseLine k line = .ok r → ∃ s', loadLine k false line = .ok s' ∧ s'.text = Gen.fullwidth r.text ∧
        s'.types = typesOf (Gen.fullwidth r.text) ∧ s'.bounds = r.bounds ∧ s'.nTags = r.nTags ∧ s'.tags = r.tags ∧ Inv s') ∧
    (∀ nn, (loadLine k nn line).Safe) := by
  refine ⟨TrainCliL.loadLine_true k line, fun e he nn => TrainCliL.loadLine_err he nn, fun r hr => ?_,
    fun nn => TrainCliL.loadLine_safe k nn line⟩
  obtain ⟨s', h1, h2, h3, h4, h5, h6, _, h8⟩ := TrainCliL.loadLine_false_ok hr
  exact ⟨s', h1, h2, h3, h4, h5, h6, h8⟩

/-- the sentences given to `add_example` are the lines of the `--tok` files followed by the lines of the `--part` files, one
sentence per line, in order -/
theorem C10_train_tool_corpus (nn : Bool) (tok part dict : List (List Char)) (inp : TrainInputs)
    (h : trainCliInputs nn tok part dict = .ok inp) :
    ∃ ts ps, mapRes (loadLine .tok nn) (tok.flatMap splitLines) = .ok ts ∧
      mapRes (loadLine .part nn) (part.flatMap splitLines) = .ok ps ∧ inp.corpus = ts ++ ps ∧
      inp.corpus.length = (tok.flatMap splitLines).length + (part.flatMap splitLines).length := by
  exact TrainCliL.corpus_spec h

/-- non-vacuity: the tok line `ab c/X` reaches the trainer as the full-width text `ａｂｃ` with the line's labels and tag; a
tok file and a part file give two examples in that order; a line with two consecutive spaces ends the tool with an error -/
example :
    (loadLine .tok false ['a', 'b', ' ', 'c', '/', 'X']).map (fun s => (s.text, s.bounds, s.tags, s.nTags)) =
      .ok (['ａ', 'ｂ', 'ｃ'], [B.N, B.W], [none, none, some ['X']], 1) ∧
    (trainCliInputs false [['a', 'b', ' ', 'c', '/', 'X', '\n']] [['a', '|', 'b', '-', 'c', '\n']] []).map
        (fun i => i.corpus.map (fun s => (s.text, s.bounds))) =
      .ok [(['ａ', 'ｂ', 'ｃ'], [B.N, B.W]), (['ａ', 'ｂ', 'ｃ'], [B.W, B.N])] ∧
    (trainCliInputs false [['a', 'b', ' ', ' ', 'c', '\n']] [] []).map (fun i => i.corpus) = .err .invalidArgument := by
  decide +kernel

end V
