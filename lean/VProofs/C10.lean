import VModel.Trainer
import VProofs.Lemmas.FeatGen
/-!
# C10 — Training uses exactly the annotated boundaries with the documented features

Property theorems only (helper lemmas live in `VProofs/Lemmas/Feat*.lean`).
-/
namespace V

/-- the examples handed to the learner are exactly one per annotated boundary, in order, labelled by that annotation -/
theorem C10_examples (cfg : TrainCfg) (s : Sentence) :
    (examplesOf cfg s).map Prod.snd = s.bounds.filter (fun b => b ≠ B.U) ∧
    ∀ e ∈ examplesOf cfg s, ∃ i, i < s.bounds.length ∧ s.bounds[i]? = some e.2 ∧ e.2 ≠ B.U ∧ e.1 = genFeatures cfg s.text i := by
  exact ⟨C10L.examples_snd cfg s.text s.bounds 0, C10L.examples_mem cfg s⟩

/-- a sentence without annotations contributes no example, so adding it does not change the training problem -/
theorem C10_unknown_neutral (cfg : TrainCfg) (s : Sentence) (h : ∀ b ∈ s.bounds, b = B.U)
    (corpus₁ corpus₂ : List Sentence) :
    (corpus₁ ++ s :: corpus₂).flatMap (examplesOf cfg) = (corpus₁ ++ corpus₂).flatMap (examplesOf cfg) := by
  simp only [List.flatMap_append, List.flatMap_cons, C10L.examples_nil cfg s h, List.nil_append]

/-- character n-gram features of boundary `i`: exactly the n-grams `[j, j+ℓ)` with `1 ≤ ℓ ≤ N` that lie inside the window
`[i+1−W, i+1+W)` clipped to the text, each once, with relative position `j − i − 1` -/
theorem C10_char_ngram_spec (cfg : TrainCfg) (text : List Char) (i : Nat) (g : List Char) (rel : Int) :
    (genFeatures cfg text i).count (Feature.charNgram g rel) ≤ 1 ∧
    (Feature.charNgram g rel ∈ genFeatures cfg text i ↔
      ∃ j l, 1 ≤ l ∧ l ≤ cfg.charN ∧ i + 1 ≤ j + cfg.charW ∧ j + l ≤ min text.length (i + 1 + cfg.charW) ∧
          g = (text.drop j).take l ∧ rel = (j : Int) - (i : Int) - 1) := by
  have hc := C10L.count_char_genFeatures cfg text i g rel
  refine ⟨hc ▸ C10L.count_ngramFeats_le_one _ _ _ _ _, ?_⟩
  rw [C10L.mem_iff_of_count_eq hc]
  exact C10L.mem_ngramFeats _ _ _ _ _ _

/-- the same for character-type n-grams with their own window and size -/
theorem C10_type_ngram_spec (cfg : TrainCfg) (text : List Char) (i : Nat) (g : List Nat) (rel : Int) :
    (genFeatures cfg text i).count (Feature.typeNgram g rel) ≤ 1 ∧
    (Feature.typeNgram g rel ∈ genFeatures cfg text i ↔
      ∃ j l, 1 ≤ l ∧ l ≤ cfg.typeN ∧ i + 1 ≤ j + cfg.typeW ∧ j + l ≤ min text.length (i + 1 + cfg.typeW) ∧
          g = ((typesOf text).drop j).take l ∧ rel = (j : Int) - (i : Int) - 1) := by
  have hc := C10L.count_type_genFeatures cfg text i g rel
  refine ⟨hc ▸ C10L.count_ngramFeats_le_one _ _ _ _ _, ?_⟩
  rw [C10L.mem_iff_of_count_eq hc, C10L.mem_ngramFeats, C10L.length_typesOf]

/-- dictionary features: one per dictionary-word occurrence `[st, en)` touching the boundary — left if the boundary is just
before the word, inside if it is strictly inside, right if it is just after the word and not the end of the text — by
length bucket `min(en − st, max_len)`; occurrences are counted with multiplicity -/
theorem C10_dict_spec (cfg : TrainCfg) (text : List Char) (i : Nat) (len : Nat) (pos : DPos) :
    (genFeatures cfg text i).count (Feature.dictWord len pos) =
      ((dictMatches cfg.dictWords text).filter fun se =>
        decide (min (se.2 - se.1) cfg.dictMaxLen = len) &&
        (match pos with
         | .left => decide (se.1 ≠ 0 ∧ i = se.1 - 1)
         | .inside => decide (se.1 ≤ i ∧ i + 1 < se.2)
         | .right => decide (se.2 ≠ text.length ∧ i = se.2 - 1))).length := by
  rw [C10L.count_dict_genFeatures, C10L.count_dictFeats]
  rfl

/-- `dictMatches` are exactly the occurrences of dictionary words: `(st, en)` with multiplicity one per word equal to `text[st, en)` -/
theorem C10_dict_matches (words : List (List Char)) (text : List Char) (st en : Nat) :
    (dictMatches words text).count (st, en) =
      if st < en ∧ en ≤ text.length then words.count ((text.drop st).take (en - st)) else
      if st = en ∧ 1 ≤ en ∧ en ≤ text.length then words.count [] else 0 := by
  exact C10L.count_dictMatches words text st en

/-- non-vacuity: with window 2 and n-gram size 2 the bigram `ab` is a feature of boundary 0 of `abc`, exactly once,
and the dictionary word `bc` gives a `left` feature there -/
example :
    let cfg : TrainCfg := { charW := 2, charN := 2, typeW := 1, typeN := 1, dictWords := [['b', 'c']], dictMaxLen := 4 }
    Feature.charNgram ['a', 'b'] (-1) ∈ genFeatures cfg ['a', 'b', 'c'] 0 ∧
    (genFeatures cfg ['a', 'b', 'c'] 0).count (Feature.charNgram ['a', 'b'] (-1)) = 1 ∧
    (genFeatures cfg ['a', 'b', 'c'] 0).count (Feature.dictWord 2 .left) = 1 ∧
    dictMatches cfg.dictWords ['a', 'b', 'c'] = [(1, 3)] := by
  decide

end V
