import VModel.Trainer
/-!
# C10 — Training uses exactly the annotated boundaries with the documented features

Property theorems only (helper lemmas live in `VProofs/Lemmas/Feat*.lean`).
-/
namespace V

/-- the examples handed to the learner are exactly one per annotated boundary, in order, labelled by that annotation -/
theorem C10_examples (cfg : TrainCfg) (s : Sentence) :
    (examplesOf cfg s).map Prod.snd = s.bounds.filter (fun b => b ≠ B.U) ∧
    ∀ e ∈ examplesOf cfg s, ∃ i, i < s.bounds.length ∧ s.bounds[i]? = some e.2 ∧ e.2 ≠ B.U ∧ e.1 = genFeatures cfg s.text i := by
  sorry

/-- a sentence without annotations contributes no example, so adding it does not change the training problem -/
theorem C10_unknown_neutral (cfg : TrainCfg) (s : Sentence) (h : ∀ b ∈ s.bounds, b = B.U)
    (corpus₁ corpus₂ : List Sentence) :
    (corpus₁ ++ s :: corpus₂).flatMap (examplesOf cfg) = (corpus₁ ++ corpus₂).flatMap (examplesOf cfg) := by
  sorry

/-- character n-gram features of boundary `i`: exactly the n-grams `[j, j+ℓ)` with `1 ≤ ℓ ≤ N` that lie inside the window
`[i+1−W, i+1+W)` clipped to the text, each once, with relative position `j − i − 1` -/
theorem C10_char_ngram_spec (cfg : TrainCfg) (text : List Char) (i : Nat) (g : List Char) (rel : Int) :
    (genFeatures cfg text i).count (Feature.charNgram g rel) ≤ 1 ∧
    (Feature.charNgram g rel ∈ genFeatures cfg text i ↔
      ∃ j l, 1 ≤ l ∧ l ≤ cfg.charN ∧ i + 1 ≤ j + cfg.charW ∧ j + l ≤ min text.length (i + 1 + cfg.charW) ∧
          g = (text.drop j).take l ∧ rel = (j : Int) - (i : Int) - 1) := by
  sorry

/-- the same for character-type n-grams with their own window and size -/
theorem C10_type_ngram_spec (cfg : TrainCfg) (text : List Char) (i : Nat) (g : List Nat) (rel : Int) :
    (genFeatures cfg text i).count (Feature.typeNgram g rel) ≤ 1 ∧
    (Feature.typeNgram g rel ∈ genFeatures cfg text i ↔
      ∃ j l, 1 ≤ l ∧ l ≤ cfg.typeN ∧ i + 1 ≤ j + cfg.typeW ∧ j + l ≤ min text.length (i + 1 + cfg.typeW) ∧
          g = ((typesOf text).drop j).take l ∧ rel = (j : Int) - (i : Int) - 1) := by
  sorry

/-- dictionary features: one per dictionary-word occurrence `[st, en)` touching the boundary — left if the boundary is just
before the word, inside if it is strictly inside, right if it is just after the word and not the end of the text — by
length bucket `min(en − st, max_len)`; occurrences are counted with multiplicity -/
theorem C10_dict_spec (cfg : TrainCfg) (text : List Char) (i : Nat) (len : Nat) (pos : DPos) :
    (genFeatures cfg text i).count (Feature.dictWord len pos) =
      ((dictMatches cfg.dictWords text).filter fun se =>
        decide (min (se.2 - se.1) cfg.dictMaxLen = len) &&
        (match pos with
         | .left => decide (se.1 ≠ 0 ∧ i = se.1 - 1)
         | .inside => decide (se.1 ≤ i ∧ i + 1 < se.2)
         | .right => decide (se.2 ≠ text.length ∧ i = se.2 - 1))).length := by
  sorry

/-- `dictMatches` are exactly the occurrences of dictionary words: `(st, en)` with multiplicity one per word equal to `text[st, en)` -/
theorem C10_dict_matches (words : List (List Char)) (text : List Char) (st en : Nat) :
    (dictMatches words text).count (st, en) =
      if st < en ∧ en ≤ text.length then words.count ((text.drop st).take (en - st)) else
      if st = en ∧ 1 ≤ en ∧ en ≤ text.length then words.count [] else 0 := by
  sorry

end V
