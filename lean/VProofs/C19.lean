import VModel.Csv
import VModel.CsvFile
import VProofs.C01
import VProofs.Lemmas.CsvSplit
import VProofs.Lemmas.CsvFileLoad
import VProofs.Lemmas.CsvFileVariants
/-!
# C19 — Dictionary edits act as documented; dump and replace are lossless

Property theorems only (helper lemmas live in `VProofs/Lemmas/Csv*.lean`).
-/
namespace V

/-- replacing the dictionary changes the score of every boundary by exactly the difference between the new and the old
entries' weights at that boundary over all occurrences of their words -/
theorem C19_replace_delta (m : WModel) (d' : List DictWord) (text : List Char) (b : Nat) :
    specScore (m.replaceDict d') text b - specScore m text b = dictScore d' text b - dictScore m.dict text b := by
  simp only [specScore, WModel.replaceDict]
  omega

/-- … and changes nothing else in the model -/
theorem C19_replace_frame (m : WModel) (d' : List DictWord) :
    (m.replaceDict d').charNgrams = m.charNgrams ∧ (m.replaceDict d').typeNgrams = m.typeNgrams ∧
    (m.replaceDict d').bias = m.bias ∧ (m.replaceDict d').charW = m.charW ∧ (m.replaceDict d').typeW = m.typeW ∧
    (m.replaceDict d').tagModels = m.tagModels ∧ (m.replaceDict d').dict = d' := by
  simp [WModel.replaceDict]

/-- the `weights` column round-trips for every non-empty list of 32-bit weights (negative numbers included) -/
theorem C19_weights_roundtrip (ws : List Int) (hne : ws ≠ [])
    (hr : ∀ w ∈ ws, -(2 ^ 31 : Int) ≤ w ∧ w < 2 ^ 31) : parseWeights (joinWeights ws) = some ws := by
  exact C19L.parseWeights_join ws hne hr

/-- records whose weight count does not match the word length are rejected, all others accepted unchanged -/
theorem C19_record_check (word : List Char) (weights : List Int) (comment : List Char) :
    (weights.length ≠ word.length + 1 → wordRecordNew word weights comment = .err .invalidArgument) ∧
    (weights.length = word.length + 1 → wordRecordNew word weights comment = .ok ⟨word, weights, comment⟩) := by
  unfold wordRecordNew
  constructor <;> intro h <;> simp [h]

/-- dumping the dictionary and replacing it with the unmodified dump reproduces the model, for any words and comments
(given the CSV contract: the three columns come back as they were written) -/
theorem C19_dump_replace (m : WModel)
    (hshape : ∀ d ∈ m.dict, d.weights.length = d.word.length + 1)
    (hrange : ∀ d ∈ m.dict, ∀ w ∈ d.weights, -(2 ^ 31 : Int) ≤ w ∧ w < 2 ^ 31) :
    loadRows (m.dict.map dumpRow) = .ok m.dict ∧ m.replaceDict m.dict = m := by
  exact ⟨C19L.loadRows_dump m.dict hshape hrange, by cases m; rfl⟩

/-- non-vacuity: the extreme `i32` values and a negative number survive the `weights` column -/
example : parseWeights (joinWeights [-2147483648, 0, 7, 2147483647]) = some [-2147483648, 0, 7, 2147483647] := by
  decide

/-- non-vacuity: a malformed column and an out-of-range weight are rejected -/
example : parseWeights "1  2".toList = none ∧ parseWeights "2147483648".toList = none := by decide

/-- at the level of the predictor (C19_replace_delta ∘ C01_scores): for well-formed models before and after the edit, the
reported score of every boundary changes by exactly the new entries' minus the old entries' dictionary weights -/
theorem C19_predictor_delta (cfg : Cfg) (m : WModel) (d' : List DictWord) (hm : WFModel m) (hm' : WFModel (m.replaceDict d'))
    (pt : Bool) (p p' : Predictor) (hp : Predictor.new cfg m pt = .ok p)
    (hp' : Predictor.new cfg (m.replaceDict d') pt = .ok p') (s : Sentence) (hs : SentOK s) (pid : Nat) :
    ∃ s1 s2 sc1 sc2, p.predict pid s = .ok s1 ∧ p'.predict pid s = .ok s2 ∧
      s1.boundaryScores = .ok sc1 ∧ s2.boundaryScores = .ok sc2 ∧
      ∀ b, b < s.text.length - 1 →
        sc2.getD b 0 - sc1.getD b 0 = dictScore d' s.text b - dictScore m.dict s.text b := by
  obtain ⟨s1, e1, a1, _⟩ := C01_scores cfg m hm pt p hp s hs pid
  obtain ⟨s2, e2, a2, _⟩ := C01_scores cfg (m.replaceDict d') hm' pt p' hp' s hs pid
  refine ⟨s1, s2, _, _, e1, e2, a1, a2, ?_⟩
  intro b hb
  have h1 : (specScores m s.text).getD b 0 = specScore m s.text b := by
    simp [specScores, List.getD_eq_getElem?_getD, hb]
  have h2 : (specScores (m.replaceDict d') s.text).getD b 0 = specScore (m.replaceDict d') s.text b := by
    simp [specScores, List.getD_eq_getElem?_getD, hb]
  rw [h1, h2]
  exact C19_replace_delta m d' s.text b

/-! ## the CSV file layer (`VModel/CsvFile.lean`): the contract "read (write rows) = rows" of the `csv` crate, proved for the model
of its writer and of its reader automaton -/

/-- one field, alone in its record (the empty field is written as `""`) and in any position of a longer record, comes back
as it was written — for any characters, `,` `"` CR LF included -/
theorem C19_csv_field_roundtrip (f : List Char) :
    csvParse (csvRecord [f]) = some [[f]] ∧
    ∀ pre post : List (List Char), csvParse (csvRecord (pre ++ f :: post)) = some [pre ++ f :: post] := by
  have h : ∀ r : List (List Char), r ≠ [] → csvParse (csvRecord r) = some [r] := by
    intro r hr
    have := C19F.go_record r hr []
    simpa [csvParse, csvGo] using this
  exact ⟨h [f] (by simp), fun pre post => h _ (by simp)⟩

/-- the reader applied to what the writer wrote gives back the records, for ALL lists of records of at least one field each
and arbitrary fields.  No further restriction is needed: the one spelling that real CSV cannot tell from a blank line — a
record consisting of one empty field — is written as `""` by `csv_core::Writer::terminator`, and `csvRecord` models that. -/
theorem C19_csv_roundtrip (records : List (List (List Char))) (hne : ∀ r ∈ records, r ≠ []) :
    csvParse (records.flatMap csvRecord) = some records := by
  have := C19F.go_records records hne []
  simpa [csvParse, csvGo] using this

/-- the restriction `r ≠ []` is needed (a record of zero fields is written like a record of one empty field), and without the
`""` rule of the writer a record of one empty field would be lost: it would read as a blank line -/
example : csvParse ([[]].flatMap csvRecord) = some [[[]]] ∧ csvParse (csvJoin [[]] ++ ['\n']) = some [] := by decide

/-- the spellings an editor produces are read as well, and are inside the strict domain: any field may be in quotes
(`(true, f)`), every record is followed by a non-empty run of CR / LF (so LF, CR LF, CR, and blank lines), blank lines may
precede the first record, and the last record may lack its terminator (`last`, `[]` = there is none).  The only excluded
spelling is the record written as nothing (one unquoted empty field): it is a blank line. -/
theorem C19_csv_variants (lead : List Char) (recs : List (List (Bool × List Char) × List Char))
    (last : List (Bool × List Char))
    (hlead : ∀ c ∈ lead, c = '\n' ∨ c = '\r')
    (hrecs : ∀ r ∈ recs, r.1 ≠ [] ∧ r.1 ≠ [(false, [])] ∧ r.2 ≠ [] ∧ ∀ c ∈ r.2, c = '\n' ∨ c = '\r')
    (hlast : last ≠ [(false, [])]) :
    csvParse (lead ++ (recs.flatMap (fun r => C19F.csvJoinV r.1 ++ r.2) ++ C19F.csvJoinV last)) =
      some (recs.map (fun r => r.1.map (·.2)) ++ (if last = [] then [] else [last.map (·.2)])) ∧
    csvStrictGo .startRecord (lead ++ (recs.flatMap (fun r => C19F.csvJoinV r.1 ++ r.2) ++ C19F.csvJoinV last)) = true := by
  have h1 := C19F.go_fileV lead recs last hlead hrecs hlast
  have h2 := C19F.strict_fileV lead recs last hlead hrecs hlast
  unfold C19F.csvFileV at h1 h2
  exact ⟨by rw [csvParse, h1], h2⟩

/-- the contract of the `csv` crate that `C19_dump_replace` assumed: a file consisting of the header and one record per row is
read as exactly these rows, whatever the three columns contain -/
theorem C19_csv_contract (rows : List (List Char × List Char × List Char)) :
    csvLoadFile (csvRecord csvHeader ++ rows.flatMap fun r => csvRecord (csvRowFields r)) = loadRows rows :=
  C19F.load_written rows

/-- dump file, then load file: the dictionary comes back, for any words and comments -/
theorem C19_dump_file_roundtrip (d : List DictWord)
    (hshape : ∀ e ∈ d, e.weights.length = e.word.length + 1)
    (hrange : ∀ e ∈ d, ∀ w ∈ e.weights, -(2 ^ 31 : Int) ≤ w ∧ w < 2 ^ 31) :
    csvLoadFile (csvDumpFile d) = .ok d := by
  by_cases hd : d = []
  · subst hd; rfl
  · rw [C19F.dumpFile_eq d hd, C19F.load_written]
    exact C19L.loadRows_dump d hshape hrange

/-- model ↦ dump file ↦ replace gives the same model (all components: `C19_replace_frame` for the rest) -/
theorem C19_dump_file_replace_model (m : WModel)
    (hshape : ∀ d ∈ m.dict, d.weights.length = d.word.length + 1)
    (hrange : ∀ d ∈ m.dict, ∀ w ∈ d.weights, -(2 ^ 31 : Int) ≤ w ∧ w < 2 ^ 31) :
    ∃ d', csvLoadFile (csvDumpFile m.dict) = .ok d' ∧ m.replaceDict d' = m ∧
      (m.replaceDict d').charNgrams = m.charNgrams ∧ (m.replaceDict d').typeNgrams = m.typeNgrams ∧
      (m.replaceDict d').bias = m.bias ∧ (m.replaceDict d').charW = m.charW ∧ (m.replaceDict d').typeW = m.typeW ∧
      (m.replaceDict d').tagModels = m.tagModels ∧ (m.replaceDict d').dict = m.dict := by
  refine ⟨m.dict, C19_dump_file_roundtrip m.dict hshape hrange, (C19_dump_replace m hshape hrange).2, ?_⟩
  exact C19_replace_frame m m.dict

/-- every file written as the header and further records (of at least one field each) is inside the strict domain -/
theorem C19_written_file_strict (recs : List (List (List Char))) (hne : ∀ r ∈ recs, r ≠ []) :
    csvStrict (csvRecord csvHeader ++ recs.flatMap csvRecord) = true := by
  have hall : ∀ r ∈ csvHeader :: recs, r ≠ [] := by
    intro r hr
    rcases List.mem_cons.mp hr with e | e
    · rw [e]; exact C19F.header_ne_nil
    · exact hne r e
  have hp : csvGo .startRecord [] [] (csvRecord csvHeader ++ recs.flatMap csvRecord) = csvHeader :: recs := by
    simpa [csvGo] using C19F.go_records (csvHeader :: recs) hall []
  have hs : csvStrictGo .startRecord (csvRecord csvHeader ++ recs.flatMap csvRecord) = true := by
    have := C19F.strict_records (csvHeader :: recs) hall []
    rw [List.append_nil, List.flatMap_cons] at this
    rw [this]; rfl
  unfold csvStrict
  rw [C19F.hasBom_header, hs, hp]
  simp

/-- the writer's output is inside the domain where the model claims agreement with the real reader (no hypothesis on `d`) -/
theorem C19_dump_file_strict (d : List DictWord) : csvStrict (csvDumpFile d) = true := by
  by_cases hd : d = []
  · subst hd; rfl
  · rw [C19F.dumpFile_eq d hd, ← List.flatMap_map]
    apply C19_written_file_strict
    intro r hr
    obtain ⟨x, _, e⟩ := List.mem_map.mp hr
    rw [← e]; simp [csvRowFields]

/-- a file in which some record's `weights` column does not parse (empty column, double space, non-digit, outside `i32`) or has a
number of weights different from the word length + 1 is rejected as a whole -/
theorem C19_load_file_rejects (rows : List (List Char × List Char × List Char))
    (hbad : ∃ r ∈ rows, ∀ ws, parseWeights r.2.1 = some ws → ws.length ≠ r.1.length + 1) :
    csvLoadFile (csvRecord csvHeader ++ rows.flatMap fun r => csvRecord (csvRowFields r)) = .err .invalidArgument := by
  rw [C19F.load_written]
  exact C19F.loadRows_bad rows hbad

/-- … and so is a file in which some record does not have exactly three fields (`UnequalLengths` in the real reader) -/
theorem C19_load_file_rejects_fieldcount (recs : List (List (List Char))) (hne : ∀ r ∈ recs, r ≠ [])
    (hbad : ∃ r ∈ recs, r.length ≠ 3) :
    csvLoadFile (csvRecord csvHeader ++ recs.flatMap csvRecord) = .err .invalidArgument := by
  rw [C19F.load_written_records recs hne, C19F.mapM_rowOf_none recs hbad]

/-- a file is never half-accepted: the result is the whole dictionary or the rejection -/
theorem C19_load_file_total (s : List Char) :
    (∃ d, csvLoadFile s = .ok d) ∨ csvLoadFile s = .err .invalidArgument := by
  unfold csvLoadFile csvParse
  cases csvGo .startRecord [] [] (csvStripBom s) with
  | nil => exact Or.inl ⟨[], rfl⟩
  | cons h recs =>
    by_cases hh : h = csvHeader
    · simp only []; rw [if_pos hh]
      cases recs.mapM csvRowOf? with
      | none => exact Or.inr rfl
      | some rows => exact C19F.loadRows_cases rows
    · simp only []; rw [if_neg hh]; exact Or.inr rfl

/-! ### non-vacuity (all by `decide`) -/

/-- hostile fields: `a,b`, a lone quote, an embedded line break, CR, the empty field, `#x`, leading / trailing spaces -/
example : csvRecord ["a,b".toList, "\"".toList, "x\ny".toList, "\r".toList, [], "#x".toList, " y ".toList]
    = "\"a,b\",\"\"\"\",\"x\ny\",\"\r\",,#x, y \n".toList := by decide

example : csvParse "\"a,b\",\"\"\"\",\"x\ny\",\"\r\",,#x, y \n".toList
    = some [["a,b".toList, "\"".toList, "x\ny".toList, "\r".toList, [], "#x".toList, " y ".toList]] := by decide

/-- a dictionary with hostile words and comments: the file, the way back, strictness -/
example : csvDumpFile [⟨"a,b".toList, [1, -2, 3, 4], []⟩, ⟨"\"".toList, [0, 2147483647], "#x".toList⟩,
      ⟨"x\ny".toList, [-2147483648, 0, 0, 5], " lead and trail ".toList⟩, ⟨[], [7], "say \"hi\"".toList⟩]
    = ("word,weights,comment\n\"a,b\",1 -2 3 4,\n\"\"\"\",0 2147483647,#x\n" ++
       "\"x\ny\",-2147483648 0 0 5, lead and trail \n,7,\"say \"\"hi\"\"\"\n").toList := by decide

example : csvLoadFile (csvDumpFile [⟨"a,b".toList, [1, -2, 3, 4], []⟩, ⟨"\"".toList, [0, 2147483647], "#x".toList⟩,
      ⟨"x\ny".toList, [-2147483648, 0, 0, 5], " lead and trail ".toList⟩, ⟨[], [7], "say \"hi\"".toList⟩])
    = .ok [⟨"a,b".toList, [1, -2, 3, 4], []⟩, ⟨"\"".toList, [0, 2147483647], "#x".toList⟩,
      ⟨"x\ny".toList, [-2147483648, 0, 0, 5], " lead and trail ".toList⟩, ⟨[], [7], "say \"hi\"".toList⟩] := by decide

/-- the empty dictionary: an empty file, which loads as the empty dictionary; so does a file with the header only -/
example : csvDumpFile [] = [] ∧ csvLoadFile [] = .ok [] ∧ csvLoadFile "word,weights,comment\n".toList = .ok [] ∧
    csvStrict [] = true := by decide

/-- what an editor saves: every field quoted, CR LF, a blank line, no final terminator — accepted and strict -/
example : csvLoadFile "\"word\",\"weights\",\"comment\"\r\n\"a,b\",\"1 2 3 4\",\"\"\r\n\r\nc,5 6,x".toList
      = .ok [⟨"a,b".toList, [1, 2, 3, 4], []⟩, ⟨"c".toList, [5, 6], "x".toList⟩] ∧
    csvStrict "\"word\",\"weights\",\"comment\"\r\n\"a,b\",\"1 2 3 4\",\"\"\r\n\r\nc,5 6,x".toList = true ∧
    csvLoadFile "word,weights,comment\ra,1 2,\r".toList = .ok [⟨"a".toList, [1, 2], []⟩] := by decide

/-- rejected files: wrong number of weights, unparsable weights (double space, empty column, out of range), two or four
fields, another header -/
example : csvLoadFile "word,weights,comment\nab,1 2,x\n".toList = .err .invalidArgument ∧
    csvLoadFile "word,weights,comment\nab,1  2 3,x\n".toList = .err .invalidArgument ∧
    csvLoadFile "word,weights,comment\nok,1 2 3,\n,,x\n".toList = .err .invalidArgument ∧
    csvLoadFile "word,weights,comment\na,1 2147483648,x\n".toList = .err .invalidArgument ∧
    csvLoadFile "word,weights,comment\na,1 2\n".toList = .err .invalidArgument ∧
    csvLoadFile "word,weights,comment\na,1 2,x,y\n".toList = .err .invalidArgument ∧
    csvLoadFile "word,weight,comment\na,1 2,x\n".toList = .err .invalidArgument := by decide

/-- the lenient inputs are read like csv-core reads them, and flagged: a quote inside an unquoted field, text after a closing
quote, a quoted field open at the end of the input, a byte order mark, a permuted header -/
example : csvParse "a\"b,\"c\"d\n\"open".toList = some [["a\"b".toList, "cd".toList], ["open".toList]] ∧
    csvStrict "word,weights,comment\na\"b,1 2 3 4,\n".toList = false ∧
    csvStrict "word,weights,comment\n\"a\"b,1 2 3,\n".toList = false ∧
    csvStrict "word,weights,comment\na,1 2,\"x".toList = false ∧
    csvStrict (Char.ofNat 0xFEFF :: "word,weights,comment\na,1 2,x\n".toList) = false ∧
    csvLoadFile (Char.ofNat 0xFEFF :: "word,weights,comment\na,1 2,x\n".toList) = .ok [⟨"a".toList, [1, 2], "x".toList⟩] ∧
    csvStrict "comment,word,weights\nx,a,1 2\n".toList = false := by decide

end V
