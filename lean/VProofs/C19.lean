import VModel.Csv
/-!
# C19 — Dictionary edits act as documented; dump and replace are lossless

Property theorems only (helper lemmas live in `VProofs/Lemmas/Csv*.lean`).
-/
namespace V

/-- replacing the dictionary changes the score of every boundary by exactly the difference between the new and the old
entries' weights at that boundary over all occurrences of their words -/
theorem C19_replace_delta (m : WModel) (d' : List DictWord) (text : List Char) (b : Nat) :
    specScore (m.replaceDict d') text b - specScore m text b = dictScore d' text b - dictScore m.dict text b := by
  sorry

/-- … and changes nothing else in the model -/
theorem C19_replace_frame (m : WModel) (d' : List DictWord) :
    (m.replaceDict d').charNgrams = m.charNgrams ∧ (m.replaceDict d').typeNgrams = m.typeNgrams ∧
    (m.replaceDict d').bias = m.bias ∧ (m.replaceDict d').charW = m.charW ∧ (m.replaceDict d').typeW = m.typeW ∧
    (m.replaceDict d').tagModels = m.tagModels ∧ (m.replaceDict d').dict = d' := by
  sorry

/-- the `weights` column round-trips for every non-empty list of 32-bit weights (negative numbers included) -/
theorem C19_weights_roundtrip (ws : List Int) (hne : ws ≠ [])
    (hr : ∀ w ∈ ws, -(2 ^ 31 : Int) ≤ w ∧ w < 2 ^ 31) : parseWeights (joinWeights ws) = some ws := by
  sorry

/-- records whose weight count does not match the word length are rejected, all others accepted unchanged -/
theorem C19_record_check (word : List Char) (weights : List Int) (comment : List Char) :
    (weights.length ≠ word.length + 1 → wordRecordNew word weights comment = .err .invalidArgument) ∧
    (weights.length = word.length + 1 → wordRecordNew word weights comment = .ok ⟨word, weights, comment⟩) := by
  sorry

/-- dumping the dictionary and replacing it with the unmodified dump reproduces the model, for any words and comments
(given the CSV contract: the three columns come back as they were written) -/
theorem C19_dump_replace (m : WModel)
    (hshape : ∀ d ∈ m.dict, d.weights.length = d.word.length + 1)
    (hrange : ∀ d ∈ m.dict, ∀ w ∈ d.weights, -(2 ^ 31 : Int) ≤ w ∧ w < 2 ^ 31) :
    loadRows (m.dict.map dumpRow) = .ok m.dict ∧ m.replaceDict m.dict = m := by
  sorry

end V
