import VModel.Csv
import VProofs.C01
import VProofs.Lemmas.CsvSplit
/-!
# C19 — Dictionary edits act as documented; dump and replace are lossless

Property theorems only (helper lemmas live in `VProofs/Lemmas/Csv*.lean`).
-/
namespace V

/-- replacing the dictionary changes the score of every boundary by exactly the difference between the new and the old
entries' weights at that boundary over all occurrences of their words -/
theorem C19_replace_delta (m : WModel) (d' : List DictWord) (text : List Char) (b : Nat) :
    specScore (m.replaceDict d') text b - specScore m text b = dictScore d' text b - dictScore m.dict text b := by
  simp only [specScore, WModel.replaceDict]
  omega

/-- … and changes nothing else in the model -/
theorem C19_replace_frame (m : WModel) (d' : List DictWord) :
    (m.replaceDict d').charNgrams = m.charNgrams ∧ (m.replaceDict d').typeNgrams = m.typeNgrams ∧
    (m.replaceDict d').bias = m.bias ∧ (m.replaceDict d').charW = m.charW ∧ (m.replaceDict d').typeW = m.typeW ∧
    (m.replaceDict d').tagModels = m.tagModels ∧ (m.replaceDict d').dict = d' := by
  simp [WModel.replaceDict]

/-- the `weights` column round-trips for every non-empty list of 32-bit weights (negative numbers included) -/
theorem C19_weights_roundtrip (ws : List Int) (hne : ws ≠ [])
    (hr : ∀ w ∈ ws, -(2 ^ 31 : Int) ≤ w ∧ w < 2 ^ 31) : parseWeights (joinWeights ws) = some ws := by
  exact C19L.parseWeights_join ws hne hr

/-- records whose weight count does not match the word length are rejected, all others accepted unchanged -/
theorem C19_record_check (word : List Char) (weights : List Int) (comment : List Char) :
    (weights.length ≠ word.length + 1 → wordRecordNew word weights comment = .err .invalidArgument) ∧
    (weights.length = word.length + 1 → wordRecordNew word weights comment = .ok ⟨word, weights, comment⟩) := by
  unfold wordRecordNew
  constructor <;> intro h <;> simp [h]

/-- dumping the dictionary and replacing it with the unmodified dump reproduces the model, for any words and comments
(given the CSV contract: the three columns come back as they were written) -/
theorem C19_dump_replace (m : WModel)
    (hshape : ∀ d ∈ m.dict, d.weights.length = d.word.length + 1)
    (hrange : ∀ d ∈ m.dict, ∀ w ∈ d.weights, -(2 ^ 31 : Int) ≤ w ∧ w < 2 ^ 31) :
    loadRows (m.dict.map dumpRow) = .ok m.dict ∧ m.replaceDict m.dict = m := by
  exact ⟨C19L.loadRows_dump m.dict hshape hrange, by cases m; rfl⟩

/-- non-vacuity: the extreme `i32` values and a negative number survive the `weights` column -/
example : parseWeights (joinWeights [-2147483648, 0, 7, 2147483647]) = some [-2147483648, 0, 7, 2147483647] := by
  decide

/-- non-vacuity: a malformed column and an out-of-range weight are rejected -/
example : parseWeights "1  2".toList = none ∧ parseWeights "2147483648".toList = none := by decide

/-- at the level of the predictor (C19_replace_delta ∘ C01_scores): for well-formed models before and after the edit, the
reported score of every boundary changes by exactly the new entries' minus the old entries' dictionary weights -/
theorem C19_predictor_delta (cfg : Cfg) (m : WModel) (d' : List DictWord) (hm : WFModel m) (hm' : WFModel (m.replaceDict d'))
    (pt : Bool) (p p' : Predictor) (hp : Predictor.new cfg m pt = .ok p)
    (hp' : Predictor.new cfg (m.replaceDict d') pt = .ok p') (s : Sentence) (hs : SentOK s) (pid : Nat) :
    ∃ s1 s2 sc1 sc2, p.predict pid s = .ok s1 ∧ p'.predict pid s = .ok s2 ∧
      s1.boundaryScores = .ok sc1 ∧ s2.boundaryScores = .ok sc2 ∧
      ∀ b, b < s.text.length - 1 →
        sc2.getD b 0 - sc1.getD b 0 = dictScore d' s.text b - dictScore m.dict s.text b := by
  obtain ⟨s1, e1, a1, _⟩ := C01_scores cfg m hm pt p hp s hs pid
  obtain ⟨s2, e2, a2, _⟩ := C01_scores cfg (m.replaceDict d') hm' pt p' hp' s hs pid
  refine ⟨s1, s2, _, _, e1, e2, a1, a2, ?_⟩
  intro b hb
  have h1 : (specScores m s.text).getD b 0 = specScore m s.text b := by
    simp [specScores, List.getD_eq_getElem?_getD, hb]
  have h2 : (specScores (m.replaceDict d') s.text).getD b 0 = specScore (m.replaceDict d') s.text b := by
    simp [specScores, List.getD_eq_getElem?_getD, hb]
  rw [h1, h2]
  exact C19_replace_delta m d' s.text b

end V

