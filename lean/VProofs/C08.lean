import VModel.History
import VProofs.C05
/-!
# C08 — Reusing a sentence or sharing a predictor never changes results

Property theorems only.
-/
namespace V

/-- whatever a sentence object went through before — any state `s`, reachable or not — `update_raw(x)` makes it exactly the
sentence `from_raw(x)` constructs, so everything that follows (predict with any predictor, fill_tags, every observation)
is identical to the run on a freshly created sentence -/
theorem C08_reuse (env : List Predictor) (s : Sentence) (x : List Char) (k : Nat) (fill : Bool)
    (hx : ∃ s0, Sentence.fromRaw x = .ok s0) : probe env s x k fill = probeFresh env x k fill := by
  obtain ⟨s0, h0⟩ := hx
  have hu : s.updateRaw x = .ok (s0, true) := by
    unfold Sentence.fromRaw at h0
    unfold Sentence.updateRaw
    cases hp : parseRaw x with
    | ok v =>
      obtain ⟨ty, bs⟩ := v
      rw [hp] at h0
      simp only [Res.ok.injEq] at h0
      subst h0
      simp [Sentence.default]
    | err e => rw [hp] at h0; cases h0
    | panic q => rw [hp] at h0; cases h0
    | ub q => rw [hp] at h0; cases h0
  unfold probe probeFresh
  rw [h0]
  simp only [List.cons_append, List.nil_append, runHistory, HOp.apply, hu]

/-- in particular after any history of calls on one sentence object -/
theorem C08_reuse_history (env : List Predictor) (ops : List HOp) (s : Sentence)
    (_hr : runHistory env Sentence.default ops = .ok s) (x : List Char) (k : Nat) (fill : Bool)
    (hx : ∃ s0, Sentence.fromRaw x = .ok s0) : probe env s x k fill = probeFresh env x k fill :=
  C08_reuse env s x k fill hx

/-! ## one predictor shared by many threads

A predictor is an immutable value and every call is a function of the predictor and the caller's own sentence.  A system
state is one sentence per thread; a schedule is any interleaving of calls, each executed by one thread on its own
sentence.  (Interleavings below call granularity are not modelled; they are irrelevant exactly when `predict` writes no
shared state, which is what `Predictor: Sync` without interior mutability guarantees — checked by rustc and a source scan.) -/

/-- a call that does not return leaves the caller's sentence as it was -/
def stepLocal (env : List Predictor) (s : Sentence) (op : HOp) : Sentence :=
  match op.apply env s with
  | .ok (s', _) => s'
  | _ => s

def stepSys (env : List Predictor) (st : List Sentence) (c : Nat × HOp) : List Sentence :=
  match st[c.1]? with
  | some s => st.set c.1 (stepLocal env s c.2)
  | none => st

def runSys (env : List Predictor) (st : List Sentence) (sched : List (Nat × HOp)) : List Sentence :=
  sched.foldl (stepSys env) st

/-- the calls of thread `i`, in their own order -/
def projOps (sched : List (Nat × HOp)) (i : Nat) : List HOp := (sched.filter (fun c => c.1 = i)).map Prod.snd

/-- every interleaving gives every thread exactly the result of running its own calls sequentially -/
theorem C08_interleaving (env : List Predictor) (sched : List (Nat × HOp)) (st : List Sentence) (i : Nat) (s : Sentence)
    (h : st[i]? = some s) :
    (runSys env st sched)[i]? = some ((projOps sched i).foldl (stepLocal env) s) := by
  induction sched generalizing st s with
  | nil => simpa [runSys, projOps] using h
  | cons c cs ih =>
    obtain ⟨j, op⟩ := c
    simp only [runSys, List.foldl_cons]
    by_cases hj : j = i
    · subst hj
      have hst : stepSys env st (j, op) = st.set j (stepLocal env s op) := by
        simp [stepSys, h]
      have hget : (stepSys env st (j, op))[j]? = some (stepLocal env s op) := by
        rw [hst]
        have hlt : j < st.length := by
          rcases List.getElem?_eq_some_iff.mp h with ⟨hl, _⟩; exact hl
        simp [hlt]
      have := ih (stepSys env st (j, op)) (stepLocal env s op) hget
      simpa [runSys, projOps] using this
    · have hget : (stepSys env st (j, op))[i]? = some s := by
        unfold stepSys
        cases hjs : st[j]? with
        | none => simpa using h
        | some sj =>
          simp only []
          rw [List.getElem?_set_ne hj]
          exact h
      have := ih (stepSys env st (j, op)) s hget
      have hp : projOps ((j, op) :: cs) i = projOps cs i := by
        simp [projOps, hj]
      rw [hp]
      simpa [runSys] using this

end V
