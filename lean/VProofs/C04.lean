import VModel.Sentence
import VProofs.Lemmas.PartRound
/-!
# C04 — Partial-annotation format round-trips

Property theorems only (helper lemmas live in `VProofs/Lemmas/Part*.lean`, namespace `V.C04L`).
-/
namespace V

/-- tags of character `i`, without trailing absent tags -/
def charTagsTrim (tags : List Tag) (nTags i : Nat) : List Tag :=
  trimNone ((tags.drop (i * nTags)).take nTags)

/-- the sentences C04 quantifies over: non-empty NUL-free text, any mix of `N`/`W`/`U` labels, `n × nTags` tag slots
on any character whose present tags are non-empty (they may contain `/`, `-`, `|`, space and backslash) -/
structure WFPart (s : Sentence) : Prop where
  text_ne : s.text ≠ []
  text_nul : ∀ c ∈ s.text, c ≠ '\x00'
  bounds_len : s.bounds.length + 1 = s.text.length
  tags_len : s.tags.length = s.text.length * s.nTags
  tags_ok : ∀ t, some t ∈ s.tags → t ≠ []

/-- writing any sentence as partial annotation and parsing it again yields the same raw text, the same label at
every boundary and the same tags at every character, up to trailing absent tags -/
theorem C04_roundtrip (s : Sentence) (h : WFPart s) :
    ∃ w p, s.writePartial = .ok w ∧ parsePartial w = .ok p ∧
      p.text = s.text ∧ p.bounds = s.bounds ∧
      ∀ i < s.text.length,
        charTagsTrim p.tags (p.tags.length / p.text.length) i = charTagsTrim s.tags s.nTags i := by
  obtain ⟨w, tt, hw, hp, hl, htt⟩ := C04L.writePartial_parse s h.text_ne h.text_nul h.bounds_len h.tags_len
  have hn : 0 < s.text.length := List.length_pos_iff.mpr h.text_ne
  exact ⟨w, _, hw, hp, rfl, rfl, fun i hi =>
    C04L.padTags_readback s.tags s.nTags s.text.length hn h.tags_ok tt hl htt i hi⟩

/-- every string the parser accepts yields a sentence in the domain of `C04_roundtrip` -/
theorem C04_parsed_wf (x : List Char) (p : Parsed) (h : parsePartial x = .ok p) :
    ∃ s, Sentence.ofParsed p = .ok s ∧ WFPart s := by
  obtain ⟨tt, htags, hl, hnul, hbl⟩ := C04L.parsePartial_ok h
  have hn : 0 < p.text.length := by omega
  have hne : p.text ≠ [] := List.length_pos_iff.mp hn
  obtain ⟨h1, h2⟩ := C04L.parsed_tags_ok tt p.text.length hn hl
  rw [← htags] at h1 h2
  refine ⟨_, by simp only [Sentence.ofParsed, divTags, Nat.ne_of_gt hn, if_false]; rfl, ?_⟩
  exact ⟨hne, hnul, hbl, h1, h2⟩

/-! ## non-vacuity; the writer of the pinned tree (no escaping) is refuted by the same witness -/

example : (Sentence.fromPartial "a-b/x\\-y c".toList).bind (fun s => s.writePartial) = .ok "a-b/x\\-y c".toList := by
  decide

end V
