import VModel.Bincode
import VProofs.Lemmas.BinRead
/-!
# C07 — Model files round-trip; partial or foreign files are rejected

Property theorems only (helper lemmas live in `VProofs/Lemmas/Bin*.lean`).
`V.Bin` is a byte-exact model of the wire format; the correspondence run compares its bytes with the real ones.
-/
namespace V
open V.Bin V.BinL

/-- serialising and reading back from a slice gives the same model and exactly the bytes that followed it -/
theorem C07_roundtrip (m : WModel) (h : Encodable m) (rest : Bytes) :
    readSlice (toVec m ++ rest) = .ok (m, rest) := by
  exact readSlice_toVec h rest

/-- … and from a reader (which may hold further data after the model) -/
theorem C07_read_roundtrip (m : WModel) (h : Encodable m) (rest : Bytes) :
    read (toVec m ++ rest) = .ok m := by
  exact read_toVec h rest

/-- the decoded model is equal, so it serialises to the identical bytes (and predicts identically) -/
theorem C07_bytes_stable (m m' : WModel) (h : Encodable m) (rest rest' : Bytes)
    (hr : readSlice (toVec m ++ rest) = .ok (m', rest')) : toVec m' = toVec m ∧ rest' = rest := by
  rw [readSlice_toVec h rest] at hr
  injection hr with hr
  injection hr with h1 h2
  exact ⟨by rw [h1], h2.symm⟩

/-- every proper prefix of a model file is rejected with an error by both readers (never a panic, never a model);
a reader that fails after `k` bytes is the case `p = (toVec m).take k` -/
theorem C07_prefix_rejected (m : WModel) (h : Encodable m) (p : Bytes) (hp : p <+: toVec m) (hne : p ≠ toVec m) :
    (∃ e, readSlice p = .err e) ∧ (∃ e, read p = .err e) := by
  exact prefix_rejected h hp hne

/-- every input with a different header is rejected, whatever follows -/
theorem C07_foreign_header (hdr x : Bytes) (hlen : hdr.length = magic.length) (hne : hdr ≠ magic) :
    readSlice (hdr ++ x) = .err .invalidModel ∧ read (hdr ++ x) = .err .invalidModel := by
  have ht : (hdr ++ x).take magic.length ≠ magic := by
    rw [← hlen, List.take_left]; exact hne
  exact ⟨readSlice_bad_header ht, read_bad_header (by rw [List.length_append]; omega) ht⟩

/-- inputs shorter than the header are rejected (the slice reader must not index past the end) -/
theorem C07_short_input (bs : Bytes) (h : bs.length < magic.length) :
    readSlice bs = .err .invalidModel ∧ read bs = .err .io := by
  exact ⟨readSlice_bad_header (take_ne_magic_of_short h), read_short h⟩

/-- a writer that fails part-way yields an error; a writer that does not fail receives exactly `to_vec` -/
theorem C07_faulty_writer (m : WModel) (budget : Nat) :
    (budget < (toVec m).length → ∃ e, write m budget = .err e) ∧
    ((toVec m).length ≤ budget → write m budget = .ok (toVec m)) := by
  unfold write
  constructor
  · intro hb
    simp only [Nat.not_le.2 hb, if_false]
    split <;> exact ⟨_, rfl⟩
  · intro hb
    simp only [hb, if_true]

/- NOTE. A totality statement "no input whatsoever makes a reader panic" holds for this model (lemma
`BinL.readers_safe`) but is deliberately NOT a property theorem: it is outside C07's quantifier (prefixes of model
files, foreign headers, failing readers/writers) and it is false of the real code, which panics with "capacity
overflow" or aborts on allocation failure for crafted length prefixes (e.g. magic ++ [253,0,0,0,0,0,0,0,0x40]);
see DESIGN.md section 7 (out-of-domain observations). -/
/-! ## non-vacuity: a concrete model that satisfies `Encodable`, and the kernel evaluating the readers on it -/

/-- a small model that uses every field, 1–4 byte UTF-8 characters, 1/3/5 byte varints and the `i32` extremes -/
def C07_tiny : WModel :=
  { charNgrams := [⟨['a', 'あ'], [1, -2, 300]⟩], typeNgrams := [⟨[3, 4], [-70000]⟩],
    dict := [⟨['犬', '😀'], [5], ['x']⟩], bias := -7, charW := 3, typeW := 2,
    tagModels := [⟨['t'], [[['名', '詞']], []], [⟨['k'], [⟨1, [2, -3]⟩]⟩], [⟨[1], [⟨255, [2147483647]⟩]⟩],
      [-2147483648]⟩] }

theorem C07_tiny_encodable : Encodable C07_tiny where
  bias := by decide
  charW := by decide
  typeW := by decide
  i32 := by
    intro w hw
    simp only [C07_tiny, List.flatMap_cons, List.flatMap_nil, List.append_nil, List.mem_cons,
      List.not_mem_nil, or_false, List.cons_append, List.nil_append] at hw
    rcases hw with (h | h | h) | h | h | h | h | h | h <;> subst h <;> decide
  codes := by
    intro c hc
    simp only [C07_tiny, List.flatMap_cons, List.flatMap_nil, List.append_nil, List.mem_cons,
      List.not_mem_nil, or_false] at hc
    rcases hc with (h | h) | h <;> subst h <;> decide
  size := by decide
  rels := by
    intro r hr
    simp only [C07_tiny, List.flatMap_cons, List.flatMap_nil, List.append_nil, List.mem_cons, List.map_cons,
      List.map_nil, List.cons_append, List.nil_append, List.not_mem_nil, or_false] at hr
    rcases hr with h | h <;> subst h <;> decide

example : readSlice (toVec C07_tiny ++ [1, 2, 3]) = .ok (C07_tiny, [1, 2, 3]) := by decide
example : (toVec C07_tiny).length = 101 := by decide
/-- all 101 proper prefixes are rejected by both readers (evaluated, independently of `C07_prefix_rejected`) -/
example : (List.range (toVec C07_tiny).length).all (fun k =>
    match readSlice ((toVec C07_tiny).take k), read ((toVec C07_tiny).take k) with
    | .err _, .err _ => true
    | _, _ => false) = true := by decide +kernel
example : (∃ e, readSlice ((toVec C07_tiny).take 60) = .err e) ∧ (∃ e, read ((toVec C07_tiny).take 60) = .err e) :=
  C07_prefix_rejected C07_tiny C07_tiny_encodable _ (List.take_prefix _ _) (by decide)

end V
