import VModel.Bincode
/-!
# C07 — Model files round-trip; partial or foreign files are rejected

Property theorems only (helper lemmas live in `VProofs/Lemmas/Bin*.lean`).
`V.Bin` is a byte-exact model of the wire format; the correspondence run compares its bytes with the real ones.
-/
namespace V
open V.Bin

/-- serialising and reading back from a slice gives the same model and exactly the bytes that followed it -/
theorem C07_roundtrip (m : WModel) (h : Encodable m) (rest : Bytes) :
    readSlice (toVec m ++ rest) = .ok (m, rest) := by
  sorry

/-- … and from a reader (which may hold further data after the model) -/
theorem C07_read_roundtrip (m : WModel) (h : Encodable m) (rest : Bytes) :
    read (toVec m ++ rest) = .ok m := by
  sorry

/-- the decoded model is equal, so it serialises to the identical bytes (and predicts identically) -/
theorem C07_bytes_stable (m m' : WModel) (h : Encodable m) (rest rest' : Bytes)
    (hr : readSlice (toVec m ++ rest) = .ok (m', rest')) : toVec m' = toVec m ∧ rest' = rest := by
  sorry

/-- every proper prefix of a model file is rejected with an error by both readers (never a panic, never a model);
a reader that fails after `k` bytes is the case `p = (toVec m).take k` -/
theorem C07_prefix_rejected (m : WModel) (h : Encodable m) (p : Bytes) (hp : p <+: toVec m) (hne : p ≠ toVec m) :
    (∃ e, readSlice p = .err e) ∧ (∃ e, read p = .err e) := by
  sorry

/-- every input with a different header is rejected, whatever follows -/
theorem C07_foreign_header (hdr x : Bytes) (hlen : hdr.length = magic.length) (hne : hdr ≠ magic) :
    readSlice (hdr ++ x) = .err .invalidModel ∧ read (hdr ++ x) = .err .invalidModel := by
  sorry

/-- inputs shorter than the header are rejected (the slice reader must not index past the end) -/
theorem C07_short_input (bs : Bytes) (h : bs.length < magic.length) :
    readSlice bs = .err .invalidModel ∧ read bs = .err .io := by
  sorry

/-- a writer that fails part-way yields an error; a writer that does not fail receives exactly `to_vec` -/
theorem C07_faulty_writer (m : WModel) (budget : Nat) :
    (budget < (toVec m).length → ∃ e, write m budget = .err e) ∧
    ((toVec m).length ≤ budget → write m budget = .ok (toVec m)) := by
  sorry

/-- no input whatsoever makes a reader panic -/
theorem C07_total (bs : Bytes) : (readSlice bs).Safe ∧ (read bs).Safe := by
  sorry

end V
