import VModel.Tantivy
import VProofs.C01
import VProofs.C15
/-!
# C16 — Normalisation keeps character positions; search tokens tile the original text

Property theorems only (helper lemmas live in `VProofs/Lemmas/Tk*.lean`).
`Gen.fullwidthTable` is REGENERATED from the compiled `KyteaFullwidthFilter` on every run (exhaustive tabulation over all
Unicode scalar values), so the table facts below are re-checked against what the code does now; they must be proved from
boolean checks over the whole table (`decide`), never from individual entries.
-/
namespace V

/-- the full-width normaliser maps every string to one with the same number of characters -/
theorem C16_norm_len (s : List Char) : (Gen.fullwidth s).length = s.length := by
  sorry

/-- … is idempotent -/
theorem C16_norm_idem (s : List Char) : Gen.fullwidth (Gen.fullwidth s) = Gen.fullwidth s := by
  sorry

/-- … and changes only the characters in its table, each to the single character the table lists -/
theorem C16_norm_only_table (s : List Char) :
    Gen.fullwidth s = s.map fun c =>
      match Gen.lookupFw c.toNat Gen.fullwidthTable with
      | some [v] => Char.ofNat v
      | _ => c := by
  sorry

/-- tokens tile the text: the first starts at byte 0, each starts where the previous one ended, each is non-empty, lies on
character boundaries of the ORIGINAL text and carries exactly that substring, positions count 0, 1, 2, …, and the last one
ends at the byte length of the text -/
def StreamChain (text : List Char) : List StreamToken → Nat → Nat → Prop
  | [], off, _ => off = utf8Len text
  | t :: r, off, pos =>
    t.offsetFrom = off ∧ off < t.offsetTo ∧ t.position = pos ∧ sliceBytes text off t.offsetTo = some t.text ∧
      StreamChain text r t.offsetTo (pos + 1)

theorem C16_tiling (p : Predictor) (filters : List PostFilter) (text : List Char) (hne : text ≠ [])
    (hp : (∃ s, pipeline p filters text = .ok s ∧ s.bounds.length + 1 = text.length) ∨
          (∃ e, pipeline p filters text = .err e)) :
    ∃ toks, tokenStream p filters text = .ok toks ∧ toks ≠ [] ∧ StreamChain text toks 0 0 := by
  sorry

/-- the empty text has no tokens -/
theorem C16_empty (p : Predictor) (filters : List PostFilter) : tokenStream p filters [] = .ok [] := by
  sorry

/-- the stream breaks exactly where the core pipeline (normalise, predict, line-break filter, configured filters) breaks:
the token starts after the first are the byte offsets of the characters that follow a `W` boundary -/
theorem C16_breaks_eq_pipeline (p : Predictor) (filters : List PostFilter) (text : List Char) (hne : text ≠ [])
    (s : Sentence) (hp : pipeline p filters text = .ok s) (hb : s.bounds.length + 1 = text.length)
    (toks : List StreamToken) (ht : tokenStream p filters text = .ok toks) :
    (toks.drop 1).map (·.offsetFrom) =
      (List.range s.bounds.length).filterMap fun i =>
        if s.bounds[i]? = some B.W then (charToStr text)[i + 1]? else none := by
  sorry

/-- for a well-formed model the pipeline keeps one boundary per adjacent pair of characters of the ORIGINAL text (this is
where `C16_norm_len` is needed), so the hypotheses of the two theorems above are met whenever the text is NUL-free -/
theorem C16_pipeline_len (cfg : Cfg) (m : WModel) (hm : WFModel m) (p : Predictor) (hp : Predictor.new cfg m false = .ok p)
    (wsconst : List Char) (clusters : List Nat) (filters : List PostFilter)
    (hf : buildPostFilters wsconst clusters = .ok filters) (text : List Char) (hne : text ≠ [])
    (hnul : '\x00' ∉ text) (hcl : ∀ l ∈ clusters, 1 ≤ l) (hsum : clusters.sum = text.length) :
    ∃ s, pipeline p filters text = .ok s ∧ s.bounds.length + 1 = text.length ∧ ∀ b ∈ s.bounds, b ≠ B.U := by
  sorry

end V
