import VModel.Tantivy
import VProofs.C01
import VProofs.C15
import VProofs.Lemmas.TkNorm
import VProofs.Lemmas.TkOffsets
import VProofs.Lemmas.TkPipeline
/-!
# C16 — Normalisation keeps character positions; search tokens tile the original text

Property theorems only (helper lemmas live in `VProofs/Lemmas/Tk*.lean`).
`Gen.fullwidthTable` is REGENERATED from the compiled `KyteaFullwidthFilter` on every run (exhaustive tabulation over all
Unicode scalar values), so the table facts below are re-checked against what the code does now; they must be proved from
boolean checks over the whole table (`decide`), never from individual entries.
-/
namespace V

/-- the full-width normaliser maps every string to one with the same number of characters -/
theorem C16_norm_len (s : List Char) : (Gen.fullwidth s).length = s.length := by
  exact C16L.fullwidth_length s

/-- … is idempotent -/
theorem C16_norm_idem (s : List Char) : Gen.fullwidth (Gen.fullwidth s) = Gen.fullwidth s := by
  exact C16L.fullwidth_idem s

/-- … and changes only the characters in its table, each to the single character the table lists -/
theorem C16_norm_only_table (s : List Char) :
    Gen.fullwidth s = s.map fun c =>
      match Gen.lookupFw c.toNat Gen.fullwidthTable with
      | some [v] => Char.ofNat v
      | _ => c := by
  exact C16L.fullwidth_eq_map s

/-- tokens tile the text: the first starts at byte 0, each starts where the previous one ended, each is non-empty, lies on
character boundaries of the ORIGINAL text and carries exactly that substring, positions count 0, 1, 2, …, and the last one
ends at the byte length of the text -/
def StreamChain (text : List Char) : List StreamToken → Nat → Nat → Prop
  | [], off, _ => off = utf8Len text
  | t :: r, off, pos =>
    t.offsetFrom = off ∧ off < t.offsetTo ∧ t.position = pos ∧ sliceBytes text off t.offsetTo = some t.text ∧
      StreamChain text r t.offsetTo (pos + 1)

/-- `C16L.Chain` (used by the helper lemmas) is the same predicate -/
theorem streamChain_of_chain (text : List Char) : ∀ (toks : List StreamToken) (off pos : Nat),
    C16L.Chain text toks off pos → StreamChain text toks off pos
  | [], _, _, h => h
  | _ :: r, _, _, ⟨h1, h2, h3, h4, h5⟩ => ⟨h1, h2, h3, h4, streamChain_of_chain text r _ _ h5⟩

theorem C16_tiling (p : Predictor) (filters : List PostFilter) (text : List Char) (hne : text ≠ [])
    (hp : (∃ s, pipeline p filters text = .ok s ∧ s.bounds.length + 1 = text.length) ∨
          (∃ e, pipeline p filters text = .err e)) :
    ∃ toks, tokenStream p filters text = .ok toks ∧ toks ≠ [] ∧ StreamChain text toks 0 0 := by
  have hemp : ¬ (text.isEmpty = true) := by simpa using hne
  unfold tokenStream
  rw [if_neg hemp]
  rcases hp with ⟨s, hs, hb⟩ | ⟨e, he⟩
  · obtain ⟨toks, h1, h2, h3, _⟩ := C16L.advance_boundaryPos text hne s.bounds (by omega)
    exact ⟨toks, by simp only [hs, h1], h2, streamChain_of_chain text toks 0 0 h3⟩
  · obtain ⟨toks, h1, h2, h3, _⟩ := C16L.advance_boundaryPos text hne [] (by
      have := List.length_pos_iff.mpr hne
      simp only [List.length_nil]; omega)
    have hb : boundaryPos text [] = [utf8Len text] := by simp [boundaryPos]
    rw [hb] at h1
    exact ⟨toks, by simp only [he, h1], h2, streamChain_of_chain text toks 0 0 h3⟩

/-- the empty text has no tokens -/
theorem C16_empty (p : Predictor) (filters : List PostFilter) : tokenStream p filters [] = .ok [] := by
  rfl

/-- the stream breaks exactly where the core pipeline (normalise, predict, line-break filter, configured filters) breaks:
the token starts after the first are the byte offsets of the characters that follow a `W` boundary -/
theorem C16_breaks_eq_pipeline (p : Predictor) (filters : List PostFilter) (text : List Char) (hne : text ≠ [])
    (s : Sentence) (hp : pipeline p filters text = .ok s) (hb : s.bounds.length + 1 = text.length)
    (toks : List StreamToken) (ht : tokenStream p filters text = .ok toks) :
    (toks.drop 1).map (·.offsetFrom) =
      (List.range s.bounds.length).filterMap fun i =>
        if s.bounds[i]? = some B.W then (charToStr text)[i + 1]? else none := by
  have hemp : ¬ (text.isEmpty = true) := by simpa using hne
  obtain ⟨toks', h1, _, _, h4⟩ := C16L.advance_boundaryPos text hne s.bounds (by omega)
  unfold tokenStream at ht
  rw [if_neg hemp] at ht
  simp only [hp, h1, Res.ok.injEq] at ht
  subst ht
  exact h4

/-- for a well-formed model the pipeline keeps one boundary per adjacent pair of characters of the ORIGINAL text (this is
where `C16_norm_len` is needed), so the hypotheses of the two theorems above are met whenever the text is NUL-free -/
theorem C16_pipeline_len (cfg : Cfg) (m : WModel) (hm : WFModel m) (p : Predictor) (hp : Predictor.new cfg m false = .ok p)
    (wsconst : List Char) (clusters : List Nat) (filters : List PostFilter)
    (hf : buildPostFilters wsconst clusters = .ok filters) (text : List Char) (hne : text ≠ [])
    (hnul : '\x00' ∉ text) (hcl : ∀ l ∈ clusters, 1 ≤ l) (hsum : clusters.sum = text.length) :
    ∃ s, pipeline p filters text = .ok s ∧ s.bounds.length + 1 = text.length ∧ ∀ b ∈ s.bounds, b ≠ B.U := by
  obtain ⟨s, h1, g⟩ := C16L.pipeline_good cfg m hm p hp wsconst clusters filters hf text hne hnul hcl hsum
  exact ⟨s, h1, by rw [g.inv.bounds_len, g.len], g.noU⟩

/-! ## non-vacuity -/

example : Gen.fullwidth "a-1".toList = "ａ−１".toList := by decide

/-- a model over the NORMALISED alphabet (full-width letters), window 1 -/
def C16_exModel : WModel :=
  { charNgrams := [⟨['ａ'], [1, -2]⟩, ⟨['ａ', 'ｂ'], [5]⟩], typeNgrams := [⟨[2], [3, 4]⟩, ⟨[2, 2], [-1]⟩],
    dict := [⟨['ａ', 'ｂ'], [1, 2, 3], []⟩], bias := -10, charW := 1, typeW := 1, tagModels := [] }

example : WFModel C16_exModel :=
  { charW_pos := by decide, charW_le := by decide, typeW_pos := by decide, typeW_le := by decide,
    char_nodup := by decide, char_shape := by decide, type_nodup := by decide, type_shape := by decide,
    dict_nodup := by decide, dict_shape := by decide }

/-- "abé1" (é takes two bytes): the pipeline works on "ａｂé１" and breaks after the first character; the tokens carry
the ORIGINAL characters and byte offsets 0–1 and 1–5 of the original text -/
example : (match Predictor.new {} C16_exModel false, buildPostFilters "DG".toList [1, 1, 1, 1] with
    | .ok p, .ok fs => tokenStream p fs "abé1".toList
    | _, _ => .ok []) = .ok [⟨0, 1, 0, ['a']⟩, ⟨1, 5, 1, ['b', 'é', '1']⟩] := by decide +kernel

example : (match Predictor.new {} C16_exModel false, buildPostFilters "DG".toList [1, 1, 1, 1] with
    | .ok p, .ok fs => (match pipeline p fs "abé1".toList with | .ok s => some (s.text, s.bounds) | _ => none)
    | _, _ => none) = some ("ａｂé１".toList, [B.W, B.N, B.N]) := by decide +kernel

/-- a text with NUL (rejected by `Sentence::from_raw`) comes back as one token -/
example : (match Predictor.new {} C16_exModel false, buildPostFilters "DG".toList [1, 1] with
    | .ok p, .ok fs => tokenStream p fs "a\x00".toList
    | _, _ => .ok []) = .ok [⟨0, 2, 0, ['a', '\x00']⟩] := by decide +kernel

example : (match buildPostFilters "DX".toList [] with | .err _ => true | _ => false) = true := by decide

end V
