import VModel.Tantivy
import VModel.Examples
import VProofs.C01
import VProofs.C15
import VProofs.Lemmas.TkNorm
import VProofs.Lemmas.TkOffsets
import VProofs.Lemmas.TkPipeline
import VProofs.Lemmas.Examples
/-!
# C16 — Normalisation keeps character positions; search tokens tile the original text

Property theorems only (helper lemmas live in `VProofs/Lemmas/Tk*.lean`).
`Gen.fullwidthTable` is REGENERATED from the compiled `KyteaFullwidthFilter` on every run (exhaustive tabulation over all
Unicode scalar values), so the table facts below are re-checked against what the code does now; they must be proved from
boolean checks over the whole table (`decide`), never from individual entries.
-/
namespace V

/-- the full-width normaliser maps every string to one with the same number of characters -/
theorem C16_norm_len (s : List Char) : (Gen.fullwidth s).length = s.length := by
  exact C16L.fullwidth_length s

/-- … is idempotent -/
theorem C16_norm_idem (s : List Char) : Gen.fullwidth (Gen.fullwidth s) = Gen.fullwidth s := by
  exact C16L.fullwidth_idem s

/-- … and changes only the characters in its table, each to the single character the table lists -/
theorem C16_norm_only_table (s : List Char) :
    Gen.fullwidth s = s.map fun c =>
      match Gen.lookupFw c.toNat Gen.fullwidthTable with
      | some [v] => Char.ofNat v
      | _ => c := by
  exact C16L.fullwidth_eq_map s

/-- tokens tile the text: the first starts at byte 0, each starts where the previous one ended, each is non-empty, lies on
character boundaries of the ORIGINAL text and carries exactly that substring, positions count 0, 1, 2, …, and the last one
ends at the byte length of the text -/
def StreamChain (text : List Char) : List StreamToken → Nat → Nat → Prop
  | [], off, _ => off = utf8Len text
  | t :: r, off, pos =>
    t.offsetFrom = off ∧ off < t.offsetTo ∧ t.position = pos ∧ sliceBytes text off t.offsetTo = some t.text ∧
      StreamChain text r t.offsetTo (pos + 1)

/-- `C16L.Chain` (used by the helper lemmas) is the same predicate -/
theorem streamChain_of_chain (text : List Char) : ∀ (toks : List StreamToken) (off pos : Nat),
    C16L.Chain text toks off pos → StreamChain text toks off pos
  | [], _, _, h => h
  | _ :: r, _, _, ⟨h1, h2, h3, h4, h5⟩ => ⟨h1, h2, h3, h4, streamChain_of_chain text r _ _ h5⟩

theorem C16_tiling (p : Predictor) (filters : List PostFilter) (text : List Char) (hne : text ≠ [])
    (hp : (∃ s, pipeline p filters text = .ok s ∧ s.bounds.length + 1 = text.length) ∨
          (∃ e, pipeline p filters text = .err e)) :
    ∃ toks, tokenStream p filters text = .ok toks ∧ toks ≠ [] ∧ StreamChain text toks 0 0 := by
  have hemp : ¬ (text.isEmpty = true) := by simpa using hne
  unfold tokenStream
  rw [if_neg hemp]
  rcases hp with ⟨s, hs, hb⟩ | ⟨e, he⟩
  · obtain ⟨toks, h1, h2, h3, _⟩ := C16L.advance_boundaryPos text hne s.bounds (by omega)
    exact ⟨toks, by simp only [hs, h1], h2, streamChain_of_chain text toks 0 0 h3⟩
  · obtain ⟨toks, h1, h2, h3, _⟩ := C16L.advance_boundaryPos text hne [] (by
      have := List.length_pos_iff.mpr hne
      simp only [List.length_nil]; omega)
    have hb : boundaryPos text [] = [utf8Len text] := by simp [boundaryPos]
    rw [hb] at h1
    exact ⟨toks, by simp only [he, h1], h2, streamChain_of_chain text toks 0 0 h3⟩

/-- the empty text has no tokens -/
theorem C16_empty (p : Predictor) (filters : List PostFilter) : tokenStream p filters [] = .ok [] := by
  rfl

/-- the stream breaks exactly where the core pipeline (normalise, predict, line-break filter, configured filters) breaks:
the token starts after the first are the byte offsets of the characters that follow a `W` boundary -/
theorem C16_breaks_eq_pipeline (p : Predictor) (filters : List PostFilter) (text : List Char) (hne : text ≠ [])
    (s : Sentence) (hp : pipeline p filters text = .ok s) (hb : s.bounds.length + 1 = text.length)
    (toks : List StreamToken) (ht : tokenStream p filters text = .ok toks) :
    (toks.drop 1).map (·.offsetFrom) =
      (List.range s.bounds.length).filterMap fun i =>
        if s.bounds[i]? = some B.W then (charToStr text)[i + 1]? else none := by
  have hemp : ¬ (text.isEmpty = true) := by simpa using hne
  obtain ⟨toks', h1, _, _, h4⟩ := C16L.advance_boundaryPos text hne s.bounds (by omega)
  unfold tokenStream at ht
  rw [if_neg hemp] at ht
  simp only [hp, h1, Res.ok.injEq] at ht
  subst ht
  exact h4

/-- for a well-formed model the pipeline keeps one boundary per adjacent pair of characters of the ORIGINAL text (this is
where `C16_norm_len` is needed), so the hypotheses of the two theorems above are met whenever the text is NUL-free -/
theorem C16_pipeline_len (cfg : Cfg) (m : WModel) (hm : WFModel m) (p : Predictor) (hp : Predictor.new cfg m false = .ok p)
    (wsconst : List Char) (clusters : List Nat) (filters : List PostFilter)
    (hf : buildPostFilters wsconst clusters = .ok filters) (text : List Char) (hne : text ≠ [])
    (hnul : '\x00' ∉ text) (hcl : ∀ l ∈ clusters, 1 ≤ l) (hsum : clusters.sum = text.length) :
    ∃ s, pipeline p filters text = .ok s ∧ s.bounds.length + 1 = text.length ∧ ∀ b ∈ s.bounds, b ≠ B.U := by
  obtain ⟨s, h1, g⟩ := C16L.pipeline_good cfg m hm p hp wsconst clusters filters hf text hne hnul hcl hsum
  exact ⟨s, h1, by rw [g.inv.bounds_len, g.len], g.noU⟩

/-! ## non-vacuity -/

example : Gen.fullwidth "a-1".toList = "ａ−１".toList := by decide

/-- a model over the NORMALISED alphabet (full-width letters), window 1 -/
def C16_exModel : WModel :=
  { charNgrams := [⟨['ａ'], [1, -2]⟩, ⟨['ａ', 'ｂ'], [5]⟩], typeNgrams := [⟨[2], [3, 4]⟩, ⟨[2, 2], [-1]⟩],
    dict := [⟨['ａ', 'ｂ'], [1, 2, 3], []⟩], bias := -10, charW := 1, typeW := 1, tagModels := [] }

example : WFModel C16_exModel :=
  { charW_pos := by decide, charW_le := by decide, typeW_pos := by decide, typeW_le := by decide,
    char_nodup := by decide, char_shape := by decide, type_nodup := by decide, type_shape := by decide,
    dict_nodup := by decide, dict_shape := by decide }

/-- "abé1" (é takes two bytes): the pipeline works on "ａｂé１" and breaks after the first character; the tokens carry
the ORIGINAL characters and byte offsets 0–1 and 1–5 of the original text -/
example : (match Predictor.new {} C16_exModel false, buildPostFilters "DG".toList [1, 1, 1, 1] with
    | .ok p, .ok fs => tokenStream p fs "abé1".toList
    | _, _ => .ok []) = .ok [⟨0, 1, 0, ['a']⟩, ⟨1, 5, 1, ['b', 'é', '1']⟩] := by decide +kernel

example : (match Predictor.new {} C16_exModel false, buildPostFilters "DG".toList [1, 1, 1, 1] with
    | .ok p, .ok fs => (match pipeline p fs "abé1".toList with | .ok s => some (s.text, s.bounds) | _ => none)
    | _, _ => none) = some ("ａｂé１".toList, [B.W, B.N, B.N]) := by decide +kernel

/-- a text with NUL (rejected by `Sentence::from_raw`) comes back as one token -/
example : (match Predictor.new {} C16_exModel false, buildPostFilters "DG".toList [1, 1] with
    | .ok p, .ok fs => tokenStream p fs "a\x00".toList
    | _, _ => .ok []) = .ok [⟨0, 2, 0, ['a', '\x00']⟩] := by decide +kernel

example : (match buildPostFilters "DX".toList [] with | .err _ => true | _ => false) = true := by decide

/-! ## the browser example (examples/wasm/src/lib.rs) -/

/-- the worker keeps two sentence objects between messages and reuses them (`update_raw`); what they held before is
invisible: the answer to a message (tokens, tag count, or the panic) is the answer of a freshly created worker -/
theorem C16_wasm_reuse_invisible (p : Predictor) (cl : List Nat) (w : WasmWorker) (msg : List Char) :
    (wasmReceived p cl w msg).map (·.2) = (wasmReceived p cl {} msg).map (·.2) :=
  ExL.wasm_reuse p cl w msg

/-- for a well-formed model (and tag models) the worker never panics on a non-empty NUL-free message, whatever state it is
in and for every segmentation of the message into grapheme clusters: it answers with one token per token of the library
pipeline (`from_raw`, predict, grapheme filter, digit filter, `fill_tags`) run on the NORMALISED text, each carrying the
ORIGINAL characters of its span and the pipeline's tags (an absent tag is sent as the empty string), together with the
pipeline's tag count; the surfaces concatenate to the original message -/
theorem C16_wasm_answer (m : WModel) (hm : WFModel m) (ht : WFTags m) (p : Predictor) (hp : wasmCreate m = .ok p)
    (w : WasmWorker) (msg : List Char) (hne : msg ≠ []) (hnul : '\x00' ∉ msg) (cl : List Nat) (hpos : ∀ l ∈ cl, 1 ≤ l)
    (hsum : cl.sum = msg.length) :
    ∃ s w' toks,
      (bindR (Sentence.fromRaw (Gen.fullwidth msg)) fun s0 => bindR (p.predict 0 s0) fun s1 =>
        bindR (filterGraphemes cl s1) fun s2 => bindR (filterWsConst 1 s2) fun s3 => p.predictTags s3) = .ok s ∧
      wasmReceived p cl w msg = .ok (w', toks, s.nTags) ∧
      toks = (iterTokens s.bounds).map (fun se => ((msg.drop se.1).take (se.2 - se.1),
        ((s.tags.drop ((se.2 - 1) * s.nTags)).take s.nTags).map (fun t => t.getD []))) ∧
      (toks.map (·.1)).flatten = msg :=
  ExL.wasm_answer wasmCfg m hm ht p hp w msg hne hnul cl hpos hsum

/-- a non-empty message with a NUL character is rejected by `update_raw`, and the example unwraps the result: the worker
panics (documented behaviour of the example, not of the library) -/
theorem C16_wasm_rejected (p : Predictor) (cl : List Nat) (w : WasmWorker) (msg : List Char) (hne : msg ≠ [])
    (hnul : '\x00' ∈ msg) : ∃ q, wasmReceived p cl w msg = .panic q :=
  ExL.wasm_rejected p cl w msg hne hnul

/-- the empty message is answered with no tokens before anything is touched -/
theorem C16_wasm_empty (p : Predictor) (cl : List Nat) (w : WasmWorker) : wasmReceived p cl w [] = .ok (w, [], 0) :=
  ExL.wasm_empty p cl w

/-- the specification of a session: every message is answered by a NEW worker (`{}`: two default sentence objects), the
worker that comes out is thrown away; the run stops after the first answer that is not `ok`, as `wasmSession` does -/
def wasmSessionFresh (p : Predictor) : List (List Char) → List (List Nat) → List (Res (List WasmToken × Nat))
  | [], _ => []
  | m :: ms, cl =>
    match wasmReceived p (cl.headD []) {} m with
    | .ok (_, out) => .ok out :: wasmSessionFresh p ms cl.tail
    | .err e => [.err e]
    | .panic q => [.panic q]
    | .ub q => [.ub q]

/-- a session on ONE worker, in whatever state it starts, answers every message as a new worker would, up to and including
the first message that makes the worker panic (where both runs end): reusing the sentence objects over a whole session is
invisible -/
theorem C16_wasm_session_fresh (p : Predictor) (w : WasmWorker) (msgs : List (List Char)) (cls : List (List Nat)) :
    wasmSession p w msgs cls = wasmSessionFresh p msgs cls := by
  induction msgs generalizing w cls with
  | nil => rfl
  | cons m ms ih =>
    have h := C16_wasm_reuse_invisible p (cls.headD []) w m
    unfold wasmSession wasmSessionFresh
    cases h1 : wasmReceived p (cls.headD []) w m <;> cases h2 : wasmReceived p (cls.headD []) {} m <;>
      rw [h1, h2] at h <;> simp only [Res.map] at h <;> first | (cases h; done) | skip
    · rename_i a b
      obtain ⟨w1, o1⟩ := a
      obtain ⟨w2, o2⟩ := b
      simp only [Res.ok.injEq] at h
      simp only []
      rw [ih w1 cls.tail, h]
    all_goals simp only [Res.err.injEq, Res.panic.injEq, Res.ub.injEq] at h; rw [h]

/-- `C16_exModel` with a tag model for the (normalised) token "ａ" -/
def C16_exTagModel : WModel :=
  { C16_exModel with
    tagModels := [{ token := ['ａ'], tags := [[['x'], ['y']]], charNgrams := [⟨['ｂ', 'ａ'], [⟨0, [1, 2]⟩]⟩],
                    typeNgrams := [⟨[2], [⟨1, [0, 1]⟩]⟩], bias := [0, 0] }] }

example : WFModel C16_exTagModel :=
  { charW_pos := by decide, charW_le := by decide, typeW_pos := by decide, typeW_le := by decide,
    char_nodup := by decide, char_shape := by decide, type_nodup := by decide, type_shape := by decide,
    dict_nodup := by decide, dict_shape := by decide }

example : WFTags C16_exTagModel :=
  { tokens_nodup := by decide, bias_len := by decide, char_ok := by decide, type_ok := by decide }

example : (wasmCreate C16_exTagModel).isOk = true := by decide

/-- (instance search gives up on the nested answer type without this stepping stone) -/
local instance : DecidableEq (List WasmToken × Nat) := inferInstance

/-- one worker, five messages: "aba" (the token "a" gets its tag from the model over the normalised alphabet, the surfaces
are the original characters), the empty message, "ab 12" (the digit filter joins "12"), a message with NUL (the worker
panics and the session ends there) -/
example : (match wasmCreate C16_exTagModel with
    | .ok p => wasmSession p {} ["aba".toList, [], "ab 12".toList, "a\x00".toList, "a".toList]
        [[1, 1, 1], [], [1, 1, 1, 1, 1], [1, 1], [1]]
    | _ => []) =
    [.ok ([(['a'], [['y']]), (['b', 'a'], [[]])], 1), .ok ([], 0),
     .ok ([(['a'], [['y']]), (['b', ' ', '1', '2'], [[]])], 1),
     .panic "sentence_filtered.update_raw(filtered_text).unwrap()"] := by decide

/-- the model of `C01.lean` (over the ASCII alphabet, which the normaliser maps away): two messages, one token each -/
example : (match wasmCreate C01_exModel with
    | .ok p => wasmSession p {} ["aba".toList, "ab 12".toList] [[1, 1, 1], [1, 1, 1, 1, 1]]
    | _ => []) =
    [.ok ([(['a', 'b', 'a'], [[]])], 1), .ok ([(['a', 'b', ' ', '1', '2'], [[]])], 1)] := by decide

end V
