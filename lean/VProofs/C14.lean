import VModel.PredictorSer
import VProofs.Lemmas.BinModel
/-!
# C14 — A serialised predictor behaves exactly like the original

Property theorems only (helper lemmas live in `VProofs/Lemmas/Ser*.lean`).
-/
namespace V
open V.Bin

/-- a weight vector survives the wire (trailing zeros trimmed, then re-padded): same vector, same length -/
theorem C14_weightvector (cfg : Cfg) (l : List Int) :
    (WV.ofList cfg l).reser cfg = WV.ofList cfg l := by
  sorry

/-- every predictor built from a model is a fixed point of serialise → deserialise (plain, cached and tagged scorer
variants; every build configuration) … -/
theorem C14_roundtrip (cfg : Cfg) (m : WModel) (pt : Bool) (p : Predictor) (hp : Predictor.new cfg m pt = .ok p) :
    p.reser cfg = p := by
  sorry

/-- … hence it gives identical scores, boundaries, tags and tag scores on every sentence, whatever the score-storing flag -/
theorem C14_same_behaviour (cfg : Cfg) (m : WModel) (pt : Bool) (p : Predictor) (hp : Predictor.new cfg m pt = .ok p)
    (store : Bool) (pid : Nat) (s : Sentence) :
    ({ p.reser cfg with storeTagScores := store } : Predictor).predict pid s
        = ({ p with storeTagScores := store } : Predictor).predict pid s ∧
    ({ p.reser cfg with storeTagScores := store } : Predictor).predictTags s
        = ({ p with storeTagScores := store } : Predictor).predictTags s := by
  sorry

/-- the outer record decides the consumed length: decoding `serialised ++ rest` returns the record and exactly `rest`,
for arbitrary scorer blobs and arbitrary trailing bytes -/
theorem C14_remainder (e : Envelope) (h : EnvOK e) (rest : Bytes) :
    decEnvelope (encEnvelope e ++ rest) = .ok (e, rest) := by
  sorry

end V
