import VModel.PredictorSer
import VModel.Examples
import VProofs.C01
import VProofs.Lemmas.BinModel
import VProofs.Lemmas.SerCanon
import VProofs.Lemmas.SerEnvelope
import VProofs.Lemmas.Examples
/-!
# C14 — A serialised predictor behaves exactly like the original

Property theorems only (helper lemmas live in `VProofs/Lemmas/Ser*.lean`).
-/
namespace V
open V.Bin

/-- a weight vector survives the wire (trailing zeros trimmed, then re-padded): same vector, same length -/
theorem C14_weightvector (cfg : Cfg) (l : List Int) :
    (WV.ofList cfg l).reser cfg = WV.ofList cfg l :=
  C14L.ofList_reser cfg l

/-- every predictor built from a model is a fixed point of serialise → deserialise (plain, cached and tagged scorer
variants; every build configuration) … -/
theorem C14_roundtrip (cfg : Cfg) (m : WModel) (pt : Bool) (p : Predictor) (hp : Predictor.new cfg m pt = .ok p) :
    p.reser cfg = p :=
  C14L.new_reser hp

/-- … hence it gives identical scores, boundaries, tags and tag scores on every sentence, whatever the score-storing flag -/
theorem C14_same_behaviour (cfg : Cfg) (m : WModel) (pt : Bool) (p : Predictor) (hp : Predictor.new cfg m pt = .ok p)
    (store : Bool) (pid : Nat) (s : Sentence) :
    ({ p.reser cfg with storeTagScores := store } : Predictor).predict pid s
        = ({ p with storeTagScores := store } : Predictor).predict pid s ∧
    ({ p.reser cfg with storeTagScores := store } : Predictor).predictTags s
        = ({ p with storeTagScores := store } : Predictor).predictTags s := by
  rw [C14_roundtrip cfg m pt p hp]
  exact ⟨rfl, rfl⟩

/-- the outer record decides the consumed length: decoding `serialised ++ rest` returns the record and exactly `rest`,
for arbitrary scorer blobs and arbitrary trailing bytes -/
theorem C14_remainder (e : Envelope) (h : EnvOK e) (rest : Bytes) :
    decEnvelope (encEnvelope e ++ rest) = .ok (e, rest) :=
  C14L.decEnvelope_rt h rest

/-! ## non-vacuity -/

section NonVacuity

/-- inner zeros are kept, trailing zeros are trimmed on the wire and re-padded to 8 entries -/
example : (WV.ofList {} [1, 0, 2, 0, 0]).wire = [1, 0, 2] := by decide
example : (WV.ofList {} [1, 0, 2, 0, 0]).reser {} = .fixed [1, 0, 2, 0, 0, 0, 0, 0] := by decide
/-- without `fix-weight-length` (or beyond 8 entries) the vector goes through untouched, trailing zeros included -/
example : (WV.ofList { fixed := false } [1, 0, 2, 0, 0]).reser { fixed := false } = .variable [1, 0, 2, 0, 0] := by decide
example : (WV.ofList {} [1, 0, 2, 0, 0, 0, 0, 0, 0]).reser {} = .variable [1, 0, 2, 0, 0, 0, 0, 0, 0] := by decide
/-- the fixed point property is about vectors built by `From<Vec<i32>>`: an ill-formed `Fixed` vector is repaired -/
example : (WV.fixed [1, 0]).reser {} ≠ .fixed [1, 0] := by decide

private def exModel : WModel :=
  { charNgrams := [⟨['a'], [1, 0, 2, 0]⟩, ⟨['a', 'b'], [0, 0, 3]⟩], typeNgrams := [⟨[1], [4, 0]⟩],
    dict := [⟨['a', 'b'], [5, 0, 0], []⟩], bias := 7, charW := 2, typeW := 2,
    tagModels := [⟨['a'], [[['x'], ['y']]], [⟨['a'], [⟨0, [1, 0]⟩]⟩], [⟨[1], [⟨1, [0, 2, 0]⟩]⟩], [3, 0]⟩] }

/-- the hypothesis of `C14_roundtrip` is satisfiable: tagged, cached and variable-length builds all succeed -/
example : (Predictor.new {} exModel true).isOk = true
    ∧ (Predictor.new {} exModel false).isOk = true
    ∧ (Predictor.new { fixed := false, cache := false } exModel true).isOk = true := by decide

example : ∃ p, Predictor.new {} exModel true = .ok p ∧ p.reser {} = p := by
  cases h : Predictor.new {} exModel true with
  | ok p => exact ⟨p, rfl, C14_roundtrip _ _ _ p h⟩
  | err e => have : (Predictor.new {} exModel true).isOk = true := by decide
             rw [h] at this; cases this
  | panic e => have : (Predictor.new {} exModel true).isOk = true := by decide
               rw [h] at this; cases this
  | ub e => have : (Predictor.new {} exModel true).isOk = true := by decide
            rw [h] at this; cases this

private def exEnv : Envelope :=
  { charScorer := some [1, 2, 3], typeScorer := none, bias := -5,
    tagPredictor := some [(['a'], 0, ⟨[[['x'], ['y']]], [3, -4]⟩)], nTags := 1 }

/-- a tiny envelope followed by two trailing bytes: the record and exactly the trailing bytes come back -/
example : decEnvelope (encEnvelope exEnv ++ [9, 9]) = .ok (exEnv, [9, 9]) := by decide
/-- a truncated envelope is an error, not a panic -/
example : decEnvelope ((encEnvelope exEnv).take 10) = .err .decode := by decide

/-- the hypothesis of `C14_remainder` is satisfiable -/
example : EnvOK exEnv where
  bias := by decide
  nTags := by decide
  ids := by
    intro l hl x hx
    simp only [exEnv, Option.some.injEq] at hl
    subst hl
    simp only [List.mem_singleton] at hx
    subst hx
    decide
  i32 := by
    intro l hl x hx w hw
    simp only [exEnv, Option.some.injEq] at hl
    subst hl
    simp only [List.mem_singleton] at hx
    subst hx
    simp only [List.mem_cons, List.not_mem_nil, or_false] at hw
    rcases hw with rfl | rfl <;> decide
  size := by decide

end NonVacuity

/-! ## the embedded example (examples/embedded_device) -/

/-- the device only ever sees the bytes the build script wrote; it behaves as the predictor the build script built
(`C14_roundtrip`), for every model and text, including the models `Predictor::new` rejects -/
theorem C14_embedded_device (m : WModel) (text : List Char) :
    embeddedDevice m text = bindR (Predictor.new embeddedCfg m false) fun p => embeddedTokenize p text :=
  ExL.embedded_device m text

/-- the feature set of the example (`alloc` only: variable-length weight vectors, no type-score cache, no tag prediction)
does not matter: for a well-formed model every build configuration — the default one in particular — tokenises every text
identically, rejected texts included -/
theorem C14_embedded_cfg_independent (cfg : Cfg) (m : WModel) (hm : WFModel m) (text : List Char) :
    embeddedDevice m text = bindR (Predictor.new cfg m false) fun p => embeddedTokenize p text :=
  ExL.embedded_cfg_independent cfg m hm text

/-- on the device every non-empty NUL-free text is tokenised without a panic, and the line it writes parses back to
exactly the text -/
theorem C14_embedded_total (m : WModel) (hm : WFModel m) (text : List Char) (hne : text ≠ []) (hnul : '\x00' ∉ text) :
    ∃ w q, embeddedDevice m text = .ok w ∧ parseTokenized w = .ok q ∧ q.text = text :=
  ExL.embedded_total m hm text hne hnul

/-- the model of `C01.lean` on the device: a boundary after "a"; the digit filter joins the digits; special characters
are escaped in the written line -/
example : embeddedDevice C01_exModel "ab1".toList = .ok "a b1".toList := by decide
example : embeddedDevice C01_exModel "aba 12/3".toList = .ok "a ba\\ 12\\/3".toList := by decide
/-- the default build (fixed-length vectors, type-score cache) writes the same line -/
example : (bindR (Predictor.new {} C01_exModel false) fun p => embeddedTokenize p "aba 12/3".toList)
    = .ok "a ba\\ 12\\/3".toList := by decide
/-- `from_raw(text).unwrap()`: a rejected text is a panic of the example -/
example : embeddedDevice C01_exModel "a\x00".toList = .panic "Sentence::from_raw(text).unwrap()" := by decide
/-- `hm` is needed in `C14_embedded_cfg_independent`: with a duplicated type n-gram the cached type scorer (built from the
unmerged n-grams) is refused while the build of the example (which merges them first) is accepted -/
example :
    let m : WModel := { C01_exModel with typeNgrams := [⟨[2], [3, 4]⟩, ⟨[2], [3, 4]⟩] }
    embeddedDevice m "ab".toList = .ok "a b".toList ∧
    (bindR (Predictor.new {} m false) fun p => embeddedTokenize p "ab".toList) = .err .invalidModel := by
  decide

end V
