import VModel.Scorer
/-! Parser of the abstract model text used in case lines (DESIGN.md §4.3).

  model    := "M" cw "." tw "." bias { ";" entry }
  entry    := "c" hex "=" ints | "t" digits "=" ints | "d" hex "=" ints [ "=" hex ] | "g" tagmodel
  ints     := "" | int { "," int }
  tagmodel := hex(token) "|" cats "|" ints { "|" ("c" hex | "t" digits) { "@" rel "=" ints } }
  cats     := "" | cat { "+" cat }        cat := "_" (no candidate) | hex { "," hex }
-/
namespace V.Drv

def parseInts (s : String) : Option (List Int) :=
  if s.isEmpty then some [] else (s.splitOn ",").mapM String.toInt?

def parseDigits (s : String) : Option (List Nat) :=
  if s = "-" then some [] else s.toList.mapM fun c => if c.isDigit then some (c.toNat - 48) else none

def parseCat (s : String) : Option (List (List Char)) :=
  if s = "_" then some [] else (s.splitOn ",").mapM hexToStr?

def parseCats (s : String) : Option (List (List (List Char))) :=
  if s.isEmpty then some [] else (s.splitOn "+").mapM parseCat

def parseTagWeights : List String → Option (List TagWeight)
  | [] => some []
  | x :: r =>
    match x.splitOn "=" with
    | [rel, ws] => do
      let rel ← rel.toNat?
      let ws ← parseInts ws
      let rest ← parseTagWeights r
      pure (⟨rel, ws⟩ :: rest)
    | _ => none

def parseTagModel (s : String) : Option TagModel :=
  match s.splitOn "|" with
  | tok :: cats :: bias :: ngrams => do
    let tok ← hexToStr? tok
    let cats ← parseCats cats
    let bias ← parseInts bias
    let mut cn : List (TagNgramData Char) := []
    let mut tn : List (TagNgramData Nat) := []
    for g in ngrams do
      match g.splitOn "@" with
      | [] => none
      | head :: ws =>
        let tws ← parseTagWeights ws
        if head.startsWith "c" then
          let k ← hexToStr? (head.drop 1).toString
          cn := cn ++ [⟨k, tws⟩]
        else if head.startsWith "t" then
          let k ← parseDigits (head.drop 1).toString
          tn := tn ++ [⟨k, tws⟩]
        else none
    pure { token := tok, tags := cats, charNgrams := cn, typeNgrams := tn, bias := bias }
  | _ => none

def parseModel (s : String) : Option WModel :=
  match s.splitOn ";" with
  | [] => none
  | head :: entries =>
    if !head.startsWith "M" then none else
    match ((head.drop 1).toString).splitOn "." with
    | [cw, tw, bias] => do
      let cw ← cw.toNat?
      let tw ← tw.toNat?
      let bias ← bias.toInt?
      let mut m : WModel := { charNgrams := [], typeNgrams := [], dict := [], bias := bias, charW := cw, typeW := tw, tagModels := [] }
      for e in entries do
        let body := (e.drop 1).toString
        if e.startsWith "c" then
          match body.splitOn "=" with
          | [k, ws] => m := { m with charNgrams := m.charNgrams ++ [⟨← hexToStr? k, ← parseInts ws⟩] }
          | _ => none
        else if e.startsWith "t" then
          match body.splitOn "=" with
          | [k, ws] => m := { m with typeNgrams := m.typeNgrams ++ [⟨← parseDigits k, ← parseInts ws⟩] }
          | _ => none
        else if e.startsWith "d" then
          match body.splitOn "=" with
          | [k, ws] => m := { m with dict := m.dict ++ [⟨← hexToStr? k, ← parseInts ws, []⟩] }
          | [k, ws, c] => m := { m with dict := m.dict ++ [⟨← hexToStr? k, ← parseInts ws, ← hexToStr? c⟩] }
          | _ => none
        else if e.startsWith "g" then
          m := { m with tagModels := m.tagModels ++ [← parseTagModel body] }
        else none
      pure m
    | _ => none

def parseCfg (s : String) : Cfg :=
  { fixed := s.toList.contains 'f', cache := s.toList.contains 'c', tagPred := s.toList.contains 't' }

end V.Drv
