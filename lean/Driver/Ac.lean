import VModel.Scorer
/-! Line-protocol handler for the automaton contract (`AC`): the contract functions of `VModel/Scorer.lean` against daachorse. -/
namespace V.Drv

def fmtMatches (ms : List (Nat × Nat)) : String := joinWith "," (ms.map fun (e, i) => s!"{e}.{i}")

/-- `AC <c|b|t> <patterns> <text>` → `err` | `ok:<no-suffix matches>/<all matches>/s` -/
def runAC (patsS textS : String) : String :=
  let pats? : Option (List (List Char)) := if patsS = "-" then some [] else (patsS.splitOn ",").mapM hexToStr?
  match pats?, hexToStr? textS with
  | some pats, some text =>
    if !pmaBuildOk pats then "err"
    else s!"ok:{fmtMatches (matchesNoSuffix pats text)}/{fmtMatches (matchesAll pats text)}/s"
  | _, _ => "bad-case"

end V.Drv
