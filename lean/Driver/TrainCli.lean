import VModel.TrainCli
import VModel.Bincode
import Driver.ModelParse
/-! Line-protocol handler for the loading stage of the `train` tool (`TL`), compared with hook H5's record. -/
namespace V.Drv
open V.Bin

/-- `-` no file; otherwise `;`-separated files, each the hex of its bytes (`e` = an empty file) -/
def parseFiles (s : String) : Option (List (List Char)) :=
  if s = "-" then some [] else (s.splitOn ";").mapM fun f => if f = "e" then some [] else hexToStr? f

def describeSentence (s : Sentence) : Option String :=
  match s.writePartial with
  | .ok t => some (bytesToHex (utf8Encode t) ++ " " ++ toString s.nTags)
  | _ => none

/-- `TL <n|-> <cw.cn.tw.tn.ml> <solver> <tok files> <part files> <dict files>` → `ok|N …|D …|T …|E …` / `err` / `panic` -/
def runTL (flags cfgS tokS partS dictS : String) : String :=
  match parseFiles tokS, parseFiles partS, parseFiles dictS, (cfgS.splitOn ".").mapM String.toNat? with
  | some tok, some part, some dict, some [cw, cn, tw, tn, ml] =>
    match trainCliInputs (flags.toList.contains 'n') tok part dict with
    | .ok inp =>
      match inp.tagDict.mapM describeSentence, inp.corpus.mapM describeSentence with
      | some ts, some es =>
        joinWith "|" (["ok", s!"N {cw} {cn} {tw} {tn} {ml}"]
          ++ inp.dictWords.map (fun w => "D " ++ bytesToHex (utf8Encode w))
          ++ ts.map ("T " ++ ·) ++ es.map ("E " ++ ·))
      | _, _ => "panic"
    | .err _ => "err"
    | _ => "panic"
  | _, _, _, _ => "bad-case"

end V.Drv
