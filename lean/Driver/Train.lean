import VModel.Trainer
import VModel.Quantize
import VModel.Bincode
import Driver.ModelParse
/-! Line-protocol handler for the trainer family (`TR`). -/
namespace V.Drv
open V.Bin

def hexOfChars (g : List Char) : String := bytesToHex (utf8Encode g)

def featDescr : Feature → String
  | .charNgram g rel => s!"c:{hexOfChars g}:{rel}"
  | .typeNgram g rel => s!"t:{String.ofList (g.map fun t => Char.ofNat (48 + t))}:{rel}"
  | .dictWord len pos => s!"d:{len}:{match pos with | .left => "L" | .inside => "I" | .right => "R"}"

def insertSortedStr (x : String) : List (String × Nat) → List (String × Nat)
  | [] => [(x, 1)]
  | (y, k) :: r => if x = y then (y, k + 1) :: r else if x < y then (x, 1) :: (y, k) :: r else (y, k) :: insertSortedStr x r

def exampleText (e : List Feature × B) : String :=
  let counts := e.1.foldl (fun acc f => insertSortedStr (featDescr f) acc) []
  let lab := match e.2 with | .N => "0" | .W => "1" | .U => "2"
  lab ++ "|" ++ joinWith "+" (counts.map fun (d, k) => s!"{d}*{k}")

def parseFeat (k g rel : String) : Option Feature :=
  if k = "c" then do pure (.charNgram (← hexToStr? g) (← rel.toInt?))
  else if k = "t" then do pure (.typeNgram (← parseDigits g) (← rel.toInt?))
  else if k = "d" then do
    let pos ← (if rel = "L" then some DPos.left else if rel = "I" then some .inside else if rel = "R" then some .right else none)
    pure (.dictWord (← g.toNat?) pos)
  else none

def parseTagFeat (k g rel : String) : Option TagFeat :=
  if k = "c" then do pure (.charNgram (← hexToStr? g) (← rel.toNat?))
  else if k = "t" then do pure (.typeNgram (← parseDigits g) (← rel.toNat?))
  else none

structure Trace where
  bias : Int := 0
  feats : List (Feature × Int) := []
  tags : List TagTraceItem := []
  /-- optional `q=<weight_max bits>:<multiplier bits>` (raw IEEE-754 patterns recorded by the quantisation hook) -/
  q : Option (Nat × Nat) := none
  /-- optional `rb=<raw bias bits>` -/
  rb : Option Nat := none
  /-- optional `rf=<feature>=<raw coefficient bits>` items, in trace order -/
  rf : List (Feature × Nat) := []

def parseTraceItem (t : Trace) (item : String) : Option Trace :=
  match item.splitOn "=" with
  | ["b", b] => do pure { t with bias := ← b.toInt? }
  | ["f", d, w] =>
    match d.splitOn ":" with
    | [k, g, rel] => do pure { t with feats := t.feats ++ [(← parseFeat k g rel, ← w.toInt?)] }
    | _ => none
  | ["q", v] =>
    match v.splitOn ":" with
    | [wm, mult] => do pure { t with q := some (← hex64? wm, ← hex64? mult) }
    | _ => none
  | ["rb", h] => do pure { t with rb := some (← hex64? h) }
  | ["rf", d, h] =>
    match d.splitOn ":" with
    | [k, g, rel] => do pure { t with rf := t.rf ++ [(← parseFeat k g rel, ← hex64? h)] }
    | _ => none
  | ["tb", tok, off, cls, w] => do
    pure { t with tags := t.tags ++ [⟨← hexToStr? tok, ← off.toNat?, ← cls.toNat?, none, ← w.toInt?⟩] }
  | ["tf", tok, off, cls, d, w] =>
    match d.splitOn ":" with
    | [k, g, rel] => do
      pure { t with tags := t.tags ++ [⟨← hexToStr? tok, ← off.toNat?, ← cls.toNat?, some (← parseTagFeat k g rel), ← w.toInt?⟩] }
    | _ => none
  | _ => none

/-- the quantisation re-computed in the model from the recorded raw bits (only when a `q=` item is present):
(a) multiplier = `weight_max / 32767.0`, (b) `b=` is the quantised raw bias, (c) every `rf=` feature's `f=` item carries the
quantised raw coefficient, (d) `weight_max` is the maximum of the absolute raw values; the first difference is named -/
def quantCheck (tr : Trace) : String :=
  match tr.q with
  | none => ""
  | some (wmB, multB) =>
    let wm := F64.ofBits wmB
    let mult := F64.ofBits multB
    if quantMultiplier wm ≠ mult then ";Qbad:mult" else
    match tr.rb with
    | none => ";Qbad:rb-missing"
    | some rbB =>
      let rb := F64.ofBits rbB
      if quantise rb mult ≠ .ok tr.bias then ";Qbad:b" else
      let bad := tr.rf.find? fun (p : Feature × Nat) =>
        match tr.feats.find? (fun e => decide (e.1 = p.1)) with
        | some e => decide (quantise (F64.ofBits p.2) mult ≠ .ok e.2)
        | none => true
      match bad with
      | some p => s!";Qbad:f={featDescr p.1}"
      | none =>
        if weightMax rb (tr.rf.map fun p => F64.ofBits p.2) ≠ wm then ";Qbad:max" else ";Qok"

def listOf {β : Type} (s : String) (sep : String) (f : String → Option β) : Option (List β) :=
  if s = "-" then some [] else (s.splitOn sep).mapM f

def resToOpt {β : Type} : Res β → Option β
  | .ok a => some a
  | _ => none

def runTR (cfgS dictS tagdictS corpusS traceS : String) : String :=
  let parsed : Option (TrainCfg × List Sentence × List Sentence) := do
    let c ← (cfgS.splitOn ".").mapM String.toNat?
    let (cw, cn, tw, tn, ml) ← (match c with | [a, b, c, d, e] => some (a, b, c, d, e) | _ => none)
    let dict ← listOf dictS "," hexToStr?
    let tagdict ← listOf tagdictS ";" (fun h => (hexToStr? h).bind fun t => resToOpt (Sentence.fromTokenized t))
    let corpus ← listOf corpusS ";" (fun x =>
      match x.splitOn ":" with
      | [k, h] => (hexToStr? h).bind fun t =>
        resToOpt (if k = "t" then Sentence.fromTokenized t else Sentence.fromPartial t)
      | _ => none)
    pure (⟨cw, cn, tw, tn, dict, ml⟩, tagdict, corpus)
  match parsed with
  | none => "err:corpus"
  | some (cfg, tagdict, corpus) =>
    if !trainerNewOk cfg then "err:new" else
    if traceS = "-" then "err:train" else
    match (traceS.splitOn ",").foldlM parseTraceItem ({} : Trace) with
    | none => "bad-case"
    | some tr =>
      let examples := corpus.flatMap (examplesOf cfg)
      let x := joinWith "/" (examples.map exampleText)
      let tagEx := mapRes (tagExamplesOf cfg) corpus
      let dictEx := mapRes (tokenExamplesOf cfg) tagdict
      let resp : String :=
        match tagEx, dictEx with
        | .ok te, .ok de =>
          match assembleTags te.flatten (defaultTags de.flatten) tr.tags with
          | .ok tms =>
            match assembleBoundary cfg tr.feats tr.bias tms with
            | .ok m => s!"X{x};M{bytesToHex (toVec m)}"
            | _ => "panic:train"
          | _ => "panic:train"
        | _, _ => "panic:add"
      -- without a `q=` item `quantCheck` is empty: older lines give exactly the old response
      resp ++ quantCheck tr

end V.Drv
