import VModel.Examples
import Driver.ModelParse
import Driver.Cli
/-! Line-protocol handlers for the example programs: `WA` (wasm worker session), `EB` (embedded device). -/
namespace V.Drv

def showWasmOut : Res (List WasmToken × Nat) → String
  | .ok (toks, n) =>
    s!"{n}|" ++ joinWith "," (toks.map fun (surf, tags) => joinWith "/" (strToHex surf :: tags.map fun t => if t = [] then "_" else strToHex t))
  | .err _ => "err"
  | _ => "panic"

/-- `WA <model> <hex msg,…> <clusters per message>` → one answer per message, `;`-separated (the session ends at a panic) -/
def runWA (mS msgsS clS : String) : String :=
  let msgs := if msgsS = "-" then some [] else (msgsS.splitOn ",").mapM fun h => if h = "_" then some [] else hexToStr? h
  match parseModel mS, msgs, parseClusters clS with
  | some m, some msgs, some clusters =>
    match wasmCreate m with
    | .ok p => joinWith ";" ((wasmSession p {} msgs clusters).map showWasmOut)
    | .err _ => "create:err"
    | _ => "create:panic"
  | _, _, _ => "bad-case"

/-- `EB <model> <hex text,…>` → the tokenised line per text, `;`-separated -/
def runEB (mS textsS : String) : String :=
  let texts := if textsS = "-" then some [] else (textsS.splitOn ",").mapM fun h => if h = "_" then some [] else hexToStr? h
  match parseModel mS, texts with
  | some m, some texts =>
    match embeddedBuild m with
    | .ok p => joinWith ";" (texts.map fun t => match embeddedTokenize p t with
        | .ok w => "ok:" ++ strToHex w
        | .err _ => "err"
        | _ => "panic")
    | .err _ => "build:err"
    | _ => "build:panic"
  | _, _ => "bad-case"

end V.Drv
