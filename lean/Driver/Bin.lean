import VModel.Bincode
import Driver.ModelParse
/-! Line-protocol handler for the model-file cases (`B`, `RS`, `RX`, `RF`, `WF`). -/
namespace V.Drv
open V.Bin

def showErr : Err → String
  | e => "err:" ++ e.toString

def showSlice (bs : Bytes) : String :=
  match readSlice bs with
  | .ok (m, rest) => s!"ok:{bytesToHex (toVec m)}:{rest.length}"
  | .err e => showErr e
  | .panic _ => "panic"
  | .ub _ => "ub"

/-- `fail`: the reader reports an I/O error where the data ends (instead of end-of-file) — both are decode errors
after the header and I/O errors inside it -/
def showRead (bs : Bytes) : String :=
  match read bs with
  | .ok m => s!"ok:{bytesToHex (toVec m)}"
  | .err e => showErr e
  | .panic _ => "panic"
  | .ub _ => "ub"

def hexBytes? (s : String) : Option Bytes := if s = "-" then some [] else hexToBytes? s.toList

def runRS (full : Bytes) (k trail mutation : String) : String :=
  match hexBytes? trail with
  | none => "bad-case"
  | some tr =>
    let cut := if k = "full" then full.length else min (k.toNat?.getD 0) full.length
    let bytes := full.take cut
    let bytes := if mutation = "-" then some bytes else
      match mutation.splitOn ":" with
      | [i, b] => do
        let i ← i.toNat?
        let b ← hexToBytes? b.toList
        let v ← b.head?
        pure (if i < bytes.length then bytes.set i v else bytes)
      | _ => none
    match bytes with
    | none => "bad-case"
    | some bytes =>
      let bytes := bytes ++ tr
      s!"slice:{showSlice bytes};read:{showRead bytes}"

def runBin (toks : List String) : String :=
  match toks with
  | "B" :: m :: _ =>
    match parseModel m with
    | some m => bytesToHex (toVec m)
    | none => "bad-case"
  | "RS" :: m :: k :: trail :: mutation :: _ =>
    match parseModel m with
    | some m => runRS (toVec m) k trail mutation
    | none => "bad-case"
  | "RX" :: h :: k :: _ =>
    match hexBytes? h with
    | some full => runRS full k "-" "-"
    | none => "bad-case"
  | "RF" :: m :: k :: _ =>
    match parseModel m, k.toNat? with
    | some m, some k => "read:" ++ showRead ((toVec m).take k)
    | _, _ => "bad-case"
  | "WF" :: m :: k :: _ =>
    match parseModel m, k.toNat? with
    | some m, some k =>
      "write:" ++ (match write m k with
        | .ok out => "ok:" ++ bytesToHex out
        | .err e => showErr e
        | .panic _ => "panic"
        | .ub _ => "ub")
    | _, _ => "bad-case"
  | _ => "bad-case"

end V.Drv
