import VModel.Kytea
import Driver.ModelParse
/-! Line-protocol handler for the KyTea cases (`KYE`, `KY`, `KYX`). -/
namespace V.Drv
open V.Bin V.Ky

def parseI16s (s : String) : Option (List Int) := do
  let v ← parseInts s
  if v.all (fun x => -32768 ≤ x && x < 32768) then some v else none

def natBelow (s : String) (bound : Nat) : Option Nat := do
  let n ← s.toNat?
  if n < bound then some n else none

def parseAbsKytea (s : String) : Option AbsKytea :=
  match s.splitOn ";" with
  | [] => none
  | head :: fields =>
    if !head.startsWith "K" then none else
    match ((head.drop 1).toString).splitOn "." with
    | [cw, cn, tw, tn, dn, nt, nd] => do
      let mut k : AbsKytea :=
        { charW := ← natBelow cw 256, charN := ← natBelow cn 256, typeW := ← natBelow tw 256, typeN := ← natBelow tn 256,
          dictN := ← natBelow dn 256, nTags := ← natBelow nt (2 ^ 32), nDicts := ← natBelow nd 256,
          charMap := [], bias := 0, charNgrams := [], typeNgrams := [], dictVec := [], words := [] }
      for f in fields do
        if f.startsWith "map=" then
          k := { k with charMap := ← hexToStr? (f.drop 4).toString }
        else if f.startsWith "bias=" then
          let b ← (f.drop 5).toString.toInt?
          if -32768 ≤ b && b < 32768 then k := { k with bias := b } else none
        else if f.startsWith "dv=" then
          k := { k with dictVec := ← parseI16s (f.drop 3).toString }
        else if f.startsWith "c" then
          match ((f.drop 1).toString).splitOn "=" with
          | [g, w] => k := { k with charNgrams := k.charNgrams ++ [(← hexToStr? g, ← parseI16s w)] }
          | _ => none
        else if f.startsWith "t" then
          match ((f.drop 1).toString).splitOn "=" with
          | [g, w] =>
            let key := g.toList.map fun c => if c = '4' then Char.ofNat 4 else c
            k := { k with typeNgrams := k.typeNgrams ++ [(key, ← parseI16s w)] }
          | _ => none
        else if f.startsWith "d" then
          match ((f.drop 1).toString).splitOn "=" with
          | [g, m] => k := { k with words := k.words ++ [(← hexToStr? g, ← natBelow m 256)] }
          | _ => none
        else none
      pure k
    | _ => none

/-- the walks of a trie pop every state once; a generous bound keeps the driver total on any table -/
def driverFuel (bs : Bytes) : Nat := bs.length * bs.length + 1000

def showConvert (bs : Bytes) : String :=
  match convertBytes (driverFuel bs) bs with
  | .ok m => "ok:" ++ bytesToHex (toVec m)
  | .err e => "err:" ++ e.toString
  | .panic _ => "panic"
  | .ub _ => "ub"

def cutOf (cut : String) (full : Bytes) : Bytes :=
  if cut = "full" then full else full.take (min (cut.toNat?.getD 0) full.length)

def runKy (toks : List String) : String :=
  match toks with
  | "KYE" :: a :: _ =>
    match parseAbsKytea a with
    | some k => bytesToHex (encodeKytea k)
    | none => "bad-case"
  | "KY" :: a :: cut :: _ =>
    match parseAbsKytea a with
    | some k => showConvert (cutOf cut (encodeKytea k))
    | none => "bad-case"
  | "KYX" :: h :: cut :: _ =>
    match hexToBytes? h.toList with
    | some full => showConvert (cutOf cut full)
    | none => "bad-case"
  | _ => "bad-case"

end V.Drv
