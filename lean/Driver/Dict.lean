import VModel.Csv
import VModel.Bincode
import Driver.ModelParse
/-! Line-protocol handler for the dictionary-edit cases (`RD`, `WJ`, `WP`). -/
namespace V.Drv
open V.Bin

def parseEntry (e : String) : Option (List Char × List Int × List Char) :=
  match e.splitOn "=" with
  | [w, ws] => do pure (← hexToStr? w, ← parseInts ws, [])
  | [w, ws, c] => do pure (← hexToStr? w, ← parseInts ws, ← hexToStr? c)
  | _ => none

def runDict (toks : List String) : String :=
  match toks with
  | "RD" :: m :: entries :: _ =>
    match parseModel m, (if entries = "-" then some [] else (entries.splitOn "/").mapM parseEntry) with
    | some m, some es =>
      let rec build : List (List Char × List Int × List Char) → Res (List DictWord)
        | [] => .ok []
        | (w, ws, c) :: r =>
          match wordRecordNew w ws c with
          | .ok d => (build r).map (d :: ·)
          | .err e => .err e
          | .panic p => .panic p
          | .ub p => .ub p
      match build es with
      | .ok d => bytesToHex (toVec (m.replaceDict d))
      | .err e => "err:" ++ e.toString
      | _ => "panic"
    | _, _ => "bad-case"
  | "WJ" :: ints :: _ =>
    match parseInts ints with
    | some ws => strToHex (joinWeights ws)
    | none => "bad-case"
  | "WP" :: h :: _ =>
    match hexToStr? h with
    | some s =>
      match parseWeights s with
      | some ws => "ok:" ++ joinWith "," (ws.map toString)
      | none => "err"
    | none => "bad-case"
  | _ => "bad-case"

end V.Drv
