import VModel.CsvFile
import VModel.Bincode
import Driver.ModelParse
/-! Line-protocol handler for the CSV file layer of `manipulate_model` (`DF`, `LF`).

  `DF <model>`      → the bytes of `csvDumpFile m.dict` (what `--dump-dict` writes), as hex of UTF-8 (`-` = the empty file)
  `LF <hex-bytes>`  → what `--replace-dict` makes of a file with these bytes (`-` or nothing = the empty file):
                      `ok:` ++ entries joined by `/`, each `hex(word)=w1,w2,…=hex(comment)` (`-` = empty string / empty list),
                      or `err` for every rejection; then `;strict` or `;lenient` (`csvStrict`): only on `;strict` does the
                      model claim agreement with the real tool.  Bytes that are not UTF-8 give `err;lenient` (the real reader
                      rejects such a record, but falls back to positional columns when the header row is the invalid one).
-/
namespace V.Drv
open V.Bin

def showEntry (d : DictWord) : String :=
  strToHex d.word ++ "=" ++ joinWith "," (d.weights.map toString) ++ "=" ++ strToHex d.comment

def runCsvFile (toks : List String) : String :=
  match toks with
  | "DF" :: m :: _ =>
    match parseModel m with
    | some m => strToHex (csvDumpFile m.dict)
    | none => "bad-case"
  | "LF" :: rest =>
    let h := match rest with
      | [] => ""
      | x :: _ => if x = "-" then "" else x
    match hexToBytes? h.toList with
    | none => "bad-case"
    | some bs =>
      match utf8Decode? bs with
      | none => "err;lenient"
      | some s =>
        let tag := if csvStrict s then ";strict" else ";lenient"
        match csvLoadFile s with
        | .ok d => "ok:" ++ (if d.isEmpty then "-" else joinWith "/" (d.map showEntry)) ++ tag
        | _ => "err" ++ tag
  | _ => "bad-case"

end V.Drv
