import Driver.Sent
/-! `vdriver`: reads one case per line on stdin, writes one response line per case. -/
open V V.Drv

def handle (line : String) : String :=
  match line.trimAscii.toString.splitOn " " with
  | "S" :: ops :: _ => runSent ops
  | "H" :: cfg :: preds :: ops :: _ => runH cfg preds ops
  | _ => "bad-case"

partial def loop (h : IO.FS.Stream) (out : IO.FS.Stream) : IO Unit := do
  let line ← h.getLine
  if line.isEmpty then return ()
  out.putStrLn (handle line)
  loop h out

def main : IO Unit := do
  let out ← IO.getStdout
  loop (← IO.getStdin) out
