import Driver.Sent
import Driver.Bin
import Driver.Tk
import Driver.Train
import Driver.Dict
import Driver.CsvFile
import Driver.Cli
import Driver.Kytea
import Driver.TrainCli
import Driver.Ac
import Driver.Examples
/-! `vdriver`: reads one case per line on stdin, writes one response line per case. -/
open V V.Drv

def handle (line : String) : String :=
  match line.trimAscii.toString.splitOn " " with
  | "S" :: ops :: _ => runSent ops
  | "H" :: cfg :: preds :: ops :: _ => runH cfg preds ops
  | "F" :: cfg :: m :: pt :: h :: _ => runF cfg m pt h
  | "E" :: h :: _ => runE h
  | "X" :: h :: _ => runX h
  | "BIG" :: _ => "big"   -- oracle-only case (too large for the list-based model to execute): judged on the implementation side
  | "KYE" :: r => runKy ("KYE" :: r)
  | "KY" :: r => runKy ("KY" :: r)
  | "KYX" :: r => runKy ("KYX" :: r)
  | "CP" :: fl :: m :: h :: cl :: _ => runCP fl m h cl
  | "CE" :: fl :: m :: h :: cl :: _ => runCE fl m h cl
  | "FD" :: b :: _ => runFD b
  | "RD" :: r => runDict ("RD" :: r)
  | "WJ" :: r => runDict ("WJ" :: r)
  | "WP" :: r => runDict ("WP" :: r)
  | "DF" :: r => runCsvFile ("DF" :: r)
  | "LF" :: r => runCsvFile ("LF" :: r)
  | "TR" :: cfg :: _solver :: dict :: tagdict :: corpus :: _eval :: trace :: _ => runTR cfg dict tagdict corpus trace
  | "TL" :: fl :: cfg :: _solver :: tok :: part :: dict :: _ => runTL fl cfg tok part dict
  | "AC" :: _kind :: pats :: text :: _ => runAC pats text
  | "WA" :: m :: msgs :: cl :: _ => runWA m msgs cl
  | "EB" :: m :: texts :: _ => runEB m texts
  | "TK" :: m :: ws :: h :: cl :: _ => runTK m ws h cl
  | "N" :: h :: _ => runN h
  | "B" :: r => runBin ("B" :: r)
  | "RS" :: r => runBin ("RS" :: r)
  | "RX" :: r => runBin ("RX" :: r)
  | "RF" :: r => runBin ("RF" :: r)
  | "WF" :: r => runBin ("WF" :: r)
  | _ => "bad-case"

partial def loop (h : IO.FS.Stream) (out : IO.FS.Stream) : IO Unit := do
  let line ← h.getLine
  if line.isEmpty then return ()
  out.putStrLn (handle line)
  loop h out

def main : IO Unit := do
  let out ← IO.getStdout
  loop (← IO.getStdin) out
