import VModel.Tantivy
import Driver.ModelParse
/-! Line-protocol handler for the Tantivy stream (`TK`) and the normaliser (`N`). -/
namespace V.Drv

def runTK (mS wsS h clS : String) : String :=
  match parseModel mS, hexToStr? h with
  | some m, some text =>
    let ws := if wsS = "-" then [] else wsS.toList
    let clusters := if clS = "-" then some [] else (clS.splitOn ".").mapM String.toNat?
    match clusters with
    | none => "bad-case"
    | some cl =>
      match buildPostFilters ws cl with
      | .ok filters =>
        match Predictor.new { fixed := true, cache := true, tagPred := true } m false with
        | .ok p =>
          match tokenStream p filters text with
          | .ok toks => "ok " ++ joinWith "." (toks.map fun t => s!"{t.offsetFrom}:{t.offsetTo}:{t.position}:{strToHex t.text}")
          | _ => "panic"
        | .err _ => "err"
        | _ => "panic"
      | _ => "err"
  | _, _ => "bad-case"

def runN (h : String) : String :=
  match hexToStr? h with
  | some text => strToHex (Gen.fullwidth text)
  | none => "bad-case"

end V.Drv
