import VModel.Cli
import VModel.F64Arith
import VModel.F64Fmt
import VModel.Bincode
import Driver.ModelParse
/-! Line-protocol handler for the command-line tools (`CP` predict, `CE` evaluate). -/
namespace V.Drv
open V.Bin

def parseClusters (s : String) : Option (List (List Nat)) :=
  if s = "-" then some [] else
  (s.splitOn "/").mapM fun l => if l = "_" then some [] else (l.splitOn ".").mapM String.toNat?

def splitFlags (f : String) : String × List Char :=
  match f.splitOn ":" with
  | [a, b] => (a, if b = "-" then [] else b.toList)
  | _ => (f, [])

/-- `CP <flags>:<wsconst|-> <model> <hex stdin> <clusters>` → `<exit>:<hex stdout>` -/
def runCP (flags mS h cl : String) : String :=
  match parseModel mS, hexToStr? h, parseClusters cl with
  | some m, some stdin, some clusters =>
    let (f, ws) := splitFlags flags
    let has := fun (c : Char) => f.toList.contains c
    let fl : PredictFlags := { noNorm := has 'n', predictTags := has 't', scores := has 's', tagScores := has 'g', wsconst := ws }
    match predictCli { fixed := true, cache := true, tagPred := true } fl m stdin clusters with
    | .ok out => "0:" ++ bytesToHex (utf8Encode out)
    | .err _ => "1:"
    | _ => "101:"
  | _, _, _ => "bad-case"

/-- `CE <flags>:<wsconst|-> <model> <hex stdin> <clusters>` →
`<exit>:<counts>;P=<bits>,R=<bits>,F=<bits>;D=<precision text>,<recall text>,<f1 text>` (the binary64 bit patterns of
precision, recall and F1 as 16 lower-case hex digits, NaN as `7ff8000000000000`; then the three numbers as `println!("{}")`
writes them, `VModel/F64Fmt.lean`) -/
def runCE (flags mS h cl : String) : String :=
  match parseModel mS, hexToStr? h, parseClusters cl with
  | some m, some stdin, some clusters =>
    let (f, ws) := splitFlags flags
    let has := fun (c : Char) => f.toList.contains c
    let fl : EvalFlags := { noNorm := has 'n', predictTags := has 't', wordMetric := has 'w', wsconst := ws }
    match evaluateCli { fixed := true, cache := true, tagPred := true } fl m stdin clusters with
    | .ok ls =>
      if fl.wordMetric then
        let (cor, sys, ref) := wordCounts ls
        s!"0:cor={cor},sys={sys},ref={ref};" ++ metricsText (evalMetricsWord (cor, sys, ref)) ++ ";" ++
          displayText (evalMetricsWord (cor, sys, ref))
      else
        let (tp, tn, fp, fn) := charCounts ls
        s!"0:tp={tp},tn={tn},fp={fp},fn={fn};" ++ metricsText (evalMetricsChar (tp, tn, fp, fn)) ++ ";" ++
          displayText (evalMetricsChar (tp, tn, fp, fn))
    | .err _ => "1:"
    | _ => "101:"
  | _, _, _ => "bad-case"

/-- `FD <hex64 bits>` → the text `format!("{}", f64::from_bits(bits))` -/
def runFD (b : String) : String :=
  match hex64? b with
  | some bits => String.ofList (f64Display (F64.ofBits bits))
  | none => "bad-case"

end V.Drv
