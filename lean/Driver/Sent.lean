import VModel.Spec
import VModel.Filters
import VModel.PredictorSer
import VModel.History
import Driver.ModelParse
/-! Line-protocol handler for sentence histories (`S op,op,…`).  See DESIGN.md §4.3. -/
namespace V.Drv

def showTag : Tag → String
  | none => "~"
  | some t => strToHex t

def showRes (f : α → String) (tag : String) : Res α → String
  | .ok a => tag ++ f a
  | .err e => tag ++ "!err:" ++ e.toString
  | .panic _ => tag ++ "!panic"
  | .ub _ => tag ++ "!ub"

def showTokens (s : Sentence) : String :=
  let toks := iterTokens s.bounds
  let rec go : List (Nat × Nat) → Res (List String)
    | [] => .ok []
    | (st, en) :: r =>
      match s.substring st en, s.tokenTags en, go r with
      | .ok surf, .ok ts, .ok rest =>
        .ok (s!"{st}-{en}-{strToHex surf}-{joinWith "+" (ts.map showTag)}" :: rest)
      | .panic p, _, _ => .panic p
      | _, .panic p, _ => .panic p
      | _, _, .panic p => .panic p
      | _, _, _ => .panic "?"
  showRes (joinWith ".") "I" (go toks)

def showCands (cs : List (List (List Char × Int))) : String :=
  joinWith "/" (cs.map fun inner => joinWith "+" (inner.map fun (c, x) => strToHex c ++ "=" ++ toString x))

def showObsSel (sel : String) (s : Sentence) : String :=
  let scores := showRes (fun xs => joinWith "." (xs.map toString)) "S" s.boundaryScores
  let cands :=
    "C" ++ joinWith "." ((iterTokens s.bounds).map fun (_, en) =>
      match s.tagCandidates en with
      | .ok cs => showCands cs
      | _ => "!p")
  joinWith ";" <| List.filter (fun f => sel.isEmpty || sel.toList.contains (f.toList.headD ' ')) [
    "T" ++ strToHex s.text,
    "Y" ++ String.ofList (s.types.map fun t => hexDigit t),
    "B" ++ (if s.bounds.isEmpty then "-" else String.ofList (s.bounds.map B.toChar)),
    scores,
    "K" ++ toString s.nTags,
    "G" ++ joinWith "." (s.tags.map showTag),
    showTokens s,
    showRes strToHex "W" s.writeTokenized,
    showRes strToHex "P" s.writePartial,
    cands]

def showObs (s : Sentence) : String := showObsSel "" s

/-- rules := rule { "/" rule }; rule := hex(surface) "=" (hex|~) { "+" (hex|~) } -/
def parseRule (r : String) : Option (List Char × List Tag) :=
  match r.splitOn "=" with
  | [k, ts] => do
    let k ← hexToStr? k
    let ts ← (if ts.isEmpty then some [] else
      (ts.splitOn "+").mapM (fun t => if t = "~" then some (none : Tag) else (hexToStr? t).map some))
    pure (k, ts)
  | _ => none

def parseRules (rs : String) : Option TagRules :=
  if rs = "-" then some [] else (rs.splitOn "/").mapM parseRule

def parseLabels (x : String) : Option (List B) :=
  if x = "-" then some [] else x.toList.mapM B.ofChar?

/-- the operations that are calls on the sentence object, as `HOp`s (their semantics is `HOp.apply`) -/
def parseHOp (op : String) : Option HOp :=
  match op.splitOn ":" with
  | ["raw", h] => (hexToStr? h).map .updateRaw
  | ["tok", h] => (hexToStr? h).map .updateTokenized
  | ["part", h] => (hexToStr? h).map .updatePartial
  | ["pred", k] => k.toNat?.map .predict
  | ["fill"] => some .fillTags
  | ["reset", k] => k.toNat?.map .resetTags
  | ["setb", i, b] => do
    let i ← i.toNat?
    let b ← (b.toList.head?).bind B.ofChar?
    pure (.setBoundary i b)
  | ["sett", i, h] => do
    let i ← i.toNat?
    let t ← if h = "~" then some none else (hexToStr? h).map some
    pure (.setTag i t)
  | ["filter", "ws", t] => t.toNat?.map .filterWs
  | ["filter", "lb"] => some .filterLb
  | ["filter", "gc", ls] => (if ls = "-" then some [] else (ls.splitOn ".").mapM String.toNat?).map .filterGc
  | ["filter", "tag", rs] => (parseRules rs).map .filterTag
  | _ => none

def sentOp (preds : List Predictor) (models : List WModel) (s : Sentence) (op : String) : Option (Sentence × String) :=
  let ctor (r : Res Sentence) : Option (Sentence × String) :=
    match r with
    | .ok s' => some (s', "ok")
    | .err _ => some (s, "err")
    | .panic _ => some (s, "panic")
    | .ub _ => some (s, "ub")
  match op.splitOn ":" with
  | ["obs"] => some (s, showObs s)
  | ["obs", sel] => some (s, showObsSel sel s)
  | ["new"] => some (Sentence.default, "ok")
  | ["Fraw", h] => (hexToStr? h).bind fun t => ctor (Sentence.fromRaw t)
  | ["Ftok", h] => (hexToStr? h).bind fun t => ctor (Sentence.fromTokenized t)
  | ["Fpart", h] => (hexToStr? h).bind fun t => ctor (Sentence.fromPartial t)
  | ["spec", k] => do
    let k ← k.toNat?
    let m ← models[k]?
    some (s, "Z" ++ joinWith "." ((specScores m s.text).map toString))
  | ["tspec", k] => do
    let k ← k.toNat?
    let m ← models[k]?
    let items := (specTokens s.bounds).map fun (st, en) =>
      let scores := match tagModelOf m ((s.text.drop st).take (en - st)) with
        | some tm => specTagScores tm s.text (en - 1)
        | none => []
      s!"{en}={joinWith "+" ((specTokenTags m s.text st en).map showTag)}={joinWith ":" (scores.map toString)}"
    some (s, "X" ++ joinWith "." items)
  | ["setbs", ls] =>
    (parseLabels ls).bind fun bs =>
      if bs.length = s.bounds.length then some ({ s with bounds := bs }, "ok") else some (s, "badlen")
  | _ =>
    match parseHOp op with
    | none => none
    | some hop =>
      -- the harness does not issue calls that the documentation forbids or whose index is the caller's fault
      match hop with
      | .predict k => if preds[k]?.isNone then none else
        (match hop.apply preds s with
         | .ok (s', _) => some (s', "ok")
         | .err _ => some (s, "err")
         | .panic _ => some (s, "panic")
         | .ub _ => some (s, "ub"))
      | _ =>
        let documented : Bool := match hop with
          | .fillTags => (match s.pred.bind (fun k => preds[k]?) with
              | some p => p.tagPredictor.isNone
              | none => false)
          | _ => false
        if documented then some (s, "nofill") else
        match hop.apply preds s with
        | .ok (s', true) => some (s', "ok")
        | .ok (s', false) => some (s', "err")
        | .err _ => some (s, "err")
        | .panic p => some (s, if p.startsWith "caller:" then "oob" else "panic")
        | .ub _ => some (s, "ub")

def runHist (preds : List Predictor) (models : List WModel) (ops : String) : String :=
  let rec go (s : Sentence) : List String → List String
    | [] => []
    | op :: r =>
      match sentOp preds models s op with
      | some (s', out) => out :: go s' r
      | none => ["bad-op"]
  joinWith "," (go Sentence.default (ops.splitOn ","))

def runSent (ops : String) : String := runHist [] [] ops

/-- `pred := <model text> "^" <pt><st>[s]` -/
def buildPred (cfg : Cfg) (spec : String) : Option (WModel × Res Predictor) :=
  match spec.splitOn "^" with
  | [mt, flags] => do
    let m ← parseModel mt
    let f := flags.toList
    let pt := f[0]? == some '1'
    let st := f[1]? == some '1'
    -- a trailing `s…` replaces the predictor by its serialize -> deserialize round trip (C14)
    let ser := f[2]? == some 's'
    pure (m, (Predictor.new cfg m pt).map fun p =>
      { (if ser then p.reser cfg else p) with storeTagScores := st })
  | _ => none

def runH (cfgS preds ops : String) : String :=
  let cfg := parseCfg cfgS
  match (preds.splitOn "!").mapM (buildPred cfg) with
  | none => "bad-case"
  | some built =>
    let errs := (built.zipIdx).filterMap fun ((_, r), k) =>
      match r with
      | .ok _ => none
      | .err e => some s!"new{k}:err:{e.toString}"
      | .panic _ => some s!"new{k}:panic"
      | .ub _ => some s!"new{k}:ub"
    if !errs.isEmpty then joinWith "," errs else
    let ps := built.filterMap fun (_, r) => match r with | .ok p => some p | _ => none
    runHist ps (built.map Prod.fst) ops

end V.Drv

namespace V.Drv

/-- `F <cfg> <model> <pt> <hex>`: one prediction (and tag fill when compiled in and requested) under a build configuration -/
def runF (cfgS mS ptS h : String) : String :=
  let cfg := parseCfg cfgS
  match parseModel mS, hexToStr? h with
  | some m, some text =>
    let wantTags := ptS == "1" && cfg.tagPred
    match Predictor.new cfg m wantTags with
    | .ok p =>
      match Sentence.fromRaw text with
      | .ok s =>
        match p.predict 0 s with
        | .ok s1 =>
          let sc := showRes (fun xs => joinWith "." (xs.map toString)) "S" s1.boundaryScores
          let b := "B" ++ (if s1.bounds.isEmpty then "-" else String.ofList (s1.bounds.map B.toChar))
          if wantTags then
            match p.predictTags s1 with
            | .ok s2 => joinWith ";" [sc, b, "K" ++ toString s2.nTags, "G" ++ joinWith "." (s2.tags.map showTag)]
            | _ => "panic"
          else joinWith ";" [sc, b]
        | _ => "panic"
      | .err _ => "err:invalid_argument"
      | _ => "panic"
    | .err _ => "err:invalid_model"
    | _ => "panic"
  | _, _ => "bad-case"

/-- `X <hex text>`: every character of the text is a token of its own, tagged with itself; both writers, and what both
parsers read back (escaping of every scalar value in surface and tag position, in both formats) -/
def runX (h : String) : String :=
  match hexToStr? h with
  | none => "bad-case"
  | some text =>
    match Sentence.fromRaw text with
    | .ok s0 =>
      let s := { s0 with bounds := List.replicate (text.length - 1) B.W, nTags := 1, tags := text.map fun c => some [c] }
      let back (r : Res Sentence) : String :=
        match r with
        | .ok t => "T" ++ strToHex t.text ++ ";B" ++ String.ofList (t.bounds.map B.toChar) ++ ";K" ++ toString t.nTags ++ ";G" ++ joinWith "." (t.tags.map showTag)
        | .err _ => "err"
        | _ => "panic"
      let w := s.writeTokenized
      let p := s.writePartial
      let wb := match w with | .ok x => back (Sentence.fromTokenized x) | _ => "-"
      let pb := match p with | .ok x => back (Sentence.fromPartial x) | _ => "-"
      joinWith "|" [showRes strToHex "W" w, showRes strToHex "P" p, wb, pb]
    | .err _ => "err"
    | _ => "panic"

end V.Drv

namespace V.Drv
open V.Bin

/-- `E <hex bytes> …`: the outer record of a serialised predictor, decoded from real bytes -/
def runE (h : String) : String :=
  match hexToBytes? h.toList with
  | none => "bad-case"
  | some bs =>
    match decEnvelope bs with
    | .ok (e, rest) =>
      let tp := match e.tagPredictor with | some l => toString l.length | none => "-"
      let reenc := if encEnvelope e ++ rest = bs then "same" else "DIFFERENT"
      s!"ok rest={rest.length} bias={e.bias} ntags={e.nTags} tp={tp} reencode={reenc}"
    | .err x => "err:" ++ x.toString
    | _ => "panic"

end V.Drv
