import VModel.Spec
/-!
# VModel.Csv — dictionary edits: `Model::replace_dictionary`, `WordWeightRecord::new`, and the `weights` column of
`manipulate_model` (decimal `i32`s joined by single spaces)

The CSV layer itself (crate `csv` + serde: quoting of commas, quotes, newlines) is an external contract:
`read (write rows) = rows` for rows of three arbitrary strings; it is exercised end-to-end by the check's CLI run.
-/
namespace V

/-- decimal digits of a natural number, most significant first (`u32::to_string`) -/
def natDigits : Nat → Nat → List Char
  | 0, _ => ['0']
  | fuel + 1, n => if n < 10 then [Char.ofNat (48 + n)] else natDigits fuel (n / 10) ++ [Char.ofNat (48 + n % 10)]

def natToDec (n : Nat) : List Char := natDigits (n + 1) n

/-- `i32::to_string` -/
def intToDec (i : Int) : List Char := if i < 0 then '-' :: natToDec (-i).toNat else natToDec i.toNat

def digitVal? (c : Char) : Option Nat := if '0' ≤ c ∧ c ≤ '9' then some (c.toNat - 48) else none

def parseNat? : List Char → Option Nat
  | [] => none
  | cs => cs.foldl (fun acc c => match acc, digitVal? c with
      | some a, some d => some (a * 10 + d)
      | _, _ => none) (some 0)

/-- `str::parse::<i32>`: optional sign, at least one digit, value within the i32 range -/
def parseI32? (cs : List Char) : Option Int :=
  let r : Option Int := match cs with
    | '-' :: rest => (parseNat? rest).map fun n => -(n : Int)
    | '+' :: rest => (parseNat? rest).map fun n => (n : Int)
    | _ => (parseNat? cs).map fun n => (n : Int)
  r.bind fun i => if -(2 ^ 31 : Int) ≤ i ∧ i < 2 ^ 31 then some i else none

/-- `weights.iter().map(to_string).collect::<Vec<_>>().join(" ")` -/
def joinWeights : List Int → List Char
  | [] => []
  | [w] => intToDec w
  | w :: r => intToDec w ++ ' ' :: joinWeights r

/-- `s.split(' ')` -/
def splitSpaces : List Char → List (List Char)
  | [] => [[]]
  | c :: cs =>
    match splitSpaces cs with
    | [] => [[]]
    | h :: t => if c = ' ' then [] :: h :: t else (c :: h) :: t

/-- `for w in record.weights.split(' ') { weights.push(w.parse()?) }` -/
def parseWeights (s : List Char) : Option (List Int) := (splitSpaces s).mapM parseI32?

/-- `WordWeightRecord::new` -/
def wordRecordNew (word : List Char) (weights : List Int) (comment : List Char) : Res DictWord :=
  if weights.length ≠ word.length + 1 then .err .invalidArgument else .ok ⟨word, weights, comment⟩

/-- `Model::replace_dictionary` -/
def WModel.replaceDict (m : WModel) (d : List DictWord) : WModel := { m with dict := d }

/-- one CSV row of `--dump-dict` -/
def dumpRow (d : DictWord) : List Char × List Char × List Char := (d.word, joinWeights d.weights, d.comment)

/-- one CSV row of `--replace-dict` -/
def loadRow (row : List Char × List Char × List Char) : Res DictWord :=
  match parseWeights row.2.1 with
  | some ws => wordRecordNew row.1 ws row.2.2
  | none => .err .invalidArgument

end V

namespace V

/-- all rows of a dictionary file, stopping at the first rejected record -/
def loadRows : List (List Char × List Char × List Char) → Res (List DictWord)
  | [] => .ok []
  | r :: rs =>
    match loadRow r with
    | .ok d =>
      match loadRows rs with
      | .ok ds => .ok (d :: ds)
      | e => e
    | .err e => .err e
    | .panic p => .panic p
    | .ub p => .ub p

end V
