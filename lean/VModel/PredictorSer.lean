import VModel.Bincode
/-!
# VModel.PredictorSer — `Predictor::serialize_to_vec` / `deserialize_from_slice_unchecked`

Two layers.
* **Value level** (`Predictor.reser`): what a serialise → deserialise round trip does to a predictor.  `WeightVector`s are
  written as `Vec<i32>` — the `Fixed` variant after `trim_end_zeros` — and rebuilt with `From<Vec<i32>>`; hash maps are
  rebuilt by insertion; the automaton is an opaque blob whose (de)serialisation is daachorse's contract (identity).
* **Byte level** (`encEnvelope` / `decEnvelope`): the outer `PredictorData` record — `Option<bytes>` character scorer,
  `Option<bytes>` type scorer, bias, `Option<map>` tag predictors, `n_tags` — which alone decides how many bytes are
  consumed and therefore which remainder slice is returned.  The scorer blobs are opaque byte strings at this level.
-/
namespace V

/-- what `Encode for WeightVector` writes -/
def WV.wire : WV → List Int
  | .variable w => w
  | .fixed w => trimEndZeros w

/-- `Decode for WeightVector` ∘ `Encode for WeightVector` -/
def WV.reser (cfg : Cfg) (w : WV) : WV := WV.ofList cfg w.wire

def PWV.reser (cfg : Cfg) (p : PWV) : PWV := { p with weight := p.weight.reser cfg }

def PmaScorer.reser {α : Type} (cfg : Cfg) (sc : PmaScorer α) : PmaScorer α :=
  { sc with
    weights := sc.weights.map (Option.map (PWV.reser cfg))
    tagWeight := sc.tagWeight.map fun tw => tw.map fun row => row.map fun m => m.map fun e => (e.1, e.2.reser cfg) }

def TypeScorer.reser (cfg : Cfg) : TypeScorer → TypeScorer
  | .pma sc => .pma (sc.reser cfg)
  | .cache ng w => .cache ng w

/-- the predictor obtained by `deserialize_from_slice_unchecked(serialize_to_vec(p))` (`tag_scores` flag is reset) -/
def Predictor.reser (cfg : Cfg) (p : Predictor) : Predictor :=
  { p with
    charScorer := p.charScorer.map (PmaScorer.reser cfg)
    typeScorer := p.typeScorer.map (TypeScorer.reser cfg)
    tagPredictor := p.tagPredictor.map fun l => l.map fun e => (e.1, e.2.1, { e.2.2 with bias := e.2.2.bias.reser cfg })
    storeTagScores := false }

namespace Bin

/-! ## byte level: the `PredictorData` envelope -/

def encOption {α : Type} (e : α → Bytes) : Option α → Bytes
  | none => [0]
  | some a => 1 :: e a

def decOption {α : Type} (d : Dec α) : Dec (Option α)
  | [] => derr
  | b :: r =>
    if b = 0 then .ok (none, r)
    else if b = 1 then
      match d r with
      | .ok (a, r') => .ok (some a, r')
      | .err e => .err e
      | .panic p => .panic p
      | .ub p => .ub p
    else derr

def encBytes (b : Bytes) : Bytes := encVarint b.length ++ b
def decBytes : Dec Bytes := fun bs =>
  match decVarint true bs with
  | .ok (n, r) => takeN n r
  | _ => derr

def encU32 (n : Nat) : Bytes := encVarint n
def decU32 : Dec Nat := decVarint false
def encUsize (n : Nat) : Bytes := encVarint n
def decUsize : Dec Nat := decVarint true

structure TagPredWire where
  tags : List (List (List Char))
  bias : List Int
deriving DecidableEq, Repr

structure Envelope where
  charScorer : Option Bytes
  typeScorer : Option Bytes
  bias : Int
  /-- entries in the order in which the hash map was iterated -/
  tagPredictor : Option (List (List Char × Nat × TagPredWire))
  nTags : Nat
deriving DecidableEq, Repr

def encTagPredWire (t : TagPredWire) : Bytes := encVec (encVec encString) t.tags ++ encVec encI32 t.bias
def decTagPredWire : Dec TagPredWire :=
  decMap (fun p => ⟨p.1, p.2⟩) (decPair (decVec (decVec decString)) (decVec decI32))

def encTagEntry (e : List Char × Nat × TagPredWire) : Bytes := encString e.1 ++ encU32 e.2.1 ++ encTagPredWire e.2.2
def decTagEntry : Dec (List Char × Nat × TagPredWire) := decPair decString (decPair decU32 decTagPredWire)

def encEnvelope (e : Envelope) : Bytes :=
  encOption encBytes e.charScorer ++ encOption encBytes e.typeScorer ++ encI32 e.bias
    ++ encOption (encVec encTagEntry) e.tagPredictor ++ encUsize e.nTags

def decEnvelope : Dec Envelope :=
  decMap (fun p => ⟨p.1, p.2.1, p.2.2.1, p.2.2.2.1, p.2.2.2.2⟩)
    (decPair (decOption decBytes) (decPair (decOption decBytes) (decPair decI32
      (decPair (decOption (decVec decTagEntry)) decUsize))))

/-- the values the envelope can carry -/
structure EnvOK (e : Envelope) : Prop where
  bias : -(2 ^ 31 : Int) ≤ e.bias ∧ e.bias < 2 ^ 31
  nTags : e.nTags < 2 ^ 64
  ids : ∀ l, e.tagPredictor = some l → ∀ x ∈ l, x.2.1 < 2 ^ 32
  i32 : ∀ l, e.tagPredictor = some l → ∀ x ∈ l, ∀ w ∈ x.2.2.bias, -(2 ^ 31 : Int) ≤ w ∧ w < 2 ^ 31
  size : (encEnvelope e).length < 2 ^ 64

end Bin
end V
