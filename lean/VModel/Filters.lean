import VModel.Sentence
/-!
# VModel.Filters — model of `vaporetto_rules::sentence_filters`

Unchecked accesses (`get_unchecked*`, `unwrap_unchecked`) are modelled as checked ones that yield `ub`.
The grapheme segmentation (crate `unicode-segmentation`) is an input: the list of cluster lengths in characters.
-/
namespace V

/-- `KyteaWsConstFilter::filter` -/
def filterWsConst (t : Nat) (s : Sentence) : Res Sentence :=
  if s.types.length = 0 then .panic "char_types().len() - 1 underflow" else
  let rec go : List Nat → List B → Res (List B)
    | a :: b :: r, bs =>
      match bs with
      | [] => if a = t ∧ b = t then .ub "boundaries_mut().get_unchecked_mut(i)" else go (b :: r) []
      | x :: xs =>
        match go (b :: r) xs with
        | .ok rest => .ok ((if a = t ∧ b = t then B.N else x) :: rest)
        | e => e
    | _, bs => .ok bs
  match go s.types s.bounds with
  | .ok bs => .ok { s with bounds := bs }
  | .err e => .err e
  | .panic p => .panic p
  | .ub p => .ub p

def isLinebreak (c : Char) : Bool := c = '\r' || c = '\n'

/-- `SplitLinebreaksFilter::filter` -/
def filterLinebreaks (s : Sentence) : Res Sentence :=
  match s.text with
  | [] => .ub "chars().next().unwrap_unchecked()"
  | _ =>
    let rec go : List Char → List B → Res (List B)
      | a :: b :: r, bs =>
        match bs with
        | [] => if isLinebreak a || isLinebreak b then .ub "boundaries_mut().get_unchecked_mut(i)" else go (b :: r) []
        | x :: xs =>
          match go (b :: r) xs with
          | .ok rest => .ok ((if isLinebreak a || isLinebreak b then B.W else x) :: rest)
          | e => e
      | _, bs => .ok bs
    match go s.text s.bounds with
    | .ok bs => .ok { s with bounds := bs }
    | .err e => .err e
    | .panic p => .panic p
    | .ub p => .ub p

/-- `boundaries[start..end-1].fill(N)` as an unchecked range -/
def fillN (bs : List B) (start stop : Nat) : Res (List B) :=
  if start ≤ stop ∧ stop ≤ bs.length then
    .ok (bs.take start ++ List.replicate (stop - start) B.N ++ bs.drop stop)
  else .ub "boundaries_mut().get_unchecked_mut(start..end - 1)"

/-- `ConcatGraphemeClustersFilter::filter`; `clusters` = lengths (in characters, each ≥ 1) of the extended grapheme
clusters of the text, in order -/
def filterGraphemes (clusters : List Nat) (s : Sentence) : Res Sentence :=
  let rec go : List Nat → Nat → List B → Res (List B)
    | [], _, bs => .ok bs
    | l :: r, start, bs =>
      if l = 0 then .panic "end - 1 underflow" else
      match fillN bs start (start + l - 1) with
      | .ok bs' => go r (start + l) bs'
      | e => e
  match go clusters 0 s.bounds with
  | .ok bs => .ok { s with bounds := bs }
  | .err e => .err e
  | .panic p => .panic p
  | .ub p => .ub p

/-- `HashMap<String, Vec<Option<String>>>` -/
abbrev TagRules := List (List Char × List Tag)

def rulesGet (rules : TagRules) (k : List Char) : Option (List Tag) :=
  (rules.reverse.find? (fun e => e.1 = k)).map Prod.snd

/-- `PatternMatchTagger::filter` -/
def filterTagger (rules : TagRules) (s : Sentence) : Res Sentence :=
  let rec collect : List (Nat × Nat) → Res (List (Nat × Nat × Tag))
    | [] => .ok []
    | (st, en) :: r =>
      match s.substring st en with
      | .ok surf =>
        match s.tokenTags en with
        | .ok ts =>
          match collect r with
          | .ok rest =>
            let here := (ts.zipIdx).filterMap fun (tg, j) =>
              if tg.isNone then
                match rulesGet rules surf with
                | some tags => some (en - 1, j, (tags[j]?).bind id)
                | none => none
              else none
            .ok (here ++ rest)
          | e => e
        | .err e => .err e
        | .panic p => .panic p
        | .ub p => .ub p
      | .err e => .err e
      | .panic p => .panic p
      | .ub p => .ub p
  match collect (iterTokens s.bounds) with
  | .ok q =>
    let rec apply : List (Nat × Nat × Tag) → List Tag → Res (List Tag)
      | [], tags => .ok tags
      | (i, j, t) :: r, tags =>
        if i * s.nTags + j < tags.length then apply r (tags.set (i * s.nTags + j) t)
        else .panic "tags_mut()[i * n_tags + j]"
    match apply q s.tags with
    | .ok tags => .ok { s with tags := tags }
    | .err e => .err e
    | .panic p => .panic p
    | .ub p => .ub p
  | .err e => .err e
  | .panic p => .panic p
  | .ub p => .ub p

end V
