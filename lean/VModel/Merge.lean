import VModel.Basic
/-!
# VModel.Merge — `CharWeightMerger` / `TypeWeightMerger` (`add`, `merge`), mirrored

Generic in the key alphabet `α` (characters or type codes) and the weight type `W` with its `+=`.
The Rust `BTreeMap<key, RefCell<(W, bool)>>` is a key list plus two functions on keys (`w`, `done`)
with pointwise update.  The iteration order of the map only decides pattern ids, which are not
observable; the merged weights do not depend on it (theorem `C01_merge_correct`).
-/
namespace V.Merge
variable {α : Type} [DecidableEq α] {W : Type}

/-- non-empty proper suffixes, longest first (Rust: `for j in 1..len { &ngram[j..] }`) -/
def properSuffixes : List α → List (List α)
  | [] => []
  | _ :: t => match t with
    | [] => []
    | _ :: _ => t :: properSuffixes t

structure St (α : Type) (W : Type) where
  w : List α → W
  done : List α → Bool

def upd {β : Type} (f : List α → β) (k : List α) (v : β) : List α → β := fun x => if x = k then v else f x

/-- the inner `for j` loop: push every suffix that is a key, stop after the first visited one -/
def chainAux (keys : List (List α)) (st : St α W) : List (List α) → List (List α)
  | [] => []
  | s :: rest => if s ∈ keys then (if st.done s then [s] else s :: chainAux keys st rest) else chainAux keys st rest

def chain (keys : List (List α)) (st : St α W) (k : List α) : List (List α) :=
  k :: chainAux keys st (properSuffixes k)

/-- `while let Some(data_to) = stack.pop()`: `to.w += from.w; to.done = true; from = to` -/
def go (add : W → W → W) (st : St α W) (fromK : List α) : List (List α) → St α W
  | [] => st
  | t :: rest =>
    let st' : St α W := { w := upd st.w t (add (st.w t) (st.w fromK)), done := upd st.done t true }
    go add st' t rest

def backprop (add : W → W → W) (st : St α W) : List (List α) → St α W
  | [] => st
  | f :: rest => go add { st with done := upd st.done f true } f rest

def step (add : W → W → W) (keys : List (List α)) (st : St α W) (k : List α) : St α W :=
  if st.done k then st else backprop add st (chain keys st k).reverse

def merge (add : W → W → W) (keys : List (List α)) (w0 : List α → W) : St α W :=
  keys.foldl (step add keys) { w := w0, done := fun _ => false }

/-- `merger.add(ngram, weight)` on an association list (insertion order) -/
def addEntry (add : W → W → W) : List (List α × W) → List α → W → List (List α × W)
  | [], k, w => [(k, w)]
  | (k', w') :: r, k, w => if k' = k then (k', add w' w) :: r else (k', w') :: addEntry add r k w

def lookupD (d : W) : List (List α × W) → List α → W
  | [], _ => d
  | (k', w') :: r, k => if k' = k then w' else lookupD d r k

/-- `merger.merge()`: the merged weight of every key -/
def mergeEntries (add : W → W → W) (d : W) (entries : List (List α × W)) : List (List α × W) :=
  let keys := entries.map Prod.fst
  let st := merge add keys (lookupD d entries)
  keys.map fun k => (k, st.w k)

end V.Merge
