import VModel.Csv
/-!
# VModel.CsvFile — the CSV *file* layer of `manipulate_model` (`--dump-dict` / `--replace-dict`)

Models what `csv::Writer::from_writer(file)` + `wtr.serialize(WordWeightRecordFlatten { word, weights, comment })` writes and what
`csv::Reader::from_reader(file)` + `rdr.deserialize()` reads back, with the defaults of the crates `csv 1.4.0` / `csv-core 0.1.13`.
All special characters (`,` `"` CR LF) are ASCII, so on valid UTF-8 the character level below is the byte level of the crates.

## Writer (`csv-core/src/writer.rs`: `Writer::{field, delimiter, terminator}`, `QuoteStyle::Necessary`, `double_quote = true`,
`Terminator::Any(b'\n')`; `csv/src/writer.rs`: `Writer::serialize`, header state)

* a field is quoted iff it contains `,` `"` CR or LF (`requires_quotes`); inside quotes `"` is doubled;
* fields are separated by `,`, a record is terminated by LF;
* `Writer::terminator` writes `""` first when no byte has been written for the record (`record_bytes == 0`): a record that
  consists of ONE EMPTY field is written as `""` LF — this is what makes real CSV unambiguous, and `csvRecord` models it;
  an empty field next to other fields is written as nothing;
* the header record `word,weights,comment` is written once, immediately before the first serialized record; an empty
  dictionary gives an empty file.

## Reader (`csv-core/src/reader.rs`: `Reader::transition_nfa` / `transition_final_dfa`, defaults `Terminator::CRLF` (CR, LF and
CR LF all end a record), `quoting = true`, `double_quote = true`, `escape = None`, `comment = None`; `csv/src/reader.rs`:
`has_headers = true`, `flexible = false`, `Trim::None`)

`csvStep` is the transition function of csv-core's automaton with the ε-transitions resolved; `csvGo` runs it over the input.
The correspondence of the states is

| here            | csv-core (`NfaState`)                                   |
|-----------------|---------------------------------------------------------|
| `startRecord`   | `StartRecord` (also `EndRecord` → ε → `StartRecord`)    |
| `startField`    | `StartField` (also `EndFieldDelim` → ε → `StartField`)  |
| `inField`       | `InField`                                               |
| `inQuoted`      | `InQuotedField`                                         |
| `quoteInQuoted` | `InDoubleEscapedQuote`                                  |
| `afterCR`       | `CRLF`                                                  |

csv-core "prefers *a* parse over *no* parse" and never fails; the model follows it on the lenient inputs as well:
* a `"` inside an unquoted field is an ordinary character (`InField` copies it);
* text after the closing quote of a quoted field is appended to the field, unquoted (`InDoubleEscapedQuote` → `InField`);
* a quoted field that is still open at the end of the input is closed there (`transition_final_dfa`).
Hence `csvParse` always returns `some _`; the `Option` is kept for the interface.  Blank lines (any run of CR / LF at the start of a
record) are skipped; a missing final terminator is accepted; `a,` at the end of the input is the record `[a, ""]`.

## Strict domain (`csvStrict`)

The model claims agreement with the real reader of `manipulate_model` exactly on the inputs `s` with `csvStrict s = true`:
valid UTF-8 (the caller decodes; undecodable bytes are outside the domain) and
1. no lenient transition is used: no `"` inside an unquoted field, after the closing quote of a quoted field only `,`, CR, LF or
   the end of the input follows, and no quoted field is open at the end of the input (`csvStrictGo`);
2. the input does not start with U+FEFF.  (csv-core strips a UTF-8 byte order mark at the start of the *first buffer*; `csvLoadFile`
   mirrors this with `csvStripBom`, but whether the real reader sees the three bytes in one buffer is an I/O matter, so the model
   does not claim agreement there.)
3. the input has no record at all, or its first record is exactly `word,weights,comment`.  (serde maps columns to struct fields by
   header NAME: a permuted header, additional columns, a header row that is not valid UTF-8 — which makes the real reader fall
   back to positional columns — are outside the modelled domain; `csvLoadFile` rejects them.)
Inside the domain: the first record is the header, every further record must have as many fields as the header (three), else the
real reader reports `UnequalLengths`; then `weights.split(' ')`, `str::parse::<i32>`, `WordWeightRecord::new` as in `VModel.Csv`.
Every failure aborts the real tool with a non-zero exit status and no model written; the model reports all of them as
`.err .invalidArgument`.
-/
namespace V

/-! ## writer -/

/-- the bytes for which `csv_core::Writer::requires_quotes` is set by default -/
def csvSpecial (c : Char) : Bool := c = ',' || c = '"' || c = '\r' || c = '\n'

/-- `Writer::needs_quotes` -/
def csvNeedsQuotes (f : List Char) : Bool := f.any csvSpecial

/-- `csv_core::writer::quote` with `double_quote = true` -/
def csvEscape : List Char → List Char
  | [] => []
  | c :: cs => if c = '"' then '"' :: '"' :: csvEscape cs else c :: csvEscape cs

/-- one field as written by `Writer::field` (+ the closing quote written by `delimiter` / `terminator`) -/
def csvField (f : List Char) : List Char :=
  if csvNeedsQuotes f then '"' :: (csvEscape f ++ ['"']) else f

/-- the fields of a record joined by `,` -/
def csvJoin : List (List Char) → List Char
  | [] => []
  | [f] => csvField f
  | f :: fs => csvField f ++ ',' :: csvJoin fs

/-- one record: fields joined by `,`, terminated by LF; when nothing was written for the record (`record_bytes == 0`: the record
is one empty field) `Writer::terminator` writes `""` first -/
def csvRecord (fields : List (List Char)) : List Char :=
  match csvJoin fields with
  | [] => ['"', '"', '\n']
  | c :: cs => (c :: cs) ++ ['\n']

/-- the header written by serde for `WordWeightRecordFlatten` -/
def csvHeader : List (List Char) := [['w', 'o', 'r', 'd'], ['w', 'e', 'i', 'g', 'h', 't', 's'], ['c', 'o', 'm', 'm', 'e', 'n', 't']]

/-- the three columns of a row -/
def csvRowFields (r : List Char × List Char × List Char) : List (List Char) := [r.1, r.2.1, r.2.2]

/-- `--dump-dict`: nothing for an empty dictionary, else the header and one record per entry -/
def csvDumpFile : List DictWord → List Char
  | [] => []
  | d :: ds => csvRecord csvHeader ++ (d :: ds).flatMap fun e => csvRecord (csvRowFields (dumpRow e))

/-! ## reader -/

inductive CsvSt
  | startRecord | startField | inField | inQuoted | quoteInQuoted | afterCR
deriving DecidableEq, Repr, Inhabited

/-- what happens to the input character (`NfaInputAction`, plus the "final field" / "final record" flags of the target state) -/
inductive CsvAct
  | skip | copy | endField | endRecord
deriving DecidableEq, Repr, Inhabited

/-- `StartField` on `c` -/
def csvStepStartField (c : Char) : CsvSt × CsvAct :=
  if c = '"' then (.inQuoted, .skip)
  else if c = ',' then (.startField, .endField)
  else if c = '\n' then (.startRecord, .endRecord)
  else if c = '\r' then (.afterCR, .endRecord)
  else (.inField, .copy)

/-- `InField` on `c` (also the non-quote branches of `InDoubleEscapedQuote`) -/
def csvStepInField (c : Char) : CsvSt × CsvAct :=
  if c = ',' then (.startField, .endField)
  else if c = '\n' then (.startRecord, .endRecord)
  else if c = '\r' then (.afterCR, .endRecord)
  else (.inField, .copy)

/-- `Reader::transition_nfa` with the ε-transitions resolved -/
def csvStep (st : CsvSt) (c : Char) : CsvSt × CsvAct :=
  match st with
  | .startRecord => if c = '\n' || c = '\r' then (.startRecord, .skip) else csvStepStartField c
  | .afterCR => if c = '\n' || c = '\r' then (.startRecord, .skip) else csvStepStartField c
  | .startField => csvStepStartField c
  | .inField => csvStepInField c
  | .inQuoted => if c = '"' then (.quoteInQuoted, .skip) else (.inQuoted, .copy)
  | .quoteInQuoted => if c = '"' then (.inQuoted, .copy) else csvStepInField c

/-- the record completed by the current field; both accumulators are reversed -/
def csvEndRecord (fa : List Char) (ra : List (List Char)) : List (List Char) := (fa.reverse :: ra).reverse

/-- the automaton over the input: `fa` = the current field, reversed; `ra` = the finished fields of the current record, reversed.
At the end of the input `transition_final_dfa` yields a last record unless the automaton is at the start of a record. -/
def csvGo : CsvSt → List Char → List (List Char) → List Char → List (List (List Char))
  | st, fa, ra, [] =>
    match st with
    | .startRecord => []
    | .afterCR => []
    | _ => [csvEndRecord fa ra]
  | st, fa, ra, c :: cs =>
    match csvStep st c with
    | (st', .skip) => csvGo st' fa ra cs
    | (st', .copy) => csvGo st' (c :: fa) ra cs
    | (st', .endField) => csvGo st' [] (fa.reverse :: ra) cs
    | (st', .endRecord) => csvEndRecord fa ra :: csvGo st' [] [] cs

/-- all records of the input (header included); never `none` (csv-core never fails) -/
def csvParse (s : List Char) : Option (List (List (List Char))) := some (csvGo .startRecord [] [] s)

/-- the transitions on which csv-core is lenient -/
def csvLenient (st : CsvSt) (c : Char) : Bool :=
  match st with
  | .inField => c = '"'
  | .quoteInQuoted => !(c = '"' || c = ',' || c = '\n' || c = '\r')
  | _ => false

/-- no lenient transition and no quoted field open at the end of the input -/
def csvStrictGo : CsvSt → List Char → Bool
  | st, [] => st != .inQuoted
  | st, c :: cs => !csvLenient st c && csvStrictGo (csvStep st c).1 cs

/-- `Reader::strip_utf8_bom` -/
def csvStripBom : List Char → List Char
  | c :: cs => if c = Char.ofNat 0xFEFF then cs else c :: cs
  | [] => []

def csvHasBom : List Char → Bool
  | c :: _ => c = Char.ofNat 0xFEFF
  | [] => false

/-- the domain where the model claims agreement with the real reader (see the header of this file) -/
def csvStrict (s : List Char) : Bool :=
  !csvHasBom s && csvStrictGo .startRecord s &&
    match csvGo .startRecord [] [] s with
    | [] => true
    | h :: _ => h = csvHeader

/-- a record of exactly three fields -/
def csvRowOf? : List (List Char) → Option (List Char × List Char × List Char)
  | [a, b, c] => some (a, b, c)
  | _ => none

/-- `--replace-dict`: parse, header check, field-count check, then `loadRows` -/
def csvLoadFile (s : List Char) : Res (List DictWord) :=
  match csvParse (csvStripBom s) with
  | none => .err .invalidArgument
  | some [] => .ok []
  | some (h :: recs) =>
    if h = csvHeader then
      match recs.mapM csvRowOf? with
      | some rows => loadRows rows
      | none => .err .invalidArgument
    else .err .invalidArgument

end V
