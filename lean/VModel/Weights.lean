import VModel.Basic
/-!
# VModel.Weights — `PositionalWeight`, `WeightVector`, `add_score` (model of `predictor.rs`, first half)

`i32`/`i16` values are unbounded `Int`s (absence of overflow is an assumption, DESIGN.md §3).
-/
namespace V

/-- `w[i]` for `0 ≤ i < w.length`, else 0 (index is an `Int`) -/
def getZ (w : List Int) (i : Int) : Int := if 0 ≤ i then w.getD i.toNat 0 else 0

/-- `for (y, x) in ys.iter_mut().zip(w) { *y += *x }` -/
def zipAdd : List Int → List Int → List Int
  | [], _ => []
  | ys, [] => ys
  | y :: ys, x :: xs => (y + x) :: zipAdd ys xs

/-- `ys[start..]` zipped with `w` (caller guarantees `start ≤ ys.length`) -/
def addAt (ys : List Int) (start : Nat) (w : List Int) : List Int := ys.take start ++ zipAdd (ys.drop start) w

/-- `PositionalWeight<Vec<i32>>` -/
structure PW where
  offset : Int
  weight : List Int
deriving DecidableEq, Repr, Inhabited

/-- the finitely supported function a positional weight stands for: value at relative position `x` -/
def PW.denote (p : PW) (x : Int) : Int := getZ p.weight (x - p.offset)

/-- `impl AddAssign<&Self> for PositionalWeight<Vec<i32>>` (resize, rotate_right, zip-add) -/
def PW.add (a b : PW) : PW :=
  let newOffset := min a.offset b.offset
  let shift := (a.offset - newOffset).toNat
  let bStart := (b.offset - newOffset).toNat
  let newSize := max (shift + a.weight.length) (bStart + b.weight.length)
  let resized := List.replicate shift 0 ++ a.weight ++ List.replicate (newSize - (shift + a.weight.length)) 0
  { offset := newOffset, weight := addAt resized bStart b.weight }

/-- build configuration: which cargo features are compiled in -/
structure Cfg where
  fixed : Bool := true      -- fix-weight-length
  cache : Bool := true      -- cache-type-score
  tagPred : Bool := true    -- tag-prediction
deriving DecidableEq, Repr, Inhabited

/-- `WeightVector` -/
inductive WV
  | variable (w : List Int)
  | fixed (w : List Int)      -- always 8 entries
deriving DecidableEq, Repr, Inhabited

def fixedLen : Nat := 8

/-- `impl From<Vec<i32>> for WeightVector` -/
def WV.ofList (cfg : Cfg) (w : List Int) : WV :=
  if cfg.fixed && w.length ≤ fixedLen then .fixed (w ++ List.replicate (fixedLen - w.length) 0) else .variable w

def WV.len : WV → Nat
  | .variable w => w.length
  | .fixed _ => fixedLen

def WV.toList : WV → List Int
  | .variable w => w
  | .fixed w => w

/-- `trim_end_zeros` -/
def trimEndZeros (w : List Int) : List Int := (w.reverse.dropWhile (· == 0)).reverse

/-- `PositionalWeight<WeightVector>` -/
structure PWV where
  offset : Int
  weight : WV
deriving DecidableEq, Repr, Inhabited

def PW.toPWV (cfg : Cfg) (p : PW) : PWV := { offset := p.offset, weight := WV.ofList cfg p.weight }

/-- `PositionalWeight<WeightVector>::add_score(end, ys)` -/
def PWV.addScore (p : PWV) (endPos : Int) (ys : List Int) : Res (List Int) :=
  let pos := endPos + p.offset
  match p.weight with
  | .variable w =>
    if 0 ≤ pos then
      if pos.toNat ≤ ys.length then .ok (addAt ys pos.toNat w)
      else .panic "add_score: ys[pos..] out of range"
    else if (-pos).toNat ≤ w.length then .ok (addAt ys 0 (w.drop (-pos).toNat))
    else .ok ys
  | .fixed w =>
    if 0 ≤ pos ∧ pos.toNat + fixedLen ≤ ys.length then .ok (addAt ys pos.toNat w)
    else .panic "add_score: ys[pos..pos + 8] out of range"

/-- `WeightVector::add_scores(ys)` (tag scores) -/
def WV.addScores (w : WV) (ys : List Int) : Res (List Int) :=
  match w with
  | .variable w => .ok (zipAdd ys w)
  | .fixed w => if fixedLen ≤ ys.length then .ok (zipAdd ys w) else .panic "add_scores: ys[..8] out of range"

end V
