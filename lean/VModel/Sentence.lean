import VModel.Basic
import VModel.Generated.CharType
/-!
# VModel.Sentence — model of `vaporetto/src/sentence.rs`

`Sentence` record, the three parsers (`parse_raw`, `parse_tokenized`, `parse_partial_annotation`),
the six constructors / in-place updates, `reset_tags`, the `TokenIterator`, both writers and the
accessors, each as a total function into `Res`.

Modelling notes
* text is `List Char`; `char_to_str_pos` / `str_to_char_pos` are functions of the text (the Rust
  code recomputes them together with the text in every parser and in `set_default`).
* the Rust loop variables of the state machines are kept (`escape`, `prev_boundary`, `tag_str`,
  `is_char`, `skip_token`, …).
* `predictor` is an opaque identifier; `tag_scores` holds the candidate lists by value.
-/
namespace V

abbrev Tag := Option (List Char)

structure Sentence where
  text : List Char
  types : List Nat
  bounds : List B
  /-- `boundary_scores` including the padding on both sides -/
  scores : List Int
  padding : Nat
  cstates : List (Option Nat)
  tstates : List (Option Nat)
  tags : List Tag
  /-- `tag_scores`: per character `Some((candidate lists, scores))` -/
  tagScores : List (Option (List (List (List Char)) × List Int))
  nTags : Nat
  pred : Option Nat
deriving DecidableEq, Repr, Inhabited

/-- `Sentence::default()` = state after `set_default()` on empty vectors -/
def Sentence.default : Sentence :=
  { text := [' '], types := [6], bounds := [], scores := [], padding := 0, cstates := [], tstates := [],
    tags := [], tagScores := [], nTags := 0, pred := none }

/-- `set_default` (keeps nothing of the previous state) -/
def Sentence.setDefault (_ : Sentence) : Sentence := Sentence.default

def typesOf (text : List Char) : List Nat := text.map Gen.getType

/-! ## position maps -/

/-- `char_to_str_pos`: byte offset of every character boundary, `n + 1` entries -/
def charToStrFrom (pos : Nat) : List Char → List Nat
  | [] => [pos]
  | c :: cs => pos :: charToStrFrom (pos + c.utf8Size) cs

def charToStr (text : List Char) : List Nat := charToStrFrom 0 text

def utf8Len (text : List Char) : Nat := (text.map Char.utf8Size).sum

/-- `str_to_char_pos[pos]` — only meaningful (and only read by safe callers) at character boundaries -/
def strToChar? (text : List Char) (pos : Nat) : Option Nat := (charToStr text).idxOf? pos

/-! ## parse_raw -/

def parseRaw (text : List Char) : Res (List Nat × List B) :=
  if text.contains '\x00' then .err .invalidArgument
  else if text.isEmpty then .err .invalidArgument
  else .ok (typesOf text, List.replicate (text.length - 1) B.U)

def Sentence.fromRaw (text : List Char) : Res Sentence :=
  match parseRaw text with
  | .ok (ty, bs) => .ok { Sentence.default with text := text, types := ty, bounds := bs }
  | .err e => .err e
  | .panic s => .panic s
  | .ub s => .ub s

/-- `update_raw` returns the new sentence and whether the call returned `Ok` -/
def Sentence.updateRaw (s : Sentence) (text : List Char) : Res (Sentence × Bool) :=
  match parseRaw text with
  | .ok (ty, bs) =>
    .ok ({ s with text := text, types := ty, bounds := bs, scores := [], padding := 0, cstates := [],
                  tstates := [], pred := none, tags := [], nTags := 0, tagScores := [] }, true)
  | .err _ => .ok (s.setDefault, false)
  | .panic p => .panic p
  | .ub p => .ub p

/-! ## parse_tokenized -/

structure TokSt where
  text : List Char := []
  bounds : List B := []
  tagsTmp : List (List (List Char)) := []  -- per character: its tags so far
  tagStr : Option (List Char) := none
  prevBoundary : Bool := false
  escape : Bool := false
deriving Repr, DecidableEq

/-- `tags_tmp.last_mut().unwrap().push(tag)` -/
def pushLast : List (List (List Char)) → List Char → Option (List (List (List Char)))
  | [], _ => none
  | [x], t => some [x ++ [t]]
  | x :: y :: r, t => (pushLast (y :: r) t).map (x :: ·)

def tokStep (s : TokSt) (c : Char) : Res TokSt :=
  if !s.escape && c = '\\' then .ok { s with escape := true }
  else if !s.escape && c = ' ' then
    if s.text = [] then .err .invalidArgument
    else if s.prevBoundary then .err .invalidArgument
    else match s.tagStr with
      | none => .ok { s with prevBoundary := true }
      | some t => match pushLast s.tagsTmp t with
        | none => .panic "parse_tokenized:tags_tmp.last_mut().unwrap()"
        | some tt => .ok { s with tagsTmp := tt, tagStr := none, prevBoundary := true }
  else if !s.escape && c = '/' then
    if s.text = [] || s.prevBoundary then .err .invalidArgument
    else match s.tagStr with
      | none => .ok { s with tagStr := some [] }
      | some t => match pushLast s.tagsTmp t with
        | none => .panic "parse_tokenized:tags_tmp.last_mut().unwrap()"
        | some tt => .ok { s with tagsTmp := tt, tagStr := some [] }
  else
    if c = '\x00' then .err .invalidArgument
    else match s.tagStr with
      | some t => .ok { s with escape := false, tagStr := some (t ++ [c]) }
      | none =>
        .ok { s with escape := false,
                     bounds := if s.text = [] then s.bounds else s.bounds ++ [if s.prevBoundary then B.W else B.N],
                     prevBoundary := false, text := s.text ++ [c], tagsTmp := s.tagsTmp ++ [[]] }

def tokRun (s : TokSt) : List Char → Res TokSt
  | [] => .ok s
  | c :: cs => match tokStep s c with
    | .ok s' => tokRun s' cs
    | .err e => .err e
    | .panic p => .panic p
    | .ub p => .ub p

def maxLen (tt : List (List (List Char))) : Nat := tt.foldl (fun acc x => max acc x.length) 0

def tagOfStr (t : List Char) : Tag := if t = [] then none else some t

/-- the common tail of both annotated parsers: pad every character's tag list to `n_tags` -/
def padTags (n : Nat) (tt : List (List (List Char))) : List Tag :=
  tt.flatMap fun ts => ts.map tagOfStr ++ List.replicate (n - ts.length) none

structure Parsed where
  text : List Char
  bounds : List B
  tags : List Tag
deriving Repr, DecidableEq

def parseTokenized (input : List Char) : Res Parsed :=
  if input = [] then .err .invalidArgument else
  match tokRun {} input with
  | .ok s =>
    if s.prevBoundary then .err .invalidArgument
    else if s.text = [] then .err .invalidArgument      -- (fix F-C05a) e.g. a lone backslash
    else
      match s.tagStr with
      | none => .ok ⟨s.text, s.bounds, padTags (maxLen s.tagsTmp) s.tagsTmp⟩
      | some t => match pushLast s.tagsTmp t with
        | none => .panic "parse_tokenized:tags_tmp.last_mut().unwrap()"
        | some tt => .ok ⟨s.text, s.bounds, padTags (maxLen tt) tt⟩
  | .err e => .err e
  | .panic p => .panic p
  | .ub p => .ub p

/-- `n_tags = tags.len() / char_types.len()` -/
def divTags (tags : List Tag) (text : List Char) : Res Nat :=
  if text.length = 0 then .panic "n_tags: attempt to divide by zero" else .ok (tags.length / text.length)

def Sentence.ofParsed (p : Parsed) : Res Sentence :=
  match divTags p.tags p.text with
  | .ok k => .ok { Sentence.default with text := p.text, types := typesOf p.text, bounds := p.bounds,
                                         tags := p.tags, nTags := k }
  | .err e => .err e
  | .panic s => .panic s
  | .ub s => .ub s

def Sentence.fromTokenized (input : List Char) : Res Sentence :=
  match parseTokenized input with
  | .ok p => Sentence.ofParsed p
  | .err e => .err e
  | .panic s => .panic s
  | .ub s => .ub s

def Sentence.updateParsed (s : Sentence) (r : Res Parsed) : Res (Sentence × Bool) :=
  match r with
  | .ok p =>
    match divTags p.tags p.text with
    | .ok k => .ok ({ s with text := p.text, types := typesOf p.text, bounds := p.bounds, tags := p.tags,
                             nTags := k, scores := [], padding := 0, cstates := [], tstates := [],
                             pred := none, tagScores := [] }, true)
    | .err e => .err e
    | .panic q => .panic q
    | .ub q => .ub q
  | .err _ => .ok (s.setDefault, false)
  | .panic p => .panic p
  | .ub p => .ub p

def Sentence.updateTokenized (s : Sentence) (input : List Char) : Res (Sentence × Bool) :=
  s.updateParsed (parseTokenized input)

/-! ## parse_partial_annotation -/

structure PartSt where
  text : List Char := []
  bounds : List B := []
  tagsTmp : List (List (List Char)) := []
  tagStr : Option (List Char) := none
  escape : Bool := false
  isChar : Bool := true
deriving Repr, DecidableEq

/-- the three boundary characters share one shape: flush the pending tag, push the label -/
def partBoundary (s : PartSt) (b : B) : Res PartSt :=
  match s.tagStr with
  | none => .ok { s with bounds := s.bounds ++ [b], isChar := true }
  | some t => match pushLast s.tagsTmp t with
    | none => .panic "parse_partial_annotation:tags_tmp.last_mut().unwrap()"
    | some tt => .ok { s with tagsTmp := tt, tagStr := none, bounds := s.bounds ++ [b], isChar := true }

def partStep (s : PartSt) (c : Char) : Res PartSt :=
  if s.isChar then
    if c = '\x00' then .err .invalidArgument
    else .ok { s with text := s.text ++ [c], tagsTmp := s.tagsTmp ++ [[]], isChar := false }
  else if !s.escape && c = '\\' then .ok { s with escape := true }
  else if !s.escape && c = ' ' then partBoundary s .U
  else if !s.escape && c = '-' then partBoundary s .N
  else if !s.escape && c = '|' then partBoundary s .W
  else if !s.escape && c = '/' then
    match s.tagStr with
    | none => .ok { s with tagStr := some [] }
    | some t => match pushLast s.tagsTmp t with
      | none => .panic "parse_partial_annotation:tags_tmp.last_mut().unwrap()"
      | some tt => .ok { s with tagsTmp := tt, tagStr := some [] }
  else
    match s.tagStr with
    | some t => .ok { s with escape := false, tagStr := some (t ++ [c]) }
    | none => .err .invalidArgument

def partRun (s : PartSt) : List Char → Res PartSt
  | [] => .ok s
  | c :: cs => match partStep s c with
    | .ok s' => partRun s' cs
    | .err e => .err e
    | .panic p => .panic p
    | .ub p => .ub p

def parsePartial (input : List Char) : Res Parsed :=
  if input = [] then .err .invalidArgument else
  match partRun {} input with
  | .ok s =>
    if s.isChar then .err .invalidArgument
    else
      match s.tagStr with
      | none => .ok ⟨s.text, s.bounds, padTags (maxLen s.tagsTmp) s.tagsTmp⟩
      | some t => match pushLast s.tagsTmp t with
        | none => .panic "parse_partial_annotation:tags_tmp.last_mut().unwrap()"
        | some tt => .ok ⟨s.text, s.bounds, padTags (maxLen tt) tt⟩
  | .err e => .err e
  | .panic p => .panic p
  | .ub p => .ub p

def Sentence.fromPartial (input : List Char) : Res Sentence :=
  match parsePartial input with
  | .ok p => Sentence.ofParsed p
  | .err e => .err e
  | .panic s => .panic s
  | .ub s => .ub s

def Sentence.updatePartial (s : Sentence) (input : List Char) : Res (Sentence × Bool) :=
  s.updateParsed (parsePartial input)

/-! ## reset_tags, mutable slices -/

def Sentence.resetTags (s : Sentence) (k : Nat) : Sentence :=
  { s with tags := List.replicate (k * s.types.length) none, nTags := k }

/-- `s.boundaries_mut()[i] = b` (the indexing is the caller's) -/
def Sentence.setBoundary (s : Sentence) (i : Nat) (b : B) : Res Sentence :=
  if i < s.bounds.length then .ok { s with bounds := s.bounds.set i b } else .panic "caller:boundaries_mut()[i]"

def Sentence.setTag (s : Sentence) (i : Nat) (t : Tag) : Res Sentence :=
  if i < s.tags.length then .ok { s with tags := s.tags.set i t } else .panic "caller:tags_mut()[i]"

/-! ## TokenIterator -/

/-- the `for (i, &b) in boundaries.iter().enumerate()` loop of `TokenIterator::next`.
`end0` = value of `token.end` on entry (the slice `boundaries[start..]` was taken there);
`n` = `boundaries.len() + 1`.  Result: `some (start, end)` for `Some(token)`, `none` for `None`. -/
def iterLoop (n end0 : Nat) : List B → Nat → Nat → Bool → Option (Nat × Nat)
  | [], _, start, skip => if skip then none else some (start, n)
  | b :: rest, i, start, skip =>
    match b with
    | .W => if skip then iterLoop n end0 rest (i + 1) (end0 + i + 1) false   -- `start = end + i + 1` (fix F-C02)
            else some (start, end0 + i + 1)                                   -- `end += i + 1`
    | .U => iterLoop n end0 rest (i + 1) start true
    | .N => iterLoop n end0 rest (i + 1) start skip

/-- repeated `next()` from `token.end = e`; `fuel` bounds the number of calls -/
def iterFrom (bs : List B) : Nat → Nat → List (Nat × Nat)
  | 0, _ => []
  | fuel + 1, e =>
    if e ≤ bs.length then           -- `boundaries().get(start..)` is `Some`
      match iterLoop (bs.length + 1) e (bs.drop e) 0 e false with
      | some (s, e') => (s, e') :: iterFrom bs fuel e'
      | none => []
    else []

def iterTokens (bs : List B) : List (Nat × Nat) := iterFrom bs (bs.length + 2) 0

/-- specification: the maximal `W`-delimited segments of `[0, n)` with no `U` inside, in order -/
def specSeg : List B → Nat → Nat → Bool → List (Nat × Nat)
  | [], start, pos, dirty => if dirty then [] else [(start, pos + 1)]
  | .W :: r, start, pos, dirty => (if dirty then [] else [(start, pos + 1)]) ++ specSeg r (pos + 1) (pos + 1) false
  | .U :: r, start, pos, _ => specSeg r start (pos + 1) true
  | .N :: r, start, pos, dirty => specSeg r start (pos + 1) dirty

def specTokens (bs : List B) : List (Nat × Nat) := specSeg bs 0 0 false

/-- `text_substring(start, end)` (a checked `str` slice) -/
def Sentence.substring (s : Sentence) (st en : Nat) : Res (List Char) :=
  if st ≤ en ∧ en ≤ s.text.length then .ok ((s.text.drop st).take (en - st))
  else .panic "text_substring: slice index out of range"

/-- `Token::tags()` -/
def Sentence.tokenTags (s : Sentence) (en : Nat) : Res (List Tag) :=
  if en = 0 then .panic "Token::tags: end - 1 overflow"
  else if en * s.nTags ≤ s.tags.length then .ok ((s.tags.drop ((en - 1) * s.nTags)).take s.nTags)
  else .panic "Token::tags: slice index out of range"

/-! ## writers -/

def tokSpecial (c : Char) : Bool := c = ' ' || c = '\\' || c = '/'

def escTok : List Char → List Char
  | [] => []
  | c :: cs => if tokSpecial c then '\\' :: c :: escTok cs else c :: escTok cs

/-- `ts[..ts.iter().rposition(|x| x.is_some()).map_or(0, |x| x + 1)]` -/
def trimNone : List Tag → List Tag
  | [] => []
  | t :: ts =>
    match trimNone ts with
    | [] => if t.isSome then [t] else []
    | r => t :: r

def writeTagsWith (esc : List Char → List Char) : List Tag → List Char
  | [] => []
  | none :: ts => '/' :: writeTagsWith esc ts
  | some t :: ts => '/' :: esc t ++ writeTagsWith esc ts

def writeTokBody (s : Sentence) : List (Nat × Nat) → Bool → Res (List Char)
  | [], _ => .ok []
  | (st, en) :: r, first =>
    match s.substring st en with
    | .ok surf =>
      match s.tokenTags en with
      | .ok ts =>
        match writeTokBody s r false with
        | .ok rest => .ok ((if first then [] else [' ']) ++ escTok surf ++ writeTagsWith escTok (trimNone ts) ++ rest)
        | e => e
      | .err e => .err e
      | .panic p => .panic p
      | .ub p => .ub p
    | e => e

def Sentence.writeTokenized (s : Sentence) : Res (List Char) := writeTokBody s (iterTokens s.bounds) true

def partSpecial (c : Char) : Bool := c = ' ' || c = '-' || c = '|' || c = '/' || c = '\\'

/-- (fix F-C04) tags are written with every character the parser treats specially escaped -/
def escPart : List Char → List Char
  | [] => []
  | c :: cs => if partSpecial c then '\\' :: c :: escPart cs else c :: escPart cs

def B.partChar : B → Char
  | .N => '-' | .W => '|' | .U => ' '

/-- `tags.chunks_exact(n)` for `n ≠ 0` -/
def chunksExact (n : Nat) (xs : List Tag) : Nat → List (List Tag)
  | 0 => []
  | fuel + 1 => if n ≤ xs.length then xs.take n :: chunksExact n (xs.drop n) fuel else []
termination_by structural fuel => fuel

def chunks (n : Nat) (xs : List Tag) : List (List Tag) := chunksExact n xs xs.length

def writePartTagged : List Char → List (List Tag) → List B → List Char
  | c :: cs, ts :: tss, b :: bs =>
    b.partChar :: c :: writeTagsWith escPart (trimNone ts) ++ writePartTagged cs tss bs
  | _, _, _ => []

def writePartPlain : List Char → List B → List Char
  | c :: cs, b :: bs => b.partChar :: c :: writePartPlain cs bs
  | _, _ => []

def Sentence.writePartial (s : Sentence) : Res (List Char) :=
  match s.text with
  | [] => .panic "write_partial_annotation_text: char_iter.next().unwrap()"
  | c :: cs =>
    if s.nTags ≠ 0 then
      match chunks s.nTags s.tags with
      | [] => .panic "write_partial_annotation_text: tag_iter.next().unwrap()"
      | ts :: tss => .ok (c :: writeTagsWith escPart (trimNone ts) ++ writePartTagged cs tss s.bounds)
    else .ok (c :: writePartPlain cs s.bounds)

/-! ## accessors -/

/-- `boundary_scores()` -/
def Sentence.boundaryScores (s : Sentence) : Res (List Int) :=
  if s.scores.isEmpty then .ok []
  else if s.padding + s.bounds.length ≤ s.scores.length then .ok ((s.scores.drop s.padding).take s.bounds.length)
  else .panic "boundary_scores: slice index out of range"

end V
