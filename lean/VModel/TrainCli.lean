import VModel.Cli
import VModel.Trainer
/-!
# VModel.TrainCli — the loading stage of the `train` command-line tool

`train/src/main.rs` reads the `--tok` files, then the `--part` files, then the `--dict` files line by line
(`BufRead::lines`), parses every line, and — unless `--no-norm` is given — replaces the sentence by a fresh one built
from the *normalised* raw text onto which boundaries, tag count and tags of the parsed sentence are copied
(`boundaries_mut().clone_from_slice`, `reset_tags(n_tags)`, `tags_mut().clone_from_slice`: each of the two copies panics
when the lengths differ).  The word dictionary handed to `Trainer::new` is the sorted set (`BTreeSet<String>`) of the
token surfaces of all dictionary lines; the dictionary sentences themselves are the tag dictionary.  Any line that the
parser rejects ends the tool with an error (`?`).

What the tool hands to the library (`Trainer::new(…, dictionary, dictn, &tag_dictionary)` and one
`Trainer::add_example` per training sentence, in input order) is what this file computes; hook H5 records the same
from the running tool.
-/
namespace V

/-- the normalise-and-copy step of `train` (identity under `--no-norm`) -/
def transferNorm (noNorm : Bool) (s : Sentence) : Res Sentence :=
  if noNorm then .ok s else
  bindR (Sentence.fromRaw (Gen.fullwidth s.text)) fun n0 =>
    if n0.bounds.length ≠ s.bounds.length then .panic "boundaries_mut().clone_from_slice: length mismatch"
    else
      let n1 := ({ n0 with bounds := s.bounds }).resetTags s.nTags
      if n1.tags.length ≠ s.tags.length then .panic "tags_mut().clone_from_slice: length mismatch"
      else .ok { n1 with tags := s.tags }

inductive CorpusKind
  | tok
  | part
deriving DecidableEq, Repr

def parseLine (k : CorpusKind) (line : List Char) : Res Sentence :=
  match k with
  | .tok => Sentence.fromTokenized line
  | .part => Sentence.fromPartial line

/-- one input line: parse, then normalise-and-copy -/
def loadLine (k : CorpusKind) (noNorm : Bool) (line : List Char) : Res Sentence :=
  bindR (parseLine k line) (transferNorm noNorm)

/-- all lines of all files of one option, in order; the first rejected line ends the run -/
def loadFiles (k : CorpusKind) (noNorm : Bool) (files : List (List Char)) : Res (List Sentence) :=
  mapRes (loadLine k noNorm) (files.flatMap splitLines)

/-- the surfaces of the tokens of a sentence (`iter_tokens().map(|t| t.surface())`) -/
def surfacesOf (s : Sentence) : Res (List (List Char)) :=
  mapRes (fun (p : Nat × Nat) => s.substring p.1 p.2) (iterTokens s.bounds)

/-- `BTreeSet<String>::insert` on a strictly sorted list (`String` order = code point order) -/
def insertWord (w : List Char) : List (List Char) → List (List Char)
  | [] => [w]
  | x :: r => if w = x then x :: r else if lexLt ltChar w x then w :: x :: r else x :: insertWord w r

structure TrainInputs where
  /-- `dictionary` argument of `Trainer::new` (sorted, without repetition) -/
  dictWords : List (List Char)
  /-- `tag_dictionary` argument of `Trainer::new` -/
  tagDict : List Sentence
  /-- the sentences given to `Trainer::add_example`, in order -/
  corpus : List Sentence

/-- the `--dict` loop: every line is parsed, normalised, its token surfaces go into the set, the sentence is kept -/
def loadDict (noNorm : Bool) (files : List (List Char)) : Res (List (Sentence × List (List Char))) :=
  mapRes (fun line => bindR (loadLine .tok noNorm line) fun s => bindR (surfacesOf s) fun ws => .ok (s, ws))
    (files.flatMap splitLines)

/-- what `train` hands to the library for the given file contents -/
def trainCliInputs (noNorm : Bool) (tok part dict : List (List Char)) : Res TrainInputs :=
  bindR (loadFiles .tok noNorm tok) fun ts =>
  bindR (loadFiles .part noNorm part) fun ps =>
  bindR (loadDict noNorm dict) fun ds =>
    .ok { dictWords := (ds.flatMap (·.2)).foldl (fun acc w => insertWord w acc) [], tagDict := ds.map (·.1), corpus := ts ++ ps }

end V
