import VModel.Scorer
/-!
# VModel.Spec — the pointwise linear model the predictor is specified by (C01, C06, C09, C19)

`specScore m text b` = bias +, for every occurrence in the text of every character n-gram, type n-gram and
dictionary word of the model, the weight that entry assigns to boundary `b`'s position relative to the
occurrence.  Pattern-indexed; duplicated entries simply contribute twice.
-/
namespace V
variable {α : Type} [DecidableEq α]

/-- end positions `e ∈ [1, n]` of the occurrences of `g` in `seq` (`g` is a suffix of `seq.take e`) -/
def occEnds (g seq : List α) : List Nat :=
  (List.range seq.length).filterMap fun k => if g.isSuffixOf (seq.take (k + 1)) then some (k + 1) else none

/-- an n-gram with window `W` ending at `e` gives boundary `b` the weight at index `b + 1 + W - e` -/
def ngramScore (W : Nat) (tbl : List (NgramData α)) (seq : List α) (b : Nat) : Int :=
  (tbl.map fun d => ((occEnds d.ngram seq).map fun (e : Nat) => getZ d.weights ((b : Int) + 1 + (W : Int) - (e : Int))).sum).sum

/-- a dictionary word of length `ℓ` ending at `e` gives boundary `b` the weight at index `b + 1 + ℓ - e` -/
def dictScore (tbl : List DictWord) (seq : List Char) (b : Nat) : Int :=
  (tbl.map fun d => ((occEnds d.word seq).map fun (e : Nat) => getZ d.weights ((b : Int) + 1 + (d.word.length : Int) - (e : Int))).sum).sum

def specScore (m : WModel) (text : List Char) (b : Nat) : Int :=
  m.bias + ngramScore m.charW m.charNgrams text b + ngramScore m.typeW m.typeNgrams (typesOf text) b
    + dictScore m.dict text b

def specScores (m : WModel) (text : List Char) : List Int :=
  (List.range (text.length - 1)).map (specScore m text)

def specBounds (m : WModel) (text : List Char) : List B :=
  (specScores m text).map fun x => if x > 0 then B.W else B.N

end V

namespace V
variable {α : Type} [DecidableEq α]

/-! ## tag specification (C06) -/

/-- number of trainable classes: total size of the categories with at least two candidates -/
def nClass (tags : List (List (List Char))) : Nat :=
  ((tags.filter (fun c => 2 ≤ c.length)).map List.length).sum

/-- weight that the tag n-grams give class `c` for a token whose last character has index `i`: every tag n-gram that
occurs ending `rel` characters after the token's last character contributes its class-`c` weight -/
def tagNgramScore (tbl : List (TagNgramData α)) (seq : List α) (i c : Nat) : Int :=
  (tbl.map fun d => (d.weights.map fun w =>
    if i + w.rel < seq.length ∧ d.ngram.isSuffixOf (seq.take (i + w.rel + 1)) then getZ w.weights (c : Int) else 0).sum).sum

def specTagScores (tm : TagModel) (text : List Char) (i : Nat) : List Int :=
  (List.range (nClass tm.tags)).map fun (c : Nat) =>
    getZ tm.bias (c : Int) + tagNgramScore tm.charNgrams text i c + tagNgramScore tm.typeNgrams (typesOf text) i c

/-- index of the first maximum of a non-empty list -/
def firstMax : List Int → Nat
  | [] => 0
  | x :: r => if r.all (fun y => y ≤ x) then 0 else firstMax r + 1

/-- the tags of a token given its class scores: per category the first best candidate, the only candidate, or none -/
def specPickTags : List (List (List Char)) → List Int → List Tag
  | [], _ => []
  | cands :: r, scores =>
    if 2 ≤ cands.length then
      some (cands.getD (firstMax (scores.take cands.length)) []) :: specPickTags r (scores.drop cands.length)
    else cands.head? :: specPickTags r scores

/-- the tag model of a surface (token surfaces are unique in a well-formed model) -/
def tagModelOf (m : WModel) (surface : List Char) : Option TagModel :=
  m.tagModels.reverse.find? (fun tm => tm.token = surface)

/-- `n_tags` of a predictor with tag prediction -/
def specNTags (m : WModel) : Nat := m.tagModels.foldl (fun acc tm => max acc tm.tags.length) 0

/-- the tag row of the token `[st, en)`: `specNTags` slots -/
def specTokenTags (m : WModel) (text : List Char) (st en : Nat) : List Tag :=
  match tagModelOf m ((text.drop st).take (en - st)) with
  | none => List.replicate (specNTags m) none
  | some tm =>
    let row := specPickTags tm.tags (specTagScores tm text (en - 1))
    row ++ List.replicate (specNTags m - row.length) none

end V
