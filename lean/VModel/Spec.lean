import VModel.Scorer
/-!
# VModel.Spec — the pointwise linear model the predictor is specified by (C01, C06, C09, C19)

`specScore m text b` = bias +, for every occurrence in the text of every character n-gram, type n-gram and
dictionary word of the model, the weight that entry assigns to boundary `b`'s position relative to the
occurrence.  Pattern-indexed; duplicated entries simply contribute twice.
-/
namespace V
variable {α : Type} [DecidableEq α]

/-- end positions `e ∈ [1, n]` of the occurrences of `g` in `seq` (`g` is a suffix of `seq.take e`) -/
def occEnds (g seq : List α) : List Nat :=
  (List.range seq.length).filterMap fun k => if g.isSuffixOf (seq.take (k + 1)) then some (k + 1) else none

/-- an n-gram with window `W` ending at `e` gives boundary `b` the weight at index `b + 1 + W - e` -/
def ngramScore (W : Nat) (tbl : List (NgramData α)) (seq : List α) (b : Nat) : Int :=
  (tbl.map fun d => ((occEnds d.ngram seq).map fun (e : Nat) => getZ d.weights ((b : Int) + 1 + (W : Int) - (e : Int))).sum).sum

/-- a dictionary word of length `ℓ` ending at `e` gives boundary `b` the weight at index `b + 1 + ℓ - e` -/
def dictScore (tbl : List DictWord) (seq : List Char) (b : Nat) : Int :=
  (tbl.map fun d => ((occEnds d.word seq).map fun (e : Nat) => getZ d.weights ((b : Int) + 1 + (d.word.length : Int) - (e : Int))).sum).sum

def specScore (m : WModel) (text : List Char) (b : Nat) : Int :=
  m.bias + ngramScore m.charW m.charNgrams text b + ngramScore m.typeW m.typeNgrams (typesOf text) b
    + dictScore m.dict text b

def specScores (m : WModel) (text : List Char) : List Int :=
  (List.range (text.length - 1)).map (specScore m text)

def specBounds (m : WModel) (text : List Char) : List B :=
  (specScores m text).map fun x => if x > 0 then B.W else B.N

end V
