/-!
# VModel.Basic — shared vocabulary of the vaporetto model

Core Lean only (no Mathlib, no Batteries), so that `vdriver` links as a `lean_exe`.

* `Res α` — outcome of a modelled Rust function: `ok`, `err` (a returned `Err(VaporettoError)`),
  `panic` (where the real code panics) and `ub` (where an `unsafe` precondition would be violated).
* `B` — `CharacterBoundary`.
* hex / decimal helpers for the line protocol.
-/
namespace V

/-- kinds of `VaporettoError` / decode errors, as canonicalised by the harness -/
inductive Err
  | invalidArgument | invalidModel | decode | encode | io | utf8 | fuel
deriving DecidableEq, Repr, Inhabited

def Err.toString : Err → String
  | .invalidArgument => "invalid_argument"
  | .invalidModel => "invalid_model"
  | .decode => "decode"
  | .encode => "encode"
  | .io => "io"
  | .utf8 => "utf8"
  | .fuel => "fuel"

inductive Res (α : Type)
  | ok (a : α)
  | err (e : Err)
  | panic (site : String)
  | ub (site : String)
deriving DecidableEq, Repr, Inhabited

namespace Res
def bind {α β : Type} (r : Res α) (f : α → Res β) : Res β :=
  match r with
  | ok a => f a
  | err e => err e
  | panic s => panic s
  | ub s => ub s

def map {α β : Type} (f : α → β) (r : Res α) : Res β :=
  match r with
  | ok a => ok (f a)
  | err e => err e
  | panic s => panic s
  | ub s => ub s

instance : Monad Res where
  pure := ok
  bind := bind

/-- the outcome is a value or a returned error: the code neither panicked nor left its contract -/
def Safe {α : Type} : Res α → Prop
  | ok _ => True
  | err _ => True
  | panic _ => False
  | ub _ => False

def isOk {α : Type} : Res α → Bool
  | ok _ => true
  | _ => false

instance {α : Type} (r : Res α) : Decidable r.Safe := by
  cases r <;> simp only [Safe] <;> infer_instance

@[simp] theorem bind_ok {α β : Type} (a : α) (f : α → Res β) : (ok a).bind f = f a := rfl
@[simp] theorem bind_err {α β : Type} (e : Err) (f : α → Res β) : (err e : Res α).bind f = err e := rfl
@[simp] theorem bind_panic {α β : Type} (s : String) (f : α → Res β) : (panic s : Res α).bind f = panic s := rfl
@[simp] theorem bind_ub {α β : Type} (s : String) (f : α → Res β) : (ub s : Res α).bind f = ub s := rfl
@[simp] theorem pure_eq {α : Type} (a : α) : (pure a : Res α) = ok a := rfl
@[simp] theorem bind_eq {α β : Type} (r : Res α) (f : α → Res β) : (r >>= f) = r.bind f := rfl
end Res

/-- `CharacterBoundary` -/
inductive B
  | N  -- NotWordBoundary = 0
  | W  -- WordBoundary = 1
  | U  -- Unknown = 2
deriving DecidableEq, Repr, Inhabited

def B.toChar : B → Char
  | .N => 'N' | .W => 'W' | .U => 'U'

def B.ofChar? : Char → Option B
  | 'N' => some .N | 'W' => some .W | 'U' => some .U | _ => none

/-! ## line-protocol helpers (not part of any theorem) -/

def hexDigit (n : Nat) : Char :=
  if n < 10 then Char.ofNat (48 + n) else Char.ofNat (87 + n)

def hexVal? (c : Char) : Option Nat :=
  if '0' ≤ c ∧ c ≤ '9' then some (c.toNat - 48)
  else if 'a' ≤ c ∧ c ≤ 'f' then some (c.toNat - 87)
  else if 'A' ≤ c ∧ c ≤ 'F' then some (c.toNat - 55)
  else none

def bytesToHex (bs : List UInt8) : String :=
  String.ofList (bs.flatMap fun b => [hexDigit (b.toNat / 16), hexDigit (b.toNat % 16)])

def hexToBytes? : List Char → Option (List UInt8)
  | [] => some []
  | [_] => none
  | a :: b :: r => do
    let x ← hexVal? a
    let y ← hexVal? b
    let rest ← hexToBytes? r
    pure (UInt8.ofNat (x * 16 + y) :: rest)

/-- text fields travel as hex of their UTF-8 bytes; `-` is the empty string -/
def strToHex (cs : List Char) : String :=
  if cs.isEmpty then "-" else bytesToHex (String.ofList cs).toUTF8.toList

def hexToStr? (s : String) : Option (List Char) :=
  if s = "-" then some [] else
  match hexToBytes? s.toList with
  | none => none
  | some bs =>
    let ba : ByteArray := ⟨bs.toArray⟩
    match String.fromUTF8? ba with
    | some str => some str.toList
    | none => none

def joinWith (sep : String) (xs : List String) : String := sep.intercalate xs

end V
