import VModel.History
import VModel.Tantivy
/-!
# VModel.Cli — the `predict` and `evaluate` command-line tools as functions from stdin to stdout

`BufRead::lines` splits at `\n` and strips one trailing `\r`; a final line without `\n` is still a line.
The reused sentence objects `s` and `s_orig` of `predict`'s main loop are kept, as in the Rust code.
Floats are not modelled: `evaluate` is modelled up to its integer counts.
-/
namespace V

/-- `BufRead::lines()` on valid UTF-8 input -/
def splitLines : List Char → List (List Char)
  | [] => []
  | cs =>
    let rec go : List Char → List Char → List (List Char)
      | [], cur => if cur.isEmpty then [] else [cur.reverse]
      | c :: r, cur => if c = '\n' then cur.reverse :: go r [] else go r (c :: cur)
    (go cs []).map fun l => if l.getLast? = some '\r' then l.dropLast else l

structure PredictFlags where
  noNorm : Bool
  predictTags : Bool
  scores : Bool
  tagScores : Bool
  wsconst : List Char
deriving Repr

def intToStr (i : Int) : List Char := (toString i).toList

/-- `print_scores`: one line `i:<prev><c> <score>` per boundary, then an empty line -/
def printScores (s : Sentence) : Res (List Char) :=
  match s.text with
  | [] => .panic "print_scores: chars_iter.next().unwrap()"
  | c0 :: rest =>
    match s.boundaryScores with
    | .ok sc =>
      let rec go : List Char → List Int → Char → Nat → List Char
        | c :: cs, x :: xs, prev, i =>
          (toString i).toList ++ [':', prev, c, ' '] ++ intToStr x ++ ['\n'] ++ go cs xs c (i + 1)
        | _, _, _, _ => []
      .ok (go rest sc c0 0 ++ ['\n'])
    | .err e => .err e
    | .panic p => .panic p
    | .ub p => .ub p

/-- `print_tag_scores`: per token `surface {TAB cand:score,…}`, then an empty line -/
def printTagScores (s : Sentence) : Res (List Char) :=
  let rec go : List (Nat × Nat) → Res (List Char)
    | [] => .ok []
    | (st, en) :: r =>
      match s.substring st en, s.tagCandidates en, go r with
      | .ok surf, .ok cands, .ok rest =>
        let cols := cands.flatMap fun inner =>
          '\t' :: ((inner.zipIdx).flatMap fun ((t, x), i) => (if i = 0 then [] else [',']) ++ t ++ [':'] ++ intToStr x)
        .ok (surf ++ cols ++ ['\n'] ++ rest)
      | .panic p, _, _ => .panic p
      | _, .panic p, _ => .panic p
      | _, _, .panic p => .panic p
      | _, _, _ => .panic "?"
  match go (iterTokens s.bounds) with
  | .ok t => .ok (t ++ ['\n'])
  | e => e

/-- the post filters of the tools: `--wsconst` letters in order (`predict` and `evaluate` do not add the line-break filter) -/
def applyWsconst (filters : List PostFilter) (s : Sentence) : Res Sentence := applyPostFilters filters s

structure PredictState where
  s : Sentence := Sentence.default
  sOrig : Sentence := Sentence.default
  out : List Char := []

def bindR {α β : Type} (r : Res α) (f : α → Res β) : Res β := r.bind f

/-- one iteration of `predict`'s loop (after the fixes F-C20a/b: the score blocks follow the line's newline in both modes,
and the tag-score block is written only for an accepted line when tags are predicted) -/
def predictLine (fl : PredictFlags) (p : Predictor) (filters : List PostFilter) (st : PredictState) (line : List Char) :
    Res PredictState :=
  let input := if fl.noNorm then line else Gen.fullwidth line
  bindR (st.s.updateRaw input) fun (s0, ok) =>
    if !ok then .ok { st with s := s0, out := st.out ++ ['\n'] }
    else
      bindR (p.predict 0 s0) fun s1 =>
      bindR (applyWsconst filters s1) fun s2 =>
      bindR (if fl.predictTags then p.predictTags s2 else .ok s2) fun s3 =>
      bindR (if fl.noNorm then .ok (s3, st.sOrig) else
          bindR (st.sOrig.updateRaw line) fun (o0, ok2) =>
            if !ok2 then .err .invalidArgument else
            let o1 := o0.resetTags s3.nTags
            if o1.bounds.length ≠ s3.bounds.length then .panic "boundaries_mut().copy_from_slice: length mismatch"
            else if o1.tags.length ≠ s3.tags.length then .panic "tags_mut().clone_from_slice: length mismatch"
            else .ok (s3, { o1 with bounds := s3.bounds, tags := s3.tags })) fun (s4, orig) =>
      bindR (if fl.noNorm then s4.writeTokenized else orig.writeTokenized) fun w =>
      bindR (if fl.scores then printScores s4 else .ok []) fun sc =>
      bindR (if fl.tagScores && fl.predictTags then printTagScores s4 else .ok []) fun ts =>
      .ok { s := s4, sOrig := orig, out := st.out ++ w ++ ['\n'] ++ sc ++ ts }

/-- `predict`: stdout for a given stdin (`clusters`: grapheme cluster lengths of each input line as the `G` filter sees it) -/
def predictCli (cfg : Cfg) (fl : PredictFlags) (m : WModel) (stdin : List Char) (clusters : List (List Nat)) : Res (List Char) :=
  bindR (Predictor.new cfg m fl.predictTags) fun p0 =>
    let p := { p0 with storeTagScores := fl.tagScores }
    let rec go : List (List Char) → List (List Nat) → PredictState → Res PredictState
      | [], _, st => .ok st
      | l :: ls, cl, st =>
        bindR (buildPostFilters fl.wsconst (cl.headD [])) fun filters =>
        bindR (predictLine fl p filters st l) fun st' => go ls cl.tail st'
    (go (splitLines stdin) clusters {}).map (·.out)

/-! ## evaluate -/

structure EvalFlags where
  noNorm : Bool
  predictTags : Bool
  wordMetric : Bool
  wsconst : List Char
deriving Repr

/-- per-character tag rows `tags[i * n_tags .. (i+1) * n_tags]` for `i` in `0..=boundaries.len()` -/
def tagRows (s : Sentence) : Res (List (List Tag)) :=
  if s.tags.length < (s.bounds.length + 1) * s.nTags then .panic "s.tags()[i * n_tags..(i + 1) * n_tags]"
  else .ok ((List.range (s.bounds.length + 1)).map fun i => (s.tags.drop (i * s.nTags)).take s.nTags)

structure EvalLine where
  refB : List B
  refT : List (List Tag)
  sysB : List B
  sysT : List (List Tag)

/-- one input line of `evaluate` (after fix S-C20: the sentence handed to the predictor never carries the reference tags) -/
def evalLine (fl : EvalFlags) (p : Predictor) (filters : List PostFilter) (line : List Char) : Res EvalLine :=
  bindR (Sentence.fromTokenized line) fun r =>
  bindR (tagRows r) fun refT =>
  bindR (Sentence.fromRaw (if fl.noNorm then r.text else Gen.fullwidth r.text)) fun s0 =>
  bindR (p.predict 0 s0) fun s1 =>
  bindR (applyWsconst filters s1) fun s2 =>
  bindR (if fl.predictTags then p.predictTags s2 else .ok s2) fun s3 =>
  bindR (tagRows s3) fun sysT => .ok ⟨r.bounds, refT, s3.bounds, sysT⟩

/-- character metric: (TP, TN, FP, FN) -/
def charCounts (ls : List EvalLine) : Nat × Nat × Nat × Nat :=
  ls.foldl (fun acc l =>
    (l.refB.zip l.sysB).foldl (fun (tp, tn, fp, fn) (r, h) =>
      if r = h then (if h = B.W then (tp + 1, tn, fp, fn) else (tp, tn + 1, fp, fn))
      else if h = B.W then (tp, tn, fp + 1, fn) else (tp, tn, fp, fn + 1)) acc) (0, 0, 0, 0)

/-- word metric: (n_cor, n_sys, n_ref) -/
def wordCounts (ls : List EvalLine) : Nat × Nat × Nat :=
  ls.foldl (fun (cor, sys, ref) l =>
    let step := fun (st : Nat × Nat × Nat × Bool) (x : ((B × List Tag) × B) × List Tag) =>
      let (cor, sys, ref, matched) := st
      let (((rb, rt), sb), stg) := x
      if rb = sb then
        if sb = B.W then ((if matched && rt = stg then cor + 1 else cor), sys + 1, ref + 1, true)
        else (cor, sys, ref, matched)
      else
        if sb = B.W then (cor, sys + 1, ref, false) else (cor, sys, ref + 1, false)
    let (cor', sys', ref', matched) := (((l.refB.zip l.refT).zip l.sysB).zip l.sysT).foldl step (cor, sys, ref, true)
    let lastEq := l.refT.getLast? = l.sysT.getLast?
    ((if matched && lastEq then cor' + 1 else cor'), sys' + 1, ref' + 1)) (0, 0, 0)

/-- `evaluate` up to its integer counts; empty lines are skipped -/
def evaluateCli (cfg : Cfg) (fl : EvalFlags) (m : WModel) (stdin : List Char) (clusters : List (List Nat)) :
    Res (List EvalLine) :=
  bindR (Predictor.new cfg m fl.predictTags) fun p =>
    let rec go : List (List Char) → List (List Nat) → Res (List EvalLine)
      | [], _ => .ok []
      | l :: ls, cl =>
        if l.isEmpty then go ls cl.tail else
        bindR (buildPostFilters fl.wsconst (cl.headD [])) fun filters =>
        bindR (evalLine fl p filters l) fun e => (go ls cl.tail).map (e :: ·)
    go (splitLines stdin) clusters

end V
