import VModel.Scorer
import VModel.Filters
/-!
# VModel.History — operations on one `Sentence` object as a datatype (C08, C18)

`HOp.apply env s op` is one public-API call on the sentence `s`, with `env` the predictors that exist.
The `Bool` of the result is the `Ok`/`Err` outcome of an update (`true` for every other operation).
-/
namespace V

inductive HOp
  | updateRaw (x : List Char)
  | updateTokenized (x : List Char)
  | updatePartial (x : List Char)
  | predict (k : Nat)
  | fillTags
  | resetTags (k : Nat)
  | setBoundary (i : Nat) (b : B)
  | setTag (i : Nat) (t : Tag)
  | filterWs (t : Nat)
  | filterLb
  | filterGc (clusters : List Nat)
  | filterTag (rules : TagRules)
deriving Repr

def HOp.apply (env : List Predictor) (s : Sentence) : HOp → Res (Sentence × Bool)
  | .updateRaw x => s.updateRaw x
  | .updateTokenized x => s.updateTokenized x
  | .updatePartial x => s.updatePartial x
  | .predict k =>
    match env[k]? with
    | some p => (p.predict k s).map (·, true)
    | none => .panic "caller: no such predictor"
  | .fillTags => (s.fillTags (fun k => env[k]?)).map (·, true)
  | .resetTags k => .ok (s.resetTags k, true)
  | .setBoundary i b => (s.setBoundary i b).map (·, true)
  | .setTag i t => (s.setTag i t).map (·, true)
  | .filterWs t => (filterWsConst t s).map (·, true)
  | .filterLb => (filterLinebreaks s).map (·, true)
  | .filterGc ls => (filterGraphemes ls s).map (·, true)
  | .filterTag rules => (filterTagger rules s).map (·, true)

/-- a history of calls; stops at the first call that does not return -/
def runHistory (env : List Predictor) (s : Sentence) : List HOp → Res Sentence
  | [] => .ok s
  | op :: ops =>
    match op.apply env s with
    | .ok (s', _) => runHistory env s' ops
    | .err e => .err e
    | .panic p => .panic p
    | .ub p => .ub p

/-- the probe of C08: `update_raw(x); predict with predictor k; [fill_tags]` -/
def probe (env : List Predictor) (s : Sentence) (x : List Char) (k : Nat) (fill : Bool) : Res Sentence :=
  runHistory env s ([.updateRaw x, .predict k] ++ (if fill then [.fillTags] else []))

/-- the same on a freshly constructed sentence -/
def probeFresh (env : List Predictor) (x : List Char) (k : Nat) (fill : Bool) : Res Sentence :=
  match Sentence.fromRaw x with
  | .ok s => runHistory env s ([.predict k] ++ (if fill then [.fillTags] else []))
  | .err e => .err e
  | .panic p => .panic p
  | .ub p => .ub p

end V
