import VModel.Basic
/-!
# VModel.Quantize — the `f64` quantisation of `Trainer::train` / `TagTrainer::train`, exactly

```
let mut weight_max = bias.abs();
for every feature: weight_max = weight_max.max(coef.abs());
let quantize_multiplier = weight_max / f64::from((1 << 15) - 1);
if quantize_multiplier == 0. { return Err(..) }
let bias   = unsafe { (bias / quantize_multiplier).to_int_unchecked::<i32>() };
let weight = unsafe { (raw_weight / quantize_multiplier).to_int_unchecked::<i32>() };
```

IEEE-754 binary64 with integer arithmetic only (core Lean, no `Float`, nothing `partial`): every finite double is an integer
multiple of `2^-1074` (the least subnormal), so a finite value is a sign and a natural number of *units* `2^-1074`;
`1.0` is `2^1074` units and the first non-finite magnitude `2^1024` is `2^2098` units.  A number of units `a` is a double iff
`a < 2^2098` and `a` has at most 53 significant bits (`F64.IsDouble`); subnormals are the values below `2^52` units, where the
grid is the integers — gradual underflow needs no special case.

Division is the correctly rounded quotient (round to nearest, ties to even, overflow to ∞); `to_int_unchecked::<i32>` is
truncation toward zero with `Res.ub` where Rust declares undefined behaviour (NaN, ±∞, truncation outside `i32`).
-/
namespace V

/-- an IEEE-754 binary64 value: NaN, ±∞ or ±`a`·2^-1074 -/
inductive F64
  | nan
  | inf (neg : Bool)
  | fin (neg : Bool) (a : Nat)
deriving DecidableEq, Repr, Inhabited

namespace F64

/-- units (`2^-1074`) in `1.0` -/
def unit : Nat := 2 ^ 1074

/-- units in `2^1024`, the first magnitude that is no longer finite -/
def top : Nat := 2 ^ 2098

/-- a finite value of the binary64 range (sign and magnitude below `2^1024`) -/
def Finite : F64 → Prop
  | fin _ a => a < top
  | _ => False

instance (x : F64) : Decidable x.Finite := by
  cases x <;> simp only [Finite] <;> infer_instance

/-- magnitude in units (`0` for NaN/∞) -/
def mag : F64 → Nat
  | fin _ a => a
  | _ => 0

/-- sign bit (`false` for NaN) -/
def sign : F64 → Bool
  | fin s _ => s
  | inf s => s
  | nan => false

/-- `a` units are exactly representable: at most 53 significant bits -/
def repUnits (a : Nat) : Bool := a % 2 ^ (a.log2 - 52) == 0

/-- the value is one of the 2^64 − 2^53 + 2 … bit patterns' values: NaN, ±∞, or a finite double -/
def IsDouble : F64 → Prop
  | fin _ a => a < top ∧ repUnits a = true
  | _ => True

instance (x : F64) : Decidable x.IsDouble := by
  cases x <;> simp only [IsDouble] <;> infer_instance

/-- decode a 64-bit pattern: sign (bit 63), biased exponent (bits 52–62), fraction (bits 0–51);
exponent 0 = subnormal / zero, exponent 2047 = ∞ (fraction 0) or NaN -/
def ofBits (b : Nat) : F64 :=
  let s : Bool := b / 2 ^ 63 % 2 == 1
  let e := b / 2 ^ 52 % 2 ^ 11
  let f := b % 2 ^ 52
  if e = 2047 then (if f = 0 then inf s else nan)
  else if e = 0 then fin s f
  else fin s ((2 ^ 52 + f) * 2 ^ (e - 1))

/-- encode (NaN as the canonical quiet NaN `0x7FF8000000000000`); meaningful on `IsDouble` values -/
def toBits : F64 → Nat
  | nan => 0x7FF8000000000000
  | inf s => (if s then 2 ^ 63 else 0) + 2047 * 2 ^ 52
  | fin s a =>
    (if s then 2 ^ 63 else 0) +
      (if a < 2 ^ 52 then a
       else
         let sh := a.log2 - 52
         (sh + 1) * 2 ^ 52 + (a / 2 ^ sh - 2 ^ 52))

end F64

open F64

/-- `n / d` rounded to the nearest integer, ties to even (`0 < d`) -/
def rneDiv (n d : Nat) : Nat :=
  let q := n / d
  let r := n % d
  if 2 * r < d then q else if d < 2 * r then q + 1 else if q % 2 = 0 then q else q + 1

/-- the positive rational `n / d` (in units) rounded to 53 significant bits, to nearest, ties to even, exponent unbounded
above: below `2^53` units the grid is the integers (this covers the subnormals and the first binade of normals), from there on
the grid step is `2^s` with `s = ⌊log2 (n/d)⌋ − 52` -/
def roundUnits (n d : Nat) : Nat :=
  let s := (n / d).log2 - 52
  rneDiv n (d * 2 ^ s) * 2 ^ s

/-- IEEE-754 division, correctly rounded (round to nearest, ties to even; gradual underflow; overflow to ±∞;
`x/0 = ±∞` for `x ≠ 0`, `0/0 = ∞/∞ = NaN`; the sign is the exclusive or of the signs) -/
def f64Div : F64 → F64 → F64
  | .nan, _ => .nan
  | .inf _, .nan => .nan
  | .inf _, .inf _ => .nan
  | .inf s, .fin t _ => .inf (s != t)
  | .fin _ _, .nan => .nan
  | .fin s _, .inf t => .fin (s != t) 0
  | .fin s a, .fin t b =>
    if b = 0 then (if a = 0 then .nan else .inf (s != t))
    else
      let r := roundUnits (a * unit) b
      if r < top then .fin (s != t) r else .inf (s != t)

/-- `f64::abs` -/
def f64Abs : F64 → F64
  | .nan => .nan
  | .inf _ => .inf false
  | .fin _ a => .fin false a

/-- signed number of units of a finite value -/
def F64.sval (s : Bool) (a : Nat) : Int := if s then -(a : Int) else (a : Int)

/-- IEEE `<=` (false when an operand is NaN; `-0 <= +0` and `+0 <= -0`) -/
def f64Le : F64 → F64 → Bool
  | .nan, _ => false
  | _, .nan => false
  | .inf s, .inf t => s || !t
  | .inf s, .fin _ _ => s
  | .fin _ _, .inf t => !t
  | .fin s a, .fin t b => decide (F64.sval s a ≤ F64.sval t b)

/-- `f64::max`: a NaN operand is ignored (used on absolute values only, where equal values have equal representations) -/
def f64Max : F64 → F64 → F64
  | .nan, y => y
  | x, .nan => x
  | x, y => if f64Le x y then y else x

/-- `x == 0.` -/
def f64IsZero : F64 → Bool
  | .fin _ 0 => true
  | _ => false

/-- `to_int_unchecked::<i32>`: truncation toward zero; undefined behaviour for NaN, ±∞ and values whose truncation is
outside `i32` -/
def f64ToI32Trunc : F64 → Res Int
  | .fin s a =>
    let t := a / unit
    if s then (if t ≤ 2 ^ 31 then .ok (-(t : Int)) else .ub "to_int_unchecked")
    else (if t < 2 ^ 31 then .ok (t : Int) else .ub "to_int_unchecked")
  | _ => .ub "to_int_unchecked"

/-- `32767.0 = f64::from((1 << 15) - 1)` -/
def f64Q15 : F64 := .fin false (32767 * unit)

/-- `weight_max / 32767.0` -/
def quantMultiplier (weightMax : F64) : F64 := f64Div weightMax f64Q15

/-- `(raw / quantize_multiplier).to_int_unchecked::<i32>()` -/
def quantise (raw mult : F64) : Res Int := f64ToI32Trunc (f64Div raw mult)

/-- `weight_max` of `Trainer::train` -/
def weightMax (bias : F64) (coefs : List F64) : F64 :=
  coefs.foldl (fun m c => f64Max m (f64Abs c)) (f64Abs bias)

/-- the loop over the features, in order (the first undefined behaviour is the outcome) -/
def quantiseList (mult : F64) : List F64 → Res (List Int)
  | [] => .ok []
  | c :: cs => (quantise c mult).bind fun w => (quantiseList mult cs).map (w :: ·)

/-- the quantisation of `Trainer::train`: `Err(invalid_model "all weights are zero")` when the multiplier compares equal to 0 -/
def quantiseAll (bias : F64) (coefs : List F64) : Res (Int × List Int) :=
  let mult := quantMultiplier (weightMax bias coefs)
  if f64IsZero mult then .err .invalidModel
  else (quantise bias mult).bind fun b => (quantiseList mult coefs).map fun ws => (b, ws)

/-- `1e-6f64` (`0x3EB0C6F7A0B5ED8D`), the initial `weight_max` of `TagTrainer::train` -/
def f64TagFloor : F64 := F64.ofBits 0x3EB0C6F7A0B5ED8D

/-- the quantisation of one token's classifier in `TagTrainer::train`: `coefs` are the biases and coefficients of all classes;
`weight_max` starts from `1e-6` and there is no zero test -/
def quantiseTagAll (coefs : List F64) : Res (List Int) :=
  quantiseList (quantMultiplier (coefs.foldl (fun m c => f64Max m (f64Abs c)) f64TagFloor)) coefs

/-! ## line-protocol helper -/

/-- exactly 16 hex digits → the 64-bit pattern -/
def hex64? (s : String) : Option Nat :=
  let cs := s.toList
  if cs.length ≠ 16 then none
  else cs.foldlM (fun acc c => (hexVal? c).map fun v => acc * 16 + v) 0

end V
