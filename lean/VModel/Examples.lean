import VModel.Cli
import VModel.PredictorSer
/-!
# VModel.Examples — the two example programs of the repository that the properties are anchored in

* `examples/wasm/src/lib.rs` (C16): `VaporettoWorker::received` — the browser demo's worker.  It is the pipeline of the
  `predict` tool with `--predict-tags --wsconst GD` on two reused sentence objects, except that an empty message is answered
  before anything is touched and a rejected text (`update_raw(..).unwrap()`) is a panic.
* `examples/embedded_device/build.rs` + `src/main.rs` (C14): the build script turns a model into a predictor without tag
  prediction under the feature set `alloc` (no fixed-length vectors, no type-score cache) and serialises it; the device
  deserialises the bytes and tokenises with the digit filter.

Both are tied to the source text: the harness `harness-examples` compiles the `impl Worker for VaporettoWorker` block and the
build script *verbatim* (extracted / included from /repo on every run) against small stand-ins for the crates that are not
available offline (gloo-worker, ouroboros), and its answers are compared with these functions.
-/
namespace V

/-! ## wasm worker -/

/-- the two sentence objects the worker keeps between messages -/
structure WasmWorker where
  sFiltered : Sentence := Sentence.default
  sOrig : Sentence := Sentence.default

/-- a token as sent to the page: surface and tags (`None` becomes the empty string) -/
abbrev WasmToken := List Char × List (List Char)

/-- `sentence_orig.iter_tokens().map(|token| Token { surface, tags })` -/
def wasmTokens (s : Sentence) : Res (List WasmToken) :=
  let rec go : List (Nat × Nat) → Res (List WasmToken)
    | [] => .ok []
    | (st, en) :: r =>
      match s.substring st en, s.tokenTags en, go r with
      | .ok surf, .ok tags, .ok rest => .ok ((surf, tags.map fun t => t.getD []) :: rest)
      | .panic p, _, _ => .panic p
      | _, .panic p, _ => .panic p
      | _, _, .panic p => .panic p
      | _, _, _ => .panic "?"
  go (iterTokens s.bounds)

/-- `boundaries_mut().copy_from_slice(..)`, `reset_tags(n_tags)`, `tags_mut().clone_from_slice(..)` from the filtered
sentence onto the original one (both copies are length-checked by the standard library) -/
def wasmCopy (o0 s : Sentence) : Res Sentence :=
  if o0.bounds.length ≠ s.bounds.length then .panic "boundaries_mut().copy_from_slice: length mismatch"
  else
    let o1 := ({ o0 with bounds := s.bounds } : Sentence).resetTags s.nTags
    if o1.tags.length ≠ s.tags.length then .panic "tags_mut().clone_from_slice: length mismatch"
    else .ok { o1 with tags := s.tags }

/-- `VaporettoWorker::received`: the answer `(tokens, n_tags)` to one message and the worker afterwards.
`clusters`: grapheme cluster lengths of the normalised message (input of the `G` filter). -/
def wasmReceived (p : Predictor) (clusters : List Nat) (w : WasmWorker) (msg : List Char) :
    Res (WasmWorker × List WasmToken × Nat) :=
  let filtered := Gen.fullwidth msg
  if msg.isEmpty then .ok (w, [], 0) else
  bindR (w.sFiltered.updateRaw filtered) fun (s0, ok) =>
    if !ok then .panic "sentence_filtered.update_raw(filtered_text).unwrap()" else
    bindR (p.predict 0 s0) fun s1 =>
    bindR (filterGraphemes clusters s1) fun s2 =>
    bindR (filterWsConst 1 s2) fun s3 =>
    bindR (p.predictTags s3) fun s4 =>
    bindR (w.sOrig.updateRaw msg) fun (o0, ok2) =>
      if !ok2 then .panic "sentence_orig.update_raw(msg).unwrap()" else
      bindR (wasmCopy o0 s4) fun o2 =>
      bindR (wasmTokens o2) fun toks =>
      .ok ({ sFiltered := s4, sOrig := o2 }, toks, o2.nTags)

/-- a session: the messages one worker receives in order (`clusters[i]` belongs to message `i`); the run stops at a panic,
as the worker does -/
def wasmSession (p : Predictor) : WasmWorker → List (List Char) → List (List Nat) → List (Res (List WasmToken × Nat))
  | _, [], _ => []
  | w, m :: ms, cl =>
    match wasmReceived p (cl.headD []) w m with
    | .ok (w', out) => .ok out :: wasmSession p w' ms cl.tail
    | .err e => [.err e]
    | .panic q => [.panic q]
    | .ub q => [.ub q]

/-- the worker's configuration: the features the example is compiled with, tag prediction on -/
def wasmCfg : Cfg := { fixed := true, cache := true, tagPred := true }

def wasmCreate (m : WModel) : Res Predictor := Predictor.new wasmCfg m true

/-! ## embedded device -/

/-- the feature set of the build script and of the device: `alloc` only -/
def embeddedCfg : Cfg := { fixed := false, cache := false, tagPred := false }

/-- `build.rs`: `Predictor::new(model, false)`, then `serialize_to_vec` (value level: what deserialisation gives back) -/
def embeddedBuild (m : WModel) : Res Predictor :=
  (Predictor.new embeddedCfg m false).map fun p => p.reser embeddedCfg

/-- the loop body of `main.rs`: `from_raw(text).unwrap()`, predict, digit filter, `write_tokenized_text` -/
def embeddedTokenize (p : Predictor) (text : List Char) : Res (List Char) :=
  match Sentence.fromRaw text with
  | .err _ => .panic "Sentence::from_raw(text).unwrap()"
  | .panic q => .panic q
  | .ub q => .ub q
  | .ok s =>
    bindR (p.predict 0 s) fun s1 =>
    bindR (filterWsConst 1 s1) fun s2 =>
    s2.writeTokenized

def embeddedDevice (m : WModel) (text : List Char) : Res (List Char) :=
  bindR (embeddedBuild m) fun p => embeddedTokenize p text

end V
