import VModel.Scorer
/-!
# VModel.Trainer — model of `trainer.rs` and `tag_trainer.rs`

The learner (liblinear) is a parameter: training is modelled from the point where every feature has a quantised weight
(`trace`, what hook H1/H3 exposes) — *all* functions from features to integers are admitted, so nothing about the solver
is assumed except that it returns.  Modelled: feature extraction (`gen_features`, tag features), example collection,
and the assembly of the `Model` from the quantised weights.
-/
namespace V

inductive DPos | left | inside | right
deriving DecidableEq, Repr

inductive Feature
  | charNgram (g : List Char) (rel : Int)
  | typeNgram (g : List Nat) (rel : Int)
  | dictWord (len : Nat) (pos : DPos)
deriving DecidableEq, Repr

structure TrainCfg where
  charW : Nat
  charN : Nat
  typeW : Nat
  typeN : Nat
  dictWords : List (List Char)
  dictMaxLen : Nat
deriving Repr

variable {α : Type} [DecidableEq α]

/-- the n-gram part of `gen_features` for boundary `i`: for `n` in `0..N`, every n-gram `[j, j+n+1)` with
`j ≥ (i+1).saturating_sub(W)` and `j + n + 1 ≤ min(len, i + 1 + W)`; `rel = j − i − 1` -/
def ngramFeats (W N : Nat) (seq : List α) (i : Nat) : List (List α × Int) :=
  (List.range N).flatMap fun n =>
    let lo := (i + 1) - W
    let hi := (min (i + 1 + W) seq.length) - n
    (List.range' lo (hi - lo)).map fun j => ((seq.drop j).take (n + 1), (j : Int) - (i : Int) - 1)

/-- occurrences `(start, end)` of the dictionary words in the text (`find_overlapping_iter`) -/
def dictMatches (words : List (List Char)) (text : List Char) : List (Nat × Nat) :=
  (List.range text.length).flatMap fun k =>
    words.filterMap fun w => if w.isSuffixOf (text.take (k + 1)) then some (k + 1 - w.length, k + 1) else none

/-- dictionary features pushed onto example `i` -/
def dictFeats (cfg : TrainCfg) (text : List Char) (i : Nat) : List Feature :=
  (dictMatches cfg.dictWords text).flatMap fun (st, en) =>
    let len := min (en - st) cfg.dictMaxLen
    (if st ≠ 0 ∧ i = st - 1 then [Feature.dictWord len .left] else [])
    ++ (if st ≤ i ∧ i + 1 < en then [Feature.dictWord len .inside] else [])
    ++ (if en ≠ text.length ∧ i = en - 1 then [Feature.dictWord len .right] else [])

/-- all features of boundary `i` (with multiplicities) -/
def genFeatures (cfg : TrainCfg) (text : List Char) (i : Nat) : List Feature :=
  (ngramFeats cfg.charW cfg.charN text i).map (fun p => Feature.charNgram p.1 p.2)
  ++ (ngramFeats cfg.typeW cfg.typeN (typesOf text) i).map (fun p => Feature.typeNgram p.1 p.2)
  ++ dictFeats cfg text i

/-- `add_example`: one example per annotated boundary (fix F-C10: unknown boundaries contribute nothing) -/
def examplesOf (cfg : TrainCfg) (s : Sentence) : List (List Feature × B) :=
  (s.bounds.zipIdx).filterMap fun (b, i) => if b = B.U then none else some (genFeatures cfg s.text i, b)

/-! ## assembling the boundary model from quantised weights -/

/-- lexicographic order used by the `BTreeMap`s (`String`: UTF-8 byte order = code point order; `Vec<u8>`) -/
def lexLt (lt : α → α → Bool) : List α → List α → Bool
  | [], [] => false
  | [], _ :: _ => true
  | _ :: _, [] => false
  | a :: as, b :: bs => if lt a b then true else if lt b a then false else lexLt lt as bs

/-- `map.get_mut(k)` / `map.insert(k, v)` on a key-sorted association list -/
def sortedUpsert (lt : List α → List α → Bool) (k : List α) (mk : Unit → Res (List Int)) (upd : List Int → Res (List Int)) :
    List (List α × List Int) → Res (List (List α × List Int))
  | [] => (mk ()).map fun v => [(k, v)]
  | (k', v') :: r =>
    if k' = k then (upd v').map fun v => (k', v) :: r
    else if lt k k' then (mk ()).map fun v => (k, v) :: (k', v') :: r
    else (sortedUpsert lt k mk upd r).map fun r' => (k', v') :: r'

/-- `weights[pos] = weight` (a checked index) -/
def setAt (v : List Int) (pos : Int) (w : Int) : Res (List Int) :=
  if 0 ≤ pos then
    if pos.toNat < v.length then .ok (v.set pos.toNat w) else .panic "weights[pos]: index out of bounds"
  else .panic "usize::try_from(window - len - rel).unwrap()"

/-- one n-gram feature with a non-zero weight: position `W − len − rel` in a vector of `2W − len + 1` entries -/
def placeNgram (lt : List α → List α → Bool) (W : Nat) (g : List α) (rel w : Int)
    (m : List (List α × List Int)) : Res (List (List α × List Int)) :=
  let pos : Int := (W : Int) - (g.length : Int) - rel
  sortedUpsert lt g
    (fun _ => if g.length ≤ 2 * W then setAt (List.replicate (2 * W + 1 - g.length) 0) pos w
              else .panic "window * 2 - len + 1 underflow")
    (fun v => setAt v pos w) m

structure Asm where
  charM : List (List Char × List Int) := []
  typeM : List (List Nat × List Int) := []
  dictW : List (Int × Int × Int)

def ltChar (a b : Char) : Bool := a.toNat < b.toNat
def ltNat (a b : Nat) : Bool := a < b

/-- the loop over `feature_ids` in `Trainer::train` (zero weights are skipped) -/
def asmStep (cfg : TrainCfg) (a : Asm) (fw : Feature × Int) : Res Asm :=
  if fw.2 = 0 then .ok a else
  match fw.1 with
  | .charNgram g rel => (placeNgram (lexLt ltChar) cfg.charW g rel fw.2 a.charM).map fun m => { a with charM := m }
  | .typeNgram g rel => (placeNgram (lexLt ltNat) cfg.typeW g rel fw.2 a.typeM).map fun m => { a with typeM := m }   -- fix F-C09
  | .dictWord len pos =>
    if len = 0 ∨ a.dictW.length < len then .panic "dict_weights[length - 1]"
    else
      let (l, i, r) := a.dictW.getD (len - 1) (0, 0, 0)
      let e := match pos with
        | .left => (fw.2, i, r)
        | .inside => (l, fw.2, r)
        | .right => (l, i, fw.2)
      .ok { a with dictW := a.dictW.set (len - 1) e }

def asmFold (cfg : TrainCfg) : List (Feature × Int) → Asm → Res Asm
  | [], a => .ok a
  | fw :: r, a =>
    match asmStep cfg a fw with
    | .ok a' => asmFold cfg r a'
    | e => e

/-- the dictionary part of the returned model: `[left, inside × (len − 1), right]` by length bucket -/
def dictRecord (dictW : List (Int × Int × Int)) (word : List Char) : Res DictWord :=
  let n := word.length
  if min n dictW.length = 0 then .panic "word_len.min(dict_weights.len()) - 1 underflow"
  else
    let (l, i, r) := dictW.getD (min n dictW.length - 1) (0, 0, 0)
    -- `first_mut = left; [1..len].fill(inside); last_mut = right` on a vector of `len + 1` entries
    let v := (List.replicate (n + 1) (0 : Int)).set 0 l
    let v := (List.range (n + 1)).map fun k => if 1 ≤ k ∧ k < n then i else v.getD k 0
    .ok { word := word, weights := v.set n r, comment := [] }

def mapRes {β γ : Type} (f : β → Res γ) : List β → Res (List γ)
  | [] => .ok []
  | x :: xs =>
    match f x with
    | .ok y => (mapRes f xs).map (y :: ·)
    | .err e => .err e
    | .panic p => .panic p
    | .ub p => .ub p

/-- `Trainer::train` after the learner returned: the boundary part of the model -/
def assembleBoundary (cfg : TrainCfg) (trace : List (Feature × Int)) (bias : Int) (tagModels : List TagModel) : Res WModel :=
  match asmFold cfg trace { dictW := List.replicate cfg.dictMaxLen (0, 0, 0) } with
  | .ok a =>
    match mapRes (dictRecord a.dictW) cfg.dictWords with
    | .ok dict =>
      .ok { charNgrams := a.charM.map fun e => ⟨e.1, e.2⟩, typeNgrams := a.typeM.map fun e => ⟨e.1, e.2⟩, dict := dict,
            bias := bias, charW := cfg.charW, typeW := cfg.typeW, tagModels := tagModels }
    | .err e => .err e
    | .panic p => .panic p
    | .ub p => .ub p
  | .err e => .err e
  | .panic p => .panic p
  | .ub p => .ub p

/-! ## tag trainer -/

inductive TagFeat
  | charNgram (g : List Char) (rel : Nat)
  | typeNgram (g : List Nat) (rel : Nat)
deriving DecidableEq, Repr

/-- tag n-grams of the token `[st, en)`: for `n` in `0..N` the n-grams of length `(en − st) + n + 1` that contain the token;
`rel` = number of characters of the n-gram after the token's end.
Documentation only: no listed property constrains what the tag learner is given (C12 takes the features from the hook trace), so this function
feeds no output of the driver and no theorem; the model-mutation run (DESIGN.md 4.5) reports it as unconstrained, on purpose. -/
def tagNgrams (N : Nat) (seq : List α) (st en : Nat) : List (List α × Nat) :=
  (List.range N).flatMap fun n =>
    let L := (en - st) + n + 1
    let lo := en - L
    let hi := min (st + 1) (seq.length - (L - 1))
    (List.range' lo (hi - lo)).map fun i => ((seq.drop i).take L, i + L - en)

structure TagExample where
  surface : List Char
  tags : List Tag
  feats : List TagFeat
deriving Repr

/-- every token of a sentence with its tag slice and tag features -/
def tokenExamplesOf (cfg : TrainCfg) (s : Sentence) : Res (List TagExample) :=
  mapRes (fun (se : Nat × Nat) =>
    match s.substring se.1 se.2, s.tokenTags se.2 with
    | .ok surf, .ok tags =>
      .ok { surface := surf, tags := tags,
            feats := (tagNgrams cfg.charN s.text se.1 se.2).map (fun p => TagFeat.charNgram p.1 p.2)
              ++ (tagNgrams cfg.typeN s.types se.1 se.2).map (fun p => TagFeat.typeNgram p.1 p.2) }
    | .panic p, _ => .panic p
    | _, .panic p => .panic p
    | _, _ => .panic "?") (iterTokens s.bounds)

/-- `TagTrainer::add_example`: tokens of sentences without tag slots are skipped -/
def tagExamplesOf (cfg : TrainCfg) (s : Sentence) : Res (List TagExample) :=
  (tokenExamplesOf cfg s).map fun l => l.filter fun e => !e.tags.isEmpty

/-- first-seen distinct tags per category (`tag_ids` / `tags`) -/
def collectTags (examples : List (List Tag)) : List (List (List Char)) :=
  let nTags := examples.foldl (fun acc x => max acc x.length) 0
  (List.range nTags).map fun j =>
    examples.foldl (fun acc ts => match ts[j]? with
      | some (some t) => if acc.contains t then acc else acc ++ [t]
      | _ => acc) []

/-- quantised tag weights: `(class offset, class, feature or bias, weight)` -/
structure TagTraceItem where
  token : List Char
  offset : Nat
  cls : Nat
  feat : Option TagFeat      -- `none` = bias
  weight : Int
deriving Repr

def ltPairC (a b : List Char × Nat) : Bool :=
  if lexLt ltChar a.1 b.1 then true else if a.1 = b.1 then a.2 < b.2 else false
def ltPairT (a b : List Nat × Nat) : Bool :=
  if lexLt ltNat a.1 b.1 then true else if a.1 = b.1 then a.2 < b.2 else false

/-- `entry((ngram, rel)).or_insert_with(|| vec![0; n_class])[slot] = weight` on a key-sorted association list -/
def tagUpsert {κ : Type} [DecidableEq κ] (lt : κ → κ → Bool) (nClass : Nat) (k : κ) (slot : Nat) (w : Int) :
    List (κ × List Int) → Res (List (κ × List Int))
  | [] => if slot < nClass then .ok [(k, (List.replicate nClass 0).set slot w)] else .panic "weights[class_offset + cls]"
  | (k', v) :: r =>
    if k' = k then (if slot < v.length then .ok ((k', v.set slot w) :: r) else .panic "weights[class_offset + cls]")
    else if lt k k' then
      (if slot < nClass then .ok ((k, (List.replicate nClass 0).set slot w) :: (k', v) :: r) else .panic "weights[class_offset + cls]")
    else (tagUpsert lt nClass k slot w r).map fun r' => (k', v) :: r'

/-- group a `(ngram, rel)`-sorted list by n-gram -/
def groupTagWeights {β : Type} [DecidableEq β] : List ((List β × Nat) × List Int) → List (TagNgramData β)
  | [] => []
  | ((g, rel), w) :: r =>
    match groupTagWeights r with
    | d :: ds => if d.ngram = g then ⟨g, ⟨rel, w⟩ :: d.weights⟩ :: ds else ⟨g, [⟨rel, w⟩]⟩ :: d :: ds
    | [] => [⟨g, [⟨rel, w⟩]⟩]

/-- `train_tag` after the learner returned -/
def assembleTag (token : List Char) (examples : List (List Tag)) (trace : List TagTraceItem) : Res TagModel :=
  let tags := collectTags examples
  let nClass := ((tags.filter (fun c => 2 ≤ c.length)).map List.length).sum
  let mine := trace.filter fun t => t.token = token
  let biasR := mine.foldl (fun (acc : Res (List Int)) t => match acc, t.feat with
      | .ok b, none => if t.offset + t.cls < b.length then .ok (b.set (t.offset + t.cls) t.weight) else .panic "bias[class_offset + cls]"
      | acc, _ => acc) (.ok (List.replicate nClass 0))
  let charR := mine.foldl (fun (acc : Res (List ((List Char × Nat) × List Int))) t => match acc, t.feat with
      | .ok m, some (.charNgram g rel) => if t.weight = 0 then .ok m else tagUpsert ltPairC nClass (g, rel) (t.offset + t.cls) t.weight m
      | acc, _ => acc) (.ok [])
  let typeR := mine.foldl (fun (acc : Res (List ((List Nat × Nat) × List Int))) t => match acc, t.feat with
      | .ok m, some (.typeNgram g rel) => if t.weight = 0 then .ok m else tagUpsert ltPairT nClass (g, rel) (t.offset + t.cls) t.weight m
      | acc, _ => acc) (.ok [])
  match biasR, charR, typeR with
  | .ok b, .ok c, .ok t =>
    .ok { token := token, tags := tags, charNgrams := groupTagWeights c, typeNgrams := groupTagWeights t, bias := b }
  | .panic p, _, _ => .panic p
  | _, .panic p, _ => .panic p
  | _, _, .panic p => .panic p
  | _, _, _ => .panic "?"

/-- insert into a key-sorted association list of example lists (the `BTreeMap<&str, Vec<TagExample>>`) -/
def exInsert (k : List Char) (v : List Tag) : List (List Char × List (List Tag)) → List (List Char × List (List Tag))
  | [] => [(k, [v])]
  | (k', vs) :: r =>
    if k' = k then (k', vs ++ [v]) :: r
    else if lexLt ltChar k k' then (k, [v]) :: (k', vs) :: r
    else (k', vs) :: exInsert k v r

/-- `default_tags` of `Trainer::new`: first occurrence of every surface in the tag dictionary -/
def defaultTags (dict : List TagExample) : List (List Char × List Tag) :=
  dict.foldl (fun acc e => if acc.any (fun x => x.1 = e.surface) then acc else acc ++ [(e.surface, e.tags)]) []

/-- `TagTrainer::train`: tokens in sorted order; dictionary-only tokens with at least one tag get one feature-less example -/
def assembleTags (corpus : List TagExample) (dict : List (List Char × List Tag)) (trace : List TagTraceItem) : Res (List TagModel) :=
  let m := corpus.foldl (fun acc e => exInsert e.surface e.tags acc) []
  let m := dict.foldl (fun acc d =>
    if d.2.any Option.isSome && !(acc.any fun x => x.1 = d.1) then exInsert d.1 d.2 acc else acc) m
  mapRes (fun (e : List Char × List (List Tag)) => assembleTag e.1 e.2 trace) m

end V

namespace V

/-- `Trainer::new` fails iff the dictionary automaton cannot be built (an empty or a repeated word) -/
def trainerNewOk (cfg : TrainCfg) : Bool :=
  cfg.dictWords.all (fun w => !w.isEmpty) && decide cfg.dictWords.Nodup

end V
