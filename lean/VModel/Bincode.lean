import VModel.Scorer
/-!
# VModel.Bincode — byte-exact model of the bincode 2 `standard()` wire format as used by `Model`

* unsigned varint: `< 251` one byte; `251` + u16 LE; `252` + u32 LE; `253` + u64 LE; `254` (u128) and `255` are
  rejected for the integer widths that occur here; a discriminant wider than the target type is rejected;
* signed integers: zigzag, then unsigned varint; `u8`: one raw byte;
* `Vec<T>` / `String`: length as u64 varint, then the items / the UTF-8 bytes (validated on decode);
* structs: fields in declaration order; newtype structs: the inner value;
* `MODEL_MAGIC` in front of the model.
-/
namespace V.Bin

abbrev Bytes := List UInt8
/-- a decoder consumes a prefix of its input and returns the rest -/
abbrev Dec (α : Type) := Bytes → Res (α × Bytes)

def derr {α : Type} : Res α := .err .decode

/-! ## integers -/

def leBytes : Nat → Nat → Bytes
  | 0, _ => []
  | k + 1, n => UInt8.ofNat (n % 256) :: leBytes k (n / 256)

def leValue : Bytes → Nat
  | [] => 0
  | b :: r => b.toNat + 256 * leValue r

/-- `varint_encode_u64` (values below 2^64) -/
def encVarint (n : Nat) : Bytes :=
  if n < 251 then [UInt8.ofNat n]
  else if n < 2 ^ 16 then 251 :: leBytes 2 n
  else if n < 2 ^ 32 then 252 :: leBytes 4 n
  else 253 :: leBytes 8 n

def takeN (k : Nat) (bs : Bytes) : Res (Bytes × Bytes) :=
  if k ≤ bs.length then .ok (bs.take k, bs.drop k) else derr

/-- `varint_decode_u64` / `varint_decode_u32` (`wide = false` rejects the u64 discriminant) -/
def decVarint (wide : Bool) : Dec Nat
  | [] => derr
  | b :: r =>
    if b.toNat < 251 then .ok (b.toNat, r)
    else if b.toNat = 251 then
      match takeN 2 r with
      | .ok (x, r') => .ok (leValue x, r')
      | _ => derr
    else if b.toNat = 252 then
      match takeN 4 r with
      | .ok (x, r') => .ok (leValue x, r')
      | _ => derr
    else if b.toNat = 253 && wide then
      match takeN 8 r with
      | .ok (x, r') => .ok (leValue x, r')
      | _ => derr
    else derr

def zigzag (i : Int) : Nat := if 0 ≤ i then (2 * i).toNat else (-2 * i - 1).toNat
def unzigzag (n : Nat) : Int := if n % 2 = 0 then (n / 2 : Nat) else -(((n + 1) / 2 : Nat) : Int)

def encI32 (i : Int) : Bytes := encVarint (zigzag i)
def decI32 : Dec Int := fun bs =>
  match decVarint false bs with
  | .ok (n, r) => .ok (unzigzag n, r)
  | _ => derr

def encU8 (n : Nat) : Bytes := [UInt8.ofNat n]
def decU8 : Dec Nat
  | [] => derr
  | b :: r => .ok (b.toNat, r)

/-! ## UTF-8 (mirrors `core::str::from_utf8`: shortest form, no surrogates, at most U+10FFFF) -/

def utf8EncodeChar (c : Char) : Bytes :=
  let n := c.toNat
  if n < 0x80 then [UInt8.ofNat n]
  else if n < 0x800 then [UInt8.ofNat (0xC0 + n / 64), UInt8.ofNat (0x80 + n % 64)]
  else if n < 0x10000 then [UInt8.ofNat (0xE0 + n / 4096), UInt8.ofNat (0x80 + n / 64 % 64), UInt8.ofNat (0x80 + n % 64)]
  else [UInt8.ofNat (0xF0 + n / 262144), UInt8.ofNat (0x80 + n / 4096 % 64), UInt8.ofNat (0x80 + n / 64 % 64),
        UInt8.ofNat (0x80 + n % 64)]

def utf8Encode (s : List Char) : Bytes := s.flatMap utf8EncodeChar

def isCont (b : UInt8) : Bool := 0x80 ≤ b.toNat && b.toNat < 0xC0

def mkChar? (n : Nat) : Option Char :=
  if h : n.isValidChar then some (Char.ofNatAux n h) else none

/-- one scalar value from the front of a byte string -/
def utf8DecodeChar? : Bytes → Option (Char × Bytes)
  | [] => none
  | b0 :: r =>
    let a := b0.toNat
    if a < 0x80 then (mkChar? a).map (·, r)
    else if a < 0xC2 then none
    else if a < 0xE0 then
      match r with
      | b1 :: r' => if isCont b1 then (mkChar? ((a - 0xC0) * 64 + (b1.toNat - 0x80))).map (·, r') else none
      | _ => none
    else if a < 0xF0 then
      match r with
      | b1 :: b2 :: r' =>
        if isCont b1 && isCont b2 then
          let n := (a - 0xE0) * 4096 + (b1.toNat - 0x80) * 64 + (b2.toNat - 0x80)
          if n < 0x800 then none else (mkChar? n).map (·, r')
        else none
      | _ => none
    else if a < 0xF5 then
      match r with
      | b1 :: b2 :: b3 :: r' =>
        if isCont b1 && isCont b2 && isCont b3 then
          let n := (a - 0xF0) * 262144 + (b1.toNat - 0x80) * 4096 + (b2.toNat - 0x80) * 64 + (b3.toNat - 0x80)
          if n < 0x10000 then none else (mkChar? n).map (·, r')
        else none
      | _ => none
    else none

def utf8DecodeFuel : Nat → Bytes → Option (List Char)
  | _, [] => some []
  | 0, _ :: _ => none
  | fuel + 1, bs =>
    match utf8DecodeChar? bs with
    | none => none
    | some (c, r) => (utf8DecodeFuel fuel r).map (c :: ·)

def utf8Decode? (bs : Bytes) : Option (List Char) := utf8DecodeFuel bs.length bs

/-! ## containers -/

def encList {α : Type} (e : α → Bytes) (xs : List α) : Bytes := xs.flatMap e

def decN {α : Type} (d : Dec α) : Nat → Dec (List α)
  | 0, bs => .ok ([], bs)
  | n + 1, bs =>
    match d bs with
    | .ok (x, r) =>
      match decN d n r with
      | .ok (xs, r') => .ok (x :: xs, r')
      | .err e => .err e
      | .panic p => .panic p
      | .ub p => .ub p
    | .err e => .err e
    | .panic p => .panic p
    | .ub p => .ub p

def encVec {α : Type} (e : α → Bytes) (xs : List α) : Bytes := encVarint xs.length ++ encList e xs

def decVec {α : Type} (d : Dec α) : Dec (List α) := fun bs =>
  match decVarint true bs with
  | .ok (n, r) =>
    -- every item needs at least one byte: a declared length beyond the remaining input cannot succeed
    if r.length < n then derr else decN d n r
  | _ => derr

def encString (s : List Char) : Bytes := let b := utf8Encode s; encVarint b.length ++ b

def decString : Dec (List Char) := fun bs =>
  match decVarint true bs with
  | .ok (n, r) =>
    match takeN n r with
    | .ok (x, r') =>
      match utf8Decode? x with
      | some s => .ok (s, r')
      | none => derr
    | _ => derr
  | _ => derr

/-- `d1` then `d2` -/
def decPair {α β : Type} (da : Dec α) (db : Dec β) : Dec (α × β) := fun bs =>
  match da bs with
  | .ok (a, r) =>
    match db r with
    | .ok (b, r') => .ok ((a, b), r')
    | .err e => .err e
    | .panic p => .panic p
    | .ub p => .ub p
  | .err e => .err e
  | .panic p => .panic p
  | .ub p => .ub p

def decMap {α β : Type} (f : α → β) (d : Dec α) : Dec β := fun bs =>
  match d bs with
  | .ok (a, r) => .ok (f a, r)
  | .err e => .err e
  | .panic p => .panic p
  | .ub p => .ub p

/-! ## the model -/

def encNgramC (d : NgramData Char) : Bytes := encString d.ngram ++ encVec encI32 d.weights
def decNgramC : Dec (NgramData Char) := decMap (fun p => ⟨p.1, p.2⟩) (decPair decString (decVec decI32))

def encNgramT (d : NgramData Nat) : Bytes := encVec encU8 d.ngram ++ encVec encI32 d.weights
def decNgramT : Dec (NgramData Nat) := decMap (fun p => ⟨p.1, p.2⟩) (decPair (decVec decU8) (decVec decI32))

def encWord (d : DictWord) : Bytes := encString d.word ++ encVec encI32 d.weights ++ encString d.comment
def decWord : Dec DictWord :=
  decMap (fun p => ⟨p.1, p.2.1, p.2.2⟩) (decPair decString (decPair (decVec decI32) decString))

def encTagWeight (w : TagWeight) : Bytes := encU8 w.rel ++ encVec encI32 w.weights
def decTagWeight : Dec TagWeight := decMap (fun p => ⟨p.1, p.2⟩) (decPair decU8 (decVec decI32))

def encTagNgramC (d : TagNgramData Char) : Bytes := encString d.ngram ++ encVec encTagWeight d.weights
def decTagNgramC : Dec (TagNgramData Char) := decMap (fun p => ⟨p.1, p.2⟩) (decPair decString (decVec decTagWeight))

def encTagNgramT (d : TagNgramData Nat) : Bytes := encVec encU8 d.ngram ++ encVec encTagWeight d.weights
def decTagNgramT : Dec (TagNgramData Nat) := decMap (fun p => ⟨p.1, p.2⟩) (decPair (decVec decU8) (decVec decTagWeight))

def encTagModel (t : TagModel) : Bytes :=
  encString t.token ++ encVec (encVec encString) t.tags ++ encVec encTagNgramC t.charNgrams
    ++ encVec encTagNgramT t.typeNgrams ++ encVec encI32 t.bias
def decTagModel : Dec TagModel :=
  decMap (fun p => ⟨p.1, p.2.1, p.2.2.1, p.2.2.2.1, p.2.2.2.2⟩)
    (decPair decString (decPair (decVec (decVec decString)) (decPair (decVec decTagNgramC)
      (decPair (decVec decTagNgramT) (decVec decI32)))))

def encModelData (m : WModel) : Bytes :=
  encVec encNgramC m.charNgrams ++ encVec encNgramT m.typeNgrams ++ encVec encWord m.dict ++ encI32 m.bias
    ++ encU8 m.charW ++ encU8 m.typeW ++ encVec encTagModel m.tagModels
def decModelData : Dec WModel :=
  decMap (fun p => ⟨p.1, p.2.1, p.2.2.1, p.2.2.2.1, p.2.2.2.2.1, p.2.2.2.2.2.1, p.2.2.2.2.2.2⟩)
    (decPair (decVec decNgramC) (decPair (decVec decNgramT) (decPair (decVec decWord) (decPair decI32
      (decPair decU8 (decPair decU8 (decVec decTagModel)))))))

/-- `b"VaporettoTokenizer 0.5.0\n"` -/
def magic : Bytes :=
  [0x56, 0x61, 0x70, 0x6f, 0x72, 0x65, 0x74, 0x74, 0x6f, 0x54, 0x6f, 0x6b, 0x65, 0x6e, 0x69, 0x7a, 0x65, 0x72, 0x20,
   0x30, 0x2e, 0x35, 0x2e, 0x30, 0x0a]

/-- `Model::to_vec` -/
def toVec (m : WModel) : Bytes := magic ++ encModelData m

/-- `Model::read_slice` (after fix F-C07: a slice shorter than the header is a version mismatch, not a panic) -/
def readSlice (bs : Bytes) : Res (WModel × Bytes) :=
  if bs.take magic.length ≠ magic then .err .invalidModel
  else
    match decModelData (bs.drop magic.length) with
    | .ok (m, r) => .ok (m, r)
    | .err _ => .err .decode
    | .panic p => .panic p
    | .ub p => .ub p

/-- `Model::read` from a reader that delivers `bs` and then (if `fail`) an I/O error instead of end-of-file -/
def read (bs : Bytes) : Res WModel :=
  if bs.length < magic.length then .err .io           -- `read_exact` of the header fails
  else if bs.take magic.length ≠ magic then .err .invalidModel
  else
    match decModelData (bs.drop magic.length) with
    | .ok (m, _) => .ok m
    | .err _ => .err .decode
    | .panic p => .panic p
    | .ub p => .ub p

/-- `Model::write` into a writer that accepts `budget` bytes and then fails -/
def write (m : WModel) (budget : Nat) : Res Bytes :=
  let out := toVec m
  if out.length ≤ budget then .ok out
  else if budget < magic.length then .err .io else .err .encode

/-- the values the wire format can carry -/
structure Encodable (m : WModel) : Prop where
  bias : -(2 ^ 31 : Int) ≤ m.bias ∧ m.bias < 2 ^ 31
  charW : m.charW < 256
  typeW : m.typeW < 256
  i32 : ∀ w, (w ∈ m.charNgrams.flatMap (·.weights) ∨ w ∈ m.typeNgrams.flatMap (·.weights) ∨ w ∈ m.dict.flatMap (·.weights)
    ∨ w ∈ m.tagModels.flatMap (fun t => t.bias ++ t.charNgrams.flatMap (fun g => g.weights.flatMap (·.weights))
        ++ t.typeNgrams.flatMap (fun g => g.weights.flatMap (·.weights)))) → -(2 ^ 31 : Int) ≤ w ∧ w < 2 ^ 31
  codes : ∀ c, (c ∈ m.typeNgrams.flatMap (·.ngram) ∨ c ∈ m.tagModels.flatMap (fun t => t.typeNgrams.flatMap (·.ngram))) → c < 256
  /-- every length prefix fits the u64 varint (each item takes at least one byte) -/
  size : (encModelData m).length < 2 ^ 64
  rels : ∀ r, r ∈ m.tagModels.flatMap (fun t => (t.charNgrams.flatMap (fun g => g.weights.map (·.rel)))
      ++ t.typeNgrams.flatMap (fun g => g.weights.map (·.rel))) → r < 256

end V.Bin
