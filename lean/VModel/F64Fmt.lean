import VModel.F64Arith
/-!
# VModel.F64Fmt — the decimal text of an `f64`: Rust's `Display` (`format!("{}", x)`, no precision), exactly

`impl Display for f64` without a precision is `float_to_decimal_common_shortest(fmt, self, Sign::Minus, 0)`:
`flt2dec::to_shortest_str` with `strategy::grisu::format_shortest` (falling back to `strategy::dragon::format_shortest`
when Grisu gives up) and `digits_to_dec_str` with `frac_digits = 0`.  `format_shortest` returns the SHORTEST digit string
`d₁…d_k` and exponent `e` such that `0.d₁…d_k × 10^e` lies in the rounding interval of the double — the interval between the
midpoints to the two neighbouring doubles, end points included exactly when the 53-bit significand is even (round half to
even reads an end point back as the even neighbour) — and among the strings of that length in the interval the one closest to
the double; an exact tie between the two candidates goes upwards (Dragon: `round up if 2*rem >= scale`).  Such ties DO occur:
`562949953421312.25 = (2^51 + 1)/4` has the two 16-digit candidates `…312.2` and `…312.3` at the same distance, both inside
the interval of half-width `2^-4`; Rust prints `562949953421312.3`.

Here the result is computed by direct search over `k = 1, 2, …`: for each `k` the two candidates `⌊x·10^(k−e)⌋` and
`⌈x·10^(k−e)⌉` (`10^(e−1) ≤ x < 10^e`) are tested for membership in the interval with exact `Nat` arithmetic.  Same
representation as `VModel/Quantize.lean`: the magnitude is a natural number of *units* `2^-1074`.  Core Lean only, no `Float`,
nothing `partial`; everything is structural recursion on a fuel, so the kernel can evaluate it.

The interval is the mathematical one.  Rust's `decode` deviates from it in two places, neither of which is observable:
for a subnormal `inclusive` is always `true` (the parity is taken of the mantissa shifted left by one), and for the least
normal number `2^-1022` the lower half of the interval is taken as a quarter of a grid step although its lower neighbour is a
full step away; in both cases no decimal of at most 17 digits lies in the difference (the end points have more than 700
significant digits; for `2^-1022` see the example at the end).
-/
namespace V

open F64

/-! ## the rounding interval -/

/-- is the rational `n/d` (in units, `0 < d`) inside the rounding interval of the double with magnitude `a` units?
With `t = ⌊log2 a⌋ − 52` the grid step at `a` is `2^t` units (1 unit below `2^53` units: subnormals and the first normal
binade); the upper half-width is `2^t/2`, the lower one too except at a power of two `a = 2^(52+t)`, `t > 0`, where the grid
below is twice as fine: `2^t/4`.  In quarter units, without subtraction:
`4·a·d − down·d ≤ 4·n ≤ 4·a·d + up·d`, strict when the significand `a / 2^t` is odd -/
def F64.inRoundInterval (a n d : Nat) : Bool :=
  let t := a.log2 - 52
  let up := 2 * 2 ^ t
  let down := if a = 2 ^ (52 + t) ∧ t ≠ 0 then 2 ^ t else 2 * 2 ^ t
  if a / 2 ^ t % 2 = 0 then decide (4 * a * d ≤ 4 * n + down * d) && decide (4 * n ≤ 4 * a * d + up * d)
  else decide (4 * a * d < 4 * n + down * d) && decide (4 * n < 4 * a * d + up * d)

/-- the decimal `m × 10^p` as a fraction of units: numerator … -/
def decNum (m : Nat) (p : Int) : Nat := m * 10 ^ p.toNat * unit
/-- … and denominator -/
def decDen (p : Int) : Nat := 10 ^ (-p).toNat

/-- is the decimal `m × 10^p` inside the rounding interval of `a` units? -/
def decInInterval (a m : Nat) (p : Int) : Bool := F64.inRoundInterval a (decNum m p) (decDen p)

/-! ## decimal digits -/

/-- the decimal digits of `m`, least significant first (`[0]` for `0`); the fuel only has to exceed the number of digits -/
def digitsRev : Nat → Nat → List Nat
  | 0, _ => []
  | fuel + 1, m => if m < 10 then [m] else m % 10 :: digitsRev fuel (m / 10)

/-- the decimal digits of `m`, most significant first -/
def decDigits (m : Nat) : List Nat := (digitsRev (m.log2 + 1) m).reverse

/-- the number written by the digits `ds` (most significant first) -/
def ofDigits (ds : List Nat) : Nat := ds.foldl (fun acc d => acc * 10 + d) 0

/-- remove the factors 10 from `m`, counting them in the exponent: the value `m × 10^p` stays -/
def stripZeros : Nat → Nat → Int → Nat × Int
  | 0, m, p => (m, p)
  | fuel + 1, m, p => if m % 10 = 0 ∧ m ≠ 0 then stripZeros fuel (m / 10) (p + 1) else (m, p)

/-! ## the decimal exponent -/

/-- for `0 < x < unit`: how often `x` can be multiplied by 10 and stay below `unit` (the number of zeros after the point) -/
def leadingZeros : Nat → Nat → Nat
  | 0, _ => 0
  | fuel + 1, x => if x * 10 < unit then leadingZeros fuel (x * 10) + 1 else 0

/-- the decimal exponent `e` of `a` units (`0 < a`): `10^(e−1) ≤ a·2^-1074 < 10^e` -/
def decExponent (a : Nat) : Int :=
  if unit ≤ a then ((decDigits (a / unit)).length : Int) else -(leadingZeros 400 a : Int)

/-! ## shortest digits -/

/-- the search over the number of digits `k`: the first `k` for which one of the two neighbours of `x·10^(k−e)` on the
integers lies in the rounding interval; if both do, the nearer one (a tie goes up) -/
def shortestSearch (a : Nat) (e : Int) : Nat → Nat → Option (Nat × Int)
  | 0, _ => none
  | fuel + 1, k =>
    let p : Int := e - (k : Int)
    let num := a * 10 ^ (-p).toNat
    let den := unit * 10 ^ p.toNat
    let f := num / den
    let lo := decInInterval a f p
    let hi := decInInterval a (f + 1) p
    if lo && hi then some (if 2 * (num % den) < den then f else f + 1, p)
    else if lo then some (f, p)
    else if hi then some (f + 1, p)
    else shortestSearch a e fuel (k + 1)

/-- the shortest decimal `m × 10^p` (`m` not divisible by 10) in the rounding interval of `a` units (`0 < a`), nearest to
`a`.  Every double is found with `k ≤ 17`; the search is given 20 rounds and, to be total on all of `Nat`, ends with the exact
decimal expansion `a·5^1074 × 10^-1074` -/
def f64ShortestDec (a : Nat) : Nat × Int :=
  let r := (shortestSearch a (decExponent a) 20 1).getD (a * 5 ^ 1074, -1074)
  stripZeros (r.1.log2 + 1) r.1 r.2

/-- `format_shortest`: the digits `d₁…d_k` (`d₁ ≠ 0`, `d_k ≠ 0`) and the exponent `e` with value `0.d₁…d_k × 10^e` -/
def f64ShortestDigits (units : Nat) : List Nat × Int :=
  let r := f64ShortestDec units
  let ds := decDigits r.1
  (ds, r.2 + (ds.length : Int))

/-! ## reading a decimal back (`str::parse::<f64>`) -/

/-- the magnitude (in units, exponent unbounded above) of the double nearest to the decimal `m × 10^p`: correctly rounded,
to nearest, ties to even -/
def roundDec (m : Nat) (p : Int) : Nat := roundUnits (decNum m p) (decDen p)

/-- the double nearest to `0.d₁…d_k × 10^e` — what `"0.d₁…d_k e<e>".parse::<f64>()` computes (Rust's `dec2flt` is correctly
rounded); `+∞` when the rounded value leaves the finite range -/
def decimalToF64 (ds : List Nat) (e : Int) : F64 := F64.pack false (roundDec (ofDigits ds) (e - (ds.length : Int)))

/-! ## `Display` -/

/-- `'0' + d` -/
def digitChar (d : Nat) : Char := Char.ofNat (48 + d)

/-- `digits_to_dec_str` with `frac_digits = 0` -/
def digitsToDecStr (ds : List Nat) (e : Int) : List Char :=
  let cs := ds.map digitChar
  if e ≤ 0 then '0' :: '.' :: (List.replicate (-e).toNat '0' ++ cs)
  else if ds.length ≤ e.toNat then cs ++ List.replicate (e.toNat - ds.length) '0'
  else cs.take e.toNat ++ '.' :: cs.drop e.toNat

/-- `format!("{}", x)` for an `f64`: never scientific notation; `-0` keeps its sign, NaN has none -/
def f64Display : F64 → List Char
  | .nan => ['N', 'a', 'N']
  | .inf s => (if s then ['-'] else []) ++ ['i', 'n', 'f']
  | .fin s a =>
    (if s then ['-'] else []) ++
      (if a = 0 then ['0'] else digitsToDecStr (f64ShortestDigits a).1 (f64ShortestDigits a).2)

/-- `format!("{}", n)` for a non-negative integer -/
def natDisplay (n : Nat) : List Char := (decDigits n).map digitChar

/-! ## what `evaluate` prints -/

/-- the three lines `Precision: …`, `Recall: …`, `F1: …` -/
def evalReportLines (m : F64 × F64 × F64) : List Char :=
  "Precision: ".toList ++ f64Display m.1 ++ '\n' :: ("Recall: ".toList ++ f64Display m.2.1 ++
    '\n' :: ("F1: ".toList ++ f64Display m.2.2 ++ ['\n']))

/-- the complete standard output of `evaluate --metric char` after counting -/
def evalReportChar (tp tn fp fn : Nat) : List Char :=
  evalReportLines (evalMetricsChar (tp, tn, fp, fn)) ++
    ("TP: ".toList ++ natDisplay tp ++ ", TN: ".toList ++ natDisplay tn ++ ", FP: ".toList ++ natDisplay fp ++
      ", FN: ".toList ++ natDisplay fn ++ ['\n'])

/-- the complete standard output of `evaluate --metric word` after counting -/
def evalReportWord (cor sys ref : Nat) : List Char := evalReportLines (evalMetricsWord (cor, sys, ref))

/-- `D=<precision>,<recall>,<f1>` for the line protocol -/
def displayText (m : F64 × F64 × F64) : String :=
  "D=" ++ String.ofList (f64Display m.1) ++ "," ++ String.ofList (f64Display m.2.1) ++ "," ++
    String.ofList (f64Display m.2.2)

/-! ## sanity: known outputs of Rust's `format!("{}", x)` (kernel evaluation; cross-checked against `rustc 1.95` on
487 333 distinct bit patterns, see DESIGN) -/
namespace F64FmtEx

/-- the text for a bit pattern -/
def disp (b : Nat) : List Char := f64Display (F64.ofBits b)
/-- the text for a quotient of integers -/
def dispQ (a b : Nat) : List Char := f64Display (f64Div (f64OfNat a) (f64OfNat b))

example : dispQ 1 3 = "0.3333333333333333".toList ∧ dispQ 2 3 = "0.6666666666666666".toList ∧
    dispQ 1 10 = "0.1".toList ∧ dispQ 1 2 = "0.5".toList ∧ dispQ 1 1 = "1".toList ∧ dispQ 0 1 = "0".toList ∧
    dispQ 1 2147483647 = "0.0000000004656612875245797".toList ∧ dispQ 0 0 = "NaN".toList ∧ dispQ 1 0 = "inf".toList := by
  decide +kernel
/-- `5e-324`, the least subnormal: 323 zeros after the point, then `5` -/
example : disp 1 = '0' :: '.' :: (List.replicate 323 '0' ++ ['5']) := by decide +kernel
/-- the largest double `1.7976931348623157e308`: 309 digits -/
example : disp 0x7FEFFFFFFFFFFFFF = "17976931348623157".toList ++ List.replicate 292 '0' := by decide +kernel
/-- `0.1 + 0.2`, `2^53`, `1e21`, `123456.789`, `-0`, `±∞` -/
example : disp 0x3FD3333333333334 = "0.30000000000000004".toList ∧ disp 0x4340000000000000 = "9007199254740992".toList ∧
    f64Display (f64OfNat (10 ^ 21)) = "1000000000000000000000".toList ∧ disp 0x40FE240C9FBE76C9 = "123456.789".toList ∧
    disp 0x8000000000000000 = "-0".toList ∧ disp 0x7FF0000000000000 = "inf".toList ∧
    disp 0xFFF0000000000000 = "-inf".toList ∧ disp 0xBFE0000000000000 = "-0.5".toList := by decide +kernel
/-- the end points count for an even significand only: `10^23` is the midpoint of `0x44B52D02C7E14AF6`
(even: prints as `1e23`) and `…AF7` (odd: needs 17 digits) -/
example : disp 0x44B52D02C7E14AF6 = "100000000000000000000000".toList ∧
    disp 0x44B52D02C7E14AF5 = "99999999999999970000000".toList ∧
    disp 0x44B52D02C7E14AF7 = "100000000000000010000000".toList := by decide +kernel
/-- the least normal number `2^-1022 = 2.2250738585072014e-308` (Rust's narrower interval gives the same 17 digits) -/
example : f64ShortestDigits (2 ^ 52) = ([2, 2, 2, 5, 0, 7, 3, 8, 5, 8, 5, 0, 7, 2, 0, 1, 4], -307) := by decide +kernel
/-- an exact tie between the two 16-digit candidates `…312.2` and `…312.3` of `(2^51 + 1)/4`: upwards, as Dragon does -/
example : disp 0x4300000000000002 = "562949953421312.3".toList := by decide +kernel
/-- the complete output of `evaluate` for tp = 1, tn = 7, fp = 1, fn = 0, and for the word metric with (1, 2, 1) -/
example : evalReportChar 1 7 1 0 = "Precision: 0.5\nRecall: 1\nF1: 0.6666666666666666\nTP: 1, TN: 7, FP: 1, FN: 0\n".toList ∧
    evalReportWord 1 2 1 = "Precision: 0.5\nRecall: 1\nF1: 0.6666666666666666\n".toList ∧
    evalReportWord 0 0 0 = "Precision: NaN\nRecall: NaN\nF1: NaN\n".toList := by decide +kernel
example : displayText (evalMetrics 1 2 1) = "D=0.5,1,0.6666666666666666" := by decide +kernel

end F64FmtEx

end V
